/-
IANA "Resource Record (RR) TYPEs" and "DNS CLASSes" registries, restricted to
the mnemonics the library supports, written from the registry and not from the
library's constants.
-/
namespace Dns.Spec

def ianaType : List (String × Nat) :=
  [("A", 1), ("NS", 2), ("MD", 3), ("MF", 4), ("CNAME", 5), ("SOA", 6), ("MB", 7), ("MG", 8),
   ("MR", 9), ("NULL", 10), ("WKS", 11), ("PTR", 12), ("HINFO", 13), ("MINFO", 14), ("MX", 15),
   ("TXT", 16), ("RP", 17), ("AFSDB", 18), ("ISDN", 20), ("RouteThrough", 21) /- RT -/,
   ("NSAP", 22), ("NSAP_PTR", 23) /- NSAP-PTR -/, ("AAAA", 28), ("LOC", 29), ("SRV", 33),
   ("NAPTR", 35), ("KX", 36), ("CERT", 37), ("OPT", 41), ("DS", 43), ("IPSECKEY", 45),
   ("RRSIG", 46), ("NSEC", 47), ("DNSKEY", 48), ("DHCID", 49), ("ZONEMD", 63), ("SVCB", 64),
   ("HTTPS", 65), ("EUI48", 108), ("EUI64", 109), ("CAA", 257)]

def ianaQType : List (String × Nat) :=
  [("IXFR", 251), ("AXFR", 252), ("MAILB", 253), ("MAILA", 254), ("ANY", 255)]

def ianaClass : List (String × Nat) :=
  [("IN", 1), ("CS", 2), ("CH", 3), ("HS", 4), ("NONE", 254)]

def lookup (tbl : List (String × Nat)) (m : String) : Option Nat :=
  (tbl.find? (·.1 == m)).map (·.2)

end Dns.Spec
