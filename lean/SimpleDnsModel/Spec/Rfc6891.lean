/-
RFC 6891 §6.1.2–6.1.3: the OPT pseudo-record.

    NAME   root (one zero octet)
    TYPE   41
    CLASS  requestor's UDP payload size
    TTL    EXTENDED-RCODE (8 bits) | VERSION (8 bits) | DO Z (16 bits)
    RDLEN, RDATA = { OPTION-CODE (16) | OPTION-LENGTH (16) | OPTION-DATA }*

The 12-bit response code is (EXTENDED-RCODE << 4) | header RCODE.
-/
import SimpleDnsModel.Basic
namespace Dns.Spec.Rfc6891

/-- the TTL field -/
def ttl (extendedRcode version flags : Nat) : Nat :=
  extendedRcode * 2 ^ 24 + version * 2 ^ 16 + flags

def extendedRcodeOfTtl (t : Nat) : Nat := t / 2 ^ 24 % 256
def versionOfTtl (t : Nat) : Nat := t / 2 ^ 16 % 256
def flagsOfTtl (t : Nat) : Nat := t % 2 ^ 16

/-- split of a 12-bit response code -/
def headerRcode (rcode : Nat) : Nat := rcode % 16
def extendedRcode (rcode : Nat) : Nat := rcode / 16 % 256
def fullRcode (extended header : Nat) : Nat := extended * 16 + header

/-- the four TTL octets in the opposite order -/
def byteSwap32 (t : Nat) : Nat :=
  t % 256 * 2 ^ 24 + t / 256 % 256 * 2 ^ 16 + t / 65536 % 256 * 256 + t / 2 ^ 24 % 256

def encodeOptions : List (Nat × Bytes) → Bytes
  | [] => []
  | (c, d) :: xs =>
    [UInt8.ofNat (c / 256 % 256), UInt8.ofNat (c % 256), UInt8.ofNat (d.length / 256 % 256),
     UInt8.ofNat (d.length % 256)] ++ (d ++ encodeOptions xs)

end Dns.Spec.Rfc6891
