/-
RFC 1035 §4.1.4 written independently of the library: the inductive decoding
relation `Decodes`, and an executable reference decoder used as the oracle of
the correspondence check (`spec.name` in the driver).
-/
import SimpleDnsModel.Model.NameWire
namespace Dns

/-- `Decodes d off n`: reading labels from offset `off` of message `d` and
following compression pointers yields exactly the labels `n`. Least fixed
point: a pointer cycle has no derivation. Label type bits 01 and 10 have no
rule, so they never decode. -/
inductive Decodes (d : Bytes) : Nat → Name → Prop where
  | root {off} : d[off]? = some 0 → Decodes d off []
  | label {off} {b : UInt8} {l : Label} {rest : Name} :
      d[off]? = some b → 1 ≤ b.toNat → b.toNat ≤ 63 →
      l = (d.drop (off+1)).take b.toNat → off + 1 + b.toNat ≤ d.length →
      Decodes d (off + 1 + b.toNat) rest → Decodes d off (l :: rest)
  | ptr {off} {b b2 : UInt8} {n : Name} :
      d[off]? = some b → b.toNat &&& 0xC0 = 0xC0 → d[off+1]? = some b2 →
      Decodes d ((b.toNat &&& 0x3F) * 256 + b2.toNat) n → Decodes d off n

/-- the end of the in-place part of a name at `off`: just after the terminating zero or just
after the first pointer -/
inductive InPlaceEnd (d : Bytes) : Nat → Nat → Prop where
  | root {off} : d[off]? = some 0 → InPlaceEnd d off (off + 1)
  | label {off e} {b : UInt8} : d[off]? = some b → 1 ≤ b.toNat → b.toNat ≤ 63 →
      InPlaceEnd d (off + 1 + b.toNat) e → InPlaceEnd d off e
  | ptr {off} {b : UInt8} : d[off]? = some b → b.toNat &&& 0xC0 = 0xC0 → InPlaceEnd d off (off + 2)

inductive SpecRes where
  | ok (n : Name) (inPlaceEnd : Nat)
  | bad (reason : String)
deriving Repr, DecidableEq

/-- reference decoder: `fuel` bounds the number of elements visited (a decoding without a cycle
visits each offset at most once) -/
def specDecode (d : Bytes) : Nat → Nat → Bool → Nat → List Label → SpecRes
  | 0, _, _, _, _ => .bad "cycle"
  | fuel+1, off, jumped, endp, acc =>
    match d[off]? with
    | none => .bad "outside"
    | some b =>
      if b = 0 then .ok acc.reverse (if jumped then endp else off + 1)
      else if b.toNat &&& 0xC0 = 0xC0 then
        match d[off+1]? with
        | none => .bad "outside"
        | some b2 =>
          specDecode d fuel ((b.toNat &&& 0x3F) * 256 + b2.toNat) true
            (if jumped then endp else off + 2) acc
      else if b.toNat > 63 then .bad "reserved-label-type"
      else if off + 1 + b.toNat > d.length then .bad "outside"
      else specDecode d fuel (off + 1 + b.toNat) jumped endp ((d.drop (off+1)).take b.toNat :: acc)

def Spec.nameAt (d : Bytes) (off : Nat) : SpecRes :=
  match specDecode d (d.length + 1) off false 0 [] with
  | .ok n e => if Name.wireLen n > 255 then .bad "too-long" else .ok n e
  | r => r

theorem specDecode_sound (d : Bytes) (fuel off : Nat) (jumped : Bool) (endp : Nat)
    (acc : List Label) (n : Name) (e : Nat)
    (h : specDecode d fuel off jumped endp acc = .ok n e) :
    ∃ tail, n = acc.reverse ++ tail ∧ Decodes d off tail := by
  induction fuel generalizing off jumped endp acc with
  | zero => simp [specDecode] at h
  | succ fuel ih =>
    unfold specDecode at h
    split at h
    · cases h
    · rename_i b hb
      split at h
      · rename_i hz
        cases h
        exact ⟨[], by simp, Decodes.root (by simpa [hz] using hb)⟩
      · rename_i hnz
        split at h
        · rename_i hptr
          split at h
          · cases h
          · rename_i b2 hb2
            obtain ⟨tail, h1, h2⟩ := ih _ _ _ _ h
            exact ⟨tail, h1, Decodes.ptr hb hptr hb2 h2⟩
        · split at h
          · cases h
          · rename_i h63
            split at h
            · cases h
            · rename_i hfit
              obtain ⟨tail, h1, h2⟩ := ih _ _ _ _ h
              refine ⟨(d.drop (off+1)).take b.toNat :: tail, by simp [h1], ?_⟩
              have hb1 : 1 ≤ b.toNat := by
                have : b.toNat ≠ 0 := by
                  intro h0; apply hnz; exact UInt8.toNat_inj.mp (by simpa using h0)
                omega
              exact Decodes.label hb hb1 (by omega) rfl (by omega) h2

end Dns
