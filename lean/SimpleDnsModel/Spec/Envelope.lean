/-
An RFC 1035 §4.1 envelope walker written independently of the library: a
12-byte header with four counts, questions (name, QTYPE, QCLASS), resource
records (name, TYPE, CLASS, TTL, RDLENGTH, RDLENGTH bytes of RDATA). Names are
skipped in place (labels until a zero byte or a two-byte pointer, which ends
the name); nothing is interpreted beyond lengths.
-/
import SimpleDnsModel.Basic
namespace Dns.Spec

/-- offset just past the in-place form of the name at `off`: `fuel` bounds the number of labels -/
def skipName (d : Bytes) : Nat → Nat → Option Nat
  | 0, _ => none
  | fuel+1, off =>
    match d[off]? with
    | none => none
    | some b =>
      if b = 0 then some (off + 1)
      else if b.toNat ≥ 192 then (if off + 2 ≤ d.length then some (off + 2) else none)
      else if b.toNat ≥ 64 then none
      else skipName d fuel (off + 1 + b.toNat)

/-- big-endian field of `w` bytes at `off`, if inside the message -/
def field (d : Bytes) (off w : Nat) : Option Nat :=
  if off + w ≤ d.length then some (deN ((d.drop off).take w)) else none

structure QEntry where
  off : Nat
  nameEnd : Nat
  qtype : Nat
  qclass : Nat
deriving Repr, DecidableEq

structure REntry where
  off : Nat
  nameEnd : Nat
  type : Nat
  cls : Nat
  ttl : Nat
  rdlen : Nat
deriving Repr, DecidableEq

def REntry.rdStart (e : REntry) : Nat := e.nameEnd + 10
def REntry.next (e : REntry) : Nat := e.nameEnd + 10 + e.rdlen
def QEntry.next (e : QEntry) : Nat := e.nameEnd + 4

def walkQuestion (d : Bytes) (off : Nat) : Option QEntry := do
  let ne ← skipName d (d.length + 1) off
  let t ← field d ne 2
  let c ← field d (ne + 2) 2
  pure { off := off, nameEnd := ne, qtype := t, qclass := c }

def walkRecord (d : Bytes) (off : Nat) : Option REntry := do
  let ne ← skipName d (d.length + 1) off
  let t ← field d ne 2
  let c ← field d (ne + 2) 2
  let ttl ← field d (ne + 4) 4
  let l ← field d (ne + 8) 2
  if ne + 10 + l ≤ d.length then
    pure { off := off, nameEnd := ne, type := t, cls := c, ttl := ttl, rdlen := l }
  else none

def walkQuestions (d : Bytes) : Nat → Nat → Option (List QEntry × Nat)
  | 0, off => some ([], off)
  | n+1, off => do
    let e ← walkQuestion d off
    let (es, p) ← walkQuestions d n e.next
    pure (e :: es, p)

def walkRecords (d : Bytes) : Nat → Nat → Option (List REntry × Nat)
  | 0, off => some ([], off)
  | n+1, off => do
    let e ← walkRecord d off
    let (es, p) ← walkRecords d n e.next
    pure (e :: es, p)

structure Walk where
  questions : List QEntry
  answers : List REntry
  nameServers : List REntry
  additional : List REntry
  /-- offset after the last entry -/
  stop : Nat
deriving Repr, DecidableEq

/-- the entries delimited by the header counts and by each record's RDLENGTH; `none` when a
count or a length runs past the end of the message -/
def walk (d : Bytes) : Option Walk := do
  let qd ← field d 4 2
  let an ← field d 6 2
  let ns ← field d 8 2
  let ar ← field d 10 2
  let (qs, p) ← walkQuestions d qd 12
  let (a, p) ← walkRecords d an p
  let (n, p) ← walkRecords d ns p
  let (r, p) ← walkRecords d ar p
  pure { questions := qs, answers := a, nameServers := n, additional := r, stop := p }

end Dns.Spec
