/-
RFC 1035 §4.1.1 (with the AD/CD bits of RFC 2535/4035), written as positional
arithmetic on the 16-bit flags word, independently of the library's masks:

      0  1  2  3  4  5  6  7  8  9 10 11 12 13 14 15
    |QR|   Opcode  |AA|TC|RD|RA| Z|AD|CD|   RCODE   |
-/
namespace Dns.Spec

def QR (w : Nat) : Nat := w / 32768 % 2
def OPCODE (w : Nat) : Nat := w / 2048 % 16
def AA (w : Nat) : Nat := w / 1024 % 2
def TC (w : Nat) : Nat := w / 512 % 2
def RD (w : Nat) : Nat := w / 256 % 2
def RA (w : Nat) : Nat := w / 128 % 2
def Z (w : Nat) : Nat := w / 64 % 2
def AD (w : Nat) : Nat := w / 32 % 2
def CD (w : Nat) : Nat := w / 16 % 2
def RCODE (w : Nat) : Nat := w % 16

/-- the value of the library's flag set for a word: each flag at its RFC bit position -/
def flagBits (w : Nat) : Nat :=
  QR w * 32768 + AA w * 1024 + TC w * 512 + RD w * 256 + RA w * 128 + AD w * 32 + CD w * 16

/-- compose a flags word from its fields -/
def compose (qr opcode aa tc rd ra z ad cd rcode : Nat) : Nat :=
  qr * 32768 + opcode * 2048 + aa * 1024 + tc * 512 + rd * 256 + ra * 128 + z * 64 + ad * 32 +
    cd * 16 + rcode

end Dns.Spec
