/-
RDATA layouts of the 40 supported record types, written from the RFCs that
define them (field names as in the RFC text), with the IANA type number, and a
reference encoder. Independent of the library's per-type code and of the
model's `schemaOf` table; property C10 relates them.
-/
import SimpleDnsModel.Basic
namespace Dns.Spec

inductive SKind where
  /-- unsigned integer in network byte order, `n` octets -/
  | uint (octets : Nat)
  /-- signed 32-bit integer in network byte order (compared as its two's-complement bits) -/
  | int32
  /-- <character-string>: one length octet followed by that many octets -/
  | characterString
  /-- <domain-name>: length-prefixed labels ended by the zero-length root label -/
  | domainName
  /-- opaque octets up to the end of the RDATA -/
  | opaqueRest
  /-- one or more <character-string>s up to the end of the RDATA -/
  | characterStrings
  /-- (key, length, value) triples up to the end of the RDATA; keys strictly increasing -/
  | triples (keyOctets lenOctets : Nat) (increasing : Bool)
deriving DecidableEq, Repr

structure Layout where
  mnemonic : String
  code : Nat
  rfc : String
  fields : List (String × SKind)

open SKind in
/-- the registry extract -/
def layouts : List Layout := [
  ⟨"A", 1, "RFC 1035 3.4.1", [("ADDRESS", uint 4)]⟩,
  ⟨"NS", 2, "RFC 1035 3.3.11", [("NSDNAME", domainName)]⟩,
  ⟨"MD", 3, "RFC 1035 3.3.4", [("MADNAME", domainName)]⟩,
  ⟨"MF", 4, "RFC 1035 3.3.5", [("MADNAME", domainName)]⟩,
  ⟨"CNAME", 5, "RFC 1035 3.3.1", [("CNAME", domainName)]⟩,
  ⟨"SOA", 6, "RFC 1035 3.3.13", [("MNAME", domainName), ("RNAME", domainName), ("SERIAL", uint 4),
      ("REFRESH", int32), ("RETRY", int32), ("EXPIRE", int32), ("MINIMUM", uint 4)]⟩,
  ⟨"MB", 7, "RFC 1035 3.3.3", [("MADNAME", domainName)]⟩,
  ⟨"MG", 8, "RFC 1035 3.3.6", [("MGMNAME", domainName)]⟩,
  ⟨"MR", 9, "RFC 1035 3.3.8", [("NEWNAME", domainName)]⟩,
  ⟨"WKS", 11, "RFC 1035 3.4.2", [("ADDRESS", uint 4), ("PROTOCOL", uint 1), ("BIT MAP", opaqueRest)]⟩,
  ⟨"PTR", 12, "RFC 1035 3.3.12", [("PTRDNAME", domainName)]⟩,
  ⟨"HINFO", 13, "RFC 1035 3.3.2", [("CPU", characterString), ("OS", characterString)]⟩,
  ⟨"MINFO", 14, "RFC 1035 3.3.7", [("RMAILBX", domainName), ("EMAILBX", domainName)]⟩,
  ⟨"MX", 15, "RFC 1035 3.3.9", [("PREFERENCE", uint 2), ("EXCHANGE", domainName)]⟩,
  ⟨"TXT", 16, "RFC 1035 3.3.14", [("TXT-DATA", characterStrings)]⟩,
  ⟨"RP", 17, "RFC 1183 2.2", [("mbox-dname", domainName), ("txt-dname", domainName)]⟩,
  ⟨"AFSDB", 18, "RFC 1183 1", [("subtype", uint 2), ("hostname", domainName)]⟩,
  ⟨"ISDN", 20, "RFC 1183 3.2", [("ISDN-address", characterString), ("sa", characterString)]⟩,
  ⟨"RT", 21, "RFC 1183 3.3", [("preference", uint 2), ("intermediate-host", domainName)]⟩,
  ⟨"NSAP", 22, "RFC 1706 5 (the structured example NSAP: AFI IDI DFI AA Rsvd RD Area ID SEL)",
      [("AFI", uint 1), ("IDI", uint 2), ("DFI", uint 1), ("AA", uint 3), ("Rsvd", uint 2),
       ("RD", uint 2), ("Area", uint 2), ("ID", uint 6), ("SEL", uint 1)]⟩,
  ⟨"NSAP-PTR", 23, "RFC 1706 6", [("owner", domainName)]⟩,
  ⟨"AAAA", 28, "RFC 3596 2.2", [("ADDRESS", uint 16)]⟩,
  ⟨"LOC", 29, "RFC 1876 2", [("VERSION", uint 1), ("SIZE", uint 1), ("HORIZ PRE", uint 1),
      ("VERT PRE", uint 1), ("LATITUDE", int32), ("LONGITUDE", int32), ("ALTITUDE", int32)]⟩,
  ⟨"SRV", 33, "RFC 2782", [("Priority", uint 2), ("Weight", uint 2), ("Port", uint 2),
      ("Target", domainName)]⟩,
  ⟨"NAPTR", 35, "RFC 3403 4.1", [("ORDER", uint 2), ("PREFERENCE", uint 2), ("FLAGS", characterString),
      ("SERVICES", characterString), ("REGEXP", characterString), ("REPLACEMENT", domainName)]⟩,
  ⟨"KX", 36, "RFC 2230 3.1", [("PREFERENCE", uint 2), ("EXCHANGER", domainName)]⟩,
  ⟨"CERT", 37, "RFC 4398 2", [("type", uint 2), ("key tag", uint 2), ("algorithm", uint 1),
      ("certificate or CRL", opaqueRest)]⟩,
  ⟨"DS", 43, "RFC 4034 5.1", [("Key Tag", uint 2), ("Algorithm", uint 1), ("Digest Type", uint 1),
      ("Digest", opaqueRest)]⟩,
  ⟨"RRSIG", 46, "RFC 4034 3.1", [("Type Covered", uint 2), ("Algorithm", uint 1), ("Labels", uint 1),
      ("Original TTL", uint 4), ("Signature Expiration", uint 4), ("Signature Inception", uint 4),
      ("Key Tag", uint 2), ("Signer's Name", domainName), ("Signature", opaqueRest)]⟩,
  ⟨"NSEC", 47, "RFC 4034 4.1", [("Next Domain Name", domainName),
      ("Type Bit Maps (Window Block #, Bitmap Length, Bitmap)+", triples 1 1 true)]⟩,
  ⟨"DNSKEY", 48, "RFC 4034 2.1", [("Flags", uint 2), ("Protocol", uint 1), ("Algorithm", uint 1),
      ("Public Key", opaqueRest)]⟩,
  ⟨"DHCID", 49, "RFC 4701 3.1", [("identifier type", uint 2), ("digest type", uint 1),
      ("digest", opaqueRest)]⟩,
  ⟨"ZONEMD", 63, "RFC 8976 2.2", [("Serial", uint 4), ("Scheme", uint 1), ("Hash Algorithm", uint 1),
      ("Digest", opaqueRest)]⟩,
  ⟨"SVCB", 64, "RFC 9460 2.2", [("SvcPriority", uint 2), ("TargetName", domainName),
      ("SvcParams (SvcParamKey, length, SvcParamValue)*", triples 2 2 true)]⟩,
  ⟨"HTTPS", 65, "RFC 9460 9", [("SvcPriority", uint 2), ("TargetName", domainName),
      ("SvcParams", triples 2 2 true)]⟩,
  ⟨"EUI48", 108, "RFC 7043 3.1", [("Address", uint 6)]⟩,
  ⟨"EUI64", 109, "RFC 7043 4.1", [("Address", uint 8)]⟩,
  ⟨"CAA", 257, "RFC 8659 4.1", [("Flags", uint 1), ("Tag (length-prefixed)", characterString),
      ("Value", opaqueRest)]⟩ ]

def layoutOf (code : Nat) : Option Layout := layouts.find? (·.code == code)

/-- field values of the reference encoder -/
inductive SVal where
  | num (n : Nat)
  | octets (b : Bytes)
  | labels (ls : List Bytes)
  | strings (ss : List Bytes)
  | triples (xs : List (Nat × Bytes))
deriving DecidableEq, Repr

/-- `n` as `w` octets, most significant first -/
def octetsOf : Nat → Nat → Bytes
  | 0, _ => []
  | w+1, n => UInt8.ofNat (n / 256 ^ w % 256) :: octetsOf w n

def encLabels : List Bytes → Bytes
  | [] => [0]
  | l :: ls => UInt8.ofNat l.length :: (l ++ encLabels ls)

def encStrings : List Bytes → Bytes
  | [] => []
  | s :: ss => UInt8.ofNat s.length :: (s ++ encStrings ss)

def encTriples (kw lw : Nat) : List (Nat × Bytes) → Bytes
  | [] => []
  | (k, v) :: xs => octetsOf kw k ++ (octetsOf lw v.length ++ (v ++ encTriples kw lw xs))

def encodeField : SKind → SVal → Bytes
  | .uint w, .num n => octetsOf w n
  | .int32, .num n => octetsOf 4 n
  | .characterString, .octets b => UInt8.ofNat b.length :: b
  | .domainName, .labels ls => encLabels ls
  | .opaqueRest, .octets b => b
  | .characterStrings, .strings ss => encStrings ss
  | .triples kw lw _, .triples xs => encTriples kw lw xs
  | _, _ => []

def encodeFields : List SKind → List SVal → Bytes
  | k :: ks, v :: vs => encodeField k v ++ encodeFields ks vs
  | _, _ => []

/-- reference RDATA encoding of a type -/
def encode (code : Nat) (vs : List SVal) : Option Bytes :=
  (layoutOf code).map fun l => encodeFields (l.fields.map (·.2)) vs

/-- IPSECKEY, RFC 4025 2.1: precedence, gateway type, algorithm, gateway, public key -/
inductive GatewaySpec where
  | none | ipv4 (a : Nat) | ipv6 (a : Nat) | name (ls : List Bytes)
deriving DecidableEq, Repr

def encodeIpseckey (precedence algorithm : Nat) (g : GatewaySpec) (key : Bytes) : Bytes :=
  octetsOf 1 precedence ++
  (match g with
   | .none => octetsOf 1 0 ++ octetsOf 1 algorithm
   | .ipv4 a => octetsOf 1 1 ++ (octetsOf 1 algorithm ++ octetsOf 4 a)
   | .ipv6 a => octetsOf 1 2 ++ (octetsOf 1 algorithm ++ octetsOf 16 a)
   | .name ls => octetsOf 1 3 ++ (octetsOf 1 algorithm ++ encLabels ls)) ++ key

end Dns.Spec
