/-
The label grammar of property C17, written from its statement: a name in text
form is the dot-separated list of its non-empty labels; a label is 1–63
characters, starts with a letter, digit or underscore, continues with letters,
digits, hyphens or underscores, ends with a letter or digit; the encoded name
is at most 255 bytes.
-/
import SimpleDnsModel.Basic
namespace Dns.Spec

def isLetter (b : UInt8) : Prop := (65 ≤ b.toNat ∧ b.toNat ≤ 90) ∨ (97 ≤ b.toNat ∧ b.toNat ≤ 122)
def isDigit (b : UInt8) : Prop := 48 ≤ b.toNat ∧ b.toNat ≤ 57
def isHyphen (b : UInt8) : Prop := b.toNat = 45
def isUnderscore (b : UInt8) : Prop := b.toNat = 95

instance (b : UInt8) : Decidable (isLetter b) := by unfold isLetter; infer_instance
instance (b : UInt8) : Decidable (isDigit b) := by unfold isDigit; infer_instance
instance (b : UInt8) : Decidable (isHyphen b) := by unfold isHyphen; infer_instance
instance (b : UInt8) : Decidable (isUnderscore b) := by unfold isUnderscore; infer_instance

/-- a valid label, position by position -/
def LabelOK (l : Bytes) : Prop :=
  1 ≤ l.length ∧ l.length ≤ 63 ∧
  (∀ i (h : i < l.length),
    (i = 0 → isLetter l[i] ∨ isDigit l[i] ∨ isUnderscore l[i]) ∧
    (0 < i → isLetter l[i] ∨ isDigit l[i] ∨ isHyphen l[i] ∨ isUnderscore l[i]) ∧
    (i + 1 = l.length → isLetter l[i] ∨ isDigit l[i]))

/-- the dot-separated non-empty pieces of a text -/
def pieces (s : Bytes) : List Bytes := (s.splitOn 46).filter (fun p => !p.isEmpty)

/-- bytes of the wire encoding: one length byte per label plus the labels plus the root byte -/
def encodedLen (ls : List Bytes) : Nat := (ls.map (fun l => l.length + 1)).sum + 1

/-- the text is acceptable -/
def NameTextOK (s : Bytes) : Prop := (∀ l ∈ pieces s, LabelOK l) ∧ encodedLen (pieces s) ≤ 255

/-- the text without empty labels: the pieces joined by single dots -/
def normalised (s : Bytes) : Bytes := [46].intercalate (pieces s)

end Dns.Spec
