/-
C04 — Serialised messages are well-framed and all writers agree.

Every serialisation entry point emits a 12-byte header whose four counts equal
the numbers of questions and records actually written (an EDNS pseudo-record
counted exactly once), followed by exactly those entries, each record's
RDLENGTH equal to the number of RDATA bytes that follow it, and no other
bytes. The writer-based entry points produce the same bytes as the
vector-returning ones for any writer kind, spare capacity, pre-existing
content or starting offset, and report an error instead of panicking or
silently truncating when the writer is too small.

1. `framed`: the independent RFC 1035 envelope walker (Spec/Envelope.lean)
   consumes the output of either builder exactly and finds exactly the entries
   written. The walker delimits every record by its RDLENGTH, so that it ends
   on the last byte means every RDLENGTH is the number of RDATA bytes up to the
   next entry.
2. `len_eq_written`: `RData::len()` is the number of bytes `write_to` emits
   (the RDLENGTH of the uncompressed path).
3. writers (Model/Writer.lean): `W.write_append`, `writers_agree_plain`,
   `small_writer_plain`, `writers_agree_compressed`, `small_writer_compressed`,
   and the per-record refinement `record_refinement` of the seek-and-patch
   writer. Proofs are in Lemmas/WritersA.lean.
-/
import SimpleDnsModel.Lemmas.WritersA
set_option autoImplicit false
namespace Dns

/-! ### 1. framing -/

/-- **Well-framed output** of `Packet::write_to` (`c = false`) and `Packet::write_compressed_to`
(`c = true`): header counts, then exactly that many entries, then nothing. -/
theorem framed (c : Bool) (p : Packet) (h : p.WF) :
    ∃ b w, p.buildG c = .ok b ∧ Spec.walk b = some w ∧ w.stop = b.length ∧
      w.questions.length = p.questions.length ∧ w.answers.length = p.answers.length ∧
      w.nameServers.length = p.nameServers.length ∧
      w.additional.length = p.additional.length + (if p.header.opt.isSome then 1 else 0) :=
  Wr.buildG_framed c p h

theorem framed_plain (p : Packet) (h : p.WF) :
    ∃ b w, p.build = .ok b ∧ Spec.walk b = some w ∧ w.stop = b.length ∧
      w.questions.length = p.questions.length ∧ w.answers.length = p.answers.length ∧
      w.nameServers.length = p.nameServers.length ∧
      w.additional.length = p.additional.length + (if p.header.opt.isSome then 1 else 0) := by
  have := framed false p h
  rwa [buildG_false] at this

theorem framed_compressed (p : Packet) (h : p.WF) :
    ∃ b w, p.buildCompressed = .ok b ∧ Spec.walk b = some w ∧ w.stop = b.length ∧
      w.questions.length = p.questions.length ∧ w.answers.length = p.answers.length ∧
      w.nameServers.length = p.nameServers.length ∧
      w.additional.length = p.additional.length + (if p.header.opt.isSome then 1 else 0) :=
  framed true p h

/-- the header counts are the numbers of entries found (from C05's `walk_counts`) -/
theorem framed_counts (c : Bool) (p : Packet) (h : p.WF) :
    ∃ b, p.buildG c = .ok b ∧
      Spec.field b 4 2 = some p.questions.length ∧ Spec.field b 6 2 = some p.answers.length ∧
      Spec.field b 8 2 = some p.nameServers.length ∧
      Spec.field b 10 2 = some (p.additional.length + (if p.header.opt.isSome then 1 else 0)) := by
  obtain ⟨b, w, hb, hw, _, h1, h2, h3, h4⟩ := framed c p h
  obtain ⟨c1, c2, c3, c4⟩ := walk_counts hw
  exact ⟨b, hb, h1 ▸ c1, h2 ▸ c2, h3 ▸ c3, h4 ▸ c4⟩

/-! ### 2. `len()` -/

/-- the per-type `len()` is the number of bytes the type's `write_to` emits -/
theorem len_eq_written (rd : RData) (h : rd.WF) : ∃ b, rd.write = .ok b ∧ b.length = rd.len :=
  Wr.len_eq_written rd h

/-! ### 3. writers -/

/-- the model's `write_all` may be split at any point: for the growable kinds both sides append
or overwrite the same bytes; for the fixed-size kinds the sequence succeeds exactly when the single
call does, with the same result, and fails when it fails -/
theorem W.write_append (w : W) (a b : Bytes) :
    w.write (a ++ b) = (w.write a >>= fun w' => w'.write b) := Wr.W.write_append w a b

/-- **`Packet::write_to` on any writer** (`Vec`, `Cursor<Vec>`, `Cursor<&mut [u8]>`, `&mut [u8]`),
at any position, over any content: the bytes of `build_bytes_vec`. -/
theorem writers_agree_plain (p : Packet) (w : W) (bytes : Bytes)
    (hb : p.build = .ok bytes) (hf : w.fits bytes.length) : p.writeTo w = .ok (w.expect bytes) := by
  simp only [Packet.writeTo, hb, Out.bind_ok]
  exact Wr.W.write_fits w bytes hf

/-- a writer that is too small gets an error: no panic, no truncated success -/
theorem small_writer_plain (p : Packet) (w : W) (bytes : Bytes)
    (hb : p.build = .ok bytes) (hf : ¬ w.fits bytes.length) : p.writeTo w = .err := by
  simp only [Packet.writeTo, hb, Out.bind_ok]
  exact Wr.W.write_not_fits w bytes hf

/-- a built message starts with the 12-byte header -/
theorem buildG_ne_nil {c : Bool} {p : Packet} {bytes : Bytes} (h : p.buildG c = .ok bytes) :
    12 ≤ bytes.length := by
  unfold Packet.buildG at h
  simp only at h
  obtain ⟨_, _, h⟩ := Out.bind_eq_ok h
  obtain ⟨_, _, h⟩ := Out.bind_eq_ok h
  obtain ⟨_, _, h⟩ := Out.bind_eq_ok h
  obtain ⟨_, _, h⟩ := Out.bind_eq_ok h
  simp only [Out.pure_eq, Out.ok.injEq] at h
  subst h
  simp [Packet.writeHeader, Header.write]; omega

/-- **Refinement of one record**: the imperative `ResourceRecord::write_compressed_to` — owner
name, fixed fields, two placeholder bytes, RDATA, seek back, RDLENGTH, seek forward — run on a
seekable writer `w0` after the message prefix `out` was written from `w0`'s position, against the
functional writer at message offset `out.length`. When the record fits, the storage holds
`out ++ b` from the start position on (so the patch hit exactly the placeholder), the position is
just after it and the suffix tables agree; otherwise the result is an error. -/
theorem record_refinement (w0 : W) (hk : w0.kind = .cursorVec ∨ w0.kind = .cursorFixed)
    (r : RR) (out : Bytes) (t : Table) (b : Bytes) (t' : Table)
    (h : r.writeG true out.length t = .ok (b, t')) :
    r.writeCompressedTo
        { kind := w0.kind, buf := overwrite w0.buf w0.pos out, pos := w0.pos + out.length } w0.pos t
      = if w0.kind = .cursorVec ∨ w0.pos + (out.length + b.length) ≤ w0.buf.length then
          .ok ({ kind := w0.kind, buf := overwrite w0.buf w0.pos (out ++ b),
                 pos := w0.pos + (out.length + b.length) }, t')
        else .err := by
  have hb : b ≠ [] := by
    unfold RR.writeG at h
    obtain ⟨_, _, h⟩ := Out.bind_eq_ok h
    simp only [Out.pure_eq, Out.ok.injEq, Prod.mk.injEq] at h
    intro h0
    have := congrArg List.length h.1
    rw [h0] at this
    simp at this
  have := Wr.RR.refine (w0 := w0) hk r out t b t' h
  simpa [Wr.After, Wr.Res, Wr.Room, hb] using this

/-- **`Packet::write_compressed_to` on a seekable writer** started at any position `w.pos` over
any pre-existing content `w.buf` (shorter or longer than the position): exactly the bytes of
`build_bytes_vec_compressed`, spliced in at the start position; the position ends just after
them. In particular the compression pointers inside are offsets from the first byte of the
message, not of the stream. No well-formedness hypothesis is needed. -/
theorem writers_agree_compressed' (p : Packet) (w : W)
    (hk : w.kind = .cursorVec ∨ w.kind = .cursorFixed) (bytes : Bytes)
    (hb : p.buildCompressed = .ok bytes) (hf : w.fits bytes.length) :
    p.writeCompressedTo w = .ok (w.expect bytes) := by
  have hlen := buildG_ne_nil hb
  have hne : bytes ≠ [] := by intro h0; rw [h0] at hlen; simp at hlen
  have hv : w.kind ≠ .vec := by rcases hk with h | h <;> rw [h] <;> decide
  rw [Wr.Packet.refine hk p bytes hb, Wr.W.expect_eq, if_neg hv, if_neg hne]
  rw [Wr.W.fits_iff] at hf
  rw [Wr.Res_ok]
  · simp [Wr.After]
  · right
    rcases hf with h | h | h | h
    · exact absurd h hv
    · exact Or.inl h
    · omega
    · right; simpa using h

theorem writers_agree_compressed (p : Packet) (_h : p.WF) (w : W)
    (hk : w.kind = .cursorVec ∨ w.kind = .cursorFixed) (bytes : Bytes)
    (hb : p.buildCompressed = .ok bytes) (hf : w.fits bytes.length) :
    p.writeCompressedTo w = .ok (w.expect bytes) :=
  writers_agree_compressed' p w hk bytes hb hf

/-- a seekable writer that is too small (only `Cursor<&mut [u8]>` can be) gets an error -/
theorem small_writer_compressed (p : Packet) (w : W)
    (hk : w.kind = .cursorVec ∨ w.kind = .cursorFixed) (bytes : Bytes)
    (hb : p.buildCompressed = .ok bytes) (hf : ¬ w.fits bytes.length) :
    p.writeCompressedTo w = .err := by
  have hlen := buildG_ne_nil hb
  have hne : bytes ≠ [] := by intro h0; rw [h0] at hlen; simp at hlen
  rw [Wr.Packet.refine hk p bytes hb]
  rw [Wr.W.fits_iff] at hf
  simp only [not_or] at hf
  unfold Wr.Res
  rw [if_neg]
  rintro (h | h | h)
  · exact hne h
  · exact hf.2.1 h
  · exact hf.2.2.2 (by simpa using h)

/-! ### examples -/

/-- a query with one question, one answer whose owner repeats the question name, and EDNS -/
def c04Packet : Packet :=
  { header := { id := 7, opcode := .StandardQuery, rcode := .NoError, flags := 0x8180,
                opt := some { udp := 1232, version := 0, codes := [] } }
    questions := [{ name := [[119, 119, 119], [99, 111, 109]], qtype := .TYPE .A,
                    qclass := .CLASS .IN, unicast := false }]
    answers := [{ name := [[119, 119, 119], [99, 111, 109]], cls := .IN, ttl := 60, flush := false,
                  rdata := .flat 15 [.int 10, .name [[109, 120], [99, 111, 109]]] }]
    nameServers := []
    additional := [] }

example : c04Packet.WF := by decide

/-- 65 bytes plain, 55 compressed -/
example : (do
    let a ← c04Packet.build
    let b ← c04Packet.buildCompressed
    pure (a.length, b.length)) = Out.ok (65, 55) := by decide

def c04Zeros (n : Nat) : Bytes := List.replicate n 0

/-- all four writer kinds, plain path, exact capacity for the fixed ones -/
example : ∀ k ∈ [WKind.vec, .cursorVec, .cursorFixed, .slice],
    (c04Packet.writeTo { kind := k, buf := c04Zeros 65, pos := 0 }).isOk = true := by decide

/-- one byte less: an error -/
example : c04Packet.writeTo { kind := .cursorFixed, buf := c04Zeros 64, pos := 0 } = .err ∧
    c04Packet.writeTo { kind := .slice, buf := c04Zeros 64, pos := 0 } = .err := by decide

/-- compressed path into a fixed cursor of exactly 55 bytes: the bytes of
`build_bytes_vec_compressed` -/
example : (c04Packet.writeCompressedTo { kind := .cursorFixed, buf := c04Zeros 55, pos := 0 }).bind
      (fun w => .ok w.buf) = c04Packet.buildCompressed := by decide

example : c04Packet.writeCompressedTo { kind := .cursorFixed, buf := c04Zeros 54, pos := 0 } = .err := by
  decide

/-- a cursor starting at offset 2 over storage pre-filled with 0xAA: the two bytes before the
message and the one after it are untouched, the pointers inside are relative to the message -/
example : (c04Packet.writeCompressedTo
      { kind := .cursorFixed, buf := List.replicate 58 0xAA, pos := 2 }).bind
      (fun w => .ok (w.buf, w.pos))
    = c04Packet.buildCompressed.bind (fun b => .ok ([0xAA, 0xAA] ++ b ++ [0xAA], 57)) := by decide

/-- a growable cursor positioned past the end of a short vector: the gap is zero-filled -/
example : (c04Packet.writeCompressedTo { kind := .cursorVec, buf := [1], pos := 3 }).bind
      (fun w => .ok (w.buf, w.pos))
    = c04Packet.buildCompressed.bind (fun b => .ok ([1, 0, 0] ++ b, 58)) := by decide

end Dns
