/-
C18 at the wire level — what `Question::parse`, `ResourceRecord::parse`, `RData::parse` and
`Packet::parse` do with EVERY 16-bit TYPE / CLASS / QTYPE / QCLASS word.

`Props/C18.lean` and `Props/C18More.lean` speak about the code conversions themselves and about
the TYPE field of a record that HAS parsed.  Here the direction is the other one: given the bytes
(an owner name that parses — plain or compressed — followed by the fixed words), which words are
accepted, which are refused, and what the accepted value holds.

1. questions: `question_parse_eq` (the parser as a function of the two words), accepted iff both
   words supported / error otherwise, the fields of an accepted question, the complete iff
   `question_ok_iff`, the plain wire layout for all 65536 × 65536 word pairs, and the message
   level (`packet_unsupported_question_err`, `packet_questions_supported`).
2. records with RDLENGTH 0: no TYPE word is refused; the type reported is `TYPE::from(t)`;
   TYPE 41 gives an OPT pseudo-record whatever the CLASS word.
3. records of a type without a layout: opaque RDATA kept under the code `t`.
4. `into_owned` keeps type, class, matching and the written TYPE word.
5. the CLASS word of a record: accepted iff the low fifteen bits are 1, 2, 3, 4 or 254; and the
   message level (`packet_unsupported_class_err`).

Everything lives in the namespace `Dns.C18Wire`.
-/
import SimpleDnsModel.Props.C18More
import SimpleDnsModel.Props.C01
import SimpleDnsModel.Lemmas.RoundTripD
import SimpleDnsModel.Lemmas.Owned
namespace Dns
namespace C18Wire

/-! ### 0. words of a buffer, masks -/

/-- the 16-bit big-endian word at offset `off` of a buffer -/
def wordAt (d : Bytes) (off : Nat) : Nat := deN ((d.drop off).take 2)

/-- the 32-bit big-endian word at offset `off` of a buffer -/
def dwordAt (d : Bytes) (off : Nat) : Nat := deN ((d.drop off).take 4)

/-- a 16-bit word is below 65536, wherever it is read -/
theorem wordAt_lt (d : Bytes) (off : Nat) : wordAt d off < 65536 := by
  unfold wordAt
  have h := deN_lt ((d.drop off).take 2)
  have hl : ((d.drop off).take 2).length ≤ 2 := by simp [List.length_take]; omega
  have : 256 ^ ((d.drop off).take 2).length ≤ 256 ^ 2 := Nat.pow_le_pow_right (by decide) hl
  omega

/-- the word read where `beN 2 w` was laid down is `w` -/
theorem wordAt_mid (pre post : Bytes) (w : Nat) (hw : w < 65536) :
    wordAt (pre ++ (beN 2 w ++ post)) pre.length = w := by
  unfold wordAt
  simp [deN_beN 2 w (by simpa using hw)]

/-- `wordAt_mid` for a buffer given as a three-way split -/
theorem wordAt_at {d a z : Bytes} {w x : Nat} (hd : d = a ++ (beN 2 w ++ z)) (hx : x = a.length)
    (hw : w < 65536) : wordAt d x = w := by
  subst hd hx; exact wordAt_mid a z w hw

/-- the 32-bit word read where `beN 4 w` was laid down is `w` -/
theorem dwordAt_at {d a z : Bytes} {w x : Nat} (hd : d = a ++ (beN 4 w ++ z)) (hx : x = a.length)
    (hw : w < 2 ^ 32) : dwordAt d x = w := by
  subst hd hx
  unfold dwordAt
  simp [deN_beN 4 w (by simpa using hw)]

/-- `w & 0x7FFF` is `w mod 2^15` -/
theorem and_7fff (x : Nat) : x &&& 0x7FFF = x % 32768 := Nat.and_two_pow_sub_one_eq_mod x 15

/-- `(w & 0x8000) == 0x8000` for a 16-bit word says `w ≥ 32768` -/
theorem top_bit (x : Nat) (hx : x < 65536) : ((x &&& 0x8000) == 0x8000) = decide (32768 ≤ x) := by
  have h1 : (x &&& 32768) % 32768 = 0 := by
    have := @Nat.and_mod_two_pow x 32768 15
    simpa using this
  have h2 : (x &&& 32768) / 32768 = x / 32768 &&& 1 := by
    have := @Nat.and_div_two_pow x 32768 15
    simpa using this
  rcases Nat.lt_or_ge x 32768 with h | h
  · have : x / 32768 = 0 := by omega
    rw [this] at h2
    simp at h2
    have : x &&& 32768 = 0 := by omega
    simp [this]; omega
  · have : x / 32768 = 1 := by omega
    rw [this] at h2
    simp at h2
    have : x &&& 32768 = 32768 := by omega
    simp [this]; omega

/-- `data[a..a+2]` inside the buffer -/
theorem slice_word {d : Bytes} {a b : Nat} (hb : b = a + 2) (h : b ≤ d.length) :
    slice d a b = .ok ((d.drop a).take 2) := by
  subst hb
  rw [slice_ok (by omega) h]
  congr 2; omega

/-- `data[a..a+4]` inside the buffer -/
theorem slice_dword {d : Bytes} {a b : Nat} (hb : b = a + 4) (h : b ≤ d.length) :
    slice d a b = .ok ((d.drop a).take 4) := by
  subst hb
  rw [slice_ok (by omega) h]
  congr 2; omega

/-! ### 1. received questions: every QTYPE / QCLASS word -/

/-- the QTYPE words `QTYPE::try_from` accepts: the five question-only codes and the codes of the
41 supported types -/
def QTypeSupported (w : Nat) : Prop :=
  w ∈ [251, 252, 253, 254, 255] ∨ (TYPE.ofCode w).isUnknown = false

/-- the QCLASS codes `QCLASS::try_from` accepts -/
def QClassSupported (c : Nat) : Prop := c ∈ [1, 2, 3, 4, 254, 255]

/-- the CLASS codes `CLASS::try_from` accepts -/
def ClassSupported (c : Nat) : Prop := c ∈ [1, 2, 3, 4, 254]

instance (w : Nat) : Decidable (QTypeSupported w) := by unfold QTypeSupported; infer_instance
instance (w : Nat) : Decidable (QClassSupported w) := by unfold QClassSupported; infer_instance
instance (w : Nat) : Decidable (ClassSupported w) := by unfold ClassSupported; infer_instance

/-- `QTYPE::try_from(w)` is `Ok` exactly for the supported words and `Err` for all others (it never
panics): no word is silently turned into some other question type. -/
theorem qtype_ofCode_ok_iff (w : Nat) :
    ((∃ q, QTYPE.ofCode w = .ok q) ↔ QTypeSupported w) ∧
    (QTYPE.ofCode w = .err ↔ ¬ QTypeSupported w) := by
  have herr := qtype_unsupported_err w
  have hnp := (qtype_roundtrip w).2
  have key : QTYPE.ofCode w = .err ↔ ¬ QTypeSupported w := by
    rw [herr]; unfold QTypeSupported
    cases (TYPE.ofCode w).isUnknown <;> simp
  refine ⟨?_, key⟩
  cases h : QTYPE.ofCode w with
  | ok q =>
    have : ¬ (QTYPE.ofCode w = .err) := by rw [h]; simp
    rw [key] at this
    simp only [Out.ok.injEq, exists_eq', true_iff]
    exact Classical.not_not.1 this
  | err =>
    have := key.1 h
    simp [this]
  | panic => exact absurd h hnp

/-- `QCLASS::try_from(c)` is `Ok` exactly for 1, 2, 3, 4, 254, 255 and `Err` for all others. -/
theorem qclass_ofCode_ok_iff (c : Nat) :
    ((∃ q, QCLASS.ofCode c = .ok q) ↔ QClassSupported c) ∧
    (QCLASS.ofCode c = .err ↔ ¬ QClassSupported c) := by
  obtain ⟨_, hnp, herr⟩ := qclass_roundtrip c
  refine ⟨?_, herr⟩
  unfold QClassSupported
  cases h : QCLASS.ofCode c with
  | ok q =>
    have : ¬ (QCLASS.ofCode c = .err) := by rw [h]; simp
    rw [herr] at this
    simp only [Out.ok.injEq, exists_eq', true_iff]
    exact Classical.not_not.1 this
  | err =>
    have := herr.1 h
    simp [this]
  | panic => exact absurd h hnp

/-- `CLASS::try_from(c)` is `Ok` exactly for 1, 2, 3, 4, 254 and `Err` for all others. -/
theorem class_ofCode_ok_iff (c : Nat) :
    ((∃ k, CLASS.ofCode c = .ok k) ↔ ClassSupported c) ∧
    (CLASS.ofCode c = .err ↔ ¬ ClassSupported c) := by
  obtain ⟨_, hnp, herr⟩ := class_roundtrip c
  refine ⟨?_, herr⟩
  unfold ClassSupported
  cases h : CLASS.ofCode c with
  | ok q =>
    have : ¬ (CLASS.ofCode c = .err) := by rw [h]; simp
    rw [herr] at this
    simp only [Out.ok.injEq, exists_eq', true_iff]
    exact Classical.not_not.1 this
  | err =>
    have := herr.1 h
    simp [this]
  | panic => exact absurd h hnp

/-- **`Question::parse` as a function of the two words after the name.**  When the owner name at
`pos` parses (plain or compressed) and ends at `ne`, and four more bytes are present, the outcome
is decided by the QTYPE word at `ne` and the QCLASS word at `ne + 2` alone: `QTYPE::try_from` of
the first, `QCLASS::try_from` of the low fifteen bits of the second, the top bit being the mDNS
unicast-response flag. -/
theorem question_parse_eq {d : Bytes} {pos : Nat} {n : Name} {ne : Nat}
    (hn : Name.parse d pos = .ok (n, ne)) (hlen : ne + 4 ≤ d.length) :
    Question.parse d pos = (do
      let qtype ← QTYPE.ofCode (wordAt d ne)
      let qclass ← QCLASS.ofCode (wordAt d (ne + 2) % 32768)
      pure ({ name := n, qtype := qtype, qclass := qclass,
              unicast := decide (32768 ≤ wordAt d (ne + 2)) }, ne + 4)) := by
  unfold Question.parse
  rw [hn]
  simp only [Out.bind_ok]
  rw [if_neg (by omega), slice_word rfl (by omega), slice_word (by omega) hlen]
  simp only [Out.bind_ok, and_7fff]
  have ht := top_bit _ (wordAt_lt d (ne + 2))
  unfold wordAt at ht ⊢
  rw [ht]

/-- **A received question is accepted exactly when both words are supported** (name parsed, four
bytes present): the QTYPE word is one of 251..255 or the code of a supported type, and the low
fifteen bits of the QCLASS word are one of 1, 2, 3, 4, 254, 255. -/
theorem question_accepted_iff {d : Bytes} {pos : Nat} {n : Name} {ne : Nat}
    (hn : Name.parse d pos = .ok (n, ne)) (hlen : ne + 4 ≤ d.length) :
    (∃ q p, Question.parse d pos = .ok (q, p)) ↔
      (QTypeSupported (wordAt d ne) ∧ QClassSupported (wordAt d (ne + 2) % 32768)) := by
  rw [question_parse_eq hn hlen]
  have h1 := qtype_ofCode_ok_iff (wordAt d ne)
  have h2 := qclass_ofCode_ok_iff (wordAt d (ne + 2) % 32768)
  cases hq : QTYPE.ofCode (wordAt d ne) with
  | ok qt =>
    have s1 : QTypeSupported (wordAt d ne) := h1.1.1 ⟨qt, hq⟩
    cases hc : QCLASS.ofCode (wordAt d (ne + 2) % 32768) with
    | ok qc =>
      have s2 := h2.1.1 ⟨qc, hc⟩
      simp [s1, s2]
    | err => have s2 := h2.2.1 hc; simp [s2]
    | panic => exact absurd hc (qclass_roundtrip _).2.1
  | err => have s1 := h1.2.1 hq; simp [s1]
  | panic => exact absurd hq (qtype_roundtrip _).2

/-- **…and is an error otherwise** — never a panic, never a question of some substituted type or
class.  This is the "unsupported question types/classes are reported as errors" direction. -/
theorem question_rejected_iff {d : Bytes} {pos : Nat} {n : Name} {ne : Nat}
    (hn : Name.parse d pos = .ok (n, ne)) (hlen : ne + 4 ≤ d.length) :
    Question.parse d pos = .err ↔
      ¬ (QTypeSupported (wordAt d ne) ∧ QClassSupported (wordAt d (ne + 2) % 32768)) := by
  rw [← question_accepted_iff hn hlen]
  have hnp := Question.parse_ne_panic d pos
  cases h : Question.parse d pos with
  | ok x => obtain ⟨q, p⟩ := x; simp
  | err => simp
  | panic => exact absurd h hnp

/-- **What an accepted question holds**: the name that was parsed, the cursor four bytes after
it, a QTYPE whose code is the received word (and which is never `TYPE(Unknown(_))`), a QCLASS whose
code is the low fifteen bits of the received word, and the unicast flag equal to the top bit. -/
theorem question_fields {d : Bytes} {pos : Nat} {n : Name} {ne : Nat} {q : Question} {p : Nat}
    (hn : Name.parse d pos = .ok (n, ne)) (hlen : ne + 4 ≤ d.length)
    (h : Question.parse d pos = .ok (q, p)) :
    q.name = n ∧ p = ne + 4 ∧
    QTYPE.ofCode (wordAt d ne) = .ok q.qtype ∧ q.qtype.toCode = wordAt d ne ∧
    (∀ k, q.qtype ≠ .TYPE (.Unknown k)) ∧
    QCLASS.ofCode (wordAt d (ne + 2) % 32768) = .ok q.qclass ∧
    q.qclass.toCode = wordAt d (ne + 2) % 32768 ∧
    q.unicast = decide (32768 ≤ wordAt d (ne + 2)) := by
  rw [question_parse_eq hn hlen] at h
  obtain ⟨qt, hqt, h⟩ := Out.bind_eq_ok h
  obtain ⟨qc, hqc, h⟩ := Out.bind_eq_ok h
  simp only [Out.pure_eq, Out.ok.injEq, Prod.mk.injEq] at h
  obtain ⟨hq, hp⟩ := h
  subst hq
  refine ⟨rfl, hp.symm, hqt, (qtype_roundtrip _).1 _ hqt, ?_, hqc, (qclass_roundtrip _).1 _ hqc, rfl⟩
  intro k hk
  simp only at hk
  rw [hk] at hqt
  exact qtype_ofCode_never_unknown _ _ hqt

/-- **`Question::parse`, completely**: it returns `(q, p)` exactly when the name at `pos` parses
to `q.name` and ends at some `ne`, four more bytes are there, `p = ne + 4`, the QTYPE word converts
to `q.qtype`, the masked QCLASS word converts to `q.qclass`, and `q.unicast` is the top bit. -/
theorem question_ok_iff (d : Bytes) (pos : Nat) (q : Question) (p : Nat) :
    Question.parse d pos = .ok (q, p) ↔
      ∃ ne, Name.parse d pos = .ok (q.name, ne) ∧ ne + 4 ≤ d.length ∧ p = ne + 4 ∧
        QTYPE.ofCode (wordAt d ne) = .ok q.qtype ∧
        QCLASS.ofCode (wordAt d (ne + 2) % 32768) = .ok q.qclass ∧
        q.unicast = decide (32768 ≤ wordAt d (ne + 2)) := by
  constructor
  · intro h
    have h0 := h
    unfold Question.parse at h0
    obtain ⟨⟨n, ne⟩, hn, h0⟩ := Out.bind_eq_ok h0
    dsimp only at h0
    split at h0
    · cases h0
    · have hlen : ne + 4 ≤ d.length := by omega
      obtain ⟨h1, h2, h3, _, _, h6, _, h8⟩ := question_fields hn hlen h
      subst h1
      exact ⟨ne, hn, hlen, h2, h3, h6, h8⟩
  · rintro ⟨ne, hn, hlen, hp, hqt, hqc, hu⟩
    rw [question_parse_eq hn hlen, hqt, hqc, hp]
    simp only [Out.bind_ok, Out.pure_eq, ← hu]

/-- **Every QTYPE word and every QCLASS word, on the plain wire layout**: the bytes
`name ‖ qtype ‖ qclass` (anything before, anything after) parse to the outcome dictated by the two
words — for all 65536 × 65536 pairs. -/
theorem question_wire (pre post : Bytes) (n : Name) (hwf : Name.WF n) (qt qc : Nat)
    (hqt : qt < 65536) (hqc : qc < 65536) :
    Question.parse (pre ++ (Name.write n ++ (beN 2 qt ++ (beN 2 qc ++ post)))) pre.length = (do
      let qtype ← QTYPE.ofCode qt
      let qclass ← QCLASS.ofCode (qc % 32768)
      pure ({ name := n, qtype := qtype, qclass := qclass, unicast := decide (32768 ≤ qc) },
            pre.length + Name.wireLen n + 4)) := by
  have hn := Name.parse_write hwf pre (beN 2 qt ++ (beN 2 qc ++ post))
  rw [question_parse_eq hn (by simp [Name.write_length]; omega)]
  rw [wordAt_at (a := pre ++ Name.write n) (w := qt) (z := beN 2 qc ++ post) (by simp)
      (by simp [Name.write_length]) hqt,
    wordAt_at (a := pre ++ (Name.write n ++ beN 2 qt)) (w := qc) (z := post) (by simp)
      (by simp [Name.write_length]; omega) hqc]

/-- on that layout: accepted iff both words are supported, an error otherwise -/
theorem question_wire_iff (pre post : Bytes) (n : Name) (hwf : Name.WF n) (qt qc : Nat)
    (hqt : qt < 65536) (hqc : qc < 65536) :
    ((∃ q p, Question.parse (pre ++ (Name.write n ++ (beN 2 qt ++ (beN 2 qc ++ post)))) pre.length
        = .ok (q, p)) ↔ (QTypeSupported qt ∧ QClassSupported (qc % 32768))) ∧
    (Question.parse (pre ++ (Name.write n ++ (beN 2 qt ++ (beN 2 qc ++ post)))) pre.length = .err ↔
      ¬ (QTypeSupported qt ∧ QClassSupported (qc % 32768))) := by
  have hn := Name.parse_write hwf pre (beN 2 qt ++ (beN 2 qc ++ post))
  have hlen : pre.length + Name.wireLen n + 4 ≤
      (pre ++ (Name.write n ++ (beN 2 qt ++ (beN 2 qc ++ post)))).length := by
    simp [Name.write_length]; omega
  have e1 := wordAt_at (a := pre ++ Name.write n) (w := qt) (z := beN 2 qc ++ post)
    (d := pre ++ (Name.write n ++ (beN 2 qt ++ (beN 2 qc ++ post))))
    (x := pre.length + Name.wireLen n) (by simp) (by simp [Name.write_length]) hqt
  have e2 := wordAt_at (a := pre ++ (Name.write n ++ beN 2 qt)) (w := qc) (z := post)
    (d := pre ++ (Name.write n ++ (beN 2 qt ++ (beN 2 qc ++ post))))
    (x := pre.length + Name.wireLen n + 2) (by simp) (by simp [Name.write_length]; omega) hqc
  have h1 := question_accepted_iff hn hlen
  have h2 := question_rejected_iff hn hlen
  rw [e1, e2] at h1 h2
  exact ⟨h1, h2⟩

/-- **A question with a QTYPE word the library has no type for is an error**, whatever the class
word: e.g. 99 (SPF), 250 (TSIG), 256 (URI), 65280.  It is not turned into a question of type
`TYPE(Unknown(99))`. -/
theorem question_unsupported_qtype_err (pre post : Bytes) (n : Name) (hwf : Name.WF n)
    (qt qc : Nat) (hqt : qt < 65536) (hqc : qc < 65536) (hbad : ¬ QTypeSupported qt) :
    Question.parse (pre ++ (Name.write n ++ (beN 2 qt ++ (beN 2 qc ++ post)))) pre.length = .err :=
  (question_wire_iff pre post n hwf qt qc hqt hqc).2.2 (fun h => hbad h.1)

/-- the same for the class word: any word whose low fifteen bits are not 1, 2, 3, 4, 254 or 255 -/
theorem question_unsupported_qclass_err (pre post : Bytes) (n : Name) (hwf : Name.WF n)
    (qt qc : Nat) (hqt : qt < 65536) (hqc : qc < 65536) (hbad : ¬ QClassSupported (qc % 32768)) :
    Question.parse (pre ++ (Name.write n ++ (beN 2 qt ++ (beN 2 qc ++ post)))) pre.length = .err :=
  (question_wire_iff pre post n hwf qt qc hqt hqc).2.2 (fun h => hbad h.2)

/-- a supported pair is accepted and the question carries exactly those codes -/
theorem question_supported_ok (pre post : Bytes) (n : Name) (hwf : Name.WF n)
    (qt qc : Nat) (hqt : qt < 65536) (hqc : qc < 65536)
    (h1 : QTypeSupported qt) (h2 : QClassSupported (qc % 32768)) :
    ∃ q, Question.parse (pre ++ (Name.write n ++ (beN 2 qt ++ (beN 2 qc ++ post)))) pre.length
        = .ok (q, pre.length + Name.wireLen n + 4) ∧
      q.name = n ∧ q.qtype.toCode = qt ∧ q.qclass.toCode = qc % 32768 ∧
      q.unicast = decide (32768 ≤ qc) ∧ ∀ k, q.qtype ≠ .TYPE (.Unknown k) := by
  obtain ⟨q, p, h⟩ := (question_wire_iff pre post n hwf qt qc hqt hqc).1.2 ⟨h1, h2⟩
  have hw := question_wire pre post n hwf qt qc hqt hqc
  rw [h] at hw
  obtain ⟨qt', hqt', hw⟩ := Out.bind_eq_ok hw.symm
  obtain ⟨qc', hqc', hw⟩ := Out.bind_eq_ok hw
  simp only [Out.pure_eq, Out.ok.injEq, Prod.mk.injEq] at hw
  obtain ⟨hq, hp⟩ := hw
  subst hq hp
  refine ⟨_, h, rfl, (qtype_roundtrip _).1 _ hqt', (qclass_roundtrip _).1 _ hqc', rfl, ?_⟩
  intro k hk
  simp only at hk
  rw [hk] at hqt'
  exact qtype_ofCode_never_unknown _ _ hqt'

/-- the hypotheses are satisfiable: name `a.`, QTYPE 255 (ANY), QCLASS 0x8001 (IN, unicast) -/
example : Name.WF [[97]] ∧ QTypeSupported 255 ∧ QClassSupported (0x8001 % 32768) := by decide

/-- 99, 250, 256 and 65280 are unsupported QTYPE words; 0, 5, 253 and 256 unsupported classes -/
example : ¬ QTypeSupported 99 ∧ ¬ QTypeSupported 250 ∧ ¬ QTypeSupported 256 ∧
    ¬ QTypeSupported 65280 ∧ ¬ QTypeSupported 0 ∧
    ¬ QClassSupported (0 % 32768) ∧ ¬ QClassSupported (5 % 32768) ∧
    ¬ QClassSupported (253 % 32768) ∧ ¬ QClassSupported (0x8100 % 32768) := by decide

/-- concretely: the question `a. TYPE99 IN` is an error, `a. ANY IN+unicast` is accepted -/
example : Question.parse ([1, 97, 0] ++ [0, 99, 0, 1]) 0 = .err ∧
    Question.parse ([1, 97, 0] ++ [0, 255, 0x80, 1]) 0 =
      .ok ({ name := [[97]], qtype := .ANY, qclass := .CLASS .IN, unicast := true }, 7) := by
  have e1 := question_wire [] [] [[97]] (by decide) 99 1 (by decide) (by decide)
  have e2 := question_wire [] [] [[97]] (by decide) 255 0x8001 (by decide) (by decide)
  exact ⟨e1, e2⟩

/-- the name may be compressed: at offset 3 a pointer to the name `a.` at offset 0, then
QTYPE 99 — an error by `question_rejected_iff`; with QTYPE 252 (AXFR) and class CH accepted -/
example : Question.parse [1, 97, 0, 0xC0, 0, 0, 99, 0, 1] 3 = .err ∧
    ∃ q, Question.parse [1, 97, 0, 0xC0, 0, 0, 252, 0, 3] 3 = .ok (q, 9) ∧
      q.qtype.toCode = 252 ∧ q.qclass.toCode = 3 ∧ q.unicast = false := by
  have hn1 : Name.parse [1, 97, 0, 0xC0, 0, 0, 99, 0, 1] 3 = .ok ([[97]], 5) := by
    unfold Name.parse
    rw [nameLoop]; simp
    rw [nameLoop]; simp
    rw [nameLoop]; simp
  have hn2 : Name.parse [1, 97, 0, 0xC0, 0, 0, 252, 0, 3] 3 = .ok ([[97]], 5) := by
    unfold Name.parse
    rw [nameLoop]; simp
    rw [nameLoop]; simp
    rw [nameLoop]; simp
  refine ⟨(question_rejected_iff hn1 (by decide)).2 (by decide), ?_⟩
  obtain ⟨q, p, h⟩ := (question_accepted_iff hn2 (by decide)).2 (by decide)
  obtain ⟨_, hp, _, h4, _, _, h7, h8⟩ := question_fields hn2 (by decide) h
  subst hp
  have e1 : wordAt [1, 97, 0, 0xC0, 0, 0, 252, 0, 3] 5 = 252 := by decide +kernel
  have e2 : wordAt [1, 97, 0, 0xC0, 0, 0, 252, 0, 3] (5 + 2) % 32768 = 3 := by decide +kernel
  have e3 : decide (32768 ≤ wordAt [1, 97, 0, 0xC0, 0, 0, 252, 0, 3] (5 + 2)) = false := by
    decide +kernel
  rw [e1] at h4; rw [e2] at h7; rw [e3] at h8
  exact ⟨q, h, h4, h7, h8⟩

/-! #### the question section of a whole message -/

/-- if `n` questions parse from `pos`, then for every `i < n` the first `i` parse and so does the
one after them -/
theorem parseQuestions_prefix {d : Bytes} : ∀ {n pos : Nat} {qs : List Question} {p : Nat},
    parseQuestions d n pos = .ok (qs, p) → ∀ i, i < n →
      ∃ qs' p' q p'', parseQuestions d i pos = .ok (qs', p') ∧ Question.parse d p' = .ok (q, p'') := by
  intro n
  induction n with
  | zero => intro pos qs p _ i hi; omega
  | succ n ih =>
    intro pos qs p h i hi
    simp only [parseQuestions] at h
    obtain ⟨⟨q, p1⟩, hq, h⟩ := Out.bind_eq_ok h
    dsimp only at h
    obtain ⟨⟨qs1, p2⟩, hqs, h⟩ := Out.bind_eq_ok h
    cases i with
    | zero => exact ⟨[], pos, q, p1, rfl, hq⟩
    | succ j =>
      obtain ⟨qs', p', q', p'', h1, h2⟩ := ih hqs j (by omega)
      refine ⟨q :: qs', p', q', p'', ?_, h2⟩
      simp only [parseQuestions, hq, Out.bind_ok, h1, Out.pure_eq]

/-- the same for a record section -/
theorem parseRRs_prefix {d : Bytes} : ∀ {n pos : Nat} {rs : List RR} {p : Nat},
    parseRRs d n pos = .ok (rs, p) → ∀ i, i < n →
      ∃ rs' p' r p'', parseRRs d i pos = .ok (rs', p') ∧ RR.parse d p' = .ok (r, p'') := by
  intro n
  induction n with
  | zero => intro pos rs p _ i hi; omega
  | succ n ih =>
    intro pos rs p h i hi
    simp only [parseRRs] at h
    obtain ⟨⟨r, p1⟩, hr, h⟩ := Out.bind_eq_ok h
    dsimp only at h
    obtain ⟨⟨rs1, p2⟩, hrs, h⟩ := Out.bind_eq_ok h
    cases i with
    | zero => exact ⟨[], pos, r, p1, rfl, hr⟩
    | succ j =>
      obtain ⟨rs', p', r', p'', h1, h2⟩ := ih hrs j (by omega)
      refine ⟨r :: rs', p', r', p'', ?_, h2⟩
      simp only [parseRRs, hr, Out.bind_ok, h1, Out.pure_eq]

/-- the section walks behind a successful `Packet::parse` -/
theorem packet_parse_chain {d : Bytes} {P : Packet} (h : Packet.parse d = .ok P) :
    ∃ qd p1 an p2 ns p3 ar addl p4,
      Peek.questions d = .ok qd ∧ parseQuestions d qd 12 = .ok (P.questions, p1) ∧
      Peek.answers d = .ok an ∧ parseRRs d an p1 = .ok (P.answers, p2) ∧
      Peek.nameServers d = .ok ns ∧ parseRRs d ns p2 = .ok (P.nameServers, p3) ∧
      Peek.additional d = .ok ar ∧ parseRRs d ar p3 = .ok (addl, p4) ∧
      P.additional = (liftOpt addl).2 := by
  unfold Packet.parse at h
  obtain ⟨h0, _, h⟩ := Out.bind_eq_ok h
  obtain ⟨qd, hqd, h⟩ := Out.bind_eq_ok h
  obtain ⟨⟨qs, p1⟩, hqs, h⟩ := Out.bind_eq_ok h
  dsimp only at h
  obtain ⟨an, han, h⟩ := Out.bind_eq_ok h
  obtain ⟨⟨as, p2⟩, has, h⟩ := Out.bind_eq_ok h
  dsimp only at h
  obtain ⟨ns, hns, h⟩ := Out.bind_eq_ok h
  obtain ⟨⟨nss, p3⟩, hnss, h⟩ := Out.bind_eq_ok h
  dsimp only at h
  obtain ⟨ar, har, h⟩ := Out.bind_eq_ok h
  obtain ⟨⟨ars, p4⟩, hars, h⟩ := Out.bind_eq_ok h
  dsimp only at h
  obtain ⟨h1, _, h⟩ := Out.bind_eq_ok h
  simp only [Out.pure_eq, Out.ok.injEq] at h
  subst h
  exact ⟨qd, p1, an, p2, ns, p3, ar, ars, p4, hqd, hqs, han, has, hns, hnss, har, hars, rfl⟩

/-- a parse that is neither `Ok` nor a panic is `Err` -/
theorem packet_err_of_not_ok {d : Bytes} (h : ∀ P, Packet.parse d ≠ .ok P) : Packet.parse d = .err := by
  cases hp : Packet.parse d with
  | ok P => exact absurd hp (h P)
  | err => rfl
  | panic => exact absurd hp (parse_no_panic d)

/-- **One refused question makes the whole message an error.**  If QDCOUNT announces more than
`i` questions, the first `i` parse and the next one is refused, `Packet::parse` returns `Err` —
there is no message with that question dropped or retyped. -/
theorem packet_bad_question_err {d : Bytes} {qd i : Nat} {qs : List Question} {p : Nat}
    (hqd : Peek.questions d = .ok qd) (hi : i < qd)
    (hpre : parseQuestions d i 12 = .ok (qs, p)) (hbad : Question.parse d p = .err) :
    Packet.parse d = .err := by
  apply packet_err_of_not_ok
  intro P hP
  obtain ⟨qd', p1, _, _, _, _, _, _, _, hqd', hqs, _⟩ := packet_parse_chain hP
  rw [hqd] at hqd'
  cases hqd'
  obtain ⟨qs', p', q, p'', h1, h2⟩ := parseQuestions_prefix hqs i hi
  rw [hpre] at h1
  cases h1
  rw [hbad] at h2
  cases h2

/-- **A message containing a question with an unsupported QTYPE or QCLASS word is an error**:
question number `i` (counting from 0) has a name that parses, its four bytes are there, and one
of its two words is unsupported. -/
theorem packet_unsupported_question_err {d : Bytes} {qd i : Nat} {qs : List Question} {p : Nat}
    {n : Name} {ne : Nat}
    (hqd : Peek.questions d = .ok qd) (hi : i < qd)
    (hpre : parseQuestions d i 12 = .ok (qs, p))
    (hn : Name.parse d p = .ok (n, ne)) (hlen : ne + 4 ≤ d.length)
    (hbad : ¬ (QTypeSupported (wordAt d ne) ∧ QClassSupported (wordAt d (ne + 2) % 32768))) :
    Packet.parse d = .err :=
  packet_bad_question_err hqd hi hpre ((question_rejected_iff hn hlen).2 hbad)

/-- conversely every question of a parsed message has a supported QTYPE: one of the five
question-only kinds or a plain type that is not `Unknown` -/
theorem packet_questions_supported {d : Bytes} {P : Packet} (h : Packet.parse d = .ok P) :
    ∀ q ∈ P.questions, QTypeSupported q.qtype.toCode ∧ QClassSupported q.qclass.toCode ∧
      ∀ k, q.qtype ≠ .TYPE (.Unknown k) := by
  obtain ⟨qd, p1, _, _, _, _, _, _, _, _, hqs, _⟩ := packet_parse_chain h
  obtain ⟨es, _, _, _, hc⟩ := Framing.parseQuestions_frame hqs
  intro q hq
  obtain ⟨i, hi, rfl⟩ := List.getElem_of_mem hq
  have hlen := hc.length_eq
  obtain ⟨_, hqt, hqc, _⟩ := hc.get i hi (by omega)
  have c1 := (qtype_roundtrip _).1 _ hqt
  have c2 := (qclass_roundtrip _).1 _ hqc
  refine ⟨?_, ?_, ?_⟩
  · rw [c1]; exact (qtype_ofCode_ok_iff _).1.1 ⟨_, hqt⟩
  · rw [c2]; exact (qclass_ofCode_ok_iff _).1.1 ⟨_, hqc⟩
  · intro k hk
    rw [hk] at hqt
    exact qtype_ofCode_never_unknown _ _ hqt

/-- the message `id=0x1234, RD, QDCOUNT=1` followed by the question `a. TYPE99 IN` -/
def c18wBadQuestion : Bytes :=
  [0x12, 0x34, 1, 0, 0, 1, 0, 0, 0, 0, 0, 0] ++ ([1, 97, 0] ++ [0, 99, 0, 1])

/-- the hypotheses of `packet_unsupported_question_err` hold for it, so it is an error -/
theorem c18wBadQuestion_err : Packet.parse c18wBadQuestion = .err := by
  have hn : Name.parse c18wBadQuestion 12 = .ok ([[97]], 15) :=
    Name.parse_write (n := [[97]]) (by decide) [0x12, 0x34, 1, 0, 0, 1, 0, 0, 0, 0, 0, 0] [0, 99, 0, 1]
  exact packet_unsupported_question_err (i := 0) (qd := 1) (by decide) (by decide) rfl hn
    (by decide) (by decide)

/-! ### 2. received records: `ResourceRecord::parse` as a function of the words after the name -/

/-- `TYPE::from(t)` is OPT only for 41 -/
theorem type_ofCode_opt_iff (t : Nat) : TYPE.ofCode t = .OPT ↔ t = 41 := by
  constructor
  · intro h
    have := type_roundtrip t
    rw [h] at this
    exact this.symm
  · intro h; subst h; rfl

/-- **`ResourceRecord::parse` once the owner name is known.**  The name at `pos` parses and ends
at `ne`; the rest is `RData::parse` at `ne` (which reads the TYPE word at `ne` and RDLENGTH at
`ne + 8`), the TTL at `ne + 4`, and — unless the record is an OPT pseudo-record, whose CLASS
field is the UDP payload size — `CLASS::try_from` of the low fifteen bits of the word at `ne + 2`,
the top bit being the mDNS cache-flush flag.  No length hypothesis: a record cut short is an error
on both sides. -/
theorem rr_parse_eq {d : Bytes} {pos : Nat} {n : Name} {ne : Nat}
    (hn : Name.parse d pos = .ok (n, ne)) :
    RR.parse d pos = (do
      let (rd, p') ← RData.parse d ne
      if rd.typeOf = .OPT then
        pure ({ name := n, cls := .IN, ttl := dwordAt d (ne + 4), rdata := rd, flush := false }, p')
      else do
        let cls ← CLASS.ofCode (wordAt d (ne + 2) % 32768)
        pure ({ name := n, cls := cls, ttl := dwordAt d (ne + 4), rdata := rd,
                flush := decide (32768 ≤ wordAt d (ne + 2)) }, p')) := by
  unfold RR.parse
  rw [hn]
  simp only [Out.bind_ok]
  by_cases hl : ne + 8 > d.length
  · rw [if_pos hl]
    have : RData.parse d ne = .err := by
      unfold RData.parse
      rw [if_pos (by omega)]
    rw [this]; rfl
  · rw [if_neg hl, slice_word (by omega) (by omega), slice_dword (by omega) (by omega)]
    simp only [Out.bind_ok, and_7fff]
    have ht := top_bit _ (wordAt_lt d (ne + 2))
    unfold wordAt at ht ⊢
    unfold dwordAt
    rw [ht]

/-- the first steps of `RData::parse` on a record whose ten fixed bytes and RDATA are inside the
buffer: TYPE word `t` at `ne`, RDLENGTH `l` at `ne + 8` -/
theorem rdata_parse_eq {d : Bytes} {ne : Nat} (hlen : ne + 10 + wordAt d (ne + 8) ≤ d.length) :
    RData.parse d ne =
      if TYPE.ofCode (wordAt d ne) = .OPT then
        optParse (d.take (ne + wordAt d (ne + 8) + 10)) ne
      else if wordAt d (ne + 8) = 0 then .ok (.empty (TYPE.ofCode (wordAt d ne)), ne + 10)
      else (do
        let (rd, _) ← parseTyped (d.take (ne + 10 + wordAt d (ne + 8))) (ne + 10)
          (TYPE.ofCode (wordAt d ne))
        pure (rd, ne + 10 + wordAt d (ne + 8))) := by
  unfold RData.parse
  rw [if_neg (by omega), slice_word rfl (by omega), slice_word (by omega) (by omega)]
  simp only [Out.bind_ok]
  unfold wordAt at hlen ⊢
  rw [if_neg (by omega)]

/-- **RDLENGTH 0, any TYPE word but 41**: `RData::parse` returns `RData::Empty(TYPE::from(t))` —
for a supported type, for NULL, for an unassigned code and for the question-only codes 251..255
alike.  No TYPE word is refused. -/
theorem rdata_parse_empty {d : Bytes} {ne : Nat} (hlen : ne + 10 ≤ d.length)
    (h0 : wordAt d (ne + 8) = 0) (hopt : wordAt d ne ≠ 41) :
    RData.parse d ne = .ok (.empty (TYPE.ofCode (wordAt d ne)), ne + 10) := by
  rw [rdata_parse_eq (by omega), if_neg (by rw [type_ofCode_opt_iff]; exact hopt), if_pos h0]

/-- **RDLENGTH 0, TYPE word 41**: an OPT pseudo-record without options; the CLASS word is kept as
the UDP payload size and the EDNS version is the second TTL byte. -/
theorem rdata_parse_opt_empty {d : Bytes} {ne : Nat} (hlen : ne + 10 ≤ d.length)
    (h0 : wordAt d (ne + 8) = 0) (hopt : wordAt d ne = 41) :
    RData.parse d ne =
      .ok (.opt { udp := wordAt d (ne + 2),
                  version := ((dwordAt d (ne + 4) &&& 0xFF00) >>> 8) % 256, codes := [] },
           ne + 10) := by
  rw [rdata_parse_eq (by omega), if_pos (by rw [type_ofCode_opt_iff]; exact hopt), h0]
  have hl : (d.take (ne + 0 + 10)).length = ne + 10 := by simp; omega
  unfold optParse
  rw [if_neg (by omega), slice_word (by omega) (by omega), slice_dword (by omega) (by omega)]
  simp only [Out.bind_ok]
  rw [optLoop, dif_neg (by omega)]
  simp only [Out.bind_ok, Out.pure_eq, List.reverse_nil]
  rw [Framing.take_drop_take (by omega), Framing.take_drop_take (by omega)]
  rfl

/-- **Opaque RDATA**: for TYPE word 10 (NULL) and for every TYPE word the library has no layout
for, a non-empty RDATA inside the buffer is kept byte for byte as `RData::NULL(t, bytes)` — the
code `t` itself is stored, so the type is not forgotten. -/
theorem rdata_parse_opaque {d : Bytes} {ne : Nat}
    (hlen : ne + 10 + wordAt d (ne + 8) ≤ d.length) (hpos : wordAt d (ne + 8) ≠ 0)
    (hty : wordAt d ne = 10 ∨ (TYPE.ofCode (wordAt d ne)).isUnknown = true) :
    RData.parse d ne =
      .ok (.null (wordAt d ne) ((d.drop (ne + 10)).take (wordAt d (ne + 8))),
           ne + 10 + wordAt d (ne + 8)) := by
  have hl : (d.take (ne + 10 + wordAt d (ne + 8))).length = ne + 10 + wordAt d (ne + 8) := by
    simp; omega
  have hlt := wordAt_lt d (ne + 8)
  have hs : slice (d.take (ne + 10 + wordAt d (ne + 8))) (ne + 10)
      (d.take (ne + 10 + wordAt d (ne + 8))).length
      = .ok ((d.drop (ne + 10)).take (wordAt d (ne + 8))) := by
    rw [slice_ok (by omega) (by omega), hl]
    have : ne + 10 + wordAt d (ne + 8) - (ne + 10) = wordAt d (ne + 8) := by omega
    rw [this, Framing.take_drop_take (by omega)]
  have hsl : ((d.drop (ne + 10)).take (wordAt d (ne + 8))).length = wordAt d (ne + 8) := by
    simp; omega
  rw [rdata_parse_eq hlen, if_neg, if_neg hpos]
  · rcases hty with h10 | hunk
    · rw [h10]
      have : TYPE.ofCode 10 = .NULL := rfl
      rw [this]
      simp only [parseTyped, hs, Out.bind_ok, hsl]
      rw [if_neg (by omega)]
      rfl
    · cases hk : TYPE.ofCode (wordAt d ne) <;> rw [hk] at hunk <;> simp [TYPE.isUnknown] at hunk
      rename_i c
      have hc := TYPE.ofCode_eq_unknown hk
      subst hc
      simp only [parseTyped, hs, Out.bind_ok, hsl]
      rw [if_neg (by omega)]
      rfl
  · rcases hty with h10 | hunk
    · rw [h10]; decide
    · intro h; rw [h] at hunk; simp [TYPE.isUnknown] at hunk

/-- whatever `RData::parse` returns has the type the TYPE word denotes and ends RDLENGTH bytes
after the fixed part (`Framing.RData.parse_frame` in terms of `wordAt`) -/
theorem rdata_parse_type {d : Bytes} {ne : Nat} {rd : RData} {p : Nat}
    (h : RData.parse d ne = .ok (rd, p)) :
    rd.typeOf = TYPE.ofCode (wordAt d ne) ∧ p = ne + 10 + wordAt d (ne + 8) ∧ p ≤ d.length := by
  obtain ⟨t, l, ht, hl, hp, hle, hty⟩ := Framing.RData.parse_frame h
  have h1 := Framing.field_le ht
  have h2 := Framing.field_le hl
  rw [Framing.field_eq h1] at ht
  rw [Framing.field_eq h2] at hl
  cases ht; cases hl
  exact ⟨hty, hp, hle⟩

/-! ### 5. (stated before 2–3, which use it) the CLASS word of a received record -/

/-- **The CLASS word of a received record that is not OPT**: the record is accepted exactly when
the low fifteen bits of the word are 1, 2, 3, 4 or 254 and is an error otherwise; an accepted
record has the class with that code and `cache_flush` equal to the top bit; the RDATA and the
cursor are those of `RData::parse`. -/
theorem rr_class_word {d : Bytes} {pos : Nat} {n : Name} {ne : Nat} {rd : RData} {p' : Nat}
    (hn : Name.parse d pos = .ok (n, ne)) (hrd : RData.parse d ne = .ok (rd, p'))
    (hno : rd.typeOf ≠ .OPT) :
    ((∃ r p, RR.parse d pos = .ok (r, p)) ↔ ClassSupported (wordAt d (ne + 2) % 32768)) ∧
    (RR.parse d pos = .err ↔ ¬ ClassSupported (wordAt d (ne + 2) % 32768)) ∧
    (∀ r p, RR.parse d pos = .ok (r, p) →
      CLASS.ofCode (wordAt d (ne + 2) % 32768) = .ok r.cls ∧
      r.cls.toCode = wordAt d (ne + 2) % 32768 ∧
      r.flush = decide (32768 ≤ wordAt d (ne + 2)) ∧
      r.name = n ∧ r.ttl = dwordAt d (ne + 4) ∧ r.rdata = rd ∧ p = p') := by
  have hc := class_ofCode_ok_iff (wordAt d (ne + 2) % 32768)
  rw [rr_parse_eq hn, hrd]
  simp only [Out.bind_ok, if_neg hno]
  cases hk : CLASS.ofCode (wordAt d (ne + 2) % 32768) with
  | ok k =>
    have s := hc.1.1 ⟨k, hk⟩
    have hcode := (class_roundtrip _).1 k hk
    refine ⟨by simp [s], by simp [s], ?_⟩
    intro r p h
    simp only [Out.bind_ok, Out.pure_eq, Out.ok.injEq, Prod.mk.injEq] at h
    obtain ⟨h1, h2⟩ := h
    subst h1 h2
    exact ⟨rfl, hcode, rfl, rfl, rfl, rfl, rfl⟩
  | err =>
    have s := hc.2.1 hk
    refine ⟨by simp [s], by simp [s], ?_⟩
    intro r p h
    simp at h
  | panic => exact absurd hk (class_roundtrip _).2.1

/-- **The CLASS word of an OPT pseudo-record is not a class**: every word is accepted (it is the
requestor's UDP payload size); the record's class is reported as IN and `cache_flush` as false. -/
theorem rr_opt_class_word {d : Bytes} {pos : Nat} {n : Name} {ne : Nat} {rd : RData} {p' : Nat}
    (hn : Name.parse d pos = .ok (n, ne)) (hrd : RData.parse d ne = .ok (rd, p'))
    (hopt : rd.typeOf = .OPT) :
    RR.parse d pos =
      .ok ({ name := n, cls := .IN, ttl := dwordAt d (ne + 4), rdata := rd, flush := false }, p') := by
  rw [rr_parse_eq hn, hrd]
  simp only [Out.bind_ok, if_pos hopt, Out.pure_eq]

/-- a record is OPT exactly when its TYPE word is 41 -/
theorem rdata_parse_opt_iff {d : Bytes} {ne : Nat} {rd : RData} {p : Nat}
    (h : RData.parse d ne = .ok (rd, p)) : rd.typeOf = .OPT ↔ wordAt d ne = 41 := by
  rw [(rdata_parse_type h).1, type_ofCode_opt_iff]

/-! ### 2. received records with RDLENGTH 0: every TYPE word -/

/-- **RDLENGTH 0, TYPE word ≠ 41**: the record is `RData::Empty(TYPE::from(t))` under the class the
CLASS word denotes (an error when that is unsupported). -/
theorem rr_empty_parse_eq {d : Bytes} {pos : Nat} {n : Name} {ne : Nat}
    (hn : Name.parse d pos = .ok (n, ne)) (hlen : ne + 10 ≤ d.length)
    (h0 : wordAt d (ne + 8) = 0) (hopt : wordAt d ne ≠ 41) :
    RR.parse d pos = (do
      let cls ← CLASS.ofCode (wordAt d (ne + 2) % 32768)
      pure ({ name := n, cls := cls, ttl := dwordAt d (ne + 4),
              rdata := .empty (TYPE.ofCode (wordAt d ne)),
              flush := decide (32768 ≤ wordAt d (ne + 2)) }, ne + 10)) := by
  rw [rr_parse_eq hn, rdata_parse_empty hlen h0 hopt]
  simp only [Out.bind_ok]
  rw [if_neg]
  simp only [RData.typeOf, type_ofCode_opt_iff]
  exact hopt

/-- **RDLENGTH 0, TYPE word 41**: accepted whatever the CLASS word. -/
theorem rr_empty_opt_parse_eq {d : Bytes} {pos : Nat} {n : Name} {ne : Nat}
    (hn : Name.parse d pos = .ok (n, ne)) (hlen : ne + 10 ≤ d.length)
    (h0 : wordAt d (ne + 8) = 0) (hopt : wordAt d ne = 41) :
    RR.parse d pos =
      .ok ({ name := n, cls := .IN, ttl := dwordAt d (ne + 4),
             rdata := .opt { udp := wordAt d (ne + 2),
                             version := ((dwordAt d (ne + 4) &&& 0xFF00) >>> 8) % 256,
                             codes := [] },
             flush := false }, ne + 10) :=
  rr_opt_class_word hn (rdata_parse_opt_empty hlen h0 hopt) rfl

/-- **No TYPE word is refused on a record with empty RDATA**: for every TYPE word `t` (supported,
NULL, unassigned, or one of the question-only codes 251..255) and a supported CLASS word the record
parses; the type it reports is `TYPE::from(t)`; it answers the question naming exactly that type,
and ANY; and (unless `t` is 41) it is `RData::Empty(TYPE::from(t))` with the class and cache-flush
bit of the CLASS word. -/
theorem rr_empty_every_type {d : Bytes} {pos : Nat} {n : Name} {ne : Nat}
    (hn : Name.parse d pos = .ok (n, ne)) (hlen : ne + 10 ≤ d.length)
    (h0 : wordAt d (ne + 8) = 0) (hcls : ClassSupported (wordAt d (ne + 2) % 32768)) :
    ∃ r, RR.parse d pos = .ok (r, ne + 10) ∧ r.name = n ∧ r.ttl = dwordAt d (ne + 4) ∧
      r.rdata.typeOf = TYPE.ofCode (wordAt d ne) ∧
      r.matchQType (.TYPE (TYPE.ofCode (wordAt d ne))) = true ∧ r.matchQType .ANY = true ∧
      (wordAt d ne ≠ 41 →
        r.rdata = .empty (TYPE.ofCode (wordAt d ne)) ∧
        r.cls.toCode = wordAt d (ne + 2) % 32768 ∧
        r.flush = decide (32768 ≤ wordAt d (ne + 2))) := by
  by_cases hopt : wordAt d ne = 41
  · refine ⟨_, rr_empty_opt_parse_eq hn hlen h0 hopt, rfl, rfl, ?_, ?_, rfl, fun h => absurd hopt h⟩
    · rw [hopt]; rfl
    · rw [hopt]; rfl
  · obtain ⟨k, hk⟩ := (class_ofCode_ok_iff _).1.2 hcls
    have hcode := (class_roundtrip _).1 k hk
    refine ⟨_, by rw [rr_empty_parse_eq hn hlen h0 hopt, hk]; rfl, rfl, rfl, rfl, ?_, rfl,
      fun _ => ⟨rfl, hcode, rfl⟩⟩
    simp [RR.matchQType, matchQType, RData.typeOf]

/-- with empty RDATA a record is accepted exactly when its TYPE word is 41 or its CLASS word is
supported — the TYPE word never causes a refusal -/
theorem rr_empty_accepted_iff {d : Bytes} {pos : Nat} {n : Name} {ne : Nat}
    (hn : Name.parse d pos = .ok (n, ne)) (hlen : ne + 10 ≤ d.length)
    (h0 : wordAt d (ne + 8) = 0) :
    (∃ r p, RR.parse d pos = .ok (r, p)) ↔
      (wordAt d ne = 41 ∨ ClassSupported (wordAt d (ne + 2) % 32768)) := by
  by_cases hopt : wordAt d ne = 41
  · simp only [hopt, true_or, iff_true]
    exact ⟨_, _, rr_empty_opt_parse_eq hn hlen h0 hopt⟩
  · simp only [hopt, false_or]
    exact (rr_class_word hn (rdata_parse_empty hlen h0 hopt)
      (fun h => hopt ((type_ofCode_opt_iff _).1 h))).1

/-- **On records the five question-only codes are ordinary unknown TYPE codes**: 251..255 denote
`Unknown(251)` … `Unknown(255)`, not IXFR/AXFR/MAILB/MAILA/ANY; a record received under TYPE word
253 is not picked up by a MAILB question nor one under 254 by MAILA, and one under 251 not by IXFR
(while ANY and AXFR match every record). -/
theorem qtype_only_codes_on_records :
    (∀ t ∈ [251, 252, 253, 254, 255], TYPE.ofCode t = .Unknown t) ∧
    matchQType (TYPE.ofCode 253) .MAILB = false ∧ matchQType (TYPE.ofCode 254) .MAILA = false ∧
    matchQType (TYPE.ofCode 251) .IXFR = false ∧
    (∀ t ∈ [251, 252, 253, 254, 255], matchQType (TYPE.ofCode t) (.TYPE (.Unknown t)) = true ∧
      matchQType (TYPE.ofCode t) .ANY = true) := by decide

/-! ### 3. received records of a type without a layout: opaque RDATA -/

/-- `TYPE::from(t)` is NULL only for 10 -/
theorem type_ofCode_null_iff (t : Nat) : TYPE.ofCode t = .NULL ↔ t = 10 := by
  constructor
  · intro h
    have := type_roundtrip t
    rw [h] at this
    exact this.symm
  · intro h; subst h; rfl

/-- a type with opaque RDATA (NULL or no layout) is not OPT -/
theorem opaque_not_opt {t : Nat} (hty : t = 10 ∨ (TYPE.ofCode t).isUnknown = true) :
    TYPE.ofCode t ≠ .OPT := by
  rcases hty with h | h
  · subst h; decide
  · intro h'; rw [h'] at h; simp [TYPE.isUnknown] at h

/-- **A record of a type without a layout, non-empty RDATA**: `RData::NULL(t, bytes)` under the
class the CLASS word denotes.  (RDLENGTH is a 16-bit field, so the data is at most 65535 bytes.) -/
theorem rr_opaque_parse_eq {d : Bytes} {pos : Nat} {n : Name} {ne : Nat}
    (hn : Name.parse d pos = .ok (n, ne))
    (hlen : ne + 10 + wordAt d (ne + 8) ≤ d.length) (hpos : wordAt d (ne + 8) ≠ 0)
    (hty : wordAt d ne = 10 ∨ (TYPE.ofCode (wordAt d ne)).isUnknown = true) :
    RR.parse d pos = (do
      let cls ← CLASS.ofCode (wordAt d (ne + 2) % 32768)
      pure ({ name := n, cls := cls, ttl := dwordAt d (ne + 4),
              rdata := .null (wordAt d ne) ((d.drop (ne + 10)).take (wordAt d (ne + 8))),
              flush := decide (32768 ≤ wordAt d (ne + 2)) }, ne + 10 + wordAt d (ne + 8))) := by
  rw [rr_parse_eq hn, rdata_parse_opaque hlen hpos hty]
  simp only [Out.bind_ok]
  rw [if_neg]
  exact opaque_not_opt hty

/-- **The type reported for such a record is the one its TYPE word denotes** — `Unknown(t)` for
an unassigned `t`, NULL only for `t = 10`: the record answers a question naming `TYPE::from(t)`,
and a question for NULL only when `t = 10`. -/
theorem rr_opaque_type {d : Bytes} {pos : Nat} {n : Name} {ne : Nat}
    (hn : Name.parse d pos = .ok (n, ne))
    (hlen : ne + 10 + wordAt d (ne + 8) ≤ d.length) (hpos : wordAt d (ne + 8) ≠ 0)
    (hty : wordAt d ne = 10 ∨ (TYPE.ofCode (wordAt d ne)).isUnknown = true)
    (hcls : ClassSupported (wordAt d (ne + 2) % 32768)) :
    ∃ r, RR.parse d pos = .ok (r, ne + 10 + wordAt d (ne + 8)) ∧ r.name = n ∧
      r.rdata = .null (wordAt d ne) ((d.drop (ne + 10)).take (wordAt d (ne + 8))) ∧
      r.rdata.typeOf = TYPE.ofCode (wordAt d ne) ∧
      (r.rdata.typeOf = .NULL ↔ wordAt d ne = 10) ∧
      (wordAt d ne ≠ 10 → r.rdata.typeOf = .Unknown (wordAt d ne)) ∧
      r.matchQType (.TYPE (TYPE.ofCode (wordAt d ne))) = true ∧
      (r.matchQType (.TYPE .NULL) = true ↔ wordAt d ne = 10) ∧
      r.cls.toCode = wordAt d (ne + 2) % 32768 ∧ r.flush = decide (32768 ≤ wordAt d (ne + 2)) := by
  obtain ⟨k, hk⟩ := (class_ofCode_ok_iff _).1.2 hcls
  have hcode := (class_roundtrip _).1 k hk
  refine ⟨_, by rw [rr_opaque_parse_eq hn hlen hpos hty, hk]; rfl, rfl, rfl, rfl, ?_, ?_, ?_, ?_,
    hcode, rfl⟩
  · exact type_ofCode_null_iff _
  · intro h10
    rcases hty with h | h
    · exact absurd h h10
    · show TYPE.ofCode (wordAt d ne) = _
      cases hk' : TYPE.ofCode (wordAt d ne) <;> rw [hk'] at h <;> simp [TYPE.isUnknown] at h
      rw [TYPE.ofCode_eq_unknown hk']
  · simp [RR.matchQType, matchQType, RData.typeOf]
  · simp only [RR.matchQType, matchQType, RData.typeOf, beq_iff_eq]
    rw [eq_comm, type_ofCode_null_iff]

/-! ### 2′/3′. the same on the plain wire layout, for all words -/

/-- a record on the wire: owner name, TYPE, CLASS, TTL, RDLENGTH word `l`, then `rest` -/
def rrWire (pre : Bytes) (n : Name) (t cw ttl l : Nat) (rest : Bytes) : Bytes :=
  pre ++ (Name.write n ++ (beN 2 t ++ (beN 2 cw ++ (beN 4 ttl ++ (beN 2 l ++ rest)))))

/-- with RDLENGTH 0 the layout is `name ‖ type ‖ class ‖ ttl ‖ 00 00 ‖ …` -/
theorem rrWire_zero (pre : Bytes) (n : Name) (t cw ttl : Nat) (rest : Bytes) :
    rrWire pre n t cw ttl 0 rest =
      pre ++ (Name.write n ++ (beN 2 t ++ (beN 2 cw ++ (beN 4 ttl ++ ([0, 0] ++ rest))))) := rfl

/-- where the fields of `rrWire` are -/
theorem rrWire_words (pre : Bytes) (n : Name) (hwf : Name.WF n) (t cw ttl l : Nat) (rest : Bytes)
    (ht : t < 65536) (hcw : cw < 65536) (httl : ttl < 2 ^ 32) (hl : l < 65536) :
    Name.parse (rrWire pre n t cw ttl l rest) pre.length = .ok (n, pre.length + Name.wireLen n) ∧
    wordAt (rrWire pre n t cw ttl l rest) (pre.length + Name.wireLen n) = t ∧
    wordAt (rrWire pre n t cw ttl l rest) (pre.length + Name.wireLen n + 2) = cw ∧
    dwordAt (rrWire pre n t cw ttl l rest) (pre.length + Name.wireLen n + 4) = ttl ∧
    wordAt (rrWire pre n t cw ttl l rest) (pre.length + Name.wireLen n + 8) = l ∧
    (rrWire pre n t cw ttl l rest).length = pre.length + Name.wireLen n + 10 + rest.length ∧
    (rrWire pre n t cw ttl l rest).drop (pre.length + Name.wireLen n + 10) = rest := by
  refine ⟨Name.parse_write hwf pre _, ?_, ?_, ?_, ?_, ?_, ?_⟩
  · exact wordAt_at (a := pre ++ Name.write n) (z := beN 2 cw ++ (beN 4 ttl ++ (beN 2 l ++ rest)))
      (by simp [rrWire]) (by simp [Name.write_length]) ht
  · exact wordAt_at (a := pre ++ (Name.write n ++ beN 2 t)) (z := beN 4 ttl ++ (beN 2 l ++ rest))
      (by simp [rrWire]) (by simp [Name.write_length]; omega) hcw
  · exact dwordAt_at (a := pre ++ (Name.write n ++ (beN 2 t ++ beN 2 cw))) (z := beN 2 l ++ rest)
      (by simp [rrWire]) (by simp [Name.write_length]; omega) httl
  · exact wordAt_at (a := pre ++ (Name.write n ++ (beN 2 t ++ (beN 2 cw ++ beN 4 ttl)))) (z := rest)
      (by simp [rrWire]) (by simp [Name.write_length]; omega) hl
  · simp [rrWire, Name.write_length]; omega
  · have e : rrWire pre n t cw ttl l rest =
        (pre ++ (Name.write n ++ (beN 2 t ++ (beN 2 cw ++ (beN 4 ttl ++ beN 2 l))))) ++ rest := by
      simp [rrWire]
    rw [e]
    exact List.drop_left' (by simp [Name.write_length]; omega)

/-- **Every TYPE word with RDLENGTH 0 on the wire**: for all `t`, all CLASS words whose low
fifteen bits are a supported class, all TTLs, the bytes
`name ‖ t ‖ class ‖ ttl ‖ 00 00` parse to a record reporting type `TYPE::from(t)` which answers
the question for exactly that type and for ANY. -/
theorem rr_wire_empty_every_type (pre post : Bytes) (n : Name) (hwf : Name.WF n) (t cw ttl : Nat)
    (ht : t < 65536) (hcw : cw < 65536) (httl : ttl < 2 ^ 32)
    (hcls : ClassSupported (cw % 32768)) :
    ∃ r, RR.parse (rrWire pre n t cw ttl 0 post) pre.length
        = .ok (r, pre.length + Name.wireLen n + 10) ∧
      r.name = n ∧ r.ttl = ttl ∧ r.rdata.typeOf = TYPE.ofCode t ∧
      r.matchQType (.TYPE (TYPE.ofCode t)) = true ∧ r.matchQType .ANY = true ∧
      (t ≠ 41 → r.rdata = .empty (TYPE.ofCode t) ∧ r.cls.toCode = cw % 32768 ∧
        r.flush = decide (32768 ≤ cw)) := by
  obtain ⟨hn, w1, w2, w3, w4, hlen, _⟩ :=
    rrWire_words pre n hwf t cw ttl 0 post ht hcw httl (by decide)
  have := rr_empty_every_type hn (by omega) w4 (by rw [w2]; exact hcls)
  rw [w1, w2, w3] at this
  exact this

/-- on that layout (TYPE word ≠ 41) the record is accepted exactly for the supported class words
and is an error for all others -/
theorem rr_wire_empty_class_iff (pre post : Bytes) (n : Name) (hwf : Name.WF n) (t cw ttl : Nat)
    (ht : t < 65536) (hcw : cw < 65536) (httl : ttl < 2 ^ 32) (hopt : t ≠ 41) :
    ((∃ r p, RR.parse (rrWire pre n t cw ttl 0 post) pre.length = .ok (r, p)) ↔
      ClassSupported (cw % 32768)) ∧
    (RR.parse (rrWire pre n t cw ttl 0 post) pre.length = .err ↔ ¬ ClassSupported (cw % 32768)) := by
  obtain ⟨hn, w1, w2, w3, w4, hlen, _⟩ :=
    rrWire_words pre n hwf t cw ttl 0 post ht hcw httl (by decide)
  have hrd := rdata_parse_empty (d := rrWire pre n t cw ttl 0 post)
    (ne := pre.length + Name.wireLen n) (by omega) w4 (by rw [w1]; exact hopt)
  have := rr_class_word hn hrd (by
    simp only [RData.typeOf, w1]
    exact fun h => hopt ((type_ofCode_opt_iff _).1 h))
  rw [w2] at this
  exact ⟨this.1, this.2.1⟩

/-- **Opaque RDATA on the wire**: for every TYPE word `t` that is 10 or has no layout, 1..65535
arbitrary bytes `data`, a supported class word: the record is `RData::NULL(t, data)`, reports type
`TYPE::from(t)` (NULL only for `t = 10`, else `Unknown(t)`), and answers the question for exactly
that type. -/
theorem rr_wire_opaque (pre post : Bytes) (n : Name) (hwf : Name.WF n) (t cw ttl : Nat)
    (data : Bytes) (ht : t < 65536) (hcw : cw < 65536) (httl : ttl < 2 ^ 32)
    (hd0 : data ≠ []) (hd1 : data.length ≤ 65535)
    (hty : t = 10 ∨ (TYPE.ofCode t).isUnknown = true) (hcls : ClassSupported (cw % 32768)) :
    ∃ r, RR.parse (rrWire pre n t cw ttl data.length (data ++ post)) pre.length
        = .ok (r, pre.length + Name.wireLen n + 10 + data.length) ∧
      r.name = n ∧ r.rdata = .null t data ∧ r.rdata.typeOf = TYPE.ofCode t ∧
      (r.rdata.typeOf = .NULL ↔ t = 10) ∧ (t ≠ 10 → r.rdata.typeOf = .Unknown t) ∧
      r.matchQType (.TYPE (TYPE.ofCode t)) = true ∧
      (r.matchQType (.TYPE .NULL) = true ↔ t = 10) ∧
      r.cls.toCode = cw % 32768 ∧ r.flush = decide (32768 ≤ cw) := by
  obtain ⟨hn, w1, w2, w3, w4, hlen, hdrop⟩ :=
    rrWire_words pre n hwf t cw ttl data.length (data ++ post) ht hcw httl (by omega)
  have hpos : data.length ≠ 0 := by
    intro h; exact hd0 (List.eq_nil_of_length_eq_zero h)
  obtain ⟨r, hr, hname, h1, h2, h3, h4, h5, h6, h7, h8⟩ :=
    rr_opaque_type hn (by rw [w4, hlen]; simp) (by rw [w4]; exact hpos)
      (by rw [w1]; exact hty) (by rw [w2]; exact hcls)
  rw [w1] at h1 h2 h3 h4 h5 h6
  rw [w4] at hr h1
  rw [w2] at h7 h8
  rw [hdrop, List.take_left' rfl] at h1
  exact ⟨r, hr, hname, h1, h2, h3, h4, h5, h6, h7, h8⟩

/-- the hypotheses of the wire theorems are satisfiable: TYPE words 251 and 65280 are unknown,
10 is NULL, the class words 1 and 0x8001 are supported -/
example : Name.WF [[97]] ∧ (TYPE.ofCode 251).isUnknown = true ∧ (TYPE.ofCode 65280).isUnknown = true ∧
    ClassSupported (1 % 32768) ∧ ClassSupported (0x8001 % 32768) ∧ ¬ ClassSupported (5 % 32768) ∧
    ¬ ClassSupported (255 % 32768) ∧ ([1, 2, 3] : Bytes) ≠ [] := by decide

/-- `a. TYPE251 IN 60 ""`: accepted, an empty record of type `Unknown(251)` (not IXFR) -/
example : RR.parse ([1, 97, 0] ++ [0, 251, 0, 1, 0, 0, 0, 60, 0, 0]) 0 =
    .ok ({ name := [[97]], cls := .IN, ttl := 60, rdata := .empty (.Unknown 251),
           flush := false }, 13) := by
  have hn : Name.parse ([1, 97, 0] ++ [0, 251, 0, 1, 0, 0, 0, 60, 0, 0]) 0 = .ok ([[97]], 3) :=
    Name.parse_write (n := [[97]]) (by decide) [] _
  rw [rr_empty_parse_eq hn (by decide) (by decide) (by decide)]
  decide +kernel

/-- `a. TYPE65280 IN+flush 60 01 02 03`: accepted, `NULL(65280, 01 02 03)`, type `Unknown(65280)` -/
example : RR.parse ([1, 97, 0] ++ [0xFF, 0, 0x80, 1, 0, 0, 0, 60, 0, 3, 1, 2, 3]) 0 =
    .ok ({ name := [[97]], cls := .IN, ttl := 60, rdata := .null 65280 [1, 2, 3],
           flush := true }, 16) := by
  have hn : Name.parse ([1, 97, 0] ++ [0xFF, 0, 0x80, 1, 0, 0, 0, 60, 0, 3, 1, 2, 3]) 0
      = .ok ([[97]], 3) := Name.parse_write (n := [[97]]) (by decide) [] _
  rw [rr_opaque_parse_eq hn (by decide) (by decide) (by decide)]
  decide +kernel

/-- `. OPT udp=1232 ttl=0 ""`: accepted although 1232 is no class; `a. A CLASS5 0 ""` is an error -/
example : RR.parse ([0] ++ [0, 41, 0x04, 0xD0, 0, 0, 0, 0, 0, 0]) 0 =
      .ok ({ name := [], cls := .IN, ttl := 0,
             rdata := .opt { udp := 1232, version := 0, codes := [] }, flush := false }, 11) ∧
    RR.parse ([1, 97, 0] ++ [0, 1, 0, 5, 0, 0, 0, 0, 0, 0]) 0 = .err := by
  have hn1 : Name.parse ([0] ++ [0, 41, 0x04, 0xD0, 0, 0, 0, 0, 0, 0]) 0 = .ok ([], 1) :=
    Name.parse_write (n := []) (by decide) [] _
  have hn2 : Name.parse ([1, 97, 0] ++ [0, 1, 0, 5, 0, 0, 0, 0, 0, 0]) 0 = .ok ([[97]], 3) :=
    Name.parse_write (n := [[97]]) (by decide) [] _
  rw [rr_empty_opt_parse_eq hn1 (by decide) (by decide) (by decide),
    rr_empty_parse_eq hn2 (by decide) (by decide) (by decide)]
  decide +kernel

/-! #### the record sections of a whole message -/

/-- **One refused record in the answer section makes the whole message an error.** -/
theorem packet_bad_answer_err {d : Bytes} {qd an i : Nat} {qs : List Question} {p1 : Nat}
    {rs : List RR} {p : Nat}
    (hqd : Peek.questions d = .ok qd) (hqs : parseQuestions d qd 12 = .ok (qs, p1))
    (han : Peek.answers d = .ok an) (hi : i < an)
    (hpre : parseRRs d i p1 = .ok (rs, p)) (hbad : RR.parse d p = .err) :
    Packet.parse d = .err := by
  apply packet_err_of_not_ok
  intro P hP
  obtain ⟨qd', p1', an', p2, _, _, _, _, _, hqd', hqs', han', has, _⟩ := packet_parse_chain hP
  rw [hqd] at hqd'; cases hqd'
  rw [hqs] at hqs'; cases hqs'
  rw [han] at han'; cases han'
  obtain ⟨rs', p', r, p'', h1, h2⟩ := parseRRs_prefix has i hi
  rw [hpre] at h1; cases h1
  rw [hbad] at h2; cases h2

/-- the same for the authority section -/
theorem packet_bad_authority_err {d : Bytes} {qd an ns i : Nat} {qs : List Question} {p1 : Nat}
    {as : List RR} {p2 : Nat} {rs : List RR} {p : Nat}
    (hqd : Peek.questions d = .ok qd) (hqs : parseQuestions d qd 12 = .ok (qs, p1))
    (han : Peek.answers d = .ok an) (has : parseRRs d an p1 = .ok (as, p2))
    (hns : Peek.nameServers d = .ok ns) (hi : i < ns)
    (hpre : parseRRs d i p2 = .ok (rs, p)) (hbad : RR.parse d p = .err) :
    Packet.parse d = .err := by
  apply packet_err_of_not_ok
  intro P hP
  obtain ⟨qd', p1', an', p2', ns', p3, _, _, _, hqd', hqs', han', has', hns', hnss, _⟩ :=
    packet_parse_chain hP
  rw [hqd] at hqd'; cases hqd'
  rw [hqs] at hqs'; cases hqs'
  rw [han] at han'; cases han'
  rw [has] at has'; cases has'
  rw [hns] at hns'; cases hns'
  obtain ⟨rs', p', r, p'', h1, h2⟩ := parseRRs_prefix hnss i hi
  rw [hpre] at h1; cases h1
  rw [hbad] at h2; cases h2

/-- and for the additional section -/
theorem packet_bad_additional_err {d : Bytes} {qd an ns ar i : Nat} {qs : List Question} {p1 : Nat}
    {as : List RR} {p2 : Nat} {nss : List RR} {p3 : Nat} {rs : List RR} {p : Nat}
    (hqd : Peek.questions d = .ok qd) (hqs : parseQuestions d qd 12 = .ok (qs, p1))
    (han : Peek.answers d = .ok an) (has : parseRRs d an p1 = .ok (as, p2))
    (hns : Peek.nameServers d = .ok ns) (hnss : parseRRs d ns p2 = .ok (nss, p3))
    (har : Peek.additional d = .ok ar) (hi : i < ar)
    (hpre : parseRRs d i p3 = .ok (rs, p)) (hbad : RR.parse d p = .err) :
    Packet.parse d = .err := by
  apply packet_err_of_not_ok
  intro P hP
  obtain ⟨qd', p1', an', p2', ns', p3', ar', addl, p4, hqd', hqs', han', has', hns', hnss', har',
    hars, _⟩ := packet_parse_chain hP
  rw [hqd] at hqd'; cases hqd'
  rw [hqs] at hqs'; cases hqs'
  rw [han] at han'; cases han'
  rw [has] at has'; cases has'
  rw [hns] at hns'; cases hns'
  rw [hnss] at hnss'; cases hnss'
  rw [har] at har'; cases har'
  obtain ⟨rs', p', r, p'', h1, h2⟩ := parseRRs_prefix hars i hi
  rw [hpre] at h1; cases h1
  rw [hbad] at h2; cases h2

/-- **A message with an answer whose CLASS word is unsupported is an error** (answer number `i`,
not an OPT pseudo-record, otherwise well formed). -/
theorem packet_unsupported_class_err {d : Bytes} {qd an i : Nat} {qs : List Question} {p1 : Nat}
    {rs : List RR} {p : Nat} {n : Name} {ne : Nat} {rd : RData} {p' : Nat}
    (hqd : Peek.questions d = .ok qd) (hqs : parseQuestions d qd 12 = .ok (qs, p1))
    (han : Peek.answers d = .ok an) (hi : i < an) (hpre : parseRRs d i p1 = .ok (rs, p))
    (hn : Name.parse d p = .ok (n, ne)) (hrd : RData.parse d ne = .ok (rd, p'))
    (hno : wordAt d ne ≠ 41) (hbad : ¬ ClassSupported (wordAt d (ne + 2) % 32768)) :
    Packet.parse d = .err :=
  packet_bad_answer_err hqd hqs han hi hpre
    ((rr_class_word hn hrd (fun h => hno ((rdata_parse_opt_iff hrd).1 h))).2.1.2 hbad)

/-- the message `id=0x1234, QR, ANCOUNT=1` with the single answer `a. A CLASS5 0 ""` -/
def c18wBadClass : Bytes :=
  [0x12, 0x34, 0x80, 0, 0, 0, 0, 1, 0, 0, 0, 0] ++ ([1, 97, 0] ++ [0, 1, 0, 5, 0, 0, 0, 0, 0, 0])

/-- the hypotheses of `packet_unsupported_class_err` hold for it, so it is an error -/
theorem c18wBadClass_err : Packet.parse c18wBadClass = .err := by
  have hn : Name.parse c18wBadClass 12 = .ok ([[97]], 15) :=
    Name.parse_write (n := [[97]]) (by decide) [0x12, 0x34, 0x80, 0, 0, 0, 0, 1, 0, 0, 0, 0]
      [0, 1, 0, 5, 0, 0, 0, 0, 0, 0]
  have hrd := rdata_parse_empty (d := c18wBadClass) (ne := 15) (by decide) (by decide) (by decide)
  exact packet_unsupported_class_err (i := 0) (qd := 0) (an := 1) (by decide) rfl (by decide)
    (by decide) rfl hn hrd (by decide) (by decide)

/-! ### 4. `into_owned` keeps the type -/

/-- **`RData::into_owned` keeps the reported type**, variant by variant (proved from the
field-by-field definition, not from `into_owned = id`). -/
theorem rdata_intoOwned_typeOf (rd : RData) : (RData.intoOwned rd).typeOf = rd.typeOf := by
  cases rd <;> rfl

/-- **`ResourceRecord::into_owned` keeps type, class and flag**, hence every answer of
`match_qtype` / `match_qclass`. -/
theorem rr_intoOwned_match (r : RR) :
    r.intoOwned.rdata.typeOf = r.rdata.typeOf ∧ r.intoOwned.cls = r.cls ∧
    r.intoOwned.flush = r.flush ∧ r.intoOwned.ttl = r.ttl ∧
    (∀ q, r.intoOwned.matchQType q = r.matchQType q) ∧
    (∀ q, r.intoOwned.matchQClass q = r.matchQClass q) := by
  refine ⟨rdata_intoOwned_typeOf _, rfl, rfl, rfl, fun q => ?_, fun q => rfl⟩
  simp only [RR.matchQType, RR.intoOwned, rdata_intoOwned_typeOf]

/-- `Question::into_owned` keeps QTYPE, QCLASS and the unicast flag -/
theorem question_intoOwned_codes (q : Question) :
    q.intoOwned.qtype = q.qtype ∧ q.intoOwned.qclass = q.qclass ∧ q.intoOwned.unicast = q.unicast :=
  ⟨rfl, rfl, rfl⟩

/-- the fixed fields written for the owned copy (TYPE word, CLASS word or OPT payload size, TTL)
are those of the original -/
theorem rr_intoOwned_writeCommon (r : RR) : r.intoOwned.writeCommon = r.writeCommon := by
  obtain ⟨n, c, t, rd, f⟩ := r
  cases rd <;> rfl

/-- in the bytes `ResourceRecord::write_to` produces, the two bytes after the owner name are the
record's type code -/
theorem rr_write_type_word {r : RR} {b : Bytes} (h : r.write = .ok b) :
    (b.drop (Name.wireLen r.name)).take 2 = beN 2 r.rdata.typeOf.toCode := by
  unfold RR.write at h
  obtain ⟨rdb, _, h⟩ := Out.bind_eq_ok h
  simp only [Out.pure_eq, Out.ok.injEq] at h
  subst h
  rw [List.drop_left' (Name.write_length _), ← type_code_written r]
  exact List.take_append_of_le_length (by simp [RR.writeCommon])

/-- **the owned copy is written under the same TYPE word as the original**: `write_to` gives the
same bytes, and the two bytes after the owner name are the original's type code -/
theorem rr_intoOwned_write (r : RR) :
    r.intoOwned.write = r.write ∧
    ∀ b, r.intoOwned.write = .ok b →
      (b.drop (Name.wireLen r.name)).take 2 = beN 2 r.rdata.typeOf.toCode := by
  have hid := OwnedL.rr r
  refine ⟨by rw [hid], fun b hb => ?_⟩
  rw [hid] at hb
  exact rr_write_type_word hb

/-- the type of a received record is `TYPE::from` of the word after its owner name -/
theorem rr_parse_type_word {d : Bytes} {pos : Nat} {n : Name} {ne : Nat} {r : RR} {p : Nat}
    (hn : Name.parse d pos = .ok (n, ne)) (h : RR.parse d pos = .ok (r, p)) :
    r.rdata.typeOf = TYPE.ofCode (wordAt d ne) ∧ r.name = n ∧ p = ne + 10 + wordAt d (ne + 8) := by
  rw [rr_parse_eq hn] at h
  obtain ⟨⟨rd, p'⟩, hrd, h⟩ := Out.bind_eq_ok h
  obtain ⟨hty, hp, _⟩ := rdata_parse_type hrd
  dsimp only at h
  split at h
  · simp only [Out.pure_eq, Out.ok.injEq, Prod.mk.injEq] at h
    obtain ⟨h1, h2⟩ := h
    subst h1 h2
    exact ⟨hty, rfl, hp⟩
  · obtain ⟨k, _, h⟩ := Out.bind_eq_ok h
    simp only [Out.pure_eq, Out.ok.injEq, Prod.mk.injEq] at h
    obtain ⟨h1, h2⟩ := h
    subst h1 h2
    exact ⟨hty, rfl, hp⟩

/-- **received, then made owned**: the owned copy of a parsed record still reports
`TYPE::from(word)`, answers questions as that type does, and is written under that very word. -/
theorem rr_parse_intoOwned {d : Bytes} {pos : Nat} {n : Name} {ne : Nat} {r : RR} {p : Nat}
    (hn : Name.parse d pos = .ok (n, ne)) (h : RR.parse d pos = .ok (r, p)) :
    r.intoOwned.rdata.typeOf = TYPE.ofCode (wordAt d ne) ∧
    (∀ q, r.intoOwned.matchQType q = matchQType (TYPE.ofCode (wordAt d ne)) q) ∧
    r.intoOwned.writeCommon.take 2 = beN 2 (wordAt d ne) := by
  have hty := (rr_parse_type_word hn h).1
  refine ⟨by rw [(rr_intoOwned_match r).1, hty], fun q => ?_, ?_⟩
  · rw [(rr_intoOwned_match r).2.2.2.2.1 q, RR.matchQType_eq, hty]
  · rw [rr_intoOwned_writeCommon, type_code_written, hty, type_roundtrip]

/-- the hypotheses hold for the record `a. TYPE65280 IN 0 AB` of `Props/C18More.lean` -/
example : ∃ r p, RR.parse c18UnkRec 0 = .ok (r, p) ∧ Name.parse c18UnkRec 0 = .ok ([[97]], 3) ∧
    r.intoOwned.rdata.typeOf = .Unknown 65280 := by
  have hn : Name.parse c18UnkRec 0 = .ok ([[97]], 3) :=
    Name.parse_write (n := [[97]]) (by decide) [] [0xFF, 0, 0, 1, 0, 0, 0, 0, 0, 1, 0xAB]
  refine ⟨_, _, c18UnkRec_parses.1, hn, ?_⟩
  rw [(rr_parse_intoOwned hn c18UnkRec_parses.1).1]
  decide +kernel

end C18Wire
end Dns
