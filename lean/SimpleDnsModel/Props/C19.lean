/-
C19 — TXT text and attribute conversions are lossless.

Splitting any string into a TXT record and joining it back returns the same
string, each piece fitting a 255-byte character-string; converting an
attribute map (keys without '=', entries within 255 bytes) to TXT and reading
attributes back returns the same map, distinguishing an absent value from an
empty one, with the first occurrence winning for duplicate keys; parsing a
semicolon-separated attribute string splits only at ';' and the first '='
characters.  Over-long character-strings are refused at construction rather
than truncated on the wire.
-/
import SimpleDnsModel.Lemmas.Txt
namespace Dns

/-! ## 1. split / join -/

/-- `TXT::try_from(&str)` succeeds on every string, with the 254-byte chunks of its UTF-8 bytes -/
theorem txt_ofStr_eq (s : String) : Txt.ofStr s = .ok (chunks 254 (bytesOfString s)) :=
  charStrsNew_ok (fun c hc => by have := chunks_length _ c hc; omega)

/-- `String::try_from(TXT::try_from(s)?) == Ok(s)` for every string (every sequence of Unicode
scalar values), in particular when a chunk boundary falls inside a multi-byte character. -/
theorem txt_split_join (s : String) : (Txt.ofStr s >>= Txt.toStr) = .ok s := by
  rw [txt_ofStr_eq]
  simp [Txt.toStr, chunks_flatten, stringOfBytes?_bytesOfString]

/-- the pieces concatenate to the UTF-8 bytes of the string -/
theorem txt_ofStr_flatten (s : String) (ss : List Bytes) (h : Txt.ofStr s = .ok ss) :
    ss.flatten = bytesOfString s := by
  rw [txt_ofStr_eq] at h; cases h
  exact chunks_flatten (by decide) _

/-! ## 2. every piece fits a character-string -/

/-- every piece is non-empty and has at most 254 bytes (so at most 255 with its length octet,
and its length fits the one-byte length prefix) -/
theorem chunks_fit (b : Bytes) : ∀ c ∈ chunks 254 b, 1 ≤ c.length ∧ c.length ≤ 254 :=
  chunks_length b

/-- all pieces but the last are full -/
theorem chunks_full (b : Bytes) (i : Nat) (c : Bytes) (h : i + 1 < (chunks 254 b).length)
    (hc : (chunks 254 b)[i]? = some c) : c.length = 254 :=
  chunks_length_getElem? b i c h hc

theorem txt_ofStr_total (s : String) : Txt.ofStr s ≠ .err ∧ Txt.ofStr s ≠ .panic := by
  rw [txt_ofStr_eq]; simp

theorem txt_ofStr_fit (s : String) (ss : List Bytes) (h : Txt.ofStr s = .ok ss) :
    ∀ c ∈ ss, 1 ≤ c.length ∧ c.length ≤ 254 := by
  rw [txt_ofStr_eq] at h; cases h
  exact chunks_fit _

-- the hypotheses of `chunks_full` are satisfiable: 300 bytes give a full and a partial piece
example : (chunks 254 (List.replicate 300 7)).map List.length = [254, 46] := by
  rw [chunks_two _ (by rw [List.length_replicate]; decide) (by rw [List.length_replicate]; decide),
    List.length_replicate]

/-! ## 3. over-long character-strings are refused, not truncated -/

theorem overlong_refused (b : Bytes) : 255 < b.length → CharStr.new b = .err :=
  (CharStr.new_err_iff b).mpr

theorem charStr_new_ok_iff (b : Bytes) : CharStr.new b = .ok b ↔ b.length ≤ 255 :=
  CharStr.new_ok_iff b

/-- whatever `CharacterString::new` returns is the input itself: never a truncation -/
theorem charStr_new_exact (b c : Bytes) (h : CharStr.new b = .ok c) : c = b ∧ b.length ≤ 255 :=
  CharStr.new_eq_ok h

theorem charStr_new_ne_panic (b : Bytes) : CharStr.new b ≠ .panic := CharStr.new_ne_panic b

example : 255 < (List.replicate 256 (0 : UInt8)).length := by rw [List.length_replicate]; decide
example : CharStr.new (List.replicate 256 0) = .err :=
  overlong_refused _ (by rw [List.length_replicate]; decide)
example : CharStr.new (List.replicate 255 0) = .ok (List.replicate 255 0) :=
  (charStr_new_ok_iff _).mpr (by rw [List.length_replicate]; decide)

theorem ofMap_refuses_overlong (m : Attrs) :
    (∃ e ∈ m, 255 < (attrEntryBytes e).length) → Txt.ofMap m = .err := by
  rintro ⟨e, he, hl⟩
  exact charStrsNew_err ⟨attrEntryBytes e, List.mem_map.mpr ⟨e, he, rfl⟩, hl⟩

theorem ofMap_err_iff (m : Attrs) :
    Txt.ofMap m = .err ↔ ∃ e ∈ m, 255 < (attrEntryBytes e).length := by
  unfold Txt.ofMap
  rw [charStrsNew_err_iff]
  constructor
  · rintro ⟨c, hc, hl⟩
    obtain ⟨e, he, rfl⟩ := List.mem_map.mp hc
    exact ⟨e, he, hl⟩
  · rintro ⟨e, he, hl⟩
    exact ⟨_, List.mem_map.mpr ⟨e, he, rfl⟩, hl⟩

/-- `TXT::try_from(map)` succeeds exactly when every entry fits, and then produces exactly one
character-string per entry, untruncated, in iteration order -/
theorem ofMap_ok_iff (m : Attrs) (ss : List Bytes) :
    Txt.ofMap m = .ok ss ↔
      ss = m.map attrEntryBytes ∧ ∀ e ∈ m, (attrEntryBytes e).length ≤ 255 := by
  unfold Txt.ofMap
  rw [charStrsNew_ok_iff, List.forall_mem_map]

theorem ofMap_ne_panic (m : Attrs) : Txt.ofMap m ≠ .panic := charStrsNew_ne_panic _

-- the hypothesis of `ofMap_refuses_overlong` is satisfiable: a 254-byte key with a 1-byte value
example : ∃ e ∈ ([("ok", none), (String.ofList (List.replicate 254 'k'), some "v")] : Attrs),
    255 < (attrEntryBytes e).length :=
  ⟨_, List.mem_cons_of_mem _ (List.mem_singleton.mpr rfl), by
    have h1 := length_le_length_bytesOfString (String.ofList (List.replicate 254 'k'))
    rw [String.toList_ofList, List.length_replicate] at h1
    have h2 : 1 ≤ (bytesOfString "v").length := length_le_length_bytesOfString "v"
    simp only [attrEntryBytes, List.length_append, List.length_cons]
    omega⟩

/-! ## 4. attribute map → TXT → attribute map -/

/-- admissible attribute maps: keys pairwise distinct (a `HashMap`), no key contains `'='`,
every entry `key` / `key=value` fits a character-string -/
def MapOK (m : Attrs) : Prop :=
  m.keys.Nodup ∧ (∀ e ∈ m, '=' ∉ e.1.toList) ∧ (∀ e ∈ m, (attrEntryBytes e).length ≤ 255)

/-- `TXT::try_from(m)?.attributes() == m`.  `m` is an arbitrary list of entries, so this holds
for every iteration order of the Rust `HashMap`; the result lists the entries in that order. -/
theorem attrs_roundtrip (m : Attrs) : MapOK m → ∃ ss, Txt.ofMap m = .ok ss ∧ Txt.attributes ss = m := by
  rintro ⟨hn, hk, hl⟩
  refine ⟨m.map attrEntryBytes, (ofMap_ok_iff m _).mpr ⟨rfl, hl⟩, ?_⟩
  rw [Txt.attributes_eq_insertAll, List.filterMap_map]
  have : m.filterMap (attrOfCharStr ∘ attrEntryBytes) = m := by
    exact filterMap_eq_self (fun e he => attrOfCharStr_attrEntryBytes e (hk e he))
  rw [this, Attrs.insertAll_of_nodup hn (by simp [Attrs.keys])]
  rfl

/-- an absent value (`None`) is read back as absent … -/
theorem attrs_roundtrip_absent (m : Attrs) (k : String) (h : MapOK m) (hk : (k, none) ∈ m) :
    ∃ ss, Txt.ofMap m = .ok ss ∧ (Txt.attributes ss).lookup k = some none := by
  obtain ⟨ss, h1, h2⟩ := attrs_roundtrip m h
  exact ⟨ss, h1, by rw [h2]; exact Attrs.lookup_of_mem_nodup h.1 hk⟩

/-- … and an empty value (`Some("")`) as empty; the two are different results -/
theorem attrs_roundtrip_empty (m : Attrs) (k : String) (h : MapOK m) (hk : (k, some "") ∈ m) :
    ∃ ss, Txt.ofMap m = .ok ss ∧ (Txt.attributes ss).lookup k = some (some "") := by
  obtain ⟨ss, h1, h2⟩ := attrs_roundtrip m h
  exact ⟨ss, h1, by rw [h2]; exact Attrs.lookup_of_mem_nodup h.1 hk⟩

example : (some none : Option (Option String)) ≠ some (some "") := by decide

/-- every value is read back exactly -/
theorem attrs_roundtrip_lookup (m : Attrs) (h : MapOK m) (ss : List Bytes)
    (hs : Txt.ofMap m = .ok ss) (k : String) : (Txt.attributes ss).lookup k = m.lookup k := by
  obtain ⟨ss', h1, h2⟩ := attrs_roundtrip m h
  rw [hs] at h1; cases h1; rw [h2]

/-- a concrete admissible map: an absent value, an empty value, a value containing `'='`,
non-ASCII text whose code points are ≡ `'='` mod 256 -/
def sampleMap : Attrs :=
  [("flag", none), ("empty", some ""), ("with_eq", some "eq="), ("kĽ", some "Ľ=Ļ")]

theorem sampleMap_ok : MapOK sampleMap := by
  refine ⟨by decide, by decide, ?_⟩
  simp only [sampleMap, attrEntryBytes, bytesOfString_eq_flatMap]
  decide

example : ∃ ss, Txt.ofMap sampleMap = .ok ss ∧ Txt.attributes ss = sampleMap :=
  attrs_roundtrip _ sampleMap_ok

example : ((k, none) ∈ sampleMap ↔ k = "flag") ∧ ((k, some "") ∈ sampleMap ↔ k = "empty") := by
  simp [sampleMap]

/-- the hypothesis "no `'='` in a key" is needed: such a key is cut at the `'='` -/
example : attrOfCharStr (attrEntryBytes ("a=b", none)) = some ("a", some "b") := by
  simp only [attrEntryBytes, bytesOfString_eq_flatMap]
  decide

/-! ## 5. duplicate keys: the first occurrence wins -/

/-- `TXT::attributes` returns for each key the value of its first occurrence among the
character-strings that parse to an attribute -/
theorem attributes_lookup (ss : List Bytes) (k : String) :
    (Txt.attributes ss).lookup k = Attrs.lookup (ss.filterMap attrOfCharStr) k := by
  rw [Txt.attributes_eq_insertAll, Attrs.lookup_insertAll]; rfl

theorem dup_first_wins (a : Bytes) (ss : List Bytes) (k : String) (v : Option String)
    (h : attrOfCharStr a = some (k, v)) : (Txt.attributes (a :: ss)).lookup k = some v := by
  rw [attributes_lookup, List.filterMap_cons, h]
  exact Attrs.lookup_cons_self k v _

/-- general form: the string `a` decides the value of `k` as soon as no earlier string has key
`k`, whatever the later strings are -/
theorem first_occurrence_wins (pre : List Bytes) (a : Bytes) (post : List Bytes) (k : String)
    (v : Option String) (h : attrOfCharStr a = some (k, v))
    (hpre : ∀ c ∈ pre, ∀ v', attrOfCharStr c ≠ some (k, v')) :
    (Txt.attributes (pre ++ a :: post)).lookup k = some v := by
  rw [attributes_lookup, List.filterMap_append, List.filterMap_cons, h]
  apply Attrs.lookup_append_cons_of_not_mem
  rw [Attrs.mem_keys_iff]
  rintro ⟨v', hv'⟩
  obtain ⟨c, hc, hcv⟩ := List.mem_filterMap.mp hv'
  exact hpre c hc v' hcv

/-- a key is present exactly when some character-string has it -/
theorem attributes_mem_keys (ss : List Bytes) (k : String) :
    k ∈ (Txt.attributes ss).keys ↔ ∃ c ∈ ss, ∃ v, attrOfCharStr c = some (k, v) := by
  rw [Txt.attributes_eq_insertAll, Attrs.mem_keys_insertAll]
  constructor
  · rintro (h | h)
    · simp [Attrs.keys] at h
    · obtain ⟨v, hv⟩ := (Attrs.mem_keys_iff _ _).mp h
      obtain ⟨c, hc, h⟩ := List.mem_filterMap.mp hv
      exact ⟨c, hc, v, h⟩
  · rintro ⟨c, hc, v, h⟩
    exact .inr ((Attrs.mem_keys_iff _ _).mpr ⟨v, List.mem_filterMap.mpr ⟨c, hc, h⟩⟩)

/-- the result is a map: its keys are pairwise distinct -/
theorem attributes_keys_nodup (ss : List Bytes) : (Txt.attributes ss).keys.Nodup := by
  rw [Txt.attributes_eq_insertAll]
  exact Attrs.nodup_keys_insertAll _ (by simp [Attrs.keys])

-- "k=1", "j", "k=2", "k": the later values of `k` are ignored
example : Txt.attributes [[107, 61, 49], [106], [107, 61, 50], [107]] = [("k", some "1"), ("j", none)] := by
  decide
example : attrOfCharStr [107, 61, 49] = some ("k", some "1") := by decide
example : ∀ c ∈ [[106]], ∀ v', attrOfCharStr c ≠ some ("k", v') := by
  intro c hc v'; simp only [List.mem_singleton] at hc; subst hc
  have : attrOfCharStr [106] = some ("j", none) := by decide
  rw [this]; simp

/-! ## 6. `long_attributes`: split at `';'` and at the first `'='` only -/

/-- the result of `long_attributes` is the fold over the `';'`-separated parts of the joined
string -/
theorem long_attrs_split (ss : List Bytes) (full : String) (h : Txt.toStr ss = .ok full) :
    Txt.longAttributes ss = .ok ((splitChars ';' full.toList).foldl (fun m part =>
      let kv := attrOfPart part
      if kv.1.isEmpty then m else m.insertIfAbsent kv.1 kv.2) []) := by
  simp [Txt.longAttributes, h]

/-- equivalently: insert, first occurrence winning, the `(key, value)` of every part with a
non-empty key -/
theorem long_attrs_eq (ss : List Bytes) (full : String) (h : Txt.toStr ss = .ok full) :
    Txt.longAttributes ss = .ok (Attrs.insertAll []
      (((splitChars ';' full.toList).map attrOfPart).filter (fun kv => !kv.1.isEmpty))) := by
  rw [long_attrs_split ss full h, ← longAttrsOfString_eq_insertAll]; rfl

theorem long_attrs_lookup (ss : List Bytes) (full : String) (h : Txt.toStr ss = .ok full) :
    ∃ m, Txt.longAttributes ss = .ok m ∧ m.keys.Nodup ∧ ∀ k, m.lookup k =
      Attrs.lookup (((splitChars ';' full.toList).map attrOfPart).filter (fun kv => !kv.1.isEmpty)) k :=
  ⟨_, long_attrs_eq ss full h, Attrs.nodup_keys_insertAll _ (by simp [Attrs.keys]),
    fun k => by rw [Attrs.lookup_insertAll]; rfl⟩

/-- (a) `split(';')`: the pieces joined with the separator give back the string, no piece
contains the separator, and this determines the pieces -/
theorem split_only_at_sep (sep : Char) (cs : List Char) :
    [sep].intercalate (splitChars sep cs) = cs ∧ (∀ p ∈ splitChars sep cs, sep ∉ p) ∧
    splitChars sep cs ≠ [] :=
  ⟨intercalate_splitChars sep cs, splitChars_no_sep sep cs, splitChars_ne_nil sep cs⟩

theorem split_unique (sep : Char) (ps : List (List Char)) (hne : ps ≠ [])
    (h : ∀ p ∈ ps, sep ∉ p) : splitChars sep ([sep].intercalate ps) = ps :=
  splitChars_intercalate sep ps hne h

example : ([['a'], [], ['b', 'c']] : List (List Char)) ≠ [] ∧
    ∀ p ∈ ([['a'], [], ['b', 'c']] : List (List Char)), ';' ∉ p := by decide
example : splitChars ';' "a;;bc".toList = [['a'], [], ['b', 'c']] := by decide

/-- (b) `splitn(2, '=')`: a part with a `'='` is cut at its first `'='` (the key has none, the
value keeps all later ones); a part without is a key with an absent value -/
theorem part_split_at_first_eq (part : List Char) :
    ('=' ∈ part → ∃ key value, part = key ++ '=' :: value ∧ '=' ∉ key ∧
      attrOfPart part = (String.ofList key, some (String.ofList value))) ∧
    ('=' ∉ part → attrOfPart part = (String.ofList part, none)) :=
  ⟨attrOfPart_of_mem part, attrOfPart_of_not_mem part⟩

theorem part_split_unique (key value : List Char) (h : '=' ∉ key) :
    attrOfPart (key ++ '=' :: value) = (String.ofList key, some (String.ofList value)) :=
  attrOfPart_append key value h

example : attrOfPart "k=v=w".toList = ("k", some "v=w") := by decide
example : attrOfPart "k=".toList = ("k", some "") := by decide
example : attrOfPart "k".toList = ("k", none) := by decide

theorem long_attrs_err_iff (ss : List Bytes) :
    Txt.longAttributes ss = .err ↔ Txt.toStr ss = .err := by
  unfold Txt.longAttributes
  cases h : Txt.toStr ss <;> simp

/-- `long_attributes` fails exactly when the joined bytes are not UTF-8 -/
theorem long_attrs_err_iff_utf8 (ss : List Bytes) :
    Txt.longAttributes ss = .err ↔ stringOfBytes? ss.flatten = none := by
  rw [long_attrs_err_iff]
  unfold Txt.toStr
  cases stringOfBytes? ss.flatten <;> simp

theorem long_attrs_ne_panic (ss : List Bytes) : Txt.longAttributes ss ≠ .panic := by
  unfold Txt.longAttributes
  have := Txt.toStr_ne_panic ss
  cases h : Txt.toStr ss <;> simp_all

/-- together with `txt_split_join`: the long attributes of a split string are those of the string -/
theorem long_attrs_of_str (s : String) :
    (Txt.ofStr s >>= Txt.longAttributes) = .ok (longAttrsOfString s) := by
  have h := txt_split_join s
  rw [txt_ofStr_eq] at h ⊢
  simp only [Out.bind_ok] at h ⊢
  rw [long_attrs_split _ s h]; rfl

/-- U+013B `Ļ` and U+013D `Ľ` (code points ≡ `';'`, `'='` mod 256) are ordinary characters;
their UTF-8 encodings C4 BB, C4 BD contain neither 0x3B nor 0x3D. -/
example : bytesOfString "aĻb=cĽd;e" = [97, 196, 187, 98, 61, 99, 196, 189, 100, 59, 101] := by
  rw [bytesOfString_eq_flatMap]; decide

example : Txt.toStr [[97, 196, 187, 98, 61, 99, 196], [189, 100, 59, 101]] = .ok "aĻb=cĽd;e" := by
  decide

example : Txt.longAttributes [[97, 196, 187, 98, 61, 99, 196], [189, 100, 59, 101]]
    = .ok [("aĻb", some "cĽd"), ("e", none)] := by decide

example : Txt.attributes [[97, 196, 187, 98, 61, 99, 196, 189, 100, 59, 101]]
    = [("aĻb", some "cĽd;e")] := by decide

example : splitChars ';' ['a', 'Ļ', 'b', '=', 'c', 'Ľ', 'd', ';', 'e']
    = [['a', 'Ļ', 'b', '=', 'c', 'Ľ', 'd'], ['e']] := by decide

example : attrOfPart ['a', 'Ļ', 'b', '=', 'c', 'Ľ', 'd'] = ("aĻb", some "cĽd") := by decide

-- invalid UTF-8 (a lone continuation byte) is an error, not a panic
example : Txt.longAttributes [[97, 187]] = .err := by decide

end Dns
