/-
C09 — EDNS(0) data is carried per RFC 6891.

The reference is Spec/Rfc6891.lean: the OPT pseudo-record (root owner name,
TYPE 41, CLASS = UDP payload size, TTL = EXTENDED-RCODE | VERSION | flags,
RDATA = option triples) and the split of the 12-bit response code.

KNOWN DEVIATION (known finding `opt-ttl-byte-order`). The library writes and
reads the four TTL octets in the opposite order of RFC 6891 §6.1.3: the
extended RCODE is in the LOW octet and the VERSION in the second-lowest octet.
The README doctest of the crate pins this layout, so it cannot be repaired.
The theorems below state what the library does and make the deviation
explicit: `optTtl_is_byteswapped`, `optTtl_ne_rfc`, `optTtl_rfc_iff`; the
layout theorem is therefore called `opt_record_layout_partial`.
-/
import SimpleDnsModel.Lemmas.Rfc
import SimpleDnsModel.Props.C05
namespace Dns
open Spec.Rfc6891

/-! ### 1. the TTL word -/

/-- `byteSwap32` on a word given by its four octets -/
theorem byteSwap32_octets (a b c d : Nat) (ha : a < 256) (hb : b < 256) (hc : c < 256)
    (hd : d < 256) :
    byteSwap32 (a * 2 ^ 24 + b * 2 ^ 16 + c * 256 + d) = d * 2 ^ 24 + c * 2 ^ 16 + b * 256 + a := by
  simp only [byteSwap32, Nat.reducePow]
  have h1 : (a * 16777216 + b * 65536 + c * 256 + d) % 256 = d := by omega
  have h2 : (a * 16777216 + b * 65536 + c * 256 + d) / 256 % 256 = c := by omega
  have h3 : (a * 16777216 + b * 65536 + c * 256 + d) / 65536 % 256 = b := by omega
  have h4 : (a * 16777216 + b * 65536 + c * 256 + d) / 16777216 % 256 = a := by omega
  rw [h1, h2, h3, h4]

/-- the RFC's fields of a byte-swapped word are the original's octets in reverse -/
theorem fields_of_byteSwap32 (t : Nat) :
    extendedRcodeOfTtl (byteSwap32 t) = t % 256 ∧ versionOfTtl (byteSwap32 t) = t / 256 % 256 ∧
    flagsOfTtl (byteSwap32 t) = t / 65536 % 256 * 256 + t / 2 ^ 24 % 256 := by
  simp only [byteSwap32, extendedRcodeOfTtl, versionOfTtl, flagsOfTtl, Nat.reducePow]
  have ha : t % 256 < 256 := Nat.mod_lt _ (by decide)
  have hb : t / 256 % 256 < 256 := Nat.mod_lt _ (by decide)
  have hc : t / 65536 % 256 < 256 := Nat.mod_lt _ (by decide)
  have hd : t / 16777216 % 256 < 256 := Nat.mod_lt _ (by decide)
  generalize t % 256 = a at *
  generalize t / 256 % 256 = b at *
  generalize t / 65536 % 256 = c at *
  generalize t / 16777216 % 256 = d at *
  refine ⟨by omega, by omega, by omega⟩

theorem Rfc.or_shl8 (a v : Nat) (ha : a < 256) : (a ||| (v <<< 8)) = a + v * 256 := by
  rw [Nat.or_comm, ← Nat.shiftLeft_add_eq_or_of_lt (by simpa using ha), Nat.shiftLeft_eq]
  omega

/-- `(rcode & 0xFF) >> 4` is the RFC's EXTENDED-RCODE of each of the 13 named codes (0 for all
but BADVERS, whose extended part is 1) -/
theorem extended_bits (r : RCODE) :
    (r.toCode &&& 0xFF) >>> 4 = extendedRcode r.toCode ∧ extendedRcode r.toCode < 2 := by
  cases r <;> decide

/-- the library's TTL word: extended RCODE in bits 0–7, VERSION from bit 8 up -/
theorem encodeTtl_val (o : OptData) (h : Header) :
    encodeTtl o h = extendedRcode h.rcode.toCode + o.version * 256 := by
  unfold encodeTtl
  rw [(extended_bits h.rcode).1, Rfc.or_shl8 _ _ (by have := (extended_bits h.rcode).2; omega)]

/-- The TTL the library writes is the RFC 6891 TTL (extended RCODE, version, flags = 0) with its
four octets in the opposite order. -/
theorem optTtl_is_byteswapped (o : OptData) (h : Header) (hv : o.version < 256) :
    encodeTtl o h = byteSwap32 (ttl (extendedRcode h.rcode.toCode) o.version 0) := by
  rw [encodeTtl_val]
  have := (extended_bits h.rcode).2
  generalize extendedRcode h.rcode.toCode = e at *
  generalize o.version = v at *
  simp only [byteSwap32, ttl, Nat.reducePow]
  omega

/-- It is not the RFC's TTL: BADVERS with version 3 gives 0x00000301 instead of 0x01030000. -/
theorem optTtl_ne_rfc : ∃ (o : OptData) (h : Header),
    encodeTtl o h ≠ ttl (extendedRcode h.rcode.toCode) o.version 0 :=
  ⟨{ udp := 1232, version := 3, codes := [] },
   { id := 0, opcode := .StandardQuery, rcode := .BADVERS, flags := 0, opt := none }, by decide⟩

example : encodeTtl { udp := 1232, version := 3, codes := [] }
    { id := 0, opcode := .StandardQuery, rcode := .BADVERS, flags := 0, opt := none } = 0x00000301
  ∧ ttl (extendedRcode RCODE.BADVERS.toCode) 3 0 = 0x01030000 := by decide

/-- The two coincide exactly when there is nothing to carry: extended RCODE 0 and version 0. -/
theorem optTtl_rfc_iff (o : OptData) (h : Header) :
    encodeTtl o h = ttl (extendedRcode h.rcode.toCode) o.version 0 ↔
      extendedRcode h.rcode.toCode = 0 ∧ o.version = 0 := by
  rw [encodeTtl_val]
  have := (extended_bits h.rcode).2
  generalize extendedRcode h.rcode.toCode = e at *
  generalize o.version = v at *
  simp only [ttl, Nat.reducePow]
  omega

/-- The library has no field for the 16 flag bits (DO, Z). On write the two octets that are not
extended RCODE and version — the two HIGH octets in the library's layout — are zero, so the RFC
flags of the byte-swapped word are zero. -/
theorem opt_flags_written_zero (o : OptData) (h : Header) (hv : o.version < 256) :
    encodeTtl o h < 65536 ∧ flagsOfTtl (byteSwap32 (encodeTtl o h)) = 0 := by
  rw [(fields_of_byteSwap32 _).2.2, encodeTtl_val]
  have := (extended_bits h.rcode).2
  generalize extendedRcode h.rcode.toCode = e at *
  generalize o.version = v at *
  simp only [Nat.reducePow]
  omega

/-! ### 2. the 12-bit response code -/

theorem getFlags_low_nibble (h : Header) (hf : h.flags &&& Mask.ALLFLAGS = h.flags) :
    h.getFlags % 16 = h.rcode.toCode % 16 := by
  have h15 : ∀ x, x % 16 = x &&& 15 := fun x => by
    rw [show (15 : Nat) = 2 ^ 4 - 1 from rfl, Nat.and_two_pow_sub_one_eq_mod]
  have hfl : h.flags &&& 15 = 0 := by
    rw [← hf, Nat.and_assoc]
    simp [Mask.ALLFLAGS]
  have hop : (h.opcode.toCode <<< 11) &&& 15 = 0 := by cases h.opcode <;> decide
  rw [h15, h15]
  unfold Header.getFlags
  rw [Nat.and_or_distrib_right, Nat.and_or_distrib_right, hfl, hop, Nat.and_assoc]
  simp [Mask.RCODE]

/-- The response code is split as the RFC says: its low 4 bits in the header's flags word, its
upper 8 bits in the OPT record — in the library's position, the low octet of the TTL. -/
theorem rcode_split (o : OptData) (h : Header) (hf : h.flags &&& Mask.ALLFLAGS = h.flags) :
    h.getFlags % 16 = headerRcode h.rcode.toCode ∧
    encodeTtl o h % 256 = extendedRcode h.rcode.toCode ∧
    fullRcode (encodeTtl o h % 256) (h.getFlags % 16) = h.rcode.toCode := by
  have h1 := getFlags_low_nibble h hf
  have h2 : encodeTtl o h % 256 = extendedRcode h.rcode.toCode := by
    rw [encodeTtl_val]
    have := (extended_bits h.rcode).2
    omega
  refine ⟨h1, h2, ?_⟩
  rw [h1, h2]
  cases h.rcode <;> decide

/-- in RFC terms: the extended RCODE is where RFC 6891 puts it once the octets are swapped -/
theorem rcode_split_rfc (o : OptData) (h : Header) :
    extendedRcodeOfTtl (byteSwap32 (encodeTtl o h)) = extendedRcode h.rcode.toCode := by
  have h2 : encodeTtl o h % 256 = extendedRcode h.rcode.toCode := by
    rw [encodeTtl_val]
    have := (extended_bits h.rcode).2
    omega
  rw [(fields_of_byteSwap32 _).1, h2]

theorem Rfc.and_ff (t : Nat) : t &&& 0xFF = t % 256 := by
  rw [show (0xFF : Nat) = 2 ^ 8 - 1 from rfl, Nat.and_two_pow_sub_one_eq_mod]

/-- Parsing reverses the split: from the TTL the library wrote and a header carrying only the low
4 bits, `extract_rcode_from_ttl` returns the original code, for each of the 13 codes. -/
theorem rcode_recombine (o : OptData) (h : Header) :
    extractRcode (encodeTtl o h) { h with rcode := RCODE.ofCode (h.rcode.toCode % 16) }
      = h.rcode := by
  have h2 : encodeTtl o h % 256 = extendedRcode h.rcode.toCode := by
    rw [encodeTtl_val]
    have := (extended_bits h.rcode).2
    omega
  unfold extractRcode
  rw [Rfc.and_ff, h2]
  simp only
  cases h.rcode <;> decide

/-- What the parser computes, in RFC terms: the code whose upper 8 bits are the low TTL octet and
whose low 4 bits are the header's (a parsed header's code is below 16). -/
theorem extractRcode_eq (t : Nat) (h : Header) (hc : h.rcode.toCode < 16) :
    extractRcode t h = RCODE.ofCode (fullRcode (t % 256) h.rcode.toCode) ∧
    t % 256 = extendedRcodeOfTtl (byteSwap32 t) := by
  constructor
  · unfold extractRcode fullRcode
    rw [Rfc.and_ff]
    have hlt : t % 256 < 256 := Nat.mod_lt _ (by decide)
    generalize t % 256 = x at *
    generalize h.rcode.toCode = c at *
    have : (x <<< 4) ||| c = x * 16 + c := by
      rw [← Nat.shiftLeft_add_eq_or_of_lt (by simpa using hc), Nat.shiftLeft_eq]
    rw [this, Nat.mod_eq_of_lt (by omega)]
  · exact (fields_of_byteSwap32 t).1.symm

/-- the header's own 4 bits always parse to a code below 16 -/
theorem parsed_rcode_lt (w : Nat) : (RCODE.ofCode (w &&& Mask.RCODE)).toCode < 16 := by
  have : w &&& Mask.RCODE < 16 := by
    have := @Nat.and_le_right w 15
    simp only [Mask.RCODE]; omega
  generalize w &&& Mask.RCODE = c at *
  unfold RCODE.ofCode
  split <;> simp [RCODE.toCode] <;> omega

/-- On parse the two high TTL octets — where the library's layout leaves room for the RFC's DO/Z
flags — are ignored: response code and version are functions of the low 16 bits only, and
`OptData` has no field to expose them. -/
theorem opt_flags_ignored (t : Nat) (h : Header) :
    extractRcode (t % 65536) h = extractRcode t h ∧ t % 65536 / 256 % 256 = t / 256 % 256 := by
  refine ⟨?_, by omega⟩
  unfold extractRcode
  rw [Rfc.and_ff, Rfc.and_ff, show t % 65536 % 256 = t % 256 by omega]

/-! ### 3. the OPT pseudo-record on the wire -/

/-- the OPT pseudo-record as the library writes it: root owner name, TYPE 41, CLASS = UDP payload
size, the (byte-swapped, see section 1) TTL word, RDLENGTH, and RFC 6891's option list -/
def optRecordBytes (o : OptData) (h : Header) : Bytes :=
  [0] ++ (beN 2 41 ++ (beN 2 o.udp ++ (beN 4 (encodeTtl o h) ++
    (beN 2 (encodeOptions o.codes).length ++ encodeOptions o.codes))))

theorem optRR_write (o : OptData) (h : Header) (ho : h.opt = some o) :
    writeRRs h.optRR.toList = .ok (optRecordBytes o h) := by
  simp [Header.optRR, ho, writeRRs, RR.write, RR.writeCommon, RData.write, RData.typeOf,
    TYPE.toCode, Name.write, optRecordBytes, encOptCodes, Rfc.opt_len,
    Rfc.encTlvs22_eq_encodeOptions]

/-- A packet with EDNS data is serialised with the OPT pseudo-record immediately after the
name-server records and before the additional records, counted in ARCOUNT; the header's flags
word carries the low 4 bits of the response code. "Partial": the TTL word is the library's
byte-swapped one (`optTtl_is_byteswapped`), everything else is RFC 6891's layout. -/
theorem opt_record_layout_partial {p : Packet} {o : OptData} (hwf : p.WF)
    (ho : p.header.opt = some o) :
    ∃ an ns ar, writeRRs p.answers = .ok an ∧ writeRRs p.nameServers = .ok ns ∧
      writeRRs p.additional = .ok ar ∧
      Packet.build p = .ok (p.writeHeader ++ (writeQuestions p.questions ++
        (an ++ (ns ++ (optRecordBytes o p.header ++ ar))))) ∧
      p.writeHeader = beN 2 p.header.id ++ (beN 2 p.header.getFlags ++
        (beN 2 p.questions.length ++ (beN 2 p.answers.length ++
          (beN 2 p.nameServers.length ++ beN 2 (p.additional.length + 1))))) ∧
      p.additional.length + 1 < 65536 ∧
      p.header.getFlags % 16 = headerRcode p.header.rcode.toCode ∧
      (encodeOptions o.codes).length < 65536 := by
  obtain ⟨hh, _, _, _, har, _, han, hns, hadd, _⟩ := hwf
  obtain ⟨an, han⟩ := Rfc.writeRRs_ok han
  obtain ⟨ns, hns⟩ := Rfc.writeRRs_ok hns
  obtain ⟨ar, hadd⟩ := Rfc.writeRRs_ok hadd
  simp only [ho, Option.isSome_some, if_true] at har
  obtain ⟨_, hfl, hopt⟩ := hh
  rw [ho] at hopt
  have hlen : (encodeOptions o.codes).length < 65536 := by
    have := hopt.2
    simp only [RData.writtenLen, RData.write, encOptCodes, Rfc.encTlvs22_eq_encodeOptions] at this
    omega
  refine ⟨an, ns, ar, han, hns, hadd, ?_, ?_, by omega, getFlags_low_nibble _ hfl, hlen⟩
  · simp [Packet.build, han, hns, hadd, optRR_write o p.header ho]
  · simp only [Packet.writeHeader, Header.write, ho, Option.isSome_some, if_true]
    rw [Nat.mod_eq_of_lt (by omega)]

/-! ### 4. parsing lifts the OPT record out of the additional section -/

open Framing (Corr RecOK)

/-- a parsed header has no EDNS data yet and a response code of 4 bits -/
theorem Rfc.header_parse_facts {d : Bytes} {h0 : Header} (h : Header.parse d = .ok h0) :
    h0.opt = none ∧ h0.rcode.toCode < 16 := by
  unfold Header.parse at h
  split at h
  · cases h
  · obtain ⟨fb, _, h⟩ := Out.bind_eq_ok h
    dsimp only at h
    split at h
    · cases h
    · obtain ⟨ib, _, h⟩ := Out.bind_eq_ok h
      cases h
      exact ⟨rfl, parsed_rcode_lt _⟩

/-- Parsing reverses the serialisation of EDNS data. Let `w` be the RFC 1035 walk of the message
(Spec/Envelope.lean), `h0` the 12-byte header as parsed, and `all` the parsed records of the
additional section (one per walked entry, `Corr`).

* If no walked additional entry has TYPE 41, the packet has no EDNS data, the header is `h0` and
  the additional section is `all`.
* Otherwise, for the FIRST entry `e` with TYPE 41: the packet's EDNS data `o` has
  UDP size = `e`'s CLASS field, version = the second-lowest octet of `e`'s TTL (the library's
  position; in RFC terms the VERSION of the byte-swapped TTL), the RDLENGTH bytes of `e`'s RDATA
  are exactly RFC 6891's encoding of `o.codes`; the response code is recombined from the low TTL
  octet (upper 8 bits) and the header's 4 bits; and that record — only that one — is removed
  from the additional section. -/
theorem opt_lift {d : Bytes} {p : Packet} (h : Packet.parse d = .ok p) :
    ∃ w h0 all, Spec.walk d = some w ∧ Header.parse d = .ok h0 ∧ h0.opt = none ∧
      Corr (RecOK d) all w.additional ∧
      ((∀ e ∈ w.additional, e.type ≠ 41) →
        p.header = h0 ∧ p.header.opt = none ∧ p.additional = all) ∧
      (∀ epre e epost, w.additional = epre ++ e :: epost → (∀ x ∈ epre, x.type ≠ 41) →
        e.type = 41 →
        ∃ o, p.header = { h0 with
              rcode := RCODE.ofCode (fullRcode (e.ttl % 256) h0.rcode.toCode), opt := some o } ∧
          o.udp = e.cls ∧ o.version = e.ttl / 256 % 256 ∧
          o.version = versionOfTtl (byteSwap32 e.ttl) ∧
          e.ttl % 256 = extendedRcodeOfTtl (byteSwap32 e.ttl) ∧
          (d.drop e.rdStart).take e.rdlen = encodeOptions o.codes ∧
          (∀ y ∈ o.codes, y.1 < 65536 ∧ y.2.length < 65536) ∧
          p.additional = all.take epre.length ++ all.drop (epre.length + 1)) := by
  unfold Packet.parse at h
  obtain ⟨h0, hh0, h⟩ := Out.bind_eq_ok h
  obtain ⟨qd, hqd, h⟩ := Out.bind_eq_ok h
  obtain ⟨⟨qs, p1⟩, hqs, h⟩ := Out.bind_eq_ok h
  dsimp only at h
  obtain ⟨an, han, h⟩ := Out.bind_eq_ok h
  obtain ⟨⟨as, p2⟩, has, h⟩ := Out.bind_eq_ok h
  dsimp only at h
  obtain ⟨ns, hns, h⟩ := Out.bind_eq_ok h
  obtain ⟨⟨nss, p3⟩, hnss, h⟩ := Out.bind_eq_ok h
  dsimp only at h
  obtain ⟨ar, har, h⟩ := Out.bind_eq_ok h
  obtain ⟨⟨all, p4⟩, hall, h⟩ := Out.bind_eq_ok h
  dsimp only at h
  obtain ⟨h1, hh1, h⟩ := Out.bind_eq_ok h
  cases h
  obtain ⟨eq, heq, _, _, _⟩ := Framing.parseQuestions_frame hqs
  obtain ⟨ea, hea, _, _, _⟩ := Framing.parseRRs_frame has
  obtain ⟨en, hen, _, _, _⟩ := Framing.parseRRs_frame hnss
  obtain ⟨er, her, _, _, cr⟩ := Framing.parseRRs_frame hall
  have co := Rfc.parseRRs_optOK hall her
  have hinv := parseRRs_optInv hall
  obtain ⟨hopt0, hrc0⟩ := Rfc.header_parse_facts hh0
  have hwalk : Spec.walk d = some
      { questions := eq, answers := ea, nameServers := en, additional := er, stop := p4 } := by
    unfold Spec.walk
    simp [Framing.field_of_peekU16 hqd, Framing.field_of_peekU16 han,
      Framing.field_of_peekU16 hns, Framing.field_of_peekU16 har, heq, hea, hen, her]
  refine ⟨_, h0, all, hwalk, hh0, hopt0, cr, ?_, ?_⟩
  · intro hno
    have hnone : ∀ r ∈ all, r.rdata.typeOf ≠ .OPT :=
      Rfc.corr_forall_left cr hno (fun r e hre hq hr => hq (Rfc.ofCode_eq_OPT (hre.2.2.1 ▸ hr)))
    rw [Rfc.liftOpt_none hnone] at hh1
    simp only [Header.extractOpt, Out.ok.injEq] at hh1
    subst hh1
    exact ⟨rfl, hopt0, by simp only [Rfc.liftOpt_none hnone]⟩
  · intro epre e epost hsplit hpre h41
    simp only at hsplit
    subst hsplit
    obtain ⟨apre, r, apost, hall', hlen, cpre, hre, _⟩ := Rfc.corr_split cr
    obtain ⟨apre', r', apost', hall'', hlen', _, hoe, _⟩ := Rfc.corr_split co
    have hr' : r' = r ∧ apre' = apre := by
      rw [hall''] at hall'
      have := List.append_inj hall' (by omega)
      exact ⟨(List.cons.inj this.2).1, this.1⟩
    obtain ⟨rfl, rfl⟩ := hr'
    have hnone : ∀ x ∈ apre', x.rdata.typeOf ≠ .OPT :=
      Rfc.corr_forall_left cpre hpre (fun x e hxe hq hx => hq (Rfc.ofCode_eq_OPT (hxe.2.2.1 ▸ hx)))
    have hropt : r'.rdata.typeOf = .OPT := by rw [hre.2.2.1, h41]; rfl
    obtain ⟨o, ho⟩ := hinv r' (by rw [hall']; simp) hropt
    obtain ⟨_, _, _, hudp, hver, hbytes, hbound⟩ := hoe o ho
    have hlift := Rfc.liftOpt_first (post := apost) hnone hropt
    rw [← hall'] at hlift
    rw [hlift] at hh1
    simp only [Header.extractOpt, ho, Out.ok.injEq] at hh1
    subst hh1
    refine ⟨o, ?_, hudp, hver, ?_, (fields_of_byteSwap32 _).1.symm, hbytes, hbound, ?_⟩
    · rw [(extractRcode_eq _ _ hrc0).1, hre.2.1]
    · rw [hver, (fields_of_byteSwap32 _).2.1]
    · simp only [hlift]
      rw [hall', ← hlen]
      simp

/-! ### 5. a concrete packet: BADVERS, version 3, one option (code 10, 8 bytes), one A record -/

def c09Packet : Packet :=
  { header := { id := 0x1234, opcode := .StandardQuery, rcode := .BADVERS, flags := 0x8000,
                opt := some { udp := 1232, version := 3, codes := [(10, [1, 2, 3, 4, 5, 6, 7, 8])] } },
    questions := [], answers := [], nameServers := [],
    additional := [{ name := [[97]], cls := .IN, ttl := 60, rdata := .flat 1 [.int 0x7F000001],
                     flush := false }] }

def c09Bytes : Bytes :=
  [0x12, 0x34, 0x80, 0x00, 0, 0, 0, 0, 0, 0, 0, 2,
   0, 0, 41, 0x04, 0xD0, 0, 0, 3, 1, 0, 12, 0, 10, 0, 8, 1, 2, 3, 4, 5, 6, 7, 8,
   1, 97, 0, 0, 1, 0, 1, 0, 0, 0, 60, 0, 4, 127, 0, 0, 1]

example : c09Packet.WF := by decide
example : Packet.build c09Packet = .ok c09Bytes := by decide
example : optRecordBytes { udp := 1232, version := 3, codes := [(10, [1, 2, 3, 4, 5, 6, 7, 8])] }
    c09Packet.header =
    [0, 0, 41, 0x04, 0xD0, 0, 0, 3, 1, 0, 12, 0, 10, 0, 8, 1, 2, 3, 4, 5, 6, 7, 8] := by decide

theorem c09_name12 : Name.parse c09Bytes 12 = .ok ([], 13) := by
  unfold Name.parse
  rw [nameLoop]; simp [c09Bytes]

theorem c09_name35 : Name.parse c09Bytes 35 = .ok ([[97]], 38) := by
  unfold Name.parse
  rw [nameLoop]; simp [c09Bytes]
  rw [nameLoop]; simp

theorem c09_rr12 : RR.parse c09Bytes 12 = .ok
    ({ name := [], cls := .IN, ttl := 0x0301,
       rdata := .opt { udp := 1232, version := 3, codes := [(10, [1, 2, 3, 4, 5, 6, 7, 8])] },
       flush := false }, 35) := by
  unfold RR.parse
  rw [c09_name12]
  decide +kernel

theorem c09_rr35 : RR.parse c09Bytes 35 = .ok
    ({ name := [[97]], cls := .IN, ttl := 60, rdata := .flat 1 [.int 0x7F000001],
       flush := false }, 52) := by
  unfold RR.parse
  rw [c09_name35]
  decide +kernel

/-- parsing gives the packet back: the OPT record is gone from the additional section, the
response code is BADVERS again (header nibble 0, extended part 1) -/
theorem c09_parse : Packet.parse c09Bytes = .ok c09Packet := by
  have hh : Header.parse c09Bytes =
      .ok { id := 0x1234, opcode := .StandardQuery, rcode := .NoError, flags := 0x8000,
            opt := none } := by decide +kernel
  have h1 : Peek.questions c09Bytes = .ok 0 := by decide +kernel
  have h2 : Peek.answers c09Bytes = .ok 0 := by decide +kernel
  have h3 : Peek.nameServers c09Bytes = .ok 0 := by decide +kernel
  have h4 : Peek.additional c09Bytes = .ok 2 := by decide +kernel
  unfold Packet.parse
  rw [hh, h1, h2, h3, h4]
  simp only [Out.bind_ok, parseQuestions, parseRRs, c09_rr12, c09_rr35, Out.pure_eq]
  decide

/-- the walked additional entries of the example: the OPT entry (TYPE 41, CLASS field 1232,
TTL 0x00000301, 12 bytes of RDATA) and the A record -/
example : (Spec.walk c09Bytes).map (·.additional) = some
    [{ off := 12, nameEnd := 13, type := 41, cls := 1232, ttl := 0x0301, rdlen := 12 },
     { off := 35, nameEnd := 38, type := 1, cls := 1, ttl := 60, rdlen := 4 }] := by decide

/-- the conclusion of `opt_lift` on the example -/
example : ∃ w h0 all, Spec.walk c09Bytes = some w ∧ Header.parse c09Bytes = .ok h0 ∧
    h0.opt = none ∧ Framing.Corr (Framing.RecOK c09Bytes) all w.additional :=
  let ⟨w, h0, all, h1, h2, h3, h4, _⟩ := opt_lift c09_parse; ⟨w, h0, all, h1, h2, h3, h4⟩

/-- `Packet.WF` does not forbid an OPT-typed record in `additional` while `header.opt` is set
(the library's public field allows it too): such a packet is written with two OPT records, so
"exactly one" needs the hypothesis that `additional` has none. -/
example :
    let o : OptData := { udp := 512, version := 0, codes := [] }
    let p : Packet :=
      { header := { id := 0, opcode := .StandardQuery, rcode := .NoError, flags := 0,
                    opt := some o },
        questions := [], answers := [], nameServers := [],
        additional := [{ name := [], cls := .IN, ttl := 0, rdata := .opt o, flush := false }] }
    p.WF ∧ Packet.build p = .ok ([0, 0, 0, 0, 0, 0, 0, 0, 0, 0, 0, 2] ++
      ([0, 0, 41, 2, 0, 0, 0, 0, 0, 0, 0] ++ [0, 0, 41, 2, 0, 0, 0, 0, 0, 0, 0])) := by decide

end Dns
