/-
C09 — EDNS(0) data is carried per RFC 6891.

The reference is Spec/Rfc6891.lean: the OPT pseudo-record (root owner name,
TYPE 41, CLASS = UDP payload size, TTL = EXTENDED-RCODE | VERSION | flags,
RDATA = option triples) and the split of the 12-bit response code.

KNOWN DEVIATION (known finding `opt-ttl-byte-order`). The library writes and
reads the four TTL octets in the opposite order of RFC 6891 §6.1.3: the
extended RCODE is in the LOW octet and the VERSION in the second-lowest octet.
The README doctest of the crate pins this layout, so it cannot be repaired.
The theorems below state what the library does and make the deviation
explicit: `optTtl_is_byteswapped`, `optTtl_ne_rfc`, `optTtl_rfc_iff`; the
layout theorem is therefore called `opt_record_layout_partial`.
-/
import SimpleDnsModel.Lemmas.Rfc
import SimpleDnsModel.Props.C05
namespace Dns
open Spec.Rfc6891

/-! ### 1. the TTL word -/

theorem or_shl8 (a v : Nat) (ha : a < 256) : (a ||| (v <<< 8)) = a + v * 256 := by
  rw [Nat.or_comm, ← Nat.shiftLeft_add_eq_or_of_lt (by simpa using ha), Nat.shiftLeft_eq]
  omega

/-- `(rcode & 0xFF) >> 4` is the RFC's EXTENDED-RCODE of each of the 13 named codes (0 for all
but BADVERS, whose extended part is 1) -/
theorem extended_bits (r : RCODE) :
    (r.toCode &&& 0xFF) >>> 4 = extendedRcode r.toCode ∧ extendedRcode r.toCode < 2 := by
  cases r <;> decide

/-- the library's TTL word: extended RCODE in bits 0–7, VERSION from bit 8 up -/
theorem encodeTtl_val (o : OptData) (h : Header) :
    encodeTtl o h = extendedRcode h.rcode.toCode + o.version * 256 := by
  unfold encodeTtl
  rw [(extended_bits h.rcode).1, or_shl8 _ _ (by have := (extended_bits h.rcode).2; omega)]

/-- The TTL the library writes is the RFC 6891 TTL (extended RCODE, version, flags = 0) with its
four octets in the opposite order. -/
theorem optTtl_is_byteswapped (o : OptData) (h : Header) (hv : o.version < 256) :
    encodeTtl o h = byteSwap32 (ttl (extendedRcode h.rcode.toCode) o.version 0) := by
  rw [encodeTtl_val]
  have := (extended_bits h.rcode).2
  generalize extendedRcode h.rcode.toCode = e at *
  generalize o.version = v at *
  simp only [byteSwap32, ttl, Nat.reducePow]
  omega

/-- It is not the RFC's TTL: BADVERS with version 3 gives 0x00000301 instead of 0x01030000. -/
theorem optTtl_ne_rfc : ∃ (o : OptData) (h : Header),
    encodeTtl o h ≠ ttl (extendedRcode h.rcode.toCode) o.version 0 :=
  ⟨{ udp := 1232, version := 3, codes := [] },
   { id := 0, opcode := .StandardQuery, rcode := .BADVERS, flags := 0, opt := none }, by decide⟩

example : encodeTtl { udp := 1232, version := 3, codes := [] }
    { id := 0, opcode := .StandardQuery, rcode := .BADVERS, flags := 0, opt := none } = 0x00000301
  ∧ ttl (extendedRcode RCODE.BADVERS.toCode) 3 0 = 0x01030000 := by decide

/-- The two coincide exactly when there is nothing to carry: extended RCODE 0 and version 0. -/
theorem optTtl_rfc_iff (o : OptData) (h : Header) :
    encodeTtl o h = ttl (extendedRcode h.rcode.toCode) o.version 0 ↔
      extendedRcode h.rcode.toCode = 0 ∧ o.version = 0 := by
  rw [encodeTtl_val]
  have := (extended_bits h.rcode).2
  generalize extendedRcode h.rcode.toCode = e at *
  generalize o.version = v at *
  simp only [ttl, Nat.reducePow]
  omega

/-- The library has no field for the 16 flag bits (DO, Z). On write the two octets that are not
extended RCODE and version — the two HIGH octets in the library's layout — are zero, so the RFC
flags of the byte-swapped word are zero. -/
theorem opt_flags_written_zero (o : OptData) (h : Header) (hv : o.version < 256) :
    encodeTtl o h < 65536 ∧ flagsOfTtl (byteSwap32 (encodeTtl o h)) = 0 := by
  rw [encodeTtl_val]
  have := (extended_bits h.rcode).2
  generalize extendedRcode h.rcode.toCode = e at *
  generalize o.version = v at *
  simp only [byteSwap32, flagsOfTtl, Nat.reducePow]
  omega

/-! ### 2. the 12-bit response code -/

theorem getFlags_low_nibble (h : Header) (hf : h.flags &&& Mask.ALLFLAGS = h.flags) :
    h.getFlags % 16 = h.rcode.toCode % 16 := by
  have h15 : ∀ x, x % 16 = x &&& 15 := fun x => by
    rw [show (15 : Nat) = 2 ^ 4 - 1 from rfl, Nat.and_two_pow_sub_one_eq_mod]
  have hfl : h.flags &&& 15 = 0 := by
    rw [← hf, Nat.and_assoc]
    simp [Mask.ALLFLAGS]
  have hop : (h.opcode.toCode <<< 11) &&& 15 = 0 := by cases h.opcode <;> decide
  rw [h15, h15]
  unfold Header.getFlags
  rw [Nat.and_or_distrib_right, Nat.and_or_distrib_right, hfl, hop, Nat.and_assoc]
  simp [Mask.RCODE]

/-- The response code is split as the RFC says: its low 4 bits in the header's flags word, its
upper 8 bits in the OPT record — in the library's position, the low octet of the TTL. -/
theorem rcode_split (o : OptData) (h : Header) (hf : h.flags &&& Mask.ALLFLAGS = h.flags) :
    h.getFlags % 16 = headerRcode h.rcode.toCode ∧
    encodeTtl o h % 256 = extendedRcode h.rcode.toCode ∧
    fullRcode (encodeTtl o h % 256) (h.getFlags % 16) = h.rcode.toCode := by
  have h1 := getFlags_low_nibble h hf
  have h2 : encodeTtl o h % 256 = extendedRcode h.rcode.toCode := by
    rw [encodeTtl_val]
    have := (extended_bits h.rcode).2
    omega
  refine ⟨h1, h2, ?_⟩
  rw [h1, h2]
  cases h.rcode <;> decide

/-- in RFC terms: the extended RCODE is where RFC 6891 puts it once the octets are swapped -/
theorem rcode_split_rfc (o : OptData) (h : Header) :
    extendedRcodeOfTtl (byteSwap32 (encodeTtl o h)) = extendedRcode h.rcode.toCode := by
  have h2 : encodeTtl o h % 256 = extendedRcode h.rcode.toCode := by
    rw [encodeTtl_val]
    have := (extended_bits h.rcode).2
    omega
  rw [← h2]
  generalize encodeTtl o h = t
  simp only [byteSwap32, extendedRcodeOfTtl, Nat.reducePow]
  omega

theorem and_ff (t : Nat) : t &&& 0xFF = t % 256 := by
  rw [show (0xFF : Nat) = 2 ^ 8 - 1 from rfl, Nat.and_two_pow_sub_one_eq_mod]

/-- Parsing reverses the split: from the TTL the library wrote and a header carrying only the low
4 bits, `extract_rcode_from_ttl` returns the original code, for each of the 13 codes. -/
theorem rcode_recombine (o : OptData) (h : Header) :
    extractRcode (encodeTtl o h) { h with rcode := RCODE.ofCode (h.rcode.toCode % 16) }
      = h.rcode := by
  have h2 : encodeTtl o h % 256 = extendedRcode h.rcode.toCode := by
    rw [encodeTtl_val]
    have := (extended_bits h.rcode).2
    omega
  unfold extractRcode
  rw [and_ff, h2]
  simp only
  cases h.rcode <;> decide

/-- What the parser computes, in RFC terms: the code whose upper 8 bits are the low TTL octet and
whose low 4 bits are the header's (a parsed header's code is below 16). -/
theorem extractRcode_eq (t : Nat) (h : Header) (hc : h.rcode.toCode < 16) :
    extractRcode t h = RCODE.ofCode (fullRcode (t % 256) h.rcode.toCode) ∧
    t % 256 = extendedRcodeOfTtl (byteSwap32 t) := by
  constructor
  · unfold extractRcode fullRcode
    rw [and_ff]
    have hlt : t % 256 < 256 := Nat.mod_lt _ (by decide)
    generalize t % 256 = x at *
    generalize h.rcode.toCode = c at *
    have : (x <<< 4) ||| c = x * 16 + c := by
      rw [← Nat.shiftLeft_add_eq_or_of_lt (by simpa using hc), Nat.shiftLeft_eq]
      rfl
    rw [this, Nat.mod_eq_of_lt (by omega)]
  · simp only [byteSwap32, extendedRcodeOfTtl, Nat.reducePow]
    omega

/-- the header's own 4 bits always parse to a code below 16 -/
theorem parsed_rcode_lt (w : Nat) : (RCODE.ofCode (w &&& Mask.RCODE)).toCode < 16 := by
  have : w &&& Mask.RCODE < 16 := by
    have := @Nat.and_le_right w 15
    simp only [Mask.RCODE]; omega
  generalize w &&& Mask.RCODE = c at *
  unfold RCODE.ofCode
  split <;> simp [RCODE.toCode] <;> omega

end Dns
