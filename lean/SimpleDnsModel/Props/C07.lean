/-
C07 — Emitted compression pointers are valid and used where allowed.

In compressed output every compression pointer is an offset from the first
byte of the DNS message, points strictly backwards to a position no greater
than 16383 at which the remaining labels of an earlier-written name begin, and
expands to the intended name. Names inside RDATA whose specifications forbid
compression (SRV, NAPTR, KX, RRSIG, NSEC, IPSECKEY and SVCB/HTTPS targets) are
written in full, while a repeated question name, owner name or RFC 1035 RDATA
name is written as a pointer rather than repeated.

1. names: `compress_name_shape`, `pointers_valid_name` (with `pointer_bytes` of
   Props/C03 for the two bytes);
2. the message: the name sites `Packet.sitesG` (Lemmas/WritersB.lean),
   `pointers_valid`, `nocompress_in_full`;
3. which RDATA names go through the compressor: `nocompress_types`,
   `nocompress_complete`, `nocompress_rdata`, `nocompress_ipseckey`,
   `compress_types`;
4. repeated names: `repeat_is_pointer`, `compressName_records`,
   `table_monotone`, `repeated_name_is_pointer`.
That the offsets are relative to the message and not to the stream the caller's
writer is positioned in is `writers_agree_compressed` of Props/C04.
Proofs are in Lemmas/WritersB.lean.
-/
import SimpleDnsModel.Lemmas.Writers
set_option autoImplicit false
namespace Dns

/-! ### 1. the pointer emitted for one name -/

/-- **Pointer shape.** `Name::compress_append` emits either every label and the zero byte (then
no non-empty suffix of the name was in the table), or the labels of a prefix followed by exactly
one two-byte pointer `beN 2 (p ||| 0xC000)`, `p` being the table's entry for the remaining labels
`suf`, the longest suffix of the name in the table. Nothing follows a pointer. -/
theorem compress_name_shape (n : Name) (off : Nat) (t : Table) :
    ((compressName n off t).1 = Wr.labelBytes n ++ [0] ∧
      ∀ pre suf, n = pre ++ suf → suf ≠ [] → Table.find t suf = none) ∨
    ∃ pre suf p, n = pre ++ suf ∧ suf ≠ [] ∧ Table.find t suf = some p ∧
      (compressName n off t).1 = Wr.labelBytes pre ++ beN 2 (p ||| 0xC000) ∧
      ∀ pre' suf', n = pre' ++ suf' → pre'.length < pre.length → Table.find t suf' = none :=
  Wr.compressName_shape n off t

/-- the label part is the plain encoding without its final zero byte -/
theorem write_eq_labelBytes (n : Name) : Name.write n = Wr.labelBytes n ++ [0] :=
  Wr.write_eq_labelBytes n

/-- **Pointers are valid.** With the table invariant `TInv out t` for the message bytes `out`
written so far (every entry is a non-empty suffix, at an offset of at most 16383, completely
encoded in `out`), the name written at `out.length` expands to the intended name, and if a pointer
is emitted its target `p` is at most 16383, lies strictly before the name being written (it is an
offset of earlier output, counted from the first byte of the message) and is where the remaining
labels `suf` of an earlier-written name begin. -/
theorem pointers_valid_name (n : Name) (t : Table) (out : Bytes)
    (hn : ∀ l ∈ n, 1 ≤ l.length ∧ l.length ≤ 63) (hinv : TInv out t) :
    Enc (out ++ (compressName n out.length t).1) out.length n ∧
    ((compressName n out.length t).1 = Name.write n ∨
     ∃ pre suf p, n = pre ++ suf ∧ suf ≠ [] ∧ Table.find t suf = some p ∧
      (compressName n out.length t).1 = Wr.labelBytes pre ++ beN 2 (p ||| 0xC000) ∧
      p ≤ 0x3FFF ∧ p < out.length ∧ Enc out p suf) :=
  Wr.pointers_valid_name n t out hn hinv

/-- the two pointer bytes carry `p`: top two bits set, the other fourteen are `p` -/
theorem pointer_decodes (p : Nat) (h : p ≤ 0x3FFF) :
    ∃ b1 b2 : UInt8, beN 2 (p ||| 0xC000) = [b1, b2] ∧ b1.toNat &&& 0xC0 = 0xC0 ∧
      (b1.toNat &&& 0x3F) * 256 + b2.toNat = p := by
  have hk : p / 256 < 64 := by omega
  have e1 : (UInt8.ofNat (192 + p / 256)).toNat = 192 + p / 256 := by
    simp [UInt8.toNat_ofNat']; omega
  have e2 : (UInt8.ofNat (p % 256)).toNat = p % 256 := by simp [UInt8.toNat_ofNat']
  refine ⟨_, _, pointer_bytes p h, ?_, ?_⟩
  · rw [e1]; exact (ptr_bits _ hk).1
  · rw [e1, e2, (ptr_bits _ hk).2]; omega

/-! ### 2. every name of a compressed message -/

/-- **Every name in the compressed message is valid**: at each site (question names, owner names,
RDATA names, in any section) the bytes are a backward-pointer encoding `Enc` of the intended name:
labels, then the zero byte or a pointer whose target is strictly before the pointer itself, is
inside the message, cannot exceed 16383 (fourteen bits), and is where an encoding of the remaining
labels — never the root alone — begins. -/
theorem pointers_valid (p : Packet) (h : p.WF) (b : Bytes) (hb : p.buildCompressed = .ok b) :
    ∀ s ∈ p.sitesG true, Enc b s.off s.name :=
  fun s hs => (Wr.buildG_sites true p h b hb s hs).1

/-- what `Enc` says about a pointer, spelled out -/
theorem enc_pointer_facts {d : Bytes} {off : Nat} {n : Name} {b1 : UInt8} (h : Enc d off n)
    (hb : d[off]? = some b1) (hp : b1.toNat &&& 0xC0 = 0xC0) :
    ∃ b2, d[off + 1]? = some b2 ∧
      (b1.toNat &&& 0x3F) * 256 + b2.toNat < off ∧ (b1.toNat &&& 0x3F) * 256 + b2.toNat ≤ 0x3FFF ∧
      n ≠ [] ∧ Enc d ((b1.toNat &&& 0x3F) * 256 + b2.toNat) n := by
  cases h
  case root h0 => rw [hb] at h0; cases h0; simp at hp
  case label b' l rest h1 h63 hb' hl hfit henc =>
    rw [hb] at hb'; cases hb'
    exact absurd hp (not_ptr_of_le63 h63)
  case ptr b' b2 hp' hb' hb2 hlt hne henc =>
    rw [hb] at hb'; cases hb'
    refine ⟨b2, hb2, hlt, ?_, hne, henc⟩
    have h1 : b1.toNat &&& 0x3F ≤ 0x3F := Nat.and_le_right
    have h2 := b2.toNat_lt
    omega

/-- **Names that must not be compressed are written in full**: label by label, ended by the zero
byte, no pointer inside. -/
theorem nocompress_in_full (p : Packet) (h : p.WF) (b : Bytes) (hb : p.buildCompressed = .ok b) :
    ∀ s ∈ p.sitesG true, s.compressible = false →
      (b.drop s.off).take (Name.write s.name).length = Name.write s.name :=
  fun s hs => (Wr.buildG_sites true p h b hb s hs).2

/-! ### 3. which RDATA names go through the compressor -/

theorem nocompress_aux : ∀ code ∈ [33, 35, 36, 46, 47, 64, 65],
    ∀ k ∈ (schemaOf code).getD [], k ≠ .name true := by decide

/-- SRV, NAPTR, KX, RRSIG, NSEC, SVCB and HTTPS never hand a name to the compressor -/
theorem nocompress_types : ∀ code ∈ [33, 35, 36, 46, 47, 64, 65], ∀ ks, schemaOf code = some ks →
    ∀ k ∈ ks, k ≠ .name true := by
  intro code hc ks hs k hk
  exact nocompress_aux code hc k (by rw [hs]; exact hk)

/-- and these are all the flat types with a name that is not compressed -/
theorem nocompress_complete (code : Nat) (ks : List FKind) (hs : schemaOf code = some ks)
    (hk : FKind.name false ∈ ks) : code ∈ [33, 35, 36, 46, 47, 64, 65] := by
  unfold schemaOf at hs
  split at hs <;> first | (cases hs; decide) | (cases hs; simp at hk) | cases hs

theorem encFieldG_nocompress (c : Bool) (k : FKind) (v : Val) (off : Nat) (t : Table)
    (hk : k ≠ .name true) : encFieldG c k v off t = (encField k v, t) := by
  unfold encFieldG
  split
  · exact absurd rfl hk
  · rfl

theorem encAllG_nocompress (c : Bool) (ks : List FKind) : ∀ (vs : List Val) (off : Nat) (t : Table),
    (∀ k ∈ ks, k ≠ .name true) → encAllG c ks vs off t = (encAll ks vs, t) := by
  induction ks with
  | nil => intro vs off t _; cases vs <;> rfl
  | cons k ks ih =>
    intro vs off t h
    cases vs with
    | nil => rfl
    | cons v vs =>
      simp [encAllG, encAll, encFieldG_nocompress c k v off t (h k (by simp)),
        ih vs _ t (fun x hx => h x (by simp [hx]))]

/-- the compressed writer of these types emits the plain RDATA and leaves the table alone -/
theorem nocompress_rdata (code : Nat) (hc : code ∈ [33, 35, 36, 46, 47, 64, 65]) (ks : List FKind)
    (hs : schemaOf code = some ks) (vs : List Val) (off : Nat) (t : Table) :
    RData.writeG true (.flat code vs) off t = .ok (encAll ks vs, t) := by
  have hfc : flatCheck code vs = true := by
    simp only [List.mem_cons, List.not_mem_nil, or_false] at hc
    rcases hc with rfl | rfl | rfl | rfl | rfl | rfl | rfl <;> rfl
  simp only [RData.writeG, hs, hfc, if_true, encAllG_nocompress true ks vs off t
    (nocompress_types code hc ks hs)]

/-- IPSECKEY: the gateway name is written by `Name::write_to` -/
theorem nocompress_ipseckey (prec alg : Nat) (gw : Gateway) (key : Bytes) (off : Nat) (t : Table) :
    RData.writeG true (.ipseckey prec alg gw key) off t
      = .ok (UInt8.ofNat prec :: UInt8.ofNat gw.tag :: UInt8.ofNat alg :: (gw.write ++ key), t) ∧
    ∀ n, (Gateway.domain n).write = Name.write n := ⟨rfl, fun _ => rfl⟩

theorem compress_aux : ∀ code ∈ [2, 3, 4, 5, 7, 8, 9, 12, 6, 14, 15, 17, 18, 21, 23],
    (∀ k ∈ (schemaOf code).getD [], ∀ cb, k = .name cb → cb = true) ∧
    FKind.name true ∈ (schemaOf code).getD [] := by decide

/-- NS MD MF CNAME MB MG MR PTR, SOA (both names), MINFO (both), MX, and RP (both), AFSDB, RT,
NSAP-PTR of RFC 1183 / RFC 1348: every name field goes through the compressor -/
theorem compress_types : ∀ code ∈ [2, 3, 4, 5, 7, 8, 9, 12, 6, 14, 15, 17, 18, 21, 23],
    ∀ ks, schemaOf code = some ks →
      (∀ k ∈ ks, ∀ cb, k = .name cb → cb = true) ∧ FKind.name true ∈ ks := by
  intro code hc ks hs
  have := compress_aux code hc
  rw [hs] at this
  exact this

/-- a compressible name field is written by `Name::compress_append` at the field's offset -/
theorem compress_field (n : Name) (off : Nat) (t : Table) :
    encFieldG true (.name true) (.name n) off t = compressName n off t := rfl

/-! ### 4. a repeated name is a pointer -/

/-- a name the table knows is written as exactly two bytes, the pointer to its entry -/
theorem repeat_is_pointer {n : Name} {t : Table} {p : Nat} (off : Nat)
    (h : Table.find t n = some p) (hn : n ≠ []) :
    compressName n off t = (beN 2 (p ||| 0xC000), t) := Wr.repeat_is_pointer off h hn

/-- a first occurrence at an offset of at most 16383 is remembered -/
theorem compressName_records {n : Name} {t : Table} {off : Nat} (hn : n ≠ []) (hoff : off ≤ 0x3FFF)
    (h : Table.find t n = none) : Table.find (compressName n off t).2 n = some off :=
  Wr.compressName_records hn hoff h

/-- entries are never lost or changed -/
theorem table_monotone (n : Name) (off : Nat) (t : Table) (m : Name) (q : Nat)
    (h : Table.find t m = some q) : Table.find (compressName n off t).2 m = some q :=
  Wr.table_monotone n off t m q h

/-- **Packet level.** Of two compressible sites of a compressed message with the same non-root
name, the earlier one at an offset of at most 16383, the later one holds exactly a two-byte
pointer. "Earlier" is the position in the list of sites, which is in writing order. No
well-formedness hypothesis is needed. -/
theorem repeated_name_is_pointer (p : Packet) (b : Bytes) (hb : p.buildCompressed = .ok b)
    (A B C : List Site) (s1 s2 : Site) (hs : p.sitesG true = A ++ s1 :: (B ++ s2 :: C))
    (c1 : s1.compressible = true) (c2 : s2.compressible = true) (hname : s1.name = s2.name)
    (hne : s1.name ≠ []) (hoff : s1.off ≤ 0x3FFF) :
    ∃ q, q ≤ 0x3FFF ∧ (b.drop s2.off).take 2 = beN 2 (q ||| 0xC000) ∧
      ∃ x, b[s2.off]? = some x ∧ x.toNat &&& 0xC0 = 0xC0 :=
  Wr.repeated_name_is_pointer p b hb A B C s1 s2 hs c1 c2 hname hne hoff

theorem c07_split_two {α : Type} (L : List α) (i j : Nat) (hij : i < j) (hj : j < L.length) :
    ∃ A B C, L = A ++ L[i] :: (B ++ L[j] :: C) := by
  have e1 : L = L.take i ++ L[i] :: L.drop (i + 1) := by
    rw [List.getElem_cons_drop]; simp
  have hj' : j - (i + 1) < (L.drop (i + 1)).length := by simp; omega
  have e2 : L.drop (i + 1) = (L.drop (i + 1)).take (j - (i + 1)) ++
      (L.drop (i + 1))[j - (i + 1)] :: (L.drop (i + 1)).drop (j - (i + 1) + 1) := by
    rw [List.getElem_cons_drop]; exact (List.take_append_drop _ _).symm
  have e3 : (L.drop (i + 1))[j - (i + 1)] = L[j] := by
    rw [List.getElem_drop]; congr 1; omega
  rw [e3] at e2
  exact ⟨_, _, _, by rw [← e2]; exact e1⟩

/-- the same with the two sites given by their indices in the list of sites -/
theorem repeated_name_is_pointer_idx (p : Packet) (b : Bytes) (hb : p.buildCompressed = .ok b)
    (i j : Nat) (hij : i < j) (hj : j < (p.sitesG true).length)
    (c1 : ((p.sitesG true)[i]'(by omega)).compressible = true)
    (c2 : (p.sitesG true)[j].compressible = true)
    (hname : ((p.sitesG true)[i]'(by omega)).name = (p.sitesG true)[j].name)
    (hne : (p.sitesG true)[j].name ≠ []) (hoff : ((p.sitesG true)[i]'(by omega)).off ≤ 0x3FFF) :
    ∃ x, b[(p.sitesG true)[j].off]? = some x ∧ x.toNat &&& 0xC0 = 0xC0 := by
  obtain ⟨A, B, C, hs⟩ := c07_split_two (p.sitesG true) i j hij hj
  obtain ⟨q, _, _, h⟩ := repeated_name_is_pointer p b hb A B C _ _ hs c1 c2 hname
    (by rw [hname]; exact hne) hoff
  exact h

/-! ### examples -/

def c07Example : Name := [[101, 120, 97, 109, 112, 108, 101], [99, 111, 109]]

/-- `example.com MX?`; answers `example.com MX 10 mx.example.com` and
`example.com SRV 0 0 25 example.com` -/
def c07Packet : Packet :=
  { header := { id := 1, opcode := .StandardQuery, rcode := .NoError, flags := 0x8400, opt := none }
    questions := [{ name := c07Example, qtype := .TYPE .MX, qclass := .CLASS .IN, unicast := false }]
    answers :=
      [{ name := c07Example, cls := .IN, ttl := 300, flush := false,
         rdata := .flat 15 [.int 10, .name ([109, 120] :: c07Example)] },
       { name := c07Example, cls := .IN, ttl := 300, flush := false,
         rdata := .flat 33 [.int 0, .int 0, .int 25, .name c07Example] }]
    nameServers := []
    additional := [] }

example : c07Packet.WF := by decide

/-- the five name sites: question, owner, MX exchange, owner, SRV target (not compressible) -/
example : c07Packet.sitesG true =
    [⟨12, c07Example, true⟩, ⟨29, c07Example, true⟩, ⟨43, [109, 120] :: c07Example, true⟩,
     ⟨48, c07Example, true⟩, ⟨66, c07Example, false⟩] := by decide

/-- both owner names are the pointer `C0 0C` to the question name, the MX exchange is the label
`mx` and the same pointer, the SRV target repeats `example.com` in full -/
example : c07Packet.buildCompressed = .ok
    [0, 1, 132, 0, 0, 1, 0, 2, 0, 0, 0, 0,
     7, 101, 120, 97, 109, 112, 108, 101, 3, 99, 111, 109, 0, 0, 15, 0, 1,
     192, 12, 0, 15, 0, 1, 0, 0, 1, 44, 0, 7, 0, 10, 2, 109, 120, 192, 12,
     192, 12, 0, 33, 0, 1, 0, 0, 1, 44, 0, 19, 0, 0, 0, 0, 0, 25,
     7, 101, 120, 97, 109, 112, 108, 101, 3, 99, 111, 109, 0] := by decide

example : compressName c07Example 29 [(c07Example, 12)] = ([192, 12], [(c07Example, 12)]) := by
  decide

/-- a first occurrence beyond offset 16383 is written but not remembered -/
example : compressName [[97]] 0x4000 [] = ([1, 97, 0], []) := by decide

end Dns
