/-
C06: `Name::parse` against RFC 1035 §4.1.4.

The parser model `Name.parse` (Model/NameWire.lean) is sound for the decoding
relation `Decodes` (Spec/NameDecode.lean), returns only well-formed names,
leaves the caller cursor at the in-place end of the name, never panics, accepts
every encoding with strictly backward pointers that fits 255 bytes, and rejects
pointer cycles, pointers outside the message, reserved label types and names
that expand to more than 255 bytes. Proofs are in Lemmas/Name.lean.
-/
import SimpleDnsModel.Lemmas.Name
namespace Dns

/-! ### concrete buffers used to show that the hypotheses are satisfiable -/

/-- `www.com` in plain wire form (9 bytes) -/
def exWwwCom : Bytes := [3, 119, 119, 119, 3, 99, 111, 109, 0]

/-- `www.com` at 0, then `a.com` at 9 written as the label `a` and a pointer to offset 4 -/
def exPtr : Bytes := [3, 119, 119, 119, 3, 99, 111, 109, 0, 1, 97, 0xC0, 4]

/-- a pointer that points at itself -/
def exCycle : Bytes := [0xC0, 0]

/-- four labels of 63 bytes: 257 bytes on the wire -/
def exLong : Name := List.replicate 4 (List.replicate 63 97)

theorem exWwwCom_parse : Name.parse exWwwCom 0 = .ok ([[119, 119, 119], [99, 111, 109]], 9) :=
  Name.parse_write (n := [[119, 119, 119], [99, 111, 109]]) (by decide) [] []

theorem exPtr_Enc : Enc exPtr 9 [[97], [99, 111, 109]] :=
  Enc.label (b := 1) rfl (by decide) (by decide) rfl (by decide)
    (Enc.ptr (b := 0xC0) (b2 := 4) rfl (by decide) rfl (by decide) (by simp)
      (Enc.label (b := 3) rfl (by decide) (by decide) rfl (by decide) (Enc.root rfl)))

theorem exPtr_parse : Name.parse exPtr 9 = .ok ([[97], [99, 111, 109]], 13) := by
  obtain ⟨p, hp⟩ := Name.parse_of_Enc exPtr_Enc (by decide)
  have hI : InPlaceEnd exPtr 9 13 :=
    InPlaceEnd.label (b := 1) rfl (by decide) (by decide) (InPlaceEnd.ptr (b := 0xC0) rfl (by decide))
  rw [hp, InPlaceEnd.det (Name.parse_cursor hp) hI]

theorem exCycle_no_decoding : ¬ ∃ n, Decodes exCycle 0 n := by
  intro ⟨n, h⟩
  generalize hoff : 0 = off at h
  induction h with
  | root h0 => subst hoff; simp [exCycle] at h0
  | label hb h1 h63 _ _ _ _ =>
    subst hoff; simp [exCycle] at hb; subst hb; simp at h63
  | ptr hb _ hb2 _ ih =>
    subst hoff; simp [exCycle] at hb hb2; subst hb hb2; exact ih rfl

theorem exLong_Decodes : Decodes ([] ++ (Name.write exLong ++ [])) 0 exLong :=
  (Name.write_Enc exLong (by decide) [] []).1.toDecodes

/-! ### the property -/

/-- `Name::parse` never panics, on any input and any start offset. -/
theorem name_parse_no_panic (d : Bytes) (pos : Nat) : Name.parse d pos ≠ .panic :=
  Name.parse_no_panic d pos

/-- Soundness: a successful parse returns the name that RFC 1035 §4.1.4 assigns to `pos`. -/
theorem name_parse_sound (d : Bytes) (pos : Nat) (n : Name) (p : Nat)
    (h : Name.parse d pos = .ok (n, p)) : Decodes d pos n :=
  Name.parse_sound h

example : Name.parse exWwwCom 0 = .ok ([[119, 119, 119], [99, 111, 109]], 9) := exWwwCom_parse
example : Name.parse exPtr 9 = .ok ([[97], [99, 111, 109]], 13) := exPtr_parse

/-- Bounds: every returned label has 1..63 bytes and the name encodes to at most 255 bytes. -/
theorem name_parse_bounds (d : Bytes) (pos : Nat) (n : Name) (p : Nat)
    (h : Name.parse d pos = .ok (n, p)) :
    (∀ l ∈ n, 1 ≤ l.length ∧ l.length ≤ 63) ∧ Name.wireLen n ≤ 255 :=
  Name.parse_bounds h

/-- Cursor: the returned position is the end of the in-place part of the name (just after the
terminating zero, or just after the first pointer); it is strictly after `pos` and inside the
message. -/
theorem name_parse_cursor (d : Bytes) (pos : Nat) (n : Name) (p : Nat)
    (h : Name.parse d pos = .ok (n, p)) : InPlaceEnd d pos p ∧ pos < p ∧ p ≤ d.length :=
  ⟨Name.parse_cursor h, Name.parse_pos_le h⟩

example : InPlaceEnd exPtr 9 13 ∧ 9 < 13 ∧ 13 ≤ exPtr.length :=
  name_parse_cursor _ _ _ _ exPtr_parse

/-- The decoding relation is functional: a message position decodes to at most one name. -/
theorem name_decode_functional (d : Bytes) (off : Nat) (n m : Name)
    (h1 : Decodes d off n) (h2 : Decodes d off m) : n = m :=
  Decodes.det h1 h2

example : Decodes exPtr 9 [[97], [99, 111, 109]] := exPtr_Enc.toDecodes

/-- Completeness: every encoding whose pointers go strictly backwards to non-empty names and
whose expansion fits 255 bytes is accepted, with that name. -/
theorem name_parse_complete (d : Bytes) (pos : Nat) (n : Name)
    (h : Enc d pos n) (hlen : Name.wireLen n ≤ 255) : ∃ p, Name.parse d pos = .ok (n, p) :=
  Name.parse_of_Enc h hlen

example : Enc exPtr 9 [[97], [99, 111, 109]] ∧ Name.wireLen [[97], [99, 111, 109]] ≤ 255 :=
  ⟨exPtr_Enc, by decide⟩

/-- A position with no decoding (pointer cycle, pointer or label outside the message, reserved
label type) is never accepted. -/
theorem name_cycle_is_error (d : Bytes) (pos : Nat) (h : ¬ ∃ n, Decodes d pos n) :
    ∀ n p, Name.parse d pos ≠ .ok (n, p) :=
  fun n _ hp => h ⟨n, Name.parse_sound hp⟩

example : ¬ ∃ n, Decodes exCycle 0 n := exCycle_no_decoding

/-- ... and, since the parser does not panic, the result is `Err`. -/
theorem name_cycle_is_err (d : Bytes) (pos : Nat) (h : ¬ ∃ n, Decodes d pos n) :
    Name.parse d pos = .err :=
  Name.parse_err_of_not_ok (name_cycle_is_error d pos h)

example : Name.parse exCycle 0 = .err := name_cycle_is_err _ _ exCycle_no_decoding

/-- Label types `01` and `10` (first byte 64..191) are rejected. -/
theorem name_reserved_label_is_error (d : Bytes) (pos : Nat) (b : UInt8)
    (hb : d[pos]? = some b) (h64 : 64 ≤ b.toNat) (h192 : b.toNat < 192) :
    Name.parse d pos = .err :=
  Name.parse_reserved hb h64 h192

example : ([0x40, 0] : Bytes)[0]? = some 0x40 ∧ 64 ≤ (0x40 : UInt8).toNat ∧ (0x40 : UInt8).toNat < 192 :=
  ⟨rfl, by decide, by decide⟩

/-- A name whose expansion exceeds 255 bytes is never accepted. -/
theorem name_too_long_is_error (d : Bytes) (pos : Nat) (n : Name)
    (h : Decodes d pos n) (hlen : 255 < Name.wireLen n) :
    ∀ m p, Name.parse d pos ≠ .ok (m, p) := by
  intro m p hp
  have hm : m = n := Decodes.det (Name.parse_sound hp) h
  have := (Name.parse_bounds hp).2
  rw [hm] at this
  omega

example : Decodes ([] ++ (Name.write exLong ++ [])) 0 exLong ∧ 255 < Name.wireLen exLong :=
  ⟨exLong_Decodes, by decide⟩

end Dns
