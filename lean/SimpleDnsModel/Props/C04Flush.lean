/-
C04, clause "the writer-based entry points produce the same bytes as the vector-returning ones
for any writer kind ... and report an error instead of panicking or silently truncating when the
writer is too small" — for writers that DEFER their work.

`Packet::write_to` and `Packet::write_compressed_to` (packet.rs) end with `out.flush()?`. The four
writer kinds of Model/Writer.lean write through immediately, so for them that call is invisible:
deleting it changes nothing the model can see. With `std::io::BufWriter<W>` it is essential:
without it `Ok(())` is returned while part or all of the message is still in the buffer, and an
underlying storage that is too small is never found out.

This file adds a small model of `std::io::BufWriter<W>` over the existing `W`:

* `BufW` = the inner writer, the capacity and the pending bytes;
* `BufW.write` = `BufWriter::write_all` for one call (std `write_all` / `write_all_cold`): if the
  data does not fit the spare capacity (`buf.len() + data.len() > capacity`) the pending bytes are
  flushed first (`inner.write_all(buf)`; an error propagates; the buffer is emptied only on
  success); then data at least as long as the capacity goes straight to the inner writer and
  shorter data is appended to the buffer;
* `BufW.flush` = `BufWriter::flush`: `inner.write_all(buf)`, buffer emptied (the inner writers of
  the model have a no-op `flush`);
* `writePiecesBuffered b pieces finalFlush` = a sequence of `write_all` calls, one per piece,
  followed by `flush()` iff `finalFlush`.

Only the non-seeking plain path (`write_to`) is modelled. `Seek` is ignored: std's
`BufWriter::seek` flushes the buffer first and then seeks the inner writer, so the seek-and-patch
compressed writer over a `BufWriter` is again a sequence of inner writes followed by the same final
`flush`; that refinement is not proved here.

Results (all for every inner writer kind, every capacity — 0 included — and every list of pieces):
 (a) `buffered_flush_eq`, `buffered_transparent`: with the final flush the outcome is exactly the
     outcome of ONE `write_all` of the concatenation on the inner writer, and the buffer is empty;
 (b) `buffered_small_is_error`: fixed inner storage too small ⇒ `Err`, never `Ok`;
 (c) `no_flush_keeps_everything` (general) and `no_flush_loses_message` (a real packet, capacity
     8192): without the flush `Ok` is returned and the underlying `Vec` is still empty;
 (d) `no_flush_hides_error_general`, `no_flush_hides_error`: without the flush a fixed inner
     writer that is too small is not noticed (`Ok`), with the flush it is (`Err`);
 (e) `buffered_never_panics`.
Packet level: `Packet.writeToBuffered_eq_writeTo` (BufWriter + flush = `Packet.writeTo` on the
inner writer), `writers_agree_buffered`, `small_writer_buffered`, the same for ANY decomposition of
the message into `write_all` calls (`buffered_any_decomposition`), and the flush-less variant
`Packet.writeToBufferedNoFlush_loses` / `…_hides_error`.

Trusted base: the `BufWriter` semantics above are modelled std behaviour (like the four writer
kinds, DESIGN.md §5), checked against the real `std::io::BufWriter` by the harness cases
`writer:buffered` / `writer:buffered-fixed`.
-/
import SimpleDnsModel.Props.C04
import SimpleDnsModel.Props.C04C07C11More
set_option autoImplicit false
namespace Dns
open C04C07C11 (W_write_ne_panic writeTo_eq_build_write writeTo_err_of_build_err build_ne_panic)

/-! ### the model of `std::io::BufWriter<W>` -/

/-- `std::io::BufWriter<W>`: the inner writer, `capacity()` and the pending bytes `buffer()` -/
structure BufW where
  inner : W
  cap : Nat
  buf : Bytes
deriving DecidableEq, Repr

/-- `BufWriter::flush_buf` / `BufWriter::flush`: hand the pending bytes to the inner writer; the
buffer is emptied only when that succeeded -/
def BufW.flush (b : BufW) : Out BufW := do
  let w ← b.inner.write b.buf
  pure { b with inner := w, buf := [] }

/-- `BufWriter::write_all` for one call -/
def BufW.write (b : BufW) (bs : Bytes) : Out BufW := do
  let b ← (if b.buf.length + bs.length > b.cap then b.flush else pure b)
  if bs.length ≥ b.cap then do
    let w ← b.inner.write bs
    pure { b with inner := w }
  else pure { b with buf := b.buf ++ bs }

/-- one `write_all` per piece -/
def BufW.writeAll (b : BufW) : List Bytes → Out BufW
  | [] => .ok b
  | p :: ps => do
    let b ← b.write p
    b.writeAll ps

/-- a sequence of `write_all` calls on a `BufWriter`, then `flush()?` iff `finalFlush` -/
def writePiecesBuffered (b : BufW) (pieces : List Bytes) (finalFlush : Bool) : Out BufW := do
  let b ← b.writeAll pieces
  if finalFlush then b.flush else pure b

/-- what the inner writer has received once everything pending and `rest` are written through -/
def BufW.settle (b : BufW) (rest : Bytes) : Out BufW := do
  let w ← b.inner.write (b.buf ++ rest)
  pure { inner := w, cap := b.cap, buf := [] }

/-! ### (a) BufWriter + final flush is transparent -/

theorem BufW.flush_eq_settle (b : BufW) : b.flush = b.settle [] := by
  simp [BufW.flush, BufW.settle]

/-- flushing early does not change what finally reaches the inner writer -/
theorem BufW.flush_settle (b : BufW) (rest : Bytes) :
    (b.flush >>= fun b' => b'.settle rest) = b.settle rest := by
  unfold BufW.flush BufW.settle
  rw [W.write_append]
  cases b.inner.write b.buf <;> simp

/-- one buffered `write_all` followed by settling = settling with the data in front -/
theorem BufW.write_settle (b : BufW) (bs rest : Bytes) :
    (b.write bs >>= fun b' => b'.settle rest) = b.settle (bs ++ rest) := by
  have key : ∀ c : BufW,
      ((if bs.length ≥ c.cap then (do
          let w ← c.inner.write bs
          pure { c with inner := w })
        else (pure { c with buf := c.buf ++ bs } : Out BufW)) >>= fun b' => b'.settle rest)
        = c.settle (bs ++ rest) ∨ (c.buf ≠ [] ∧ bs.length ≥ c.cap) := by
    intro c
    by_cases hc : c.buf = []
    · left
      by_cases hd : bs.length ≥ c.cap
      · rw [if_pos hd]
        simp only [BufW.settle, hc, List.nil_append]
        rw [W.write_append]
        cases c.inner.write bs <;> simp
      · rw [if_neg hd]
        simp [BufW.settle]
    · by_cases hd : bs.length ≥ c.cap
      · exact Or.inr ⟨hc, hd⟩
      · left
        rw [if_neg hd]
        simp [BufW.settle]
  unfold BufW.write
  by_cases hf : b.buf.length + bs.length > b.cap
  · rw [if_pos hf]
    rw [← BufW.flush_settle b (bs ++ rest)]
    unfold BufW.flush
    cases hw : b.inner.write b.buf with
    | ok w =>
      simp only [Out.bind_ok, Out.pure_eq]
      rcases key { b with inner := w, buf := [] } with h | h
      · simpa using h
      · exact absurd rfl h.1
    | err => simp
    | panic => simp
  · rw [if_neg hf]
    simp only [Out.pure_eq, Out.bind_ok]
    rcases key b with h | h
    · simpa using h
    · have : 0 < b.buf.length := List.length_pos_iff.mpr h.1
      omega

theorem BufW.writeAll_settle (pieces : List Bytes) : ∀ (b : BufW) (rest : Bytes),
    (b.writeAll pieces >>= fun b' => b'.settle rest) = b.settle (pieces.flatten ++ rest) := by
  induction pieces with
  | nil => intro b rest; simp [BufW.writeAll]
  | cons p ps ih =>
    intro b rest
    simp only [BufW.writeAll, List.flatten_cons, List.append_assoc]
    rw [← BufW.write_settle b p (ps.flatten ++ rest)]
    cases b.write p with
    | ok b1 => simpa using ih b1 rest
    | err => simp
    | panic => simp

/-- **BufWriter + final `flush()` from any state** (pending bytes included): the inner writer
receives, as if by one `write_all`, the pending bytes followed by the concatenation of the pieces,
with the same verdict; the buffer ends empty. -/
theorem buffered_flush_settle (b : BufW) (pieces : List Bytes) :
    writePiecesBuffered b pieces true = b.settle pieces.flatten := by
  have := BufW.writeAll_settle pieces b []
  simp only [List.append_nil] at this
  rw [← this]
  unfold writePiecesBuffered
  cases b.writeAll pieces <;> simp [BufW.flush_eq_settle]

/-- **`write_to` through a `BufWriter` that starts empty, with the final `flush()`**: the outcome
is the outcome of one `write_all` of the whole message on the inner writer (same storage, same
position, same verdict), whatever the capacity and however the message is cut into `write_all`
calls. -/
theorem buffered_flush_eq (b : BufW) (hb : b.buf = []) (pieces : List Bytes) :
    writePiecesBuffered b pieces true =
      (b.inner.write pieces.flatten >>= fun w' => .ok { inner := w', cap := b.cap, buf := [] }) := by
  rw [buffered_flush_settle, BufW.settle, hb]
  rfl

/-- **(a)** the `iff` form: `Ok` through the `BufWriter` exactly when the single direct write is
`Ok`, and then the inner writer is the one the direct write leaves and nothing is pending. -/
theorem buffered_transparent (b : BufW) (hb : b.buf = []) (pieces : List Bytes) :
    (∀ b', writePiecesBuffered b pieces true = .ok b' →
        b.inner.write pieces.flatten = .ok b'.inner ∧ b'.buf = [] ∧ b'.cap = b.cap) ∧
    (∀ w', b.inner.write pieces.flatten = .ok w' →
        writePiecesBuffered b pieces true = .ok { inner := w', cap := b.cap, buf := [] }) ∧
    ((∃ b', writePiecesBuffered b pieces true = .ok b') ↔
      (∃ w', b.inner.write pieces.flatten = .ok w')) := by
  rw [buffered_flush_eq b hb]
  cases b.inner.write pieces.flatten with
  | ok w =>
    refine ⟨?_, ?_, ?_⟩
    · intro b' h
      simp only [Out.bind_ok, Out.ok.injEq] at h
      subst h
      simp
    · intro w' h
      simp only [Out.ok.injEq] at h
      subst h
      rfl
    · simp
  | err => simp
  | panic => simp

/-- the hypotheses are satisfiable: a 16-byte `BufWriter` over a `Vec`, three pieces of which the
second forces an early flush and the third (20 bytes) bypasses the buffer -/
example : writePiecesBuffered { inner := { kind := .vec, buf := [9], pos := 0 }, cap := 16, buf := [] }
      [List.replicate 10 1, List.replicate 10 2, List.replicate 20 3] true
    = .ok { inner := { kind := .vec, pos := 0,
                       buf := [9] ++ List.replicate 10 1 ++ List.replicate 10 2 ++ List.replicate 20 3 },
            cap := 16, buf := [] } := by decide

/-! ### (b) a fixed inner writer that is too small -/

/-- **(b)** `BufWriter` over `Cursor<&mut [u8]>` / `&mut [u8]` that cannot hold the message, with
the final `flush()`: an error, never `Ok` (not fitting implies the fixed kinds: the growable kinds
always fit). -/
theorem buffered_small_is_error (b : BufW) (hb : b.buf = []) (pieces : List Bytes)
    (hf : ¬ b.inner.fits pieces.flatten.length) :
    writePiecesBuffered b pieces true = .err := by
  rw [buffered_flush_eq b hb, Wr.W.write_not_fits _ _ hf]
  rfl

/-- the form of the task: the kind named explicitly -/
theorem buffered_small_is_error' (b : BufW) (hb : b.buf = []) (pieces : List Bytes)
    (hk : b.inner.kind = .cursorFixed ∨ b.inner.kind = .slice)
    (hne : pieces.flatten ≠ [])
    (hs : b.inner.buf.length < b.inner.pos + pieces.flatten.length) :
    writePiecesBuffered b pieces true = .err := by
  apply buffered_small_is_error b hb
  have hpos : 0 < pieces.flatten.length := List.length_pos_iff.mpr hne
  generalize pieces.flatten.length = n at hs hpos ⊢
  rw [Wr.W.fits_iff]
  rcases hk with h | h <;> simp [h] <;> omega

/-- … and when it fits, the bytes are spliced into the inner storage exactly as by a direct write -/
theorem buffered_fits (b : BufW) (hb : b.buf = []) (pieces : List Bytes)
    (hf : b.inner.fits pieces.flatten.length) :
    writePiecesBuffered b pieces true =
      .ok { inner := b.inner.expect pieces.flatten, cap := b.cap, buf := [] } := by
  rw [buffered_flush_eq b hb, Wr.W.write_fits _ _ hf]
  rfl

example : ¬ (W.fits { kind := .slice, buf := List.replicate 5 0, pos := 0 }
    ([[1, 2, 3], [4, 5, 6]] : List Bytes).flatten.length) := by decide

example : writePiecesBuffered
    { inner := { kind := .slice, buf := List.replicate 5 0, pos := 0 }, cap := 64, buf := [] }
    [[1, 2, 3], [4, 5, 6]] true = .err := by decide

/-! ### (c), (d) what the final flush is for -/

/-- while everything fits the buffer, nothing reaches the inner writer -/
theorem BufW.writeAll_small (pieces : List Bytes) : ∀ (b : BufW),
    b.buf.length + pieces.flatten.length < b.cap →
    b.writeAll pieces = .ok { b with buf := b.buf ++ pieces.flatten } := by
  induction pieces with
  | nil => intro b _; simp [BufW.writeAll]
  | cons p ps ih =>
    intro b h
    simp only [List.flatten_cons, List.length_append] at h
    have h1 : ¬ (b.buf.length + p.length > b.cap) := by omega
    have h2 : ¬ (p.length ≥ b.cap) := by omega
    simp only [BufW.writeAll, BufW.write, if_neg h1, Out.pure_eq, Out.bind_ok, if_neg h2]
    rw [ih]
    · simp
    · simp only [List.length_append]; omega

/-- **(c), general: without the final `flush()` a message shorter than the capacity is lost.**
`Ok` is returned, the inner writer is untouched (same storage, same position) and the whole
message is still in the buffer, to be dropped or written later at the `BufWriter`'s discretion. -/
theorem no_flush_keeps_everything (b : BufW) (hb : b.buf = []) (pieces : List Bytes)
    (hc : pieces.flatten.length < b.cap) :
    writePiecesBuffered b pieces false = .ok { b with buf := pieces.flatten } := by
  unfold writePiecesBuffered
  rw [BufW.writeAll_small pieces b (by rw [hb]; simpa using hc), hb]
  simp

/-- a query for `www.com A IN`: 12-byte header and one question, 25 bytes -/
def c04FlushPacket : Packet :=
  { header := { id := 0x1234, opcode := .StandardQuery, rcode := .NoError, flags := 0x0100,
                opt := none }
    questions := [{ name := [[119, 119, 119], [99, 111, 109]], qtype := .TYPE .A,
                    qclass := .CLASS .IN, unicast := false }]
    answers := []
    nameServers := []
    additional := [] }

/-- the `write_all` calls of `Packet::write_to` for that packet: the header, then the question -/
def c04FlushPieces : List Bytes :=
  [c04FlushPacket.writeHeader] ++ c04FlushPacket.questions.map Question.write

example : c04FlushPacket.WF := by decide

/-- the pieces are the real message: their concatenation is `build_bytes_vec`, 12 + 13 bytes -/
theorem c04FlushPieces_build :
    c04FlushPacket.build = .ok c04FlushPieces.flatten ∧ c04FlushPieces.map List.length = [12, 13] := by
  decide

/-- **(c)** `BufWriter::with_capacity(8192, Vec::new())`, the two `write_all` calls of a real
query and NO final flush: `Ok`, and nothing has reached the underlying `Vec`. -/
theorem no_flush_loses_message :
    ∃ b', writePiecesBuffered { inner := { kind := .vec, buf := [], pos := 0 }, cap := 8192, buf := [] }
        c04FlushPieces false = .ok b' ∧ b'.inner.buf = [] ∧ b'.buf = c04FlushPieces.flatten := by
  refine ⟨_, no_flush_keeps_everything _ rfl _ (by decide), rfl, rfl⟩

/-- with the flush the same call leaves exactly `build_bytes_vec` in the `Vec` -/
theorem flush_delivers_message :
    (writePiecesBuffered { inner := { kind := .vec, buf := [], pos := 0 }, cap := 8192, buf := [] }
        c04FlushPieces true >>= fun b' => .ok b'.inner.buf) = c04FlushPacket.build := by
  rw [buffered_flush_eq _ rfl, c04FlushPieces_build.1]
  simp [W.write]

/-- **(d), general: without the final `flush()` a too-small fixed inner writer goes unnoticed.**
Capacity above the message length, any inner writer the message does not fit: `Ok` without the
flush (and the storage untouched — the truncation is total and silent), `Err` with it. -/
theorem no_flush_hides_error_general (b : BufW) (hb : b.buf = []) (pieces : List Bytes)
    (hc : pieces.flatten.length < b.cap) (hf : ¬ b.inner.fits pieces.flatten.length) :
    writePiecesBuffered b pieces false = .ok { b with buf := pieces.flatten } ∧
    writePiecesBuffered b pieces true = .err :=
  ⟨no_flush_keeps_everything b hb pieces hc, buffered_small_is_error b hb pieces hf⟩

/-- **(d)** the 25-byte query into `BufWriter` over a 24-byte `Cursor<&mut [u8]>` or `&mut [u8]`
(one byte too small), capacity 8192: `Ok` and 24 untouched bytes without the flush, `Err` with it. -/
theorem no_flush_hides_error : ∀ k ∈ [WKind.cursorFixed, WKind.slice],
    (∃ b', writePiecesBuffered { inner := { kind := k, buf := c04Zeros 24, pos := 0 }, cap := 8192, buf := [] }
        c04FlushPieces false = .ok b' ∧ b'.inner.buf = c04Zeros 24 ∧ b'.inner.pos = 0) ∧
    writePiecesBuffered { inner := { kind := k, buf := c04Zeros 24, pos := 0 }, cap := 8192, buf := [] }
        c04FlushPieces true = .err := by
  intro k hk
  have hf : ¬ W.fits { kind := k, buf := c04Zeros 24, pos := 0 } c04FlushPieces.flatten.length := by
    revert k; decide
  obtain ⟨h1, h2⟩ := no_flush_hides_error_general
    { inner := { kind := k, buf := c04Zeros 24, pos := 0 }, cap := 8192, buf := [] } rfl
    c04FlushPieces (by show c04FlushPieces.flatten.length < 8192; decide) hf
  exact ⟨⟨_, h1, rfl, rfl⟩, h2⟩

/-- the boundary case the strict bound excludes: capacity equal to the message length and the
message in one piece bypasses the buffer, so the error is seen even without the flush -/
example : writePiecesBuffered
    { inner := { kind := .slice, buf := c04Zeros 24, pos := 0 }, cap := 25, buf := [] }
    [c04FlushPieces.flatten] false = .err := by decide

/-- a small capacity (16 < 25): without the flush the header has been pushed out by the question
but the question itself is still pending — a truncated message in the `Vec`, and `Ok` -/
example : writePiecesBuffered { inner := { kind := .vec, buf := [], pos := 0 }, cap := 16, buf := [] }
      c04FlushPieces false
    = .ok { inner := { kind := .vec, buf := c04FlushPacket.writeHeader, pos := 0 }, cap := 16,
            buf := c04FlushPieces.flatten.drop 12 } := by decide

/-! ### (e) no panic -/

theorem BufW.flush_ne_panic (b : BufW) : b.flush ≠ .panic := by
  unfold BufW.flush
  have := W_write_ne_panic b.inner b.buf
  cases h : b.inner.write b.buf <;> simp_all

theorem BufW.write_ne_panic (b : BufW) (bs : Bytes) : b.write bs ≠ .panic := by
  have key : ∀ c : BufW,
      (if bs.length ≥ c.cap then (do
          let w ← c.inner.write bs
          pure { c with inner := w })
        else (pure { c with buf := c.buf ++ bs } : Out BufW)) ≠ .panic := by
    intro c
    split
    · have := W_write_ne_panic c.inner bs
      cases h : c.inner.write bs <;> simp_all
    · simp
  unfold BufW.write
  apply Out.bind_ne_panic
  · split
    · exact BufW.flush_ne_panic b
    · simp
  · intro c _
    exact key c

theorem BufW.writeAll_ne_panic (pieces : List Bytes) : ∀ b : BufW, b.writeAll pieces ≠ .panic := by
  induction pieces with
  | nil => intro b; simp [BufW.writeAll]
  | cons p ps ih =>
    intro b
    unfold BufW.writeAll
    exact Out.bind_ne_panic (BufW.write_ne_panic b p) (fun c _ => ih c)

/-- **(e)** any sequence of `write_all` calls on a `BufWriter` over any of the four writers, in any
state (pending bytes, any capacity), with or without the final flush, never panics. -/
theorem buffered_never_panics (b : BufW) (pieces : List Bytes) (finalFlush : Bool) :
    writePiecesBuffered b pieces finalFlush ≠ .panic := by
  unfold writePiecesBuffered
  apply Out.bind_ne_panic (BufW.writeAll_ne_panic pieces b)
  intro c _
  cases finalFlush
  · simp
  · simpa using BufW.flush_ne_panic c

/-! ### the packet level -/

/-- one piece per record: the bytes of each `ResourceRecord::write_to` -/
def rrPieces : List RR → Out (List Bytes)
  | [] => .ok []
  | r :: rs => do
    let a ← r.write
    let b ← rrPieces rs
    pure (a :: b)

theorem rrPieces_flatten (rs : List RR) :
    (rrPieces rs >>= fun ps => .ok ps.flatten) = writeRRs rs := by
  induction rs with
  | nil => rfl
  | cons r rs ih =>
    simp only [rrPieces, writeRRs]
    cases r.write with
    | ok a =>
      simp only [Out.bind_ok]
      rw [← ih]
      cases rrPieces rs <;> simp
    | err => simp
    | panic => simp

theorem questionPieces_flatten (qs : List Question) :
    (qs.map Question.write).flatten = writeQuestions qs := by
  induction qs with
  | nil => rfl
  | cons q qs ih => simp [writeQuestions, ih]

/-- the `write_all` calls of `Packet::write_to`, at the granularity of entries: the header, each
question, each answer, each authority record, the OPT pseudo-record if any, each additional record
(the records are serialised in this order, and a record that cannot be written stops the call) -/
def Packet.pieces (p : Packet) : Out (List Bytes) := do
  let an ← rrPieces p.answers
  let ns ← rrPieces p.nameServers
  let o ← rrPieces p.header.optRR.toList
  let ar ← rrPieces p.additional
  pure ([p.writeHeader] ++ (p.questions.map Question.write ++ (an ++ (ns ++ (o ++ ar)))))

/-- the pieces are a decomposition of `build_bytes_vec` (same bytes, same verdict) -/
theorem Packet.pieces_flatten (p : Packet) :
    (p.pieces >>= fun ps => .ok ps.flatten) = p.build := by
  unfold Packet.pieces Packet.build
  rw [← rrPieces_flatten p.answers, ← rrPieces_flatten p.nameServers,
    ← rrPieces_flatten p.header.optRR.toList, ← rrPieces_flatten p.additional]
  cases rrPieces p.answers <;> simp
  cases rrPieces p.nameServers <;> simp
  cases rrPieces p.header.optRR.toList <;> simp
  cases rrPieces p.additional <;> simp [questionPieces_flatten]

/-- `Packet::write_to(&mut BufWriter<W>)`: the pieces, then `out.flush()?` -/
def Packet.writeToBuffered (p : Packet) (b : BufW) : Out BufW := do
  let ps ← p.pieces
  writePiecesBuffered b ps true

/-- the same with the final `flush()` deleted -/
def Packet.writeToBufferedNoFlush (p : Packet) (b : BufW) : Out BufW := do
  let ps ← p.pieces
  writePiecesBuffered b ps false

/-- **`Packet::write_to` through a `BufWriter` = `Packet::write_to` on the inner writer**, for every
packet, inner writer kind and state, and capacity: same storage, same position, same verdict
(`Err` when a record cannot be written or the storage is too small), nothing left pending. -/
theorem Packet.writeToBuffered_eq_writeTo (p : Packet) (b : BufW) (hb : b.buf = []) :
    p.writeToBuffered b =
      (p.writeTo b.inner >>= fun w' => .ok { inner := w', cap := b.cap, buf := [] }) := by
  rw [writeTo_eq_build_write, ← Packet.pieces_flatten]
  unfold Packet.writeToBuffered
  cases p.pieces with
  | ok ps => simp only [Out.bind_ok]; exact buffered_flush_eq b hb ps
  | err => rfl
  | panic => rfl

/-- the inner writer ends up as `W.write w (build p)` -/
theorem Packet.writeToBuffered_inner (p : Packet) (b : BufW) (hb : b.buf = []) (bytes : Bytes)
    (hbuild : p.build = .ok bytes) :
    p.writeToBuffered b =
      (b.inner.write bytes >>= fun w' => .ok { inner := w', cap := b.cap, buf := [] }) := by
  rw [Packet.writeToBuffered_eq_writeTo p b hb, writeTo_eq_build_write, hbuild]
  rfl

/-- **all writers agree, `BufWriter` included**: when the message fits the inner writer, exactly
the bytes of `build_bytes_vec` are spliced into the inner storage at its position -/
theorem writers_agree_buffered (p : Packet) (b : BufW) (hb : b.buf = []) (bytes : Bytes)
    (hbuild : p.build = .ok bytes) (hf : b.inner.fits bytes.length) :
    p.writeToBuffered b = .ok { inner := b.inner.expect bytes, cap := b.cap, buf := [] } := by
  rw [Packet.writeToBuffered_eq_writeTo p b hb, writers_agree_plain p b.inner bytes hbuild hf]
  rfl

/-- **a too-small writer behind a `BufWriter` gets an error**: no panic, no truncated success -/
theorem small_writer_buffered (p : Packet) (b : BufW) (hb : b.buf = []) (bytes : Bytes)
    (hbuild : p.build = .ok bytes) (hf : ¬ b.inner.fits bytes.length) :
    p.writeToBuffered b = .err := by
  rw [Packet.writeToBuffered_eq_writeTo p b hb, small_writer_plain p b.inner bytes hbuild hf]
  rfl

/-- a packet that cannot be written is an error through the `BufWriter` too -/
theorem writeToBuffered_err_of_build_err (p : Packet) (b : BufW) (hb : b.buf = [])
    (h : p.build = .err) : p.writeToBuffered b = .err := by
  rw [Packet.writeToBuffered_eq_writeTo p b hb, writeTo_err_of_build_err p b.inner h]
  rfl

/-- **independent of the decomposition**: however `write_to` cuts the message into `write_all`
calls (per entry as in `Packet.pieces`, per field, per label, per byte), with the final flush the
inner writer receives exactly one `write_all` of `build_bytes_vec` -/
theorem buffered_any_decomposition (p : Packet) (b : BufW) (hb : b.buf = []) (bytes : Bytes)
    (hbuild : p.build = .ok bytes) (pieces : List Bytes) (hp : pieces.flatten = bytes) :
    writePiecesBuffered b pieces true =
      (p.writeTo b.inner >>= fun w' => .ok { inner := w', cap := b.cap, buf := [] }) := by
  rw [buffered_flush_eq b hb, hp, writeTo_eq_build_write, hbuild]
  rfl

/-- never a panic, with or without the flush -/
theorem writeToBuffered_never_panics (p : Packet) (b : BufW) :
    p.writeToBuffered b ≠ .panic ∧ p.writeToBufferedNoFlush b ≠ .panic := by
  have hp : p.pieces ≠ .panic := by
    intro h
    have := Packet.pieces_flatten p
    rw [h] at this
    exact build_ne_panic p this.symm
  constructor
  · exact Out.bind_ne_panic hp (fun ps _ => buffered_never_panics b ps true)
  · exact Out.bind_ne_panic hp (fun ps _ => buffered_never_panics b ps false)

/-- **`write_to` with the `flush()` deleted loses every message shorter than the capacity**: `Ok`,
inner writer untouched, the bytes of `build_bytes_vec` pending -/
theorem Packet.writeToBufferedNoFlush_loses (p : Packet) (b : BufW) (hb : b.buf = [])
    (bytes : Bytes) (hbuild : p.build = .ok bytes) (hc : bytes.length < b.cap) :
    p.writeToBufferedNoFlush b = .ok { b with buf := bytes } := by
  have hpf := Packet.pieces_flatten p
  rw [hbuild] at hpf
  unfold Packet.writeToBufferedNoFlush
  cases hps : p.pieces with
  | ok ps =>
    rw [hps] at hpf
    simp only [Out.bind_ok, Out.ok.injEq] at hpf
    simp only [Out.bind_ok]
    rw [no_flush_keeps_everything b hb ps (by rw [hpf]; exact hc), hpf]
  | err => rw [hps] at hpf; simp at hpf
  | panic => rw [hps] at hpf; simp at hpf

/-- … and hides the error of a too-small inner writer that the real `write_to` reports -/
theorem Packet.writeToBufferedNoFlush_hides_error (p : Packet) (b : BufW) (hb : b.buf = [])
    (bytes : Bytes) (hbuild : p.build = .ok bytes) (hc : bytes.length < b.cap)
    (hf : ¬ b.inner.fits bytes.length) :
    p.writeToBufferedNoFlush b = .ok { b with buf := bytes } ∧ p.writeToBuffered b = .err :=
  ⟨Packet.writeToBufferedNoFlush_loses p b hb bytes hbuild hc,
   small_writer_buffered p b hb bytes hbuild hf⟩

/-- the pieces of the example packet are the ones used above -/
example : c04FlushPacket.pieces = .ok c04FlushPieces := by decide

/-- `c04Packet` of Props/C04.lean (question, answer, OPT: 4 pieces, 65 bytes) through a 32-byte
`BufWriter` over each writer kind with exactly 65 bytes of room: the inner storage is
`build_bytes_vec` -/
example : ∀ k ∈ [WKind.cursorVec, .cursorFixed, .slice],
    (c04Packet.writeToBuffered { inner := { kind := k, buf := c04Zeros 65, pos := 0 }, cap := 32, buf := [] }
      >>= fun b' => .ok (b'.inner.buf, b'.buf)) = (c04Packet.build >>= fun bs => .ok (bs, [])) := by
  decide

/-- one byte less: an error with the flush; `Ok` without it when the capacity exceeds 65 -/
example : c04Packet.writeToBuffered
      { inner := { kind := .cursorFixed, buf := c04Zeros 64, pos := 0 }, cap := 32, buf := [] } = .err ∧
    (c04Packet.writeToBufferedNoFlush
      { inner := { kind := .cursorFixed, buf := c04Zeros 64, pos := 0 }, cap := 128, buf := [] }).isOk
      = true := by decide

end Dns
