/-
C08 — Header bits are read and written per RFC 1035 §4.1.1.
Every theorem quantifies over all 65 536 flag words (or all flag subsets, named
opcodes and response codes); the finite tables are checked by the kernel
(`decide +kernel`), split as `∀ hi < 256, ∀ lo < 256` to stay inside the
kernel's recursion depth, and lifted to all words.
-/
import SimpleDnsModel.Model.Header
import SimpleDnsModel.Spec.Rfc1035Header
namespace Dns

/-- what the library's masks compute on a word, against the RFC positions -/
def WordOK (w : Nat) : Prop :=
  ((w &&& Mask.RESERVED ≠ 0) ↔ Spec.Z w = 1) ∧
  (w &&& Mask.OPCODE) >>> 11 = Spec.OPCODE w ∧
  w &&& Mask.RCODE = Spec.RCODE w ∧
  flagsTruncate w = Spec.flagBits w

instance (w : Nat) : Decidable (WordOK w) := by unfold WordOK; infer_instance

theorem wordOK_table : ∀ hi < 256, ∀ lo < 256, WordOK (hi * 256 + lo) := by decide +kernel

theorem wordOK (w : Nat) (h : w < 65536) : WordOK w := by
  have := wordOK_table (w / 256) (by omega) (w % 256) (by omega)
  rwa [Nat.div_add_mod' w 256] at this

/-- `Header::parse` on a buffer laid out as id, flags word, 8 more bytes -/
theorem Header.parse_bytes (id w : Nat) (rest : Bytes) (hid : id < 65536) (hw : w < 65536)
    (hr : 8 ≤ rest.length) :
    Header.parse (beN 2 id ++ (beN 2 w ++ rest)) =
      if w &&& Mask.RESERVED ≠ 0 then .err else
      .ok { id := id, opcode := OPCODE.ofCode ((w &&& Mask.OPCODE) >>> 11),
            rcode := RCODE.ofCode (w &&& Mask.RCODE), flags := flagsTruncate w, opt := none } := by
  unfold Header.parse
  have hlen : ¬ (beN 2 id ++ (beN 2 w ++ rest)).length < 12 := by simp; omega
  rw [if_neg hlen]
  rw [slice_mid (beN 2 id) (beN 2 w) rest 2 4 (by simp) (by simp)]
  simp only [Out.bind_ok, deN_beN 2 w (by simpa using hw)]
  split
  · rfl
  · have h0 : slice (beN 2 id ++ (beN 2 w ++ rest)) 0 2 = .ok (beN 2 id) := by
      have := slice_mid [] (beN 2 id) (beN 2 w ++ rest) 0 2 (by simp) (by simp)
      simpa using this
    rw [h0]
    simp only [Out.bind_ok, deN_beN 2 id (by simpa using hid), Out.pure_eq]

/-- **Layout on parse.** For every id, every flags word without the Z bit, and any counts, the
parsed header reports exactly the RFC bit fields. -/
theorem header_layout (id w : Nat) (rest : Bytes) (hid : id < 65536) (hw : w < 65536)
    (hr : 8 ≤ rest.length) (hz : Spec.Z w = 0) :
    Header.parse (beN 2 id ++ (beN 2 w ++ rest)) =
      .ok { id := id, opcode := OPCODE.ofCode (Spec.OPCODE w), rcode := RCODE.ofCode (Spec.RCODE w),
            flags := Spec.flagBits w, opt := none } := by
  obtain ⟨h1, h2, h3, h4⟩ := wordOK w hw
  rw [Header.parse_bytes id w rest hid hw hr, h2, h3, h4]
  have : ¬ (w &&& Mask.RESERVED ≠ 0) := by rw [h1]; omega
  rw [if_neg this]

/-- **Z is rejected.** -/
theorem z_rejected (id w : Nat) (rest : Bytes) (hid : id < 65536) (hw : w < 65536)
    (hr : 8 ≤ rest.length) (hz : Spec.Z w = 1) :
    Header.parse (beN 2 id ++ (beN 2 w ++ rest)) = .err := by
  obtain ⟨h1, _⟩ := wordOK w hw
  rw [Header.parse_bytes id w rest hid hw hr, if_pos (h1.mpr hz)]

example : Spec.Z 0x8180 = 0 ∧ (0x8180 : Nat) < 65536 := by decide
example : Spec.Z 0x0040 = 1 := by decide

/-! ### the peek functions -/

theorem peekU16_bytes (pre : Bytes) (v : Nat) (post : Bytes) (hv : v < 65536) :
    peekU16 (pre ++ (beN 2 v ++ post)) pre.length = .ok v := by
  unfold peekU16 sliceOpt
  simp [deN_beN 2 v (by simpa using hv)]

/-- a 12-byte header as six 16-bit fields -/
def hdrBytes (id w qd an ns ar : Nat) : Bytes :=
  beN 2 id ++ (beN 2 w ++ (beN 2 qd ++ (beN 2 an ++ (beN 2 ns ++ beN 2 ar))))

/-- **Peeks agree with the RFC layout**, whatever follows the header. -/
theorem peek_agrees (id w qd an ns ar : Nat) (body : Bytes)
    (hid : id < 65536) (hw : w < 65536) (hqd : qd < 65536) (han : an < 65536)
    (hns : ns < 65536) (har : ar < 65536) :
    let d := hdrBytes id w qd an ns ar ++ body
    Peek.id d = .ok id ∧ Peek.questions d = .ok qd ∧ Peek.answers d = .ok an ∧
    Peek.nameServers d = .ok ns ∧ Peek.additional d = .ok ar ∧
    Peek.opcode d = .ok (OPCODE.ofCode (Spec.OPCODE w)) ∧
    Peek.rcode d = .ok (RCODE.ofCode (Spec.RCODE w)) ∧
    ∀ f, Peek.hasFlags d f = .ok (Spec.flagBits w &&& f == f) := by
  obtain ⟨_, h2, h3, h4⟩ := wordOK w hw
  have e0 := peekU16_bytes [] id (beN 2 w ++ (beN 2 qd ++ (beN 2 an ++ (beN 2 ns ++ (beN 2 ar ++ body))))) hid
  have e2 := peekU16_bytes (beN 2 id) w (beN 2 qd ++ (beN 2 an ++ (beN 2 ns ++ (beN 2 ar ++ body)))) hw
  have e4 := peekU16_bytes (beN 2 id ++ beN 2 w) qd (beN 2 an ++ (beN 2 ns ++ (beN 2 ar ++ body))) hqd
  have e6 := peekU16_bytes (beN 2 id ++ (beN 2 w ++ beN 2 qd)) an (beN 2 ns ++ (beN 2 ar ++ body)) han
  have e8 := peekU16_bytes (beN 2 id ++ (beN 2 w ++ (beN 2 qd ++ beN 2 an))) ns (beN 2 ar ++ body) hns
  have e10 := peekU16_bytes (beN 2 id ++ (beN 2 w ++ (beN 2 qd ++ (beN 2 an ++ beN 2 ns)))) ar body har
  simp only [List.length_append, beN_length, List.length_nil, List.nil_append,
    List.append_assoc] at e0 e2 e4 e6 e8 e10
  simp only [hdrBytes, List.append_assoc, Peek.id, Peek.questions, Peek.answers, Peek.nameServers,
    Peek.additional, Peek.opcode, Peek.rcode, Peek.hasFlags]
  refine ⟨e0, e4, e6, e8, e10, ?_, ?_, ?_⟩
  · rw [e2]; simp [h2]
  · rw [e2]; simp [h3]
  · intro f; rw [e2]; simp [h4]

/-! ### flag algebra: all 128 × 128 pairs of flag sets -/

/-- the `i`-th subset of the seven flags (bit `k` of `i` selects the `k`-th flag) -/
def flagSet (i : Nat) : Nat :=
  (i % 2) * 32768 + (i / 2 % 2) * 1024 + (i / 4 % 2) * 512 + (i / 8 % 2) * 256 +
    (i / 16 % 2) * 128 + (i / 32 % 2) * 32 + (i / 64 % 2) * 16

/-- set, remove and test act bit-wise on the named flags only (`a ⊆ b` is `a &&& b = a`):
after `set b` exactly the flags of `a ∪ b` are present, after `remove b` exactly those of `a \ b`,
and no bit outside the seven flag positions is ever produced -/
def AlgebraOK (a b : Nat) : Prop :=
  (flagSet a ||| flagSet b) = flagSet (a ||| b) ∧
  (flagSet a &&& (Mask.ALLFLAGS ^^^ flagSet b)) = flagSet (a &&& (127 ^^^ b)) ∧
  ((flagSet a &&& flagSet b == flagSet b) = (a &&& b == b)) ∧
  flagSet a &&& Mask.ALLFLAGS = flagSet a

instance (a b : Nat) : Decidable (AlgebraOK a b) := by unfold AlgebraOK; infer_instance

theorem flags_algebra_table : ∀ a < 128, ∀ b < 128, AlgebraOK a b := by decide +kernel

/-- **Flag algebra.** For all flag sets `a` (current) and `b` (argument), as subsets of the seven
flags: `set_flags`, `remove_flags`, `has_flags` are union, difference and inclusion, and id, opcode
and response code are untouched. -/
theorem flags_algebra (h : Header) (a b : Nat) (ha : a < 128) (hb : b < 128)
    (hf : h.flags = flagSet a) :
    (h.setFlags (flagSet b)).flags = flagSet (a ||| b) ∧
    (h.removeFlags (flagSet b)).flags = flagSet (a &&& (127 ^^^ b)) ∧
    h.hasFlags (flagSet b) = (a &&& b == b) ∧
    (h.setFlags (flagSet b)).opcode = h.opcode ∧ (h.setFlags (flagSet b)).rcode = h.rcode ∧
    (h.setFlags (flagSet b)).id = h.id ∧
    (h.removeFlags (flagSet b)).opcode = h.opcode ∧ (h.removeFlags (flagSet b)).rcode = h.rcode ∧
    (h.removeFlags (flagSet b)).id = h.id := by
  obtain ⟨h1, h2, h3, _⟩ := flags_algebra_table a ha b hb
  simp [Header.setFlags, Header.removeFlags, Header.hasFlags, hf, h1, h2, h3]

/-! ### build side: every named opcode × response code × flag subset -/

def allOpcodes : List OPCODE :=
  [.StandardQuery, .InverseQuery, .ServerStatusRequest, .Notify, .Update, .Reserved]
def allRcodes : List RCODE :=
  [.NoError, .FormatError, .ServerFailure, .NameError, .NotImplemented, .Refused, .YXDOMAIN,
   .YXRRSET, .NXRRSET, .NOTAUTH, .NOTZONE, .BADVERS, .Reserved]

theorem allOpcodes_complete (o : OPCODE) : o ∈ allOpcodes := by cases o <;> simp [allOpcodes]
theorem allRcodes_complete (r : RCODE) : r ∈ allRcodes := by cases r <;> simp [allRcodes]

/-- the word written for (opcode, rcode, flag subset): the RFC composition, Z clear, and it reads
back to the same opcode, the same low four bits of the response code and the same flags -/
def BuildOK (o : OPCODE) (r : RCODE) (i : Nat) : Prop :=
  let h : Header := { id := 0, opcode := o, rcode := r, flags := flagSet i, opt := none }
  let w := h.getFlags
  w < 65536 ∧ Spec.Z w = 0 ∧ Spec.OPCODE w = o.toCode ∧ Spec.RCODE w = r.toCode % 16 ∧
  Spec.flagBits w = flagSet i ∧ OPCODE.ofCode (Spec.OPCODE w) = o

instance (o : OPCODE) (r : RCODE) (i : Nat) : Decidable (BuildOK o r i) := by
  unfold BuildOK; infer_instance

theorem build_table : ∀ o ∈ allOpcodes, ∀ r ∈ allRcodes, ∀ i < 128, BuildOK o r i := by
  decide +kernel

/-- **Round trip of the header.** Every header with a named opcode, any response code and any
subset of the flags is written to the RFC bit positions and parses back to the same id, flags and
opcode; the response code comes back as the code denoted by its low four bits (the upper bits
travel in the OPT record, C09). -/
theorem header_roundtrip (h : Header) (i qd an ns ar : Nat) (hi : i < 128)
    (hf : h.flags = flagSet i) (hid : h.id < 65536) :
    Header.parse (h.write qd an ns ar) =
      .ok { id := h.id, opcode := h.opcode, rcode := RCODE.ofCode (h.rcode.toCode % 16),
            flags := h.flags, opt := none } ∧
    Spec.OPCODE h.getFlags = h.opcode.toCode ∧ Spec.RCODE h.getFlags = h.rcode.toCode % 16 ∧
    Spec.flagBits h.getFlags = h.flags := by
  have hb := build_table h.opcode (allOpcodes_complete _) h.rcode (allRcodes_complete _) i hi
  have hw : h.getFlags =
      ({ id := 0, opcode := h.opcode, rcode := h.rcode, flags := flagSet i, opt := none } :
        Header).getFlags := by simp [Header.getFlags, hf]
  simp only [BuildOK] at hb
  rw [← hw] at hb
  obtain ⟨h1, h2, h3, h4, h5, h6⟩ := hb
  refine ⟨?_, h3, h4, by rw [h5, hf]⟩
  unfold Header.write
  rw [header_layout h.id h.getFlags _ hid h1 (by simp) h2, h6, h4, h5, hf]

example : ({ id := 7, opcode := .Update, rcode := .Refused, flags := flagSet 0x45, opt := none } :
    Header).flags = flagSet 0x45 := rfl

end Dns
