/-
C03 — Name compression is transparent: a well-formed packet serialised with
compression parses back to the same packet, hence to the same packet as its
plain serialisation, and is never longer. No bound on the message size: the
suffix table only records offsets a 14-bit pointer can hold, later names are
written in full.

The invariant behind it (`TInv`, `Lemmas/RoundTripA.lean`): every entry
`(suffix, off)` of the suffix table is non-empty, has `off ≤ 0x3FFF`, and
`suffix` is completely encoded at `off` in the bytes already written, with
pointers only going strictly backwards (`Enc`).
-/
import SimpleDnsModel.Props.C02
namespace Dns

/-- **Transparency.** -/
theorem compressed_transparent (p : Packet) (h : p.WF) :
    ∃ b, p.buildCompressed = .ok b ∧ Packet.parse b = .ok p := by
  obtain ⟨b, hb, hp, _⟩ := Packet.buildG_parse true p h
  exact ⟨b, hb, hp⟩

/-- **Same reading as the plain message, and never longer.** -/
theorem compressed_same_as_plain (p : Packet) (h : p.WF) :
    ∃ b c, p.build = .ok b ∧ p.buildCompressed = .ok c ∧ Packet.parse c = Packet.parse b ∧
      c.length ≤ b.length := by
  obtain ⟨c, hc, hpc, b, hb, hle⟩ := Packet.buildG_parse true p h
  obtain ⟨b', hb', hpb⟩ := build_parse p h
  rw [hb] at hb'
  cases hb'
  exact ⟨b, c, hb, hc, by rw [hpc, hpb], hle⟩

/-! ### components -/

/-- **`Name::compress_append`.** Writing `n` at offset `out.length` against a table that satisfies
the invariant for the bytes `out` written so far appends an encoding of `n` (`Enc`: labels and at
most one final, strictly backward pointer chain) whose in-place part ends with the appended bytes,
re-establishes the invariant for the longer prefix, and appends at least one byte and at most as
many as the plain encoding. -/
theorem compress_append_spec (n : Name) (t : Table) (out : Bytes)
    (hn : ∀ l ∈ n, 1 ≤ l.length ∧ l.length ≤ 63) (hinv : TInv out t) :
    let r := compressName n out.length t
    Enc (out ++ r.1) out.length n ∧
    InPlaceEnd (out ++ r.1) out.length (out.length + r.1.length) ∧
    TInv (out ++ r.1) r.2 ∧
    1 ≤ r.1.length ∧ r.1.length ≤ (Name.write n).length := by
  have h := compressName_spec n out.length t out hn rfl hinv
  rw [Name.write_length]
  exact ⟨h.enc, h.fin, h.inv, h.pos, h.le⟩

/-- a compressed name parses back, whatever follows it -/
theorem compressed_name_roundtrip (n : Name) (hn : Name.WF n) (t : Table) (out post : Bytes)
    (hinv : TInv out t) :
    Name.parse (out ++ ((compressName n out.length t).1 ++ post)) out.length
      = .ok (n, out.length + (compressName n out.length t).1.length) :=
  (compressName_spec n out.length t out hn.1 rfl hinv).parse hn.2 post

/-- a pointer to an offset of at most 14 bits is the two bytes `11pppppp pppppppp` -/
theorem pointer_bytes (p : Nat) (h : p ≤ 0x3FFF) :
    beN 2 (p ||| 0xC000) = [UInt8.ofNat (192 + p / 256), UInt8.ofNat (p % 256)] := ptr_bytes p h

/-- **Records under compression**: the record written by `write_compressed_to` at the end of a
prefix `out` whose table satisfies the invariant parses back, leaves the invariant in place, and is
no longer than the plain record. -/
theorem compressed_record_roundtrip (r : RR) (h : r.WF) (t : Table) (out post : Bytes)
    (hinv : TInv out t) :
    ∃ b t', r.writeG true out.length t = .ok (b, t') ∧ TInv (out ++ b) t' ∧
      RR.parse (out ++ (b ++ post)) out.length = .ok (r, out.length + b.length) ∧
      ∃ pb, r.write = .ok pb ∧ b.length ≤ pb.length := by
  obtain ⟨b, t', hw, hs⟩ := RR.writeG_spec true r out.length t h
  have hs := hs out rfl hinv
  obtain ⟨pb, hpb, hle, _⟩ := hs.plain
  exact ⟨b, t', hw, hs.inv, hs.dec post, pb, hpb, hle⟩

/-- **Questions under compression.** -/
theorem compressed_question_roundtrip (q : Question) (h : q.WF) (t : Table) (out post : Bytes)
    (hinv : TInv out t) :
    let r := q.writeG true out.length t
    TInv (out ++ r.1) r.2 ∧
    Question.parse (out ++ (r.1 ++ post)) out.length = .ok (q, out.length + r.1.length) ∧
    r.1.length ≤ q.write.length := by
  have hs := Question.writeG_spec true q out.length t out h rfl hinv
  exact ⟨hs.inv, hs.dec post, hs.le⟩

/-- **Sections under compression.** -/
theorem compressed_section_roundtrip (rs : List RR) (h : ∀ r ∈ rs, r.WF) (t : Table)
    (out post : Bytes) (hinv : TInv out t) :
    ∃ b t', writeRRsG true rs out.length t = .ok (b, t') ∧ TInv (out ++ b) t' ∧
      parseRRs (out ++ (b ++ post)) rs.length out.length = .ok (rs, out.length + b.length) := by
  obtain ⟨b, t', hw, hs⟩ := writeRRsG_spec true rs out.length t h
  have hs := hs out rfl hinv
  exact ⟨b, t', hw, hs.inv, hs.dec post⟩

/-! ### the sample packet of C02: 397 bytes plain, 272 compressed -/

example : (do
    let b ← samplePacket.build
    let c ← samplePacket.buildCompressed
    pure (b.length, c.length)) = Out.ok (397, 272) := by
  decide +kernel

end Dns
