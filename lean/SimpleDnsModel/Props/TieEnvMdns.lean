/-
Structural tie, part 2c: simple-mdns - `ExpirationInfo::new`, what the service loops do with a failed send, escaping of
instance names, the record store, `build_reply`, what a received response adds and reports, the records an instance is
advertised with. Same scheme as `Props/TieEnv.lean`; a module of its own so that a change of the mDNS code is attributed
to the mDNS properties.
-/
import SimpleDnsModel.Generated.Envelope
import SimpleDnsModel.Model.Match
import SimpleDnsModel.Model.Pipeline
import SimpleDnsModel.Props.TieEnvDefs
namespace Dns.TieEnv
open Dns

/-! ### 8. `ExpirationInfo::new` (simple-mdns) -/

def refreshWith (shortBelow shortDiv longDiv longMul ttl : Nat) : Nat :=
  if ttl = 0 then 0 else if ttl < shortBelow then ttl / shortDiv else ttl / longDiv * longMul

theorem refresh_offset (ttl : Nat) :
    Mdns.refreshOffsetSecs ttl =
      refreshWith (Gen.Env.expShortBelow.getD 60) (Gen.Env.expShortDiv.getD 2)
        (Gen.Env.expLongDiv.getD 10) (Gen.Env.expLongMul.getD 8) ttl := rfl

/-! ### 9. the responder loops and a failed `send_to` (simple-mdns) -/

def policyOf (s : String) : Mdns.OnSendError := if s = "propagate" then .propagate else .log

/-- both flavours of `SimpleMdnsResponder::responder_loop` log a failed send and go on — the policy
`Props/C14.lean` proves harmless (`responder_loop_survives`); with `?` instead, one datagram ends
the service (`responder_loop_propagate_ends`) -/
theorem responder_send_policy :
    policyOf (Gen.Env.responderSendSync.getD "log") = Mdns.responderSendPolicy ∧
    policyOf (Gen.Env.responderSendTokio.getD "log") = Mdns.responderSendPolicy := by decide

/-! ### 11. the discovery listeners and a failed reply (simple-mdns)

The responders are not the only services that answer queries: a `ServiceDiscovery` answers for its
own instance. The sync listener sends through `send_packet`, which logs a failed `send_to`; the tokio
listener runs `process_packet` and logs its error. Either way the loop goes on
(`Props/C14.lean: responder_loop_survives` is about the same `responderIteration`). -/

theorem discovery_send_policy :
    policyOf (Gen.Env.discoverySendSync.getD "log") = Mdns.responderSendPolicy ∧
    policyOf (Gen.Env.discoverySendTokio.getD "log") = Mdns.responderSendPolicy := by decide

/-! ### 14. escaping of instance names (simple-mdns) -/

/-- `escaped_instance_name` puts a backslash before `.` and `\\`, and before nothing else;
`unescaped_instance_name` takes the character after a backslash as it is (the model:
`Mdns.escapeName`, `Mdns.unescapeName`; `Props/C15.lean` proves the round trip for them) -/
theorem escape_source :
    Gen.Env.escapePairs.all (· == [(".", "\\."), ("\\", "\\\\")]) ∧ Gen.Env.unescapeOn.all (· == "\\") := by decide

/-! ### 15b. escaping at the table read from the source -/

/-- `escaped_instance_name` over a table (character, its escaped form) -/
def escapeWith (pairs : List (Char × List Char)) : List Char → List Char
  | [] => []
  | c :: cs => (match pairs.lookup c with | some e => e | none => [c]) ++ escapeWith pairs cs

/-- `unescaped_instance_name` with the escape character -/
def unescapeWith (esc : Char) : List Char → List Char
  | [] => []
  | [c] => if c = esc then [] else [c]
  | c :: d :: cs => if c = esc then d :: unescapeWith esc cs else c :: unescapeWith esc (d :: cs)

/-- what the model is written with (used when the item is untied) -/
def modelEscapePairs : List (String × String) := [(".", "\\."), ("\\", "\\\\")]

def pairsOf (ps : List (String × String)) : List (Char × List Char) :=
  ps.filterMap (fun p => match p.1.toList with | [c] => some (c, p.2.toList) | _ => none)

def charOf (s : String) : Char := match s.toList with | [c] => c | _ => 'x'

/-- the escape table of the source, as characters -/
theorem pairs_read : pairsOf (Gen.Env.escapePairs.getD modelEscapePairs) = [('.', ['\\', '.']), ('\\', ['\\', '\\'])] := by decide
/-- the escape character `unescaped_instance_name` looks for -/
theorem esc_read : charOf (Gen.Env.unescapeOn.getD "\\") = '\\' := by decide

/-- **the model's `escapeName` is the generic escaper at the table read from `instance_information.rs`** (so a third
escaped character, or another escaped form, in the source fails this theorem or unties the item) -/
theorem escape_tied (cs : List Char) :
    Mdns.escapeName cs = escapeWith (pairsOf (Gen.Env.escapePairs.getD modelEscapePairs)) cs := by
  rw [pairs_read]
  induction cs with
  | nil => rfl
  | cons c cs ih =>
    by_cases h1 : c = '.'
    · subst h1; simp [escapeWith, Mdns.escapeName, List.lookup, ih]
    · by_cases h2 : c = '\\'
      · subst h2; simp [escapeWith, Mdns.escapeName, List.lookup, ih]
      · have e : Mdns.escapeName (c :: cs) = c :: Mdns.escapeName cs := by
          rw [Mdns.escapeName]
          · intro h; exact h1 h
          · intro h; exact h2 h
        have l : List.lookup c [('.', ['\\', '.']), ('\\', ['\\', '\\'])] = none := by
          have b1 : (c == '.') = false := by simpa using h1
          have b2 : (c == '\\') = false := by simpa using h2
          simp [List.lookup, b1, b2]
        rw [e, ih]
        simp [escapeWith, l]

/-- the model's `unescapeName` is the generic unescaper at the escape character read from the source -/
theorem unescape_tied (cs : List Char) :
    Mdns.unescapeName cs = unescapeWith (charOf (Gen.Env.unescapeOn.getD "\\")) cs := by
  rw [esc_read]
  fun_induction Mdns.unescapeName cs with
  | case1 => rfl
  | case2 => rfl
  | case3 c cs ih => simp [unescapeWith, ih]
  | case4 c cs h1 h2 ih =>
    rw [ih]
    cases cs with
    | nil =>
      have hc : c ≠ '\\' := fun h => h1 h rfl
      simp [unescapeWith, hc]
    | cons d ds =>
      have hc : c ≠ '\\' := fun h => h2 d ds h rfl
      simp [unescapeWith, hc]

/-! ### 18. the record store and `build_reply` (simple-mdns) -/

/-- `add_cached_resource` with the lifetime of a cache-flush record and the treatment of a record the
store already holds as authoritative as parameters -/
def addCachedWith (flushTtl : Nat) (guard : String) (s : Mdns.Store) (r : RR) (now : Nat) : Mdns.Store :=
  let k := Mdns.getKey r.name
  let ttl := if r.flush then flushTtl else r.ttl
  let b := (s.bucket k).getD []
  let put := s.setBucket k (b.insert r (.cached (now + 1000 * ttl) (now + 1000 * Mdns.refreshOffsetSecs ttl)))
  if guard = "unless-authoritative" then
    match b.get r with
    | some .auth => s
    | _ => put
  else put

/-- **`add_cached_resource` is the model's `addCached`**: a cache-flush record lives `1` second and a
record registered locally is left alone, as the source has them (`{2}` for the flush lifetime, or the
guard dropped, regenerates other values and this fails) -/
theorem store_add_source (s : Mdns.Store) (r : RR) (now : Nat) :
    s.addCached r now =
      addCachedWith (Gen.Env.storeFlushTtl.getD 1) (Gen.Env.storeCachedGuard.getD "unless-authoritative") s r now := by
  have h1 : Gen.Env.storeFlushTtl.getD 1 = 1 := by decide
  have h2 : Gen.Env.storeCachedGuard.getD "unless-authoritative" = "unless-authoritative" := by decide
  rw [h1, h2]
  simp only [Mdns.Store.addCached, addCachedWith, if_true]
  split <;> simp_all

/-- the key shape the extractor recognises is the one `getKey` is written with: labels from the root
down, each behind its length octet -/
theorem store_key_shape : Gen.Env.storeKeyShape.getD "root-first-length-prefixed" = "root-first-length-prefixed" ∧
    Mdns.getKey [[97], [98, 99]] = [2, 98, 99, 1, 97] := by decide

def flagOf (param : Bool) (s : String) : Bool := if s = "param" then param else s = "true"

/-- a `DomainResourceFilter` constructor, from its three field initialisers -/
def filterOf (spec : List String) (param : Bool) : Mdns.Filter :=
  ⟨flagOf param (spec.getD 0 ""), flagOf param (spec.getD 1 ""), flagOf param (spec.getD 2 "")⟩

def modelFilterCtors : List (String × List String) :=
  [("authoritative", ["param", "true", "false"]), ("cached", ["true", "false", "true"]), ("all", ["true", "true", "true"])]


def fieldOf (name : String) (f : Mdns.Filter) : Bool :=
  if name = "authoritative" then f.authoritative else if name = "cached" then f.cached else f.subdomain

/-- `match_filter` by what it consults -/
def matchesWith (spec : List String) (f : Mdns.Filter) (k : Mdns.Kind) (now : Nat) : Bool :=
  match k with
  | .auth => fieldOf (spec.getD 0 "") f
  | .cached e r => fieldOf (spec.getD 1 "") f &&
      cmpOf (spec.getD 3 "") (if spec.getD 2 "" = "expire_at" then e else r) now

/-- `should_refresh` by what it consults -/
def shouldRefreshWith (spec : List String) (k : Mdns.Kind) (now : Nat) : Bool :=
  match k with
  | .auth => spec.getD 0 "" = "true"
  | .cached e r => cmpOf (spec.getD 2 "") (if spec.getD 1 "" = "refresh_at" then r else e) now

/-- **the filters of the store are the model's**: the three constructors field by field, which field
`match_filter` consults for which kind of record and that a cached record counts while
`expire_at > now`, that a refresh is due once `refresh_at < now`, and that `get_next_refresh` takes the
minimum of the refresh instants (`>=` for `>`, `expire_at` for `refresh_at`, `cached: false` in
`all()` - each regenerates another value and this fails) -/
theorem store_filter_source (sub : Bool) (f : Mdns.Filter) (k : Mdns.Kind) (now : Nat) :
    let ctors := Gen.Env.storeFilterCtors.getD modelFilterCtors
    Mdns.Filter.auth sub = filterOf ((ctors.lookup "authoritative").getD []) sub ∧
    Mdns.Filter.cachedOnly = filterOf ((ctors.lookup "cached").getD []) sub ∧
    Mdns.Filter.all = filterOf ((ctors.lookup "all").getD []) sub ∧
    f.matches k now = matchesWith (Gen.Env.storeMatchFilter.getD ["authoritative", "cached", "expire_at", ">"]) f k now ∧
    k.shouldRefresh now = shouldRefreshWith (Gen.Env.storeShouldRefresh.getD ["false", "refresh_at", "<"]) k now ∧
    Gen.Env.storeNextRefresh.getD ["refresh_at", "min"] = ["refresh_at", "min"] := by
  have h1 : Gen.Env.storeFilterCtors.getD modelFilterCtors = modelFilterCtors := by decide
  have h2 : Gen.Env.storeMatchFilter.getD ["authoritative", "cached", "expire_at", ">"] = ["authoritative", "cached", "expire_at", ">"] := by decide
  have h3 : Gen.Env.storeShouldRefresh.getD ["false", "refresh_at", "<"] = ["false", "refresh_at", "<"] := by decide
  have h4 : Gen.Env.storeNextRefresh.getD ["refresh_at", "min"] = ["refresh_at", "min"] := by decide
  simp only [h1, h2, h3, h4]
  refine ⟨?_, ?_, ?_, ?_, ?_, trivial⟩
  · cases sub <;> decide
  · cases sub <;> decide
  · cases sub <;> decide
  · cases k <;> simp [Mdns.Filter.matches, matchesWith, fieldOf, cmpOf]
  · cases k <;> simp [Mdns.Kind.shouldRefresh, shouldRefreshWith, cmpOf]

/-- `get_domain_resources` by its three decisions: the sub-trie at the key when subdomains are asked
for, the bucket of the key otherwise, groups left empty by the filter dropped -/
def getDomainWith (spec : List String) (s : Mdns.Store) (name : Name) (f : Mdns.Filter) (now : Nat) : List (List RR) :=
  let k := Mdns.getKey name
  let pick (b : Mdns.Bucket) : List RR := (b.filter (fun e => f.matches e.2 now)).map (·.1)
  let whole := if s.nodeExists k then (s.entries.filter (fun e => Mdns.isPrefixOf k e.1)).map (fun e => pick e.2) else []
  let exact := match s.bucket k with
    | some b => [pick b]
    | none => []
  let found := if f.subdomain then (if spec.getD 0 "" = "subtrie-when-subdomain" then whole else exact)
               else (if spec.getD 1 "" = "get-otherwise" then exact else whole)
  if spec.getD 2 "" = "drop-empty-groups" then found.filter (fun g => !g.isEmpty) else found

theorem store_lookup_source (s : Mdns.Store) (name : Name) (f : Mdns.Filter) (now : Nat) :
    s.getDomain name f now =
      getDomainWith (Gen.Env.storeLookup.getD ["subtrie-when-subdomain", "get-otherwise", "drop-empty-groups"]) s name f now := by
  have h : Gen.Env.storeLookup.getD ["subtrie-when-subdomain", "get-otherwise", "drop-empty-groups"] =
      ["subtrie-when-subdomain", "get-otherwise", "drop-empty-groups"] := by decide
  rw [h]
  simp only [Mdns.Store.getDomain, getDomainWith]
  cases f.subdomain
  · simp only [Bool.false_eq_true, if_false, if_true, List.getD_cons_zero, List.getD_cons_succ]
    cases s.bucket (Mdns.getKey name) <;> rfl
  · simp

def typeNamed (s : String) : TYPE :=
  if s = "A" then .A else if s = "AAAA" then .AAAA else if s = "SRV" then .SRV else if s = "TXT" then .TXT
  else if s = "PTR" then .PTR else .Unknown 0

/-- answers and additional records for one question, with the two look-up modes and the types of the
additional records as parameters -/
def answersForWith (ansSub tgtSub : Bool) (types : List String) (s : Mdns.Store) (q : Question) (now : Nat) :
    List RR × List RR :=
  let answers := ((s.getDomain q.name (Mdns.Filter.auth ansSub) now).flatten).filter
    (fun r => r.matchQClass q.qclass && r.matchQType q.qtype)
  let extra := answers.flatMap (fun a =>
    match Mdns.srvTarget a.rdata with
    | some t => ((s.getDomain t (Mdns.Filter.auth tgtSub) now).flatten).filter (fun r =>
        types.any (fun ty => r.matchQType (.TYPE (typeNamed ty))) && r.matchQClass q.qclass)
    | none => [])
  (answers, extra)

/-- **`build_reply` collects what the model collects**: answers from the question's name and
everything below it, among authoritative records, by class and type; for an SRV answer the address
records (A, AAAA) of exactly its target, of the question's class (`authoritative(false)` for the
answers, a third type among the additional records, or the class test dropped: other values, and
this fails or the item is untied) -/
theorem build_reply_source (s : Mdns.Store) (q : Question) (now : Nat) :
    Mdns.answersFor s q now =
      answersForWith (Gen.Env.replyAnswerSub.getD "true" = "true") (Gen.Env.replyTargetSub.getD "false" = "true")
        (Gen.Env.replyAdditionalTypes.getD ["A", "AAAA"]) s q now := by
  have h1 : Gen.Env.replyAnswerSub.getD "true" = "true" := by decide
  have h2 : Gen.Env.replyTargetSub.getD "false" = "false" := by decide
  have h3 : Gen.Env.replyAdditionalTypes.getD ["A", "AAAA"] = ["A", "AAAA"] := by decide
  rw [h1, h2, h3]
  simp only [Mdns.answersFor, answersForWith, typeNamed, List.any_cons, List.any_nil, Bool.or_false,
    if_true, if_false, decide_true, decide_false, (by decide : ("false" = "true") = False),
    (by decide : ("AAAA" = "A") = False)]
  congr 1

/-! ### 19. what a received response adds and reports (simple-mdns) -/

def sectionNamed (p : Packet) (s : String) : List RR :=
  if s = "answers" then p.answers else if s = "additional_records" then p.additional
  else if s = "name_servers" then p.nameServers else []

/-- the records `add_response_to_resources` keeps, by the sections it reads and the conditions it asks -/
def ingestRecordsWith (sections conds : List String) (p : Packet) (service full : Name) : List RR :=
  (sections.flatMap (sectionNamed p)).filter (fun r =>
    (!conds.contains "not-the-own-name" || r.name != full) &&
    (!conds.contains "below-the-service" || r.name.isSubdomainOf service))

def modelIngestSections : List String := ["answers", "additional_records"]
def modelIngestFilter : List String := ["below-the-service", "not-the-own-name"]

/-- **both flavours of `add_response_to_resources` keep what the model keeps**: answers then
additional records, not the discoverer's own instance, and only names below the watched service (a
flavour that also reads the authority section, or drops one of the two conditions, regenerates other
values and this fails) -/
theorem ingest_source (p : Packet) (service full : Name) :
    ∀ k < 2, Mdns.ingestRecords p service full =
      ingestRecordsWith ((Gen.Env.ingestSections.getD k none).getD modelIngestSections)
        ((Gen.Env.ingestFilter.getD k none).getD modelIngestFilter) p service full := by
  have h : ∀ k < 2, (Gen.Env.ingestSections.getD k none).getD modelIngestSections = modelIngestSections ∧
      (Gen.Env.ingestFilter.getD k none).getD modelIngestFilter = modelIngestFilter := by decide
  intro k hk
  rw [(h k hk).1, (h k hk).2]
  simp [Mdns.ingestRecords, ingestRecordsWith, modelIngestSections, modelIngestFilter, sectionNamed]

/-- what one record contributes to an `InstanceInformation`, by the arms of `from_records` -/
def contributes (arms : List (String × String)) (i : Mdns.Instance) (r : RR) : Mdns.Instance :=
  match r.rdata with
  | .flat 1 [.int a] => if arms.lookup "A" = some "ipv4" then { i with ips := Mdns.insertNew i.ips (false, a) } else i
  | .flat 28 [.int a] => if arms.lookup "AAAA" = some "ipv6" then { i with ips := Mdns.insertNew i.ips (true, a) } else i
  | .flat 16 [.strs ss] =>
    if arms.lookup "TXT" = some "attributes-with-a-key" then
      { i with attrs := Mdns.attrsExtend i.attrs ((Txt.attributes ss).filter (fun e => !e.1.isEmpty)) }
    else if arms.lookup "TXT" = some "attributes" then
      { i with attrs := Mdns.attrsExtend i.attrs (Txt.attributes ss) }
    else i
  | .flat 33 [_, _, .int port, _] => if arms.lookup "SRV" = some "port" then { i with ports := Mdns.insertNew i.ports port } else i
  | _ => i

def fromRecordsWith (arms : List (String × String)) (service : Name) (records : List RR) : Option Mdns.Instance :=
  let name := records.findSome? (fun r => r.name.without service)
  let inst : Mdns.Instance := records.foldl (contributes arms) { name := [], ips := [], ports := [], attrs := [] }
  name.map (fun n => { inst with name := Name.display n })

def modelFromRecordsArms : List (String × String) :=
  [("A", "ipv4"), ("AAAA", "ipv6"), ("TXT", "attributes-with-a-key"), ("SRV", "port")]

/-- the model's `fromRecords` is the generic function at the arms the model is written with -/
theorem from_records_model (service : Name) (records : List RR) :
    Mdns.fromRecords service records = fromRecordsWith modelFromRecordsArms service records := by
  have hc : ∀ (i : Mdns.Instance) (r : RR), contributes modelFromRecordsArms i r =
      (match r.rdata with
        | .flat 1 [.int a] => { i with ips := Mdns.insertNew i.ips (false, a) }
        | .flat 28 [.int a] => { i with ips := Mdns.insertNew i.ips (true, a) }
        | .flat 16 [.strs ss] =>
          { i with attrs := Mdns.attrsExtend i.attrs ((Txt.attributes ss).filter (fun e => !e.1.isEmpty)) }
        | .flat 33 [_, _, .int port, _] => { i with ports := Mdns.insertNew i.ports port }
        | _ => i) := by
    intro i r
    unfold contributes
    split <;> simp [modelFromRecordsArms, List.lookup]
  simp only [Mdns.fromRecords, fromRecordsWith]
  congr 2
  first
    | done
    | (funext i r; exact (hc i r).symm)

/-- **`InstanceInformation::from_records` is the model's `fromRecords`**: A and AAAA records give
addresses, SRV records ports, TXT records their attributes except those with an empty key, anything
else nothing (an arm removed, or the empty-key filter dropped, regenerates other values and this
fails; the order in which the source lists its arms does not matter: each is looked up by its type) -/
theorem from_records_source (service : Name) (records : List RR) :
    Mdns.fromRecords service records =
      fromRecordsWith (Gen.Env.fromRecordsArms.getD modelFromRecordsArms) service records := by
  have a1 : (Gen.Env.fromRecordsArms.getD modelFromRecordsArms).lookup "A" = some "ipv4" := by decide
  have a2 : (Gen.Env.fromRecordsArms.getD modelFromRecordsArms).lookup "AAAA" = some "ipv6" := by decide
  have a3 : (Gen.Env.fromRecordsArms.getD modelFromRecordsArms).lookup "TXT" = some "attributes-with-a-key" := by decide
  have a4 : (Gen.Env.fromRecordsArms.getD modelFromRecordsArms).lookup "SRV" = some "port" := by decide
  generalize Gen.Env.fromRecordsArms.getD modelFromRecordsArms = arms at a1 a2 a3 a4
  have hsame : contributes arms = contributes modelFromRecordsArms := by
    funext i r
    unfold contributes
    split <;> simp [a1, a2, a3, a4, modelFromRecordsArms, List.lookup]
  rw [from_records_model]
  simp only [fromRecordsWith, hsame]

/-! ### 20. the records an instance is advertised with (simple-mdns) -/

def classNamed (s : String) : CLASS :=
  if s = "IN" then .IN else if s = "CH" then .CH else if s = "HS" then .HS else if s = "CS" then .CS else .NONE

def addrCode (s : String) : Nat := if s = "A" then 1 else if s = "AAAA" then 28 else 0

/-- `InstanceInformation::into_records` by the order of its groups and by what the constructors of
`conversion_utils.rs` put into the records -/
def intoRecordsWith (order v4 v6 : List String) (srv : String × Nat × Nat) (txtClass : String)
    (full : Name) (ips : List (Bool × Nat)) (ports : List Nat) (attrs : Attrs) (ttl : Nat) : Out (List RR) :=
  match Txt.ofMap attrs with
  | .ok ss =>
    let mk (c : String) (rd : RData) : RR := { name := full, cls := classNamed c, ttl := ttl, rdata := rd, flush := false }
    let group (g : String) : List RR :=
      if g = "addresses" then ips.map (fun ip =>
        if ip.1 then mk (v6.getD 1 "") (.flat (addrCode (v6.getD 0 "")) [.int ip.2])
        else mk (v4.getD 1 "") (.flat (addrCode (v4.getD 0 "")) [.int ip.2]))
      else if g = "ports" then ports.map (fun p => mk srv.1 (.flat 33 [.int srv.2.1, .int srv.2.2, .int p, .name full]))
      else if g = "attributes" then [mk txtClass (.flat 16 [.strs ss])]
      else []
    .ok (order.flatMap group)
  | .err => .err
  | .panic => .panic

/-- **an instance is advertised with the records the model builds**: address records (A for IPv4,
AAAA for IPv6), then one SRV record per port with priority 0, weight 0 and the instance's own name
as target, then one TXT record; all of class IN, owned by the instance's full name (another order,
another class, `weight: 1`: other values, and this fails) -/
theorem into_records_source (full : Name) (ips : List (Bool × Nat)) (ports : List Nat) (attrs : Attrs) (ttl : Nat) :
    Mdns.intoRecords full ips ports attrs ttl =
      intoRecordsWith (Gen.Env.intoRecordsOrder.getD ["addresses", "ports", "attributes"])
        (Gen.Env.intoRecordsV4.getD ["A", "IN"]) (Gen.Env.intoRecordsV6.getD ["AAAA", "IN"])
        (Gen.Env.intoRecordsSrv.getD ("IN", 0, 0)) (Gen.Env.intoRecordsTxtClass.getD "IN") full ips ports attrs ttl := by
  have h1 : Gen.Env.intoRecordsOrder.getD ["addresses", "ports", "attributes"] = ["addresses", "ports", "attributes"] := by decide
  have h2 : Gen.Env.intoRecordsV4.getD ["A", "IN"] = ["A", "IN"] := by decide
  have h3 : Gen.Env.intoRecordsV6.getD ["AAAA", "IN"] = ["AAAA", "IN"] := by decide
  have h4 : Gen.Env.intoRecordsSrv.getD ("IN", 0, 0) = ("IN", 0, 0) := by decide
  have h5 : Gen.Env.intoRecordsTxtClass.getD "IN" = "IN" := by decide
  rw [h1, h2, h3, h4, h5]
  unfold Mdns.intoRecords intoRecordsWith
  cases Txt.ofMap attrs <;> simp [bind, pure, Out.bind, classNamed, addrCode]

/-! ### 24. the receive buffers of the service loops; a reply that cannot be serialised -/

/-- **every service loop receives into a buffer of 9000 bytes** - the size `Props/C14Fits.lean` reasons
with (`questions_le_9000`, `replyFits_9000`) and the largest multicast DNS message of RFC 6762 section 17:
a query or an announcement up to that size is read whole (a loop that reads into 1472 bytes cuts a
larger datagram short, `Packet::parse` refuses the rest, and nothing is answered or learnt) - **and a
reply the serialiser refuses is logged and skipped** by both responder loops, like a failed send
(`responder_send_policy`): one query for an unserialisable record does not end the service -/
theorem service_shape_source :
    (Gen.Env.serviceBuffers.getD [9000, 9000, 9000, 9000]).all (· ≥ 9000) = true ∧
    (Gen.Env.serviceBuffers.getD [9000, 9000, 9000, 9000]).length = 4 ∧
    (Gen.Env.responderBuildPolicy.getD ["log", "log"]).map policyOf = [Mdns.responderSendPolicy, Mdns.responderSendPolicy] := by decide

end Dns.TieEnv
