/-
C15 (continued) — advertised service instances are discovered faithfully: several peers,
re-announcement, goodbye, changed data, foreign records riding along.

`Props/C15.lean` proves faithful discovery for ONE announcement into the store a listener starts
from. Here the store is arbitrary (invariant + a trie node at the service's key) and responses
follow one another.

 0. `get_known_services` bucket by bucket (`known_eq_knownOf`), one bucket singled out up to the
    order of the instances (`known_frame`, `known_setBucket`), congruence (`known_setBucket_congr`).
 1. `Bucket.insertAll_eq`, `foldl_addCached_insertAll`: caching a run of records of one owner,
    whatever the bucket held before, in closed form.
 2./3. `known_one_reception`: one record set of one owner into any store whose bucket for that
    owner holds no cache entry (`KeyFree`) and where the records are not registered locally
    (`NotAuth`).
 4. ITEM 1: `known_after_announce_any`, `mem_known_after_announce_any`,
    `length_known_after_announce_any`, `discovery_faithful_any_store` (end to end, on datagrams),
    `announce_on_the_wire`; with the order of the result: `known_after_announce_new_key`
    (section 13).
 5. `foldl_addCached_twice`, `known_two_receptions`: two record sets for one owner, in general.
 6./7. `known_last_reception_counts`, `known_reception_time_congr`, `known_setBucket_of_nil`.
 8. ITEMS 2 and 3 for announcements: `last_announcement_counts`, `known_reannounce`,
    `reannounce_idempotent`, `reannounce_extends`, `goodbye_then_announce`, `goodbye_removes`.
    The goodbye here is the RFC 6762 one (records with TTL 0). The library's OWN goodbye
    (`remove_service_from_discovery` = `announce(true)`: cache-flush bit, TTL kept) is NOT this
    packet; the listener keeps the instance one more second: `Props/C15Audit.lean`, section 3.
 9. ITEM 2, changed data: `known_changed_data` (what the MODEL reports: `mergedInstance`), and
    its four time windows `changed_data_union`, `changed_data_after_first_expired`,
    `changed_data_after_second_expired`, `changed_data_both_expired`; as sets:
    `changed_data_union_sets` (section 13). The model's bucket is an insertion-ordered list; Rust's
    is a `HashMap` iterated in hasher order. Address and port SETS and attribute KEYS do not depend
    on that order; the VALUE of an attribute key that the old and the new TXT record give
    differently does ("new overwrites old" is the model's order; Rust reports either). The
    order-independent statements are in `Props/C15Audit.lean`, section 1.
10. ITEM 4: `ingest_dropForeign`, `known_dropForeign`, `ingest_remove_foreign`,
    `ingest_announce_with_foreign`, `known_after_response_of_instance` (for a response whose kept
    records are the LIST `instRecords …`: each record once, in that order; the library's own
    `announce(false)` repeats the address records in `additional` and sends in `HashMap` order:
    `Props/C15Audit.lean`, section 4).
11./12. several peers: `known_several_peers`, `several_peers_from_start`
    (`discoveryInit_ownerFree`, `known_of_ownOnly`).
14. concrete values (`C15MultiEx`): every hypothesis is satisfiable; evaluation of the model on the
    same scenarios; and the trie-node hypothesis cannot be dropped.

Times: every statement holds for arbitrary reception times `t1`, `t2` (the order of the two
`ingest` calls is what matters, not the clock values) and arbitrary query time `now'`.
-/
import SimpleDnsModel.Props.C15Reports
import SimpleDnsModel.Props.C20More
namespace Dns.Mdns

/-! ### 0. `get_known_services` bucket by bucket -/

/-- the records of a bucket that `get_domain_resources(.., cached())` returns at time `now` -/
def livePick (now : Nat) (b : Bucket) : List RR :=
  (b.filter (fun e => Filter.cachedOnly.matches e.2 now)).map (·.1)

/-- what `get_known_services` makes of one bucket: nothing if no cache entry of the bucket is alive
at `now`, else `from_records` of the live records in bucket order -/
def bucketInstance (service : Name) (now : Nat) (b : Bucket) : Option Instance :=
  if (livePick now b).isEmpty then none else fromRecords service (livePick now b)

/-- `get_known_services` on a list of (key, bucket) entries: the buckets whose key extends the
service's key, in order, each turned into an instance -/
def knownOf (l : List (Key × Bucket)) (service : Name) (now : Nat) : List Instance :=
  (l.filter (fun e => isPrefixOf (getKey service) e.1)).filterMap
    (fun e => bucketInstance service now e.2)

/-- dropping the empty groups and then mapping `from_records` over the rest (the loop of `get_known_services`), entry by entry -/
theorem filterMap_nonempty_map {α β γ : Type} (l : List α) (g : α → List β)
    (F : List β → Option γ) :
    ((l.map g).filter (fun x => !x.isEmpty)).filterMap F =
      l.filterMap (fun a => if (g a).isEmpty then none else F (g a)) := by
  induction l with
  | nil => rfl
  | cons a as ih =>
    simp only [List.map_cons, List.filter_cons, List.filterMap_cons]
    cases h : (g a).isEmpty
    · simp only [Bool.not_false, if_true, List.filterMap_cons, Bool.false_eq_true, if_false, ih]
    · simp only [Bool.not_true, Bool.false_eq_true, if_false, if_true, ih]

/-- **`get_known_services`, bucket by bucket.** If the trie has a node at the service's key, every
bucket at or below it contributes at most one instance, in trie order; without such a node the
answer is empty. -/
theorem known_eq_knownOf (s : Store) (service : Name) (now : Nat) :
    known s service now =
      if s.nodeExists (getKey service) = true then knownOf s.entries service now else [] := by
  unfold known Store.getDomain knownOf
  simp only [Filter.cachedOnly, if_true]
  split
  · rw [filterMap_nonempty_map]; rfl
  · rfl

/-- no buckets, no instances -/
theorem knownOf_nil (service : Name) (now : Nat) : knownOf [] service now = [] := rfl

/-- the contribution of one (key, bucket) entry to `get_known_services` -/
def contrib (service : Name) (now : Nat) (k : Key) (b : Bucket) : List Instance :=
  if isPrefixOf (getKey service) k = true then (bucketInstance service now b).toList else []

/-- `get_known_services` visits the buckets one by one -/
theorem knownOf_cons (e : Key × Bucket) (l : List (Key × Bucket)) (service : Name) (now : Nat) :
    knownOf (e :: l) service now = contrib service now e.1 e.2 ++ knownOf l service now := by
  unfold knownOf contrib
  simp only [List.filter_cons]
  split
  · simp only [List.filterMap_cons]
    cases bucketInstance service now e.2 <;> rfl
  · rfl

/-- `get_known_services` over two runs of buckets -/
theorem knownOf_append (l1 l2 : List (Key × Bucket)) (service : Name) (now : Nat) :
    knownOf (l1 ++ l2) service now = knownOf l1 service now ++ knownOf l2 service now := by
  unfold knownOf
  rw [List.filter_append, List.filterMap_append]

/-- the order of the trie's entries only shows in the order of the instances -/
theorem knownOf_perm {l1 l2 : List (Key × Bucket)} (h : l1.Perm l2) (service : Name) (now : Nat) :
    (knownOf l1 service now).Perm (knownOf l2 service now) :=
  (h.filter _).filterMap _

/-- a list of entries with distinct keys, rearranged: the entry of key `k` first -/
theorem entries_perm_extract {l : List (Key × Bucket)} (hp : l.Pairwise (fun a c => a.1 ≠ c.1))
    {k : Key} {b : Bucket} (hm : (k, b) ∈ l) :
    l.Perm ((k, b) :: l.filter (fun e => e.1 != k)) := by
  induction l with
  | nil => cases hm
  | cons hd tl ih =>
    rw [List.pairwise_cons] at hp
    rcases List.mem_cons.mp hm with hm | hm
    · subst hm
      have : tl.filter (fun e => e.1 != k) = tl := by
        rw [List.filter_eq_self]
        intro e he
        simpa using fun h => hp.1 e he h.symm
      simp [this]
    · have hne : hd.1 ≠ k := hp.1 _ hm
      have : (hd.1 != k) = true := by simpa using hne
      rw [List.filter_cons, if_pos this]
      exact ((ih hp.2 hm).cons hd).trans (List.Perm.swap _ _ _)

/-- a key that is not in the trie: nothing to leave out -/
theorem filter_ne_key_of_absent {l : List (Key × Bucket)} {k : Key} (h : ∀ e ∈ l, e.1 ≠ k) :
    l.filter (fun e => e.1 != k) = l := by
  rw [List.filter_eq_self]
  intro e he
  simpa using h e he

/-- the entries of all keys but `k` are what they were after `setBucket k` -/
theorem Store.setBucket_filter_ne (s : Store) (k : Key) (b : Bucket) :
    (s.setBucket k b).entries.filter (fun e => e.1 != k) = s.entries.filter (fun e => e.1 != k) := by
  unfold Store.setBucket
  split
  · simp only
    generalize s.entries = l
    induction l with
    | nil => rfl
    | cons hd tl ih =>
      simp only [List.map_cons, List.filter_cons]
      by_cases hk : hd.1 = k
      · have h1 : (hd.1 == k) = true := by simpa using hk
        simp only [h1, if_true, bne_self_eq_false, Bool.false_eq_true, if_false, ih]
        have h2 : (hd.1 != k) = false := by simpa using hk
        simp only [h2, Bool.false_eq_true, if_false]
      · have h1 : (hd.1 == k) = false := by simpa using hk
        have h2 : (hd.1 != k) = true := by simpa using hk
        simp only [h1, Bool.false_eq_true, if_false, h2, if_true, ih]
  · simp

/-- the entries of a store with the invariant after `setBucket k b`, rearranged: `(k, b)` first -/
theorem Store.setBucket_entries_perm {s : Store} (hI : Inv s) (k : Key) (b : Bucket) :
    (s.setBucket k b).entries.Perm ((k, b) :: s.entries.filter (fun e => e.1 != k)) := by
  rw [← Store.setBucket_filter_ne s k b]
  exact entries_perm_extract (Store.setBucket_keys_pairwise hI.keys k b)
    (Store.bucket_mem (by rw [Store.bucket_setBucket, if_pos rfl]))

/-- `get_known_services` on all buckets but the one of key `k` -/
def knownElse (s : Store) (k : Key) (service : Name) (now : Nat) : List Instance :=
  knownOf (s.entries.filter (fun e => e.1 != k)) service now

/-- replacing the bucket of key `k` does not change what the other buckets contribute -/
theorem knownElse_setBucket (s : Store) (k : Key) (b : Bucket) (service : Name) (now : Nat) :
    knownElse (s.setBucket k b) k service now = knownElse s k service now := by
  unfold knownElse; rw [Store.setBucket_filter_ne]

/-- an empty bucket yields no instance -/
theorem bucketInstance_nil (service : Name) (now : Nat) : bucketInstance service now [] = none := rfl

/-- an empty bucket contributes nothing to `get_known_services` -/
theorem contrib_nil (service : Name) (now : Nat) (k : Key) : contrib service now k [] = [] := by
  unfold contrib; split <;> rfl

/-- **`get_known_services`, one bucket singled out** (up to the order of the instances): what the
bucket of key `k` contributes, plus what all other buckets contribute. -/
theorem known_frame {s : Store} (hI : Inv s) {service : Name}
    (hnode : s.nodeExists (getKey service) = true) (k : Key) (now : Nat) :
    (known s service now).Perm
      (contrib service now k ((s.bucket k).getD []) ++ knownElse s k service now) := by
  rw [known_eq_knownOf, if_pos hnode]
  unfold knownElse
  cases hb : s.bucket k with
  | none =>
    rw [filter_ne_key_of_absent (Store.bucket_eq_none.mp hb)]
    simp [contrib_nil]
  | some b =>
    have := knownOf_perm (entries_perm_extract hI.keys (Store.bucket_mem hb)) service now
    rw [knownOf_cons] at this
    exact this

/-- the same after `setBucket k b`: what `b` contributes, plus what all other buckets contributed
before -/
theorem known_setBucket {s : Store} (hI : Inv s) {service : Name} (k : Key) (b : Bucket)
    (hnode : (s.setBucket k b).nodeExists (getKey service) = true) (now : Nat) :
    (known (s.setBucket k b) service now).Perm
      (contrib service now k b ++ knownElse s k service now) := by
  rw [known_eq_knownOf, if_pos hnode]
  have := knownOf_perm (Store.setBucket_entries_perm hI k b) service now
  rw [knownOf_cons] at this
  exact this

/-- `setBucket` (every insertion into the trie) keeps the trie nodes there are -/
theorem Store.nodeExists_setBucket {s : Store} {k' : Key} (h : s.nodeExists k' = true) (k : Key)
    (b : Bucket) : (s.setBucket k b).nodeExists k' = true :=
  Store.nodeExists_mono (Store.keys_setBucket s k b) h


/-! ### 1. caching a run of records of one owner, whatever the bucket held before -/

/-- `HashMap::insert` for a run of records, all with the same value -/
def Bucket.insertAll (b : Bucket) (rs : List RR) (k : Kind) : Bucket :=
  rs.foldl (fun b r => b.insert r k) b

/-- replacing values in a `HashMap` bucket does not change which keys it holds -/
theorem Bucket.any_insert_map (b : Bucket) (r : RR) (k : Kind) (x : RR) :
    (b.map (fun e => if rrEq e.1 r = true then (e.1, k) else e)).any (fun e => rrEq e.1 x) =
      b.any (fun e => rrEq e.1 x) := by
  induction b with
  | nil => rfl
  | cons hd tl ih =>
    simp only [List.map_cons, List.any_cons, ih]
    split <;> rfl

/-- **`HashMap::insert` over a run of pairwise different records, in closed form**: the entries
already there keep their place and their stored key, those equal to a record of the run get the new
value; the records of the run that were not there are appended in order. -/
theorem Bucket.insertAll_eq (b : Bucket) (rs : List RR) (k : Kind)
    (hp : rs.Pairwise (fun a c => rrEq a c = false)) :
    b.insertAll rs k =
      b.map (fun e => if rs.any (fun r => rrEq e.1 r) = true then (e.1, k) else e) ++
        (rs.filter (fun r => !b.any (fun e => rrEq e.1 r))).map (fun r => (r, k)) := by
  unfold Bucket.insertAll
  induction rs generalizing b with
  | nil => simp
  | cons r rest ih =>
    rw [List.pairwise_cons] at hp
    rw [List.foldl_cons, ih _ hp.2]
    unfold Bucket.insert
    by_cases hany : b.any (fun e => rrEq e.1 r) = true
    · simp only [hany, if_true, List.map_map, List.filter_cons, Bool.not_true, Bool.false_eq_true,
        if_false]
      congr 1
      · apply List.map_congr_left
        intro e _
        simp only [Function.comp, List.any_cons]
        by_cases h1 : rrEq e.1 r = true
        · simp [h1]
        · simp [h1]
      · congr 1
        apply List.filter_congr
        intro x _
        rw [Bucket.any_insert_map]
    · simp only [hany, Bool.false_eq_true, if_false, List.map_append, List.map_cons, List.map_nil,
        List.filter_cons, Bool.not_false, if_true, List.append_assoc, List.cons_append,
        List.nil_append]
      simp only [Bool.not_eq_true, List.any_eq_false] at hany
      congr 1
      · apply List.map_congr_left
        intro e he
        simp [List.any_cons, hany e he]
      · have h1 : (if rest.any (fun r_1 => rrEq r r_1) = true then (r, k) else (r, k)) = (r, k) := by
          split <;> rfl
        rw [h1]
        congr 2
        apply List.filter_congr
        intro x hx
        have := hp.1 x hx
        simp [List.any_append, this]


/-- `add_cached_resource` for a record that is not registered locally is `HashMap::insert` into
the bucket of the record's owner -/
theorem Store.addCached_eq_insert {s : Store} {r : RR} (h : abs s r ≠ some .auth) (now : Nat) :
    s.addCached r now = s.setBucket (getKey r.name)
      (((s.bucket (getKey r.name)).getD []).insert r
        (.cached (now + 1000 * (if r.flush = true then 1 else r.ttl))
           (now + 1000 * refreshOffsetSecs (if r.flush = true then 1 else r.ttl)))) := by
  unfold Store.addCached
  simp only
  rw [abs_getD]
  split
  · rename_i ha; exact absurd ha h
  · rfl

/-- **Caching a run of records of one owner, none registered locally, all with the same lifetime**:
the owner's bucket becomes `insertAll` of what it was; no other bucket changes. -/
theorem foldl_addCached_insertAll (rs : List RR) (r : RR) (s : Store) (now : Nat) (kf : Key)
    (e rf : Nat) (hk : ∀ x ∈ r :: rs, getKey x.name = kf)
    (he : ∀ x ∈ r :: rs, now + 1000 * (if x.flush = true then 1 else x.ttl) = e)
    (hrf : ∀ x ∈ r :: rs,
      now + 1000 * refreshOffsetSecs (if x.flush = true then 1 else x.ttl) = rf)
    (hna : ∀ x ∈ r :: rs, abs s x ≠ some .auth) :
    (r :: rs).foldl (fun st x => st.addCached x now) s =
      s.setBucket kf (((s.bucket kf).getD []).insertAll (r :: rs) (.cached e rf)) := by
  induction rs generalizing r s with
  | nil =>
    simp only [List.foldl_cons, List.foldl_nil, Bucket.insertAll]
    rw [Store.addCached_eq_insert (hna r (by simp)), hk r (by simp), he r (by simp),
      hrf r (by simp)]
  | cons r2 rest ih =>
    rw [List.foldl_cons, Store.addCached_eq_insert (hna r (by simp)), hk r (by simp),
      he r (by simp), hrf r (by simp)]
    rw [ih r2 _ (fun x hx => hk x (List.mem_cons_of_mem _ hx))
      (fun x hx => he x (List.mem_cons_of_mem _ hx))
      (fun x hx => hrf x (List.mem_cons_of_mem _ hx))]
    · rw [Store.setBucket_setBucket, Store.bucket_setBucket, if_pos rfl]
      rfl
    · intro x hx
      have h1 := hk r (by simp)
      rw [← h1, abs_setBucket_insert]
      split
      · simp
      · exact hna x (List.mem_cons_of_mem _ hx)


/-! ### 2. the hypotheses on the store and on a peer's record set -/

/-- no cache entry is stored under key `k` (locally registered records may be) -/
def KeyFree (s : Store) (k : Key) : Prop := ∀ e ∈ (s.bucket k).getD [], e.2 = Kind.auth

instance (s : Store) (k : Key) : Decidable (KeyFree s k) := by unfold KeyFree; infer_instance

/-- none of the records is registered locally (`add_cached_resource` would ignore it) -/
def NotAuth (s : Store) (rs : List RR) : Prop := ∀ r ∈ rs, abs s r ≠ some .auth

/-- a record set as one peer announces it for one owner name: not empty, one owner, one effective
TTL, pairwise different (name, class, RDATA) -/
structure OneOwner (full : Name) (ttl : Nat) (rs : List RR) : Prop where
  ne : rs ≠ []
  name : ∀ r ∈ rs, r.name = full
  ttl : ∀ r ∈ rs, effTtl r = ttl
  distinct : rs.Pairwise (fun a c => rrEq a c = false)

/-- the records `into_records` produces are such a set -/
theorem instRecords_oneOwner (full : Name) {ips : List (Bool × Nat)} {ports : List Nat}
    (ss : List Bytes) (ttl : Nat) (hips : ips.Nodup) (hports : ports.Nodup) :
    OneOwner full ttl (instRecords full ips ports ss ttl) :=
  ⟨instRecords_ne_nil _ _ _ _ _, fun _ hr => (mem_instRecords hr).1,
    fun r hr => by simp [effTtl, (mem_instRecords hr).2.1, (mem_instRecords hr).2.2],
    instRecords_pairwise full ss ttl hips hports⟩

/-- a run of `add_cached_resource` calls never makes a record authoritative, nor demotes one -/
theorem abs_foldl_addCached_auth (s : Store) (l : List RR) (t : Nat) (x : RR) :
    abs (l.foldl (fun st r => st.addCached r t) s) x = some .auth ↔ abs s x = some .auth := by
  have := abs_run_addCached_auth s l t x
  unfold Store.run at this
  rw [List.foldl_map] at this
  exact this

/-- records not registered locally stay so when other records are cached -/
theorem NotAuth.foldl_addCached {s : Store} {rs : List RR} (h : NotAuth s rs) (l : List RR)
    (t : Nat) : NotAuth (l.foldl (fun st r => st.addCached r t) s) rs :=
  fun r hr => by rw [Ne, abs_foldl_addCached_auth]; exact h r hr

/-- under `KeyFree` and `NotAuth` nothing stored under the key equals one of the records -/
theorem fresh_of_keyFree {s : Store} (hI : Inv s) {k : Key} (hf : KeyFree s k) {rs : List RR}
    (hna : NotAuth s rs) :
    ∀ x ∈ rs, ∀ y ∈ (s.bucket k).getD [], rrEq y.1 x = false := by
  intro x hx y hy
  rw [Bool.eq_false_iff]
  intro he
  apply hna x hx
  cases hb : s.bucket k with
  | none => rw [hb] at hy; cases hy
  | some b =>
    have hy' := hy
    rw [hb] at hy
    have h1 := hI.abs_of_mem (Store.bucket_mem hb) (x := y.1) (kind := y.2) hy
    rw [abs_congr s he, hf y hy'] at h1
    exact h1

/-- the live records of a bucket, part by part -/
theorem livePick_append (now : Nat) (a b : Bucket) :
    livePick now (a ++ b) = livePick now a ++ livePick now b := by
  simp [livePick]

/-- the live records among entries whose lifetime is given record by record -/
theorem livePick_map (now : Nat) (rs : List RR) (K : RR → Kind) :
    livePick now (rs.map (fun r => (r, K r))) =
      rs.filter (fun r => Filter.cachedOnly.matches (K r) now) := by
  induction rs with
  | nil => rfl
  | cons r rs ih =>
    simp only [livePick, List.map_cons, List.filter_cons] at ih ⊢
    split
    · simp only [List.map_cons, ih]
    · exact ih

/-- a bucket without cache entries has no live cached record -/
theorem livePick_of_keyFree {s : Store} {k : Key} (hf : KeyFree s k) (now : Nat) :
    livePick now ((s.bucket k).getD []) = [] := by
  unfold livePick
  rw [List.map_eq_nil_iff, List.filter_eq_nil_iff]
  intro e he
  rw [hf e he]; simp [Filter.cachedOnly]

/-- a bucket without cache entries contributes nothing to `get_known_services` -/
theorem contrib_of_keyFree {s : Store} {k : Key} (hf : KeyFree s k) (service : Name) (now : Nat) :
    contrib service now k ((s.bucket k).getD []) = [] := by
  unfold contrib bucketInstance
  rw [livePick_of_keyFree hf]
  split <;> rfl

/-- with no cache entry under key `k`, `get_known_services` is what the other buckets give -/
theorem known_of_keyFree {s : Store} (hI : Inv s) {service : Name}
    (hnode : s.nodeExists (getKey service) = true) {k : Key} (hf : KeyFree s k) (now : Nat) :
    (known s service now).Perm (knownElse s k service now) := by
  have := known_frame hI hnode k now
  rw [contrib_of_keyFree hf] at this
  exact this


/-! ### 3. one reception into any store -/

/-- the cache entry `add_cached_resource` makes at time `t` for effective TTL `ttl` -/
def cachedAt (t ttl : Nat) : Kind := .cached (t + 1000 * ttl) (t + 1000 * refreshOffsetSecs ttl)

/-- `filter` with the constant `true` -/
theorem filter_const_true {α : Type} (l : List α) : l.filter (fun _ => true) = l := by simp
/-- `filter` with the constant `false` -/
theorem filter_const_false {α : Type} (l : List α) : l.filter (fun _ => false) = [] := by simp

/-- the store after a peer's record set has been cached, when no cache entry was stored under the
owner's key: the records are appended to the owner's bucket in the order received -/
theorem foldl_addCached_oneOwner {s0 : Store} (hI : Inv s0) {full : Name} {ttl : Nat} {rs : List RR}
    (ho : OneOwner full ttl rs) (hf : KeyFree s0 (getKey full)) (hna : NotAuth s0 rs) (t : Nat) :
    rs.foldl (fun st r => st.addCached r t) s0 =
      s0.setBucket (getKey full)
        ((s0.bucket (getKey full)).getD [] ++ rs.map (fun r => (r, cachedAt t ttl))) := by
  cases rs with
  | nil => exact absurd rfl ho.ne
  | cons r rest =>
    apply foldl_addCached_fresh rest r s0 t (getKey full) (t + 1000 * ttl)
      (t + 1000 * refreshOffsetSecs ttl)
    · intro x hx; rw [ho.name x hx]
    · intro x hx; have := ho.ttl x hx; unfold effTtl at this; rw [this]
    · intro x hx; have := ho.ttl x hx; unfold effTtl at this; rw [this]
    · exact ho.distinct
    · exact fresh_of_keyFree hI hf hna

/-- what the owner's bucket contributes after one reception -/
theorem contrib_once {s0 : Store} {service full : Name} {ttl : Nat} {rs : List RR}
    (hne : rs ≠ []) (hpre : isPrefixOf (getKey service) (getKey full) = true)
    (hf : KeyFree s0 (getKey full)) (t now' : Nat) :
    contrib service now' (getKey full)
        ((s0.bucket (getKey full)).getD [] ++ rs.map (fun r => (r, cachedAt t ttl))) =
      if now' < t + 1000 * ttl then (fromRecords service rs).toList else [] := by
  unfold contrib bucketInstance
  rw [if_pos hpre, livePick_append, livePick_of_keyFree hf, List.nil_append, livePick_map]
  by_cases hlt : now' < t + 1000 * ttl
  · have : (fun _ : RR => Filter.cachedOnly.matches (cachedAt t ttl) now') = fun _ => true := by
      funext _; simp [cachedAt, Filter.cachedOnly, hlt]
    rw [this, filter_const_true, if_pos hlt]
    have hne : rs.isEmpty = false := by
      cases rs with
      | nil => exact absurd rfl hne
      | cons _ _ => rfl
    simp [hne]
  · have : (fun _ : RR => Filter.cachedOnly.matches (cachedAt t ttl) now') = fun _ => false := by
      funext _; simp [cachedAt, Filter.cachedOnly, hlt]
    rw [this, filter_const_false, if_neg hlt]
    rfl

/-- **One reception into any store.** The store satisfies the invariant and has a trie node at the
service's key; under the owner's key it holds no cache entry, and none of the received records is
registered locally. After the record set of one owner (below the service) has been cached at time
`t`, `get_known_services` at `now'` is what it was before at `now'` plus — while `now' < t + 1000·ttl`
— the instance `from_records` builds from the received records; up to the order of the
instances. What was known of other owners is neither lost nor altered. -/
theorem known_one_reception {s0 : Store} (hI : Inv s0) {service : Name}
    (hnode : s0.nodeExists (getKey service) = true) {full : Name} {ttl : Nat} {rs : List RR}
    (ho : OneOwner full ttl rs) (hpre : isPrefixOf (getKey service) (getKey full) = true)
    (hf : KeyFree s0 (getKey full)) (hna : NotAuth s0 rs) (t now' : Nat) :
    (known (rs.foldl (fun st r => st.addCached r t) s0) service now').Perm
      ((if now' < t + 1000 * ttl then (fromRecords service rs).toList else []) ++
        known s0 service now') := by
  rw [foldl_addCached_oneOwner hI ho hf hna t]
  refine (known_setBucket hI _ _ (Store.nodeExists_setBucket hnode _ _) now').trans ?_
  refine List.Perm.append ?_ (known_of_keyFree hI hnode hf now').symm
  exact List.Perm.of_eq (contrib_once ho.ne hpre hf t now')

/-! ### 4. item 1: one announcement into any store -/

/-- the instance the listener builds from the records `into_records` makes of addresses `ips`,
ports `ports` and TXT strings `ss` -/
def advertised (inst : Label) (ips : List (Bool × Nat)) (ports : List Nat) (ss : List Bytes) :
    Instance :=
  { name := inst, ips := ips, ports := ports,
    attrs := attrsExtend [] ((Txt.attributes ss).filter (fun e => !e.1.isEmpty)) }

/-- what `get_known_services` reports of an instance received at `t` with TTL `ttl` -/
def aliveInst (i : Instance) (t ttl now' : Nat) : List Instance :=
  if now' < t + 1000 * ttl then [i] else []

/-- the key of `inst.service` extends the key of `service`: the instance's bucket lies in the subtrie `get_known_services` walks -/
theorem instKey_prefix (inst : Label) (service : Name) :
    isPrefixOf (getKey service) (getKey (inst :: service)) = true :=
  key_prefix_of_suffix (List.suffix_cons inst service)

/-- **Item 1, records form: an announcement into ANY store.** `s0` is any store with the
invariant and a trie node at the service's key (the service's PTR record registered by
`ServiceDiscovery::new` provides one) that holds no cache entry under the key of `inst.service` and
has none of the announced records registered locally. After the announcement of `inst.service`
(records as `into_records` makes them) has been ingested at `t`, `get_known_services` at `now'` is
`get_known_services` of `s0` at `now'` plus — until `t + 1000·ttl` — exactly the advertised
instance, up to order: the instances of other peers stay known and unchanged. -/
theorem known_after_announce_any {service own : Name} (inst : Label) (hown : own ≠ inst :: service)
    {s0 : Store} (hI : Inv s0) (hnode : s0.nodeExists (getKey service) = true)
    (ips : List (Bool × Nat)) (ports : List Nat) (ss : List Bytes) (ttl t now' : Nat)
    (hips : ips.Nodup) (hports : ports.Nodup) (hf : KeyFree s0 (getKey (inst :: service)))
    (hna : NotAuth s0 (instRecords (inst :: service) ips ports ss ttl)) :
    (known (ingest (announce (instRecords (inst :: service) ips ports ss ttl)) service own s0 t)
        service now').Perm
      (aliveInst (advertised inst ips ports ss) t ttl now' ++ known s0 service now') := by
  rw [ingest_announce service own inst hown]
  have := known_one_reception hI hnode (instRecords_oneOwner (inst :: service) ss ttl hips hports)
    (instKey_prefix inst service) hf hna t now'
  rw [fromRecords_instRecords service inst ips ports ss ttl hips hports] at this
  exact this

/-- the instances known before are known after, the advertised one is known while alive, and
nothing else is -/
theorem mem_known_after_announce_any {service own : Name} (inst : Label)
    (hown : own ≠ inst :: service) {s0 : Store} (hI : Inv s0)
    (hnode : s0.nodeExists (getKey service) = true)
    (ips : List (Bool × Nat)) (ports : List Nat) (ss : List Bytes) (ttl t now' : Nat)
    (hips : ips.Nodup) (hports : ports.Nodup) (hf : KeyFree s0 (getKey (inst :: service)))
    (hna : NotAuth s0 (instRecords (inst :: service) ips ports ss ttl)) (i : Instance) :
    i ∈ known (ingest (announce (instRecords (inst :: service) ips ports ss ttl)) service own s0 t)
        service now' ↔
      (i = advertised inst ips ports ss ∧ now' < t + 1000 * ttl) ∨ i ∈ known s0 service now' := by
  rw [(known_after_announce_any inst hown hI hnode ips ports ss ttl t now' hips hports hf
    hna).mem_iff, List.mem_append]
  unfold aliveInst
  split <;> simp [*]

/-- the number of known instances grows by one while the announcement is alive -/
theorem length_known_after_announce_any {service own : Name} (inst : Label)
    (hown : own ≠ inst :: service) {s0 : Store} (hI : Inv s0)
    (hnode : s0.nodeExists (getKey service) = true)
    (ips : List (Bool × Nat)) (ports : List Nat) (ss : List Bytes) (ttl t now' : Nat)
    (hips : ips.Nodup) (hports : ports.Nodup) (hf : KeyFree s0 (getKey (inst :: service)))
    (hna : NotAuth s0 (instRecords (inst :: service) ips ports ss ttl)) :
    (known (ingest (announce (instRecords (inst :: service) ips ports ss ttl)) service own s0 t)
        service now').length =
      (if now' < t + 1000 * ttl then 1 else 0) + (known s0 service now').length := by
  rw [(known_after_announce_any inst hown hI hnode ips ports ss ttl t now' hips hports hf
    hna).length_eq, List.length_append]
  unfold aliveInst
  split <;> rfl

/-- the advertised instance for an admissible attribute map without empty key is the instance
itself -/
theorem advertised_of_attrs (inst : Label) (ips : List (Bool × Nat)) (ports : List Nat)
    {attrs : Attrs} (hattrs : MapOK attrs) (hkeys : ∀ e ∈ attrs, e.1 ≠ "") :
    advertised inst ips ports (attrs.map attrEntryBytes) =
      { name := inst, ips := ips, ports := ports, attrs := attrs } := by
  obtain ⟨ss, hss, hat⟩ := attrs_roundtrip attrs hattrs
  have : ss = attrs.map attrEntryBytes := ((ofMap_ok_iff attrs ss).mp hss).1
  unfold advertised
  rw [← this, hat, filter_nonempty_keys attrs hkeys,
    attrsExtend_fresh attrs [] hattrs.1 (by simp [Attrs.keys])]
  simp

/-- **Item 1, end to end: faithful discovery into ANY store** (`discovery_faithful_limits` without
the assumption that the listener has just started). The instance `inst.service` is turned into
records by `into_records` and sent as a compressed response; the listener, whose own instance has a
different name and whose store `s0` is as in `known_after_announce_any`, ingests the datagram at `t`
(no reply); from then on `get_known_services` is what `s0` gives plus, for `ttl` seconds, exactly
the advertised instance. -/
theorem discovery_faithful_any_store (service : Name) (inst : Label) (own : Name)
    (ips : List (Bool × Nat)) (ports : List Nat) (attrs : Attrs) (ttl t : Nat)
    (hips : ips.Nodup) (hports : ports.Nodup) (hattrs : MapOK attrs)
    (hkeys : ∀ e ∈ attrs, e.1 ≠ "") (hown : own ≠ inst :: service)
    (hfits : InstanceFits (inst :: service) ips ports attrs ttl)
    {s0 : Store} (hI : Inv s0) (hnode : s0.nodeExists (getKey service) = true)
    (hf : KeyFree s0 (getKey (inst :: service)))
    (hna : ∀ r, r.name = inst :: service → abs s0 r ≠ some .auth) :
    ∃ rs bytes s1, intoRecords (inst :: service) ips ports attrs ttl = .ok rs ∧
      (announce rs).buildCompressed = .ok bytes ∧
      handleDiscovery s0 service own bytes t = .ok (s1, none) ∧
      ∀ now', (known s1 service now').Perm
        (aliveInst { name := inst, ips := ips, ports := ports, attrs := attrs } t ttl now' ++
          known s0 service now') := by
  obtain ⟨bytes, hb, hparse⟩ := compressed_transparent _ (announce_wf hattrs hfits)
  refine ⟨_, bytes, _, intoRecords_ok _ _ _ _ _ hattrs.2.2, hb, handleDiscovery_response hparse
    (show Header.hasFlags ⟨0, .StandardQuery, .NoError, 0x8000, none⟩ 0x8000 = true by decide), ?_⟩
  intro now'
  have := known_after_announce_any inst hown hI hnode ips ports (attrs.map attrEntryBytes) ttl t
    now' hips hports hf (fun r hr => hna r (mem_instRecords hr).1)
  rw [advertised_of_attrs inst ips ports hattrs hkeys] at this
  exact this


/-- **Every announcement, goodbye included, on the wire.** For an instance description within DNS
limits, `into_records` gives the records `instRecords`, they are sent as one compressed response,
and whatever store the listener has and whenever the datagram arrives, one iteration of the
listener's loop is exactly the ingestion of that response (no reply). So every statement of this
file about `ingest (announce (instRecords …))` is a statement about received datagrams. -/
theorem announce_on_the_wire (service : Name) (inst : Label) (own : Name)
    (ips : List (Bool × Nat)) (ports : List Nat) (attrs : Attrs) (ttl : Nat) (hattrs : MapOK attrs)
    (hfits : InstanceFits (inst :: service) ips ports attrs ttl) :
    intoRecords (inst :: service) ips ports attrs ttl =
      .ok (instRecords (inst :: service) ips ports (attrs.map attrEntryBytes) ttl) ∧
    ∃ bytes, (announce (instRecords (inst :: service) ips ports (attrs.map attrEntryBytes)
        ttl)).buildCompressed = .ok bytes ∧
      ∀ (s : Store) (t : Nat), handleDiscovery s service own bytes t =
        .ok (ingest (announce (instRecords (inst :: service) ips ports (attrs.map attrEntryBytes)
          ttl)) service own s t, none) := by
  obtain ⟨bytes, hb, hparse⟩ := compressed_transparent _ (announce_wf hattrs hfits)
  exact ⟨intoRecords_ok _ _ _ _ _ hattrs.2.2, bytes, hb, fun s t => handleDiscovery_response hparse
    (show Header.hasFlags ⟨0, .StandardQuery, .NoError, 0x8000, none⟩ 0x8000 = true by decide)⟩

/-! ### 5. two successive receptions for the same owner -/

/-- the store after two record sets for the same owner have been cached one after the other: the
records of the first set keep their place and their stored copy; those announced again get the
second reception's lifetime; the new records of the second set are appended -/
theorem foldl_addCached_twice {s0 : Store} (hI : Inv s0) {full : Name} {ttl1 ttl2 : Nat}
    {rs1 rs2 : List RR} (ho1 : OneOwner full ttl1 rs1) (ho2 : OneOwner full ttl2 rs2)
    (hf : KeyFree s0 (getKey full)) (hna1 : NotAuth s0 rs1) (hna2 : NotAuth s0 rs2) (t1 t2 : Nat) :
    rs2.foldl (fun st r => st.addCached r t2) (rs1.foldl (fun st r => st.addCached r t1) s0) =
      s0.setBucket (getKey full)
        ((s0.bucket (getKey full)).getD [] ++
          (rs1.map (fun r => (r, if rs2.any (fun r2 => rrEq r r2) = true then cachedAt t2 ttl2
                                 else cachedAt t1 ttl1)) ++
           (rs2.filter (fun r => !rs1.any (fun r1 => rrEq r1 r))).map
              (fun r => (r, cachedAt t2 ttl2)))) := by
  have hna2' := hna2.foldl_addCached rs1 t1
  rw [foldl_addCached_oneOwner hI ho1 hf hna1 t1] at hna2' ⊢
  have hfresh := fresh_of_keyFree hI hf hna2
  cases rs2 with
  | nil => exact absurd rfl ho2.ne
  | cons r rest =>
    rw [foldl_addCached_insertAll rest r _ t2 (getKey full) (t2 + 1000 * ttl2)
      (t2 + 1000 * refreshOffsetSecs ttl2) (fun x hx => by rw [ho2.name x hx])
      (fun x hx => by have := ho2.ttl x hx; unfold effTtl at this; rw [this])
      (fun x hx => by have := ho2.ttl x hx; unfold effTtl at this; rw [this]) hna2']
    rw [Store.setBucket_setBucket, Store.bucket_setBucket, if_pos rfl, Option.getD_some,
      Bucket.insertAll_eq _ _ _ ho2.distinct]
    congr 1
    generalize hrs2 : r :: rest = rs2 at hfresh
    rw [List.map_append, List.append_assoc]
    congr 1
    · conv => rhs; rw [← List.map_id ((s0.bucket (getKey full)).getD [])]
      apply List.map_congr_left
      intro e he
      have : rs2.any (fun r => rrEq e.1 r) = false := by
        rw [List.any_eq_false]
        intro x hx; simp [hfresh x hx e he]
      simp [this]
    · congr 1
      · rw [List.map_map]
        apply List.map_congr_left
        intro x _
        simp only [Function.comp]
        split <;> rfl
      · congr 1
        apply List.filter_congr
        intro x hx
        have : ((s0.bucket (getKey full)).getD []).any (fun e => rrEq e.1 x) = false := by
          rw [List.any_eq_false]
          intro e he; simp [hfresh x hx e he]
        simp [List.any_append, this, List.any_map, Function.comp_def, cachedAt]


/-- the records alive at `now'` in the owner's bucket after two receptions (the first expiring at
`e1`, the second at `e2`), in bucket order: a record of the first set lives as long as the second
reception says if it was announced again, else as long as the first says; the new records of the
second set follow -/
def liveTwo (rs1 rs2 : List RR) (e1 e2 now' : Nat) : List RR :=
  rs1.filter (fun r => if rs2.any (fun r2 => rrEq r r2) = true then decide (now' < e2)
                       else decide (now' < e1)) ++
    rs2.filter (fun r => !rs1.any (fun r1 => rrEq r1 r) && decide (now' < e2))

/-- what the owner's bucket contributes after two receptions -/
theorem contrib_twice {s0 : Store} {service full : Name} {ttl1 ttl2 : Nat} (rs1 rs2 : List RR)
    (hpre : isPrefixOf (getKey service) (getKey full) = true)
    (hf : KeyFree s0 (getKey full)) (t1 t2 now' : Nat) :
    contrib service now' (getKey full)
        ((s0.bucket (getKey full)).getD [] ++
          (rs1.map (fun r => (r, if rs2.any (fun r2 => rrEq r r2) = true then cachedAt t2 ttl2
                                 else cachedAt t1 ttl1)) ++
           (rs2.filter (fun r => !rs1.any (fun r1 => rrEq r1 r))).map
              (fun r => (r, cachedAt t2 ttl2)))) =
      if (liveTwo rs1 rs2 (t1 + 1000 * ttl1) (t2 + 1000 * ttl2) now').isEmpty then []
      else (fromRecords service
        (liveTwo rs1 rs2 (t1 + 1000 * ttl1) (t2 + 1000 * ttl2) now')).toList := by
  unfold contrib bucketInstance
  rw [if_pos hpre, livePick_append, livePick_of_keyFree hf, List.nil_append, livePick_append,
    livePick_map, livePick_map, List.filter_filter]
  have h1 : (fun r : RR => Filter.cachedOnly.matches
        (if rs2.any (fun r2 => rrEq r r2) = true then cachedAt t2 ttl2 else cachedAt t1 ttl1) now') =
      fun r => if rs2.any (fun r2 => rrEq r r2) = true then decide (now' < t2 + 1000 * ttl2)
               else decide (now' < t1 + 1000 * ttl1) := by
    funext r
    split <;> simp [cachedAt, Filter.cachedOnly]
  have h2 : (fun r : RR => Filter.cachedOnly.matches (cachedAt t2 ttl2) now' &&
        !rs1.any (fun r1 => rrEq r1 r)) =
      fun r => !rs1.any (fun r1 => rrEq r1 r) && decide (now' < t2 + 1000 * ttl2) := by
    funext r
    simp [cachedAt, Filter.cachedOnly, Bool.and_comm]
  rw [h1, h2]
  unfold liveTwo
  split <;> rfl

/-- **Two receptions for one owner, in general** (re-announcement, changed data, goodbye are
instances). `s0` as in `known_one_reception`. After record set `rs1` has been cached at `t1` and
record set `rs2` of the same owner at `t2` — in this order, whatever the two times —
`get_known_services` at `now'` is that of `s0` plus `from_records` of the records alive at `now'`
(`liveTwo`: the model, like the code, keeps every record until its own expiry), if there are any.
`liveTwo` lists them in the model's bucket order (insertion order); Rust's `HashMap` iterates them
in some other order, which `from_records` shows only in the value of an attribute key that two
live TXT records give differently (`Props/C15Audit.lean`: `bucketInstance_any_order`). -/
theorem known_two_receptions {s0 : Store} (hI : Inv s0) {service : Name}
    (hnode : s0.nodeExists (getKey service) = true) {full : Name} {ttl1 ttl2 : Nat}
    {rs1 rs2 : List RR} (ho1 : OneOwner full ttl1 rs1) (ho2 : OneOwner full ttl2 rs2)
    (hpre : isPrefixOf (getKey service) (getKey full) = true)
    (hf : KeyFree s0 (getKey full)) (hna1 : NotAuth s0 rs1) (hna2 : NotAuth s0 rs2)
    (t1 t2 now' : Nat) :
    (known (rs2.foldl (fun st r => st.addCached r t2)
        (rs1.foldl (fun st r => st.addCached r t1) s0)) service now').Perm
      ((if (liveTwo rs1 rs2 (t1 + 1000 * ttl1) (t2 + 1000 * ttl2) now').isEmpty then []
        else (fromRecords service
          (liveTwo rs1 rs2 (t1 + 1000 * ttl1) (t2 + 1000 * ttl2) now')).toList) ++
        known s0 service now') := by
  rw [foldl_addCached_twice hI ho1 ho2 hf hna1 hna2 t1 t2]
  refine (known_setBucket hI _ _ (Store.nodeExists_setBucket hnode _ _) now').trans ?_
  refine List.Perm.append ?_ (known_of_keyFree hI hnode hf now').symm
  exact List.Perm.of_eq (contrib_twice rs1 rs2 hpre hf t1 t2 now')

/-! ### 6. only what a bucket contributes matters -/

/-- replacing the bucket of key `k` by one that contributes the same leaves the list of known instances as it is -/
theorem knownOf_map_replace (l : List (Key × Bucket)) (k : Key) (b b' : Bucket) (service : Name)
    (now : Nat) (h : contrib service now k b = contrib service now k b') :
    knownOf (l.map (fun e => if (e.1 == k) = true then (k, b) else e)) service now =
      knownOf (l.map (fun e => if (e.1 == k) = true then (k, b') else e)) service now := by
  induction l with
  | nil => rfl
  | cons hd tl ih =>
    simp only [List.map_cons, knownOf_cons, ih]
    by_cases hk : (hd.1 == k) = true
    · simp only [hk, if_true, h]
    · simp only [hk, Bool.false_eq_true, if_false]

/-- two buckets that contribute the same instance at `now` are interchangeable under
`get_known_services` at `now`, order of the instances included -/
theorem known_setBucket_congr (s : Store) (k : Key) {b b' : Bucket} {service : Name} {now : Nat}
    (h : contrib service now k b = contrib service now k b') :
    known (s.setBucket k b) service now = known (s.setBucket k b') service now := by
  rw [known_eq_knownOf, known_eq_knownOf]
  have hn : (s.setBucket k b).nodeExists (getKey service) =
      (s.setBucket k b').nodeExists (getKey service) := by
    rw [Bool.eq_iff_iff]
    constructor
    · apply Store.nodeExists_mono
      intro k1 b1 h1
      exact (Store.key_mem_setBucket s k b' k1).mpr ((Store.key_mem_setBucket s k b k1).mp ⟨b1, h1⟩)
    · apply Store.nodeExists_mono
      intro k1 b1 h1
      exact (Store.key_mem_setBucket s k b k1).mpr ((Store.key_mem_setBucket s k b' k1).mp ⟨b1, h1⟩)
  rw [hn]
  split
  · unfold Store.setBucket
    split
    · exact knownOf_map_replace _ k b b' service now h
    · simp only [knownOf_append, knownOf_cons, knownOf_nil, h]
  · rfl


/-! ### 7. the same data received twice: what was received last counts -/

/-- two record sets with the same records up to TTL and cache-flush bit -/
def SameData (rs1 rs2 : List RR) : Prop :=
  (∀ r ∈ rs1, rs2.any (fun r2 => rrEq r r2) = true) ∧
  (∀ r ∈ rs2, rs1.any (fun r1 => rrEq r1 r) = true)

/-- the same data received twice: all of it lives exactly as long as the second reception says -/
theorem liveTwo_sameData {rs1 rs2 : List RR} (h : SameData rs1 rs2) (e1 e2 now' : Nat) :
    liveTwo rs1 rs2 e1 e2 now' = if now' < e2 then rs1 else [] := by
  unfold liveTwo
  have h1 : rs1.filter (fun r => if rs2.any (fun r2 => rrEq r r2) = true then decide (now' < e2)
      else decide (now' < e1)) = rs1.filter (fun _ => decide (now' < e2)) := by
    apply List.filter_congr
    intro r hr
    rw [if_pos (h.1 r hr)]
  have h2 : rs2.filter (fun r => !rs1.any (fun r1 => rrEq r1 r) && decide (now' < e2)) = [] := by
    rw [List.filter_eq_nil_iff]
    intro r hr
    simp [h.2 r hr]
  rw [h1, h2, List.append_nil]
  by_cases hlt : now' < e2
  · simp [hlt]
  · simp [hlt]

/-- the records of one instance description announced with two TTLs are the same data -/
theorem instRecords_sameData (full : Name) (ips : List (Bool × Nat)) (ports : List Nat)
    (ss : List Bytes) (ttl1 ttl2 : Nat) :
    SameData (instRecords full ips ports ss ttl1) (instRecords full ips ports ss ttl2) := by
  rw [instRecords_eq_map, instRecords_eq_map]
  constructor
  · intro r hr
    obtain ⟨d, hd, rfl⟩ := List.mem_map.mp hr
    rw [List.any_eq_true]
    exact ⟨mkRR full ttl2 d, List.mem_map.mpr ⟨d, hd, rfl⟩, by simp [rrEq_iff, mkRR]⟩
  · intro r hr
    obtain ⟨d, hd, rfl⟩ := List.mem_map.mp hr
    rw [List.any_eq_true]
    exact ⟨mkRR full ttl1 d, List.mem_map.mpr ⟨d, hd, rfl⟩, by simp [rrEq_iff, mkRR]⟩

/-- **What was received last counts** (records form, as lists — no reordering). For two record
sets of one owner with the same data from which `from_records` builds the same instance: caching
the first at `t1` and then the second at `t2` gives, at every `now'`, the same
`get_known_services` as caching the second at `t2` alone — whatever `t1`, `t2` and the TTLs. -/
theorem known_last_reception_counts {s0 : Store} (hI : Inv s0) {service full : Name}
    {ttl1 ttl2 : Nat} {rs1 rs2 : List RR} (ho1 : OneOwner full ttl1 rs1)
    (ho2 : OneOwner full ttl2 rs2) (hpre : isPrefixOf (getKey service) (getKey full) = true)
    (hf : KeyFree s0 (getKey full)) (hna1 : NotAuth s0 rs1) (hna2 : NotAuth s0 rs2)
    (hsame : SameData rs1 rs2) (hfr : fromRecords service rs1 = fromRecords service rs2)
    (t1 t2 now' : Nat) :
    known (rs2.foldl (fun st r => st.addCached r t2)
        (rs1.foldl (fun st r => st.addCached r t1) s0)) service now' =
      known (rs2.foldl (fun st r => st.addCached r t2) s0) service now' := by
  rw [foldl_addCached_twice hI ho1 ho2 hf hna1 hna2 t1 t2, foldl_addCached_oneOwner hI ho2 hf hna2 t2]
  apply known_setBucket_congr
  rw [contrib_twice rs1 rs2 hpre hf, contrib_once ho2.ne hpre hf, liveTwo_sameData hsame]
  by_cases hlt : now' < t2 + 1000 * ttl2
  · have hne : rs1.isEmpty = false := by
      cases rs1 with
      | nil => exact absurd rfl ho1.ne
      | cons _ _ => rfl
    simp [hlt, hne, hfr]
  · simp [hlt]

/-- the time of reception matters only through whether the records are still alive -/
theorem known_reception_time_congr {s0 : Store} (hI : Inv s0) {service full : Name} {ttl : Nat}
    {rs : List RR} (ho : OneOwner full ttl rs)
    (hpre : isPrefixOf (getKey service) (getKey full) = true) (hf : KeyFree s0 (getKey full))
    (hna : NotAuth s0 rs) {t t' now' : Nat}
    (h : now' < t + 1000 * ttl ↔ now' < t' + 1000 * ttl) :
    known (rs.foldl (fun st r => st.addCached r t) s0) service now' =
      known (rs.foldl (fun st r => st.addCached r t') s0) service now' := by
  rw [foldl_addCached_oneOwner hI ho hf hna t, foldl_addCached_oneOwner hI ho hf hna t']
  apply known_setBucket_congr
  rw [contrib_once ho.ne hpre hf, contrib_once ho.ne hpre hf]
  by_cases hlt : now' < t + 1000 * ttl
  · rw [if_pos hlt, if_pos (h.mp hlt)]
  · rw [if_neg hlt, if_neg (fun h' => hlt (h.mpr h'))]

/-- putting back the bucket a key has (the empty one if it has none) changes nothing that
`get_known_services` sees, given the trie node at the service's key -/
theorem known_setBucket_getD {s : Store} (hI : Inv s) {service : Name}
    (hnode : s.nodeExists (getKey service) = true) (k : Key) (now : Nat) :
    known (s.setBucket k ((s.bucket k).getD [])) service now = known s service now := by
  rw [known_eq_knownOf, known_eq_knownOf, if_pos hnode,
    if_pos (Store.nodeExists_setBucket hnode _ _)]
  cases hb : s.bucket k with
  | none =>
    have hab := Store.bucket_eq_none.mp hb
    have : s.entries.any (fun e => e.1 == k) = false := by
      rw [List.any_eq_false]; intro e he; simpa using hab e he
    unfold Store.setBucket
    simp only [this, Bool.false_eq_true, if_false, Option.getD_none, knownOf_append, knownOf_cons,
      contrib_nil, knownOf_nil, List.append_nil]
  | some b =>
    have hm := Store.bucket_mem hb
    have hany : s.entries.any (fun e => e.1 == k) = true :=
      List.any_eq_true.mpr ⟨(k, b), hm, by simp⟩
    unfold Store.setBucket
    simp only [hany, if_true, Option.getD_some]
    congr 1
    conv => rhs; rw [← List.map_id s.entries]
    apply List.map_congr_left
    intro e he
    obtain ⟨k1, b1⟩ := e
    by_cases hk : k1 = k
    · subst hk
      have : s.bucket k1 = some b1 := hI.bucket_of_mem he
      rw [hb] at this
      cases this
      simp
    · simp [hk]

/-- a bucket that contributes nothing, put where a bucket contributed nothing, changes nothing -/
theorem known_setBucket_of_nil {s : Store} (hI : Inv s) {service : Name}
    (hnode : s.nodeExists (getKey service) = true) {k : Key} {b : Bucket} {now : Nat}
    (h0 : contrib service now k ((s.bucket k).getD []) = [])
    (h1 : contrib service now k b = []) :
    known (s.setBucket k b) service now = known s service now := by
  rw [known_setBucket_congr s k (h1.trans h0.symm), known_setBucket_getD hI hnode]


/-! ### 8. items 2 and 3 for announcements: re-announcement, goodbye -/

/-- the owner name `full` is free in the store: no cache entry under its key, nothing registered
locally under the name. (True of every name other than the service and the listener's own in the
store `ServiceDiscovery::new` starts from: `discoveryInit_ownerFree`.) -/
def OwnerFree (s : Store) (full : Name) : Prop :=
  KeyFree s (getKey full) ∧ ∀ r, r.name = full → abs s r ≠ some .auth

/-- under a free owner name no record of a peer's set is registered locally -/
theorem OwnerFree.notAuth {s : Store} {full : Name} (h : OwnerFree s full) {ttl : Nat}
    {rs : List RR} (ho : OneOwner full ttl rs) : NotAuth s rs :=
  fun r hr => h.2 r (ho.name r hr)

/-- the same for the records `into_records` makes -/
theorem OwnerFree.notAuth_inst {s : Store} {full : Name} (h : OwnerFree s full)
    (ips : List (Bool × Nat)) (ports : List Nat) (ss : List Bytes) (ttl : Nat) :
    NotAuth s (instRecords full ips ports ss ttl) :=
  fun r hr => h.2 r (mem_instRecords hr).1

/-- the RFC 6762 goodbye packet of an instance: its records with TTL 0. (NOT what the library's
`remove_service_from_discovery` sends: that is `announce(true)`, the records with the cache-flush
bit and their TTL — `libraryGoodbye` in `Props/C15Audit.lean`.) -/
def goodbye (full : Name) (ips : List (Bool × Nat)) (ports : List Nat) (ss : List Bytes) : Packet :=
  announce (instRecords full ips ports ss 0)

/-- **Items 2/3: what was received last counts** (as lists, no reordering; no assumption on the
two times). An instance's records received at `t1` with TTL `ttl1` and again — same addresses,
ports, TXT strings — at `t2` with TTL `ttl2`: `get_known_services` is, at every `now'`, what it
would be had only the second response been received. -/
theorem last_announcement_counts {service own : Name} (inst : Label) (hown : own ≠ inst :: service)
    {s0 : Store} (hI : Inv s0) (hfree : OwnerFree s0 (inst :: service))
    (ips : List (Bool × Nat)) (ports : List Nat) (ss : List Bytes) (ttl1 ttl2 t1 t2 now' : Nat)
    (hips : ips.Nodup) (hports : ports.Nodup) :
    known (ingest (announce (instRecords (inst :: service) ips ports ss ttl2)) service own
        (ingest (announce (instRecords (inst :: service) ips ports ss ttl1)) service own s0 t1) t2)
        service now' =
      known (ingest (announce (instRecords (inst :: service) ips ports ss ttl2)) service own s0 t2)
        service now' := by
  rw [ingest_announce service own inst hown, ingest_announce service own inst hown,
    ingest_announce service own inst hown]
  exact known_last_reception_counts hI
    (instRecords_oneOwner _ ss ttl1 hips hports) (instRecords_oneOwner _ ss ttl2 hips hports)
    (instKey_prefix inst service) hfree.1 (hfree.notAuth_inst _ _ _ _) (hfree.notAuth_inst _ _ _ _)
    (instRecords_sameData ..)
    (by rw [fromRecords_instRecords service inst ips ports ss ttl1 hips hports,
      fromRecords_instRecords service inst ips ports ss ttl2 hips hports]) t1 t2 now'

/-- **Item 2, re-announcement**: the instance is reported ONCE, with the same data, and its
lifetime is counted from the last reception; the instances of other peers are as before. -/
theorem known_reannounce {service own : Name} (inst : Label) (hown : own ≠ inst :: service)
    {s0 : Store} (hI : Inv s0) (hnode : s0.nodeExists (getKey service) = true)
    (hfree : OwnerFree s0 (inst :: service))
    (ips : List (Bool × Nat)) (ports : List Nat) (ss : List Bytes) (ttl1 ttl2 t1 t2 now' : Nat)
    (hips : ips.Nodup) (hports : ports.Nodup) :
    (known (ingest (announce (instRecords (inst :: service) ips ports ss ttl2)) service own
        (ingest (announce (instRecords (inst :: service) ips ports ss ttl1)) service own s0 t1) t2)
        service now').Perm
      (aliveInst (advertised inst ips ports ss) t2 ttl2 now' ++ known s0 service now') := by
  rw [last_announcement_counts inst hown hI hfree ips ports ss ttl1 ttl2 t1 t2 now' hips hports]
  exact known_after_announce_any inst hown hI hnode ips ports ss ttl2 t2 now' hips hports hfree.1
    (hfree.notAuth_inst _ _ _ _)

/-- **Item 2, idempotence**: while the first announcement is alive, receiving the same
announcement again (same TTL, later or equal time) does not change `get_known_services` at all —
same instances, same data, same order. -/
theorem reannounce_idempotent {service own : Name} (inst : Label) (hown : own ≠ inst :: service)
    {s0 : Store} (hI : Inv s0) (hfree : OwnerFree s0 (inst :: service))
    (ips : List (Bool × Nat)) (ports : List Nat) (ss : List Bytes) (ttl t1 t2 now' : Nat)
    (hips : ips.Nodup) (hports : ports.Nodup) (ht : t1 ≤ t2) (halive : now' < t1 + 1000 * ttl) :
    known (ingest (announce (instRecords (inst :: service) ips ports ss ttl)) service own
        (ingest (announce (instRecords (inst :: service) ips ports ss ttl)) service own s0 t1) t2)
        service now' =
      known (ingest (announce (instRecords (inst :: service) ips ports ss ttl)) service own s0 t1)
        service now' := by
  rw [last_announcement_counts inst hown hI hfree ips ports ss ttl ttl t1 t2 now' hips hports,
    ingest_announce service own inst hown, ingest_announce service own inst hown]
  exact known_reception_time_congr hI (instRecords_oneOwner _ ss ttl hips hports)
    (instKey_prefix inst service) hfree.1 (hfree.notAuth_inst _ _ _ _)
    ⟨fun _ => halive, fun _ => by omega⟩

/-- and it extends the lifetime: between the first expiry and the second the instance is still
reported (it would not be without the re-announcement) -/
theorem reannounce_extends {service own : Name} (inst : Label) (hown : own ≠ inst :: service)
    {s0 : Store} (hI : Inv s0) (hnode : s0.nodeExists (getKey service) = true)
    (hfree : OwnerFree s0 (inst :: service))
    (ips : List (Bool × Nat)) (ports : List Nat) (ss : List Bytes) (ttl t1 t2 now' : Nat)
    (hips : ips.Nodup) (hports : ports.Nodup) (h1 : t1 + 1000 * ttl ≤ now')
    (h2 : now' < t2 + 1000 * ttl) :
    advertised inst ips ports ss ∈
      known (ingest (announce (instRecords (inst :: service) ips ports ss ttl)) service own
        (ingest (announce (instRecords (inst :: service) ips ports ss ttl)) service own s0 t1) t2)
        service now' ∧
    (known (ingest (announce (instRecords (inst :: service) ips ports ss ttl)) service own s0 t1)
        service now').Perm (known s0 service now') := by
  constructor
  · rw [(known_reannounce inst hown hI hnode hfree ips ports ss ttl ttl t1 t2 now' hips
      hports).mem_iff]
    simp [aliveInst, h2]
  · have := known_after_announce_any inst hown hI hnode ips ports ss ttl t1 now' hips hports
      hfree.1 (hfree.notAuth_inst _ _ _ _)
    simpa [aliveInst, show ¬ now' < t1 + 1000 * ttl by omega] using this

/-- **Item 3, goodbye then announce**: the RFC-style goodbye (the records with TTL 0; not the
packet the library itself sends on removal) at `t1` followed by the announcement at `t2` gives the
same `get_known_services` as the announcement alone. -/
theorem goodbye_then_announce {service own : Name} (inst : Label) (hown : own ≠ inst :: service)
    {s0 : Store} (hI : Inv s0) (hfree : OwnerFree s0 (inst :: service))
    (ips : List (Bool × Nat)) (ports : List Nat) (ss : List Bytes) (ttl t1 t2 now' : Nat)
    (hips : ips.Nodup) (hports : ports.Nodup) :
    known (ingest (announce (instRecords (inst :: service) ips ports ss ttl)) service own
        (ingest (goodbye (inst :: service) ips ports ss) service own s0 t1) t2) service now' =
      known (ingest (announce (instRecords (inst :: service) ips ports ss ttl)) service own s0 t2)
        service now' :=
  last_announcement_counts inst hown hI hfree ips ports ss 0 ttl t1 t2 now' hips hports

/-- the store after an announcement followed by the goodbye -/
theorem known_after_goodbye_aux {service own : Name} (inst : Label) (hown : own ≠ inst :: service)
    {s0 : Store} (hI : Inv s0) (hnode : s0.nodeExists (getKey service) = true)
    (hfree : OwnerFree s0 (inst :: service))
    (ips : List (Bool × Nat)) (ports : List Nat) (ss : List Bytes) (t now' : Nat)
    (hips : ips.Nodup) (hports : ports.Nodup) (hle : t ≤ now') :
    known (ingest (goodbye (inst :: service) ips ports ss) service own s0 t) service now' =
      known s0 service now' := by
  unfold goodbye
  rw [ingest_announce service own inst hown,
    foldl_addCached_oneOwner hI (instRecords_oneOwner _ ss 0 hips hports) hfree.1
      (hfree.notAuth_inst _ _ _ _) t]
  apply known_setBucket_of_nil hI hnode (contrib_of_keyFree hfree.1 service now')
  rw [contrib_once (instRecords_ne_nil _ _ _ _ _) (instKey_prefix inst service) hfree.1, if_neg (by omega)]

/-- **Item 3, RFC-style goodbye alone**: after the announcement at `t1` and the TTL-0 goodbye at
`t2`, from `t2` on `get_known_services` of the model is exactly (order included) what the store
before the announcement gives: the instance is gone, at once and for good, however long its TTL
was; nothing else changes. This is about a peer that sends TTL 0. The library's own
`remove_service_from_discovery` sends the records with the cache-flush bit and their TTL instead;
then the instance stays known for one more second (`Props/C15Audit.lean`:
`known_library_goodbye`, `library_goodbye_still_known`, `library_goodbye_gone`). -/
theorem goodbye_removes {service own : Name} (inst : Label) (hown : own ≠ inst :: service)
    {s0 : Store} (hI : Inv s0) (hnode : s0.nodeExists (getKey service) = true)
    (hfree : OwnerFree s0 (inst :: service))
    (ips : List (Bool × Nat)) (ports : List Nat) (ss : List Bytes) (ttl t1 t2 now' : Nat)
    (hips : ips.Nodup) (hports : ports.Nodup) (hle : t2 ≤ now') :
    known (ingest (goodbye (inst :: service) ips ports ss) service own
        (ingest (announce (instRecords (inst :: service) ips ports ss ttl)) service own s0 t1) t2)
        service now' =
      known s0 service now' := by
  unfold goodbye
  rw [last_announcement_counts inst hown hI hfree ips ports ss ttl 0 t1 t2 now' hips hports]
  exact known_after_goodbye_aux inst hown hI hnode hfree ips ports ss t2 now' hips hports hle


/-! ### 9. item 2, changed data: records of two different descriptions of one instance -/

/-- the attribute entries a TXT record with strings `ss` contributes (`txtOf`) -/
def txtAttrs (ss : List Bytes) : Attrs := (Txt.attributes ss).filter (fun e => !e.1.isEmpty)

/-- the RDATA of a TXT record with strings `ss` -/
def txtRData (ss : List Bytes) : RData := .flat 16 [.strs ss]

/-- address, SRV and TXT records of one owner; `instRecords` is the case of one TXT record -/
def partRecords (full : Name) (ips : List (Bool × Nat)) (ports : List Nat)
    (txts : List (List Bytes)) (ttl : Nat) : List RR :=
  ips.map (fun ip => mkRR full ttl (ipRData ip)) ++
    (ports.map (fun p => mkRR full ttl (srvRData full p)) ++
      txts.map (fun ss => mkRR full ttl (txtRData ss)))

/-- the records `into_records` produces, as a `partRecords` with one TXT record -/
theorem instRecords_eq_part (full : Name) (ips : List (Bool × Nat)) (ports : List Nat)
    (ss : List Bytes) (ttl : Nat) :
    instRecords full ips ports ss ttl = partRecords full ips ports [ss] ttl := rfl

/-- filtering address, SRV and TXT records kind by kind -/
theorem filter_partRecords (p : RR → Bool) (full : Name) (ips : List (Bool × Nat))
    (ports : List Nat) (txts : List (List Bytes)) (ttl : Nat) :
    (partRecords full ips ports txts ttl).filter p =
      partRecords full (ips.filter (fun x => p (mkRR full ttl (ipRData x))))
        (ports.filter (fun x => p (mkRR full ttl (srvRData full x))))
        (txts.filter (fun x => p (mkRR full ttl (txtRData x)))) ttl := by
  simp [partRecords, List.filter_append, List.filter_map, Function.comp_def]

/-- records of one owner and class, whatever their TTLs, are equal (`PartialEq for ResourceRecord`) iff their RDATA is -/
theorem rrEq_mkRR' (full : Name) (t1 t2 : Nat) (a b : RData) :
    rrEq (mkRR full t1 a) (mkRR full t2 b) = true ↔ a = b := by
  simp [rrEq_iff, mkRR]

/-- an address record's RDATA is never an SRV record's -/
theorem ipRData_ne_srv (x : Bool × Nat) (full : Name) (p : Nat) : ipRData x ≠ srvRData full p := by
  obtain ⟨b, a⟩ := x; cases b <;> simp [ipRData, srvRData]
/-- an address record's RDATA is never a TXT record's -/
theorem ipRData_ne_txt (x : Bool × Nat) (ss : List Bytes) : ipRData x ≠ txtRData ss := by
  obtain ⟨b, a⟩ := x; cases b <;> simp [ipRData, txtRData]
/-- an SRV record's RDATA is never a TXT record's -/
theorem srvRData_ne_txt (full : Name) (p : Nat) (ss : List Bytes) :
    srvRData full p ≠ txtRData ss := by simp [srvRData, txtRData]

/-- an address record has an equal among an owner's records iff its address is among the addresses -/
theorem any_part_ip (full : Name) (ips : List (Bool × Nat)) (ports : List Nat)
    (txts : List (List Bytes)) (ttl t' : Nat) (x : Bool × Nat) :
    (partRecords full ips ports txts ttl).any (fun r => rrEq (mkRR full t' (ipRData x)) r) =
      ips.contains x := by
  rw [Bool.eq_iff_iff, List.any_eq_true, List.contains_iff_mem]
  constructor
  · rintro ⟨r, hr, he⟩
    simp only [partRecords, List.mem_append, List.mem_map] at hr
    rcases hr with ⟨y, hy, rfl⟩ | ⟨y, _, rfl⟩ | ⟨y, _, rfl⟩
    · rw [rrEq_mkRR'] at he; rw [ipRData_inj he]; exact hy
    · rw [rrEq_mkRR'] at he; exact absurd he (ipRData_ne_srv _ _ _)
    · rw [rrEq_mkRR'] at he; exact absurd he (ipRData_ne_txt _ _)
  · intro h
    refine ⟨mkRR full ttl (ipRData x), ?_, (rrEq_mkRR' _ _ _ _ _).mpr rfl⟩
    simp only [partRecords, List.mem_append, List.mem_map]
    exact .inl ⟨x, h, rfl⟩

/-- an SRV record has an equal among an owner's records iff its port is among the ports -/
theorem any_part_srv (full : Name) (ips : List (Bool × Nat)) (ports : List Nat)
    (txts : List (List Bytes)) (ttl t' : Nat) (x : Nat) :
    (partRecords full ips ports txts ttl).any (fun r => rrEq (mkRR full t' (srvRData full x)) r) =
      ports.contains x := by
  rw [Bool.eq_iff_iff, List.any_eq_true, List.contains_iff_mem]
  constructor
  · rintro ⟨r, hr, he⟩
    simp only [partRecords, List.mem_append, List.mem_map] at hr
    rcases hr with ⟨y, _, rfl⟩ | ⟨y, hy, rfl⟩ | ⟨y, _, rfl⟩
    · rw [rrEq_mkRR'] at he; exact absurd he.symm (ipRData_ne_srv _ _ _)
    · rw [rrEq_mkRR'] at he
      have : x = y := by simpa [srvRData] using he
      rw [this]; exact hy
    · rw [rrEq_mkRR'] at he; exact absurd he (srvRData_ne_txt _ _ _)
  · intro h
    refine ⟨mkRR full ttl (srvRData full x), ?_, (rrEq_mkRR' _ _ _ _ _).mpr rfl⟩
    simp only [partRecords, List.mem_append, List.mem_map]
    exact .inr (.inl ⟨x, h, rfl⟩)

/-- a TXT record has an equal among an owner's records iff its strings are among the TXT records' strings -/
theorem any_part_txt (full : Name) (ips : List (Bool × Nat)) (ports : List Nat)
    (txts : List (List Bytes)) (ttl t' : Nat) (x : List Bytes) :
    (partRecords full ips ports txts ttl).any (fun r => rrEq (mkRR full t' (txtRData x)) r) =
      txts.contains x := by
  rw [Bool.eq_iff_iff, List.any_eq_true, List.contains_iff_mem]
  constructor
  · rintro ⟨r, hr, he⟩
    simp only [partRecords, List.mem_append, List.mem_map] at hr
    rcases hr with ⟨y, _, rfl⟩ | ⟨y, _, rfl⟩ | ⟨y, hy, rfl⟩
    · rw [rrEq_mkRR'] at he; exact absurd he.symm (ipRData_ne_txt _ _)
    · rw [rrEq_mkRR'] at he; exact absurd he.symm (srvRData_ne_txt _ _ _)
    · rw [rrEq_mkRR'] at he
      have : x = y := by simpa [txtRData] using he
      rw [this]; exact hy
  · intro h
    refine ⟨mkRR full ttl (txtRData x), ?_, (rrEq_mkRR' _ _ _ _ _).mpr rfl⟩
    simp only [partRecords, List.mem_append, List.mem_map]
    exact .inr (.inr ⟨x, h, rfl⟩)


/-- all records of a `partRecords` are owned by `full` -/
theorem mem_partRecords_name {full : Name} {ips : List (Bool × Nat)} {ports : List Nat}
    {txts : List (List Bytes)} {ttl : Nat} {r : RR} (h : r ∈ partRecords full ips ports txts ttl) :
    r.name = full := by
  simp only [partRecords, List.mem_append, List.mem_map] at h
  rcases h with ⟨_, _, rfl⟩ | ⟨_, _, rfl⟩ | ⟨_, _, rfl⟩ <;> rfl

/-- `from_records`' loop over address, SRV and TXT records of one owner -/
theorem foldl_recStep_part (full : Name) (ips : List (Bool × Nat)) (ports : List Nat)
    (txts : List (List Bytes)) (ttl : Nat) (i : Instance) :
    (partRecords full ips ports txts ttl).foldl recStep i =
      { i with ips := ips.foldl insertNew i.ips, ports := ports.foldl insertNew i.ports,
               attrs := txts.foldl (fun a ss => attrsExtend a (txtAttrs ss)) i.attrs } := by
  unfold partRecords
  rw [List.foldl_append, List.foldl_append, foldl_recStep_ips, foldl_recStep_ports]
  generalize ips.foldl insertNew i.ips = xs
  generalize ports.foldl insertNew i.ports = ys
  generalize i.attrs = a
  induction txts generalizing a with
  | nil => rfl
  | cons ss rest ih =>
    rw [List.map_cons, List.foldl_cons, List.foldl_cons]
    exact ih _

/-- `from_records` of two runs of records of `inst.service`, the address and port lists each
without duplicates within and across the runs -/
theorem fromRecords_two_parts (service : Name) (inst : Label) (ipsA ipsB : List (Bool × Nat))
    (portsA portsB : List Nat) (txtsA txtsB : List (List Bytes)) (ttlA ttlB : Nat)
    (hips : (ipsA ++ ipsB).Nodup) (hports : (portsA ++ portsB).Nodup)
    (hne : partRecords (inst :: service) ipsA portsA txtsA ttlA ++
      partRecords (inst :: service) ipsB portsB txtsB ttlB ≠ []) :
    fromRecords service (partRecords (inst :: service) ipsA portsA txtsA ttlA ++
        partRecords (inst :: service) ipsB portsB txtsB ttlB) =
      some { name := inst, ips := ipsA ++ ipsB, ports := portsA ++ portsB,
             attrs := (txtsA ++ txtsB).foldl (fun a ss => attrsExtend a (txtAttrs ss)) [] } := by
  have hw : Name.without (inst :: service) service = some [inst] :=
    (without_iff _ _ _).mpr ⟨by simp, rfl⟩
  rw [fromRecords_eq, findSome?_without_single_owner service hne (o := inst :: service) (by
    intro r hr
    rcases List.mem_append.mp hr with h | h <;> exact mem_partRecords_name h), hw]
  simp only [Option.map_some, List.foldl_append, foldl_recStep_part]
  rw [List.nodup_append] at hips hports
  rw [foldl_insertNew ipsA [] hips.1 (by simp), foldl_insertNew portsA [] hports.1 (by simp),
    List.nil_append, List.nil_append,
    foldl_insertNew ipsB ipsA hips.2.1 (fun x hx hm => hips.2.2 x hm x hx rfl),
    foldl_insertNew portsB portsA hports.2.1 (fun x hx hm => hports.2.2 x hm x hx rfl)]
  simp [Name.display]


/-- of an old list `xs`: what is alive when the entries announced again (those in `ys`) live as the
second reception says (`a2`) and the others as the first says (`a1`) -/
def keptOld {α : Type} [BEq α] (xs ys : List α) (a1 a2 : Bool) : List α :=
  xs.filter (fun x => if ys.contains x = true then a2 else a1)

/-- of a new list `ys`: the entries not in the old list `xs`, if the second reception is alive -/
def addedNew {α : Type} [BEq α] (xs ys : List α) (a2 : Bool) : List α :=
  ys.filter (fun y => !xs.contains y && a2)

/-- `PartialEq for ResourceRecord` is symmetric, inside `any` -/
theorem any_flip (rs : List RR) (x : RR) :
    rs.any (fun r => rrEq r x) = rs.any (fun r => rrEq x r) := by
  congr 1; funext r; exact rrEq_comm r x

/-- the live records after two receptions of address / SRV / TXT records of one owner -/
theorem liveTwo_part (full : Name) (ips1 ips2 : List (Bool × Nat)) (ports1 ports2 : List Nat)
    (txts1 txts2 : List (List Bytes)) (ttl1 ttl2 e1 e2 now' : Nat) :
    liveTwo (partRecords full ips1 ports1 txts1 ttl1) (partRecords full ips2 ports2 txts2 ttl2)
        e1 e2 now' =
      partRecords full (keptOld ips1 ips2 (decide (now' < e1)) (decide (now' < e2)))
          (keptOld ports1 ports2 (decide (now' < e1)) (decide (now' < e2)))
          (keptOld txts1 txts2 (decide (now' < e1)) (decide (now' < e2))) ttl1 ++
        partRecords full (addedNew ips1 ips2 (decide (now' < e2)))
          (addedNew ports1 ports2 (decide (now' < e2)))
          (addedNew txts1 txts2 (decide (now' < e2))) ttl2 := by
  unfold liveTwo keptOld addedNew
  rw [filter_partRecords, filter_partRecords]
  simp only [any_part_ip, any_part_srv, any_part_txt, any_flip]

/-- what is kept of the old set and what is added from the new one are disjoint duplicate-free lists -/
theorem keptOld_addedNew_nodup {α : Type} [BEq α] [LawfulBEq α] {xs ys : List α} (hx : xs.Nodup)
    (hy : ys.Nodup) (a1 a2 : Bool) : (keptOld xs ys a1 a2 ++ addedNew xs ys a2).Nodup := by
  rw [List.nodup_append]
  refine ⟨hx.filter _, hy.filter _, ?_⟩
  intro a ha b hb hab
  subst hab
  have h1 := (List.mem_filter.mp ha).1
  have h2 := (List.mem_filter.mp hb).2
  simp [h1] at h2

/-- the instance the MODEL reports after two different descriptions of `inst.service` have been
received: `a1` / `a2` say whether the first / second reception is still alive. The order of the
lists and "the second TXT record's values overwrite the first's" come from the model's
insertion-ordered bucket; in Rust the sets are the same and a key with two different values has
either value. -/
def mergedInstance (inst : Label) (ips1 ips2 : List (Bool × Nat)) (ports1 ports2 : List Nat)
    (ss1 ss2 : List Bytes) (a1 a2 : Bool) : Instance :=
  { name := inst,
    ips := keptOld ips1 ips2 a1 a2 ++ addedNew ips1 ips2 a2,
    ports := keptOld ports1 ports2 a1 a2 ++ addedNew ports1 ports2 a2,
    attrs := (keptOld [ss1] [ss2] a1 a2 ++ addedNew [ss1] [ss2] a2).foldl
      (fun a ss => attrsExtend a (txtAttrs ss)) [] }

/-- **Item 2, changed data, exactly.** `inst.service` is announced at `t1` with addresses `ips1`,
ports `ports1`, TXT strings `ss1`, TTL `ttl1`, and at `t2` with `ips2`, `ports2`, `ss2`, `ttl2`.
The store keeps every record until its own expiry (a record announced both times: until the second
reception's expiry), so `get_known_services` reports — besides what `s0` gives — ONE instance made
of whatever is alive; nothing if no record is alive. In the MODEL that instance is exactly
`mergedInstance` (bucket = insertion order). Of the Rust code (bucket = `HashMap` order) this holds
for the name, the address set, the port set and the attribute keys, and for the value of every key
that the live TXT records do not give differently; the order-independent statement is
`changed_data_union_audit` in `Props/C15Audit.lean`. -/
theorem known_changed_data {service own : Name} (inst : Label) (hown : own ≠ inst :: service)
    {s0 : Store} (hI : Inv s0) (hnode : s0.nodeExists (getKey service) = true)
    (hfree : OwnerFree s0 (inst :: service))
    (ips1 ips2 : List (Bool × Nat)) (ports1 ports2 : List Nat) (ss1 ss2 : List Bytes)
    (ttl1 ttl2 t1 t2 now' : Nat) (hips1 : ips1.Nodup) (hports1 : ports1.Nodup)
    (hips2 : ips2.Nodup) (hports2 : ports2.Nodup) :
    (known (ingest (announce (instRecords (inst :: service) ips2 ports2 ss2 ttl2)) service own
        (ingest (announce (instRecords (inst :: service) ips1 ports1 ss1 ttl1)) service own s0 t1)
        t2) service now').Perm
      ((if (liveTwo (instRecords (inst :: service) ips1 ports1 ss1 ttl1)
              (instRecords (inst :: service) ips2 ports2 ss2 ttl2)
              (t1 + 1000 * ttl1) (t2 + 1000 * ttl2) now').isEmpty then []
        else [mergedInstance inst ips1 ips2 ports1 ports2 ss1 ss2
                (decide (now' < t1 + 1000 * ttl1)) (decide (now' < t2 + 1000 * ttl2))]) ++
        known s0 service now') := by
  rw [ingest_announce service own inst hown, ingest_announce service own inst hown]
  have := known_two_receptions hI hnode (instRecords_oneOwner _ ss1 ttl1 hips1 hports1)
    (instRecords_oneOwner _ ss2 ttl2 hips2 hports2) (instKey_prefix inst service) hfree.1
    (hfree.notAuth_inst _ _ _ _) (hfree.notAuth_inst _ _ _ _) t1 t2 now'
  refine this.trans (List.Perm.of_eq ?_)
  congr 1
  split
  · rfl
  · rename_i hne
    rw [instRecords_eq_part, instRecords_eq_part, liveTwo_part] at hne ⊢
    rw [fromRecords_two_parts service inst _ _ _ _ _ _ ttl1 ttl2
      (keptOld_addedNew_nodup hips1 hips2 _ _) (keptOld_addedNew_nodup hports1 hports2 _ _)
      (by intro h; rw [h] at hne; exact hne rfl)]
    rfl


/-- both receptions alive: all of the old list is kept -/
theorem keptOld_true_true {α : Type} [BEq α] (xs ys : List α) : keptOld xs ys true true = xs := by
  unfold keptOld
  rw [List.filter_eq_self]
  intro a _; split <;> rfl

/-- first reception expired, second alive: of the old list what was announced again -/
theorem keptOld_false_true {α : Type} [BEq α] (xs ys : List α) :
    keptOld xs ys false true = xs.filter (fun x => ys.contains x) := by
  unfold keptOld
  apply List.filter_congr
  intro a _; split <;> simp_all

/-- second reception expired, first alive: of the old list what was NOT announced again -/
theorem keptOld_true_false {α : Type} [BEq α] (xs ys : List α) :
    keptOld xs ys true false = xs.filter (fun x => !ys.contains x) := by
  unfold keptOld
  apply List.filter_congr
  intro a _; split <;> simp_all

/-- both expired: nothing of the old list -/
theorem keptOld_false_false {α : Type} [BEq α] (xs ys : List α) : keptOld xs ys false false = [] := by
  unfold keptOld
  rw [List.filter_eq_nil_iff]
  intro a _; split <;> simp

/-- second reception alive: the entries of the new list that were not in the old one -/
theorem addedNew_true {α : Type} [BEq α] (xs ys : List α) :
    addedNew xs ys true = ys.filter (fun y => !xs.contains y) := by
  unfold addedNew
  apply List.filter_congr
  intro a _; simp

/-- second reception expired: nothing new -/
theorem addedNew_false {α : Type} [BEq α] (xs ys : List α) : addedNew xs ys false = [] := by
  unfold addedNew
  rw [List.filter_eq_nil_iff]
  intro a _; simp

/-- `keptOld` for the one TXT record of each description -/
theorem keptOld_single {α : Type} [BEq α] [LawfulBEq α] [DecidableEq α] (a b : α) (a1 a2 : Bool) :
    keptOld [a] [b] a1 a2 =
      if a = b then (if a2 = true then [a] else []) else (if a1 = true then [a] else []) := by
  unfold keptOld
  by_cases h : a = b
  · subst h; cases a2 <;> simp
  · cases a1 <;> simp [h]

/-- `addedNew` for the one TXT record of each description -/
theorem addedNew_single {α : Type} [BEq α] [LawfulBEq α] [DecidableEq α] (a b : α) (a2 : Bool) :
    addedNew [a] [b] a2 = if a = b then [] else (if a2 = true then [b] else []) := by
  unfold addedNew
  by_cases h : a = b
  · subst h; simp
  · have h' : ¬ b = a := fun e => h e.symm
    cases a2 <;> simp [h, h']

/-- **Item 2, changed data, while both announcements are alive: the union — in the model's bucket
order.** Addresses and ports of the first description in their order, then the new ones of the
second; the attributes of the first extended (`HashMap::extend`: later values overwrite) by those
of the second. "Later" is the model's insertion order: Rust extends in `HashMap` iteration order,
so for a key whose value CHANGED between the two announcements Rust reports the old or the new
value (`C15AuditEx.changed_data_conflict_unspecified`); unions and unchanged keys are as stated
(`changed_data_union_any_order`, `changed_data_union_audit` in `Props/C15Audit.lean`). -/
theorem changed_data_union {service own : Name} (inst : Label) (hown : own ≠ inst :: service)
    {s0 : Store} (hI : Inv s0) (hnode : s0.nodeExists (getKey service) = true)
    (hfree : OwnerFree s0 (inst :: service))
    (ips1 ips2 : List (Bool × Nat)) (ports1 ports2 : List Nat) (ss1 ss2 : List Bytes)
    (ttl1 ttl2 t1 t2 now' : Nat) (hips1 : ips1.Nodup) (hports1 : ports1.Nodup)
    (hips2 : ips2.Nodup) (hports2 : ports2.Nodup)
    (h1 : now' < t1 + 1000 * ttl1) (h2 : now' < t2 + 1000 * ttl2) :
    (known (ingest (announce (instRecords (inst :: service) ips2 ports2 ss2 ttl2)) service own
        (ingest (announce (instRecords (inst :: service) ips1 ports1 ss1 ttl1)) service own s0 t1)
        t2) service now').Perm
      ({ name := inst,
         ips := ips1 ++ ips2.filter (fun x => !ips1.contains x),
         ports := ports1 ++ ports2.filter (fun x => !ports1.contains x),
         attrs := if ss1 = ss2 then attrsExtend [] (txtAttrs ss1)
                  else attrsExtend (attrsExtend [] (txtAttrs ss1)) (txtAttrs ss2) } ::
        known s0 service now') := by
  have := known_changed_data inst hown hI hnode hfree ips1 ips2 ports1 ports2 ss1 ss2 ttl1 ttl2
    t1 t2 now' hips1 hports1 hips2 hports2
  have hne : (liveTwo (instRecords (inst :: service) ips1 ports1 ss1 ttl1)
      (instRecords (inst :: service) ips2 ports2 ss2 ttl2)
      (t1 + 1000 * ttl1) (t2 + 1000 * ttl2) now').isEmpty = false := by
    rw [instRecords_eq_part, instRecords_eq_part, liveTwo_part]
    simp [h1, h2, keptOld_true_true, partRecords]
  rw [hne] at this
  refine this.trans (List.Perm.of_eq ?_)
  unfold mergedInstance
  rw [keptOld_single, addedNew_single]
  simp only [Bool.false_eq_true, if_false, List.cons_append, List.nil_append, h1,
    h2, decide_true, keptOld_true_true, addedNew_true, if_true]
  congr 2
  by_cases hs : ss1 = ss2
  · simp [hs]
  · simp [hs]

/-- **Item 2, changed data, after the first announcement has expired**: only what the second
announcement said is reported — its addresses and ports (those it shares with the first in the
first's order, then the others), and its attributes alone. -/
theorem changed_data_after_first_expired {service own : Name} (inst : Label)
    (hown : own ≠ inst :: service) {s0 : Store} (hI : Inv s0)
    (hnode : s0.nodeExists (getKey service) = true) (hfree : OwnerFree s0 (inst :: service))
    (ips1 ips2 : List (Bool × Nat)) (ports1 ports2 : List Nat) (ss1 ss2 : List Bytes)
    (ttl1 ttl2 t1 t2 now' : Nat) (hips1 : ips1.Nodup) (hports1 : ports1.Nodup)
    (hips2 : ips2.Nodup) (hports2 : ports2.Nodup)
    (h1 : t1 + 1000 * ttl1 ≤ now') (h2 : now' < t2 + 1000 * ttl2) :
    (known (ingest (announce (instRecords (inst :: service) ips2 ports2 ss2 ttl2)) service own
        (ingest (announce (instRecords (inst :: service) ips1 ports1 ss1 ttl1)) service own s0 t1)
        t2) service now').Perm
      ({ name := inst,
         ips := ips1.filter (fun x => ips2.contains x) ++ ips2.filter (fun x => !ips1.contains x),
         ports := ports1.filter (fun x => ports2.contains x) ++
                  ports2.filter (fun x => !ports1.contains x),
         attrs := attrsExtend [] (txtAttrs ss2) } ::
        known s0 service now') := by
  have := known_changed_data inst hown hI hnode hfree ips1 ips2 ports1 ports2 ss1 ss2 ttl1 ttl2
    t1 t2 now' hips1 hports1 hips2 hports2
  have h1' : ¬ now' < t1 + 1000 * ttl1 := by omega
  have hne : (liveTwo (instRecords (inst :: service) ips1 ports1 ss1 ttl1)
      (instRecords (inst :: service) ips2 ports2 ss2 ttl2)
      (t1 + 1000 * ttl1) (t2 + 1000 * ttl2) now').isEmpty = false := by
    rw [instRecords_eq_part, instRecords_eq_part, liveTwo_part]
    simp only [h1', h2, decide_true, decide_false, keptOld_single, addedNew_single]
    by_cases hs : ss1 = ss2
    · simp [hs, partRecords]
    · simp [hs, partRecords]
  rw [hne] at this
  refine this.trans (List.Perm.of_eq ?_)
  unfold mergedInstance
  rw [keptOld_single, addedNew_single]
  simp only [Bool.false_eq_true, if_false, List.cons_append, List.nil_append, h1',
    h2, decide_true, decide_false, if_true]
  rw [keptOld_false_true, keptOld_false_true, addedNew_true, addedNew_true]
  congr 2
  by_cases hs : ss1 = ss2
  · simp [hs]
  · simp [hs]

/-- as sets these are the second announcement's addresses and ports -/
theorem mem_shared_then_new {α : Type} [BEq α] [LawfulBEq α] (xs ys : List α) (a : α) :
    a ∈ xs.filter (fun x => ys.contains x) ++ ys.filter (fun x => !xs.contains x) ↔ a ∈ ys := by
  simp only [List.mem_append, List.mem_filter, List.contains_iff_mem, Bool.not_eq_true']
  constructor
  · rintro (⟨_, h⟩ | ⟨h, _⟩) <;> exact h
  · intro h
    by_cases hx : a ∈ xs
    · exact .inl ⟨hx, h⟩
    · exact .inr ⟨h, by simpa using hx⟩

/-- **Item 2, changed data, when the second announcement expires first** (a short TTL, or a
goodbye for the new description): what only the first announcement said is still reported until
the first expires — or nothing, if the second had repeated everything. -/
theorem changed_data_after_second_expired {service own : Name} (inst : Label)
    (hown : own ≠ inst :: service) {s0 : Store} (hI : Inv s0)
    (hnode : s0.nodeExists (getKey service) = true) (hfree : OwnerFree s0 (inst :: service))
    (ips1 ips2 : List (Bool × Nat)) (ports1 ports2 : List Nat) (ss1 ss2 : List Bytes)
    (ttl1 ttl2 t1 t2 now' : Nat) (hips1 : ips1.Nodup) (hports1 : ports1.Nodup)
    (hips2 : ips2.Nodup) (hports2 : ports2.Nodup)
    (h1 : now' < t1 + 1000 * ttl1) (h2 : t2 + 1000 * ttl2 ≤ now') :
    (known (ingest (announce (instRecords (inst :: service) ips2 ports2 ss2 ttl2)) service own
        (ingest (announce (instRecords (inst :: service) ips1 ports1 ss1 ttl1)) service own s0 t1)
        t2) service now').Perm
      ((if (ips1.filter (fun x => !ips2.contains x)).isEmpty &&
            (ports1.filter (fun x => !ports2.contains x)).isEmpty && ss1 == ss2 then []
        else [{ name := inst,
                ips := ips1.filter (fun x => !ips2.contains x),
                ports := ports1.filter (fun x => !ports2.contains x),
                attrs := if ss1 = ss2 then [] else attrsExtend [] (txtAttrs ss1) }]) ++
        known s0 service now') := by
  have := known_changed_data inst hown hI hnode hfree ips1 ips2 ports1 ports2 ss1 ss2 ttl1 ttl2
    t1 t2 now' hips1 hports1 hips2 hports2
  have h2' : ¬ now' < t2 + 1000 * ttl2 := by omega
  refine this.trans (List.Perm.of_eq ?_)
  congr 1
  rw [instRecords_eq_part, instRecords_eq_part, liveTwo_part]
  unfold mergedInstance
  simp only [h1, h2', decide_true, decide_false]
  rw [keptOld_single]
  simp only [addedNew_false, List.append_nil, if_true, Bool.false_eq_true, if_false]
  rw [keptOld_true_false, keptOld_true_false]
  generalize ips1.filter (fun x => !ips2.contains x) = A
  generalize ports1.filter (fun x => !ports2.contains x) = B
  by_cases hs : ss1 = ss2
  · subst hs
    cases A <;> cases B <;> simp [partRecords]
  · cases A <;> cases B <;> simp [partRecords, hs]

/-- **Item 2, changed data, after both have expired**: nothing of the instance is left. -/
theorem changed_data_both_expired {service own : Name} (inst : Label)
    (hown : own ≠ inst :: service) {s0 : Store} (hI : Inv s0)
    (hnode : s0.nodeExists (getKey service) = true) (hfree : OwnerFree s0 (inst :: service))
    (ips1 ips2 : List (Bool × Nat)) (ports1 ports2 : List Nat) (ss1 ss2 : List Bytes)
    (ttl1 ttl2 t1 t2 now' : Nat) (hips1 : ips1.Nodup) (hports1 : ports1.Nodup)
    (hips2 : ips2.Nodup) (hports2 : ports2.Nodup)
    (h1 : t1 + 1000 * ttl1 ≤ now') (h2 : t2 + 1000 * ttl2 ≤ now') :
    (known (ingest (announce (instRecords (inst :: service) ips2 ports2 ss2 ttl2)) service own
        (ingest (announce (instRecords (inst :: service) ips1 ports1 ss1 ttl1)) service own s0 t1)
        t2) service now').Perm (known s0 service now') := by
  have := known_changed_data inst hown hI hnode hfree ips1 ips2 ports1 ports2 ss1 ss2 ttl1 ttl2
    t1 t2 now' hips1 hports1 hips2 hports2
  have h1' : ¬ now' < t1 + 1000 * ttl1 := by omega
  have h2' : ¬ now' < t2 + 1000 * ttl2 := by omega
  refine this.trans (List.Perm.of_eq ?_)
  rw [instRecords_eq_part, instRecords_eq_part, liveTwo_part]
  simp [h1', h2', keptOld_false_false, addedNew_false, partRecords]


/-! ### 10. item 4: foreign records riding along -/

/-- the response without the records `add_response_to_resources` skips: those owned by the
listener's own instance name and those whose owner is not a strict subdomain of the service -/
def dropForeign (p : Packet) (service full : Name) : Packet :=
  { p with answers := p.answers.filter (ingestKeeps service full),
           additional := p.additional.filter (ingestKeeps service full) }

/-- what `add_response_to_resources` skips: the listener's own instance name, and owners not strictly below the service -/
theorem ingestKeeps_eq_false_iff (service full : Name) (r : RR) :
    ingestKeeps service full r = false ↔ r.name = full ∨ r.name.isSubdomainOf service = false := by
  unfold ingestKeeps
  cases h : r.name.isSubdomainOf service <;> simp

/-- two responses with the same kept records have the same effect on the store -/
theorem ingest_congr {p p' : Packet} {service full : Name}
    (h : ingestRecords p service full = ingestRecords p' service full) (s : Store) (now : Nat) :
    ingest p service full s now = ingest p' service full s now := by
  rw [ingest_eq_foldl_ingestRecords, ingest_eq_foldl_ingestRecords, h]

/-- **Item 4: foreign records change nothing.** Removing from a response every record the
listener would skip leaves the resulting STORE — hence `get_known_services`, at every time — as it
is. -/
theorem ingest_dropForeign (p : Packet) (service full : Name) (s : Store) (now : Nat) :
    ingest (dropForeign p service full) service full s now = ingest p service full s now := by
  apply ingest_congr
  show ((p.answers.filter (ingestKeeps service full) ++ p.additional.filter (ingestKeeps service full)).filter
    (ingestKeeps service full)) = (p.answers ++ p.additional).filter (ingestKeeps service full)
  rw [← List.filter_append, List.filter_filter]
  simp

/-- hence `get_known_services` is the same with and without the foreign records, at every time -/
theorem known_dropForeign (p : Packet) (service full : Name) (s : Store) (t now' : Nat) :
    known (ingest (dropForeign p service full) service full s t) service now' =
      known (ingest p service full s t) service now' := by
  rw [ingest_dropForeign]

/-- the same for any set of records chosen for removal, as long as each of them is foreign: owned
by the listener's own instance name or not strictly below the service -/
theorem ingest_remove_foreign (p : Packet) (service full : Name) (drop : RR → Bool)
    (hd : ∀ r ∈ p.answers ++ p.additional, drop r = true →
      r.name = full ∨ r.name.isSubdomainOf service = false) (s : Store) (now : Nat) :
    ingest { p with answers := p.answers.filter (fun r => !drop r),
                    additional := p.additional.filter (fun r => !drop r) } service full s now =
      ingest p service full s now := by
  apply ingest_congr
  show ((p.answers.filter (fun r => !drop r) ++ p.additional.filter (fun r => !drop r)).filter
    (ingestKeeps service full)) = (p.answers ++ p.additional).filter (ingestKeeps service full)
  rw [← List.filter_append, List.filter_filter]
  apply List.filter_congr
  intro r hr
  cases hdr : drop r with
  | false => simp
  | true =>
    have := (ingestKeeps_eq_false_iff service full r).mpr (hd r hr hdr)
    simp [this]

/-- an announcement with foreign records mixed in, in the answer section and in the additional
section, is ingested as the announcement alone -/
theorem ingest_announce_with_foreign (service own : Name) (rs : List RR) (l : List RR)
    (extra : List RR) (hl : (l.filter (ingestKeeps service own)) = rs)
    (hextra : ∀ r ∈ extra, r.name = own ∨ r.name.isSubdomainOf service = false) (s : Store)
    (now : Nat) :
    ingest { announce l with additional := extra } service own s now =
      rs.foldl (fun st r => st.addCached r now) s := by
  rw [ingest_eq_foldl_ingestRecords]
  congr 1
  show (l ++ extra).filter (ingestKeeps service own) = rs
  rw [List.filter_append, hl]
  have : extra.filter (ingestKeeps service own) = [] := by
    rw [List.filter_eq_nil_iff]
    intro r hr
    rw [(ingestKeeps_eq_false_iff service own r).mpr (hextra r hr)]
    simp
  rw [this, List.append_nil]


/-- **Items 1 + 4 together**: any response whose kept records are exactly the LIST of records of
`inst.service` as `into_records` orders them, each once — whatever foreign records it carries
besides, in whatever section and position — adds exactly the advertised instance to
`get_known_services`. The library's own `announce(false)` is not of this shape (address records
again in `additional`, everything in `HashMap` order); for it see `known_after_library_announce`
and `known_after_library_announce_any_order` in `Props/C15Audit.lean`. -/
theorem known_after_response_of_instance {service own : Name} (inst : Label) {s0 : Store}
    (hI : Inv s0) (hnode : s0.nodeExists (getKey service) = true)
    (ips : List (Bool × Nat)) (ports : List Nat) (ss : List Bytes) (ttl t now' : Nat)
    (hips : ips.Nodup) (hports : ports.Nodup) (hfree : OwnerFree s0 (inst :: service)) (p : Packet)
    (hp : ingestRecords p service own = instRecords (inst :: service) ips ports ss ttl) :
    (known (ingest p service own s0 t) service now').Perm
      (aliveInst (advertised inst ips ports ss) t ttl now' ++ known s0 service now') := by
  rw [ingest_eq_foldl_ingestRecords, hp]
  have := known_one_reception hI hnode (instRecords_oneOwner (inst :: service) ss ttl hips hports)
    (instKey_prefix inst service) hfree.1 (hfree.notAuth_inst _ _ _ _) t now'
  rw [fromRecords_instRecords service inst ips ports ss ttl hips hports] at this
  exact this

/-! ### 11. several peers -/

/-- the trie key of a label sequence is the concatenation of the parts' keys -/
theorem enc_append (a b : List Label) : enc (a ++ b) = enc a ++ enc b := by
  induction a with
  | nil => rfl
  | cons l ls ih => simp [enc, ih]

/-- two instances of one service with different labels have different keys (no bound on the label
lengths needed) -/
theorem getKey_cons_inj {a b : Label} {n : Name} (h : getKey (a :: n) = getKey (b :: n)) : a = b := by
  rw [getKey_eq_enc, getKey_eq_enc, List.reverse_cons, List.reverse_cons, enc_append, enc_append] at h
  have := List.append_cancel_left h
  simp only [enc, List.append_nil, List.cons.injEq] at this
  exact this.2

/-- caching a record leaves the buckets of other keys alone -/
theorem Store.bucket_addCached_of_ne (s : Store) (r : RR) (t : Nat) {k : Key}
    (h : getKey r.name ≠ k) : (s.addCached r t).bucket k = s.bucket k := by
  unfold Store.addCached
  simp only
  split
  · rfl
  · rw [Store.bucket_setBucket, if_neg (fun e => h e.symm)]

/-- caching a run of records leaves the buckets of other keys alone -/
theorem Store.bucket_foldl_addCached_of_ne (rs : List RR) (s : Store) (t : Nat) {k : Key}
    (h : ∀ r ∈ rs, getKey r.name ≠ k) :
    (rs.foldl (fun st r => st.addCached r t) s).bucket k = s.bucket k := by
  induction rs generalizing s with
  | nil => rfl
  | cons r rest ih =>
    rw [List.foldl_cons, ih _ (fun x hx => h x (List.mem_cons_of_mem _ hx)),
      Store.bucket_addCached_of_ne s r t (h r (by simp))]

/-- a name that is free stays free when records of other owners with other keys are cached -/
theorem OwnerFree.foldl_addCached {s : Store} {full : Name} (hf : OwnerFree s full) (rs : List RR)
    (t : Nat) (hk : ∀ r ∈ rs, getKey r.name ≠ getKey full) :
    OwnerFree (rs.foldl (fun st r => st.addCached r t) s) full := by
  constructor
  · unfold KeyFree
    rw [Store.bucket_foldl_addCached_of_ne rs s t hk]
    exact hf.1
  · intro r hr
    rw [Ne, abs_foldl_addCached_auth]
    exact hf.2 r hr

/-- the announcement of another instance of the service leaves the name free -/
theorem OwnerFree.ingest_announce_other {s : Store} {service own : Name} {instA instB : Label}
    (hf : OwnerFree s (instB :: service)) (hAB : instA ≠ instB) (hown : own ≠ instA :: service)
    (ips : List (Bool × Nat)) (ports : List Nat) (ss : List Bytes) (ttl t : Nat) :
    OwnerFree (ingest (announce (instRecords (instA :: service) ips ports ss ttl)) service own s t)
      (instB :: service) := by
  rw [ingest_announce service own instA hown]
  apply hf.foldl_addCached
  intro r hr
  rw [(mem_instRecords hr).1]
  exact fun h => hAB (getKey_cons_inj h)

/-- `add_response_to_resources` keeps the store invariant -/
theorem Inv.ingest {s : Store} (h : Inv s) (p : Packet) (service full : Name) (t : Nat) :
    Inv (ingest p service full s t) := by
  rw [ingest_eq_run]; exact h.run _

/-- ingestion never removes a trie node -/
theorem Store.nodeExists_ingest {s : Store} {k : Key} (h : s.nodeExists k = true) (p : Packet)
    (service full : Name) (t : Nat) : (ingest p service full s t).nodeExists k = true := by
  rw [ingest_eq_run]
  apply Store.nodeExists_run _ h
  intro op hop
  unfold ingestOps at hop
  obtain ⟨r, _, rfl⟩ := List.mem_map.mp hop
  exact fun h => Op.noConfusion h

/-- one peer's announcement as the listener receives it: instance label, addresses, ports, TXT
strings, TTL, and the time of reception -/
structure Ann where
  inst : Label
  ips : List (Bool × Nat)
  ports : List Nat
  ss : List Bytes
  ttl : Nat
  time : Nat

/-- the response carrying the announcement -/
def Ann.packet (service : Name) (a : Ann) : Packet :=
  announce (instRecords (a.inst :: service) a.ips a.ports a.ss a.ttl)

/-- what `get_known_services` reports of the announcement at `now'` -/
def Ann.alive (a : Ann) (now' : Nat) : List Instance :=
  aliveInst (advertised a.inst a.ips a.ports a.ss) a.time a.ttl now'

/-- the listener ingests the announcements one after the other -/
def ingestAll (service own : Name) (anns : List Ann) (s : Store) : Store :=
  anns.foldl (fun st a => ingest (a.packet service) service own st a.time) s

/-- **Several peers.** Announcements of instances with pairwise different labels (none the
listener's own), each with duplicate-free address and port sets, are received in any order of
arrival times into a store where all these names are free. Then `get_known_services` at `now'` is
what the store gave before plus, for every announcement still alive at `now'`, exactly the
advertised instance — each peer's data separately, none mixed, none lost. -/
theorem known_several_peers {service own : Name} (anns : List Ann)
    (hok : ∀ a ∈ anns, a.ips.Nodup ∧ a.ports.Nodup)
    (hdist : anns.Pairwise (fun a b => a.inst ≠ b.inst))
    (hown : ∀ a ∈ anns, own ≠ a.inst :: service) {s0 : Store} (hI : Inv s0)
    (hnode : s0.nodeExists (getKey service) = true)
    (hfree : ∀ a ∈ anns, OwnerFree s0 (a.inst :: service)) (now' : Nat) :
    (known (ingestAll service own anns s0) service now').Perm
      (anns.flatMap (fun a => a.alive now') ++ known s0 service now') := by
  induction anns generalizing s0 with
  | nil => exact List.Perm.refl _
  | cons a rest ih =>
    rw [List.pairwise_cons] at hdist
    have h1 := known_after_announce_any a.inst (hown a (by simp)) hI hnode a.ips a.ports a.ss a.ttl
      a.time now' (hok a (by simp)).1 (hok a (by simp)).2 (hfree a (by simp)).1
      ((hfree a (by simp)).notAuth_inst _ _ _ _)
    have h2 := ih (fun b hb => hok b (List.mem_cons_of_mem _ hb)) hdist.2
      (fun b hb => hown b (List.mem_cons_of_mem _ hb))
      (s0 := ingest (a.packet service) service own s0 a.time)
      (hI.ingest _ _ _ _) (Store.nodeExists_ingest hnode _ _ _ _)
      (fun b hb => (hfree b (List.mem_cons_of_mem _ hb)).ingest_announce_other (hdist.1 b hb)
        (hown a (by simp)) a.ips a.ports a.ss a.ttl a.time)
    show (known (ingestAll service own rest (ingest (a.packet service) service own s0 a.time))
      service now').Perm _
    refine h2.trans ?_
    rw [List.flatMap_cons, List.append_assoc]
    refine ((List.Perm.refl _).append h1).trans ?_
    rw [← List.append_assoc, ← List.append_assoc]
    exact List.Perm.append_right _ List.perm_append_comm


/-! ### 12. from the store `ServiceDiscovery::new` starts from -/

/-- in a store holding only the listener's own registrations every other name is free -/
theorem ownerFree_of_ownOnly {service own : Name} {s : Store} (hO : OwnOnly service own s)
    {full : Name} (h1 : full ≠ service) (h2 : full ≠ own) : OwnerFree s full := by
  constructor
  · intro e he; exact (hO.getD _ e he).1
  · intro r hr ha
    obtain ⟨b, x', hb, hx', he⟩ := mem_of_abs ha
    have := (hO _ b (Store.bucket_mem hb) _ hx').2
    rw [rrEq_name he, hr] at this
    rcases this with h | h
    · exact h1 h
    · exact h2 h

/-- `inst.service` is not `service` -/
theorem cons_ne_self (inst : Label) (service : Name) : inst :: service ≠ service := by
  intro h
  have := congrArg List.length h
  simp at this

/-- every instance name but the listener's own is free when the listener starts -/
theorem discoveryInit_ownerFree (service own : Name) (ownRecords : List RR)
    (hownRecs : ∀ r ∈ ownRecords, r.name = own) (inst : Label) (hown : own ≠ inst :: service) :
    OwnerFree (discoveryInit service own ownRecords) (inst :: service) :=
  ownerFree_of_ownOnly (discoveryInit_props service own ownRecords hownRecs).2.1
    (cons_ne_self inst service) (fun h => hown h.symm)

/-- a store holding only local registrations knows no instance -/
theorem known_of_ownOnly {service own : Name} {s : Store} (hO : OwnOnly service own s) (now : Nat) :
    known s service now = [] := by
  rw [known_eq_knownOf]
  split
  · unfold knownOf
    rw [List.filterMap_eq_nil_iff]
    intro e he
    have hm := (List.mem_filter.mp he).1
    unfold bucketInstance
    have : livePick now e.2 = [] := by
      unfold livePick
      rw [List.map_eq_nil_iff, List.filter_eq_nil_iff]
      intro x hx
      rw [(hO e.1 e.2 hm x hx).1]; simp [Filter.cachedOnly]
    rw [this]; rfl
  · rfl

/-- **Several peers, from the start.** A listener for `service` started with records of its own
receives announcements of instances with pairwise different labels, none its own: at every time
`get_known_services` returns exactly the advertised instances of the announcements still alive (in
some order). -/
theorem several_peers_from_start (service own : Name) (ownRecords : List RR)
    (hownRecs : ∀ r ∈ ownRecords, r.name = own) (anns : List Ann)
    (hok : ∀ a ∈ anns, a.ips.Nodup ∧ a.ports.Nodup)
    (hdist : anns.Pairwise (fun a b => a.inst ≠ b.inst))
    (hown : ∀ a ∈ anns, own ≠ a.inst :: service) (now' : Nat) :
    (known (ingestAll service own anns (discoveryInit service own ownRecords)) service now').Perm
      (anns.flatMap (fun a => a.alive now')) := by
  obtain ⟨hI, hO, ⟨b, hb⟩⟩ := discoveryInit_props service own ownRecords hownRecs
  have := known_several_peers anns hok hdist hown hI (Store.nodeExists_of_mem hb)
    (fun a ha => discoveryInit_ownerFree service own ownRecords hownRecs a.inst (hown a ha)) now'
  rw [known_of_ownOnly hO, List.append_nil] at this
  exact this


/-! ### 13. refinements: exact order for a new key; the union as sets; the trie-node hypothesis -/

/-- **Item 1 with the order (of the model)**: if the trie has no entry yet for the key of
`inst.service` (the instance was never seen), the model appends the advertised instance AFTER the
instances known before. (Rust's `get_known_services` returns a `HashSet`: no order to speak of.) -/
theorem known_after_announce_new_key {service own : Name} (inst : Label)
    (hown : own ≠ inst :: service) {s0 : Store} (hI : Inv s0)
    (hnode : s0.nodeExists (getKey service) = true)
    (ips : List (Bool × Nat)) (ports : List Nat) (ss : List Bytes) (ttl t now' : Nat)
    (hips : ips.Nodup) (hports : ports.Nodup)
    (hnew : s0.bucket (getKey (inst :: service)) = none)
    (hna : NotAuth s0 (instRecords (inst :: service) ips ports ss ttl)) :
    known (ingest (announce (instRecords (inst :: service) ips ports ss ttl)) service own s0 t)
        service now' =
      known s0 service now' ++ aliveInst (advertised inst ips ports ss) t ttl now' := by
  have hf : KeyFree s0 (getKey (inst :: service)) := by
    intro e he; rw [hnew] at he; cases he
  rw [ingest_announce service own inst hown,
    foldl_addCached_oneOwner hI (instRecords_oneOwner _ ss ttl hips hports) hf hna t,
    known_eq_knownOf, known_eq_knownOf, if_pos hnode,
    if_pos (Store.nodeExists_setBucket hnode _ _)]
  have hany : s0.entries.any (fun e => e.1 == getKey (inst :: service)) = false := by
    rw [List.any_eq_false]
    intro e he; simpa using Store.bucket_eq_none.mp hnew e he
  unfold Store.setBucket
  simp only [hany, Bool.false_eq_true, if_false, knownOf_append, knownOf_cons, knownOf_nil,
    List.append_nil]
  rw [contrib_once (instRecords_ne_nil _ _ _ _ _) (instKey_prefix inst service) hf,
    fromRecords_instRecords service inst ips ports ss ttl hips hports]
  rfl

/-- the merged address (port) list of `changed_data_union`, as a set: the union -/
theorem mem_union_list {α : Type} [BEq α] [LawfulBEq α] (xs ys : List α) (a : α) :
    a ∈ xs ++ ys.filter (fun x => !xs.contains x) ↔ a ∈ xs ∨ a ∈ ys := by
  simp only [List.mem_append, List.mem_filter, Bool.not_eq_true']
  constructor
  · rintro (h | ⟨h, _⟩)
    · exact .inl h
    · exact .inr h
  · rintro (h | h)
    · exact .inl h
    · by_cases hx : a ∈ xs
      · exact .inl hx
      · exact .inr ⟨h, by simpa using hx⟩

/-- **Item 2, changed data, as sets** (the Rust `HashSet`s / `HashMap`): while both announcements
are alive some reported instance named `inst` has exactly the addresses of either announcement,
exactly the ports of either, and — IN THE MODEL, whose bucket keeps insertion order — for every
attribute key of the second announcement the second's value. Of Rust the last clause holds only
for keys the first announcement did not give a different value (its bucket is iterated in hasher
order): see `changed_data_union_audit` in `Props/C15Audit.lean`. -/
theorem changed_data_union_sets {service own : Name} (inst : Label) (hown : own ≠ inst :: service)
    {s0 : Store} (hI : Inv s0) (hnode : s0.nodeExists (getKey service) = true)
    (hfree : OwnerFree s0 (inst :: service))
    (ips1 ips2 : List (Bool × Nat)) (ports1 ports2 : List Nat) (ss1 ss2 : List Bytes)
    (ttl1 ttl2 t1 t2 now' : Nat) (hips1 : ips1.Nodup) (hports1 : ports1.Nodup)
    (hips2 : ips2.Nodup) (hports2 : ports2.Nodup)
    (h1 : now' < t1 + 1000 * ttl1) (h2 : now' < t2 + 1000 * ttl2) :
    ∃ i ∈ known (ingest (announce (instRecords (inst :: service) ips2 ports2 ss2 ttl2)) service own
        (ingest (announce (instRecords (inst :: service) ips1 ports1 ss1 ttl1)) service own s0 t1)
        t2) service now',
      i.name = inst ∧ (∀ x, x ∈ i.ips ↔ x ∈ ips1 ∨ x ∈ ips2) ∧
      (∀ x, x ∈ i.ports ↔ x ∈ ports1 ∨ x ∈ ports2) ∧
      (∀ k v, (k, v) ∈ txtAttrs ss2 → i.attrs.lookup k = some v) ∧
      (∀ k v, (k, v) ∈ txtAttrs ss1 → k ∉ (txtAttrs ss2).keys → i.attrs.lookup k = some v) := by
  have hP := changed_data_union inst hown hI hnode hfree ips1 ips2 ports1 ports2 ss1 ss2 ttl1 ttl2
    t1 t2 now' hips1 hports1 hips2 hports2 h1 h2
  have hn : ∀ ss, (txtAttrs ss).keys.Nodup := fun ss =>
    txtOf_keys_nodup (r := mkRR [] 0 (txtRData ss)) rfl
  refine ⟨_, hP.symm.subset (List.mem_cons_self ..), rfl, mem_union_list ips1 ips2,
    mem_union_list ports1 ports2, ?_, ?_⟩
  · intro k v hkv
    simp only
    split
    · rename_i hs
      rw [hs]
      exact lookup_attrsExtend_of_mem [] (hn ss2) hkv
    · exact lookup_attrsExtend_of_mem _ (hn ss2) hkv
  · intro k v hkv hk
    simp only
    split
    · exact lookup_attrsExtend_of_mem [] (hn ss1) hkv
    · rw [lookup_attrsExtend_of_not_mem _ _ _ hk]
      exact lookup_attrsExtend_of_mem [] (hn ss1) hkv

/-! ### 14. concrete values: the hypotheses are satisfiable, the conclusions are what one expects -/

namespace C15MultiEx
open C15Ex

/-- `scanner._http._tcp.local`, announced by another peer -/
def scanner : Label := [115, 99, 97, 110, 110, 101, 114]
/-- the scanner's announcement, received at 0.5 s -/
def scannerAnn : Ann :=
  { inst := scanner, ips := [(false, 0xC0A80002)], ports := [9100], ss := [[120]], ttl := 60,
    time := 500 }
/-- the printer's announcement (`C15Ex.rs`), received at 1 s -/
def printerAnn : Ann :=
  { inst := printer, ips := ips, ports := ports, ss := [[97, 61, 49], [98], [99, 61]], ttl := 120,
    time := 1000 }

/-- the store of a listener that already knows the scanner -/
def s0 : Store := ingest (scannerAnn.packet service) service own (discoveryInit service own []) 500

/-- `s0` satisfies the store invariant -/
theorem s0_inv : Inv s0 := (discoveryInit_props service own [] (by simp)).1.ingest _ _ _ _

/-- the trie of `s0` has a node at the service's key (the PTR record `ServiceDiscovery::new` registers) -/
theorem s0_node : s0.nodeExists (getKey service) = true := by decide

/-- the hypotheses of `known_after_announce_any` and its companions hold of `s0` and the printer -/
theorem s0_free : OwnerFree s0 (printer :: service) :=
  (discoveryInit_ownerFree service own [] (by simp) printer (by decide)).ingest_announce_other
    (instA := scanner) (by decide) (by decide) _ _ _ _ _

example : KeyFree s0 (getKey (printer :: service)) := s0_free.1

/-- `s0` knows the scanner until 60.5 s -/
example : known s0 service 50000 = [advertised scanner [(false, 0xC0A80002)] [9100] [[120]]] ∧
    known s0 service 60500 = [] := by constructor <;> rfl

/-- item 1 by evaluation: the printer is added, the scanner stays as it was -/
example : known (ingest (printerAnn.packet service) service own s0 1000) service 50000 =
    [advertised scanner [(false, 0xC0A80002)] [9100] [[120]], ⟨printer, ips, ports, attrs⟩] := by rfl

/-- item 1 through the theorem, for every query time -/
example (now' : Nat) :
    (known (ingest (printerAnn.packet service) service own s0 1000) service now').Perm
      (aliveInst (advertised printer ips ports [[97, 61, 49], [98], [99, 61]]) 1000 120 now' ++
        known s0 service now') :=
  known_after_announce_any printer (by decide) s0_inv s0_node ips ports _ 120 1000 now'
    (by decide) (by decide) s0_free.1 (s0_free.notAuth_inst _ _ _ _)

/-- several peers through the theorem: scanner and printer from the start -/
example (now' : Nat) :
    (known (ingestAll service own [scannerAnn, printerAnn] (discoveryInit service own [])) service
      now').Perm (scannerAnn.alive now' ++ (printerAnn.alive now' ++ [])) :=
  several_peers_from_start service own [] (by simp) [scannerAnn, printerAnn] (by decide)
    (by decide) (by decide) now'

/-- item 2 by evaluation: announced at 1 s and again at 100 s (TTL 120 s): still one printer at
130 s (the first announcement alone would have expired at 121 s), gone at 220 s -/
example :
    known (ingest (printerAnn.packet service) service own
      (ingest (printerAnn.packet service) service own s0 1000) 100000) service 130000 =
      [⟨printer, ips, ports, attrs⟩] ∧
    known (ingest (printerAnn.packet service) service own s0 1000) service 130000 = [] ∧
    known (ingest (printerAnn.packet service) service own
      (ingest (printerAnn.packet service) service own s0 1000) 100000) service 220000 = [] := by
  refine ⟨?_, ?_, ?_⟩ <;> rfl

/-- item 3 by evaluation: goodbye at 5 s removes the printer at once; the scanner stays; a new
announcement at 6 s brings the printer back -/
example :
    known (ingest (goodbye (printer :: service) ips ports [[97, 61, 49], [98], [99, 61]]) service own
      (ingest (printerAnn.packet service) service own s0 1000) 5000) service 5000 = known s0 service 5000 ∧
    known (ingest (printerAnn.packet service) service own
      (ingest (goodbye (printer :: service) ips ports [[97, 61, 49], [98], [99, 61]]) service own
        (ingest (printerAnn.packet service) service own s0 1000) 5000) 6000) service 7000 =
      [advertised scanner [(false, 0xC0A80002)] [9100] [[120]], ⟨printer, ips, ports, attrs⟩] := by
  constructor <;> rfl

/-- item 2, changed data, by evaluation: the printer is announced at 1 s with address .1, port
8080, `a=1 b c=`, and at 2 s with addresses .1 and .9, port 8081, `a=2`. At 3 s ONE printer is
reported with the union: both addresses, both ports, `a` overwritten, `b` and `c` kept. After
121 s only the second description is left. -/
example :
    known (ingest (announce (instRecords (printer :: service)
        [(false, 0xC0A80001), (false, 0xC0A80009)] [8081] [[97, 61, 50]] 120)) service own
      (ingest (printerAnn.packet service) service own (discoveryInit service own []) 1000) 2000)
      service 3000 =
      [⟨printer, [(false, 0xC0A80001), (false, 0xC0A80009)], [8080, 8081],
        [("a", some "2"), ("b", none), ("c", some "")]⟩] ∧
    known (ingest (announce (instRecords (printer :: service)
        [(false, 0xC0A80001), (false, 0xC0A80009)] [8081] [[97, 61, 50]] 120)) service own
      (ingest (printerAnn.packet service) service own (discoveryInit service own []) 1000) 2000)
      service 121000 =
      [⟨printer, [(false, 0xC0A80001), (false, 0xC0A80009)], [8081], [("a", some "2")]⟩] := by
  constructor <;> rfl

/-- item 4 by evaluation: the service's PTR record, a record of the listener's own instance and a
record of another service ride along with the printer's announcement and change nothing -/
def noisy : Packet :=
  { announce (({ name := service, cls := .IN, ttl := 4500,
                  rdata := .flat 12 [.name (printer :: service)], flush := false } : RR) ::
      instRecords (printer :: service) ips ports [[97, 61, 49], [98], [99, 61]] 120) with
    additional := [{ name := own, cls := .IN, ttl := 120, rdata := .flat 1 [.int 1], flush := false },
                   { name := [[120], [108, 111, 99, 97, 108]], cls := .IN, ttl := 120,
                     rdata := .flat 1 [.int 2], flush := false }] }

example : dropForeign noisy service own = printerAnn.packet service := by decide
example (s : Store) (t : Nat) :
    ingest noisy service own s t = ingest (printerAnn.packet service) service own s t := by
  rw [← ingest_dropForeign]; rfl
example (now' : Nat) : (known (ingest noisy service own s0 1000) service now').Perm
    (aliveInst (advertised printer ips ports [[97, 61, 49], [98], [99, 61]]) 1000 120 now' ++
      known s0 service now') :=
  known_after_response_of_instance printer s0_inv s0_node ips ports _ 120 1000 now' (by decide)
    (by decide) s0_free noisy (by decide)

/-- the printer's announcement and its goodbye as datagrams -/
example : ∃ bytes, (announce (instRecords (printer :: service) ips ports
      (attrs.map attrEntryBytes) 120)).buildCompressed = .ok bytes ∧
    ∀ (s : Store) (t : Nat), handleDiscovery s service own bytes t =
      .ok (ingest (announce (instRecords (printer :: service) ips ports (attrs.map attrEntryBytes)
        120)) service own s t, none) :=
  (announce_on_the_wire service printer own ips ports attrs 120 attrs_ok fits).2

/-- the theorems of items 2 and 3 instantiated on `s0` and the printer, for all times -/
example (t1 t2 now' : Nat) :
    (known (ingest (printerAnn.packet service) service own
      (ingest (printerAnn.packet service) service own s0 t1) t2) service now').Perm
      (aliveInst (advertised printer ips ports [[97, 61, 49], [98], [99, 61]]) t2 120 now' ++
        known s0 service now') :=
  known_reannounce printer (by decide) s0_inv s0_node s0_free ips ports _ 120 120 t1 t2 now'
    (by decide) (by decide)
example (t1 t2 now' : Nat) (ht : t1 ≤ t2) (h : now' < t1 + 1000 * 120) :
    known (ingest (printerAnn.packet service) service own
      (ingest (printerAnn.packet service) service own s0 t1) t2) service now' =
    known (ingest (printerAnn.packet service) service own s0 t1) service now' :=
  reannounce_idempotent printer (by decide) s0_inv s0_free ips ports _ 120 t1 t2 now' (by decide)
    (by decide) ht h
example (t1 t2 now' : Nat) (h : t2 ≤ now') :
    known (ingest (goodbye (printer :: service) ips ports [[97, 61, 49], [98], [99, 61]]) service own
      (ingest (printerAnn.packet service) service own s0 t1) t2) service now' = known s0 service now' :=
  goodbye_removes printer (by decide) s0_inv s0_node s0_free ips ports _ 120 t1 t2 now' (by decide)
    (by decide) h
example (t1 t2 now' : Nat) :
    known (ingest (printerAnn.packet service) service own
      (ingest (goodbye (printer :: service) ips ports [[97, 61, 49], [98], [99, 61]]) service own s0 t1)
      t2) service now' =
    known (ingest (printerAnn.packet service) service own s0 t2) service now' :=
  goodbye_then_announce printer (by decide) s0_inv s0_free ips ports _ 120 t1 t2 now' (by decide)
    (by decide)
/-- `changed_data_union` instantiated: second description with one more address and another port -/
example (t1 t2 now' : Nat) (h1 : now' < t1 + 1000 * 120) (h2 : now' < t2 + 1000 * 120) :
    (known (ingest (announce (instRecords (printer :: service)
        [(false, 0xC0A80001), (false, 0xC0A80009)] [8081] [[97, 61, 50]] 120)) service own
      (ingest (printerAnn.packet service) service own s0 t1) t2) service now').Perm
      (⟨printer, [(false, 0xC0A80001), (false, 0xC0A80009)], [8080, 8081],
        [("a", some "2"), ("b", none), ("c", some "")]⟩ :: known s0 service now') :=
  changed_data_union printer (by decide) s0_inv s0_node s0_free ips _ ports _ _ _ 120 120 t1 t2
    now' (by decide) (by decide) (by decide) (by decide) h1 h2
/-- the printer's key is new in `s0`: it is appended after the scanner -/
example (now' : Nat) :
    known (ingest (printerAnn.packet service) service own s0 1000) service now' =
      known s0 service now' ++
        aliveInst (advertised printer ips ports [[97, 61, 49], [98], [99, 61]]) 1000 120 now' :=
  known_after_announce_new_key printer (by decide) s0_inv s0_node ips ports _ 120 1000 now'
    (by decide) (by decide) (by decide) (s0_free.notAuth_inst _ _ _ _)

/-! #### the trie-node hypothesis cannot be dropped

`get_known_services` asks the trie for the subtrie at the service's key, which exists only if a
node sits exactly there (`Store.nodeExists`). `ServiceDiscovery::new` registers the service's PTR
record, so there is one. In a bare store holding only the cached records of `a._http._tcp.local`
there is none and nothing is reported; the announcement of an instance whose label is 16 bytes long
(length byte `0x10` against `0x01`: the keys part exactly at the service's key) creates the node —
and BOTH instances appear. So `known` after = `known` before + the new instance fails there. -/

/-- a store that holds nothing but the cached records of `a._http._tcp.local` -/
def bare : Store :=
  (instRecords ([97] :: service) [(false, 1)] [80] [[120]] 120).foldl
    (fun st r => st.addCached r 0) Store.empty
/-- a 16-byte instance label -/
def long16 : Label := List.replicate 16 98

example : Inv bare ∧ bare.nodeExists (getKey service) = false ∧ known bare service 1000 = [] ∧
    KeyFree bare (getKey (long16 :: service)) ∧
    (known (ingest (announce (instRecords (long16 :: service) [(false, 2)] [81] [[121]] 120)) service
      own bare 0) service 1000).length = 2 := by
  refine ⟨Inv.empty.foldl_addCached _ _, by decide, by rfl, by decide, by rfl⟩

end C15MultiEx

end Dns.Mdns
