/-
C10 (builder side, SVCB / HTTPS): whatever sequence of `set_param` / `set_mandatory` /
`set_alpn` / `set_no_default_alpn` / `set_port` / `set_ipv4hint` / `set_ipv6hint` calls builds the
parameter map, the record is serialised as RFC 9460 section 2.2 says (SvcPriority, TargetName,
then the SvcParams as key / length / value triples in strictly increasing key order) and parses
back to itself; the typed helpers store the value of RFC 9460 section 7 under the registered key.
Model: `Model/Svcb.lean`.
-/
import SimpleDnsModel.Model.Svcb
import SimpleDnsModel.Props.C10
namespace Dns
namespace C10Svcb

/-- every key is larger than `b` -/
def AllAbove (b : Nat) (ps : SvcParams) : Prop := ∀ x ∈ ps, b < x.1

theorem keysIncreasing_cons {x : Nat × Bytes} {ps : SvcParams}
    (h : KeysIncreasing ps) (ha : AllAbove x.1 ps) : KeysIncreasing (x :: ps) := by
  cases ps with
  | nil => trivial
  | cons y t => exact ⟨ha y (by simp), h⟩

theorem keysIncreasing_tail {x : Nat × Bytes} {ps : SvcParams}
    (h : KeysIncreasing (x :: ps)) : KeysIncreasing ps ∧ AllAbove x.1 ps := by
  induction ps generalizing x with
  | nil => exact ⟨trivial, by intro y hy; cases hy⟩
  | cons y t ih =>
    obtain ⟨hxy, hrest⟩ := h
    refine ⟨hrest, ?_⟩
    intro z hz
    rcases List.mem_cons.mp hz with rfl | hz
    · exact hxy
    · exact Nat.lt_trans hxy ((ih hrest).2 z hz)

theorem insert_mem {ps : SvcParams} {k : Nat} {v : Bytes} {x : Nat × Bytes}
    (h : x ∈ ps.insert k v) : x = (k, v) ∨ x ∈ ps := by
  induction ps with
  | nil => simp [SvcParams.insert] at h; exact Or.inl h
  | cons y t ih =>
    unfold SvcParams.insert at h
    split at h
    · rcases List.mem_cons.mp h with rfl | h
      · exact Or.inl rfl
      · exact Or.inr h
    · split at h
      · rcases List.mem_cons.mp h with rfl | h
        · exact Or.inl rfl
        · exact Or.inr (List.mem_cons_of_mem _ h)
      · rcases List.mem_cons.mp h with rfl | h
        · exact Or.inr (by simp)
        · rcases ih h with rfl | h
          · exact Or.inl rfl
          · exact Or.inr (List.mem_cons_of_mem _ h)

/-- `BTreeMap::insert` keeps the keys strictly increasing -/
theorem insert_keysIncreasing (ps : SvcParams) (k : Nat) (v : Bytes) (h : KeysIncreasing ps) :
    KeysIncreasing (ps.insert k v) := by
  induction ps with
  | nil => trivial
  | cons y t ih =>
    obtain ⟨ht, ha⟩ := keysIncreasing_tail h
    unfold SvcParams.insert
    split
    · rename_i hlt
      exact ⟨hlt, h⟩
    · split
      · rename_i _ heq
        exact keysIncreasing_cons ht (by intro z hz; have := ha z hz; simp only; omega)
      · rename_i hnlt hne
        refine keysIncreasing_cons (ih ht) ?_
        intro z hz
        rcases insert_mem hz with rfl | hz
        · simp only; omega
        · exact ha z hz

/-- map semantics: the last value set for a key is the one read back, other keys are untouched -/
theorem get_insert (ps : SvcParams) (k k' : Nat) (v : Bytes) (h : KeysIncreasing ps) :
    (ps.insert k v).get k' = if k' = k then some v else ps.get k' := by
  induction ps with
  | nil =>
    simp only [SvcParams.insert, SvcParams.get, List.find?]
    by_cases hk : k' = k
    · subst hk; simp
    · have : (k == k') = false := by simp; omega
      simp [this, hk]
  | cons y t ih =>
    obtain ⟨ht, ha⟩ := keysIncreasing_tail h
    unfold SvcParams.insert
    split
    · by_cases hk : k' = k
      · subst hk; simp [SvcParams.get, List.find?]
      · have : (k == k') = false := by simp; omega
        simp [SvcParams.get, List.find?, this, hk]
    · split
      · rename_i _ heq
        by_cases hk : k' = k
        · subst hk; simp [SvcParams.get, List.find?]
        · have : (k == k') = false := by simp; omega
          have hy : (y.1 == k') = false := by simp; omega
          simp [SvcParams.get, List.find?, this, hy, hk]
      · rename_i hnlt hne
        have ih' := ih ht
        by_cases hy : y.1 = k'
        · have hk : ¬ k' = k := by omega
          simp [SvcParams.get, List.find?, hy, hk]
        · have hyb : (y.1 == k') = false := by simp; exact hy
          simp only [SvcParams.get, List.find?, hyb] at ih' ⊢
          exact ih'

/-- the helpers that `unwrap()` the result of `set_param` cannot fail -/
theorem port_never_fails (ps : SvcParams) (p : Nat) :
    Svcb.setParam ps 3 (Svcb.portValue p) = .ok (ps.insert 3 (beN 2 p)) := by
  simp [Svcb.setParam, Svcb.portValue, maxSvcParam]

theorem no_default_alpn_never_fails (ps : SvcParams) :
    Svcb.setParam ps 2 [] = .ok (ps.insert 2 []) := by
  simp [Svcb.setParam, maxSvcParam]

/-- one call keeps the invariant the serialiser and the parser rely on -/
def ParamsOK (ps : SvcParams) : Prop :=
  (∀ x ∈ ps, x.1 < 256 ^ 2 ∧ x.2.length < 256 ^ 2) ∧ KeysIncreasing ps

theorem apply_ok (ps : SvcParams) (op : SvcOp) (hk : op.key < 65536) (h : ParamsOK ps) :
    ParamsOK (Svcb.apply ps op).1 := by
  unfold Svcb.apply Svcb.setParam
  split
  · rename_i ps' heq
    split at heq
    · cases heq
    · rename_i hlen
      cases heq
      refine ⟨?_, insert_keysIncreasing _ _ _ h.2⟩
      intro x hx
      rcases insert_mem hx with rfl | hx
      · simp only [maxSvcParam] at hlen
        exact ⟨by simpa using hk, by simp only; omega⟩
      · exact h.1 x hx
  · exact h

theorem foldl_ok (ops : List SvcOp) (acc : SvcParams × List Bool)
    (hk : ∀ op ∈ ops, op.key < 65536) (h : ParamsOK acc.1) :
    ParamsOK (ops.foldl (fun (acc : SvcParams × List Bool) op =>
      let (ps', ok) := Svcb.apply acc.1 op
      (ps', acc.2 ++ [ok])) acc).1 := by
  induction ops generalizing acc with
  | nil => exact h
  | cons op rest ih =>
    simp only [List.foldl_cons]
    apply ih
    · intro o ho; exact hk o (List.mem_cons_of_mem _ ho)
    · exact apply_ok acc.1 op (hk op (by simp)) h

/-- Every sequence of builder calls (keys are `u16`) yields a parameter map the SVCB field accepts:
keys below 65536, values below 65536 bytes, keys strictly increasing. -/
theorem run_fieldOK (ops : List SvcOp) (hk : ∀ op ∈ ops, op.key < 65536) :
    FieldOK (.tlvs 2 2 true) (.tlvs (Svcb.run ops).1) := by
  have := foldl_ok ops ([], []) hk ⟨fun x hx => absurd hx (List.not_mem_nil), trivial⟩
  exact ⟨this.1, fun _ => this.2⟩

/-- The typed helpers always use a registered 16-bit key. -/
theorem helper_keys (op : SvcOp) (h : ∀ k v, op ≠ .param k v) : op.key ≤ 6 := by
  cases op <;> simp [SvcOp.key] <;> exact absurd rfl (h _ _)

/-- A record built through the API is serialised as RFC 9460 section 2.2 says and the library
parses that encoding back to the same record (`code` 64 SVCB or 65 HTTPS). -/
theorem built_record_rfc (code : Nat) (hcode : code = 64 ∨ code = 65) (prio : Nat) (target : Name)
    (ops : List SvcOp) (hp : prio < 65536) (ht : Name.WF target)
    (hk : ∀ op ∈ ops, op.key < 65536) (pre : Bytes) :
    let vs := [Val.int prio, .name target, .tlvs (Svcb.run ops).1]
    ∃ bytes, RData.write (.flat code vs) = .ok bytes ∧
      Spec.encode code (vs.map Val.toSpec) = some bytes ∧
      parseTyped (pre ++ bytes) pre.length (TYPE.ofCode code)
        = .ok (.flat code vs, pre.length + bytes.length) := by
  intro vs
  have hs : schemaOf code = some [.int 2, .name false, .tlvs 2 2 true] := by
    rcases hcode with rfl | rfl <;> rfl
  have hok : AllOK [.int 2, .name false, .tlvs 2 2 true] vs :=
    ⟨by simpa [FieldOK] using hp, ht, run_fieldOK ops hk, trivial⟩
  have hc : flatCheck code vs = true := by
    rcases hcode with rfl | rfl <;> rfl
  obtain ⟨hw, he⟩ := rfc_encoding hs hok hc
  exact ⟨_, hw, he, rfc_parse pre hs hok hc he⟩

/-- The SvcParamValues of RFC 9460 section 7: `mandatory` is the list of keys as 16-bit integers in
network order, `port` a 16-bit integer, `ipv4hint` / `ipv6hint` the addresses in network order,
`alpn` the length-prefixed protocol ids, `no-default-alpn` empty. -/
theorem helper_values :
    (∀ ks, (SvcOp.mandatory ks).value = ks.flatMap (Spec.octetsOf 2)) ∧
    (∀ p, (SvcOp.port p).value = Spec.octetsOf 2 p) ∧
    (∀ ips, (SvcOp.ipv4 ips).value = ips.flatMap (Spec.octetsOf 4)) ∧
    (∀ ips, (SvcOp.ipv6 ips).value = ips.flatMap (Spec.octetsOf 16)) ∧
    (∀ ids, (SvcOp.alpn ids).value = ids.flatMap (fun s => UInt8.ofNat s.length :: s)) ∧
    SvcOp.noDefaultAlpn.value = [] := by
  refine ⟨?_, ?_, ?_, ?_, ?_, rfl⟩
  · intro ks; simp only [SvcOp.value, Svcb.mandatoryValue]
    congr 1; funext k; exact Rfc.beN_eq_octetsOf 2 k
  · intro p; exact Rfc.beN_eq_octetsOf 2 p
  · intro ips; simp only [SvcOp.value, Svcb.ipv4Value]
    congr 1; funext k; exact Rfc.beN_eq_octetsOf 4 k
  · intro ips; simp only [SvcOp.value, Svcb.ipv6Value]
    congr 1; funext k; exact Rfc.beN_eq_octetsOf 16 k
  · intro ids; rfl

/-- the lengths the receiving side relies on -/
theorem helper_value_lengths (ks ips4 ips6 : List Nat) (p : Nat) :
    (SvcOp.mandatory ks).value.length = 2 * ks.length ∧
    (SvcOp.port p).value.length = 2 ∧
    (SvcOp.ipv4 ips4).value.length = 4 * ips4.length ∧
    (SvcOp.ipv6 ips6).value.length = 16 * ips6.length := by
  refine ⟨?_, by simp [SvcOp.value, Svcb.portValue], ?_, ?_⟩
  · induction ks with
    | nil => rfl
    | cons k t ih =>
      simp only [SvcOp.value, Svcb.mandatoryValue, List.flatMap_cons, List.length_append,
        beN_length, List.length_cons] at ih ⊢
      omega
  · induction ips4 with
    | nil => rfl
    | cons k t ih =>
      simp only [SvcOp.value, Svcb.ipv4Value, List.flatMap_cons, List.length_append,
        beN_length, List.length_cons] at ih ⊢
      omega
  · induction ips6 with
    | nil => rfl
    | cons k t ih =>
      simp only [SvcOp.value, Svcb.ipv6Value, List.flatMap_cons, List.length_append,
        beN_length, List.length_cons] at ih ⊢
      omega

/-! non-vacuity: the example of RFC 9460 appendix D.2 (`alpn="h2,h3-19" mandatory=ipv4hint,alpn
ipv4hint=192.0.2.1`), set in an order different from the wire order -/
example : (Svcb.run [.ipv4 [0xC0000201], .alpn [[104, 50], [104, 51, 45, 49, 57]],
      .mandatory [1, 4]]).1
    = [(0, [0, 1, 0, 4]), (1, [2, 104, 50, 5, 104, 51, 45, 49, 57]), (4, [192, 0, 2, 1])] := by
  decide

example : (Svcb.run [.port 80, .port 443, .noDefaultAlpn]) = ([(2, []), (3, [1, 187])], [true, true, true]) := by
  decide

end C10Svcb
end Dns
