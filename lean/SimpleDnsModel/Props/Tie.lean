/-
Structural tie between the hand-written model and the Rust sources.

`Generated/FromSource.lean` is regenerated from the current sources by `tools/translate.py`
(type codes, the order and width of the wire reads / writes of every flat RDATA type, which embedded
names go through `write_compressed_to`, masks, limits, enum discriminants and conversion arms).
Every theorem below states `generated = model` and is proved by evaluation, so that a change of the
sources (a reordered field, another TYPE_CODE, a mask, a limit, a name made compressible, …)
regenerates a different table and the corresponding theorem stops checking.

Build:  python3 tools/translate.py && (cd lean && lake build SimpleDnsModel.Props.Tie)
-/
import SimpleDnsModel.Generated.FromSource
import SimpleDnsModel.Model.Compress
import SimpleDnsModel.Model.Mdns
import SimpleDnsModel.Model.WF
namespace Dns.Tie
open Dns

/-! ### 1. TYPE codes (`rdata_enum!`, `TYPE_CODE`, `rr_wrapper!`) -/

/-- every variant of the source has the model's name and code, in both directions of the
conversion -/
theorem typeCodes_model :
    ∀ e ∈ Gen.typeCodes, (TYPE.ofCode e.2).mnemonic = e.1 ∧ (TYPE.ofCode e.2).toCode = e.2 := by
  decide

/-- every variant of the model's `TYPE` other than `Unknown` is a variant of the source -/
theorem typeCodes_complete (t : TYPE) (h : t.isUnknown = false) :
    (t.mnemonic, t.toCode) ∈ Gen.typeCodes := by
  cases t <;> first | decide | cases h

theorem typeCodes_length : Gen.typeCodes.length = 41 := by decide

/-! ### 2. / 3. RDATA field layouts (`fn parse`, `fn write_to`, `fn write_compressed_to`) -/

/-- the sequence of reads of each `fn parse` is the model's schema of that type, including which
names are compressible -/
theorem parseSchema_model : ∀ e ∈ Gen.parseSchema, schemaOf e.1 = some e.2 := by decide

/-- parse order = write order, field kind by field kind -/
theorem writeSchema_eq_parseSchema : Gen.writeSchema = Gen.parseSchema := by decide

/-- … and struct field by struct field: the n-th value read is stored in the field the n-th value
written comes from -/
theorem writeFields_eq_parseFields : Gen.writeFields = Gen.parseFields := by decide

/-- a `write_compressed_to` override writes the same fields in the same order as `write_to` -/
theorem compressedSchema_sub : ∀ e ∈ Gen.compressedSchema, e ∈ Gen.parseSchema := by decide

/-- a type without such an override compresses nothing -/
theorem uncompressed_without_override :
    ∀ e ∈ Gen.parseSchema, e.1 ∉ Gen.compressedSchema.map (·.1) → FKind.name true ∉ e.2 := by
  decide

/-- the codes of the 38 flat types -/
def flatCodes : List Nat :=
  [1, 28, 2, 3, 4, 5, 7, 8, 9, 12, 23, 13, 14, 15, 16, 6, 11, 33, 17, 18, 20, 21, 35, 22, 29, 257,
   64, 65, 108, 109, 37, 63, 36, 48, 46, 43, 47, 49]

/-- the model has a schema for exactly these codes … -/
theorem schemaOf_isSome_iff (c : Nat) : schemaOf c ≠ none ↔ c ∈ flatCodes := by
  constructor
  · intro h
    unfold schemaOf at h
    split at h <;> first | decide | exact absurd rfl h
  · intro h
    have : ∀ c ∈ flatCodes, schemaOf c ≠ none := by decide
    exact this c h

/-- … and each of them was translated from the source (with `parseSchema_model`: the table
generated from the source and the model's table are the same function) -/
theorem flatCodes_translated : ∀ c ∈ flatCodes, c ∈ Gen.parseSchema.map (·.1) := by decide

theorem parseSchema_keys_flat : ∀ e ∈ Gen.parseSchema, e.1 ∈ flatCodes := by decide

theorem parseSchema_length : Gen.parseSchema.length = 38 := by decide

/-- the flat types are all variants except OPT, IPSECKEY and NULL -/
theorem flat_types :
    (Gen.typeCodes.filter (fun e => e.2 ∉ Gen.parseSchema.map (·.1))).map (·.1) =
      ["OPT", "IPSECKEY", "NULL"] := by decide

/-! ### 5. constants -/

theorem opcodeMask : Gen.opcodeMask = Mask.OPCODE := by decide
theorem reservedMask : Gen.reservedMask = Mask.RESERVED := by decide
theorem responseCodeMask : Gen.responseCodeMask = Mask.RCODE := by decide
theorem packetFlagsAll : Gen.packetFlagsAll = Mask.ALLFLAGS := by decide
theorem packetFlags_count : Gen.packetFlags.length = 7 := by decide
/-- `PacketFlag::RESPONSE`, the flag `build_reply` sets and the pipeline tests -/
theorem packetFlags_response : ("RESPONSE", 0x8000) ∈ Gen.packetFlags := by decide
/-- the shift `OPCODE_MASK.trailing_zeros()` of `Header::parse` / `get_flags` is the model's 11 -/
theorem opcodeShift : Gen.opcodeMask % 2 ^ 11 = 0 ∧ Gen.opcodeMask / 2 ^ 11 % 2 = 1 := by decide

/- limits and masks the model uses as literals: the value, and a place where the model depends on it -/
theorem maxLabel : Gen.maxLabel = 63 := by decide
theorem maxName : Gen.maxName = 255 := by decide
theorem maxCharStr : Gen.maxCharStr = 255 := by decide
theorem maxNull : Gen.maxNull = 65535 := by decide
theorem pointerMask : Gen.pointerMask = 0xC0 := by decide
theorem pointerMaskU16 : Gen.pointerMaskU16 = 0xC000 := by decide
theorem maxPointerOffset : Gen.maxPointerOffset = 0x3FFF := by decide
theorem optRcodeMask : Gen.optRcodeMask = 0xFF := by decide
theorem optVersionMask : Gen.optVersionMask = 0xFF00 := by decide
theorem cacheFlushBit : Gen.cacheFlushBit = 0x8000 := by decide
theorem cacheFlushTtl : Gen.cacheFlushTtl = 1 := by decide
theorem ttlUnitMillis : Gen.ttlUnitMillis = 1000 := by decide

/-- `Name.WF` accepts a label of `MAX_LABEL_LENGTH` bytes and no longer one -/
theorem maxLabel_model :
    Name.WF [List.replicate Gen.maxLabel 0] ∧ ¬ Name.WF [List.replicate (Gen.maxLabel + 1) 0] := by
  decide

/-- `Name.WF` accepts an encoded name of `MAX_NAME_LENGTH` bytes and no longer one -/
theorem maxName_model :
    Name.wireLen (List.replicate 3 (List.replicate 63 0) ++ [List.replicate 61 0]) = Gen.maxName ∧
    Name.WF (List.replicate 3 (List.replicate 63 0) ++ [List.replicate 61 0]) ∧
    ¬ Name.WF (List.replicate 3 (List.replicate 63 0) ++ [List.replicate 62 0]) := by decide

/-- `FieldOK` accepts a character-string of `MAX_CHARACTER_STRING_LENGTH` bytes and no longer one -/
theorem maxCharStr_model :
    FieldOK .charstr (.bytes (List.replicate Gen.maxCharStr 0)) ∧
    ¬ FieldOK .charstr (.bytes (List.replicate (Gen.maxCharStr + 1) 0)) := by decide +kernel

/-- `compressName` records a suffix at offset `MAX_POINTER_OFFSET` and not beyond, and writes a
pointer as the offset or-ed with `POINTER_MASK_U16` -/
theorem maxPointerOffset_model :
    (compressName [[1]] Gen.maxPointerOffset []).2 = [([[1]], Gen.maxPointerOffset)] ∧
    (compressName [[1]] (Gen.maxPointerOffset + 1) []).2 = [] ∧
    (compressName [[1]] 40 [([[1]], 12)]).1 = beN 2 (12 ||| Gen.pointerMaskU16) := by decide

/-- the first byte of a pointer as `compressName` writes it has exactly the `POINTER_MASK` bits
on top of the offset's high bits (the test `nameLoop` applies) -/
theorem pointerMask_model :
    ∀ off < 64, ((beN 2 (off * 256 ||| Gen.pointerMaskU16))[0]?.map (·.toNat &&& Gen.pointerMask)) =
      some Gen.pointerMask := by decide

/-- the CLASS field of a cache-flush record / of a unicast-response question -/
theorem cacheFlushBit_model :
    RR.writeCommon { name := [], cls := .IN, ttl := 0, rdata := .empty .A, flush := true } =
      beN 2 1 ++ (beN 2 (CLASS.IN.toCode ||| Gen.cacheFlushBit) ++ beN 4 0) ∧
    Question.writeCommon { name := [], qtype := .ANY, qclass := .ANY, unicast := true } =
      beN 2 255 ++ beN 2 (255 ||| Gen.cacheFlushBit) := by decide

/-- EDNS: the TTL of the OPT record carries the version under `VERSION_MASK` and the high bits of
the response code under `RCODE_MASK` -/
theorem optMasks_model :
    (∀ v < 256, encodeTtl { udp := 0, version := v, codes := [] }
        { id := 0, opcode := .StandardQuery, rcode := .BADVERS, flags := 0, opt := none }
        = (v * 256 &&& Gen.optVersionMask) ||| (16 &&& Gen.optRcodeMask) >>> 4) ∧
    (∀ t < 256, extractRcode t { id := 0, opcode := .StandardQuery, rcode := .NoError, flags := 0, opt := none }
        = RCODE.ofCode ((t &&& Gen.optRcodeMask) <<< 4)) := by decide +kernel

/-- simple-mdns `add_cached_resource`: a cache-flush record expires after `cacheFlushTtl` seconds,
any other after its own TTL -/
theorem cacheFlushTtl_model :
    let r (flush : Bool) : RR := { name := [[97]], cls := .IN, ttl := 4500, rdata := .flat 1 [.int 7], flush := flush }
    (Mdns.Store.empty.addCached (r true) 5).entries =
      [(Mdns.getKey [[97]], [(r true, .cached (5 + Gen.ttlUnitMillis * Gen.cacheFlushTtl)
          (5 + Gen.ttlUnitMillis * Mdns.refreshOffsetSecs Gen.cacheFlushTtl))])] ∧
    (Mdns.Store.empty.addCached (r false) 5).entries =
      [(Mdns.getKey [[97]], [(r false, .cached (5 + Gen.ttlUnitMillis * 4500)
          (5 + Gen.ttlUnitMillis * Mdns.refreshOffsetSecs 4500))])] := by decide

/-! ### 6. enum tables (`enum X { V = n }`, `impl From<u16>/TryFrom<u16> for X`) -/

def outName (name : α → String) : Out α → Option String
  | .ok a => some (name a)
  | _ => none

/-- `as u16` of every CLASS variant is the model's `toCode` -/
theorem classTable_model (c : CLASS) : (c.mnemonic, c.toCode) ∈ Gen.classTable := by
  cases c <;> decide
theorem classTable_length : Gen.classTable.length = 5 := by decide
/-- discriminants and `TryFrom<u16>` arms agree -/
theorem classArms_table : Gen.classArms = Gen.classTable.map (fun e => (e.2, e.1)) := by decide
theorem classArms_model :
    ∀ e ∈ Gen.classArms, outName CLASS.mnemonic (CLASS.ofCode e.1) = some e.2 := by decide
/-- the default arm is an error, in the source and in the model -/
theorem classDefault_model (c : Nat) (h : c ∉ Gen.classArms.map (·.1)) :
    outName CLASS.mnemonic (CLASS.ofCode c) = Gen.classDefault := by
  unfold CLASS.ofCode
  split <;> first | rfl | exact absurd (by decide) h

def qtypeName : QTYPE → String
  | .TYPE t => t.mnemonic | .IXFR => "IXFR" | .AXFR => "AXFR" | .MAILB => "MAILB"
  | .MAILA => "MAILA" | .ANY => "ANY"

theorem qtypeSpecials_model :
    ∀ e ∈ Gen.qtypeSpecials, outName qtypeName (QTYPE.ofCode e.1) = some e.2 ∧
      outName (fun q => toString q.toCode) (QTYPE.ofCode e.1) = some (toString e.1) := by decide
theorem qtypeSpecials_length : Gen.qtypeSpecials.length = 5 := by decide
theorem qclassSpecials_model :
    Gen.qclassSpecials = [(QCLASS.ANY.toCode, "ANY")] ∧ QCLASS.ofCode 255 = .ok .ANY := by decide

def opcodeName : OPCODE → String
  | .StandardQuery => "StandardQuery" | .InverseQuery => "InverseQuery"
  | .ServerStatusRequest => "ServerStatusRequest" | .Notify => "Notify" | .Update => "Update"
  | .Reserved => "Reserved"

/-- `as u16` of every OPCODE variant (with the implicit discriminant of `Reserved`) -/
theorem opcodeTable_model (o : OPCODE) : (opcodeName o, o.toCode) ∈ Gen.opcodeTable := by
  cases o <;> decide
theorem opcodeTable_length : Gen.opcodeTable.length = 6 := by decide
theorem opcodeArms_model : ∀ e ∈ Gen.opcodeArms, opcodeName (OPCODE.ofCode e.1) = e.2 := by decide
/-- the explicit arms are consistent with the discriminants -/
theorem opcodeArms_table : ∀ e ∈ Gen.opcodeArms, (e.2, e.1) ∈ Gen.opcodeTable := by decide
theorem opcodeDefault_model (c : Nat) (h : c ∉ Gen.opcodeArms.map (·.1)) :
    some (opcodeName (OPCODE.ofCode c)) = Gen.opcodeDefault := by
  unfold OPCODE.ofCode
  split <;> first | rfl | exact absurd (by decide) h

def rcodeName : RCODE → String
  | .NoError => "NoError" | .FormatError => "FormatError" | .ServerFailure => "ServerFailure"
  | .NameError => "NameError" | .NotImplemented => "NotImplemented" | .Refused => "Refused"
  | .YXDOMAIN => "YXDOMAIN" | .YXRRSET => "YXRRSET" | .NXRRSET => "NXRRSET" | .NOTAUTH => "NOTAUTH"
  | .NOTZONE => "NOTZONE" | .BADVERS => "BADVERS" | .Reserved => "Reserved"

/-- `as u16` of every RCODE variant -/
theorem rcodeTable_model (r : RCODE) : (rcodeName r, r.toCode) ∈ Gen.rcodeTable := by
  cases r <;> decide
theorem rcodeTable_length : Gen.rcodeTable.length = 13 := by decide
theorem rcodeArms_model : ∀ e ∈ Gen.rcodeArms, rcodeName (RCODE.ofCode e.1) = e.2 := by decide
theorem rcodeArms_table : ∀ e ∈ Gen.rcodeArms, (e.2, e.1) ∈ Gen.rcodeTable := by decide
theorem rcodeDefault_model (c : Nat) (h : c ∉ Gen.rcodeArms.map (·.1)) :
    some (rcodeName (RCODE.ofCode c)) = Gen.rcodeDefault := by
  unfold RCODE.ofCode
  split <;> first | rfl | exact absurd (by decide) h

end Dns.Tie
