/-
Structural tie between the hand-written model and the Rust sources.

`Generated/FromSource.lean` is regenerated from the current sources by `tools/translate.py`
(type codes, the order and width of the wire reads / writes of every flat RDATA type, which embedded
names go through `write_compressed_to`, masks, limits, enum discriminants and conversion arms).
Every theorem below states `generated = model` and is proved by evaluation, so that a change of the
sources (a reordered field, another TYPE_CODE, a mask, a limit, a name made compressible, …)
regenerates a different table and the corresponding theorem stops checking.

The tie degrades item by item.  A source construct the translator does not understand unties that
item only: a constant is then `none`, a whole table `[]` with its name in `Gen.untied`, a row of a
schema table is absent with its TYPE code in `Gen.untiedParse` / `untiedWrite` / `untiedCompressed`.
The theorems are stated so that they hold for an untied item and are unchanged checks for a tied one:
`c.all (· == v)` / `c.getD v` for constants, `∀ e ∈ table` / agreement on common keys for rows,
`"table" ∈ Gen.untied ∨ …` for statements about a table as a whole.

Build:  python3 tools/translate.py && (cd lean && lake build SimpleDnsModel.Props.Tie)
-/
import SimpleDnsModel.Generated.FromSource
import SimpleDnsModel.Model.Compress
import SimpleDnsModel.Model.Mdns
import SimpleDnsModel.Model.WF
namespace Dns.Tie
open Dns

/-! ### 1. TYPE codes (`rdata_enum!`, `TYPE_CODE`, `rr_wrapper!`) -/

/-- every variant of the source has the model's name and code, in both directions of the
conversion -/
theorem typeCodes_model :
    ∀ e ∈ Gen.typeCodes, (TYPE.ofCode e.2).mnemonic = e.1 ∧ (TYPE.ofCode e.2).toCode = e.2 := by
  decide

/-- every variant of the model's `TYPE` other than `Unknown` is a variant of the source -/
theorem typeCodes_complete (t : TYPE) (h : t.isUnknown = false) :
    "typeCodes" ∈ Gen.untied ∨ (t.mnemonic, t.toCode) ∈ Gen.typeCodes := by
  cases t <;> first | decide | cases h

theorem typeCodes_length : "typeCodes" ∈ Gen.untied ∨ Gen.typeCodes.length = 41 := by decide

/-! ### 2. / 3. RDATA field layouts (`fn parse`, `fn write_to`, `fn write_compressed_to`) -/

/-- the sequence of reads of each `fn parse` is the model's schema of that type, including which
names are compressible -/
theorem parseSchema_model : ∀ e ∈ Gen.parseSchema, schemaOf e.1 = some e.2 := by decide

/-- … and so is the sequence of writes of each `fn write_to` … -/
theorem writeSchema_model : ∀ e ∈ Gen.writeSchema, schemaOf e.1 = some e.2 := by decide

/-- … and of each `fn write_compressed_to` override -/
theorem compressedSchema_model : ∀ e ∈ Gen.compressedSchema, schemaOf e.1 = some e.2 := by decide

/-- parse order = write order, field kind by field kind (for every type of which both were
translated) -/
theorem writeSchema_agrees :
    ∀ e ∈ Gen.writeSchema, ∀ e' ∈ Gen.parseSchema, e.1 = e'.1 → e.2 = e'.2 := by decide

/-- … and struct field by struct field: the n-th value read is stored in the field the n-th value
written comes from -/
theorem writeFields_agrees :
    ∀ e ∈ Gen.writeFields, ∀ e' ∈ Gen.parseFields, e.1 = e'.1 → e.2 = e'.2 := by decide

/-- the widths of the maximal runs of fixed-width fields of a layout, in order: what has to be
available before each run is read -/
def fixedRuns : List FKind → Nat → List Nat
  | [], acc => if acc = 0 then [] else [acc]
  | .int w :: ks, acc => fixedRuns ks (acc + w)
  | _ :: ks, acc => (if acc = 0 then [] else [acc]) ++ fixedRuns ks 0

/-- **the up-front length guards of every `fn parse` are exactly the widths of the runs of
fixed-width fields it goes on to read** (`*position + 4 > data.len()` before an address,
`+ 20` before the five integers of SOA, `+ 18` before the fixed part of RRSIG, …): a guard that
is missing or too small lets a slice run out of the RDATA (a panic), one that is too large
rejects valid records. The model checks each field separately (`decField`); this ties the
hand-written combined guards to it. -/
theorem parseGuards_model :
    ∀ e ∈ Gen.parseGuards, (schemaOf e.1).map (fixedRuns · 0) = some e.2 := by decide

/-- the tables of fields have a row for exactly the types the tables of kinds have one for -/
theorem parseFields_keys : Gen.parseFields.map (·.1) = Gen.parseSchema.map (·.1) := by decide
theorem writeFields_keys : Gen.writeFields.map (·.1) = Gen.writeSchema.map (·.1) := by decide

/-- a `write_compressed_to` override writes the same fields in the same order as `parse` reads
and as `write_to` writes -/
theorem compressedSchema_agrees :
    ∀ e ∈ Gen.compressedSchema, ∀ e' ∈ Gen.parseSchema, e.1 = e'.1 → e.2 = e'.2 := by decide
theorem compressedSchema_agrees_write :
    ∀ e ∈ Gen.compressedSchema, ∀ e' ∈ Gen.writeSchema, e.1 = e'.1 → e.2 = e'.2 := by decide

/-- a type without such an override compresses nothing -/
theorem uncompressed_without_override :
    ∀ e ∈ Gen.parseSchema, e.1 ∉ Gen.compressedSchema.map (·.1) → e.1 ∉ Gen.untiedCompressed →
      FKind.name true ∉ e.2 := by
  decide
theorem uncompressed_without_override_write :
    ∀ e ∈ Gen.writeSchema, e.1 ∉ Gen.compressedSchema.map (·.1) → e.1 ∉ Gen.untiedCompressed →
      FKind.name true ∉ e.2 := by
  decide

/-- the codes of the 38 flat types -/
def flatCodes : List Nat :=
  [1, 28, 2, 3, 4, 5, 7, 8, 9, 12, 23, 13, 14, 15, 16, 6, 11, 33, 17, 18, 20, 21, 35, 22, 29, 257,
   64, 65, 108, 109, 37, 63, 36, 48, 46, 43, 47, 49]

/-- the model has a schema for exactly these codes … -/
theorem schemaOf_isSome_iff (c : Nat) : schemaOf c ≠ none ↔ c ∈ flatCodes := by
  constructor
  · intro h
    unfold schemaOf at h
    split at h <;> first | decide | exact absurd rfl h
  · intro h
    have : ∀ c ∈ flatCodes, schemaOf c ≠ none := by decide
    exact this c h

/-- … and each of them was translated from the source (with `parseSchema_model`: the table
generated from the source and the model's table are the same function) or is listed as untied.
(Without `typeCodes` the TYPE code of an untied type may be unknown, so that it cannot be listed.) -/
theorem flatCodes_translated :
    "typeCodes" ∈ Gen.untied ∨
      ∀ c ∈ flatCodes, c ∈ Gen.parseSchema.map (·.1) ∨ c ∈ Gen.untiedParse := by decide
theorem flatCodes_written :
    "typeCodes" ∈ Gen.untied ∨
      ∀ c ∈ flatCodes, c ∈ Gen.writeSchema.map (·.1) ∨ c ∈ Gen.untiedWrite := by decide

theorem parseSchema_keys_flat : ∀ e ∈ Gen.parseSchema, e.1 ∈ flatCodes := by decide
theorem writeSchema_keys_flat : ∀ e ∈ Gen.writeSchema, e.1 ∈ flatCodes := by decide

theorem parseSchema_length :
    "typeCodes" ∈ Gen.untied ∨ Gen.parseSchema.length + Gen.untiedParse.length = 38 := by decide
theorem writeSchema_length :
    "typeCodes" ∈ Gen.untied ∨ Gen.writeSchema.length + Gen.untiedWrite.length = 38 := by decide

/-- the flat types are all variants except OPT, IPSECKEY and NULL -/
theorem flat_types :
    "typeCodes" ∈ Gen.untied ∨
    (Gen.typeCodes.filter
        (fun e => e.2 ∉ Gen.parseSchema.map (·.1) ∧ e.2 ∉ Gen.untiedParse)).map (·.1) =
      ["OPT", "IPSECKEY", "NULL"] := by decide

/-! ### 5. constants -/

/- A constant is `some v` (read from the source) or `none` (untied): `c.all (· == m)` says that it is the
model's `m` if it was read; the `_model` theorems use `c.getD m`, the source's value if there is one. -/

theorem opcodeMask : Gen.opcodeMask.all (· == Mask.OPCODE) = true := by decide
theorem reservedMask : Gen.reservedMask.all (· == Mask.RESERVED) = true := by decide
theorem responseCodeMask : Gen.responseCodeMask.all (· == Mask.RCODE) = true := by decide
theorem packetFlagsAll : "packetFlags" ∈ Gen.untied ∨ Gen.packetFlagsAll = Mask.ALLFLAGS := by decide
theorem packetFlags_count : "packetFlags" ∈ Gen.untied ∨ Gen.packetFlags.length = 7 := by decide
/-- `PacketFlag::RESPONSE`, the flag `build_reply` sets and the pipeline tests -/
theorem packetFlags_response :
    "packetFlags" ∈ Gen.untied ∨ ("RESPONSE", 0x8000) ∈ Gen.packetFlags := by decide
/-- every constant of `PacketFlag` lies inside the model's mask -/
theorem packetFlags_model : ∀ e ∈ Gen.packetFlags, e.2 ||| Mask.ALLFLAGS = Mask.ALLFLAGS := by decide
/-- the shift `OPCODE_MASK.trailing_zeros()` of `Header::parse` / `get_flags` is the model's 11 -/
theorem opcodeShift :
    Gen.opcodeMask.getD Mask.OPCODE % 2 ^ 11 = 0 ∧ Gen.opcodeMask.getD Mask.OPCODE / 2 ^ 11 % 2 = 1 := by
  decide

/- limits and masks the model uses as literals: the value, and a place where the model depends on it -/
theorem maxLabel : Gen.maxLabel.all (· == 63) = true := by decide
theorem maxName : Gen.maxName.all (· == 255) = true := by decide
theorem maxCharStr : Gen.maxCharStr.all (· == 255) = true := by decide
theorem maxNull : Gen.maxNull.all (· == 65535) = true := by decide
theorem pointerMask : Gen.pointerMask.all (· == 0xC0) = true := by decide
theorem pointerMaskU16 : Gen.pointerMaskU16.all (· == 0xC000) = true := by decide
theorem maxPointerOffset : Gen.maxPointerOffset.all (· == 0x3FFF) = true := by decide
theorem optRcodeMask : Gen.optRcodeMask.all (· == 0xFF) = true := by decide
theorem optVersionMask : Gen.optVersionMask.all (· == 0xFF00) = true := by decide
theorem cacheFlushBit : Gen.cacheFlushBit.all (· == 0x8000) = true := by decide
theorem cacheFlushTtl : Gen.cacheFlushTtl.all (· == 1) = true := by decide
theorem ttlUnitMillis : Gen.ttlUnitMillis.all (· == 1000) = true := by decide

/-- `Name.WF` accepts a label of `MAX_LABEL_LENGTH` bytes and no longer one -/
theorem maxLabel_model :
    Name.WF [List.replicate (Gen.maxLabel.getD 63) 0] ∧
    ¬ Name.WF [List.replicate (Gen.maxLabel.getD 63 + 1) 0] := by
  decide

/-- `Name.WF` accepts an encoded name of `MAX_NAME_LENGTH` bytes and no longer one -/
theorem maxName_model :
    Name.wireLen (List.replicate 3 (List.replicate 63 0) ++ [List.replicate 61 0]) =
      Gen.maxName.getD 255 ∧
    Name.WF (List.replicate 3 (List.replicate 63 0) ++ [List.replicate 61 0]) ∧
    ¬ Name.WF (List.replicate 3 (List.replicate 63 0) ++ [List.replicate 62 0]) := by decide

/-- `FieldOK` accepts a character-string of `MAX_CHARACTER_STRING_LENGTH` bytes and no longer one -/
theorem maxCharStr_model :
    FieldOK .charstr (.bytes (List.replicate (Gen.maxCharStr.getD 255) 0)) ∧
    ¬ FieldOK .charstr (.bytes (List.replicate (Gen.maxCharStr.getD 255 + 1) 0)) := by decide +kernel

/-- `compressName` records a suffix at offset `MAX_POINTER_OFFSET` and not beyond, and writes a
pointer as the offset or-ed with `POINTER_MASK_U16` -/
theorem maxPointerOffset_model :
    (compressName [[1]] (Gen.maxPointerOffset.getD 0x3FFF) []).2 =
      [([[1]], Gen.maxPointerOffset.getD 0x3FFF)] ∧
    (compressName [[1]] (Gen.maxPointerOffset.getD 0x3FFF + 1) []).2 = [] ∧
    (compressName [[1]] 40 [([[1]], 12)]).1 = beN 2 (12 ||| Gen.pointerMaskU16.getD 0xC000) := by
  decide

/-- the first byte of a pointer as `compressName` writes it has exactly the `POINTER_MASK` bits
on top of the offset's high bits (the test `nameLoop` applies) -/
theorem pointerMask_model :
    ∀ off < 64, ((beN 2 (off * 256 ||| Gen.pointerMaskU16.getD 0xC000))[0]?.map
        (·.toNat &&& Gen.pointerMask.getD 0xC0)) = some (Gen.pointerMask.getD 0xC0) := by decide

/-- the CLASS field of a cache-flush record / of a unicast-response question -/
theorem cacheFlushBit_model :
    RR.writeCommon { name := [], cls := .IN, ttl := 0, rdata := .empty .A, flush := true } =
      beN 2 1 ++ (beN 2 (CLASS.IN.toCode ||| Gen.cacheFlushBit.getD 0x8000) ++ beN 4 0) ∧
    Question.writeCommon { name := [], qtype := .ANY, qclass := .ANY, unicast := true } =
      beN 2 255 ++ beN 2 (255 ||| Gen.cacheFlushBit.getD 0x8000) := by decide

/-- EDNS: the TTL of the OPT record carries the version under `VERSION_MASK` and the high bits of
the response code under `RCODE_MASK` -/
theorem optMasks_model :
    (∀ v < 256, encodeTtl { udp := 0, version := v, codes := [] }
        { id := 0, opcode := .StandardQuery, rcode := .BADVERS, flags := 0, opt := none }
        = (v * 256 &&& Gen.optVersionMask.getD 0xFF00) ||| (16 &&& Gen.optRcodeMask.getD 0xFF) >>> 4) ∧
    (∀ t < 256, extractRcode t { id := 0, opcode := .StandardQuery, rcode := .NoError, flags := 0, opt := none }
        = RCODE.ofCode ((t &&& Gen.optRcodeMask.getD 0xFF) <<< 4)) := by decide +kernel

/-- simple-mdns `add_cached_resource`: a cache-flush record expires after `cacheFlushTtl` seconds,
any other after its own TTL -/
theorem cacheFlushTtl_model :
    let r (flush : Bool) : RR := { name := [[97]], cls := .IN, ttl := 4500, rdata := .flat 1 [.int 7], flush := flush }
    (Mdns.Store.empty.addCached (r true) 5).entries =
      [(Mdns.getKey [[97]],
        [(r true, .cached (5 + Gen.ttlUnitMillis.getD 1000 * Gen.cacheFlushTtl.getD 1)
          (5 + Gen.ttlUnitMillis.getD 1000 * Mdns.refreshOffsetSecs (Gen.cacheFlushTtl.getD 1)))])] ∧
    (Mdns.Store.empty.addCached (r false) 5).entries =
      [(Mdns.getKey [[97]], [(r false, .cached (5 + Gen.ttlUnitMillis.getD 1000 * 4500)
          (5 + Gen.ttlUnitMillis.getD 1000 * Mdns.refreshOffsetSecs 4500))])] := by decide

/-! ### 6. enum tables (`enum X { V = n }`, `impl From<u16>/TryFrom<u16> for X`) -/

def outName (name : α → String) : Out α → Option String
  | .ok a => some (name a)
  | _ => none

/-- how the translator writes a default arm that is an error (`none` is an untied default arm) -/
def errArm : String := "Err(_)"

/-- `as u16` of every CLASS variant is the model's `toCode` -/
theorem classTable_model (c : CLASS) :
    "classTable" ∈ Gen.untied ∨ (c.mnemonic, c.toCode) ∈ Gen.classTable := by
  cases c <;> decide
theorem classTable_length : "classTable" ∈ Gen.untied ∨ Gen.classTable.length = 5 := by decide
/-- discriminants and `TryFrom<u16>` arms agree -/
theorem classArms_table :
    "classTable" ∈ Gen.untied ∨ "classArms" ∈ Gen.untied ∨
      Gen.classArms = Gen.classTable.map (fun e => (e.2, e.1)) := by decide
theorem classArms_model :
    ∀ e ∈ Gen.classArms, outName CLASS.mnemonic (CLASS.ofCode e.1) = some e.2 := by decide
/-- the default arm is an error, in the source and in the model (an untied arms table is `[]` and
its default arm `none`) -/
theorem classDefault_model (c : Nat) (h : c ∉ Gen.classArms.map (·.1)) :
    Gen.classDefault.all (· == (outName CLASS.mnemonic (CLASS.ofCode c)).getD errArm) = true := by
  unfold CLASS.ofCode
  split <;> first | rfl | exact absurd (by decide) h

def qtypeName : QTYPE → String
  | .TYPE t => t.mnemonic | .IXFR => "IXFR" | .AXFR => "AXFR" | .MAILB => "MAILB"
  | .MAILA => "MAILA" | .ANY => "ANY"

theorem qtypeSpecials_model :
    ∀ e ∈ Gen.qtypeSpecials, outName qtypeName (QTYPE.ofCode e.1) = some e.2 ∧
      outName (fun q => toString q.toCode) (QTYPE.ofCode e.1) = some (toString e.1) := by decide
theorem qtypeSpecials_length :
    "qtypeSpecials" ∈ Gen.untied ∨ Gen.qtypeSpecials.length = 5 := by decide
theorem qclassSpecials_model :
    ("qclassSpecials" ∈ Gen.untied ∨ Gen.qclassSpecials = [(QCLASS.ANY.toCode, "ANY")]) ∧
    (∀ e ∈ Gen.qclassSpecials, e = (QCLASS.ANY.toCode, "ANY")) ∧
    QCLASS.ofCode 255 = .ok .ANY := by decide

def opcodeName : OPCODE → String
  | .StandardQuery => "StandardQuery" | .InverseQuery => "InverseQuery"
  | .ServerStatusRequest => "ServerStatusRequest" | .Notify => "Notify" | .Update => "Update"
  | .Reserved => "Reserved"

/-- `as u16` of every OPCODE variant (with the implicit discriminant of `Reserved`) -/
theorem opcodeTable_model (o : OPCODE) :
    "opcodeTable" ∈ Gen.untied ∨ (opcodeName o, o.toCode) ∈ Gen.opcodeTable := by
  cases o <;> decide
theorem opcodeTable_length : "opcodeTable" ∈ Gen.untied ∨ Gen.opcodeTable.length = 6 := by decide
theorem opcodeArms_model : ∀ e ∈ Gen.opcodeArms, opcodeName (OPCODE.ofCode e.1) = e.2 := by decide
/-- the explicit arms are consistent with the discriminants -/
theorem opcodeArms_table :
    "opcodeTable" ∈ Gen.untied ∨ ∀ e ∈ Gen.opcodeArms, (e.2, e.1) ∈ Gen.opcodeTable := by decide
theorem opcodeDefault_model (c : Nat) (h : c ∉ Gen.opcodeArms.map (·.1)) :
    Gen.opcodeDefault.all (· == opcodeName (OPCODE.ofCode c)) = true := by
  unfold OPCODE.ofCode
  split <;> first | rfl | exact absurd (by decide) h

def rcodeName : RCODE → String
  | .NoError => "NoError" | .FormatError => "FormatError" | .ServerFailure => "ServerFailure"
  | .NameError => "NameError" | .NotImplemented => "NotImplemented" | .Refused => "Refused"
  | .YXDOMAIN => "YXDOMAIN" | .YXRRSET => "YXRRSET" | .NXRRSET => "NXRRSET" | .NOTAUTH => "NOTAUTH"
  | .NOTZONE => "NOTZONE" | .BADVERS => "BADVERS" | .Reserved => "Reserved"

/-- `as u16` of every RCODE variant -/
theorem rcodeTable_model (r : RCODE) :
    "rcodeTable" ∈ Gen.untied ∨ (rcodeName r, r.toCode) ∈ Gen.rcodeTable := by
  cases r <;> decide
theorem rcodeTable_length : "rcodeTable" ∈ Gen.untied ∨ Gen.rcodeTable.length = 13 := by decide
theorem rcodeArms_model : ∀ e ∈ Gen.rcodeArms, rcodeName (RCODE.ofCode e.1) = e.2 := by decide
theorem rcodeArms_table :
    "rcodeTable" ∈ Gen.untied ∨ ∀ e ∈ Gen.rcodeArms, (e.2, e.1) ∈ Gen.rcodeTable := by decide
theorem rcodeDefault_model (c : Nat) (h : c ∉ Gen.rcodeArms.map (·.1)) :
    Gen.rcodeDefault.all (· == rcodeName (RCODE.ofCode c)) = true := by
  unfold RCODE.ofCode
  split <;> first | rfl | exact absurd (by decide) h

end Dns.Tie
