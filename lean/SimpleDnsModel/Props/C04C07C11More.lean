/-
More theorems for C04 (serialised messages are well-framed and all writers agree), C07 (emitted
compression pointers are valid and used where allowed) and C11 (received packets survive
re-serialisation). Everything lives in the namespace `Dns.C04C07C11`.

C04-1  writer totality: `writers_never_panic`, `buildG_cases`, `buildG_ne_panic`, `build_err_iff`,
       `writeTo_err_of_build_err`, `writeCompressedTo_err_of_build_err` (any writer kind),
       `writeCompressedTo_eq_build_write` (seekable writers = vector builder + one `write_all`).
C04-2  `framed_entries`: the envelope walk of either writer's output, entry by entry (`RecExact`,
       `QuExact`: owner name, type code, class field with its top bit, TTL).
C07-1  `sites_past_header`, `compressName_low`, `table_past_header`,
       `pointer_target_past_header`: no pointer targets the 12-byte header.
C07-2  `compressName_closed` (the suffix table is suffix-closed within the first 16 KiB),
       `shared_suffix_is_pointer`, `shared_suffix_is_pointer_small`.
C11-1  `reserialise_owned`.
C11-2  `region_expect`, `reserialise_stable_writer_plain`, `reserialise_stable_writer_compressed`,
       `reserialise_stable_writer`.
C11-3  `len_honest_core`, `rr_write_rdlength`, `rr_overflow_not_reparsed`,
       `overflow_not_reparsed_at`; the message family `ovMsg` (`ov_parse`, `ov_growth`,
       `ov_build`, `ov_out_parse`, `ov_plainFits_iff`), the 46-byte `c11Small`, and the finding
       `c11Overflow` of Props/C11.lean as a theorem (`c11Overflow_finding`), proved without
       evaluating any list of that size.
-/
import SimpleDnsModel.Props.C04
import SimpleDnsModel.Props.C07
import SimpleDnsModel.Props.C11
import SimpleDnsModel.Props.C16
set_option autoImplicit false
namespace Dns
namespace C04C07C11

/-! ## C04-1. writer totality -/

/-- the only way an RDATA writer can fail: a flat type whose structural check fails (LOC with a
version other than 0) -/
def rdOk : RData → Bool
  | .flat code vs =>
    match schemaOf code with
    | none => true
    | some _ => flatCheck code vs
  | _ => true

/-- `RData::write_to` either succeeds (`rdOk`) or returns an error: no third outcome -/
theorem rdata_write_cases (rd : RData) :
    (rdOk rd = true ∧ ∃ b, rd.write = .ok b) ∨ (rdOk rd = false ∧ rd.write = .err) := by
  cases rd with
  | flat code vs =>
    simp only [rdOk, RData.write]
    cases schemaOf code with
    | none => exact Or.inl ⟨rfl, _, rfl⟩
    | some ks =>
      simp only
      cases h : flatCheck code vs
      · exact Or.inr ⟨rfl, by simp⟩
      · exact Or.inl ⟨rfl, encAll ks vs, by simp⟩
  | _ => exact Or.inl ⟨rfl, _, rfl⟩

/-- the same for `RData::write_compressed_to`, at any offset and with any suffix table: whether it fails does not depend on where it writes -/
theorem rdata_writeG_cases (c : Bool) (rd : RData) (off : Nat) (t : Table) :
    (rdOk rd = true ∧ ∃ x, rd.writeG c off t = .ok x) ∨
    (rdOk rd = false ∧ rd.writeG c off t = .err) := by
  cases rd with
  | flat code vs =>
    simp only [rdOk, RData.writeG]
    cases schemaOf code with
    | none => exact Or.inl ⟨rfl, _, rfl⟩
    | some ks =>
      simp only
      cases h : flatCheck code vs
      · exact Or.inr ⟨rfl, by simp⟩
      · exact Or.inl ⟨rfl, encAllG c ks vs off t, by simp⟩
  | _ => exact Or.inl ⟨rfl, _, rfl⟩

/-- **`RData::write_to` never panics.** -/
theorem rdata_write_ne_panic (rd : RData) : rd.write ≠ .panic := by
  rcases rdata_write_cases rd with ⟨_, b, h⟩ | ⟨_, h⟩ <;> rw [h] <;> simp

/-- **`RData::write_compressed_to` never panics.** -/
theorem rdata_writeG_ne_panic (c : Bool) (rd : RData) (off : Nat) (t : Table) :
    rd.writeG c off t ≠ .panic := by
  rcases rdata_writeG_cases c rd off t with ⟨_, b, h⟩ | ⟨_, h⟩ <;> rw [h] <;> simp

/-- `Write::write_all` on any of the four modelled writers never panics -/
theorem W_write_ne_panic (w : W) (bs : Bytes) : w.write bs ≠ .panic := by
  rw [Wr.W.write_eq]
  split
  · simp
  · split
    · simp
    · split <;> simp

/-- all the RDATA of a list of records can be written -/
def allOk (rs : List RR) : Bool := rs.all fun r => rdOk r.rdata

/-- `ResourceRecord::write_to` succeeds exactly when its RDATA can be written, else it is an error -/
theorem rr_write_cases (r : RR) :
    (rdOk r.rdata = true ∧ ∃ b, r.write = .ok b) ∨ (rdOk r.rdata = false ∧ r.write = .err) := by
  unfold RR.write
  rcases rdata_write_cases r.rdata with ⟨h, b, hb⟩ | ⟨h, hb⟩
  · exact Or.inl ⟨h, _, by rw [hb]; rfl⟩
  · exact Or.inr ⟨h, by rw [hb]; rfl⟩

/-- `ResourceRecord::write_to` / `write_compressed_to` (functional form) succeed exactly when the RDATA can be written -/
theorem rr_writeG_cases (c : Bool) (r : RR) (off : Nat) (t : Table) :
    (rdOk r.rdata = true ∧ ∃ x, r.writeG c off t = .ok x) ∨
    (rdOk r.rdata = false ∧ r.writeG c off t = .err) := by
  unfold RR.writeG
  simp only
  rcases rdata_writeG_cases c r.rdata (off + (nameG c r.name off t).1.length + r.writeCommon.length + 2)
    (nameG c r.name off t).2 with ⟨h, x, hx⟩ | ⟨h, hx⟩
  · exact Or.inl ⟨h, _, by rw [hx]; rfl⟩
  · exact Or.inr ⟨h, by rw [hx]; rfl⟩

/-- a section written by `write_to`: success exactly when every RDATA can be written, else an error -/
theorem writeRRs_cases (rs : List RR) :
    (allOk rs = true ∧ ∃ b, writeRRs rs = .ok b) ∨ (allOk rs = false ∧ writeRRs rs = .err) := by
  induction rs with
  | nil => exact Or.inl ⟨rfl, _, rfl⟩
  | cons r rs ih =>
    simp only [writeRRs, allOk, List.all_cons]
    rcases rr_write_cases r with ⟨h, a, ha⟩ | ⟨h, ha⟩
    · rw [ha, h]
      rcases ih with ⟨h2, b, hb⟩ | ⟨h2, hb⟩
      · left; rw [hb]; exact ⟨by simpa [allOk] using h2, _, rfl⟩
      · right; rw [hb]; exact ⟨by simpa [allOk] using h2, rfl⟩
    · right; rw [ha, h]; exact ⟨rfl, rfl⟩

/-- a section written by either path, at any offset and table: success exactly when every RDATA can be written, else an error -/
theorem writeRRsG_cases (c : Bool) (rs : List RR) : ∀ (off : Nat) (t : Table),
    (allOk rs = true ∧ ∃ x, writeRRsG c rs off t = .ok x) ∨
    (allOk rs = false ∧ writeRRsG c rs off t = .err) := by
  induction rs with
  | nil => intro off t; exact Or.inl ⟨rfl, _, rfl⟩
  | cons r rs ih =>
    intro off t
    simp only [writeRRsG, allOk, List.all_cons]
    rcases rr_writeG_cases c r off t with ⟨h, a, ha⟩ | ⟨h, ha⟩
    · rw [ha, h]
      rcases ih (off + a.1.length) a.2 with ⟨h2, b, hb⟩ | ⟨h2, hb⟩
      · left; simp only [Out.bind_ok]; rw [hb]; exact ⟨by simpa [allOk] using h2, _, rfl⟩
      · right; simp only [Out.bind_ok]; rw [hb]; exact ⟨by simpa [allOk] using h2, rfl⟩
    · right; rw [ha, h]; exact ⟨rfl, rfl⟩

/-- the OPT pseudo-record can always be written -/
theorem optRR_allOk (h : Header) : allOk h.optRR.toList = true := by
  cases ho : h.opt <;> simp [Header.optRR, ho, allOk, rdOk]

/-- every record section of the packet can be written (the only obstacle is a LOC record whose
version is not 0) -/
def Packet.writable (p : Packet) : Bool :=
  allOk p.answers && allOk p.nameServers && allOk p.additional

/-- **The vector builders are total**: success exactly when every RDATA can be written, an error
otherwise; never a panic. -/
theorem buildG_cases (c : Bool) (p : Packet) :
    (Packet.writable p = true ∧ ∃ b, p.buildG c = .ok b) ∨
    (Packet.writable p = false ∧ p.buildG c = .err) := by
  unfold Packet.buildG Packet.writable
  simp only
  rcases writeRRsG_cases c p.answers (p.writeHeader.length +
    (writeQuestionsG c p.questions p.writeHeader.length []).1.length)
    (writeQuestionsG c p.questions p.writeHeader.length []).2 with ⟨h1, ⟨an, t1⟩, e1⟩ | ⟨h1, e1⟩
  · rw [e1, h1]
    simp only [Out.bind_ok]
    rcases writeRRsG_cases c p.nameServers (p.writeHeader.length +
      (writeQuestionsG c p.questions p.writeHeader.length []).1.length + an.length) t1
      with ⟨h2, ⟨ns, t2⟩, e2⟩ | ⟨h2, e2⟩
    · rw [e2, h2]
      simp only [Out.bind_ok]
      rcases writeRRs_cases p.header.optRR.toList with ⟨_, o, e3⟩ | ⟨h3, _⟩
      · rw [e3]
        simp only [Out.bind_ok]
        rcases writeRRsG_cases c p.additional (p.writeHeader.length +
          (writeQuestionsG c p.questions p.writeHeader.length []).1.length + an.length +
            ns.length + o.length) t2 with ⟨h4, ⟨ar, t3⟩, e4⟩ | ⟨h4, e4⟩
        · rw [e4, h4]; exact Or.inl ⟨rfl, _, rfl⟩
        · rw [e4, h4]; exact Or.inr ⟨rfl, rfl⟩
      · rw [optRR_allOk] at h3; cases h3
    · rw [e2, h2]; exact Or.inr ⟨rfl, rfl⟩
  · rw [e1, h1]; exact Or.inr ⟨by simp, rfl⟩

/-- **`build_bytes_vec` / `build_bytes_vec_compressed` never panic**, for any packet at all. -/
theorem buildG_ne_panic (c : Bool) (p : Packet) : p.buildG c ≠ .panic := by
  rcases buildG_cases c p with ⟨_, b, h⟩ | ⟨_, h⟩ <;> rw [h] <;> simp

/-- `Packet::build_bytes_vec` never panics -/
theorem build_ne_panic (p : Packet) : p.build ≠ .panic := by
  rw [← buildG_false]; exact buildG_ne_panic false p

/-- both builders fail on exactly the same packets -/
theorem build_err_iff (p : Packet) : p.build = .err ↔ p.buildCompressed = .err := by
  rw [← buildG_false]
  unfold Packet.buildCompressed
  rcases buildG_cases false p with ⟨h1, b, e1⟩ | ⟨h1, e1⟩ <;>
    rcases buildG_cases true p with ⟨h2, b', e2⟩ | ⟨h2, e2⟩ <;> rw [e1, e2] <;> simp_all

/-! ### the writer-based entry points -/

/-- `x >>= f` neither panics nor succeeds without `P` when that holds of `x` and of every
continuation -/
theorem bind_total {α β : Type} {x : Out α} {f : α → Out β} {P : Prop} (hx : x ≠ .panic)
    (hf : ∀ a, x = .ok a → f a ≠ .panic ∧ (∀ b, f a = .ok b → P)) :
    (x >>= f) ≠ .panic ∧ (∀ b, (x >>= f) = .ok b → P) := by
  cases x with
  | ok a => simpa using hf a rfl
  | err => simp
  | panic => exact absurd rfl hx

/-- `Ok(x)` neither panics nor needs anything -/
theorem pure_total {α : Type} (a : α) {P : Prop} (h : P) :
    (pure a : Out α) ≠ .panic ∧ (∀ b, (pure a : Out α) = .ok b → P) := by
  simp [h]

/-- one record through the seek-and-patch writer: no panic, and success only if the RDATA can be
written -/
theorem rr_writeCompressedTo_total (r : RR) (w : W) (start : Nat) (t : Table) :
    r.writeCompressedTo w start t ≠ .panic ∧
    (∀ x, r.writeCompressedTo w start t = .ok x → rdOk r.rdata = true) := by
  unfold RR.writeCompressedTo
  simp only
  refine bind_total (W_write_ne_panic _ _) fun w1 _ => ?_
  refine bind_total (W_write_ne_panic _ _) fun w2 _ => ?_
  refine bind_total (W_write_ne_panic _ _) fun w3 _ => ?_
  rcases rdata_writeG_cases true r.rdata (w3.streamPos - start)
    (compressName r.name (w.streamPos - start) t).2 with ⟨hk, x, hx⟩ | ⟨hk, hx⟩
  · rw [hx]
    simp only [Out.bind_ok]
    refine bind_total (W_write_ne_panic _ _) fun w4 _ => ?_
    refine bind_total (W_write_ne_panic _ _) fun w5 _ => ?_
    exact pure_total _ hk
  · rw [hx]; simp

/-- `Question::write_compressed_to` on a caller's writer never panics -/
theorem question_writeCompressedTo_ne_panic (q : Question) (w : W) (start : Nat) (t : Table) :
    q.writeCompressedTo w start t ≠ .panic := by
  unfold Question.writeCompressedTo
  simp only
  refine (bind_total (P := True) (W_write_ne_panic _ _) fun w1 _ => ?_).1
  refine bind_total (W_write_ne_panic _ _) fun w2 _ => ?_
  exact pure_total _ trivial

/-- writing the question section to a caller's writer never panics -/
theorem writeQuestionsTo_ne_panic (qs : List Question) : ∀ (w : W) (start : Nat) (t : Table),
    writeQuestionsTo qs w start t ≠ .panic := by
  induction qs with
  | nil => intro w start t; simp [writeQuestionsTo]
  | cons q qs ih =>
    intro w start t
    simp only [writeQuestionsTo]
    exact Out.bind_ne_panic (question_writeCompressedTo_ne_panic q w start t) fun a _ => ih _ _ _

/-- a record section through the seek-and-patch writer: no panic, success only if every RDATA can be written -/
theorem writeRRsTo_total (rs : List RR) : ∀ (w : W) (start : Nat) (t : Table),
    writeRRsTo rs w start t ≠ .panic ∧
    (∀ x, writeRRsTo rs w start t = .ok x → allOk rs = true) := by
  induction rs with
  | nil => intro w start t; simp [writeRRsTo, allOk]
  | cons r rs ih =>
    intro w start t
    simp only [writeRRsTo]
    obtain ⟨h1, h2⟩ := rr_writeCompressedTo_total r w start t
    cases hr : r.writeCompressedTo w start t with
    | ok a =>
      simp only [Out.bind_ok]
      obtain ⟨h3, h4⟩ := ih a.1 start a.2
      refine ⟨h3, fun x hx => ?_⟩
      simp only [allOk, List.all_cons, h2 a hr, Bool.true_and]
      exact h4 x hx
    | err => simp
    | panic => exact absurd hr h1

/-- `Packet::write_compressed_to` on any modelled writer (seekable or not): no panic, and success
only if every RDATA can be written -/
theorem writeCompressedTo_total (p : Packet) (w : W) :
    p.writeCompressedTo w ≠ .panic ∧
    (∀ w', p.writeCompressedTo w = .ok w' → Packet.writable p = true) := by
  unfold Packet.writeCompressedTo
  simp only
  refine bind_total (W_write_ne_panic _ _) fun w1 _ => ?_
  refine bind_total (writeQuestionsTo_ne_panic _ _ _ _) fun x1 _ => ?_
  obtain ⟨h1, h1'⟩ := writeRRsTo_total p.answers x1.1 w.streamPos x1.2
  cases e1 : writeRRsTo p.answers x1.1 w.streamPos x1.2 with
  | panic => exact absurd e1 h1
  | err => simp
  | ok x2 =>
    simp only [Out.bind_ok]
    obtain ⟨h2, h2'⟩ := writeRRsTo_total p.nameServers x2.1 w.streamPos x2.2
    cases e2 : writeRRsTo p.nameServers x2.1 w.streamPos x2.2 with
    | panic => exact absurd e2 h2
    | err => simp
    | ok x3 =>
      simp only [Out.bind_ok]
      rcases writeRRs_cases p.header.optRR.toList with ⟨_, o, e3⟩ | ⟨h3, _⟩
      · rw [e3]
        simp only [Out.bind_ok]
        refine bind_total (W_write_ne_panic _ _) fun w4 _ => ?_
        obtain ⟨h4, h4'⟩ := writeRRsTo_total p.additional w4 w.streamPos x3.2
        cases e4 : writeRRsTo p.additional w4 w.streamPos x3.2 with
        | panic => exact absurd e4 h4
        | err => simp
        | ok x5 =>
          simp only [Out.bind_ok]
          exact pure_total _ (by simp [Packet.writable, h1' _ e1, h2' _ e2, h4' _ e4])
      · rw [optRR_allOk] at h3; cases h3

/-- **Writer totality (1).** `Packet::write_to` and `Packet::write_compressed_to` report an error
instead of panicking: for every packet (well-formed or not) and every state of every modelled
writer (`Vec`, `Cursor<Vec>`, `Cursor<&mut [u8]>`, `&mut [u8]`; any content, any position). -/
theorem writers_never_panic (p : Packet) (w : W) :
    p.writeTo w ≠ .panic ∧ p.writeCompressedTo w ≠ .panic := by
  refine ⟨?_, (writeCompressedTo_total p w).1⟩
  unfold Packet.writeTo
  exact Out.bind_ne_panic (build_ne_panic p) fun _ _ => W_write_ne_panic _ _

/-- **Writer totality (2).** A packet that `build_bytes_vec` refuses is refused by `write_to` on
every writer. -/
theorem writeTo_err_of_build_err (p : Packet) (w : W) (h : p.build = .err) : p.writeTo w = .err := by
  simp [Packet.writeTo, h]

/-- **Writer totality (3).** A packet that `build_bytes_vec_compressed` refuses is refused by
`write_compressed_to` on every writer — seekable or not, whatever its capacity: the writer cannot
succeed (and so hand out a truncated or unpatched message) where the vector builder fails. -/
theorem writeCompressedTo_err_of_build_err (p : Packet) (w : W) (h : p.buildCompressed = .err) :
    p.writeCompressedTo w = .err := by
  obtain ⟨h1, h2⟩ := writeCompressedTo_total p w
  rcases buildG_cases true p with ⟨_, b, e⟩ | ⟨hk, _⟩
  · rw [Packet.buildCompressed, e] at h; cases h
  · cases e : p.writeCompressedTo w with
    | ok w' => rw [h2 w' e] at hk; cases hk
    | err => rfl
    | panic => exact absurd e h1

/-- the same from the plain builder's verdict (both builders fail on the same packets) -/
theorem writeCompressedTo_err_of_plain_err (p : Packet) (w : W) (h : p.build = .err) :
    p.writeCompressedTo w = .err :=
  writeCompressedTo_err_of_build_err p w ((build_err_iff p).mp h)

/-- **The seekable writers are the vector builder followed by one `write_all`**, for every packet
and every state of a `Cursor<Vec<u8>>` or `Cursor<&mut [u8]>`: same storage, same position, same
verdict (success, or an error when the packet cannot be written or does not fit). -/
theorem writeCompressedTo_eq_build_write (p : Packet) (w : W)
    (hk : w.kind = .cursorVec ∨ w.kind = .cursorFixed) :
    p.writeCompressedTo w = (p.buildCompressed >>= fun bytes => w.write bytes) := by
  cases hb : p.buildCompressed with
  | ok bytes =>
    simp only [Out.bind_ok]
    by_cases hf : w.fits bytes.length
    · rw [writers_agree_compressed' p w hk bytes hb hf, Wr.W.write_fits w bytes hf]
    · rw [small_writer_compressed p w hk bytes hb hf, Wr.W.write_not_fits w bytes hf]
  | err => simpa using writeCompressedTo_err_of_build_err p w hb
  | panic => exact absurd hb (buildG_ne_panic true p)

/-- the plain entry point is that by definition, on every writer -/
theorem writeTo_eq_build_write (p : Packet) (w : W) :
    p.writeTo w = (p.build >>= fun bytes => w.write bytes) := rfl

/-- a LOC record with version 1: both builders and both writers answer with an error -/
def locBad : Packet :=
  { header := { id := 1, opcode := .StandardQuery, rcode := .NoError, flags := 0, opt := none }
    questions := []
    answers := [{ name := [[97]], cls := .IN, ttl := 1, flush := false,
                  rdata := .flat 29 [.int 1, .int 0, .int 0, .int 0, .int 0, .int 0, .int 0] }]
    nameServers := []
    additional := [] }

/-- both vector builders refuse it -/
example : locBad.build = .err ∧ locBad.buildCompressed = .err := by decide

/-- so does the seekable writer, by the theorem -/
example : locBad.writeCompressedTo { kind := .cursorFixed, buf := List.replicate 64 0, pos := 0 }
    = .err := writeCompressedTo_err_of_build_err _ _ (by decide)

/-- and the other writers, by evaluation -/
example : locBad.writeCompressedTo { kind := .vec, buf := [], pos := 0 } = .err ∧
    locBad.writeTo { kind := .slice, buf := [], pos := 0 } = .err := by decide

/-! ## C04-2. the entries found by the envelope walker are the packet's entries -/

open Framing (Corr RecOK QuOK)

/-- `w & 0x7FFF` is `w mod 2^15` -/
theorem and_7fff (x : Nat) : x &&& 0x7FFF = x % 32768 := Nat.and_two_pow_sub_one_eq_mod x 15

/-- `w & 0x8000` of a 16-bit word is its top bit in place -/
theorem and_8000 (x : Nat) (hx : x < 65536) : x &&& 0x8000 = (x / 32768) * 32768 := by
  have h1 : (x &&& 32768) % 32768 = 0 := by
    have := @Nat.and_mod_two_pow x 32768 15
    simpa using this
  have h2 : (x &&& 32768) / 32768 = x / 32768 &&& 1 := by
    have := @Nat.and_div_two_pow x 32768 15
    simpa using this
  rcases Nat.lt_or_ge x 32768 with h | h
  · have : x / 32768 = 0 := by omega
    rw [this] at h2 ⊢
    simp at h2; omega
  · have : x / 32768 = 1 := by omega
    rw [this] at h2 ⊢
    simp at h2; omega

/-- `c | 0x8000` of a 15-bit value adds the top bit -/
theorem or_8000 (k : Nat) (hk : k < 32768) : k ||| 0x8000 = k + 32768 :=
  @Nat.or_two_pow_eq_add_of_lt k 15 hk

/-- a 16-bit word is determined by its low fifteen bits and its top bit -/
theorem word_of_parts (x k : Nat) (f : Bool) (hx : x < 65536) (hk : x &&& 0x7FFF = k)
    (hf : f = ((x &&& 0x8000) == 0x8000)) : x = if f then k ||| 0x8000 else k := by
  rw [and_7fff] at hk
  rw [and_8000 x hx] at hf
  have hk' : k < 32768 := by omega
  rw [or_8000 k hk']
  cases f
  · have : x / 32768 * 32768 ≠ 32768 := by simpa using hf.symm
    simp only [Bool.false_eq_true, if_false]; omega
  · have : x / 32768 * 32768 = 32768 := by simpa using hf.symm
    simp only [if_true]; omega

/-- `CLASS::try_from(c)` only returns the class whose code is `c` -/
theorem class_code {c : Nat} {k : CLASS} (h : CLASS.ofCode c = .ok k) : c = k.toCode := by
  unfold CLASS.ofCode at h
  split at h <;> cases h <;> rfl

/-- `QCLASS::try_from(c)` only returns the value whose code is `c` -/
theorem qclass_code {c : Nat} {k : QCLASS} (h : QCLASS.ofCode c = .ok k) : c = k.toCode := by
  unfold QCLASS.ofCode at h
  split at h
  · cases h; rfl
  · split at h
    · rename_i x hx; cases h; exact class_code hx
    · cases h
    · cases h

/-- `QTYPE::try_from(c)` only returns the value whose code is `c` -/
theorem qtype_code {c : Nat} {q : QTYPE} (h : QTYPE.ofCode c = .ok q) : c = q.toCode := by
  unfold QTYPE.ofCode at h
  split at h
  iterate 5 (cases h; rfl)
  split at h
  · cases h
  · cases h; exact (type_toCode_ofCode _).symm

/-- a field of `w` bytes read by the envelope walker is below `256 ^ w` -/
theorem field_lt {d : Bytes} {a w n : Nat} (h : Spec.field d a w = some n) : n < 256 ^ w := by
  have hle := Framing.field_le h
  rw [Framing.field_eq hle] at h
  cases h
  have := deN_lt ((d.drop a).take w)
  rwa [show ((d.drop a).take w).length = w by simp; omega] at this

/-- what the walker read for the record entry `e` at its offset -/
theorem walkRecord_fields {d : Bytes} {off : Nat} {e : Spec.REntry}
    (h : Spec.walkRecord d off = some e) :
    e.off = off ∧ Spec.skipName d (d.length + 1) off = some e.nameEnd ∧
    Spec.field d e.nameEnd 2 = some e.type ∧ Spec.field d (e.nameEnd + 2) 2 = some e.cls ∧
    Spec.field d (e.nameEnd + 4) 4 = some e.ttl ∧ Spec.field d (e.nameEnd + 8) 2 = some e.rdlen ∧
    e.next ≤ d.length := by
  unfold Spec.walkRecord at h
  simp only [Option.bind_eq_bind, Option.bind_eq_some_iff] at h
  obtain ⟨ne, hne, t, ht, c, hc, ttl, httl, l, hl, h⟩ := h
  split at h
  · rename_i hfit
    simp only [Option.pure_def, Option.some.injEq] at h
    subst h
    exact ⟨rfl, hne, ht, hc, httl, hl, hfit⟩
  · cases h

/-- what the walker read for the question entry `e` at its offset -/
theorem walkQuestion_fields {d : Bytes} {off : Nat} {e : Spec.QEntry}
    (h : Spec.walkQuestion d off = some e) :
    e.off = off ∧ Spec.skipName d (d.length + 1) off = some e.nameEnd ∧
    Spec.field d e.nameEnd 2 = some e.qtype ∧ Spec.field d (e.nameEnd + 2) 2 = some e.qclass := by
  unfold Spec.walkQuestion at h
  simp only [Option.bind_eq_bind, Option.bind_eq_some_iff] at h
  obtain ⟨ne, hne, t, ht, c, hc, h⟩ := h
  simp only [Option.pure_def, Option.some.injEq] at h
  subst h
  exact ⟨rfl, hne, ht, hc⟩

/-- every entry of a walked section is the walker's reading at the entry's own offset -/
theorem walkRecords_mem {d : Bytes} {n off : Nat} {es : List Spec.REntry} {p : Nat}
    (h : Spec.walkRecords d n off = some (es, p)) : ∀ e ∈ es, Spec.walkRecord d e.off = some e := by
  induction n generalizing off es p with
  | zero =>
    simp only [Spec.walkRecords, Option.some.injEq, Prod.mk.injEq] at h
    obtain ⟨rfl, _⟩ := h
    intro e he; cases he
  | succ n ih =>
    simp only [Spec.walkRecords, Option.bind_eq_bind, Option.bind_eq_some_iff] at h
    obtain ⟨e, he, ⟨es', p'⟩, hes, h⟩ := h
    simp only [Option.pure_def, Option.some.injEq, Prod.mk.injEq] at h
    obtain ⟨rfl, rfl⟩ := h
    intro x hx
    rw [List.mem_cons] at hx
    rcases hx with rfl | hx
    · rw [(walkRecord_fields he).1]; exact he
    · exact ih hes x hx

/-- every entry of a walked question section is the walker's reading at the entry's own offset -/
theorem walkQuestions_mem {d : Bytes} {n off : Nat} {es : List Spec.QEntry} {p : Nat}
    (h : Spec.walkQuestions d n off = some (es, p)) :
    ∀ e ∈ es, Spec.walkQuestion d e.off = some e := by
  induction n generalizing off es p with
  | zero =>
    simp only [Spec.walkQuestions, Option.some.injEq, Prod.mk.injEq] at h
    obtain ⟨rfl, _⟩ := h
    intro e he; cases he
  | succ n ih =>
    simp only [Spec.walkQuestions, Option.bind_eq_bind, Option.bind_eq_some_iff] at h
    obtain ⟨e, he, ⟨es', p'⟩, hes, h⟩ := h
    simp only [Option.pure_def, Option.some.injEq, Prod.mk.injEq] at h
    obtain ⟨rfl, rfl⟩ := h
    intro x hx
    rw [List.mem_cons] at hx
    rcases hx with rfl | hx
    · rw [(walkQuestion_fields he).1]; exact he
    · exact ih hes x hx

/-- a pointwise correspondence can be strengthened entry by entry, using that the entry belongs to the walked list -/
theorem corr_imp_mem {α β : Type} {R S : α → β → Prop} {as : List α} {bs : List β}
    (h : Corr R as bs) (himp : ∀ a b, b ∈ bs → R a b → S a b) : Corr S as bs := by
  induction h with
  | nil => exact Corr.nil
  | cons hab _ ih =>
    exact Corr.cons (himp _ _ (by simp) hab) (ih fun a b hb => himp a b (by simp [hb]))

/-- **One record against one walked entry, exactly**: the entry is what the RFC 1035 walker reads
at its offset; there the owner name decodes (RFC relation `Decodes`) to the record's name, the
TYPE field is the record's type code, the TTL field its TTL, and — unless the record is an OPT
pseudo-record, whose CLASS slot carries the UDP size — the CLASS field is the class code with the
cache-flush bit on top. -/
def RecExact (d : Bytes) (r : RR) (e : Spec.REntry) : Prop :=
  Spec.walkRecord d e.off = some e ∧ Decodes d e.off r.name ∧
  e.type = r.rdata.typeOf.toCode ∧ e.ttl = r.ttl ∧
  (r.rdata.typeOf ≠ .OPT →
    e.cls = (if r.flush then r.cls.toCode ||| 0x8000 else r.cls.toCode))

/-- one question against one walked entry: name, QTYPE code, QCLASS code with the unicast bit -/
def QuExact (d : Bytes) (q : Question) (e : Spec.QEntry) : Prop :=
  Spec.walkQuestion d e.off = some e ∧ Decodes d e.off q.name ∧
  e.qtype = q.qtype.toCode ∧
  e.qclass = (if q.unicast then q.qclass.toCode ||| 0x8000 else q.qclass.toCode)

/-- C05's correspondence `RecOK` plus the walker's own reading give the exact fields -/
theorem RecExact.of_ok {d : Bytes} {r : RR} {e : Spec.REntry}
    (hw : Spec.walkRecord d e.off = some e) (h : RecOK d r e) : RecExact d r e := by
  obtain ⟨hn, ht, hty, hc⟩ := h
  obtain ⟨_, _, _, hcls, _⟩ := walkRecord_fields hw
  refine ⟨hw, hn, ?_, ht.symm, fun hno => ?_⟩
  · rw [hty, type_toCode_ofCode]
  · obtain ⟨h1, h2⟩ := hc hno
    exact word_of_parts e.cls _ r.flush (by simpa using field_lt hcls) (class_code h1) h2

/-- C05's correspondence `QuOK` plus the walker's own reading give the exact fields -/
theorem QuExact.of_ok {d : Bytes} {q : Question} {e : Spec.QEntry}
    (hw : Spec.walkQuestion d e.off = some e) (h : QuOK d q e) : QuExact d q e := by
  obtain ⟨hn, hqt, hqc, hu⟩ := h
  obtain ⟨_, _, _, hcls⟩ := walkQuestion_fields hw
  exact ⟨hw, hn, qtype_code hqt,
    word_of_parts e.qclass _ q.unicast (by simpa using field_lt hcls) (qclass_code hqc) hu⟩

/-- **`framed_entries`.** For a well-formed packet, the bytes of `Packet::write_to` (`c = false`)
and of `Packet::write_compressed_to` (`c = true`) walk — by the independent RFC 1035 §4.1 envelope
walker, which is a function, so this is *the* walk — to entries that end exactly at the end of the
message and correspond one to one and in order to the packet's questions, answers, authority
records and additional records (the OPT pseudo-record of the header first): owner name, type code,
class field and TTL of each. -/
theorem framed_entries (c : Bool) (p : Packet) (hwf : p.WF) :
    ∃ b w, p.buildG c = .ok b ∧ Spec.walk b = some w ∧ w.stop = b.length ∧
      Corr (QuExact b) p.questions w.questions ∧
      Corr (RecExact b) p.answers w.answers ∧
      Corr (RecExact b) p.nameServers w.nameServers ∧
      Corr (RecExact b) (p.header.optRR.toList ++ p.additional) w.additional := by
  obtain ⟨qs, an, t1, ns, t2, ob, ar, t3, _, _, _, _, _, hbuild, hhl, hQ, hAN, hNS, hO, hAR⟩ :=
    Wr.buildG_sections c p hwf
  obtain ⟨hH, hqd, han, hns, har, _⟩ := hwf
  obtain ⟨hid, hfl, _⟩ := hH
  have hcnt : p.additional.length % 65536 + (if p.header.opt.isSome then 1 else 0)
      = p.header.optRR.toList.length + p.additional.length := by
    have : p.additional.length % 65536 = p.additional.length := Nat.mod_eq_of_lt (by omega)
    rw [this, Wr.optRR_length]; omega
  obtain ⟨hhp, hgf⟩ := header_parse_built p.header p.questions.length p.answers.length
    p.nameServers.length (p.additional.length % 65536 + (if p.header.opt.isSome then 1 else 0))
    (qs.1 ++ (an ++ (ns ++ (ob ++ ar)))) hid hfl
  obtain ⟨hp1, hp2, hp3, hp4⟩ := peek_built p.header p.questions.length p.answers.length
    p.nameServers.length (p.additional.length % 65536 + (if p.header.opt.isSome then 1 else 0))
    (qs.1 ++ (an ++ (ns ++ (ob ++ ar)))) hid hgf (by omega) (by omega) (by omega)
    (by have : p.additional.length % 65536 ≤ p.additional.length := Nat.mod_le _ _
        omega)
  have e1 := hQ.dec (an ++ (ns ++ (ob ++ ar)))
  have e2 := hAN.dec (ns ++ (ob ++ ar))
  have e3 := hNS.dec (ob ++ ar)
  have e4 := hO.dec ar
  have e5 := hAR.dec []
  simp only [List.append_assoc, List.length_append, List.append_nil, hhl, Nat.add_assoc] at e1 e2 e3 e4 e5
  have e45 := parseRRs_append _ _ _ _ _ _ _ _ e4 e5
  rw [← hcnt] at e45
  simp only [Packet.writeHeader] at hp1 hp2 hp3 hp4 e1 e2 e3 e45 hhl
  obtain ⟨wq, hwq, _, lq, cq⟩ := questions_follow_framing e1
  obtain ⟨wa, hwa, _, la, ca⟩ := records_follow_framing e2
  obtain ⟨wn, hwn, _, ln, cn⟩ := records_follow_framing e3
  obtain ⟨wr, hwr, _, lr, cr⟩ := records_follow_framing e45
  refine ⟨_, { questions := wq, answers := wa, nameServers := wn, additional := wr,
               stop := 12 + (qs.1.length + (an.length + (ns.length + (ob.length + ar.length)))) },
    hbuild, ?_, ?_,
    corr_imp_mem cq fun a b hb h => QuExact.of_ok (walkQuestions_mem hwq b hb) h,
    corr_imp_mem ca fun a b hb h => RecExact.of_ok (walkRecords_mem hwa b hb) h,
    corr_imp_mem cn fun a b hb h => RecExact.of_ok (walkRecords_mem hwn b hb) h,
    corr_imp_mem cr fun a b hb h => RecExact.of_ok (walkRecords_mem hwr b hb) h⟩
  · unfold Spec.walk
    simp only [Packet.writeHeader]
    simp [Framing.field_of_peekU16 hp1, Framing.field_of_peekU16 hp2, Framing.field_of_peekU16 hp3,
      Framing.field_of_peekU16 hp4, hwq, hwa, hwn, hwr]
  · simp [Packet.writeHeader, hhl]

/-- index form: the `i`-th answer is the `i`-th walked answer entry -/
theorem framed_entries_answer (c : Bool) (p : Packet) (hwf : p.WF) :
    ∃ b w, p.buildG c = .ok b ∧ Spec.walk b = some w ∧
      ∃ hl : w.answers.length = p.answers.length,
        ∀ i (hi : i < p.answers.length), RecExact b p.answers[i] (w.answers[i]'(hl ▸ hi)) := by
  obtain ⟨b, w, hb, hw, _, _, ca, _⟩ := framed_entries c p hwf
  exact ⟨b, w, hb, hw, ca.length_eq.symm, fun i hi => ca.get i hi _⟩

/-- the packet of C04's examples is well-formed, so `framed_entries` applies to it -/
example : ∃ b w, c04Packet.buildG true = .ok b ∧ Spec.walk b = some w ∧
    Corr (RecExact b) c04Packet.answers w.answers :=
  let ⟨b, w, hb, hw, _, _, ca, _⟩ := framed_entries true c04Packet (by decide)
  ⟨b, w, hb, hw, ca⟩

/-! ## C07-1. no pointer targets the 12-byte header -/

open Wr (labelBytes Chain TBound)

/-- every offset in the suffix table is at least 12, the length of the header -/
def TLow (t : Table) : Prop := ∀ e ∈ t, 12 ≤ e.2

/-- the empty table `write_compressed_to` starts with holds no offset at all -/
theorem TLow.nil : TLow [] := fun _ h => by cases h

/-- `Name::compress_append` called at an offset past the header only records offsets past the
header -/
theorem compressName_low (n : Name) : ∀ (off : Nat) (t : Table), 12 ≤ off → TLow t →
    TLow (compressName n off t).2 := by
  induction n with
  | nil => intro off t _ h; simpa [compressName] using h
  | cons l rest ih =>
    intro off t ho h
    simp only [compressName]
    split
    · exact h
    · apply ih _ _ (by omega)
      split
      · intro e he
        rw [List.mem_cons] at he
        rcases he with rfl | he
        · exact ho
        · exact h e he
      · exact h

/-- a name field of an RDATA is at or after the offset its field starts at -/
theorem fieldSites_ge (k : FKind) (v : Val) (off : Nat) : ∀ s ∈ fieldSites k v off, off ≤ s.off := by
  intro s hs
  rcases Wr.fieldSites_cases k v off with ⟨cb, n, _, _, h⟩ | ⟨h, _⟩
  · rw [h] at hs; simp at hs; subst hs; exact Nat.le_refl _
  · rw [h] at hs; cases hs

/-- the name fields of a flat RDATA are at or after the RDATA's first byte -/
theorem sitesAll_ge (c : Bool) (ks : List FKind) : ∀ (vs : List Val) (off : Nat) (t : Table),
    ∀ s ∈ sitesAll c ks vs off t, off ≤ s.off := by
  induction ks with
  | nil => intro vs off t s hs; simp [sitesAll] at hs
  | cons k ks ih =>
    intro vs off t s hs
    cases vs with
    | nil => simp [sitesAll] at hs
    | cons v vs =>
      simp only [sitesAll, List.mem_append] at hs
      rcases hs with hs | hs
      · exact fieldSites_ge k v off s hs
      · have := ih vs _ _ s hs; omega

/-- the names inside an RDATA are at or after the RDATA's first byte -/
theorem rdata_sites_ge (c : Bool) (rd : RData) (off : Nat) (t : Table) :
    ∀ s ∈ rd.sites c off t, off ≤ s.off := by
  intro s hs
  cases rd with
  | flat code vs =>
    simp only [RData.sites] at hs
    cases hk : schemaOf code with
    | none => simp [hk] at hs
    | some ks => rw [hk] at hs; exact sitesAll_ge c ks vs off t s hs
  | ipseckey prec alg gw key =>
    cases gw <;> simp [RData.sites] at hs
    subst hs; simp
  | _ => simp [RData.sites] at hs

/-- the names of a record (owner, RDATA names) are at or after the record's first byte -/
theorem rr_sites_ge (c : Bool) (r : RR) (off : Nat) (t : Table) :
    ∀ s ∈ r.sites c off t, off ≤ s.off := by
  intro s hs
  simp only [RR.sites, List.mem_cons] at hs
  rcases hs with rfl | hs
  · exact Nat.le_refl _
  · have := rdata_sites_ge c r.rdata _ _ s hs; omega

/-- the writer's offset never moves backwards over a record or a section -/
theorem afterG_ge (x : Out (Bytes × Table)) (off : Nat) (t : Table) : off ≤ (afterG x off t).1 := by
  unfold afterG; split <;> simp

/-- the names of a record section are at or after the section's first byte -/
theorem sitesRRs_ge (c : Bool) (rs : List RR) : ∀ (off : Nat) (t : Table),
    ∀ s ∈ sitesRRs c rs off t, off ≤ s.off := by
  induction rs with
  | nil => intro off t s hs; simp [sitesRRs] at hs
  | cons r rs ih =>
    intro off t s hs
    simp only [sitesRRs, List.mem_append] at hs
    rcases hs with hs | hs
    · exact rr_sites_ge c r off t s hs
    · have := ih _ _ s hs
      have := afterG_ge (r.writeG c off t) off t
      omega

/-- the names of the question section are at or after its first byte, offset 12 -/
theorem sitesQuestions_ge (c : Bool) (qs : List Question) : ∀ (off : Nat) (t : Table),
    ∀ s ∈ sitesQuestions c qs off t, off ≤ s.off := by
  induction qs with
  | nil => intro off t s hs; simp [sitesQuestions] at hs
  | cons q qs ih =>
    intro off t s hs
    simp only [sitesQuestions, Question.sites, List.mem_append, List.mem_singleton] at hs
    rcases hs with rfl | hs
    · exact Nat.le_refl _
    · have := ih _ _ s hs; omega

/-- **Every name of a message is written past the header**: all sites have offset ≥ 12 -/
theorem sites_past_header (c : Bool) (p : Packet) : ∀ s ∈ p.sitesG c, 12 ≤ s.off := by
  intro s hs
  simp only [Packet.sitesG, List.mem_append, List.mem_map] at hs
  have a2 := afterG_ge (writeRRsG c p.answers (12 + (writeQuestionsG c p.questions 12 []).1.length)
    (writeQuestionsG c p.questions 12 []).2) (12 + (writeQuestionsG c p.questions 12 []).1.length)
    (writeQuestionsG c p.questions 12 []).2
  generalize afterG (writeRRsG c p.answers (12 + (writeQuestionsG c p.questions 12 []).1.length)
    (writeQuestionsG c p.questions 12 []).2) (12 + (writeQuestionsG c p.questions 12 []).1.length)
    (writeQuestionsG c p.questions 12 []).2 = s2 at a2 hs
  have a3 := afterG_ge (writeRRsG c p.nameServers s2.1 s2.2) s2.1 s2.2
  generalize afterG (writeRRsG c p.nameServers s2.1 s2.2) s2.1 s2.2 = s3 at a3 hs
  rcases hs with hs | hs | hs | ⟨_, _, rfl⟩ | hs
  · exact sitesQuestions_ge c _ _ _ s hs
  · have := sitesRRs_ge c _ _ _ s hs; omega
  · have := sitesRRs_ge c _ _ _ s hs; omega
  · show 12 ≤ s3.1; omega
  · have := sitesRRs_ge c _ _ _ s hs; omega

/-- an invariant of the suffix table that every compressible site of `L` preserves holds at the
end of the chain -/
theorem chain_inv {d : Bytes} {L : List Site} {t t' : Table} (I : Table → Prop)
    (h : Chain d L t t') (h0 : I t)
    (step : ∀ s ∈ L, s.compressible = true → ∀ t, I t → I (compressName s.name s.off t).2) :
    I t' := by
  induction L generalizing t with
  | nil => simp only [Chain] at h; subst h; exact h0
  | cons s L ih =>
    simp only [Chain] at h
    split at h
    · rename_i hc
      exact ih h.2 (step s (by simp) hc t h0) fun x hx => step x (by simp [hx])
    · exact ih h h0 fun x hx => step x (by simp [hx])

/-- the table as it is when the chain reaches a compressible site, and the bytes found there -/
theorem chain_at {d : Bytes} {A C : List Site} {s : Site} {t t' : Table}
    (h : Chain d (A ++ s :: C) t t') (hc : s.compressible = true) :
    ∃ ta, Chain d A t ta ∧
      (d.drop s.off).take (compressName s.name s.off ta).1.length = (compressName s.name s.off ta).1 ∧
      Chain d C (compressName s.name s.off ta).2 t' := by
  obtain ⟨ta, hA, h⟩ := h.split
  simp only [Chain, if_pos hc] at h
  exact ⟨ta, hA, h.1, h.2⟩

/-- along the name sites of a message, all past the header, the table only receives offsets ≥ 12 -/
theorem chain_low {d : Bytes} {L : List Site} {t t' : Table} (h : Chain d L t t') (h0 : TLow t)
    (hL : ∀ s ∈ L, 12 ≤ s.off) : TLow t' :=
  chain_inv TLow h h0 fun s hs _ t ht => compressName_low s.name s.off t (hL s hs) ht

/-- **The suffix table of a compressed message never holds an offset inside the header.** The
table threaded through all name sites in writing order (`Chain`, Lemmas/WritersB.lean), which
starts empty and only grows, ends with every recorded offset in `12 ..= 16383`. -/
theorem table_past_header (p : Packet) (b : Bytes) (hb : p.buildCompressed = .ok b) :
    ∃ t', Chain b (p.sitesG true) [] t' ∧ ∀ e ∈ t', 12 ≤ e.2 ∧ e.2 ≤ 0x3FFF := by
  obtain ⟨t', hc⟩ := Wr.buildG_chain p b hb
  exact ⟨t', hc, fun e he => ⟨chain_low hc TLow.nil (sites_past_header true p) e he,
    hc.bound (fun _ h => by cases h) e he⟩⟩

/-- **`pointer_target_past_header`.** At every compressible name site of a compressed message
(question names, owner names, RFC 1035 RDATA names) the bytes are either the whole name written
label by label, or the labels of a prefix followed by one two-byte pointer whose target `q`
satisfies `12 ≤ q ≤ 16383`: no emitted pointer targets the 12-byte header. No well-formedness
hypothesis is needed. -/
theorem pointer_target_past_header (p : Packet) (b : Bytes) (hb : p.buildCompressed = .ok b) :
    ∀ s ∈ p.sitesG true, s.compressible = true →
      (b.drop s.off).take (Name.write s.name).length = Name.write s.name ∨
      ∃ pre suf q, s.name = pre ++ suf ∧ suf ≠ [] ∧ 12 ≤ q ∧ q ≤ 0x3FFF ∧
        (b.drop s.off).take ((labelBytes pre).length + 2) = labelBytes pre ++ beN 2 (q ||| 0xC000) := by
  intro s hs hc
  obtain ⟨t', hch⟩ := Wr.buildG_chain p b hb
  obtain ⟨A, C, hsplit⟩ := List.append_of_mem hs
  have hge := sites_past_header true p
  rw [hsplit] at hch hge
  obtain ⟨ta, hA, hbytes, _⟩ := chain_at hch hc
  have hlow : TLow ta := chain_low hA TLow.nil fun x hx => hge x (by simp [hx])
  have hbnd : TBound ta := hA.bound fun _ h => by cases h
  rcases Wr.compressName_shape s.name s.off ta with ⟨h1, _⟩ | ⟨pre, suf, q, h1, h2, h3, h4, _⟩
  · left
    rw [h1, ← Wr.write_eq_labelBytes] at hbytes
    exact hbytes
  · right
    have hm := Table.find_mem h3
    refine ⟨pre, suf, q, h1, h2, hlow _ hm, hbnd _ hm, ?_⟩
    rw [h4] at hbytes
    simpa using hbytes

/-- on the example of C07: the pointers are `C0 0C`, target 12, the first byte after the header -/
example : ∀ e ∈ (compressName c07Example 12 []).2, 12 ≤ e.2 :=
  compressName_low _ _ _ (by decide) TLow.nil

/-! ## C07-2. a name that shares a suffix with an earlier one ends in a pointer -/

/-- the suffix table has an entry for `n` -/
def Known (t : Table) (n : Name) : Prop := ∃ q, Table.find t n = some q

/-- looking a name up in a table with one more entry -/
theorem known_cons (m n : Name) (o : Nat) (t : Table) :
    Known ((m, o) :: t) n ↔ m = n ∨ Known t n := by
  unfold Known
  by_cases h : m = n
  · simp [Table.find, h]
  · simp [Table.find, h]

/-- the table is closed under non-empty suffixes: with a name it knows all its parent domains -/
def SufClosed (t : Table) : Prop :=
  ∀ m, Known t m → ∀ a b, m = a ++ b → b ≠ [] → Known t b

/-- closed, except for entries longer than the name `n` being written, whose missing suffixes are
suffixes of `n` (they are recorded while `n` is written) -/
def Pend (t : Table) (n : Name) : Prop :=
  ∀ m, Known t m → (∀ a b, m = a ++ b → b ≠ [] → Known t b) ∨
    (n.length < m.length ∧ ∀ a b, m = a ++ b → b ≠ [] → Known t b ∨ ∃ a', n = a' ++ b)

/-- a suffix-closed table has nothing pending -/
theorem SufClosed.pend {t : Table} (h : SufClosed t) (n : Name) : Pend t n :=
  fun m hm => Or.inl (h m hm)

/-- a compressed name is at least as short as the plain one (no side condition) -/
theorem compressName_le_plain (n : Name) : ∀ (off : Nat) (t : Table),
    (compressName n off t).1.length ≤ Name.wireLen n := by
  induction n with
  | nil => intro off t; simp [compressName]
  | cons l rest ih =>
    intro off t
    simp only [compressName]
    split
    · have := Name.wireLen_pos rest; simp; omega
    · have := ih (off + 1 + l.length) (if off ≤ 0x3FFF then (l :: rest, off) :: t else t)
      simp; omega

/-- **`compress_append` keeps the table suffix-closed** as long as the bytes it emits end within
the first 16384 bytes of the message, and afterwards the table knows every non-empty suffix of
the name written. -/
theorem compressName_closed (n : Name) : ∀ (off : Nat) (t : Table), Pend t n →
    off + (compressName n off t).1.length ≤ 0x4000 →
    SufClosed (compressName n off t).2 ∧
    ∀ a b, n = a ++ b → b ≠ [] → Known (compressName n off t).2 b := by
  induction n with
  | nil =>
    intro off t hP _
    simp only [compressName]
    refine ⟨fun m hm a b hab hb => ?_, fun a b hab hb => ?_⟩
    · rcases hP m hm with h | ⟨_, h⟩
      · exact h a b hab hb
      · rcases h a b hab hb with h | ⟨a', h'⟩
        · exact h
        · simp at h'; exact absurd h'.2 hb
    · simp at hab; exact absurd hab.2 hb
  | cons l rest ih =>
    intro off t hP hoff
    simp only [compressName] at hoff ⊢
    split
    · rename_i q hfind
      have hself : ∀ a b, l :: rest = a ++ b → b ≠ [] → Known t b := by
        rcases hP (l :: rest) ⟨q, hfind⟩ with h | ⟨hlt, _⟩
        · exact h
        · simp at hlt
      refine ⟨fun m hm a b hab hb => ?_, hself⟩
      rcases hP m hm with h | ⟨_, h⟩
      · exact h a b hab hb
      · rcases h a b hab hb with h | ⟨a', h'⟩
        · exact h
        · exact hself a' b h' hb
    · rename_i hfind
      rw [hfind] at hoff
      simp only [List.length_cons, List.length_append] at hoff
      have ho : off ≤ 0x3FFF := by omega
      rw [if_pos ho] at hoff ⊢
      have hP2 : Pend ((l :: rest, off) :: t) rest := by
        intro m hm
        rw [known_cons] at hm
        rcases hm with rfl | hm
        · right
          refine ⟨by simp, fun a b hab hb => ?_⟩
          cases a with
          | nil => left; rw [known_cons]; left; simpa using hab
          | cons x a' => right; simp at hab; exact ⟨a', hab.2⟩
        · rcases hP m hm with h | ⟨hlt, h⟩
          · left; intro a b hab hb; rw [known_cons]; exact Or.inr (h a b hab hb)
          · right
            refine ⟨by simp at hlt; omega, fun a b hab hb => ?_⟩
            rcases h a b hab hb with h | ⟨a', h'⟩
            · left; rw [known_cons]; exact Or.inr h
            · cases a' with
              | nil => left; rw [known_cons]; left; simpa using h'
              | cons x a'' => right; simp at h'; exact ⟨a'', h'.2⟩
      obtain ⟨ih1, ih2⟩ := ih (off + 1 + l.length) ((l :: rest, off) :: t) hP2 (by omega)
      refine ⟨ih1, fun a b hab hb => ?_⟩
      cases a with
      | nil =>
        simp at hab; subst hab
        exact ⟨off, Wr.table_monotone _ _ _ _ _ Wr.find_cons_eq⟩
      | cons x a' => simp at hab; exact ih2 a' b hab.2 hb

/-- a block of `k ≥ 1` bytes found at `off` lies inside the buffer -/
theorem block_inside {d x : Bytes} {off : Nat} (hx : 1 ≤ x.length)
    (h : (d.drop off).take x.length = x) : off + x.length ≤ d.length := by
  have := congrArg List.length h
  simp at this
  omega

/-- what is asked of an earlier site: its name, if written in full, would end within the first
16384 bytes — or the whole message is that short -/
def SiteSmall (d : Bytes) (s : Site) : Prop :=
  s.off + (Name.write s.name).length ≤ 0x4000 ∨ d.length ≤ 0x4000

/-- the suffix table stays suffix-closed along the name sites written within the first 16384 bytes -/
theorem chain_closed {d : Bytes} {L : List Site} {t t' : Table} (h : Chain d L t t')
    (h0 : SufClosed t) (hL : ∀ s ∈ L, s.compressible = true → SiteSmall d s) : SufClosed t' := by
  induction L generalizing t with
  | nil => simp only [Chain] at h; subst h; exact h0
  | cons s L ih =>
    simp only [Chain] at h
    split at h
    · rename_i hc
      refine ih h.2 (compressName_closed s.name s.off t (h0.pend _) ?_).1
        fun x hx => hL x (by simp [hx])
      rcases hL s (by simp) hc with hs | hs
      · have := compressName_le_plain s.name s.off t
        rw [Name.write_length] at hs; omega
      · have := block_inside (Wr.compressName_pos _ _ _) h.1; omega
    · exact ih h h0 fun x hx => hL x (by simp [hx])

/-- the label bytes of a concatenation of label lists -/
theorem labelBytes_append (a b : Name) : labelBytes (a ++ b) = labelBytes a ++ labelBytes b := by
  induction a with
  | nil => rfl
  | cons l a ih => simp [labelBytes, ih]

/-- list form of the theorem below, for any chain that starts from a suffix-closed table of
offsets in `12 ..= 16383` -/
theorem chain_shared_suffix {d : Bytes} {A B C : List Site} {s1 s2 : Site} {t t' : Table}
    (h : Chain d (A ++ s1 :: (B ++ s2 :: C)) t t') (hcl : SufClosed t) (hlow : TLow t)
    (hbnd : TBound t) (hge : ∀ s ∈ A ++ s1 :: (B ++ s2 :: C), 12 ≤ s.off)
    (c1 : s1.compressible = true) (c2 : s2.compressible = true) (pre1 pre2 suf : Name)
    (h1 : s1.name = pre1 ++ suf) (h2 : s2.name = pre2 ++ suf) (hne : suf ≠ [])
    (hsmall : ∀ s ∈ A ++ [s1], s.compressible = true → SiteSmall d s) :
    ∃ pre' x q, pre2 = pre' ++ x ∧ 12 ≤ q ∧ q ≤ 0x3FFF ∧
      (d.drop s2.off).take ((labelBytes pre').length + 2) = labelBytes pre' ++ beN 2 (q ||| 0xC000) ∧
      (labelBytes pre').length + 2 + (Name.write suf).length ≤ (Name.write s2.name).length + 2 := by
  obtain ⟨ta, hA, hb1, h⟩ := chain_at h c1
  have hcla : SufClosed ta := chain_closed hA hcl fun s hs => hsmall s (by simp [hs])
  have hk1 : Known (compressName s1.name s1.off ta).2 suf := by
    refine (compressName_closed s1.name s1.off ta (hcla.pend _) ?_).2 pre1 suf h1 hne
    rcases hsmall s1 (by simp) c1 with hs | hs
    · have := compressName_le_plain s1.name s1.off ta
      rw [Name.write_length] at hs; omega
    · have := block_inside (Wr.compressName_pos _ _ _) hb1; omega
  have hlow1 : TLow (compressName s1.name s1.off ta).2 :=
    compressName_low _ _ _ (hge s1 (by simp))
      (chain_low hA hlow fun s hs => hge s (by simp [hs]))
  have hbnd1 : TBound (compressName s1.name s1.off ta).2 :=
    Wr.compressName_bound _ _ _ (hA.bound hbnd)
  obtain ⟨tb, hB, hb2, _⟩ := chain_at h c2
  obtain ⟨q0, hq0⟩ := hk1
  have hk2 : Table.find tb suf = some q0 := hB.mono _ _ hq0
  have hlow2 : TLow tb := chain_low hB hlow1 fun s hs => hge s (by simp [hs])
  have hbnd2 : TBound tb := hB.bound hbnd1
  rcases Wr.compressName_shape s2.name s2.off tb with ⟨_, hnone⟩ | ⟨pre', suf', q, e1, e2, e3, e4, e5⟩
  · rw [hnone pre2 suf h2 hne] at hk2; cases hk2
  · have hlen : pre'.length ≤ pre2.length := by
      rcases Nat.lt_or_ge pre2.length pre'.length with hlt | hge'
      · rw [e5 pre2 suf h2 hlt] at hk2; cases hk2
      · exact hge'
    have hsplit : ∃ x, pre2 = pre' ++ x ∧ suf' = x ++ suf := by
      have hee : pre' ++ suf' = pre2 ++ suf := by rw [← e1, h2]
      rcases List.append_eq_append_iff.mp hee with ⟨x, hx1, hx2⟩ | ⟨x, hx1, hx2⟩
      · exact ⟨x, hx1, hx2⟩
      · have : x = [] := by
          have := congrArg List.length hx1
          simp at this
          exact List.eq_nil_of_length_eq_zero (by omega)
        subst this
        exact ⟨[], by simpa using hx1.symm, by simpa using hx2.symm⟩
    obtain ⟨x, hx1, hx2⟩ := hsplit
    have hm := Table.find_mem e3
    refine ⟨pre', x, q, hx1, hlow2 _ hm, hbnd2 _ hm, ?_, ?_⟩
    · rw [e4] at hb2; simpa using hb2
    · rw [h2, hx1, Wr.write_eq_labelBytes, Wr.write_eq_labelBytes]
      simp [labelBytes_append]; omega

/-- **`shared_suffix_is_pointer`.** Two compressible name sites of a compressed message, the
first one (`s1`, earlier in writing order) holding `pre1 ++ suf`, the second `pre2 ++ suf` with
`suf` non-empty (a common parent domain). If the names up to and including `s1` lie within the
first 16384 bytes of the message, then the bytes written at `s2` are the labels of a prefix `pre'`
of `pre2` followed by one two-byte pointer with target `12 ≤ q ≤ 16383`; nothing of `suf` is
written again, so the site is shorter than the name written in full by at least the wire length
of `suf` minus the two pointer bytes. No well-formedness hypothesis is needed. -/
theorem shared_suffix_is_pointer (p : Packet) (b : Bytes) (hb : p.buildCompressed = .ok b)
    (A B C : List Site) (s1 s2 : Site) (hs : p.sitesG true = A ++ s1 :: (B ++ s2 :: C))
    (c1 : s1.compressible = true) (c2 : s2.compressible = true) (pre1 pre2 suf : Name)
    (h1 : s1.name = pre1 ++ suf) (h2 : s2.name = pre2 ++ suf) (hne : suf ≠ [])
    (hsmall : ∀ s ∈ A ++ [s1], s.compressible = true →
      s.off + (Name.write s.name).length ≤ 0x4000) :
    ∃ pre' x q, pre2 = pre' ++ x ∧ 12 ≤ q ∧ q ≤ 0x3FFF ∧
      (b.drop s2.off).take ((labelBytes pre').length + 2) = labelBytes pre' ++ beN 2 (q ||| 0xC000) ∧
      (labelBytes pre').length + 2 + (Name.write suf).length ≤ (Name.write s2.name).length + 2 := by
  obtain ⟨t', hc⟩ := Wr.buildG_chain p b hb
  have hge := sites_past_header true p
  rw [hs] at hc hge
  exact chain_shared_suffix hc (fun m hm => by obtain ⟨q, hq⟩ := hm; simp [Table.find] at hq)
    TLow.nil (fun _ h => by cases h) hge c1 c2 pre1 pre2 suf h1 h2 hne
    fun s hs hcs => Or.inl (hsmall s hs hcs)

/-- the same for a message of at most 16384 bytes, without any hypothesis on offsets -/
theorem shared_suffix_is_pointer_small (p : Packet) (b : Bytes) (hb : p.buildCompressed = .ok b)
    (hlen : b.length ≤ 0x4000)
    (A B C : List Site) (s1 s2 : Site) (hs : p.sitesG true = A ++ s1 :: (B ++ s2 :: C))
    (c1 : s1.compressible = true) (c2 : s2.compressible = true) (pre1 pre2 suf : Name)
    (h1 : s1.name = pre1 ++ suf) (h2 : s2.name = pre2 ++ suf) (hne : suf ≠ []) :
    ∃ pre' x q, pre2 = pre' ++ x ∧ 12 ≤ q ∧ q ≤ 0x3FFF ∧
      (b.drop s2.off).take ((labelBytes pre').length + 2) = labelBytes pre' ++ beN 2 (q ||| 0xC000) ∧
      (labelBytes pre').length + 2 + (Name.write suf).length ≤ (Name.write s2.name).length + 2 := by
  obtain ⟨t', hc⟩ := Wr.buildG_chain p b hb
  have hge := sites_past_header true p
  rw [hs] at hc hge
  exact chain_shared_suffix hc (fun m hm => by obtain ⟨q, hq⟩ := hm; simp [Table.find] at hq)
    TLow.nil (fun _ h => by cases h) hge c1 c2 pre1 pre2 suf h1 h2 hne
    fun s _ _ => Or.inr hlen

/-- the compressed form of the packet of C07's examples (79 bytes) -/
def c07Bytes : Bytes :=
  [0, 1, 132, 0, 0, 1, 0, 2, 0, 0, 0, 0,
   7, 101, 120, 97, 109, 112, 108, 101, 3, 99, 111, 109, 0, 0, 15, 0, 1,
   192, 12, 0, 15, 0, 1, 0, 0, 1, 44, 0, 7, 0, 10, 2, 109, 120, 192, 12,
   192, 12, 0, 33, 0, 1, 0, 0, 1, 44, 0, 19, 0, 0, 0, 0, 0, 25,
   7, 101, 120, 97, 109, 112, 108, 101, 3, 99, 111, 109, 0]

/-- `build_bytes_vec_compressed` of the packet of C07's examples -/
theorem c07Bytes_built : c07Packet.buildCompressed = .ok c07Bytes := by decide

/-- the hypothesis of `table_past_header` and `pointer_target_past_header` is satisfiable -/
example : ∃ t', Chain c07Bytes (c07Packet.sitesG true) [] t' ∧ ∀ e ∈ t', 12 ≤ e.2 ∧ e.2 ≤ 0x3FFF :=
  table_past_header c07Packet c07Bytes c07Bytes_built

/-- the hypotheses are satisfiable: the question name `example.com` at 12 and the MX exchange
`mx.example.com` at 43 share `example.com`; the exchange is a prefix of `mx` and a pointer -/
example : ∃ pre' x q, [[109, 120]] = pre' ++ x ∧ 12 ≤ q ∧ q ≤ 0x3FFF ∧
    (c07Bytes.drop 43).take ((labelBytes pre').length + 2)
      = labelBytes pre' ++ beN 2 (q ||| 0xC000) := by
  obtain ⟨pre', x, q, h1, h2, h3, h4, _⟩ := shared_suffix_is_pointer_small c07Packet c07Bytes
    c07Bytes_built (by decide)
    [] [⟨29, c07Example, true⟩] [⟨48, c07Example, true⟩, ⟨66, c07Example, false⟩]
    ⟨12, c07Example, true⟩ ⟨43, [109, 120] :: c07Example, true⟩ (by decide) rfl rfl
    [] [[109, 120]] c07Example rfl rfl (by decide)
  exact ⟨pre', x, q, h1, h2, h3, h4⟩

/-- and concretely: `02 6D 78 C0 0C`, the label `mx` and a pointer to offset 12 -/
example : (c07Bytes.drop 43).take 5 = labelBytes [[109, 120]] ++ beN 2 (12 ||| 0xC000) := by decide

/-! ## C11-1. re-serialising the owned copy of a received packet -/

/-- **`reserialise_owned`.** A received packet converted with `Packet::into_owned` and then
serialised, with (`c = true`) or without compression, yields bytes that parse back to the packet
that was received (which is also the owned packet). -/
theorem reserialise_owned {d : Bytes} {p : Packet} (c : Bool) (h : Packet.parse d = .ok p)
    (hf : PlainFits p) :
    ∃ b, p.intoOwned.buildG c = .ok b ∧ Packet.parse b = .ok p ∧
      Packet.parse b = .ok p.intoOwned := by
  obtain ⟨⟨b, hb, hpb⟩, ⟨k, hk, hpk⟩⟩ := reserialise_stable h hf
  rw [into_owned_buildG, packet_into_owned_eq]
  cases c with
  | false => exact ⟨b, by rw [buildG_false]; exact hb, hpb, hpb⟩
  | true => exact ⟨k, hk, hpk, hpk⟩

/-- the two public entry points on the owned copy -/
theorem reserialise_owned_both {d : Bytes} {p : Packet} (h : Packet.parse d = .ok p)
    (hf : PlainFits p) :
    (∃ b, p.intoOwned.build = .ok b ∧ Packet.parse b = .ok p) ∧
    (∃ k, p.intoOwned.buildCompressed = .ok k ∧ Packet.parse k = .ok p) := by
  obtain ⟨b, hb, hpb, _⟩ := reserialise_owned false h hf
  obtain ⟨k, hk, hpk, _⟩ := reserialise_owned true h hf
  rw [buildG_false] at hb
  exact ⟨⟨b, hb, hpb⟩, ⟨k, hk, hpk⟩⟩

/-- the hypotheses are satisfiable: the received message `c11Ns` of Props/C11.lean -/
example : ∃ b, (Packet.intoOwned c11NsPacket).buildG true = .ok b ∧
    Packet.parse b = .ok c11NsPacket :=
  let ⟨b, h1, h2, _⟩ := reserialise_owned true c11Ns_parse (by decide); ⟨b, h1, h2⟩

/-! ## C11-2. re-emitting a received packet into a caller's writer -/

/-- what the caller finds in the writer's storage after a successful `write_to`: for a `Vec`, what
was appended; for the cursors and the slice, the bytes between the initial and the final
position -/
def W.region (w w' : W) : Bytes :=
  match w.kind with
  | .vec => w'.buf.drop w.buf.length
  | _ => (w'.buf.drop w.pos).take (w'.pos - w.pos)

/-- the bytes a `Cursor` write put into the storage are found back at the write position -/
theorem overwrite_readback (buf : Bytes) (pos : Nat) (bs : Bytes) :
    ((overwrite buf pos bs).drop pos).take bs.length = bs := by
  unfold overwrite
  have hl : ((buf ++ List.replicate (pos - buf.length) 0).take pos).length = pos := by
    simp; omega
  rw [List.drop_append_of_le_length (by omega), List.drop_eq_nil_of_le (by omega)]
  simp

/-- the storage region of a writer that received `bytes` holds exactly `bytes` -/
theorem region_expect (w : W) (bytes : Bytes) : W.region w (w.expect bytes) = bytes := by
  unfold W.region
  rw [Wr.W.expect_eq]
  cases hk : w.kind
  · simp
  all_goals
    simp only [reduceCtorEq, if_false]
    by_cases hb : bytes = []
    · simp [hb]
    · simp only [hb, if_false, Nat.add_sub_cancel_left]
      exact overwrite_readback _ _ _

/-- **`reserialise_stable_writer`, plain path.** Re-emitting a received packet with
`Packet::write_to` into any modelled writer: when the message fits, the call succeeds and the
writer's storage region holds exactly bytes that parse back to the received packet; when it does
not fit, the call reports an error. -/
theorem reserialise_stable_writer_plain {d : Bytes} {p : Packet} (h : Packet.parse d = .ok p)
    (hf : PlainFits p) (w : W) :
    ∃ b, p.build = .ok b ∧ Packet.parse b = .ok p ∧
      (w.fits b.length → p.writeTo w = .ok (w.expect b) ∧ W.region w (w.expect b) = b ∧
        Packet.parse (W.region w (w.expect b)) = .ok p) ∧
      (¬ w.fits b.length → p.writeTo w = .err) := by
  obtain ⟨b, hb, hpb⟩ := (reserialise_stable h hf).1
  refine ⟨b, hb, hpb, fun hfit => ⟨writers_agree_plain p w b hb hfit, region_expect w b, ?_⟩,
    fun hfit => small_writer_plain p w b hb hfit⟩
  rw [region_expect]; exact hpb

/-- **`reserialise_stable_writer`, compressed path** (`Packet::write_compressed_to` needs `Seek`:
`Cursor<Vec<u8>>`, `Cursor<&mut [u8]>`), started at any position over any content. -/
theorem reserialise_stable_writer_compressed {d : Bytes} {p : Packet}
    (h : Packet.parse d = .ok p) (hf : PlainFits p) (w : W)
    (hk : w.kind = .cursorVec ∨ w.kind = .cursorFixed) :
    ∃ b, p.buildCompressed = .ok b ∧ Packet.parse b = .ok p ∧
      (w.fits b.length → p.writeCompressedTo w = .ok (w.expect b) ∧
        W.region w (w.expect b) = b ∧ Packet.parse (W.region w (w.expect b)) = .ok p) ∧
      (¬ w.fits b.length → p.writeCompressedTo w = .err) := by
  obtain ⟨b, hb, hpb⟩ := (reserialise_stable h hf).2
  refine ⟨b, hb, hpb,
    fun hfit => ⟨writers_agree_compressed' p w hk b hb hfit, region_expect w b, ?_⟩,
    fun hfit => small_writer_compressed p w hk b hb hfit⟩
  rw [region_expect]; exact hpb

/-- both paths in one statement, as a success: whatever a modelled writer accepted parses back to
the received packet -/
theorem reserialise_stable_writer {d : Bytes} {p : Packet} (h : Packet.parse d = .ok p)
    (hf : PlainFits p) (w w' : W) :
    (p.writeTo w = .ok w' → Packet.parse (W.region w w') = .ok p) ∧
    ((w.kind = .cursorVec ∨ w.kind = .cursorFixed) → p.writeCompressedTo w = .ok w' →
      Packet.parse (W.region w w') = .ok p) := by
  constructor
  · intro hw
    obtain ⟨b, _, _, h1, h2⟩ := reserialise_stable_writer_plain h hf w
    by_cases hfit : w.fits b.length
    · obtain ⟨e, _, hp⟩ := h1 hfit
      rw [e] at hw; cases hw; exact hp
    · rw [h2 hfit] at hw; cases hw
  · intro hk hw
    obtain ⟨b, _, _, h1, h2⟩ := reserialise_stable_writer_compressed h hf w hk
    by_cases hfit : w.fits b.length
    · obtain ⟨e, _, hp⟩ := h1 hfit
      rw [e] at hw; cases hw; exact hp
    · rw [h2 hfit] at hw; cases hw

/-- the received message `c11Ns` re-emitted at offset 3 of a fixed 40-byte buffer -/
example : ∀ w', c11NsPacket.writeCompressedTo
      { kind := .cursorFixed, buf := List.replicate 40 0xAA, pos := 3 } = .ok w' →
    Packet.parse (W.region { kind := .cursorFixed, buf := List.replicate 40 0xAA, pos := 3 } w')
      = .ok c11NsPacket :=
  fun w' => (reserialise_stable_writer c11Ns_parse (by decide) _ w').2 (Or.inr rfl)

/-- and the call does succeed -/
example : (c11NsPacket.writeCompressedTo
    { kind := .cursorFixed, buf := List.replicate 40 0xAA, pos := 3 }).isOk = true := by decide

/-! ## C11-3. an RDATA that re-encodes into more than 65 535 bytes -/

/-- `n as u16` before `to_be_bytes`: the two bytes only depend on `n % 65536` -/
theorem beN2_mod (n : Nat) : beN 2 n = beN 2 (n % 65536) := by
  have h1 : UInt8.ofNat (n / 256) = UInt8.ofNat (n % 65536 / 256) :=
    UInt8.toNat_inj.mp (by simp [UInt8.toNat_ofNat']; omega)
  have h2 : UInt8.ofNat (n % 256) = UInt8.ofNat (n % 65536 % 256) :=
    UInt8.toNat_inj.mp (by simp [UInt8.toNat_ofNat'])
  simp [beN, h1, h2]

/-- **`len()` is honest on everything the parser can return**, also beyond 16 bits: the value
`RData::len()` computes is the number of bytes `write_to` emits (no bound on that number). -/
theorem len_honest_core (rd : RData) (h : rd.WFcore) : ∃ b, rd.write = .ok b ∧ rd.len = b.length := by
  cases rd with
  | flat code vs =>
    obtain ⟨hs, hc⟩ := h
    simp only [SchemaOK] at hs
    cases hk : schemaOf code with
    | none => simp [hk] at hs
    | some ks =>
      rw [hk] at hs
      exact ⟨encAll ks vs, by simp [RData.write, hk, hc], by simp [RData.len, hk, lenAll_eq ks vs hs]⟩
  | ipseckey prec alg gw key =>
    refine ⟨_, rfl, ?_⟩
    cases gw <;> simp [RData.len, Gateway.len, Gateway.write, Name.write_length] <;> omega
  | opt o =>
    refine ⟨_, rfl, ?_⟩
    simp only [RData.len, encOptCodes, encTlvs_length]
  | null code data =>
    refine ⟨_, rfl, ?_⟩
    simp only [RData.len]
    exact Nat.mod_eq_of_lt (by have := h.2.1; omega)
  | empty t => exact ⟨_, rfl, rfl⟩

/-- **The RDLENGTH that `ResourceRecord::write_to` stores is the RDATA length modulo 65536.**
`rd` are the RDATA bytes the record writes and `len()` is honest about their number (as it is for
every parsed record, `len_honest_core`). -/
theorem rr_write_rdlength (r : RR) (rd : Bytes) (hrd : r.rdata.write = .ok rd)
    (hlen : r.rdata.len = rd.length) :
    r.write = .ok (Name.write r.name ++ (r.writeCommon ++ (beN 2 (rd.length % 65536) ++ rd))) := by
  simp [RR.write, hrd, hlen, ← beN2_mod]

/-- the field the envelope walker reads as RDLENGTH of such a record -/
theorem rr_written_rdlen_field (r : RR) (rd pre post : Bytes) (x : Nat) (hx : x < 65536) :
    Spec.field (pre ++ (Name.write r.name ++ (r.writeCommon ++ (beN 2 x ++ (rd ++ post)))))
      (pre.length + Name.wireLen r.name + 8) 2 = some x := by
  have hcom : r.writeCommon.length = 8 := by rw [RR.writeCommon_eq]; simp
  have hs : slice (pre ++ (Name.write r.name ++ (r.writeCommon ++ (beN 2 x ++ (rd ++ post)))))
      (pre.length + Name.wireLen r.name + 8) (pre.length + Name.wireLen r.name + 8 + 2)
      = .ok (beN 2 x) := by
    have e : pre ++ (Name.write r.name ++ (r.writeCommon ++ (beN 2 x ++ (rd ++ post))))
        = (pre ++ (Name.write r.name ++ r.writeCommon)) ++ (beN 2 x ++ (rd ++ post)) := by simp
    rw [e]
    exact slice_mid _ _ _ _ _ (by simp [Name.write_length, hcom]; omega)
      (by simp [Name.write_length, hcom]; omega)
  rw [Framing.field_of_slice rfl hs, deN_beN 2 x (by simpa using hx)]

/-- **A record whose RDATA re-encodes into 65 536 bytes or more does not survive.** The record
`write_to` produces carries RDLENGTH `L % 65536`; wherever those bytes stand in a message,
`ResourceRecord::parse` at their offset does not return the record that was written (it fails, or
returns another record): a parsed record never re-encodes into more than its RDLENGTH + 254
bytes. -/
theorem rr_overflow_not_reparsed (r : RR) (rd : Bytes) (hn : Name.WF r.name)
    (hrd : r.rdata.write = .ok rd) (hbig : 65536 ≤ rd.length) (pre post : Bytes) (q : Nat) :
    RR.parse (pre ++ (Name.write r.name ++ (r.writeCommon ++
        (beN 2 (rd.length % 65536) ++ (rd ++ post))))) pre.length ≠ .ok (r, q) := by
  intro h
  obtain ⟨_, e, he, _, _, hfit, _⟩ := Img.rr_ok h
  obtain ⟨_, hskip, _, _, _, hl, _⟩ := walkRecord_fields he
  have hname := Framing.skipName_of_parse (Name.parse_write hn pre
    (r.writeCommon ++ (beN 2 (rd.length % 65536) ++ (rd ++ post))))
  rw [hskip] at hname
  simp only [Option.some.injEq] at hname
  rw [hname, rr_written_rdlen_field r rd pre post _ (Nat.mod_lt _ (by decide))] at hl
  simp only [Option.some.injEq] at hl
  have hw : r.rdata.writtenLen = rd.length := by simp [RData.writtenLen, hrd]
  rw [hw] at hfit
  omega

/-- a section is written record after record: the bytes of a concatenation of record lists -/
theorem writeRRs_append (a b : List RR) :
    writeRRs (a ++ b) = (do let x ← writeRRs a; let y ← writeRRs b; pure (x ++ y)) := by
  induction a with
  | nil => simp only [List.nil_append, writeRRs, Out.bind_ok]; cases writeRRs b <;> rfl
  | cons r a ih =>
    simp only [List.cons_append, writeRRs, ih]
    cases r.write <;> try rfl
    simp only [Out.bind_ok]
    cases writeRRs a <;> try rfl
    simp only [Out.bind_ok]
    cases writeRRs b <;> simp

/-- a section read in one go is its first `n1` records followed by the others -/
theorem parseRRs_split (d : Bytes) (n1 : Nat) : ∀ (n2 pos : Nat) (l : List RR) (p : Nat),
    parseRRs d (n1 + n2) pos = .ok (l, p) →
    ∃ l1 l2 p1, parseRRs d n1 pos = .ok (l1, p1) ∧ parseRRs d n2 p1 = .ok (l2, p) ∧
      l = l1 ++ l2 ∧ l1.length = n1 := by
  induction n1 with
  | zero =>
    intro n2 pos l p h
    exact ⟨[], l, pos, rfl, by simpa using h, rfl, rfl⟩
  | succ n ih =>
    intro n2 pos l p h
    rw [show n + 1 + n2 = (n + n2) + 1 by omega] at h
    simp only [parseRRs] at h
    obtain ⟨⟨r, q⟩, hr, h⟩ := Out.bind_eq_ok h
    dsimp only at h
    obtain ⟨⟨rs, q'⟩, hrs, h⟩ := Out.bind_eq_ok h
    simp only [Out.pure_eq, Out.ok.injEq, Prod.mk.injEq] at h
    obtain ⟨rfl, rfl⟩ := h
    obtain ⟨l1, l2, p1, h1, h2, hl, hlen⟩ := ih n2 q rs q' hrs
    refine ⟨r :: l1, l2, p1, ?_, h2, by simp [hl], by simp [hlen]⟩
    simp only [parseRRs, hr, Out.bind_ok, h1, Out.pure_eq]

/-- **Packet level.** A packet whose questions are well-formed and one of whose answers — all
answers before it being well-formed — has an RDATA that re-encodes into 65 536 bytes or more
(owner name within limits, honest `len()`): if `build_bytes_vec` succeeds at all, its output does
not parse back to the packet. This is what happens to the result of parsing `c11Overflow`
(Props/C11.lean); no list of that size is evaluated here. -/
theorem overflow_not_reparsed_at (p : Packet) (pre : List RR) (r : RR) (rest : List RR)
    (rd b : Bytes) (hq : ∀ q ∈ p.questions, q.WF) (hpre : ∀ x ∈ pre, x.WF)
    (ha : p.answers = pre ++ r :: rest) (hn : Name.WF r.name)
    (hrd : r.rdata.write = .ok rd) (hlen : r.rdata.len = rd.length) (hbig : 65536 ≤ rd.length)
    (hb : p.build = .ok b) : Packet.parse b ≠ .ok p := by
  intro hp
  -- the bytes
  unfold Packet.build at hb
  obtain ⟨an, han, hb⟩ := Out.bind_eq_ok hb
  obtain ⟨ns, _, hb⟩ := Out.bind_eq_ok hb
  obtain ⟨o, _, hb⟩ := Out.bind_eq_ok hb
  obtain ⟨ar, _, hb⟩ := Out.bind_eq_ok hb
  simp only [Out.pure_eq, Out.ok.injEq] at hb
  rw [ha, writeRRs_append] at han
  obtain ⟨bp, hbp, han⟩ := Out.bind_eq_ok han
  obtain ⟨y, hy, han⟩ := Out.bind_eq_ok han
  simp only [Out.pure_eq, Out.ok.injEq] at han
  simp only [writeRRs] at hy
  obtain ⟨wb, hwb, hy⟩ := Out.bind_eq_ok hy
  obtain ⟨an', _, hy⟩ := Out.bind_eq_ok hy
  simp only [Out.pure_eq, Out.ok.injEq] at hy
  rw [rr_write_rdlength r rd hrd hlen] at hwb
  cases hwb
  subst hy
  subst han
  have hhl : p.writeHeader.length = 12 := by simp [Packet.writeHeader, Header.write]
  -- the questions are read back and the cursor stops where the answers start
  have hQ := writeQuestionsG_spec false p.questions 12 [] p.writeHeader hq hhl (TInv.nil _)
  rw [writeQuestionsG_false] at hQ
  have hdec := hQ.dec ((bp ++ ((Name.write r.name ++ (r.writeCommon ++
    (beN 2 (rd.length % 65536) ++ rd))) ++ an')) ++ (ns ++ (o ++ ar)))
  rw [hhl] at hdec
  -- so are the well-formed answers before the big one
  obtain ⟨bp', t', hwp, hsp⟩ := writeRRsG_spec false pre (12 + (writeQuestions p.questions).length) []
    hpre
  have hP := hsp (p.writeHeader ++ writeQuestions p.questions) (by simp [hhl]) (TInv.nil _)
  obtain ⟨pb, hpb, _, hpeq⟩ := hP.plain
  rw [hbp] at hpb
  cases hpb
  have := (hpeq rfl).symm
  subst this
  have hdecp := hP.dec (((Name.write r.name ++ (r.writeCommon ++
    (beN 2 (rd.length % 65536) ++ rd))) ++ an') ++ (ns ++ (o ++ ar)))
  -- the parse
  unfold Packet.parse at hp
  obtain ⟨h0, _, hp⟩ := Out.bind_eq_ok hp
  obtain ⟨qd, _, hp⟩ := Out.bind_eq_ok hp
  obtain ⟨⟨qs, p1⟩, hqs, hp⟩ := Out.bind_eq_ok hp
  dsimp only at hp
  obtain ⟨anc, _, hp⟩ := Out.bind_eq_ok hp
  obtain ⟨⟨as, p2⟩, has, hp⟩ := Out.bind_eq_ok hp
  dsimp only at hp
  obtain ⟨nsc, _, hp⟩ := Out.bind_eq_ok hp
  obtain ⟨⟨nss, p3⟩, _, hp⟩ := Out.bind_eq_ok hp
  dsimp only at hp
  obtain ⟨arc, _, hp⟩ := Out.bind_eq_ok hp
  obtain ⟨⟨all, p4⟩, _, hp⟩ := Out.bind_eq_ok hp
  dsimp only at hp
  obtain ⟨h1, _, hp⟩ := Out.bind_eq_ok hp
  simp only [Out.pure_eq, Out.ok.injEq] at hp
  have e1 : qs = p.questions := by rw [← hp]
  have e2 : as = pre ++ r :: rest := by rw [← ha, ← hp]
  subst e1
  obtain ⟨_, _, hqlen, _, _⟩ := Framing.parseQuestions_frame hqs
  obtain ⟨_, _, halen, _, _⟩ := Framing.parseRRs_frame has
  subst hqlen
  rw [← hb] at hqs has
  simp only [List.append_assoc, List.length_append, hhl] at hdec hdecp hqs has
  rw [hdec] at hqs
  simp only [Out.ok.injEq, Prod.mk.injEq, true_and] at hqs
  subst hqs
  rw [e2] at halen
  simp only [List.length_append, List.length_cons] at halen
  rw [← halen, e2] at has
  obtain ⟨l1, l2, q1, hs1, hs2, hl, hl1⟩ := parseRRs_split _ _ _ _ _ _ has
  obtain ⟨rfl, rfl⟩ := List.append_inj hl.symm hl1
  rw [hdecp] at hs1
  simp only [Out.ok.injEq, Prod.mk.injEq, true_and] at hs1
  subst hs1
  simp only [parseRRs] at hs2
  obtain ⟨⟨r', q⟩, hr, hs2⟩ := Out.bind_eq_ok hs2
  dsimp only at hs2
  obtain ⟨⟨rs', q'⟩, _, hs2⟩ := Out.bind_eq_ok hs2
  simp only [Out.pure_eq, Out.ok.injEq, Prod.mk.injEq, List.cons.injEq] at hs2
  obtain ⟨⟨rfl, _⟩, _⟩ := hs2
  have hpre' : 12 + ((writeQuestions p.questions).length + bp.length)
      = (p.writeHeader ++ (writeQuestions p.questions ++ bp)).length := by simp [hhl]
  have := rr_overflow_not_reparsed r' rd hn hrd hbig
    (p.writeHeader ++ (writeQuestions p.questions ++ bp)) (an' ++ (ns ++ (o ++ ar))) q
  apply this
  rw [← hpre']
  simpa [Nat.add_assoc] using hr

/-- the first answer -/
theorem overflow_not_reparsed (p : Packet) (r : RR) (rest : List RR) (rd b : Bytes)
    (hq : ∀ q ∈ p.questions, q.WF) (ha : p.answers = r :: rest) (hn : Name.WF r.name)
    (hrd : r.rdata.write = .ok rd) (hlen : r.rdata.len = rd.length) (hbig : 65536 ≤ rd.length)
    (hb : p.build = .ok b) : Packet.parse b ≠ .ok p :=
  overflow_not_reparsed_at p [] r rest rd b hq (fun _ h => by cases h) ha hn hrd hlen hbig hb

/-! ### the mechanism on a message family, and `c11Overflow` as a theorem

The messages `ovMsg hi lo tail`: one RRSIG answer with the root owner name whose RDATA is 18 fixed
bytes, the signer's name given as the pointer `C0 17` into those 18 bytes, and `tail` as the
signature; `hi lo` is the RDLENGTH field. The 18 bytes are laid out so that the name decoder reads
them twice (a 14-byte label at 23, the pointer `C0 18` at 38, a 15-byte label at 24 that covers
that pointer, the root at 40): the two pointer bytes expand to a name of 32 bytes. Everything below
is proved for an arbitrary `tail`, so nothing of the size of the 65 535-byte instance is ever
evaluated. -/

/-- the signer's name the decoder reads: two labels of 14 and 15 bytes -/
def ovName : Name :=
  [[15, 1, 2, 3, 4, 5, 6, 7, 8, 9, 10, 11, 12, 13],
   [1, 2, 3, 4, 5, 6, 7, 8, 9, 10, 11, 12, 13, 0xC0, 24]]

/-- header (ANCOUNT = 1), root owner name, TYPE RRSIG, CLASS IN, TTL 0, RDLENGTH `hi lo`, the 18
fixed bytes of the RDATA, the pointer `C0 17` -/
def ovHead (hi lo : UInt8) : Bytes :=
  [0, 0, 0, 0, 0, 0, 0, 1, 0, 0, 0, 0,
   0, 0, 46, 0, 1, 0, 0, 0, 0, hi, lo,
   14, 15, 1, 2, 3, 4, 5, 6, 7, 8, 9, 10, 11, 12, 13, 0xC0, 24, 0,
   0xC0, 23]

/-- a message of the family: the 43-byte head, then the signature bytes `tail` -/
def ovMsg (hi lo : UInt8) (tail : Bytes) : Bytes := ovHead hi lo ++ tail

/-- the head is 43 bytes long -/
theorem ovHead_length (hi lo : UInt8) : (ovHead hi lo).length = 43 := rfl

/-- length of a message of the family -/
theorem ovMsg_length (hi lo : UInt8) (tail : Bytes) :
    (ovMsg hi lo tail).length = 43 + tail.length := by
  simp [ovMsg, ovHead_length]

/-- `data[a..b]` inside a prefix of the buffer does not depend on what follows the prefix -/
theorem slice_head (h t : Bytes) (a b : Nat) (hb : b ≤ h.length) :
    slice (h ++ t) a b = slice h a b := by
  unfold slice
  by_cases hab : a ≤ b
  · rw [if_pos ⟨hab, by simp; omega⟩, if_pos ⟨hab, hb⟩, take_drop_append (by omega)]
  · rw [if_neg (fun h => hab h.1), if_neg (fun h => hab h.1)]

/-- `Header::parse` only reads the first 12 bytes -/
theorem header_parse_head (h t : Bytes) (hh : 12 ≤ h.length) :
    Header.parse (h ++ t) = Header.parse h := by
  unfold Header.parse
  rw [if_neg (by simp; omega), if_neg (by omega), slice_head h t 2 4 (by omega),
    slice_head h t 0 2 (by omega)]

/-- the header peeks only read inside the prefix they address -/
theorem peek_head (h t : Bytes) (a : Nat) (ha : a + 2 ≤ h.length) :
    peekU16 (h ++ t) a = peekU16 h a := by
  unfold peekU16 sliceOpt
  rw [if_pos ⟨by omega, by simp; omega⟩, if_pos ⟨by omega, ha⟩, take_drop_append (by omega)]

/-- an integer field of an RDATA is the big-endian value of its `w` bytes, when these are inside the buffer -/
theorem decField_int {d s : Bytes} {w pos e : Nat} (he : e = pos + w) (h : slice d pos e = .ok s) :
    decField d (.int w) pos = .ok (.int (deN s), e) := by
  subst he
  have hle : pos + w ≤ d.length := by
    unfold slice at h; split at h
    · rename_i hc; exact hc.2
    · cases h
  simp only [decField]
  rw [if_neg (by omega), h]; rfl

/-- the signer's name: the pointer at 41 expands to `ovName`, the cursor moves by 2 -/
theorem ov_name (hi lo : UInt8) (tail : Bytes) :
    Name.parse (ovMsg hi lo tail) 41 = .ok (ovName, 43) := by
  unfold Name.parse
  rw [nameLoop]; simp [ovMsg, ovHead]
  rw [nameLoop]; simp
  rw [nameLoop]; simp
  rw [nameLoop]; simp
  rw [nameLoop]; simp
  rfl

/-- the owner name at offset 12 is the root, one byte -/
theorem ov_root (hi lo : UInt8) (tail : Bytes) :
    Name.parse (ovMsg hi lo tail) 12 = .ok ([], 13) := by
  unfold Name.parse
  rw [nameLoop]; simp [ovMsg, ovHead]

/-- the RRSIG value the parser returns -/
def ovRdata (tail : Bytes) : RData :=
  .flat 46 [.int 0x0E0F, .int 1, .int 2, .int 0x03040506, .int 0x0708090A, .int 0x0B0C0DC0,
            .int 0x1800, .name ovName, .bytes tail]

/-- what `Packet::parse` returns for a message of the family: no question, one RRSIG answer -/
def ovPacket (tail : Bytes) : Packet :=
  { header := { id := 0, opcode := .StandardQuery, rcode := .NoError, flags := 0, opt := none },
    questions := [],
    answers := [{ name := [], cls := .IN, ttl := 0, rdata := ovRdata tail, flush := false }],
    nameServers := [], additional := [] }

/-- cutting the message at the end of its only record leaves it unchanged -/
theorem ov_take (hi lo : UInt8) (tail : Bytes) :
    (ovMsg hi lo tail).take (43 + tail.length) = ovMsg hi lo tail :=
  List.take_of_length_le (by rw [ovMsg_length]; omega)

/-- slices inside the 43-byte head do not depend on the signature -/
theorem ov_slice (hi lo : UInt8) (tail : Bytes) (a b : Nat) (hb : b ≤ 43) :
    slice (ovMsg hi lo tail) a b = slice (ovHead hi lo) a b := slice_head _ _ _ _ hb

/-- `RRSIG::parse` on the RDATA of the message: seven fixed fields, the expanded signer's name, the signature -/
theorem ov_typed (hi lo : UInt8) (tail : Bytes) :
    parseTyped (ovMsg hi lo tail) 23 .RRSIG = .ok (ovRdata tail, 43 + tail.length) := by
  have hl := ovMsg_length hi lo tail
  have s1 : slice (ovMsg hi lo tail) 23 25 = .ok [14, 15] := by
    rw [ov_slice _ _ _ _ _ (by omega)]; simp [slice, ovHead]
  have s2 : slice (ovMsg hi lo tail) 25 26 = .ok [1] := by
    rw [ov_slice _ _ _ _ _ (by omega)]; simp [slice, ovHead]
  have s3 : slice (ovMsg hi lo tail) 26 27 = .ok [2] := by
    rw [ov_slice _ _ _ _ _ (by omega)]; simp [slice, ovHead]
  have s4 : slice (ovMsg hi lo tail) 27 31 = .ok [3, 4, 5, 6] := by
    rw [ov_slice _ _ _ _ _ (by omega)]; simp [slice, ovHead]
  have s5 : slice (ovMsg hi lo tail) 31 35 = .ok [7, 8, 9, 10] := by
    rw [ov_slice _ _ _ _ _ (by omega)]; simp [slice, ovHead]
  have s6 : slice (ovMsg hi lo tail) 35 39 = .ok [11, 12, 13, 0xC0] := by
    rw [ov_slice _ _ _ _ _ (by omega)]; simp [slice, ovHead]
  have s7 : slice (ovMsg hi lo tail) 39 41 = .ok [24, 0] := by
    rw [ov_slice _ _ _ _ _ (by omega)]; simp [slice, ovHead]
  have s8 : slice (ovMsg hi lo tail) 43 (43 + tail.length) = .ok tail := by
    have := slice_mid (ovHead hi lo) tail [] 43 (43 + tail.length) rfl rfl
    simpa [ovMsg] using this
  have htail : decAll (ovMsg hi lo tail) [.name false, .rest] 41
      = .ok ([.name ovName, .bytes tail], 43 + tail.length) := by
    simp only [decAll, decField, ov_name, Out.bind_ok, Out.pure_eq, s8, hl]
  have hdec : decAll (ovMsg hi lo tail)
      [.int 2, .int 1, .int 1, .int 4, .int 4, .int 4, .int 2, .name false, .rest] 23
      = .ok ([.int 0x0E0F, .int 1, .int 2, .int 0x03040506, .int 0x0708090A, .int 0x0B0C0DC0,
            .int 0x1800, .name ovName, .bytes tail], 43 + tail.length) := by
    rw [decAll, decField_int (w := 2) (pos := 23) rfl s1]
    simp only [Out.bind_ok]
    rw [decAll, decField_int (w := 1) (pos := 25) rfl s2]
    simp only [Out.bind_ok]
    rw [decAll, decField_int (w := 1) (pos := 26) rfl s3]
    simp only [Out.bind_ok]
    rw [decAll, decField_int (w := 4) (pos := 27) rfl s4]
    simp only [Out.bind_ok]
    rw [decAll, decField_int (w := 4) (pos := 31) rfl s5]
    simp only [Out.bind_ok]
    rw [decAll, decField_int (w := 4) (pos := 35) rfl s6]
    simp only [Out.bind_ok]
    rw [decAll, decField_int (w := 2) (pos := 39) rfl s7]
    simp only [Out.bind_ok, htail, Out.pure_eq]
    simp [deN]
  simp only [parseTyped, TYPE.toCode, schemaOf, hdec, Out.bind_ok, flatCheck, if_true, Out.pure_eq,
    ovRdata]

/-- `RData::parse` at the TYPE field of the answer, when RDLENGTH `hi lo` is 20 + `tail.length` -/
theorem ov_rdata_parse (hi lo : UInt8) (tail : Bytes)
    (hlen : hi.toNat * 256 + lo.toNat = 20 + tail.length) :
    RData.parse (ovMsg hi lo tail) 13 = .ok (ovRdata tail, 43 + tail.length) := by
  have hl := ovMsg_length hi lo tail
  have hf : Spec.field (ovMsg hi lo tail) (13 + 8) 2 = some (20 + tail.length) := by
    have hs : slice (ovMsg hi lo tail) 21 23 = .ok [hi, lo] := by
      rw [ov_slice _ _ _ _ _ (by omega)]; simp [slice, ovHead]
    rw [Framing.field_of_slice rfl hs, ← hlen]
    simp [deN]
  rw [Framing.RData.parse_eq_rdataOn hf (by omega),
    show 13 + 10 + (20 + tail.length) = 43 + tail.length by omega, ov_take]
  have ht : ((ovMsg hi lo tail).drop 13).take 2 = [0, 46] := by
    rw [ovMsg, take_drop_append (by rw [ovHead_length]; omega)]; rfl
  have hty : TYPE.ofCode (deN [0, 46]) = .RRSIG := by decide +kernel
  unfold Framing.rdataOn
  simp only [ht, hty]
  simp only [reduceCtorEq, ↓reduceIte]
  rw [if_neg (show ¬ 20 + tail.length = 0 by omega), ov_typed]
  have e : 13 + 10 + (20 + tail.length) = 43 + tail.length := by omega
  simp only [Out.bind_ok, Out.pure_eq, e]

/-- `ResourceRecord::parse` of the answer at offset 12 -/
theorem ov_record (hi lo : UInt8) (tail : Bytes)
    (hlen : hi.toNat * 256 + lo.toNat = 20 + tail.length) :
    RR.parse (ovMsg hi lo tail) 12 =
      .ok ({ name := [], cls := .IN, ttl := 0, rdata := ovRdata tail, flush := false },
           43 + tail.length) := by
  have hl := ovMsg_length hi lo tail
  have h3 : slice (ovMsg hi lo tail) 15 17 = .ok [0, 1] := by
    rw [ov_slice _ _ _ _ _ (by omega)]; simp [slice, ovHead]
  have h4 : slice (ovMsg hi lo tail) 17 21 = .ok [0, 0, 0, 0] := by
    rw [ov_slice _ _ _ _ _ (by omega)]; simp [slice, ovHead]
  unfold RR.parse
  rw [ov_root]
  simp only [Out.bind_ok, hl]
  rw [if_neg (by omega)]
  simp only [h3, h4, ov_rdata_parse hi lo tail hlen, Out.bind_ok]
  rw [if_neg (by simp [ovRdata, RData.typeOf, TYPE.ofCode])]
  have : CLASS.ofCode (deN [0, 1] &&& 0x7FFF) = .ok .IN := by decide
  rw [this]
  simp [deN]

/-- the 12 header bytes: ANCOUNT = 1, everything else zero -/
def ovHdr : Bytes := [0, 0, 0, 0, 0, 0, 0, 1, 0, 0, 0, 0]

/-- the message as header ++ rest -/
theorem ovMsg_split (hi lo : UInt8) (tail : Bytes) :
    ovMsg hi lo tail = ovHdr ++ ((ovHead hi lo).drop 12 ++ tail) := rfl

/-- **Every message of the family is accepted**, whatever the signature bytes `tail`, as long as
the RDLENGTH field `hi lo` holds the 20 + `tail.length` RDATA bytes present. -/
theorem ov_parse (hi lo : UInt8) (tail : Bytes)
    (hlen : hi.toNat * 256 + lo.toNat = 20 + tail.length) :
    Packet.parse (ovMsg hi lo tail) = .ok (ovPacket tail) := by
  have hh : Header.parse (ovMsg hi lo tail) =
      .ok { id := 0, opcode := .StandardQuery, rcode := .NoError, flags := 0, opt := none } := by
    rw [ovMsg_split, header_parse_head _ _ (by decide)]; decide +kernel
  have h1 : Peek.questions (ovMsg hi lo tail) = .ok 0 := by
    unfold Peek.questions; rw [ovMsg_split, peek_head _ _ _ (by decide)]; decide +kernel
  have h2 : Peek.answers (ovMsg hi lo tail) = .ok 1 := by
    unfold Peek.answers; rw [ovMsg_split, peek_head _ _ _ (by decide)]; decide +kernel
  have h3 : Peek.nameServers (ovMsg hi lo tail) = .ok 0 := by
    unfold Peek.nameServers; rw [ovMsg_split, peek_head _ _ _ (by decide)]; decide +kernel
  have h4 : Peek.additional (ovMsg hi lo tail) = .ok 0 := by
    unfold Peek.additional; rw [ovMsg_split, peek_head _ _ _ (by decide)]; decide +kernel
  unfold Packet.parse
  rw [hh, h1, h2, h3, h4]
  simp only [Out.bind_ok, parseQuestions, parseRRs, ov_record hi lo tail hlen, Out.pure_eq,
    liftOpt, Header.extractOpt, ovPacket]

/-- the 50 bytes `RRSIG::write_to` emits before the signature: the 18 fixed bytes, then the
signer's name in full (32 bytes where the received message had 2) -/
def ovFixed : Bytes :=
  [14, 15, 1, 2, 3, 4, 5, 6, 7, 8, 9, 10, 11, 12, 13, 0xC0, 24, 0,
   14, 15, 1, 2, 3, 4, 5, 6, 7, 8, 9, 10, 11, 12, 13,
   15, 1, 2, 3, 4, 5, 6, 7, 8, 9, 10, 11, 12, 13, 0xC0, 24, 0]

/-- `RRSIG::write_to` of the parsed value: 50 bytes, then the signature -/
theorem ov_rdata_write (tail : Bytes) : (ovRdata tail).write = .ok (ovFixed ++ tail) := by
  simp [ovRdata, RData.write, schemaOf, flatCheck, encAll, encField, beN, Name.write, ovName, ovFixed]

/-- `RRSIG::len()` of the parsed value agrees with the bytes written -/
theorem ov_rdata_len (tail : Bytes) : (ovRdata tail).len = 50 + tail.length := by
  simp [ovRdata, RData.len, schemaOf, lenAll, lenField, Name.wireLen, ovName]
  omega

/-- **The mechanism.** The RDATA received in 20 + `tail.length` bytes re-encodes into
50 + `tail.length` bytes: 30 more, the two pointer bytes having become a 32-byte name. -/
theorem ov_writtenLen (tail : Bytes) : (ovRdata tail).writtenLen = 50 + tail.length := by
  have hl : ovFixed.length = 50 := rfl
  simp only [RData.writtenLen, ov_rdata_write, List.length_append, hl]

/-- the received RDLENGTH, read off the envelope walk of the input, against the re-encoded size -/
theorem ov_growth (hi lo : UInt8) (tail : Bytes)
    (hlen : hi.toNat * 256 + lo.toNat = 20 + tail.length) :
    ∃ p w, Packet.parse (ovMsg hi lo tail) = .ok p ∧ Spec.walk (ovMsg hi lo tail) = some w ∧
      w.answers.map (·.rdlen) = [20 + tail.length] ∧
      p.answers.map (·.rdata.writtenLen) = [50 + tail.length] := by
  have hp := ov_parse hi lo tail hlen
  obtain ⟨w, hw, _, ca, _⟩ := parse_respects_framing hp
  refine ⟨_, w, hp, hw, ?_, by simp [ovPacket, ov_writtenLen]⟩
  -- the single answer entry is the walker's reading at offset 12, whose RDLENGTH field is `hi lo`
  obtain ⟨_, ew, hew, _, _, _⟩ := Img.rr_ok (ov_record hi lo tail hlen)
  have hwa : w.answers = [ew] := by
    unfold Spec.walk at hw
    simp only [Option.bind_eq_bind, Option.bind_eq_some_iff] at hw
    obtain ⟨qd, hqd, an, han, ns, hns, ar, har, ⟨qs, p1⟩, hqs, ⟨a, p2⟩, ha, _, _, _, _, hw⟩ := hw
    simp only [Option.pure_def, Option.some.injEq] at hw
    subst hw
    have h1 : Peek.questions (ovMsg hi lo tail) = .ok 0 := by
      unfold Peek.questions; rw [ovMsg_split, peek_head _ _ _ (by decide)]; decide +kernel
    have h2 : Peek.answers (ovMsg hi lo tail) = .ok 1 := by
      unfold Peek.answers; rw [ovMsg_split, peek_head _ _ _ (by decide)]; decide +kernel
    rw [Framing.field_of_peekU16 h1] at hqd
    rw [Framing.field_of_peekU16 h2] at han
    cases hqd; cases han
    simp only [Spec.walkQuestions, Option.some.injEq, Prod.mk.injEq] at hqs
    obtain ⟨_, rfl⟩ := hqs
    simp only [Spec.walkRecords, hew, Option.bind_eq_bind, Option.bind_some, Option.pure_def,
      Option.some.injEq, Prod.mk.injEq] at ha
    exact ha.1.symm
  obtain ⟨_, hskip, _, _, _, hl, _⟩ := walkRecord_fields hew
  have hne := Framing.skipName_of_parse (ov_root hi lo tail)
  rw [hskip] at hne
  simp only [Option.some.injEq] at hne
  have hf : Spec.field (ovMsg hi lo tail) (13 + 8) 2 = some (20 + tail.length) := by
    have hs : slice (ovMsg hi lo tail) 21 23 = .ok [hi, lo] := by
      rw [ov_slice _ _ _ _ _ (by omega)]; simp [slice, ovHead]
    rw [Framing.field_of_slice rfl hs, ← hlen]
    simp [deN]
  rw [hne, hf] at hl
  simp only [Option.some.injEq] at hl
  simp [hwa, ← hl]

/-- the 73 bytes `build_bytes_vec` writes before the signature, `hi lo` being RDLENGTH -/
def ovOut (hi lo : UInt8) : Bytes :=
  [0, 0, 0, 0, 0, 0, 0, 1, 0, 0, 0, 0,
   0, 0, 46, 0, 1, 0, 0, 0, 0, hi, lo] ++ ovFixed

/-- **Re-serialisation of the parsed packet**: the RDLENGTH written is (50 + `tail.length`) cast
to 16 bits — its two low-order bytes — in front of all 50 + `tail.length` RDATA bytes. -/
theorem ov_build (tail : Bytes) :
    (ovPacket tail).build = .ok (ovOut (UInt8.ofNat ((50 + tail.length) / 256))
      (UInt8.ofNat ((50 + tail.length) % 256)) ++ tail) := by
  have hw : RR.write { name := [], cls := .IN, ttl := 0, rdata := ovRdata tail, flush := false }
      = .ok ([0, 0, 46, 0, 1, 0, 0, 0, 0, UInt8.ofNat ((50 + tail.length) / 256),
              UInt8.ofNat ((50 + tail.length) % 256)] ++ (ovFixed ++ tail)) := by
    have hc : RR.writeCommon
        { name := [], cls := .IN, ttl := 0, rdata := ovRdata tail, flush := false }
        = [0, 46, 0, 1, 0, 0, 0, 0] := by
      simp [RR.writeCommon, ovRdata, RData.typeOf, TYPE.ofCode, TYPE.toCode, CLASS.toCode, beN]
    simp [RR.write, ov_rdata_write, ov_rdata_len, Name.write, hc, beN]
  simp [ovPacket, Packet.build, writeRRs, hw, Packet.writeHeader, Header.write, Header.getFlags,
    Header.optRR, writeQuestions, beN, ovOut, OPCODE.toCode, RCODE.toCode, Mask.RCODE]

/-- the compressing writer produces the same bytes (root owner name, RRSIG names are never
compressed), with the RDLENGTH measured and cast the same way -/
theorem ov_buildCompressed (tail : Bytes) :
    (ovPacket tail).buildCompressed = (ovPacket tail).build := by
  have hc : RR.writeCommon
      { name := [], cls := .IN, ttl := 0, rdata := ovRdata tail, flush := false }
      = [0, 46, 0, 1, 0, 0, 0, 0] := by
    simp [RR.writeCommon, ovRdata, RData.typeOf, TYPE.ofCode, TYPE.toCode, CLASS.toCode, beN]
  have hrd : ∀ off t, (ovRdata tail).writeG true off t = .ok (ovFixed ++ tail, t) := by
    intro off t
    have := nocompress_rdata 46 (by decide) _ rfl
      [.int 0x0E0F, .int 1, .int 2, .int 0x03040506, .int 0x0708090A, .int 0x0B0C0DC0,
       .int 0x1800, .name ovName, .bytes tail] off t
    rw [ovRdata, this]
    simp [encAll, encField, beN, Name.write, ovName, ovFixed]
  have hl : ovFixed.length = 50 := rfl
  have hw : RR.writeG true
      { name := [], cls := .IN, ttl := 0, rdata := ovRdata tail, flush := false } 12 []
      = .ok ([0, 0, 46, 0, 1, 0, 0, 0, 0, UInt8.ofNat ((50 + tail.length) / 256),
              UInt8.ofNat ((50 + tail.length) % 256)] ++ (ovFixed ++ tail), []) := by
    simp [RR.writeG, nameG, compressName, hrd, hc, beN, hl]
  rw [ov_build]
  simp [Packet.buildCompressed, Packet.buildG, ovPacket, writeQuestionsG, writeRRsG, hw,
    Packet.writeHeader, Header.write, Header.getFlags, Header.optRR, writeRRs, beN, ovOut,
    OPCODE.toCode, RCODE.toCode, Mask.RCODE]

/-- the re-serialised message has 73 bytes before the signature -/
theorem ovOut_length (hi lo : UInt8) : (ovOut hi lo).length = 73 := rfl

/-- the re-serialised message as header ++ rest -/
theorem ovOut_split (hi lo : UInt8) (tail : Bytes) :
    ovOut hi lo ++ tail = ovHdr ++ ((ovOut hi lo).drop 12 ++ tail) := rfl

/-- the record of a re-serialised message whose RDLENGTH came out as 6: the RRSIG parser runs out
of bytes in its fourth fixed field -/
theorem ov_out_record (tail : Bytes) : RR.parse (ovOut 0 6 ++ tail) 12 = .err := by
  have hl : (ovOut 0 6 ++ tail).length = 73 + tail.length := by simp [ovOut_length]
  have hroot : Name.parse (ovOut 0 6 ++ tail) 12 = .ok ([], 13) := by
    unfold Name.parse
    rw [nameLoop]; simp [ovOut]
  have h3 : slice (ovOut 0 6 ++ tail) 15 17 = .ok [0, 1] := by
    rw [slice_head _ _ _ _ (by decide)]; decide +kernel
  have h4 : slice (ovOut 0 6 ++ tail) 17 21 = .ok [0, 0, 0, 0] := by
    rw [slice_head _ _ _ _ (by decide)]; decide +kernel
  have hf : Spec.field (ovOut 0 6 ++ tail) (13 + 8) 2 = some 6 := by
    have hs : slice (ovOut 0 6 ++ tail) 21 23 = .ok [0, 6] := by
      rw [slice_head _ _ _ _ (by decide)]; decide +kernel
    rw [Framing.field_of_slice rfl hs]; rfl
  have hrd : RData.parse (ovOut 0 6 ++ tail) 13 = .err := by
    rw [Framing.RData.parse_eq_rdataOn hf (by omega),
      List.take_append_of_le_length (by decide)]
    decide +kernel
  unfold RR.parse
  rw [hroot]
  simp only [Out.bind_ok, hl]
  rw [if_neg (by omega)]
  simp only [h3, h4, hrd, Out.bind_ok, Out.bind_err]

/-- ... so the whole message is rejected, whatever follows the 73 bytes -/
theorem ov_out_parse (tail : Bytes) : Packet.parse (ovOut 0 6 ++ tail) = .err := by
  have hh : Header.parse (ovOut 0 6 ++ tail) =
      .ok { id := 0, opcode := .StandardQuery, rcode := .NoError, flags := 0, opt := none } := by
    rw [ovOut_split, header_parse_head _ _ (by decide)]; decide +kernel
  have h1 : Peek.questions (ovOut 0 6 ++ tail) = .ok 0 := by
    unfold Peek.questions; rw [ovOut_split, peek_head _ _ _ (by decide)]; decide +kernel
  have h2 : Peek.answers (ovOut 0 6 ++ tail) = .ok 1 := by
    unfold Peek.answers; rw [ovOut_split, peek_head _ _ _ (by decide)]; decide +kernel
  unfold Packet.parse
  rw [hh, h1, h2]
  simp only [Out.bind_ok, parseQuestions, parseRRs, ov_out_record, Out.bind_err]

/-- **Small scale**: the 46-byte member of the family with a 3-byte signature. The parser accepts
it; the RDATA it received in 23 bytes re-encodes into 53. -/
def c11Small : Bytes := ovMsg 0 23 [7, 7, 7]

/-- `Packet::parse` accepts the 46-byte message -/
theorem c11Small_parse : Packet.parse c11Small = .ok (ovPacket [7, 7, 7]) :=
  ov_parse 0 23 [7, 7, 7] (by decide)

/-- received RDLENGTH 23 (envelope walk of the input); re-encoded RDATA 53 bytes, and `len()` says so too -/
theorem c11Small_grows :
    (Spec.walk c11Small).map (·.answers.map (·.rdlen)) = some [23] ∧
    (ovPacket [7, 7, 7]).answers.map (·.rdata.writtenLen) = [53] ∧
    (ovPacket [7, 7, 7]).answers.map (·.rdata.len) = [53] := by decide

/-- it still fits, so C11 applies to it: both re-serialisations parse back -/
example : (∃ b, (ovPacket [7, 7, 7]).build = .ok b ∧ Packet.parse b = .ok (ovPacket [7, 7, 7])) ∧
    (∃ c, (ovPacket [7, 7, 7]).buildCompressed = .ok c ∧ Packet.parse c = .ok (ovPacket [7, 7, 7])) :=
  reserialise_stable c11Small_parse (by decide)

/-! #### the 65 535-byte instance of Props/C11.lean

Stated for an arbitrary signature of 65 492 bytes, so that no tactic ever looks inside the list. -/

/-- the members of the family with a signature of 65 492 bytes -/
theorem ov_overflow (tail : Bytes) (ht : tail.length = 65492) :
    (ovMsg 0xFF 0xE8 tail).length = 65535 ∧
    Packet.parse (ovMsg 0xFF 0xE8 tail) = .ok (ovPacket tail) ∧
    (ovPacket tail).WFcore ∧ ¬ PlainFits (ovPacket tail) ∧
    (ovPacket tail).answers.map (·.rdata.writtenLen) = [65542] ∧
    (ovPacket tail).build = .ok (ovOut 0 6 ++ tail) ∧
    (ovPacket tail).buildCompressed = .ok (ovOut 0 6 ++ tail) ∧
    (ovOut 0 6 ++ tail).length = 65565 ∧
    Packet.parse (ovOut 0 6 ++ tail) = .err := by
  have hp : Packet.parse (ovMsg 0xFF 0xE8 tail) = .ok (ovPacket tail) :=
    ov_parse _ _ _ (by rw [ht]; decide)
  have hb : (ovPacket tail).build = .ok (ovOut 0 6 ++ tail) := by
    rw [ov_build, ht]; rfl
  refine ⟨by rw [ovMsg_length, ht], hp, parse_image_wf_core hp, ?_, ?_, hb,
    by rw [ov_buildCompressed]; exact hb, by rw [List.length_append, ovOut_length, ht],
    ov_out_parse _⟩
  · intro hf
    have := hf.2.1 _ (List.mem_singleton.mpr rfl)
    rw [ov_writtenLen, ht] at this
    omega
  · show [(ovRdata tail).writtenLen] = [65542]
    rw [ov_writtenLen, ht]

/-- the message of Props/C11.lean is the member of the family with RDLENGTH `FF E8` = 65 512 and 65 492 signature bytes `07` -/
theorem c11Overflow_eq : c11Overflow = ovMsg 0xFF 0xE8 (List.replicate 65492 7) := rfl

/-- **The finding `c11Overflow` as a theorem** (it was a `#guard`, i.e. a test evaluated at
compile time): the message is 65 535 bytes long — a legal DNS message — and `Packet::parse`
accepts it; the result is well-formed but for `PlainFits`, which fails: its RRSIG RDATA re-encodes
into 65 542 bytes. `build_bytes_vec` and `build_bytes_vec_compressed` both succeed on it and return
the same 65 565 bytes, carrying RDLENGTH `65542 as u16 = 6`; `Packet::parse` rejects them. -/
theorem c11Overflow_finding :
    c11Overflow.length = 65535 ∧
    ∃ p, Packet.parse c11Overflow = .ok p ∧ p.WFcore ∧ ¬ PlainFits p ∧
      p.answers.map (·.rdata.writtenLen) = [65542] ∧
      ∃ b, p.build = .ok b ∧ p.buildCompressed = .ok b ∧ b.length = 65565 ∧
        Packet.parse b = .err := by
  obtain ⟨h1, h2, h3, h4, h5, h6, h7, h8, h9⟩ :=
    ov_overflow (List.replicate 65492 7) List.length_replicate
  rw [c11Overflow_eq]
  exact ⟨h1, _, h2, h3, h4, h5, _, h6, h7, h8, h9⟩

/-- the general theorem `overflow_not_reparsed` applies to these packets (its hypotheses are
satisfiable) -/
example (tail b : Bytes) (ht : tail.length = 65492) (hb : (ovPacket tail).build = .ok b) :
    Packet.parse b ≠ .ok (ovPacket tail) :=
  have hl : ovFixed.length = 50 := rfl
  overflow_not_reparsed _ _ [] (ovFixed ++ tail) b (fun _ h => by cases h) rfl
    (show Name.WF [] by decide) (ov_rdata_write _) (by rw [ov_rdata_len, List.length_append, hl])
    (by rw [List.length_append, hl, ht]; decide) hb

/-- the family crosses the limit exactly when the signature is longer than 65 485 bytes, although
the message itself is then only 65 529 bytes or more: `PlainFits` fails for these inputs and for
no shorter member of the family -/
theorem ov_plainFits_iff (tail : Bytes) : PlainFits (ovPacket tail) ↔ tail.length ≤ 65485 := by
  constructor
  · intro hf
    have := hf.2.1 _ (List.mem_singleton.mpr rfl)
    rw [ov_writtenLen] at this
    omega
  · intro h
    refine ⟨trivial, fun r hr => ?_, (fun r hr => by cases hr), (fun r hr => by cases hr)⟩
    simp only [ovPacket, List.mem_singleton] at hr
    subst hr
    show (ovRdata tail).writtenLen ≤ 65535
    rw [ov_writtenLen]; omega

end C04C07C11
end Dns
