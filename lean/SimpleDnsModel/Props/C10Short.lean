/-
C10, short RDLENGTH - a record whose RDLENGTH is SHORTER than the layout of its type needs.

(A reviewer's change made `EUI64::parse` check for 6 octets and then slice 8: an EUI64 record with
RDLENGTH 6 or 7 panicked.)  Everything below is proved for EVERY row of the model's schema table
`schemaOf` (38 type codes) by lemmas about the generic interpreter `decField` / `decAll`; the
table is only consulted through `schemaOf_safe`, `Rfc.schemaOf_shape`, `Tie.schemaOf_isSome_iff`
and closed `decide`s over all of `Tie.flatCodes`.

 0. `minField`, `minSum`, `minLen`: the least number of RDATA octets a layout can be satisfied
    with (integers: their width; <character-string>: 1; <domain-name>: 1; opaque rest, strings,
    triples: 0); `minLen_table` lists it for the 38 codes, `minLen_le`: at most 22 (SOA).
 1. `short_rdata_never_panics` (= `RData.parse_ne_panic`, cited), `short_window_never_panics`.
 2. `typed_short_rejected`, `fixed_layout_short_rejected`: a window of 1 .. minLen-1 octets is
    `Err`; `empty_rdata_shortcut`: RDLENGTH 0 is `RData::Empty`; `minLen_attained`: a window of
    exactly `minLen` octets that IS accepted exists for every code but TXT (`txt_empty_window`),
    so `minLen` is the least length.
    All-integer layouts (`fixedLayout_codes`: A, AAAA, NSAP, LOC, EUI48, EUI64):
    `fixed_layout_typed`, `fixed_layout_exact`, `fixed_layout_exact_loc`; a LONGER window is
    accepted with the tail ignored: `fixed_layout_longer`, `fixed_layout_record`.
 3. record and message level: `short_record_rejected`, `short_rr_rejected`,
    `short_rr_rejected_at` (owner in any form), `packet_rejected_of_record_rejected`,
    `short_record_packet_rejected` (any of the three record sections, any position);
    `fixed_layout_record`, `fixed_layout_rr`.
 4. the guards translated from the Rust sources: `parseGuards_le_minLen`,
    `parseGuards_fixed_eq_minLen`, `fixedRuns_of_ints`; types outside the table:
    `ipseckey_short_rejected`, `null_no_minimum`.
 5. concrete records (EUI64 6 and 7, EUI48 5, A 3, AAAA 15, SRV 6).

Auxiliary lemmas are in the namespace `Dns.C10S`.
-/
import SimpleDnsModel.Props.C10C06More
import SimpleDnsModel.Props.Tie
namespace Dns

/-! ## the least RDATA length of a layout -/

/-- the least number of octets a field of kind `k` occupies -/
def minField : FKind → Nat
  | .int w => w
  | .charstr => 1
  | .name _ => 1
  | .rest => 0
  | .strs => 0
  | .tlvs _ _ _ => 0

/-- the least number of octets a field list occupies -/
def minSum : List FKind → Nat
  | [] => 0
  | k :: ks => minField k + minSum ks

/-- the least RDATA length of type `code` (0 for a code without a schema row) -/
def minLen (code : Nat) : Nat :=
  match schemaOf code with
  | some ks => minSum ks
  | none => 0

/-- `minLen` of a code with a row is `minSum` of the row -/
theorem minLen_eq {code : Nat} {ks : List FKind} (h : schemaOf code = some ks) :
    minLen code = minSum ks := by
  simp [minLen, h]

/-- the least RDATA length of each of the 38 flat types (A 4, AAAA 16, a name 1, HINFO 2, MX 3,
TXT 0, SOA 22, WKS 5, SRV 7, NAPTR 8, NSAP 20, LOC 16, CAA 2, SVCB/HTTPS 3, EUI48 6, EUI64 8,
CERT 5, ZONEMD 6, DNSKEY 4, RRSIG 19, DS 4, NSEC 1, DHCID 3, ...) -/
theorem minLen_table :
    Tie.flatCodes.map (fun c => (c, minLen c)) =
      [(1, 4), (28, 16), (2, 1), (3, 1), (4, 1), (5, 1), (7, 1), (8, 1), (9, 1), (12, 1), (23, 1),
       (13, 2), (14, 2), (15, 3), (16, 0), (6, 22), (11, 5), (33, 7), (17, 2), (18, 3), (20, 2),
       (21, 3), (35, 8), (22, 20), (29, 16), (257, 2), (64, 3), (65, 3), (108, 6), (109, 8),
       (37, 5), (63, 6), (36, 3), (48, 4), (46, 19), (43, 4), (47, 1), (49, 3)] := by decide

namespace C10S

/-- the TXT loop never moves the cursor backwards -/
theorem strsLoop_ge {d : Bytes} {pos : Nat} {acc ss : List Bytes} {p : Nat}
    (h : strsLoop d pos acc = .ok (ss, p)) : pos ≤ p := by
  fun_induction strsLoop d pos acc
  · rename_i hcs ih
    have := CharStr.parse_advances hcs
    have := ih h
    omega
  · cases h
  · cases h
  · simp at h; omega

/-- the loop over (key, length, value) triples never moves the cursor backwards -/
theorem tlvsLoop_ge {d : Bytes} {kw lw : Nat} {strict : Bool} {pos : Nat}
    {acc xs : List (Nat × Bytes)} {p : Nat}
    (h : tlvsLoop d kw lw strict pos acc = .ok (xs, p)) : pos ≤ p := by
  fun_induction tlvsLoop d kw lw strict pos acc
  · cases h
  · rename_i hk _ _ _ hone ih
    have := tlvOne_advances (by omega) hone
    have := ih h
    omega
  · cases h
  · cases h
  · simp at h; omega

/-- a field that is read successfully occupies at least `minField` octets, inside the buffer -/
theorem decField_lower {d : Bytes} {k : FKind} {pos : Nat} {v : Val} {p : Nat}
    (hp : pos ≤ d.length) (h : decField d k pos = .ok (v, p)) :
    pos + minField k ≤ p ∧ p ≤ d.length := by
  refine ⟨?_, decField_pos_le hp h⟩
  cases k with
  | int w =>
    simp only [decField] at h
    split at h
    · cases h
    · obtain ⟨s, _, h⟩ := Out.bind_eq_ok h
      simp at h; simp [minField]; omega
  | charstr =>
    simp only [decField] at h
    obtain ⟨⟨s, q⟩, hs, h⟩ := Out.bind_eq_ok h
    have := CharStr.parse_advances hs
    simp at h; simp [minField]; omega
  | name c =>
    simp only [decField] at h
    obtain ⟨⟨s, q⟩, hs, h⟩ := Out.bind_eq_ok h
    have := (Name.parse_pos_le hs).1
    simp at h; simp [minField]; omega
  | rest =>
    simp only [decField] at h
    obtain ⟨s, _, h⟩ := Out.bind_eq_ok h
    simp at h; simp [minField]; omega
  | strs =>
    simp only [decField] at h
    obtain ⟨⟨s, q⟩, hs, h⟩ := Out.bind_eq_ok h
    have := strsLoop_ge hs
    simp at h; simp [minField]; omega
  | tlvs kw lw strict =>
    simp only [decField] at h
    obtain ⟨⟨s, q⟩, hs, h⟩ := Out.bind_eq_ok h
    have := tlvsLoop_ge hs
    simp at h; simp [minField]; omega

/-- a field list that is read successfully occupies at least `minSum` octets, inside the buffer -/
theorem decAll_lower {d : Bytes} {ks : List FKind} {pos : Nat} {vs : List Val} {p : Nat}
    (hp : pos ≤ d.length) (h : decAll d ks pos = .ok (vs, p)) :
    pos + minSum ks ≤ p ∧ p ≤ d.length := by
  induction ks generalizing pos vs p with
  | nil => simp [decAll] at h; simp [minSum]; omega
  | cons k ks ih =>
    simp only [decAll] at h
    obtain ⟨⟨v, q⟩, hv, h⟩ := Out.bind_eq_ok h
    obtain ⟨⟨vs', q'⟩, hvs, h⟩ := Out.bind_eq_ok h
    have h1 := decField_lower hp hv
    have h2 := ih h1.2 hvs
    simp at h
    simp only [minSum]
    omega

/-- fewer octets than `minSum` from `pos` to the end of the window: the field list is an error
(not a panic, not a success) -/
theorem decAll_short_err {d : Bytes} {ks : List FKind} {pos : Nat} (hk : ∀ k ∈ ks, k.Safe)
    (hp : pos ≤ d.length) (h : d.length < pos + minSum ks) : decAll d ks pos = .err := by
  cases hd : decAll d ks pos with
  | err => rfl
  | panic => exact absurd hd (decAll_ne_panic d ks pos hk hp)
  | ok x =>
    obtain ⟨vs, p⟩ := x
    have := decAll_lower hp hd
    omega

end C10S

/-! ## 1. no RDLENGTH makes `RData::parse` panic -/

/-- C10-short-1. For every TYPE code (the TYPE field is whatever the buffer holds at `pos`), every
buffer and every RDLENGTH (the field is read from the buffer, so it is consistent by
construction; an RDLENGTH that runs over the buffer is the `Err(InsufficientData)` of the first
guard), `RData::parse` returns a value or an error, never a panic. This is
`RData.parse_ne_panic` (Lemmas/NoPanic.lean, the C01 chain) restated as a disjunction: a too
short RDLENGTH - the EUI64 "check 6, slice 8" kind of slip - cannot be a slice out of range in
the model. -/
theorem short_rdata_never_panics (d : Bytes) (pos : Nat) :
    (∃ rd p, RData.parse d pos = .ok (rd, p)) ∨ RData.parse d pos = .err := by
  cases h : RData.parse d pos with
  | ok x => exact Or.inl ⟨x.1, x.2, rfl⟩
  | err => exact Or.inr rfl
  | panic => exact absurd h (RData.parse_ne_panic d pos)

/-- the same for the typed parser on any window `[pos, d.length)`, for every schema row: each
field reader checks its own bounds before slicing -/
theorem short_window_never_panics {code : Nat} (hc : schemaOf code ≠ none) (d : Bytes) (pos : Nat)
    (hp : pos ≤ d.length) : parseTyped d pos (TYPE.ofCode code) ≠ .panic := by
  cases hs : schemaOf code with
  | none => exact absurd hs hc
  | some ks => exact reject_never_panics d pos _ (Rfc.schemaOf_shape hs).2.2.2 hp

/-! ## 2. a window shorter than the layout needs is rejected -/

/-- C10-short-2 (typed parser). For every type code of the schema table: when fewer than
`minLen code` octets lie between `pos` and the end of the RDLENGTH window, the typed parser
returns `Err` - it neither panics nor reads past the window. -/
theorem typed_short_rejected {code : Nat} (hc : schemaOf code ≠ none) {d : Bytes} {pos : Nat}
    (hp : pos ≤ d.length) (h : d.length < pos + minLen code) :
    parseTyped d pos (TYPE.ofCode code) = .err := by
  cases hs : schemaOf code with
  | none => exact absurd hs hc
  | some ks =>
    rw [minLen_eq hs] at h
    rw [Rfc.parseTyped_flat d pos code ks hs, C10S.decAll_short_err (schemaOf_safe hs) hp h]
    rfl

/-- the same with the window given as the bytes `rd` after any prefix -/
theorem typed_short_rejected_window {code : Nat} (hc : schemaOf code ≠ none) (hdr rd : Bytes)
    (h : rd.length < minLen code) : parseTyped (hdr ++ rd) hdr.length (TYPE.ofCode code) = .err :=
  typed_short_rejected hc (by simp) (by simp; omega)

/-- no layout needs more than 22 octets at least (SOA: two root names and five 32-bit integers) -/
theorem minLen_le (code : Nat) : minLen code ≤ 22 := by
  unfold minLen
  cases hs : schemaOf code with
  | none => exact Nat.zero_le _
  | some ks =>
    unfold schemaOf at hs
    split at hs <;> first | (cases hs; decide) | cases hs

/-- a TYPE field that reads as `code` is dispatched to the parser of `TYPE.ofCode code` -/
theorem C10S.ofCode_ne_opt {code : Nat} (h : code ≠ 41) : TYPE.ofCode code ≠ .OPT := by
  intro he
  have := Rfc.type_toCode_ofCode code
  rw [he] at this
  exact h this.symm

/-- C10-short-2. For every type code of the schema table, any buffer `d` with a record body at
`pos` (TYPE = `code`, RDLENGTH = `rdlen`, the RDATA window inside the buffer): if
`0 < rdlen < minLen code`, `RData::parse` is `Err`, whatever the window and the bytes after it
hold. -/
theorem fixed_layout_short_rejected {code : Nat} (hc : schemaOf code ≠ none) {d : Bytes}
    {pos rdlen : Nat} (ht : Spec.field d pos 2 = some code)
    (hl : Spec.field d (pos + 8) 2 = some rdlen) (hk : pos + 10 + rdlen ≤ d.length)
    (h0 : 0 < rdlen) (hshort : rdlen < minLen code) : RData.parse d pos = .err := by
  have hnopt : TYPE.ofCode code ≠ .OPT := by
    cases hs : schemaOf code with
    | none => exact absurd hs hc
    | some ks => exact (Rfc.schemaOf_shape hs).2.2.2
  have ht' : deN (((d.take (pos + 10 + rdlen)).drop pos).take 2) = code := by
    rw [Framing.take_drop_take (by omega)]
    rw [Framing.field_eq (by omega)] at ht
    exact Option.some.inj ht
  rw [Framing.RData.parse_eq_rdataOn hl hk]
  unfold Framing.rdataOn
  simp only [ht']
  rw [if_neg hnopt, if_neg (by omega),
    typed_short_rejected hc (by rw [List.length_take]; omega) (by rw [List.length_take]; omega)]
  rfl

/-- RDLENGTH 0 is not a short record: for every type but OPT (every row of the table, IPSECKEY,
NULL and unknown codes alike) `RData::parse` returns `RData::Empty(type)` without calling the
typed parser, with the cursor after the ten fixed octets. -/
theorem empty_rdata_shortcut {code : Nat} (hc : code ≠ 41) {d : Bytes} {pos : Nat}
    (ht : Spec.field d pos 2 = some code) (hl : Spec.field d (pos + 8) 2 = some 0)
    (hk : pos + 10 ≤ d.length) : RData.parse d pos = .ok (.empty (TYPE.ofCode code), pos + 10) := by
  have ht' : deN (((d.take (pos + 10 + 0)).drop pos).take 2) = code := by
    rw [Framing.take_drop_take (by omega)]
    rw [Framing.field_eq (by omega)] at ht
    exact Option.some.inj ht
  rw [Framing.RData.parse_eq_rdataOn hl (by omega)]
  unfold Framing.rdataOn
  simp only [ht']
  rw [if_neg (C10S.ofCode_ne_opt hc)]
  simp

/-! ## 2b. `minLen` is attained: it is the LEAST length -/

/-- the value a field reads from its shortest encoding made of zero octets -/
def zeroVal : FKind → Val
  | .int _ => .int 0
  | .charstr => .bytes []
  | .name _ => .name []
  | .rest => .bytes []
  | .strs => .strs []
  | .tlvs _ _ _ => .tlvs []

/-- row by row: the zero values fit the fields, pass the type's extra check, and their encoding
has exactly `minLen` octets (TXT apart, whose writer never emits an empty RDATA) -/
def zeroRowOK (c : Nat) : Bool :=
  match schemaOf c with
  | some ks =>
    decide (AllOK ks (ks.map zeroVal)) && flatCheck c (ks.map zeroVal) &&
      (encAll ks (ks.map zeroVal)).length == minLen c
  | none => false

/-- checked for all 37 rows other than TXT -/
theorem C10S.zeroRows : ∀ c ∈ Tie.flatCodes, c ≠ 16 → zeroRowOK c = true := by decide

/-- `minLen` is attained. For every type code of the table except TXT there is an RDATA of exactly
`minLen code` octets (all-zero integers, empty strings, root names, nothing after them) which the
typed parser accepts, consuming all of it: with `typed_short_rejected`, `minLen code` is the
least RDATA length of the type. -/
theorem minLen_attained {code : Nat} {ks : List FKind} (hs : schemaOf code = some ks)
    (h16 : code ≠ 16) :
    ∃ rd : Bytes, rd.length = minLen code ∧ ∀ pre : Bytes,
      parseTyped (pre ++ rd) pre.length (TYPE.ofCode code)
        = .ok (.flat code (ks.map zeroVal), pre.length + minLen code) := by
  have hmem : code ∈ Tie.flatCodes := (Tie.schemaOf_isSome_iff code).mp (by rw [hs]; simp)
  have h := C10S.zeroRows code hmem h16
  unfold zeroRowOK at h
  rw [hs] at h
  simp only [Bool.and_eq_true, decide_eq_true_eq, beq_iff_eq] at h
  obtain ⟨⟨hok, hc⟩, hlen⟩ := h
  refine ⟨encAll ks (ks.map zeroVal), hlen, fun pre => ?_⟩
  rw [Rfc.parseTyped_enc pre hs hok hc, hlen]

/-- TXT (`minLen 16 = 0`): the typed parser would accept an empty window as "no strings" - the
`while` loop of `TXT::parse` does not run - but `RData::parse` never calls it with one
(`empty_rdata_shortcut`); every window of one octet or more is judged by its content. -/
theorem txt_empty_window (pre : Bytes) :
    parseTyped pre pre.length .TXT = .ok (.flat 16 [.strs []], pre.length) := by
  have hp := Rfc.parseTyped_flat pre pre.length 16 _ rfl
  have e : TYPE.ofCode 16 = .TXT := rfl
  rw [e] at hp
  rw [hp]
  simp only [decAll, decField]
  rw [strsLoop, dif_neg (by omega)]
  rfl

/-! ## 2c. the all-integer layouts: exact width, and a longer window -/

/-- a field of fixed width -/
def isIntKind : FKind → Bool
  | .int _ => true
  | _ => false

/-- the layout is a sequence of fixed-width integers (addresses are one integer) -/
def isFixedLayout (code : Nat) : Bool :=
  match schemaOf code with
  | some ks => ks.all isIntKind
  | none => false

/-- the all-integer layouts are A, AAAA, NSAP, LOC, EUI48 and EUI64 -/
theorem fixedLayout_codes (code : Nat) :
    isFixedLayout code = true ↔ code ∈ [1, 28, 22, 29, 108, 109] := by
  constructor
  · intro h
    unfold isFixedLayout at h
    cases hs : schemaOf code with
    | none => rw [hs] at h; cases h
    | some ks =>
      rw [hs] at h
      unfold schemaOf at hs
      split at hs <;> first | decide | (cases hs; exact absurd h (by decide)) | cases hs
  · intro h
    have : ∀ c ∈ [1, 28, 22, 29, 108, 109], isFixedLayout c = true := by decide
    exact this code h

/-- the values of a sequence of integer fields laid out from `pos` on: each the big-endian value
of its octets -/
def intVals (d : Bytes) : List FKind → Nat → List Val
  | [], _ => []
  | k :: ks, pos => .int (deN ((d.drop pos).take (minField k))) :: intVals d ks (pos + minField k)

/-- an all-integer field list with at least `minSum` octets available reads exactly `minSum`
octets -/
theorem C10S.decAll_ints {d : Bytes} {ks : List FKind} {pos : Nat} (hi : ks.all isIntKind = true)
    (h : pos + minSum ks ≤ d.length) :
    decAll d ks pos = .ok (intVals d ks pos, pos + minSum ks) := by
  induction ks generalizing pos with
  | nil => simp [decAll, intVals, minSum]
  | cons k ks ih =>
    simp only [List.all_cons, Bool.and_eq_true] at hi
    cases k <;> simp only [isIntKind, Bool.false_eq_true, false_and] at hi
    rename_i w
    simp only [minSum, minField] at h
    simp only [decAll]
    rw [C10M.decField_int_ok (by omega)]
    simp only [Out.bind_ok]
    rw [ih hi.2 (by omega)]
    simp only [Out.bind_ok, Out.pure_eq, intVals, minField, minSum, Nat.add_assoc]

/-- the integer values depend on the `minSum` octets from `pos` on only -/
theorem C10S.intVals_append {d e : Bytes} {ks : List FKind} {pos : Nat}
    (h : pos + minSum ks ≤ d.length) : intVals (d ++ e) ks pos = intVals d ks pos := by
  induction ks generalizing pos with
  | nil => rfl
  | cons k ks ih =>
    simp only [minSum] at h
    simp only [intVals]
    rw [take_drop_append (by omega), ih (by omega)]

/-- ... and not on what precedes the window -/
theorem C10S.intVals_prefix' (hdr rd : Bytes) (ks : List FKind) (k : Nat) :
    intVals (hdr ++ rd) ks (hdr.length + k) = intVals rd ks k := by
  induction ks generalizing k with
  | nil => rfl
  | cons f ks ih =>
    have hd : (hdr ++ rd).drop (hdr.length + k) = rd.drop k := by
      rw [List.drop_append]; simp
    simp only [intVals]
    rw [Nat.add_assoc, ih (k + minField f), hd]

/-- the window's values, read at the start of the window -/
theorem C10S.intVals_prefix (hdr rd : Bytes) (ks : List FKind) :
    intVals (hdr ++ rd) ks hdr.length = intVals rd ks 0 :=
  C10S.intVals_prefix' hdr rd ks 0

/-- only LOC has an extra check on the values -/
theorem C10S.flatCheck_true {code : Nat} (h : code ≠ 29) (vs : List Val) :
    flatCheck code vs = true := by
  unfold flatCheck
  split
  · exact absurd rfl h
  · rfl

/-- C10-short-2 (all-integer layouts, any window of at least the width). The typed parser reads
the first `minLen code` octets as the integers of the layout, applies the type's extra check
(LOC: VERSION = 0) and stops after exactly `minLen code` octets; octets of the window beyond
that are not looked at. -/
theorem fixed_layout_typed {code : Nat} {ks : List FKind} (hs : schemaOf code = some ks)
    (hi : ks.all isIntKind = true) {d : Bytes} {pos : Nat} (h : pos + minLen code ≤ d.length) :
    parseTyped d pos (TYPE.ofCode code)
      = if flatCheck code (intVals d ks pos) then
          .ok (.flat code (intVals d ks pos), pos + minLen code)
        else .err := by
  rw [minLen_eq hs] at h ⊢
  rw [Rfc.parseTyped_flat d pos code ks hs, C10S.decAll_ints hi h]
  rfl

/-- C10-short-2 `fixed_layout_exact`: A, AAAA, NSAP, EUI48, EUI64 with a window of exactly the
width of the layout: accepted, the fields are the big-endian values of their octets, and all of
the window is consumed. -/
theorem fixed_layout_exact {code : Nat} {ks : List FKind} (hs : schemaOf code = some ks)
    (hi : ks.all isIntKind = true) (hloc : code ≠ 29) (hdr rd : Bytes)
    (hl : rd.length = minLen code) :
    parseTyped (hdr ++ rd) hdr.length (TYPE.ofCode code)
      = .ok (.flat code (intVals rd ks 0), (hdr ++ rd).length) := by
  rw [fixed_layout_typed hs hi (by simp [hl]), C10S.flatCheck_true hloc, if_pos rfl,
    C10S.intVals_prefix hdr rd ks]
  simp [hl]

/-- LOC with a window of exactly 16 octets: accepted exactly when the VERSION octet is 0 -/
theorem fixed_layout_exact_loc (hdr rd : Bytes) (hl : rd.length = 16) :
    parseTyped (hdr ++ rd) hdr.length .LOC
      = if rd.head? = some 0 then
          .ok (.flat 29 (intVals rd [.int 1, .int 1, .int 1, .int 1, .int 4, .int 4, .int 4] 0),
            (hdr ++ rd).length)
        else .err := by
  have hs : schemaOf 29 = some [.int 1, .int 1, .int 1, .int 1, .int 4, .int 4, .int 4] := rfl
  have e : TYPE.ofCode 29 = .LOC := rfl
  have h := fixed_layout_typed hs rfl (d := hdr ++ rd) (pos := hdr.length)
    (by simp [hl]; decide)
  rw [e] at h
  rw [h, C10S.intVals_prefix hdr rd _]
  cases rd with
  | nil => simp at hl
  | cons b rest =>
    have hb : (b = 0) ↔ b.toNat = 0 := by
      constructor
      · intro h0; rw [h0]; rfl
      · intro h0; exact UInt8.toNat_inj.mp (by simpa using h0)
    have h16 : minLen 29 = 16 := rfl
    by_cases h0 : b = 0
    · subst h0
      simp [intVals, flatCheck, minField, deN, hl, h16]
    · have : b.toNat ≠ 0 := fun h => h0 (hb.mpr h)
      simp [intVals, flatCheck, minField, deN, h0, this]

/-- C10-short-2, the LONGER window (the truth per the model, which mirrors the Rust code): a window
with more octets than the all-integer layout needs is ACCEPTED; the value is that of the first
`minLen code` octets, the typed parser's verdict and cursor are exactly those for the window cut
at `minLen code`: the extra octets `extra` are ignored (`RData::parse` then skips them, see
`fixed_layout_record`). -/
theorem fixed_layout_longer {code : Nat} {ks : List FKind} (hs : schemaOf code = some ks)
    (hi : ks.all isIntKind = true) (hdr rd extra : Bytes) (hl : rd.length = minLen code) :
    parseTyped (hdr ++ (rd ++ extra)) hdr.length (TYPE.ofCode code)
      = parseTyped (hdr ++ rd) hdr.length (TYPE.ofCode code) := by
  have hm := minLen_eq hs
  rw [fixed_layout_typed hs hi (by simp [hl]), fixed_layout_typed hs hi (by simp [hl]),
    ← List.append_assoc, C10S.intVals_append (by simp [hl, hm])]

/-! ## 3. at record and message level -/

/-- C10-short-3 (`RData::parse` on a record given by its parts). For every type code of the
table: a record body TYPE = `code`, CLASS, TTL, RDLENGTH = |`rd`| with
`0 < |rd| < minLen code` is `Err` in any message `pre ++ record ++ post`, WHATEVER `post` holds -
in particular when `post` begins with the octets the layout is missing (the next record's octets
are never borrowed: the typed parser sees the message cut at the end of the window, cf.
`rdata_local` and `record_verdict_ignores_post`). -/
theorem short_record_rejected {code : Nat} (hc : schemaOf code ≠ none) (pre cb tb rd post : Bytes)
    (hcb : cb.length = 2) (htb : tb.length = 4) (h0 : rd ≠ []) (hshort : rd.length < minLen code) :
    RData.parse (pre ++ (recBody code cb tb rd ++ post)) pre.length = .err := by
  cases hs : schemaOf code with
  | none => exact absurd hs hc
  | some ks =>
    obtain ⟨_, _, hcode, hnopt⟩ := Rfc.schemaOf_shape hs
    have := minLen_le code
    exact record_rejected_of_rdata_rejected pre cb tb rd post code hcb htb hcode hnopt h0
      (by omega) (fun hdr => typed_short_rejected_window hc hdr rd hshort)

/-- C10-short-3 (`ResourceRecord::parse`, owner name written in full): the whole record is `Err`,
whatever follows it. -/
theorem short_rr_rejected {code : Nat} (hc : schemaOf code ≠ none) (pre : Bytes) (owner : Name)
    (hown : Name.WF owner) (cb tb rd post : Bytes) (hcb : cb.length = 2) (htb : tb.length = 4)
    (h0 : rd ≠ []) (hshort : rd.length < minLen code) :
    RR.parse (pre ++ (Name.write owner ++ (recBody code cb tb rd ++ post))) pre.length = .err :=
  rr_rejected_of_record_rejected pre owner hown code cb tb rd post hcb htb
    (fun hdr => short_record_rejected hc hdr cb tb rd post hcb htb h0 hshort)

/-- `ResourceRecord::parse` fails when `RData::parse` fails at the end of the owner name, however
the owner name is written (labels or compression pointers) -/
theorem C10S.rr_err_of_rdata_err {d : Bytes} {pos p : Nat} {owner : Name}
    (hn : Name.parse d pos = .ok (owner, p)) (hr : RData.parse d p = .err) :
    RR.parse d pos = .err := by
  unfold RR.parse
  rw [hn]
  simp only [Out.bind_ok]
  split
  · rfl
  · rw [slice_ok (by omega) (by omega), slice_ok (by omega) (by omega)]
    simp only [Out.bind_ok, hr, Out.bind_err]

/-- C10-short-3 in any buffer: the owner name may be compressed, the record may stand anywhere.
If the owner name read at `pos` ends at `p`, the TYPE field at `p` is a code of the table and the
RDLENGTH field is in `1 .. minLen code - 1` (window inside the buffer), `ResourceRecord::parse`
is `Err`. -/
theorem short_rr_rejected_at {code : Nat} (hc : schemaOf code ≠ none) {d : Bytes}
    {pos p rdlen : Nat} {owner : Name} (hn : Name.parse d pos = .ok (owner, p))
    (ht : Spec.field d p 2 = some code) (hl : Spec.field d (p + 8) 2 = some rdlen)
    (hk : p + 10 + rdlen ≤ d.length) (h0 : 0 < rdlen) (hshort : rdlen < minLen code) :
    RR.parse d pos = .err :=
  C10S.rr_err_of_rdata_err hn (fixed_layout_short_rejected hc ht hl hk h0 hshort)

/-- a section in which the record after `k` good ones is an error is an error -/
theorem C10S.parseRRs_err_at {d : Bytes} {k pos p : Nat} {rs : List RR} (m : Nat)
    (hk : parseRRs d k pos = .ok (rs, p)) (he : RR.parse d p = .err) :
    parseRRs d (k + (m + 1)) pos = .err := by
  induction k generalizing pos rs with
  | zero =>
    simp only [parseRRs, Out.ok.injEq, Prod.mk.injEq] at hk
    obtain ⟨_, rfl⟩ := hk
    rw [Nat.zero_add]
    simp only [parseRRs, he, Out.bind_err]
  | succ k ih =>
    simp only [parseRRs] at hk
    obtain ⟨⟨r, q⟩, hr, hk⟩ := Out.bind_eq_ok hk
    obtain ⟨⟨rs', q'⟩, hrs, hk⟩ := Out.bind_eq_ok hk
    simp only [Out.pure_eq, Out.ok.injEq, Prod.mk.injEq] at hk
    obtain ⟨_, rfl⟩ := hk
    rw [show k + 1 + (m + 1) = (k + (m + 1)) + 1 by omega, parseRRs, hr]
    simp only [Out.bind_ok]
    rw [ih hrs]
    rfl

/-- `Packet::parse` gets to the record at offset `pos`: the questions parse, and `pos` is where
the cursor stands after `k` good records of the answer, authority or additional section, with a
further record announced by that section's count -/
def ReachedByParse (d : Bytes) (pos : Nat) : Prop :=
  ∃ qd qs p1, Peek.questions d = .ok qd ∧ parseQuestions d qd 12 = .ok (qs, p1) ∧
    ∃ an, Peek.answers d = .ok an ∧
      ((∃ k rs, k < an ∧ parseRRs d k p1 = .ok (rs, pos)) ∨
       ∃ as p2 ns, parseRRs d an p1 = .ok (as, p2) ∧ Peek.nameServers d = .ok ns ∧
        ((∃ k rs, k < ns ∧ parseRRs d k p2 = .ok (rs, pos)) ∨
         ∃ nss p3 ar, parseRRs d ns p2 = .ok (nss, p3) ∧ Peek.additional d = .ok ar ∧
           ∃ k rs, k < ar ∧ parseRRs d k p3 = .ok (rs, pos)))

/-- a record `Packet::parse` gets to and rejects makes the whole message an error -/
theorem packet_rejected_of_record_rejected {d : Bytes} {pos : Nat} (hr : ReachedByParse d pos)
    (he : RR.parse d pos = .err) : Packet.parse d = .err := by
  unfold Packet.parse
  cases hhd : Header.parse d with
  | panic => exact absurd hhd (Header.parse_ne_panic d)
  | err => rfl
  | ok hd =>
    obtain ⟨qd, qs, p1, hq, hqs, an, ha, hsec⟩ := hr
    simp only [Out.bind_ok, hq, hqs, ha]
    rcases hsec with ⟨k, rs, hk, hrs⟩ | ⟨as, p2, ns, has, hns, hsec⟩
    · obtain ⟨m, rfl⟩ : ∃ m, an = k + (m + 1) := ⟨an - k - 1, by omega⟩
      rw [C10S.parseRRs_err_at m hrs he]; rfl
    · simp only [has, Out.bind_ok, hns]
      rcases hsec with ⟨k, rs, hk, hrs⟩ | ⟨nss, p3, ar, hnss, har, k, rs, hk, hrs⟩
      · obtain ⟨m, rfl⟩ : ∃ m, ns = k + (m + 1) := ⟨ns - k - 1, by omega⟩
        rw [C10S.parseRRs_err_at m hrs he]; rfl
      · simp only [hnss, Out.bind_ok, har]
        obtain ⟨m, rfl⟩ : ∃ m, ar = k + (m + 1) := ⟨ar - k - 1, by omega⟩
        rw [C10S.parseRRs_err_at m hrs he]; rfl

/-- C10-short-3 (`Packet::parse`). A message in which the parser gets to a record (in any of the
three record sections, after any number of good records, owner name in any form) whose TYPE is a
code of the table and whose RDLENGTH is in `1 .. minLen code - 1` is rejected as a whole -
whatever the RDATA octets are and whatever follows the record. -/
theorem short_record_packet_rejected {code : Nat} (hc : schemaOf code ≠ none) {d : Bytes}
    {pos p rdlen : Nat} {owner : Name} (hr : ReachedByParse d pos)
    (hn : Name.parse d pos = .ok (owner, p))
    (ht : Spec.field d p 2 = some code) (hl : Spec.field d (p + 8) 2 = some rdlen)
    (hk : p + 10 + rdlen ≤ d.length) (h0 : 0 < rdlen) (hshort : rdlen < minLen code) :
    Packet.parse d = .err :=
  packet_rejected_of_record_rejected hr (short_rr_rejected_at hc hn ht hl hk h0 hshort)

/-! ## 3b. the all-integer layouts at record level: exact and longer windows -/

/-- an all-integer layout has at least one octet -/
theorem C10S.minLen_pos_of_fixed {code : Nat} (h : isFixedLayout code = true) : 0 < minLen code := by
  have : ∀ c ∈ [1, 28, 22, 29, 108, 109], 0 < minLen c := by decide
  exact this code ((fixedLayout_codes code).mp h)

/-- C10-short-3 (`RData::parse`, all-integer layouts other than LOC). A record of type A, AAAA,
NSAP, EUI48 or EUI64 whose RDLENGTH is the width of the layout OR MORE is accepted: the fields are
the big-endian values of the first `minLen code` octets of the window (`C10S.intVals_append`: of
those octets only), the rest of the window is skipped, and the cursor is the end of the window,
where the next record starts. With RDLENGTH = `minLen code` this is the exact case. (For LOC the
same holds when the VERSION octet is 0: `loc_record_long`; otherwise `loc_record_version_rejected`.) -/
theorem fixed_layout_record {code : Nat} {ks : List FKind} (hs : schemaOf code = some ks)
    (hi : ks.all isIntKind = true) (hloc : code ≠ 29) (pre cb tb rd post : Bytes)
    (hcb : cb.length = 2) (htb : tb.length = 4) (hmin : minLen code ≤ rd.length)
    (hlen : rd.length < 65536) :
    RData.parse (pre ++ (recBody code cb tb rd ++ post)) pre.length
      = .ok (.flat code (intVals rd ks 0), pre.length + 10 + rd.length) := by
  obtain ⟨_, _, hcode, hnopt⟩ := Rfc.schemaOf_shape hs
  have hpos : 0 < minLen code := C10S.minLen_pos_of_fixed (by simp [isFixedLayout, hs, hi])
  have hrd : rd ≠ [] := by intro h; simp [h] at hmin; omega
  obtain ⟨hdr, _, he⟩ := C10M.rdataParse_recBody pre cb tb rd post code hcb htb hcode hnopt hrd hlen
  rw [he, fixed_layout_typed hs hi (by simp; omega), C10S.flatCheck_true hloc, if_pos rfl,
    C10S.intVals_prefix]
  rfl

/-- C10-short-3 (`ResourceRecord::parse`, all-integer layouts other than LOC): the whole record -
owner, class, cache-flush bit, TTL, the integers of the first `minLen code` octets - with the
cursor at the start of `post`. -/
theorem fixed_layout_rr {code : Nat} {ks : List FKind} (hs : schemaOf code = some ks)
    (hi : ks.all isIntKind = true) (hloc : code ≠ 29) (pre post : Bytes) (owner : Name)
    (cls : CLASS) (flush : Bool) (ttl : Nat) (hown : Name.WF owner) (httl : ttl < 2 ^ 32)
    (rd : Bytes) (hmin : minLen code ≤ rd.length) (hlen : rd.length < 65536) :
    RR.parse (pre ++ (Name.write owner ++ (recBody code
        (beN 2 (if flush then cls.toCode ||| 0x8000 else cls.toCode)) (beN 4 ttl) rd ++ post)))
        pre.length
      = .ok ({ name := owner, cls := cls, ttl := ttl, rdata := .flat code (intVals rd ks 0),
               flush := flush }, pre.length + Name.wireLen owner + 10 + rd.length) := by
  obtain ⟨hcl, hcls, hfl⟩ := C10M.class_word_rt cls flush
  have hnopt := (Rfc.schemaOf_shape hs).2.2.2
  have hr := fixed_layout_record hs hi hloc (pre ++ Name.write owner)
    (beN 2 (if flush then cls.toCode ||| 0x8000 else cls.toCode)) (beN 4 ttl) rd post
    (by simp) (by simp) hmin hlen
  have hb : ∀ cb tb : Bytes, recBody code cb tb rd ++ post
      = Spec.octetsOf 2 code ++ (cb ++ (tb ++ (Spec.octetsOf 2 rd.length ++ (rd ++ post)))) := by
    intro cb tb; simp [recBody]
  rw [hb] at hr ⊢
  rw [C10M.rrParse_body pre owner hown _ _ _ _ (by simp [← Rfc.beN_eq_octetsOf]) (by simp) (by simp),
    hr]
  simp only [Out.bind_ok, RData.typeOf, if_neg hnopt, deN_beN 2 _ (by simpa using hcl),
    deN_beN 4 ttl (by simpa using httl), hcls, hfl, Out.pure_eq, List.length_append,
    Name.write_length]

/-! ## the up-front guards of the Rust parsers and `minLen` -/

/-- every up-front length guard translated from a `fn parse` asks for no more than the least
RDATA length of its type (a larger guard would reject valid records) -/
theorem parseGuards_le_minLen : ∀ e ∈ Gen.parseGuards, e.2.sum ≤ minLen e.1 := by decide

/-- for the all-integer layouts the ONE guard is exactly `minLen`: `*position + 8 > data.len()`
before the eight octets of EUI64 are sliced, 6 for EUI48, 4 for A, 16 for AAAA and LOC, 20 for
NSAP. A guard of 6 in front of a slice of 8 (the reviewer's change) makes this theorem, like
`Tie.parseGuards_model`, stop checking. -/
theorem parseGuards_fixed_eq_minLen :
    ∀ e ∈ Gen.parseGuards, isFixedLayout e.1 = true → e.2 = [minLen e.1] := by decide

/-- in general: the guard widths of an all-integer layout are the single number `minSum` -/
theorem fixedRuns_of_ints {ks : List FKind} (hi : ks.all isIntKind = true) (acc : Nat)
    (hpos : 0 < acc + minSum ks) : Tie.fixedRuns ks acc = [acc + minSum ks] := by
  induction ks generalizing acc with
  | nil =>
    simp only [minSum, Nat.add_zero] at hpos ⊢
    simp only [Tie.fixedRuns]
    rw [if_neg (by omega)]
  | cons k ks ih =>
    simp only [List.all_cons, Bool.and_eq_true] at hi
    cases k <;> simp only [isIntKind, Bool.false_eq_true, false_and] at hi
    simp only [minSum, minField] at hpos ⊢
    simp only [Tie.fixedRuns]
    rw [ih hi.2 _ (by omega), Nat.add_assoc]


/-! ## types outside the schema table -/

/-- IPSECKEY (hand-written parser): fewer than the three fixed octets (precedence, gateway type,
algorithm) is `Err` -/
theorem ipseckey_short_rejected {d : Bytes} {pos : Nat} (h : d.length < pos + 3) :
    parseTyped d pos .IPSECKEY = .err := by
  simp only [parseTyped]
  unfold ipseckeyParse
  rw [if_pos (by omega)]

/-- NULL and unknown types have no layout, hence no minimum: every window of up to 65535 octets
is accepted as opaque data -/
theorem null_no_minimum (c : Nat) (hdr rd : Bytes) (h : rd.length ≤ 65535) :
    parseTyped (hdr ++ rd) hdr.length (.Unknown c) = .ok (.null c rd, hdr.length + rd.length) ∧
    parseTyped (hdr ++ rd) hdr.length .NULL = .ok (.null 10 rd, hdr.length + rd.length) := by
  have hs : slice (hdr ++ rd) hdr.length (hdr ++ rd).length = .ok rd :=
    Rfc.slice_at (a := hdr) (m := rd) (z := []) (by simp) rfl (by simp)
  have hn : ¬ rd.length > 65535 := by omega
  simp only [parseTyped, hs, Out.bind_ok, if_neg hn]
  exact ⟨rfl, rfl⟩

/-! ## 5. concrete records -/

/-- EUI64 (RFC 7043) with RDLENGTH 6, followed in the message by the two octets that would
complete the address (and one more): rejected - not a panic, and `7, 8` are not borrowed -/
example : RData.parse (recBody 109 [0, 1] [0, 0, 0, 60] [1, 2, 3, 4, 5, 6] ++ [7, 8, 9]) 0
    = .err := by decide +kernel
/-- EUI64 with RDLENGTH 7 -/
example : RData.parse (recBody 109 [0, 1] [0, 0, 0, 60] [1, 2, 3, 4, 5, 6, 7] ++ [8, 9]) 0
    = .err := by decide +kernel
/-- EUI48 with RDLENGTH 5 -/
example : RData.parse (recBody 108 [0, 1] [0, 0, 0, 60] [1, 2, 3, 4, 5] ++ [6, 7]) 0
    = .err := by decide +kernel
/-- A with RDLENGTH 3 -/
example : RData.parse (recBody 1 [0, 1] [0, 0, 0, 60] [192, 0, 2] ++ [1, 0, 0]) 0
    = .err := by decide +kernel
/-- AAAA with RDLENGTH 15 -/
example : RData.parse (recBody 28 [0, 1] [0, 0, 0, 60]
    [0x20, 1, 0x0d, 0xb8, 0, 0, 0, 0, 0, 0, 0, 0, 0, 0, 0] ++ [1, 0]) 0 = .err := by decide +kernel

/-- the same five and SRV with RDLENGTH 6 (priority, weight, port; the target name is missing and
the next octet of the message is a root name) at any place `pre` of any message, whatever
follows -/
example (pre post : Bytes) :
    RData.parse (pre ++ (recBody 109 [0, 1] [0, 0, 0, 60] [1, 2, 3, 4, 5, 6] ++ post)) pre.length
      = .err :=
  short_record_rejected (by decide) pre _ _ _ post rfl rfl (by decide) (by decide)
example (pre post : Bytes) :
    RData.parse (pre ++ (recBody 109 [0, 1] [0, 0, 0, 60] [1, 2, 3, 4, 5, 6, 7] ++ post)) pre.length
      = .err :=
  short_record_rejected (by decide) pre _ _ _ post rfl rfl (by decide) (by decide)
example (pre post : Bytes) :
    RData.parse (pre ++ (recBody 108 [0, 1] [0, 0, 0, 60] [1, 2, 3, 4, 5] ++ post)) pre.length
      = .err :=
  short_record_rejected (by decide) pre _ _ _ post rfl rfl (by decide) (by decide)
example (pre post : Bytes) :
    RData.parse (pre ++ (recBody 1 [0, 1] [0, 0, 0, 60] [192, 0, 2] ++ post)) pre.length = .err :=
  short_record_rejected (by decide) pre _ _ _ post rfl rfl (by decide) (by decide)
example (pre post : Bytes) :
    RData.parse (pre ++ (recBody 28 [0, 1] [0, 0, 0, 60]
      [0x20, 1, 0x0d, 0xb8, 0, 0, 0, 0, 0, 0, 0, 0, 0, 0, 0] ++ post)) pre.length = .err :=
  short_record_rejected (by decide) pre _ _ _ post rfl rfl (by decide) (by decide)
example (pre post : Bytes) :
    RData.parse (pre ++ (recBody 33 [0, 1] [0, 0, 0, 60] [0, 10, 0, 5, 0x14, 0x95] ++ (0 :: post)))
      pre.length = .err :=
  short_record_rejected (by decide) pre _ _ _ _ rfl rfl (by decide) (by decide)

/-- `ResourceRecord::parse`: `a. IN EUI64` with RDLENGTH 6 -/
example (pre post : Bytes) :
    RR.parse (pre ++ (Name.write [[97]] ++ (recBody 109 [0, 1] [0, 0, 0, 60] [1, 2, 3, 4, 5, 6]
      ++ post))) pre.length = .err :=
  short_rr_rejected (by decide) pre [[97]] (by decide) _ _ _ post rfl rfl (by decide) (by decide)

/-- EUI64 with RDLENGTH 8 is accepted, and with RDLENGTH 10 too: the address is the first eight
octets, the cursor is the end of the window -/
example (pre post : Bytes) :
    RData.parse (pre ++ (recBody 109 [0, 1] [0, 0, 0, 60] [1, 2, 3, 4, 5, 6, 7, 8] ++ post))
      pre.length = .ok (.flat 109 [.int 0x0102030405060708], pre.length + 10 + 8) :=
  fixed_layout_record (code := 109) rfl rfl (by decide) pre _ _ _ post rfl rfl (by decide)
    (by decide)
example (pre post : Bytes) :
    RData.parse (pre ++ (recBody 109 [0, 1] [0, 0, 0, 60] [1, 2, 3, 4, 5, 6, 7, 8, 9, 10] ++ post))
      pre.length = .ok (.flat 109 [.int 0x0102030405060708], pre.length + 10 + 10) :=
  fixed_layout_record (code := 109) rfl rfl (by decide) pre _ _ _ post rfl rfl (by decide)
    (by decide)

/-- typed parser: SRV with its six fixed octets and no target name -/
example (hdr : Bytes) : parseTyped (hdr ++ [0, 10, 0, 5, 0x14, 0x95]) hdr.length .SRV = .err :=
  typed_short_rejected_window (code := 33) (by decide) hdr _ (by decide)

/-- ... and the shortest SRV that is accepted: 0 0 0 and the root name, seven octets -/
example : ∃ rd : Bytes, rd.length = 7 ∧ ∀ pre : Bytes,
    parseTyped (pre ++ rd) pre.length .SRV
      = .ok (.flat 33 [.int 0, .int 0, .int 0, .name []], pre.length + 7) :=
  minLen_attained (code := 33) rfl (by decide)

/-- EUI48 with exactly six octets -/
example (hdr : Bytes) : parseTyped (hdr ++ [1, 2, 3, 4, 5, 6]) hdr.length .EUI48
    = .ok (.flat 108 [.int 0x010203040506], (hdr ++ [1, 2, 3, 4, 5, 6]).length) :=
  fixed_layout_exact (code := 108) rfl rfl (by decide) hdr _ rfl

/-- LOC with exactly sixteen octets and VERSION 1 -/
example (hdr : Bytes) :
    parseTyped (hdr ++ [1, 0x12, 0x16, 0x13, 0x89, 0x17, 0x2D, 0xD0, 0x70, 0xBE, 0x15, 0xF0, 0,
      0x98, 0x8D, 0x20]) hdr.length .LOC = .err :=
  (fixed_layout_exact_loc hdr _ rfl).trans (if_neg (by decide))

/-- A with two octets of slack: same verdict, value and cursor as without them -/
example (hdr : Bytes) :
    parseTyped (hdr ++ ([192, 0, 2, 1] ++ [9, 9])) hdr.length .A
      = parseTyped (hdr ++ [192, 0, 2, 1]) hdr.length .A :=
  fixed_layout_longer (code := 1) rfl rfl hdr _ _ rfl

/-- `a. IN A 192.0.2.1`, TTL 60, cache-flush bit set -/
example (pre post : Bytes) :
    RR.parse (pre ++ (Name.write [[97]] ++ (recBody 1 (beN 2 (if true then CLASS.IN.toCode ||| 0x8000
      else CLASS.IN.toCode)) (beN 4 60) [192, 0, 2, 1] ++ post))) pre.length
      = .ok ({ name := [[97]], cls := .IN, ttl := 60, rdata := .flat 1 [.int 0xC0000201],
               flush := true }, pre.length + Name.wireLen [[97]] + 10 + 4) :=
  fixed_layout_rr (code := 1) rfl rfl (by decide) pre post [[97]] .IN true 60 (by decide)
    (by decide) _ (by decide) (by decide)

/-- a whole message: header with ANCOUNT = 1, the record `. IN EUI64` with RDLENGTH 6, then two
more octets -/
def c10ShortMsg : Bytes :=
  [0, 0, 0, 0, 0, 0, 0, 1, 0, 0, 0, 0] ++
    (Name.write [] ++ (recBody 109 [0, 1] [0, 0, 0, 60] [1, 2, 3, 4, 5, 6] ++ [7, 8]))

example : ReachedByParse c10ShortMsg 12 :=
  ⟨0, [], 12, by decide, rfl, 1, by decide, Or.inl ⟨0, [], by decide, rfl⟩⟩

example : Packet.parse c10ShortMsg = .err :=
  short_record_packet_rejected (code := 109) (by decide) (owner := []) (p := 13) (rdlen := 6)
    ⟨0, [], 12, by decide, rfl, 1, by decide, Or.inl ⟨0, [], by decide, rfl⟩⟩
    (Name.parse_write (n := []) (by decide) [0, 0, 0, 0, 0, 0, 0, 1, 0, 0, 0, 0] _)
    (by decide) (by decide) (by decide) (by decide) (by decide)

/-- hypotheses of `fixed_layout_short_rejected` / `empty_rdata_shortcut` on the same message -/
example : RData.parse c10ShortMsg 13 = .err :=
  fixed_layout_short_rejected (code := 109) (rdlen := 6) (by decide) (by decide) (by decide)
    (by decide) (by decide) (by decide)
example : RData.parse ([0] ++ recBody 109 [0, 1] [0, 0, 0, 60] []) 1
    = .ok (.empty .EUI64, 11) :=
  empty_rdata_shortcut (code := 109) (by decide) (by decide) (by decide) (by decide)

end Dns
