/-
C17, further consequences: textual name API — validation, display and suffix algebra.

1. Names accepted by `Name::new` satisfy `Name.WF` (the hypothesis of the wire round trips of C02),
   are what `Name::new_unchecked` returns on the same text, and `new_unchecked` is characterised
   against `Spec.pieces`.
2. The suffix algebra: `is_subdomain_of` is `without(..).is_some()`, it is a strict partial order
   (irreflexive, asymmetric, transitive), the root is below every other name, the ancestors of a
   name form a chain, `without` composes, and well-formedness and link-locality pass to ancestors.
3. The `String` produced by `Display for Name` (`Name.displayStr`, Model/Observers.lean) has exactly
   the bytes `Name.display` when every label is valid UTF-8, in particular for every accepted name.
4. Text-level round trip: which names are fixed by display-then-`new`, idempotence, and when two
   texts give the same name.
-/
import SimpleDnsModel.Props.C17
import SimpleDnsModel.Props.C12
import SimpleDnsModel.Lemmas.Name
import SimpleDnsModel.Lemmas.Txt
namespace Dns

/-! ### 1. `Name::new`, `Name::new_unchecked` and well-formedness -/

/-- `Name::new_unchecked` returns the dot-separated non-empty pieces of the text, whatever they
contain. -/
theorem name_new_unchecked_eq_pieces (s : Bytes) : Name.newUnchecked s = Spec.pieces s :=
  splitLabels_spec s

/-- A valid label is 1–63 bytes long. -/
theorem label_ok_length {l : Bytes} (h : Spec.LabelOK l) : 1 ≤ l.length ∧ l.length ≤ 63 :=
  ⟨h.1, h.2.1⟩

/-- A name accepted by `Name::new` is well-formed for the wire format: every label has 1–63 bytes
and the encoded name has at most 255 bytes (the hypothesis of the round-trip theorems of C02). -/
theorem name_new_wf (s : Bytes) (n : Name) (h : Name.new s = .ok n) : Name.WF n := by
  obtain ⟨⟨hl, hlen⟩, rfl⟩ := (name_new_iff s n).1 h
  exact ⟨fun l hm => label_ok_length (hl l hm), by rw [Name.wireLen_eq_encodedLen]; exact hlen⟩

example : Name.WF [[115, 111, 109, 101, 45, 100, 97, 115, 104], exLocal] :=
  name_new_wf exDash _ (by decide)

/-- Where `Name::new` succeeds it returns what `Name::new_unchecked` returns on the same text. -/
theorem name_new_eq_unchecked (s : Bytes) (n : Name) (h : Name.new s = .ok n) :
    n = Name.newUnchecked s := by
  rw [name_new_unchecked_eq_pieces]; exact ((name_new_iff s n).1 h).2

/-- `Name::new` is `Name::new_unchecked` followed by the label check and the length check. -/
theorem name_new_iff_unchecked (s : Bytes) (n : Name) :
    Name.new s = .ok n ↔
      (n = Name.newUnchecked s ∧ (∀ l ∈ n, Spec.LabelOK l) ∧ Name.wireLen n ≤ 255) := by
  rw [name_new_iff, name_new_unchecked_eq_pieces, Spec.NameTextOK]
  constructor
  · rintro ⟨⟨h1, h2⟩, rfl⟩; exact ⟨rfl, h1, by rw [Name.wireLen_eq_encodedLen]; exact h2⟩
  · rintro ⟨rfl, h1, h2⟩; exact ⟨⟨h1, by rw [← Name.wireLen_eq_encodedLen]; exact h2⟩, rfl⟩

/-- `Name::new` either fails or agrees with `Name::new_unchecked`; it never panics. -/
theorem name_new_cases (s : Bytes) :
    Name.new s = .err ∨ Name.new s = .ok (Name.newUnchecked s) := by
  cases h : Name.new s with
  | ok n => exact .inr (by rw [← name_new_eq_unchecked s n h])
  | err => exact .inl rfl
  | panic => exact absurd h (name_new_no_panic s)

/-- The labels `Name::new_unchecked` produces are never empty and never contain a dot. -/
theorem name_new_unchecked_labels (s : Bytes) :
    ∀ l ∈ Name.newUnchecked s, l ≠ [] ∧ (46 : UInt8) ∉ l := by
  rw [name_new_unchecked_eq_pieces]
  exact fun l hl => ⟨Spec.pieces_ne_nil s l hl, Spec.pieces_dot_free s l hl⟩

/-- `Name::new_unchecked` gives a well-formed name exactly when no piece is longer than 63 bytes
and the encoded length is at most 255 (the content of the labels is not looked at). -/
theorem name_new_unchecked_wf_iff (s : Bytes) :
    Name.WF (Name.newUnchecked s) ↔
      ((∀ l ∈ Spec.pieces s, l.length ≤ 63) ∧ Spec.encodedLen (Spec.pieces s) ≤ 255) := by
  rw [name_new_unchecked_eq_pieces, Name.WF, Name.wireLen_eq_encodedLen]
  constructor
  · rintro ⟨h1, h2⟩; exact ⟨fun l hl => (h1 l hl).2, h2⟩
  · rintro ⟨h1, h2⟩
    refine ⟨fun l hl => ⟨?_, h1 l hl⟩, h2⟩
    exact List.length_pos_iff.2 (Spec.pieces_ne_nil s l hl)

/-- `new_unchecked` does not imply well-formedness: a 64-byte label passes through. -/
example : ¬ Name.WF (Name.newUnchecked (exA 64)) := by decide
/-- `new_unchecked` keeps labels `new` rejects (`bad-`), still well-formed for the wire. -/
example : Name.newUnchecked exTrailHyphen = [[98, 97, 100, 45], exCom] ∧
    Name.WF (Name.newUnchecked exTrailHyphen) ∧ Name.new exTrailHyphen = .err := by decide

/-- `new_unchecked` reads back any dot-joined list of non-empty dot-free labels. -/
theorem name_new_unchecked_display (n : Name) (h1 : ∀ l ∈ n, l ≠ [])
    (h2 : ∀ l ∈ n, (46 : UInt8) ∉ l) : Name.newUnchecked (Name.display n) = n := by
  rw [Name.display_eq_intercalate]; exact splitLabels_intercalate n h1 h2

example : Name.newUnchecked (Name.display [[98, 97, 100, 45], exCom]) = [[98, 97, 100, 45], exCom] :=
  name_new_unchecked_display _ (by decide) (by decide)

/-- Every byte of a valid label is an ASCII letter, digit, hyphen or underscore (below 128, and
not a dot). -/
theorem label_ok_bytes {l : Bytes} (h : Spec.LabelOK l) :
    ∀ b ∈ l, Spec.isLetter b ∨ Spec.isDigit b ∨ Spec.isHyphen b ∨ Spec.isUnderscore b := by
  intro b hb
  obtain ⟨i, hi, rfl⟩ := List.mem_iff_getElem.1 hb
  have := h.2.2 i hi
  rcases Nat.eq_zero_or_pos i with h0 | h0
  · rcases this.1 h0 with h | h | h
    · exact .inl h
    · exact .inr (.inl h)
    · exact .inr (.inr (.inr h))
  · exact this.2.1 h0

theorem label_ok_ascii {l : Bytes} (h : Spec.LabelOK l) : ∀ b ∈ l, b.toNat < 128 := by
  intro b hb
  have := label_ok_bytes h b hb
  simp only [Spec.isLetter, Spec.isDigit, Spec.isHyphen, Spec.isUnderscore] at this
  omega

/-- The labels of an accepted name are ASCII. -/
theorem name_new_ascii (s : Bytes) (n : Name) (h : Name.new s = .ok n) :
    ∀ l ∈ n, ∀ b ∈ l, b.toNat < 128 :=
  fun l hl => label_ok_ascii (((name_new_iff_unchecked s n).1 h).2.1 l hl)

/-- An accepted name survives the wire: writing it (anywhere in a buffer) and parsing it there
gives the same name back and the cursor just after it. -/
theorem name_new_wire_roundtrip (s : Bytes) (n : Name) (h : Name.new s = .ok n) (pre post : Bytes) :
    Name.parse (pre ++ (Name.write n ++ post)) pre.length = .ok (n, pre.length + Name.wireLen n) :=
  Name.parse_write (name_new_wf s n h) pre post

example : Name.parse ([7, 7] ++ (Name.write [exSome, exLocal] ++ [9])) 2 = .ok ([exSome, exLocal], 2 + 12) :=
  name_new_wire_roundtrip (exSome ++ 46 :: exLocal) _ (by decide) [7, 7] [9]

/-! ### 2. suffix algebra -/

/-- `a.is_subdomain_of(b)` is `a.without(b).is_some()`. -/
theorem subdomain_eq_without_isSome (a b : Name) : a.isSubdomainOf b = (a.without b).isSome := by
  unfold Name.without; cases a.isSubdomainOf b <;> rfl

/-- What `without` returns is a non-empty list of leading labels which, put back in front of the
suffix, gives the name. -/
theorem without_some_append (a b p : Name) (h : a.without b = some p) : p ++ b = a ∧ p ≠ [] := by
  obtain ⟨hlen, rfl⟩ := (without_iff a b p).1 h
  refine ⟨rfl, ?_⟩
  rintro rfl; simp at hlen

example : [exSome, exCom] ++ [exLocal] = [exSome, exCom, exLocal] ∧ [exSome, exCom] ≠ [] :=
  without_some_append _ [exLocal] _ (by decide)

/-- `a` is a subdomain of `b` exactly when `a` is `b` with at least one label put in front. -/
theorem subdomain_iff_append (a b : Name) :
    a.isSubdomainOf b = true ↔ ∃ p, p ≠ [] ∧ a = p ++ b := by
  rw [subdomain_iff]
  constructor
  · rintro ⟨hlen, p, rfl⟩
    exact ⟨p, by rintro rfl; simp at hlen, rfl⟩
  · rintro ⟨p, hp, rfl⟩
    have := List.length_pos_iff.2 hp
    exact ⟨by simp; omega, List.suffix_append _ _⟩

/-- Putting labels in front and removing the suffix again gives the labels. -/
theorem without_append (p b : Name) (hp : p ≠ []) : (p ++ b).without b = some p := by
  rw [without_iff]
  have := List.length_pos_iff.2 hp
  exact ⟨by simp; omega, rfl⟩

/-- No name is a subdomain of itself. -/
theorem subdomain_irrefl (a : Name) : a.isSubdomainOf a = false := by
  rw [Bool.eq_false_iff]; intro h
  have := ((subdomain_iff a a).1 h).1; omega

/-- `a.without(a)` is `None`. -/
theorem without_self (a : Name) : a.without a = none := by
  rw [without_none_iff]; intro h; omega

/-- Subdomain is transitive. -/
theorem subdomain_trans (a b c : Name) (hab : a.isSubdomainOf b = true)
    (hbc : b.isSubdomainOf c = true) : a.isSubdomainOf c = true := by
  rw [subdomain_iff] at *
  exact ⟨by omega, hbc.2.trans hab.2⟩

example : Name.isSubdomainOf [exSome, exCom, exLocal] [] = true :=
  subdomain_trans _ [exLocal] _ (by decide) (by decide)

/-- Two names are never subdomains of each other. -/
theorem subdomain_asymm (a b : Name) (hab : a.isSubdomainOf b = true) :
    b.isSubdomainOf a = false := by
  rw [Bool.eq_false_iff]; intro hba
  rw [subdomain_iff] at *
  omega

/-- Antisymmetry of "equal or subdomain". -/
theorem subdomain_antisymm (a b : Name) (hab : a = b ∨ a.isSubdomainOf b = true)
    (hba : b = a ∨ b.isSubdomainOf a = true) : a = b := by
  rcases hab with h | h
  · exact h
  · rcases hba with h' | h'
    · exact h'.symm
    · rw [subdomain_asymm a b h] at h'; cases h'

/-- A subdomain is a different name. -/
theorem subdomain_ne (a b : Name) (h : a.isSubdomainOf b = true) : a ≠ b := by
  rintro rfl; rw [subdomain_irrefl] at h; cases h

/-- Every name but the root is a subdomain of the root. -/
theorem subdomain_root (a : Name) : a.isSubdomainOf [] = !a.isEmpty := by
  rw [Bool.eq_iff_iff, subdomain_iff]
  cases a <;> simp

/-- The root is a subdomain of nothing. -/
theorem root_subdomain (b : Name) : Name.isSubdomainOf [] b = false := by
  rw [Bool.eq_false_iff]; intro h
  have := ((subdomain_iff [] b).1 h).1; simp at this

/-- Removing the root suffix from a non-root name returns the whole name. -/
theorem without_root (a : Name) (h : a ≠ []) : a.without [] = some a := by
  simpa using without_append a [] h

/-- The root has nothing to remove. -/
theorem root_without (b : Name) : Name.without [] b = none := by
  rw [without_none_iff]; simp

/-- The ancestors of a name form a chain: two names that both have `c` as a subdomain are equal or
one is a subdomain of the other. -/
theorem subdomain_chain (a b c : Name) (ha : c.isSubdomainOf a = true)
    (hb : c.isSubdomainOf b = true) :
    a = b ∨ a.isSubdomainOf b = true ∨ b.isSubdomainOf a = true := by
  simp only [subdomain_iff] at *
  rcases Nat.lt_trichotomy a.length b.length with h | h | h
  · exact .inr (.inr ⟨h, List.suffix_of_suffix_length_le ha.2 hb.2 (by omega)⟩)
  · exact .inl (List.IsSuffix.eq_of_length
      (List.suffix_of_suffix_length_le ha.2 hb.2 (by omega)) h)
  · exact .inr (.inl ⟨h, List.suffix_of_suffix_length_le hb.2 ha.2 (by omega)⟩)

example : [exLocal] = ([] : Name) ∨ Name.isSubdomainOf [exLocal] [] = true ∨
    Name.isSubdomainOf [] [exLocal] = true :=
  subdomain_chain _ _ [exSome, exLocal] (by decide) (by decide)

/-- `without` composes along a chain of suffixes. -/
theorem without_trans (a b c p q : Name) (hab : a.without b = some p)
    (hbc : b.without c = some q) : a.without c = some (p ++ q) := by
  rw [without_iff] at *
  obtain ⟨h1, rfl⟩ := hab
  obtain ⟨h2, rfl⟩ := hbc
  exact ⟨by simp at *; omega, by simp⟩

example : Name.without [exSome, exCom, exLocal] [] = some ([exSome] ++ [exCom, exLocal]) :=
  without_trans _ [exCom, exLocal] _ _ _ (by decide) (by decide)

/-- A proper ancestor is strictly shorter on the wire. -/
theorem subdomain_wire_len_lt (a b : Name) (h : a.isSubdomainOf b = true) :
    Name.wireLen b < Name.wireLen a := by
  obtain ⟨p, hp, rfl⟩ := (subdomain_iff_append a b).1 h
  have h1 := Name.wireLen_append p b
  cases p with
  | nil => exact absurd rfl hp
  | cons l t =>
    have h2 := Name.wireLen_pos t
    simp only [List.cons_append, Name.wireLen_cons] at h1 ⊢
    omega

/-- Every ancestor of a well-formed name is well-formed. -/
theorem subdomain_wf (a b : Name) (h : a.isSubdomainOf b = true) (ha : Name.WF a) : Name.WF b := by
  have hlt := subdomain_wire_len_lt a b h
  obtain ⟨p, _, rfl⟩ := (subdomain_iff_append a b).1 h
  exact ⟨fun l hl => ha.1 l (List.mem_append_right _ hl), by have := ha.2; omega⟩

/-- The labels `without` returns form a well-formed name when the original is. -/
theorem without_wf (a b p : Name) (h : a.without b = some p) (ha : Name.WF a) : Name.WF p := by
  obtain ⟨rfl, _⟩ := without_some_append a b p h
  have := Name.wireLen_append p b
  have hb := Name.wireLen_pos b
  exact ⟨fun l hl => ha.1 l (List.mem_append_left _ hl), by have := ha.2; omega⟩

example : Name.WF [exLocal] := subdomain_wf [exSome, exLocal] _ (by decide) (by decide)

/-- A subdomain of a non-root name is link-local exactly when that name is. -/
theorem subdomain_link_local (a b : Name) (h : a.isSubdomainOf b = true) (hb : b ≠ []) :
    a.isLinkLocal = b.isLinkLocal := by
  obtain ⟨p, _, rfl⟩ := (subdomain_iff_append a b).1 h
  unfold Name.isLinkLocal
  rw [List.getLast?_append]
  cases hl : b.getLast? with
  | none => exact absurd (List.getLast?_eq_none_iff.1 hl) hb
  | some l => rfl

example : Name.isLinkLocal [exSome, exCom, exLocal] = Name.isLinkLocal [exLocal] :=
  subdomain_link_local _ _ (by decide) (by decide)
/-- the hypothesis `b ≠ []` is needed: every name is a subdomain of the root, which is not
link-local -/
example : Name.isSubdomainOf [exLocal] [] = true ∧ Name.isLinkLocal [exLocal] = true ∧
    Name.isLinkLocal [] = false := by decide

/-! ### 3. the `String` of `Display for Name` and the bytes `Name.display` -/

namespace TextL

theorem bytesOfString_append (a b : String) :
    bytesOfString (a ++ b) = bytesOfString a ++ bytesOfString b := by
  simp [bytesOfString_eq_flatMap]

theorem bytesOfString_dot : bytesOfString "." = [46] := by
  rw [bytesOfString_eq_flatMap]; decide

/-- the one-byte UTF-8 encoding of an ASCII character -/
theorem utf8EncodeChar_ascii (x : UInt8) (h : x.toNat < 128) :
    String.utf8EncodeChar (Char.ofNat x.toNat) = [x] := by
  have hv : (Char.ofNat x.toNat).val.toNat = x.toNat := by
    rw [Char.ofNat, dif_pos (by left; omega)]
    simp [Char.ofNatAux]
  unfold String.utf8EncodeChar
  simp only [hv]
  rw [if_pos (by omega)]
  simp

/-- the loop of `Display for Name` after the first label: every further label is written as a dot
followed by its text -/
theorem displayFrom_bytes (i : Nat) (hi : i ≠ 0) (acc : String) (n : Name) (str : String)
    (h : Name.displayFrom i acc n = .ok str) :
    bytesOfString str =
      bytesOfString acc ++ n.flatMap (fun l => 46 :: bytesOfString (lossy l)) := by
  induction n generalizing i acc with
  | nil => simp [Name.displayFrom] at h; simp [h]
  | cons l rest ih =>
    simp only [Name.displayFrom, Label.display, Out.bind_ok] at h
    rw [ih (i + 1) (by omega) _ h]
    simp [hi, bytesOfString_append, bytesOfString_dot]

theorem display_cons_flatMap (l : Label) (rest : Name) :
    Name.display (l :: rest) = l ++ rest.flatMap (fun l => 46 :: l) := by
  induction rest generalizing l with
  | nil => simp [Name.display]
  | cons l' t ih =>
    rw [Name.display, ih]
    · simp
    · simp

theorem displayStr_bytes (n : Name) (str : String) (h : Name.displayStr n = .ok str) :
    bytesOfString str = Name.display (n.map (fun l => bytesOfString (lossy l))) := by
  cases n with
  | nil =>
    simp [Name.displayStr, Name.displayFrom] at h
    subst h; simp [Name.display, bytesOfString_empty]
  | cons l rest =>
    simp only [Name.displayStr, Name.displayFrom, Label.display, Out.bind_ok] at h
    rw [displayFrom_bytes 1 (by omega) _ rest str h, List.map_cons, display_cons_flatMap]
    simp [List.flatMap_map]

/-- every byte of the displayed form of a name with ASCII labels is ASCII -/
theorem display_ascii (n : Name) (h : ∀ l ∈ n, ∀ b ∈ l, b.toNat < 128) :
    ∀ b ∈ Name.display n, b.toNat < 128 := by
  cases n with
  | nil => simp [Name.display]
  | cons l rest =>
    rw [display_cons_flatMap]
    intro b hb
    rcases List.mem_append.1 hb with hb | hb
    · exact h l (by simp) b hb
    · obtain ⟨l', hl', hb⟩ := List.mem_flatMap.1 hb
      rcases List.mem_cons.1 hb with rfl | hb
      · decide
      · exact h l' (by simp [hl']) b hb

end TextL

/-- The text of an ASCII byte string: one character per byte. -/
def asciiText (b : Bytes) : String := String.ofList (b.map (fun x => Char.ofNat x.toNat))

/-- The UTF-8 bytes of the text of an ASCII byte string are the bytes. -/
theorem bytes_of_ascii_text (b : Bytes) (h : ∀ x ∈ b, x.toNat < 128) :
    bytesOfString (asciiText b) = b := by
  unfold asciiText
  rw [bytesOfString_ofList]
  induction b with
  | nil => rfl
  | cons x t ih =>
    simp only [List.map_cons, List.flatMap_cons]
    rw [TextL.utf8EncodeChar_ascii x (h x (by simp)), ih (fun y hy => h y (by simp [hy]))]
    rfl

/-- ASCII bytes are valid UTF-8 (`String::from_utf8` succeeds, with one character per byte). -/
theorem ascii_valid_utf8 (b : Bytes) (h : ∀ x ∈ b, x.toNat < 128) :
    stringOfBytes? b = some (asciiText b) :=
  stringOfBytes?_eq_some_iff.2 (bytes_of_ascii_text b h).symm

example : stringOfBytes? exLocal = some "local" := ascii_valid_utf8 exLocal (by decide)

/-- `from_utf8_lossy` of valid UTF-8 has the same bytes. -/
theorem lossy_bytes {l : Bytes} {s : String} (h : stringOfBytes? l = some s) :
    bytesOfString (lossy l) = l := by
  simp only [lossy, h]; exact (stringOfBytes?_eq_some h).symm

/-- For EVERY name, `to_string()` returns a `String` whose bytes are the byte-level display of the
name whose labels have been passed through `from_utf8_lossy`. -/
theorem display_str_bytes_lossy (n : Name) :
    ∃ str, Name.displayStr n = .ok str ∧
      bytesOfString str = Name.display (n.map (fun l => bytesOfString (lossy l))) := by
  obtain ⟨str, h⟩ := ObsL.displayStr_ok n
  exact ⟨str, h, TextL.displayStr_bytes n str h⟩

/-- When every label is valid UTF-8, `to_string()` returns a `String` whose UTF-8 bytes are exactly
`Name.display n`: the byte-level `Display` of C17 is the `String`-level one of the observers. -/
theorem display_str_bytes (n : Name) (h : ∀ l ∈ n, (stringOfBytes? l).isSome = true) :
    ∃ str, Name.displayStr n = .ok str ∧ bytesOfString str = Name.display n := by
  obtain ⟨str, h1, h2⟩ := display_str_bytes_lossy n
  refine ⟨str, h1, ?_⟩
  rw [h2]; congr 1
  conv => rhs; rw [← List.map_id n]
  exact List.map_congr_left fun l hl => by
    obtain ⟨s, hs⟩ := Option.isSome_iff_exists.1 (h l hl); exact lossy_bytes hs

/-- The same as an equivalence: under that hypothesis the displayed `String` is the one and only
`String` whose bytes are `Name.display n`, i.e. `String::from_utf8(Name.display n)`. -/
theorem display_str_iff (n : Name) (h : ∀ l ∈ n, (stringOfBytes? l).isSome = true) (str : String) :
    Name.displayStr n = .ok str ↔ stringOfBytes? (Name.display n) = some str := by
  obtain ⟨str', h1, h2⟩ := display_str_bytes n h
  rw [stringOfBytes?_eq_some_iff, h1, ← h2]
  constructor
  · intro e; cases e; rfl
  · intro e; rw [bytesOfString_inj e]

/-- the text `é.local` (the label `é` is the two bytes C3 A9) -/
example : ∃ str, Name.displayStr [[195, 169], exLocal] = .ok str ∧
    bytesOfString str = [195, 169, 46, 108, 111, 99, 97, 108] :=
  display_str_bytes _ (by decide)

/-- The hypothesis is needed: for a label that is not UTF-8 the `String` has other bytes (in the
model: those of one U+FFFD). -/
theorem display_str_bytes_needs_utf8 :
    Name.displayStr [[255]] = .ok "\uFFFD" ∧ bytesOfString "\uFFFD" = [239, 191, 189] ∧
      Name.display [[255]] = [255] := by
  refine ⟨by decide, ?_, rfl⟩
  rw [bytesOfString_eq_flatMap]; decide

/-- For ASCII labels the displayed `String` is explicit: one character per byte of
`Name.display n`. -/
theorem display_str_ascii (n : Name) (h : ∀ l ∈ n, ∀ b ∈ l, b.toNat < 128) :
    Name.displayStr n = .ok (asciiText (Name.display n)) := by
  rw [display_str_iff n (fun l hl => by rw [ascii_valid_utf8 l (h l hl)]; rfl)]
  exact ascii_valid_utf8 _ (TextL.display_ascii n h)

example : Name.displayStr [exSome, exLocal] = .ok "some.local" :=
  display_str_ascii _ (by decide)

/-- For a name accepted by `Name::new`, `to_string()` is the text with empty labels removed: its
bytes are `Name.display n`, which is `Spec.normalised s`. -/
theorem name_new_display_str (s : Bytes) (n : Name) (h : Name.new s = .ok n) :
    Name.displayStr n = .ok (asciiText (Spec.normalised s)) ∧
      bytesOfString (asciiText (Spec.normalised s)) = Name.display n := by
  have ha := name_new_ascii s n h
  have hd := (display_new s n h).1
  refine ⟨by rw [← hd]; exact display_str_ascii n ha, ?_⟩
  rw [← hd]; exact bytes_of_ascii_text _ (TextL.display_ascii n ha)

example : Name.displayStr [[97], [98, 45, 99], [95, 116, 99, 112]] = .ok "a.b-c._tcp" :=
  (name_new_display_str exDots _ (by decide)).1

/-- Round trip through the `String`: `Name::new(&n.to_string())` gives the accepted name back. -/
theorem name_new_display_str_roundtrip (s : Bytes) (n : Name) (str : String)
    (h : Name.new s = .ok n) (hd : Name.displayStr n = .ok str) :
    Name.new (bytesOfString str) = .ok n := by
  have h1 := name_new_display_str s n h
  rw [h1.1] at hd; cases hd
  rw [h1.2]; exact (display_new s n h).2

/-! ### 4. text-level round trip and idempotence -/

/-- `Name::new` has the same outcome on a text and on the text with its empty labels removed. -/
theorem name_new_normalised (s : Bytes) : Name.new (Spec.normalised s) = Name.new s := by
  unfold Name.new; rw [splitLabels_spec, splitLabels_spec, Spec.pieces_normalised]

/-- Removing empty labels twice is removing them once. -/
theorem normalised_idem (s : Bytes) : Spec.normalised (Spec.normalised s) = Spec.normalised s := by
  show [46].intercalate (Spec.pieces (Spec.normalised s)) = _
  rw [Spec.pieces_normalised]; rfl

/-- The names that display-then-`new` gives back unchanged are exactly those whose labels are all
valid and whose encoding fits 255 bytes (no text is mentioned: this characterises the image of
`Name::new`). -/
theorem name_new_display_iff (n : Name) :
    Name.new (Name.display n) = .ok n ↔ ((∀ l ∈ n, Spec.LabelOK l) ∧ Name.wireLen n ≤ 255) := by
  rw [name_new_iff_unchecked]
  constructor
  · rintro ⟨_, h⟩; exact h
  · intro h
    refine ⟨(name_new_unchecked_display n (fun l hl => (h.1 l hl).dot_free.1)
      (fun l hl => (h.1 l hl).dot_free.2)).symm, h⟩

/-- A name is in the image of `Name::new` exactly when its labels are valid and it fits. -/
theorem name_new_image (n : Name) :
    (∃ s, Name.new s = .ok n) ↔ ((∀ l ∈ n, Spec.LabelOK l) ∧ Name.wireLen n ≤ 255) :=
  ⟨fun ⟨s, h⟩ => ((name_new_iff_unchecked s n).1 h).2,
   fun h => ⟨_, (name_new_display_iff n).2 h⟩⟩

example : (∀ l ∈ [exSome, exLocal], Spec.LabelOK l) ∧ Name.wireLen [exSome, exLocal] ≤ 255 :=
  (name_new_image _).1 ⟨exSome ++ 46 :: exLocal, by decide⟩

/-- `Name::new(text).map(|n| n.to_string())` on bytes -/
def Name.redisplay (s : Bytes) : Out Bytes := do
  let n ← Name.new s
  pure (Name.display n)

/-- Create-then-display succeeds exactly on acceptable texts and returns the normalised text. -/
theorem redisplay_iff (s t : Bytes) :
    Name.redisplay s = .ok t ↔ (Spec.NameTextOK s ∧ t = Spec.normalised s) := by
  unfold Name.redisplay
  cases h : Name.new s with
  | ok n =>
    obtain ⟨hok, rfl⟩ := (name_new_iff s n).1 h
    simp only [Out.bind_ok, Out.pure_eq, Out.ok.injEq, display_eq_intercalate, Spec.normalised, hok,
      true_and]
    exact eq_comm
  | err => simp [(name_new_err_iff s).1 h]
  | panic => exact absurd h (name_new_no_panic s)

/-- Idempotence: displaying an accepted name, re-creating a name from that text and displaying
again gives the same bytes. -/
theorem redisplay_idem (s t : Bytes) (h : Name.redisplay s = .ok t) : Name.redisplay t = .ok t := by
  obtain ⟨hok, rfl⟩ := (redisplay_iff s t).1 h
  rw [redisplay_iff, normalised_idem, Spec.NameTextOK, Spec.pieces_normalised]
  exact ⟨hok, rfl⟩

example : Name.redisplay exDots = .ok [97, 46, 98, 45, 99, 46, 95, 116, 99, 112] ∧
    Name.redisplay [97, 46, 98, 45, 99, 46, 95, 116, 99, 112]
      = .ok [97, 46, 98, 45, 99, 46, 95, 116, 99, 112] :=
  ⟨by decide, redisplay_idem exDots _ (by decide)⟩

/-- The same in terms of names: after one display/re-create step the name and its text are
fixed. -/
theorem display_new_display (s : Bytes) (n : Name) (h : Name.new s = .ok n) :
    ∃ n', Name.new (Name.display n) = .ok n' ∧ Name.display n' = Name.display n ∧
      Name.new (Name.display n') = .ok n' :=
  ⟨n, (display_new s n h).2, rfl, (display_new s n h).2⟩

/-- Without validation too: `new_unchecked`-then-display is idempotent on every text. -/
theorem unchecked_display_idem (s : Bytes) :
    Name.newUnchecked (Name.display (Name.newUnchecked s)) = Name.newUnchecked s := by
  refine name_new_unchecked_display _ (fun l hl => (name_new_unchecked_labels s l hl).1)
    (fun l hl => (name_new_unchecked_labels s l hl).2)

/-- Display is injective on names with non-empty dot-free labels. -/
theorem display_injective (n m : Name) (hn : ∀ l ∈ n, l ≠ [] ∧ (46 : UInt8) ∉ l)
    (hm : ∀ l ∈ m, l ≠ [] ∧ (46 : UInt8) ∉ l) (h : Name.display n = Name.display m) : n = m := by
  rw [← name_new_unchecked_display n (fun l hl => (hn l hl).1) (fun l hl => (hn l hl).2), h,
    name_new_unchecked_display m (fun l hl => (hm l hl).1) (fun l hl => (hm l hl).2)]

/-- Without that hypothesis display is not injective: `["a.b"]` and `["a","b"]` show alike. -/
example : Name.display [[97, 46, 98]] = Name.display [[97], [98]] ∧
    ([[97, 46, 98]] : Name) ≠ [[97], [98]] := by decide

/-- Two accepted names that display alike are equal. -/
theorem name_new_display_injective (s t : Bytes) (n m : Name) (hn : Name.new s = .ok n)
    (hm : Name.new t = .ok m) (h : Name.display n = Name.display m) : n = m := by
  refine display_injective n m (fun l hl => ?_) (fun l hl => ?_) h
  · exact (((name_new_iff_unchecked s n).1 hn).2.1 l hl).dot_free
  · exact (((name_new_iff_unchecked t m).1 hm).2.1 l hl).dot_free

/-- Two texts give the same accepted name exactly when they are the same text up to empty
labels. -/
theorem name_new_same_iff (s t : Bytes) (n : Name) (h : Name.new s = .ok n) :
    Name.new t = .ok n ↔ Spec.normalised t = Spec.normalised s := by
  constructor
  · intro ht
    rw [← (display_new s n h).1, ← (display_new t n ht).1]
  · intro e
    rw [← name_new_normalised t, e, name_new_normalised s]; exact h

example : Name.new [97, 46, 98, 45, 99, 46, 95, 116, 99, 112]
    = .ok [[97], [98, 45, 99], [95, 116, 99, 112]] :=
  (name_new_same_iff exDots _ _ (by decide)).2 (by decide)

end Dns
