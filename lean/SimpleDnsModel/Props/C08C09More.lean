/-
C08 / C09, additions.

C08 — "Header bits are read and written per RFC 1035 §4.1.1":
  1. the layout facts of `Header.parse` (Props/C08.lean) restated for the parsed PACKET
     (`packet_header_layout`, `packet_header_layout_any`, `packet_z_rejected`);
  2. flag edits as seen on the written flags word (`setFlags_word`, `removeFlags_word`,
     `flag_edit_fields`, `hasFlags_*`, `written_hasFlags`);
  3. the one divergence of the model from `bitflags`: `remove` is `bits & !f` on `u16` in the
     crate and `flags &&& (ALLFLAGS ^^^ f)` in the model. They agree on every reachable header
     (`removeFlags_eq_bitflags`, `flag_ops_invariant`, `flag_ops_from_*`), and differ only on
     bits outside the seven named flags (`removeFlags_agree_on_named_bits`).

C09 — "EDNS(0) data is carried per RFC 6891":
  1. the OPT record layout for BOTH writers (`opt_record_layout_G_partial`,
     `opt_record_layout_compressed_partial`);
  2. without EDNS data only the low four bits of the response code travel
     (`rcode_without_opt_truncated`, `badvers_without_opt_reads_noerror`);
  3. exactly one OPT entry in the walked output, first in the additional section
     (`exactly_one_opt`, `exactly_one_opt_count`).
-/
import SimpleDnsModel.Props.C04
import SimpleDnsModel.Props.C08Api
import SimpleDnsModel.Props.C09
set_option autoImplicit false
namespace Dns
namespace C08C09More

/-! ## C08-2 / C08-3: the flag algebra on the written word -/

/-- every named opcode, shifted to its field, stays inside the OPCODE mask -/
theorem opcode_in_mask (o : OPCODE) : (o.toCode <<< 11) &&& Mask.OPCODE = o.toCode <<< 11 := by
  cases o <;> decide

/-- **`set_flags` on the wire.** The flags word written after `set_flags(f)` is the word written
before, OR `f` — for every header and every `f` (no side condition). -/
theorem setFlags_word (h : Header) (f : Nat) : (h.setFlags f).getFlags = h.getFlags ||| f := by
  unfold Header.setFlags Header.getFlags
  apply Nat.eq_of_testBit_eq
  intro i
  simp only [Nat.testBit_or]
  generalize Nat.testBit h.flags i = a
  generalize Nat.testBit f i = b
  generalize Nat.testBit (h.opcode.toCode <<< 11) i = c
  generalize Nat.testBit (h.rcode.toCode &&& Mask.RCODE) i = d
  revert a b c d
  decide

/-- **`remove_flags` on the wire.** When the header's flags and `f` are sets of the seven named
flags, the flags word written after `remove_flags(f)` is the word written before with the bits of
`f` cleared (`& !f` on `u16`): the opcode and response-code fields are not disturbed. -/
theorem removeFlags_word (h : Header) (f : Nat) (hh : h.flags &&& Mask.ALLFLAGS = h.flags)
    (hf : f &&& Mask.ALLFLAGS = f) :
    (h.removeFlags f).getFlags = h.getFlags &&& (0xFFFF ^^^ f) := by
  have ho := opcode_in_mask h.opcode
  unfold Header.removeFlags Header.getFlags
  simp only [Mask.ALLFLAGS, Mask.RCODE, Mask.OPCODE] at *
  generalize h.opcode.toCode <<< 11 = O at *
  generalize h.rcode.toCode = R at *
  generalize h.flags = F at *
  have c1 : (0x87B0 : Nat) &&& 0xFFFF = 0x87B0 := by decide
  have c2 : (0x7800 : Nat) &&& 0xFFFF = 0x7800 := by decide
  have c3 : (15 : Nat) &&& 0xFFFF = 15 := by decide
  have c4 : (0x87B0 : Nat) &&& 0x7800 = 0 := by decide
  have c5 : (0x87B0 : Nat) &&& 15 = 0 := by decide
  apply Nat.eq_of_testBit_eq
  intro i
  replace hh := congrArg (·.testBit i) hh
  replace hf := congrArg (·.testBit i) hf
  replace ho := congrArg (·.testBit i) ho
  replace c1 := congrArg (·.testBit i) c1
  replace c2 := congrArg (·.testBit i) c2
  replace c3 := congrArg (·.testBit i) c3
  replace c4 := congrArg (·.testBit i) c4
  replace c5 := congrArg (·.testBit i) c5
  simp only [Nat.testBit_and, Nat.testBit_xor, Nat.testBit_or, Nat.zero_testBit] at *
  generalize Nat.testBit F i = a at *
  generalize Nat.testBit f i = b at *
  generalize Nat.testBit O i = c at *
  generalize Nat.testBit R i = d at *
  generalize Nat.testBit 0x87B0 i = e at *
  generalize Nat.testBit 0x7800 i = g at *
  generalize Nat.testBit 15 i = k at *
  generalize Nat.testBit 0xFFFF i = m at *
  revert a b c d e g k m
  decide

/-- why `removeFlags_word` needs `f` inside the named flags: "removing" the opcode bits through
the `u16` complement would clear the opcode field, while the model (and the crate, whose
`remove` only touches `z_flags`) leaves the opcode alone -/
example :
    let h : Header := { id := 0, opcode := .Update, rcode := .NoError, flags := 0, opt := none }
    (h.removeFlags 0x7800).getFlags = 0x2800 ∧ h.getFlags &&& (0xFFFF ^^^ 0x7800) = 0 := by decide

/-- the set of named flags is closed under `set_flags` with a named argument -/
theorem setFlags_named (h : Header) (f : Nat) (hh : h.flags &&& Mask.ALLFLAGS = h.flags)
    (hf : f &&& Mask.ALLFLAGS = f) :
    (h.setFlags f).flags &&& Mask.ALLFLAGS = (h.setFlags f).flags := by
  unfold Header.setFlags
  simp only
  rw [Nat.and_or_distrib_right, hh, hf]

/-- … and under `remove_flags` with ANY argument -/
theorem removeFlags_named (h : Header) (f : Nat) (hh : h.flags &&& Mask.ALLFLAGS = h.flags) :
    (h.removeFlags f).flags &&& Mask.ALLFLAGS = (h.removeFlags f).flags := by
  unfold Header.removeFlags
  simp only
  rw [Nat.and_assoc, Nat.and_comm (Mask.ALLFLAGS ^^^ f), ← Nat.and_assoc, hh]

/-- The RFC fields of the flags word written for any header whose flags are named flags: the
word fits 16 bits, Z is clear, and OPCODE, RCODE (low four bits) and the seven flag bits are the
header's. (`build_table` of Props/C08.lean, lifted from the enumeration to every such header.) -/
theorem getFlags_fields (h : Header) (hh : h.flags &&& Mask.ALLFLAGS = h.flags) :
    h.getFlags < 65536 ∧ Spec.Z h.getFlags = 0 ∧ Spec.OPCODE h.getFlags = h.opcode.toCode ∧
    Spec.RCODE h.getFlags = h.rcode.toCode % 16 ∧ Spec.flagBits h.getFlags = h.flags := by
  obtain ⟨i, hi, hfi⟩ := flags_eq_flagSet h.flags hh
  have hb := build_table h.opcode (allOpcodes_complete _) h.rcode (allRcodes_complete _) i hi
  have hw : h.getFlags =
      ({ id := 0, opcode := h.opcode, rcode := h.rcode, flags := flagSet i, opt := none } :
        Header).getFlags := by simp [Header.getFlags, hfi]
  simp only [BuildOK] at hb
  rw [← hw] at hb
  obtain ⟨h1, h2, h3, h4, h5, _⟩ := hb
  exact ⟨h1, h2, h3, h4, by rw [h5, hfi]⟩

/-- **Flag edits leave the other fields of the written word alone.** For a header whose flags are
named flags and a named `f`: after `set_flags(f)` / `remove_flags(f)` the written word has the
same OPCODE and RCODE fields and a clear Z bit, and its seven flag bits are the union with / the
difference by `f`. -/
theorem flag_edit_fields (h : Header) (f : Nat) (hh : h.flags &&& Mask.ALLFLAGS = h.flags)
    (hf : f &&& Mask.ALLFLAGS = f) :
    Spec.OPCODE (h.setFlags f).getFlags = Spec.OPCODE h.getFlags ∧
    Spec.RCODE (h.setFlags f).getFlags = Spec.RCODE h.getFlags ∧
    Spec.Z (h.setFlags f).getFlags = 0 ∧
    Spec.flagBits (h.setFlags f).getFlags = h.flags ||| f ∧
    Spec.OPCODE (h.removeFlags f).getFlags = Spec.OPCODE h.getFlags ∧
    Spec.RCODE (h.removeFlags f).getFlags = Spec.RCODE h.getFlags ∧
    Spec.Z (h.removeFlags f).getFlags = 0 ∧
    Spec.flagBits (h.removeFlags f).getFlags = h.flags &&& (0xFFFF ^^^ f) := by
  obtain ⟨_, _, o0, r0, _⟩ := getFlags_fields h hh
  obtain ⟨_, z1, o1, r1, b1⟩ := getFlags_fields (h.setFlags f) (setFlags_named h f hh hf)
  obtain ⟨_, z2, o2, r2, b2⟩ := getFlags_fields (h.removeFlags f) (removeFlags_named h f hh)
  refine ⟨by rw [o1, o0]; rfl, by rw [r1, r0]; rfl, z1, b1, by rw [o2, o0]; rfl,
    by rw [r2, r0]; rfl, z2, ?_⟩
  rw [b2]
  -- on named flags the model's complement and the `u16` complement agree
  show h.flags &&& (Mask.ALLFLAGS ^^^ f) = h.flags &&& (0xFFFF ^^^ f)
  simp only [Mask.ALLFLAGS] at *
  have c1 : (0x87B0 : Nat) &&& 0xFFFF = 0x87B0 := by decide
  apply Nat.eq_of_testBit_eq
  intro i
  replace hh := congrArg (·.testBit i) hh
  replace c1 := congrArg (·.testBit i) c1
  simp only [Nat.testBit_and, Nat.testBit_xor] at *
  generalize Nat.testBit h.flags i = a at *
  generalize Nat.testBit f i = b at *
  generalize Nat.testBit 0x87B0 i = e at *
  generalize Nat.testBit 0xFFFF i = m at *
  revert a b e m
  decide

example : (0x8180 : Nat) &&& Mask.ALLFLAGS = 0x8180 ∧ (0x0420 : Nat) &&& Mask.ALLFLAGS = 0x0420 := by
  decide

/-! ### `has_flags` after an edit -/

/-- after `set_flags(f)` the header has `f` — any header, any `f` -/
theorem hasFlags_setFlags_self (h : Header) (f : Nat) : (h.setFlags f).hasFlags f = true := by
  unfold Header.setFlags Header.hasFlags
  simp only [beq_iff_eq]
  apply Nat.eq_of_testBit_eq
  intro i
  simp only [Nat.testBit_and, Nat.testBit_or]
  generalize Nat.testBit h.flags i = a
  generalize Nat.testBit f i = b
  revert a b
  decide

/-- `set_flags` never clears a flag: what the header had, it still has -/
theorem hasFlags_setFlags_mono (h : Header) (f g : Nat) (hg : h.hasFlags g = true) :
    (h.setFlags f).hasFlags g = true := by
  unfold Header.setFlags Header.hasFlags at *
  simp only [beq_iff_eq] at *
  apply Nat.eq_of_testBit_eq
  intro i
  replace hg := congrArg (·.testBit i) hg
  simp only [Nat.testBit_and, Nat.testBit_or] at *
  generalize Nat.testBit h.flags i = a at *
  generalize Nat.testBit f i = b at *
  generalize Nat.testBit g i = c at *
  revert a b c
  decide

/-- after `set_flags(f)` the header has `g` exactly when it had the part of `g` outside `f` -/
theorem hasFlags_setFlags (h : Header) (f g : Nat) :
    (h.setFlags f).hasFlags g = ((h.flags ||| f) &&& g == g) := rfl

/-- after `remove_flags(f)` with a named `f` none of the bits of `f` is left: `has_flags(g)` is
false for every `g` that shares a bit with `f`; in particular `has_flags(f)` only for empty `f` -/
theorem hasFlags_removeFlags_overlap (h : Header) (f g : Nat) (hf : f &&& Mask.ALLFLAGS = f)
    (hfg : f &&& g ≠ 0) : (h.removeFlags f).hasFlags g = false := by
  unfold Header.removeFlags Header.hasFlags
  simp only [beq_eq_false_iff_ne, ne_eq]
  intro heq
  apply hfg
  apply Nat.eq_of_testBit_eq
  intro i
  replace hf := congrArg (·.testBit i) hf
  replace heq := congrArg (·.testBit i) heq
  simp only [Nat.testBit_and, Nat.testBit_xor, Nat.zero_testBit] at *
  generalize Nat.testBit h.flags i = a at *
  generalize Nat.testBit f i = b at *
  generalize Nat.testBit g i = c at *
  generalize Nat.testBit Mask.ALLFLAGS i = e at *
  revert a b c e
  decide

/-- after `remove_flags(f)` (named `f`) the header has `f` only in the degenerate case of an empty `f` -/
theorem hasFlags_removeFlags_self (h : Header) (f : Nat) (hf : f &&& Mask.ALLFLAGS = f) :
    (h.removeFlags f).hasFlags f = (f == 0) := by
  by_cases h0 : f = 0
  · subst h0; simp [Header.hasFlags]
  · rw [hasFlags_removeFlags_overlap h f f hf (by rwa [Nat.and_self])]
    simp [h0]

/-- flags disjoint from `f` are not affected by `set_flags(f)` / `remove_flags(f)` (named `g`) -/
theorem hasFlags_disjoint (h : Header) (f g : Nat) (hg : g &&& Mask.ALLFLAGS = g)
    (hfg : f &&& g = 0) :
    (h.setFlags f).hasFlags g = h.hasFlags g ∧ (h.removeFlags f).hasFlags g = h.hasFlags g := by
  have key : (h.flags ||| f) &&& g = h.flags &&& g ∧
      (h.flags &&& (Mask.ALLFLAGS ^^^ f)) &&& g = h.flags &&& g := by
    constructor <;>
    · apply Nat.eq_of_testBit_eq
      intro i
      replace hg := congrArg (·.testBit i) hg
      replace hfg := congrArg (·.testBit i) hfg
      simp only [Nat.testBit_and, Nat.testBit_xor, Nat.testBit_or, Nat.zero_testBit] at *
      generalize Nat.testBit h.flags i = a at *
      generalize Nat.testBit f i = b at *
      generalize Nat.testBit g i = c at *
      generalize Nat.testBit Mask.ALLFLAGS i = e at *
      revert a b c e
      decide
  unfold Header.setFlags Header.removeFlags Header.hasFlags
  simp only [key.1, key.2, and_self]

/-- **`has_flags` is what a reader of the written header sees**: the peek function
`header_buffer::has_flags` applied to the serialised header (followed by any body) answers like
`Header::has_flags` on the value, for every header whose flags are named flags. -/
theorem written_hasFlags (h : Header) (qd an ns ar : Nat) (body : Bytes) (g : Nat)
    (hid : h.id < 65536) (hh : h.flags &&& Mask.ALLFLAGS = h.flags) (hqd : qd < 65536)
    (han : an < 65536) (hns : ns < 65536) (har : ar < 65536) :
    Peek.hasFlags (h.write qd an ns ar ++ body) g = .ok (h.hasFlags g) := by
  obtain ⟨hw, _, _, _, hb⟩ := getFlags_fields h hh
  have := (peek_agrees h.id h.getFlags qd an ns ar body hid hw hqd han hns har).2.2.2.2.2.2.2 g
  simp only [hdrBytes, hb] at this
  simpa [Header.write, Header.hasFlags] using this

/-- the edit is visible to a reader of the serialised header: after `set_flags(f)` the peeked
`has_flags(f)` is true, after `remove_flags(f)` (non-empty `f`) it is false -/
theorem written_hasFlags_after_edit (h : Header) (qd an ns ar : Nat) (body : Bytes) (f : Nat)
    (hid : h.id < 65536) (hh : h.flags &&& Mask.ALLFLAGS = h.flags)
    (hf : f &&& Mask.ALLFLAGS = f) (hqd : qd < 65536)
    (han : an < 65536) (hns : ns < 65536) (har : ar < 65536) :
    Peek.hasFlags ((h.setFlags f).write qd an ns ar ++ body) f = .ok true ∧
    (f ≠ 0 → Peek.hasFlags ((h.removeFlags f).write qd an ns ar ++ body) f = .ok false) := by
  constructor
  · rw [written_hasFlags (h.setFlags f) qd an ns ar body f hid (setFlags_named h f hh hf) hqd han
      hns har, hasFlags_setFlags_self]
  · intro h0
    rw [written_hasFlags (h.removeFlags f) qd an ns ar body f hid (removeFlags_named h f hh) hqd
      han hns har, hasFlags_removeFlags_self h f hf]
    simp [h0]

example : ({ id := 7, opcode := .Update, rcode := .Refused, flags := 0x8100, opt := none } :
    Header).flags &&& Mask.ALLFLAGS = 0x8100 := by decide

/-! ### C08-3: the model's `remove` against `bitflags`' -/

/-- `bitflags` 2.x `Flags::remove` on a `u16`-backed set: `bits & !other.bits`, the complement
taken over all 16 bits (not truncated to the named flags) -/
def removeFlagsBitflags (h : Header) (f : Nat) : Header :=
  { h with flags := h.flags &&& (0xFFFF ^^^ f) }

/-- **The divergence is unobservable on named flags.** Whenever the header's flags are a set of
the seven named flags, the model's `removeFlags` and `bitflags`' `remove` give the same header,
for ANY argument `f`. -/
theorem removeFlags_eq_bitflags (h : Header) (f : Nat)
    (hh : h.flags &&& Mask.ALLFLAGS = h.flags) : h.removeFlags f = removeFlagsBitflags h f := by
  unfold Header.removeFlags removeFlagsBitflags
  congr 1
  simp only [Mask.ALLFLAGS] at *
  have c1 : (0x87B0 : Nat) &&& 0xFFFF = 0x87B0 := by decide
  apply Nat.eq_of_testBit_eq
  intro i
  replace hh := congrArg (·.testBit i) hh
  replace c1 := congrArg (·.testBit i) c1
  simp only [Nat.testBit_and, Nat.testBit_xor] at *
  generalize Nat.testBit h.flags i = a at *
  generalize Nat.testBit f i = b at *
  generalize Nat.testBit 0x87B0 i = e at *
  generalize Nat.testBit 0xFFFF i = m at *
  revert a b e m
  decide

/-- **Where they can differ.** For arbitrary flags and argument the two results agree on every
one of the seven named flag bits; any difference is confined to bits outside `ALLFLAGS`. -/
theorem removeFlags_agree_on_named_bits (h : Header) (f : Nat) :
    (h.removeFlags f).flags &&& Mask.ALLFLAGS = (removeFlagsBitflags h f).flags &&& Mask.ALLFLAGS := by
  unfold Header.removeFlags removeFlagsBitflags
  simp only [Mask.ALLFLAGS]
  have c1 : (0x87B0 : Nat) &&& 0xFFFF = 0x87B0 := by decide
  apply Nat.eq_of_testBit_eq
  intro i
  replace c1 := congrArg (·.testBit i) c1
  simp only [Nat.testBit_and, Nat.testBit_xor] at *
  generalize Nat.testBit h.flags i = a at *
  generalize Nat.testBit f i = b at *
  generalize Nat.testBit 0x87B0 i = e at *
  generalize Nat.testBit 0xFFFF i = m at *
  revert a b e m
  decide

/-- the divergence itself: a flags value with the (unnamed) Z bit 0x0040, which no entry point of
the crate produces. Removing the empty set clears the bit in the model and keeps it in
`bitflags`; removing 0x0040 keeps it in the model and clears it in `bitflags`. -/
example :
    let h : Header := { id := 0, opcode := .StandardQuery, rcode := .NoError, flags := 0x0040,
                        opt := none }
    (h.removeFlags 0).flags = 0 ∧ (removeFlagsBitflags h 0).flags = 0x0040 ∧
    (h.removeFlags 0x0040).flags = 0x0040 ∧ (removeFlagsBitflags h 0x0040).flags = 0 := by decide

/-- one `set_flags` / `remove_flags` call -/
inductive FlagOp where
  | set (f : Nat)
  | remove (f : Nat)
deriving DecidableEq, Repr

/-- the argument of a `set_flags` call is a `PacketFlag` value: a set of named flags (the
constants, their unions, `from_bits_truncate`). Nothing is asked of a `remove_flags` argument. -/
def FlagOp.Named : FlagOp → Prop
  | .set f => f &&& Mask.ALLFLAGS = f
  | .remove _ => True

instance (op : FlagOp) : Decidable op.Named := by cases op <;> unfold FlagOp.Named <;> infer_instance

/-- the model's semantics of one call -/
def applyOp (h : Header) : FlagOp → Header
  | .set f => h.setFlags f
  | .remove f => h.removeFlags f

/-- the crate's (`bitflags`) semantics of one call -/
def applyOpBitflags (h : Header) : FlagOp → Header
  | .set f => h.setFlags f
  | .remove f => removeFlagsBitflags h f

/-- a sequence of calls, left to right, in the model -/
def applyOps (h : Header) (ops : List FlagOp) : Header := ops.foldl applyOp h
/-- the same sequence with `bitflags`' `remove` -/
def applyOpsBitflags (h : Header) (ops : List FlagOp) : Header := ops.foldl applyOpBitflags h

/-- **Invariant.** From a header whose flags are named flags, any sequence of `set_flags` (with
`PacketFlag` arguments) and `remove_flags` (any argument) calls keeps the flags inside the named
flags, the model and `bitflags` compute the same header at every step, and id, opcode, response
code and EDNS data are never touched. -/
theorem flag_ops_invariant (ops : List FlagOp) : ∀ (h : Header),
    h.flags &&& Mask.ALLFLAGS = h.flags → (∀ op ∈ ops, op.Named) →
    (applyOps h ops).flags &&& Mask.ALLFLAGS = (applyOps h ops).flags ∧
    applyOps h ops = applyOpsBitflags h ops ∧
    (applyOps h ops).id = h.id ∧ (applyOps h ops).opcode = h.opcode ∧
    (applyOps h ops).rcode = h.rcode ∧ (applyOps h ops).opt = h.opt := by
  induction ops with
  | nil => intro h hh _; exact ⟨hh, rfl, rfl, rfl, rfl, rfl⟩
  | cons op ops ih =>
    intro h hh hn
    have hstep : (applyOp h op).flags &&& Mask.ALLFLAGS = (applyOp h op).flags ∧
        applyOp h op = applyOpBitflags h op ∧ (applyOp h op).id = h.id ∧
        (applyOp h op).opcode = h.opcode ∧ (applyOp h op).rcode = h.rcode ∧
        (applyOp h op).opt = h.opt := by
      cases op with
      | set f => exact ⟨setFlags_named h f hh (hn (.set f) (by simp)), rfl, rfl, rfl, rfl, rfl⟩
      | remove f =>
        exact ⟨removeFlags_named h f hh, removeFlags_eq_bitflags h f hh, rfl, rfl, rfl, rfl⟩
    obtain ⟨s1, s2, s3, s4, s5, s6⟩ := hstep
    obtain ⟨i1, i2, i3, i4, i5, i6⟩ := ih (applyOp h op) s1 (fun o ho => hn o (by simp [ho]))
    refine ⟨i1, ?_, i3.trans s3, i4.trans s4, i5.trans s5, i6.trans s6⟩
    show applyOps (applyOp h op) ops = applyOpsBitflags (applyOpBitflags h op) ops
    rw [← s2]; exact i2

/-- the written word after a sequence of edits: opcode and response-code fields as before -/
theorem flag_ops_word (ops : List FlagOp) (h : Header)
    (hh : h.flags &&& Mask.ALLFLAGS = h.flags) (hn : ∀ op ∈ ops, op.Named) :
    Spec.OPCODE (applyOps h ops).getFlags = Spec.OPCODE h.getFlags ∧
    Spec.RCODE (applyOps h ops).getFlags = Spec.RCODE h.getFlags ∧
    Spec.Z (applyOps h ops).getFlags = 0 ∧
    Spec.flagBits (applyOps h ops).getFlags = (applyOps h ops).flags := by
  obtain ⟨i1, _, _, i4, i5, _⟩ := flag_ops_invariant ops h hh hn
  obtain ⟨_, _, o0, r0, _⟩ := getFlags_fields h hh
  obtain ⟨_, z1, o1, r1, b1⟩ := getFlags_fields _ i1
  exact ⟨by rw [o1, o0, i4], by rw [r1, r0, i5], z1, b1⟩

/-- `Header::parse` produces named flags only (`from_bits_truncate`) -/
theorem parsed_header_named {d : Bytes} {h : Header} (hp : Header.parse d = .ok h) :
    h.flags &&& Mask.ALLFLAGS = h.flags := by
  unfold Header.parse at hp
  split at hp
  · cases hp
  · obtain ⟨fb, _, hp⟩ := Out.bind_eq_ok hp
    dsimp only at hp
    split at hp
    · cases hp
    · obtain ⟨ib, _, hp⟩ := Out.bind_eq_ok hp
      cases hp
      simp only [flagsTruncate, Nat.and_assoc, Nat.and_self]

/-- moving EDNS data into the header does not touch id, opcode or flags -/
theorem extractOpt_keeps {h0 h1 : Header} {o : Option RR} (h : h0.extractOpt o = .ok h1) :
    h1.id = h0.id ∧ h1.opcode = h0.opcode ∧ h1.flags = h0.flags ∧
    (o = none → h1 = h0) ∧ (o.isSome → h1.opt.isSome) := by
  cases o with
  | none =>
    simp only [Header.extractOpt, Out.ok.injEq] at h
    subst h
    exact ⟨rfl, rfl, rfl, fun _ => rfl, fun hn => (by cases hn)⟩
  | some r =>
    cases hr : r.rdata with
    | opt x =>
      simp only [Header.extractOpt, hr, Out.ok.injEq] at h
      subst h
      exact ⟨rfl, rfl, rfl, fun hn => (by cases hn), fun _ => rfl⟩
    | flat _ _ => simp [Header.extractOpt, hr] at h
    | ipseckey _ _ _ _ => simp [Header.extractOpt, hr] at h
    | null _ _ => simp [Header.extractOpt, hr] at h
    | empty _ => simp [Header.extractOpt, hr] at h

/-- `Packet::parse` produces named flags only -/
theorem parsed_packet_named {d : Bytes} {p : Packet} (hp : Packet.parse d = .ok p) :
    p.header.flags &&& Mask.ALLFLAGS = p.header.flags := by
  obtain ⟨_, _, _, _, _, _, _, _, h0, hh0, hx⟩ := parse_respects_framing hp
  rw [(extractOpt_keeps hx).2.2.1]
  exact parsed_header_named hh0

/-- **The invariant from every entry point.** Starting from a parsed packet's header, from
`Header::new_query` or from `Header::new_reply`, after any sequence of `set_flags` /
`remove_flags` calls the flags are named flags and the model agrees with `bitflags`. -/
theorem flag_ops_from_parsed {d : Bytes} {p : Packet} (hp : Packet.parse d = .ok p)
    (ops : List FlagOp) (hn : ∀ op ∈ ops, op.Named) :
    (applyOps p.header ops).flags &&& Mask.ALLFLAGS = (applyOps p.header ops).flags ∧
    applyOps p.header ops = applyOpsBitflags p.header ops :=
  let ⟨a, b, _⟩ := flag_ops_invariant ops p.header (parsed_packet_named hp) hn; ⟨a, b⟩

/-- the same from a header returned by `Header::parse` -/
theorem flag_ops_from_parsed_header {d : Bytes} {h : Header} (hp : Header.parse d = .ok h)
    (ops : List FlagOp) (hn : ∀ op ∈ ops, op.Named) :
    (applyOps h ops).flags &&& Mask.ALLFLAGS = (applyOps h ops).flags ∧
    applyOps h ops = applyOpsBitflags h ops :=
  let ⟨a, b, _⟩ := flag_ops_invariant ops h (parsed_header_named hp) hn; ⟨a, b⟩

/-- the same from `Header::new_query(id)` and `Header::new_reply(id, opcode)` -/
theorem flag_ops_from_new (id : Nat) (op : OPCODE) (ops : List FlagOp)
    (hn : ∀ o ∈ ops, o.Named) :
    ((applyOps (Header.newQuery id) ops).flags &&& Mask.ALLFLAGS
        = (applyOps (Header.newQuery id) ops).flags ∧
      applyOps (Header.newQuery id) ops = applyOpsBitflags (Header.newQuery id) ops) ∧
    ((applyOps (Header.newReply id op) ops).flags &&& Mask.ALLFLAGS
        = (applyOps (Header.newReply id op) ops).flags ∧
      applyOps (Header.newReply id op) ops = applyOpsBitflags (Header.newReply id op) ops) :=
  let ⟨a, b, _⟩ := flag_ops_invariant ops (Header.newQuery id) (by show 0 &&& Mask.ALLFLAGS = 0; decide) hn
  let ⟨c, d, _⟩ := flag_ops_invariant ops (Header.newReply id op) (by show 0x8000 &&& Mask.ALLFLAGS = 0x8000; decide) hn
  ⟨⟨a, b⟩, ⟨c, d⟩⟩

/-- a sequence with named `set` arguments: set RD|RA, remove RD, set AD -/
example : ∀ op ∈ [FlagOp.set 0x0180, .remove 0x0100, .set 0x0020], op.Named := by decide
example : (applyOps (Header.newReply 1 .StandardQuery)
    [FlagOp.set 0x0180, .remove 0x0100, .set 0x0020]).getFlags = 0x80A0 := by decide

/-! ## C08-1: the header layout, for the parsed packet -/

/-- `liftOpt` removes at most one record, and exactly one when it finds an OPT -/
theorem liftOpt_length (l : List RR) :
    (liftOpt l).2.length + (if (liftOpt l).1.isSome then 1 else 0) = l.length := by
  induction l with
  | nil => rfl
  | cons r rs ih =>
    simp only [liftOpt]
    split
    · simp
    · simp only [List.length_cons]
      omega

/-- what `extract_info_from_opt_rr` does to the response code: with an OPT record, the new code is
the 12-bit value made of one octet of the record's TTL (upper 8 bits) and the CODE of the header's
own response code (low bits) -/
theorem extractOpt_rcode {h0 h1 : Header} {o : Option RR} (h : h0.extractOpt o = .ok h1)
    (hc : h0.rcode.toCode < 16) (ho : h0.opt = none) :
    (h1.opt = none → h1.rcode = h0.rcode) ∧
    (h1.opt.isSome → ∃ ext, ext < 256 ∧
      h1.rcode = RCODE.ofCode (Spec.Rfc6891.fullRcode ext h0.rcode.toCode)) := by
  cases o with
  | none =>
    simp only [Header.extractOpt, Out.ok.injEq] at h
    subst h
    exact ⟨fun _ => rfl, fun hs => by rw [ho] at hs; cases hs⟩
  | some r =>
    cases hr : r.rdata with
    | opt x =>
      simp only [Header.extractOpt, hr, Out.ok.injEq] at h
      subst h
      refine ⟨fun hn => (by cases hn), fun _ => ⟨r.ttl % 256, Nat.mod_lt _ (by decide), ?_⟩⟩
      exact (extractRcode_eq r.ttl h0 hc).1
    | flat _ _ => simp [Header.extractOpt, hr] at h
    | ipseckey _ _ _ _ => simp [Header.extractOpt, hr] at h
    | null _ _ => simp [Header.extractOpt, hr] at h
    | empty _ => simp [Header.extractOpt, hr] at h

/-- **Layout of the header, on the parsed packet.** If `Packet::parse` accepts a message whose
first twelve bytes are the six 16-bit fields ID, flags word `w`, QDCOUNT, ANCOUNT, NSCOUNT,
ARCOUNT, then: the Z bit of `w` is clear; the packet's id is ID; its flags are exactly the seven
RFC flag bits of `w`; its opcode is the one denoted by bits 11–14; without EDNS data its response
code is the one denoted by the low four bits (with EDNS data, those four bits are the low part of
the extended code); and the four sections have QDCOUNT, ANCOUNT, NSCOUNT and — counting the OPT
record that was moved into the header — ARCOUNT entries. -/
theorem packet_header_layout (id w qd an ns ar : Nat) (body : Bytes) (p : Packet)
    (hid : id < 65536) (hw : w < 65536) (hqd : qd < 65536) (han : an < 65536)
    (hns : ns < 65536) (har : ar < 65536)
    (h : Packet.parse (hdrBytes id w qd an ns ar ++ body) = .ok p) :
    Spec.Z w = 0 ∧ p.header.id = id ∧ p.header.flags = Spec.flagBits w ∧
    p.header.opcode = OPCODE.ofCode (Spec.OPCODE w) ∧
    (p.header.opt = none → p.header.rcode = RCODE.ofCode (Spec.RCODE w)) ∧
    (p.header.opt.isSome → ∃ ext, ext < 256 ∧ p.header.rcode =
      RCODE.ofCode (Spec.Rfc6891.fullRcode ext (RCODE.ofCode (Spec.RCODE w)).toCode)) ∧
    p.questions.length = qd ∧ p.answers.length = an ∧ p.nameServers.length = ns ∧
    p.additional.length + (if p.header.opt.isSome then 1 else 0) = ar := by
  obtain ⟨_, k1, k2, k3, k4, _⟩ := peek_agrees id w qd an ns ar body hid hw hqd han hns har
  have hd : hdrBytes id w qd an ns ar ++ body = beN 2 id ++ (beN 2 w ++
      (beN 2 qd ++ (beN 2 an ++ (beN 2 ns ++ (beN 2 ar ++ body))))) := by
    simp [hdrBytes]
  generalize hdrBytes id w qd an ns ar ++ body = d at *
  unfold Packet.parse at h
  obtain ⟨h0, hh0, h⟩ := Out.bind_eq_ok h
  obtain ⟨qd', hqd', h⟩ := Out.bind_eq_ok h
  obtain ⟨⟨qs, p1⟩, hqs, h⟩ := Out.bind_eq_ok h
  dsimp only at h
  obtain ⟨an', han', h⟩ := Out.bind_eq_ok h
  obtain ⟨⟨as, p2⟩, has, h⟩ := Out.bind_eq_ok h
  dsimp only at h
  obtain ⟨ns', hns', h⟩ := Out.bind_eq_ok h
  obtain ⟨⟨nss, p3⟩, hnss, h⟩ := Out.bind_eq_ok h
  dsimp only at h
  obtain ⟨ar', har', h⟩ := Out.bind_eq_ok h
  obtain ⟨⟨all, p4⟩, hall, h⟩ := Out.bind_eq_ok h
  dsimp only at h
  obtain ⟨h1, hh1, h⟩ := Out.bind_eq_ok h
  cases h
  simp only
  rw [k1] at hqd'; rw [k2] at han'; rw [k3] at hns'; rw [k4] at har'
  cases hqd'; cases han'; cases hns'; cases har'
  obtain ⟨_, _, lq, _, _⟩ := Framing.parseQuestions_frame hqs
  obtain ⟨_, _, la, _, _⟩ := Framing.parseRRs_frame has
  obtain ⟨_, _, ln, _, _⟩ := Framing.parseRRs_frame hnss
  obtain ⟨_, _, lr, _, _⟩ := Framing.parseRRs_frame hall
  -- the Z bit
  have hz : Spec.Z w = 0 := by
    have hlt : Spec.Z w < 2 := by unfold Spec.Z; omega
    rcases Nat.lt_or_ge (Spec.Z w) 1 with hz | hz
    · omega
    · have hz1 : Spec.Z w = 1 := by omega
      rw [hd, z_rejected id w _ hid hw (by simp; omega) hz1] at hh0
      cases hh0
  rw [hd, header_layout id w _ hid hw (by simp; omega) hz] at hh0
  cases hh0
  obtain ⟨e1, e2, e3, e4, e5⟩ := extractOpt_keeps hh1
  have hc : (RCODE.ofCode (Spec.RCODE w)).toCode < 16 := by
    have := parsed_rcode_lt w
    rwa [(wordOK w hw).2.2.1] at this
  obtain ⟨r1, r2⟩ := extractOpt_rcode hh1 hc rfl
  refine ⟨hz, e1, e3, e2, r1, r2, lq, la, ln, ?_⟩
  rw [← lr, ← liftOpt_length all]
  cases ho : (liftOpt all).1 with
  | none => rw [e4 ho]; simp
  | some r => have := e5 (by rw [ho]; rfl); simp [this]

/-- **Z is rejected by `Packet::parse`** (not only by `Header::parse`): a message whose flags word
has the reserved bit set is refused with an error, whatever its counts and whatever follows. -/
theorem packet_z_rejected (id w qd an ns ar : Nat) (body : Bytes) (hid : id < 65536)
    (hw : w < 65536) (hz : Spec.Z w = 1) :
    Packet.parse (hdrBytes id w qd an ns ar ++ body) = .err := by
  have hd : hdrBytes id w qd an ns ar ++ body = beN 2 id ++ (beN 2 w ++
      (beN 2 qd ++ (beN 2 an ++ (beN 2 ns ++ (beN 2 ar ++ body))))) := by
    simp [hdrBytes]
  unfold Packet.parse
  rw [hd, z_rejected id w _ hid hw (by simp; omega) hz]
  rfl

example : Spec.Z 0x0140 = 1 := by decide
example : Packet.parse (hdrBytes 7 0x0140 0 0 0 0 ++ []) = .err :=
  packet_z_rejected _ _ _ _ _ _ _ (by omega) (by omega) (by decide)

/-- two leading bytes are a 16-bit big-endian field -/
theorem split_u16 (d : Bytes) (h : 2 ≤ d.length) :
    ∃ v rest, v < 65536 ∧ d = beN 2 v ++ rest ∧ rest.length + 2 = d.length := by
  match d, h with
  | a :: b :: rest, _ =>
    refine ⟨deN [a, b], rest, (by have := deN_lt [a, b]; simpa using this), ?_, by simp⟩
    have := beN_deN [a, b]
    simp only [List.length_cons, List.length_nil] at this
    rw [this]; rfl

/-- every message of at least twelve bytes starts with six 16-bit fields -/
theorem split_header (d : Bytes) (h : 12 ≤ d.length) :
    ∃ id w qd an ns ar body, id < 65536 ∧ w < 65536 ∧ qd < 65536 ∧ an < 65536 ∧ ns < 65536 ∧
      ar < 65536 ∧ d = hdrBytes id w qd an ns ar ++ body := by
  obtain ⟨id, r1, h1, e1, l1⟩ := split_u16 d (by omega)
  obtain ⟨w, r2, h2, e2, l2⟩ := split_u16 r1 (by omega)
  obtain ⟨qd, r3, h3, e3, l3⟩ := split_u16 r2 (by omega)
  obtain ⟨an, r4, h4, e4, l4⟩ := split_u16 r3 (by omega)
  obtain ⟨ns, r5, h5, e5, l5⟩ := split_u16 r4 (by omega)
  obtain ⟨ar, r6, h6, e6, l6⟩ := split_u16 r5 (by omega)
  refine ⟨id, w, qd, an, ns, ar, r6, h1, h2, h3, h4, h5, h6, ?_⟩
  rw [e1, e2, e3, e4, e5, e6]
  simp [hdrBytes]

/-- a message accepted by `Header::parse` has at least twelve bytes -/
theorem header_parse_len {d : Bytes} {h : Header} (hp : Header.parse d = .ok h) :
    12 ≤ d.length := by
  unfold Header.parse at hp
  split at hp
  · cases hp
  · omega

/-- the RFC's view of the twelve header bytes of any message: the six big-endian fields read by
the independent walker's `Spec.field` -/
theorem hdrBytes_fields (id w qd an ns ar : Nat) (body : Bytes) (hid : id < 65536)
    (hw : w < 65536) (hqd : qd < 65536) (han : an < 65536) (hns : ns < 65536)
    (har : ar < 65536) :
    let d := hdrBytes id w qd an ns ar ++ body
    Spec.field d 0 2 = some id ∧ Spec.field d 2 2 = some w ∧ Spec.field d 4 2 = some qd ∧
    Spec.field d 6 2 = some an ∧ Spec.field d 8 2 = some ns ∧ Spec.field d 10 2 = some ar := by
  obtain ⟨k0, k1, k2, k3, k4, _⟩ := peek_agrees id w qd an ns ar body hid hw hqd han hns har
  have e2 := peekU16_bytes (beN 2 id) w
    (beN 2 qd ++ (beN 2 an ++ (beN 2 ns ++ (beN 2 ar ++ body)))) hw
  simp only [beN_length] at e2
  have hd : hdrBytes id w qd an ns ar ++ body = beN 2 id ++ (beN 2 w ++
      (beN 2 qd ++ (beN 2 an ++ (beN 2 ns ++ (beN 2 ar ++ body))))) := by
    simp [hdrBytes]
  rw [← hd] at e2
  exact ⟨Framing.field_of_peekU16 k0, Framing.field_of_peekU16 e2, Framing.field_of_peekU16 k1,
    Framing.field_of_peekU16 k2, Framing.field_of_peekU16 k3, Framing.field_of_peekU16 k4⟩

/-- **The same for ANY accepted message**, with the header fields read by the independent walker
(`Spec.field d off 2` = the big-endian 16-bit field at `off`): the message has its six header
fields, and the parsed packet reports them as in `packet_header_layout`. -/
theorem packet_header_layout_any {d : Bytes} {p : Packet} (h : Packet.parse d = .ok p) :
    ∃ id w qd an ns ar, Spec.field d 0 2 = some id ∧ Spec.field d 2 2 = some w ∧
      Spec.field d 4 2 = some qd ∧ Spec.field d 6 2 = some an ∧ Spec.field d 8 2 = some ns ∧
      Spec.field d 10 2 = some ar ∧
      Spec.Z w = 0 ∧ p.header.id = id ∧ p.header.flags = Spec.flagBits w ∧
      p.header.opcode = OPCODE.ofCode (Spec.OPCODE w) ∧
      (p.header.opt = none → p.header.rcode = RCODE.ofCode (Spec.RCODE w)) ∧
      (p.header.opt.isSome → ∃ ext, ext < 256 ∧ p.header.rcode =
        RCODE.ofCode (Spec.Rfc6891.fullRcode ext (RCODE.ofCode (Spec.RCODE w)).toCode)) ∧
      p.questions.length = qd ∧ p.answers.length = an ∧ p.nameServers.length = ns ∧
      p.additional.length + (if p.header.opt.isSome then 1 else 0) = ar := by
  have h12 : 12 ≤ d.length := by
    obtain ⟨_, _, _, _, _, _, _, _, h0, hh0, _⟩ := parse_respects_framing h
    exact header_parse_len hh0
  obtain ⟨id, w, qd, an, ns, ar, body, h1, h2, h3, h4, h5, h6, rfl⟩ := split_header d h12
  obtain ⟨f0, f1, f2, f3, f4, f5⟩ := hdrBytes_fields id w qd an ns ar body h1 h2 h3 h4 h5 h6
  exact ⟨id, w, qd, an, ns, ar, f0, f1, f2, f3, f4, f5,
    packet_header_layout id w qd an ns ar body p h1 h2 h3 h4 h5 h6 h⟩

/-- **Z is rejected, for any message**: if the 16-bit field at offset 2 has the reserved bit set,
`Packet::parse` returns an error (a message shorter than twelve bytes is an error as well). -/
theorem packet_z_rejected_any (d : Bytes) (w : Nat) (hf : Spec.field d 2 2 = some w)
    (hz : Spec.Z w = 1) : Packet.parse d = .err := by
  cases hp : Packet.parse d with
  | err => rfl
  | panic => exact absurd hp (parse_no_panic d)
  | ok p =>
    obtain ⟨_, w', _, _, _, _, _, f1, _, _, _, _, z, _⟩ := packet_header_layout_any hp
    rw [hf] at f1
    cases f1
    omega

/-- the hypotheses of `packet_header_layout` hold for the example message of Props/C05.lean
(flags word 0x0100 = RD, one question, one answer) -/
example : c05Msg = hdrBytes 0x1234 0x0100 1 1 0 0 ++ c05Msg.drop 12 := by decide
example : ∃ p, Packet.parse (hdrBytes 0x1234 0x0100 1 1 0 0 ++ c05Msg.drop 12) = .ok p := by
  rw [← show c05Msg = hdrBytes 0x1234 0x0100 1 1 0 0 ++ c05Msg.drop 12 by decide]
  exact ⟨_, c05Msg_parse⟩

open Spec.Rfc6891
open Framing (Corr RecOK)

/-! ## C09: the OPT pseudo-record, for both writers -/

/-- The sections of a built message and how they parse back, for the plain (`c = false`) and the
compressing (`c = true`) writer: the bytes of each section writer in the order of
`Packet::write_to` / `write_compressed_to`, and the model's section parsers run over the finished
message `b` from the offsets where the sections start. -/
theorem built_sections (c : Bool) (p : Packet) (hwf : p.WF) :
    ∃ (qs : Bytes × Table) (an : Bytes) (t1 : Table) (ns : Bytes) (t2 : Table) (ob ar : Bytes)
      (t3 : Table) (b : Bytes),
      writeQuestionsG c p.questions 12 [] = qs ∧
      writeRRsG c p.answers (12 + qs.1.length) qs.2 = .ok (an, t1) ∧
      writeRRsG c p.nameServers (12 + qs.1.length + an.length) t1 = .ok (ns, t2) ∧
      writeRRs p.header.optRR.toList = .ok ob ∧
      writeRRsG c p.additional (12 + qs.1.length + an.length + ns.length + ob.length) t2
        = .ok (ar, t3) ∧
      b = p.writeHeader ++ (qs.1 ++ (an ++ (ns ++ (ob ++ ar)))) ∧
      p.buildG c = .ok b ∧ p.writeHeader.length = 12 ∧
      Peek.questions b = .ok p.questions.length ∧ Peek.answers b = .ok p.answers.length ∧
      Peek.nameServers b = .ok p.nameServers.length ∧
      Peek.additional b = .ok (p.header.optRR.toList.length + p.additional.length) ∧
      parseQuestions b p.questions.length 12 = .ok (p.questions, 12 + qs.1.length) ∧
      parseRRs b p.answers.length (12 + qs.1.length)
        = .ok (p.answers, 12 + qs.1.length + an.length) ∧
      parseRRs b p.nameServers.length (12 + qs.1.length + an.length)
        = .ok (p.nameServers, 12 + qs.1.length + an.length + ns.length) ∧
      parseRRs b (p.header.optRR.toList.length + p.additional.length)
          (12 + qs.1.length + an.length + ns.length)
        = .ok (p.header.optRR.toList ++ p.additional, b.length) := by
  obtain ⟨qs, an, t1, ns, t2, ob, ar, t3, w1, w2, w3, w4, w5, hbuild, hhl, hQ, hAN, hNS, hO, hAR⟩ :=
    Wr.buildG_sections c p hwf
  obtain ⟨hH, hqd, han, hns, har, _⟩ := hwf
  obtain ⟨hid, hfl, _⟩ := hH
  have hcnt : p.additional.length % 65536 + (if p.header.opt.isSome then 1 else 0)
      = p.header.optRR.toList.length + p.additional.length := by
    have : p.additional.length % 65536 = p.additional.length := Nat.mod_eq_of_lt (by omega)
    rw [this, Wr.optRR_length]; omega
  obtain ⟨hhp, hgf⟩ := header_parse_built p.header p.questions.length p.answers.length
    p.nameServers.length (p.additional.length % 65536 + (if p.header.opt.isSome then 1 else 0))
    (qs.1 ++ (an ++ (ns ++ (ob ++ ar)))) hid hfl
  obtain ⟨hp1, hp2, hp3, hp4⟩ := peek_built p.header p.questions.length p.answers.length
    p.nameServers.length (p.additional.length % 65536 + (if p.header.opt.isSome then 1 else 0))
    (qs.1 ++ (an ++ (ns ++ (ob ++ ar)))) hid hgf (by omega) (by omega) (by omega)
    (by have : p.additional.length % 65536 ≤ p.additional.length := Nat.mod_le _ _
        omega)
  have e1 := hQ.dec (an ++ (ns ++ (ob ++ ar)))
  have e2 := hAN.dec (ns ++ (ob ++ ar))
  have e3 := hNS.dec (ob ++ ar)
  have e4 := hO.dec ar
  have e5 := hAR.dec []
  simp only [List.append_assoc, List.length_append, List.append_nil, hhl, Nat.add_assoc] at e1 e2 e3 e4 e5
  have e45 := parseRRs_append _ _ _ _ _ _ _ _ e4 e5
  refine ⟨qs, an, t1, ns, t2, ob, ar, t3, _, w1, w2, w3, w4, w5, rfl, hbuild, hhl, ?_, ?_, ?_, ?_,
    ?_, ?_, ?_, ?_⟩
  · exact hp1
  · exact hp2
  · exact hp3
  · rw [← hcnt]; exact hp4
  · simpa [Packet.writeHeader, Nat.add_assoc] using e1
  · simpa [Packet.writeHeader, Nat.add_assoc] using e2
  · simpa [Packet.writeHeader, Nat.add_assoc] using e3
  · simp only [List.length_append, hhl]
    simpa [Packet.writeHeader, Nat.add_assoc] using e45

/-- the OPT pseudo-record of a header with EDNS data -/
theorem optRR_toList {h : Header} {o : OptData} (ho : h.opt = some o) :
    h.optRR.toList =
      [{ name := [], cls := .IN, ttl := encodeTtl o h, rdata := .opt o, flush := false }] := by
  simp [Header.optRR, ho]

/-- **C09-1. The OPT record in the output of either writer** — `c = false` is `Packet::write_to`,
`c = true` is `Packet::write_compressed_to`. For a well-formed packet with EDNS data the message
is: header, questions, answers, authority records, then the OPT pseudo-record, then the other
additional records. The OPT bytes are `optRecordBytes o p.header` for both writers (the record is
never compressed and does not depend on `c`); it is counted in ARCOUNT; the flags word carries
the low 4 bits of the response code. Reading back, the authority section ends exactly where the
OPT record starts, and the additional section read from there is the OPT record followed by
`p.additional`, ending at the end of the message. "Partial" as in Props/C09.lean: the TTL word is
the library's byte-swapped one (`optTtl_is_byteswapped`). -/
theorem opt_record_layout_G_partial (c : Bool) {p : Packet} {o : OptData} (hwf : p.WF)
    (ho : p.header.opt = some o) :
    ∃ (qs : Bytes × Table) (an : Bytes) (t1 : Table) (ns : Bytes) (t2 : Table) (ar : Bytes)
      (t3 : Table) (b : Bytes),
      writeQuestionsG c p.questions 12 [] = qs ∧
      writeRRsG c p.answers (12 + qs.1.length) qs.2 = .ok (an, t1) ∧
      writeRRsG c p.nameServers (12 + qs.1.length + an.length) t1 = .ok (ns, t2) ∧
      writeRRsG c p.additional
        (12 + qs.1.length + an.length + ns.length + (optRecordBytes o p.header).length) t2
        = .ok (ar, t3) ∧
      b = p.writeHeader ++ (qs.1 ++ (an ++ (ns ++ (optRecordBytes o p.header ++ ar)))) ∧
      p.buildG c = .ok b ∧
      p.writeHeader = beN 2 p.header.id ++ (beN 2 p.header.getFlags ++
        (beN 2 p.questions.length ++ (beN 2 p.answers.length ++
          (beN 2 p.nameServers.length ++ beN 2 (p.additional.length + 1))))) ∧
      p.additional.length + 1 < 65536 ∧
      p.header.getFlags % 16 = headerRcode p.header.rcode.toCode ∧
      (encodeOptions o.codes).length < 65536 ∧
      parseRRs b p.nameServers.length (12 + qs.1.length + an.length)
        = .ok (p.nameServers, 12 + qs.1.length + an.length + ns.length) ∧
      parseRRs b (p.additional.length + 1) (12 + qs.1.length + an.length + ns.length)
        = .ok ({ name := [], cls := .IN, ttl := encodeTtl o p.header, rdata := .opt o,
                 flush := false } :: p.additional, b.length) := by
  obtain ⟨_, _, _, _, _, _, _, hhdr, hlt, hnib, hlen⟩ := opt_record_layout_partial hwf ho
  obtain ⟨qs, an, t1, ns, t2, ob, ar, t3, b, w1, w2, w3, w4, w5, hb, hbuild, _, _, _, _, _, _, _,
    e3, e45⟩ := built_sections c p hwf
  rw [optRR_write o p.header ho] at w4
  cases w4
  rw [optRR_toList ho] at e45
  refine ⟨qs, an, t1, ns, t2, ar, t3, b, w1, w2, w3, w5, hb, hbuild, hhdr, hlt, hnib, hlen, e3, ?_⟩
  simpa [Nat.add_comm] using e45

/-- the compressing writer, `Packet::build_bytes_vec_compressed` -/
theorem opt_record_layout_compressed_partial {p : Packet} {o : OptData} (hwf : p.WF)
    (ho : p.header.opt = some o) :
    ∃ (qs an ns ar : Bytes),
      p.buildCompressed = .ok (p.writeHeader ++ (qs ++ (an ++ (ns ++
        (optRecordBytes o p.header ++ ar))))) ∧
      qs = (writeQuestionsG true p.questions 12 []).1 ∧
      (∃ t t1, writeRRsG true p.answers (12 + qs.length) t = .ok (an, t1)) ∧
      (∃ t t1, writeRRsG true p.nameServers (12 + qs.length + an.length) t = .ok (ns, t1)) ∧
      (∃ t t1, writeRRsG true p.additional
        (12 + qs.length + an.length + ns.length + (optRecordBytes o p.header).length) t
          = .ok (ar, t1)) ∧
      p.writeHeader = beN 2 p.header.id ++ (beN 2 p.header.getFlags ++
        (beN 2 p.questions.length ++ (beN 2 p.answers.length ++
          (beN 2 p.nameServers.length ++ beN 2 (p.additional.length + 1))))) ∧
      p.additional.length + 1 < 65536 ∧
      p.header.getFlags % 16 = headerRcode p.header.rcode.toCode ∧
      (encodeOptions o.codes).length < 65536 := by
  obtain ⟨qs, an, t1, ns, t2, ar, t3, b, w1, w2, w3, w5, hb, hbuild, hhdr, hlt, hnib, hlen, _, _⟩ :=
    opt_record_layout_G_partial true hwf ho
  subst hb
  exact ⟨qs.1, an, ns, ar, hbuild, by rw [w1], ⟨_, _, w2⟩, ⟨_, _, w3⟩, ⟨_, _, w5⟩, hhdr, hlt, hnib,
    hlen⟩

/-- the OPT record is byte-for-byte the same in the outputs of the two writers, and sits at the
end of the authority section in both -/
theorem opt_record_same_in_both_writers {p : Packet} {o : OptData} (hwf : p.WF)
    (ho : p.header.opt = some o) :
    ∃ pre1 post1 pre2 post2,
      p.build = .ok (pre1 ++ (optRecordBytes o p.header ++ post1)) ∧
      p.buildCompressed = .ok (pre2 ++ (optRecordBytes o p.header ++ post2)) ∧
      (∃ n1, parseRRs (pre1 ++ (optRecordBytes o p.header ++ post1)) p.nameServers.length n1
        = .ok (p.nameServers, pre1.length)) ∧
      (∃ n2, parseRRs (pre2 ++ (optRecordBytes o p.header ++ post2)) p.nameServers.length n2
        = .ok (p.nameServers, pre2.length)) := by
  obtain ⟨qs, an, t1, ns, t2, ar, t3, b, _, _, _, _, hb, hbuild, hhdr, _, _, _, e3, _⟩ :=
    opt_record_layout_G_partial false hwf ho
  obtain ⟨qs', an', t1', ns', t2', ar', t3', b', _, _, _, _, hb', hbuild', _, _, _, _, e3', _⟩ :=
    opt_record_layout_G_partial true hwf ho
  have hhl : p.writeHeader.length = 12 := by simp [Packet.writeHeader, Header.write]
  refine ⟨p.writeHeader ++ (qs.1 ++ (an ++ ns)), ar, p.writeHeader ++ (qs'.1 ++ (an' ++ ns')), ar',
    ?_, ?_, ⟨12 + qs.1.length + an.length, ?_⟩, ⟨12 + qs'.1.length + an'.length, ?_⟩⟩
  · rw [← buildG_false, hbuild, hb]; simp
  · show p.buildG true = _
    rw [hbuild', hb']; simp
  · have : p.writeHeader ++ (qs.1 ++ (an ++ ns)) ++ (optRecordBytes o p.header ++ ar) = b := by
      rw [hb]; simp
    rw [this, e3]; simp [hhl, Nat.add_assoc]
  · have : p.writeHeader ++ (qs'.1 ++ (an' ++ ns')) ++ (optRecordBytes o p.header ++ ar') = b' := by
      rw [hb']; simp
    rw [this, e3']; simp [hhl, Nat.add_assoc]

example : c09Packet.WF ∧ c09Packet.header.opt =
    some { udp := 1232, version := 3, codes := [(10, [1, 2, 3, 4, 5, 6, 7, 8])] } := by decide
example : c09Packet.buildCompressed = .ok c09Bytes := by decide

/-! ### C09-3: exactly one OPT entry, first in the additional section -/

/-- TYPE 41 is OPT and nothing else is -/
theorem ofCode_OPT_iff (t : Nat) : TYPE.ofCode t = .OPT ↔ t = 41 :=
  ⟨Rfc.ofCode_eq_OPT, fun h => by subst h; rfl⟩

/-- **Exactly one OPT.** Let `p` be well-formed with EDNS data `o` and no OPT-typed record in its
`additional` field, `b` the output of either writer and `w` the RFC 1035 walk of `b`
(Spec/Envelope.lean). Then the walked additional section is `e :: rest` where `e` — index 0 — has
TYPE 41 and no entry of `rest` has; its length is the ARCOUNT field of the message (and
`p.additional.length + 1`). Moreover `e` IS the OPT pseudo-record of `opt_record_layout`: it
starts where the walk of the authority section stops, its bytes are `optRecordBytes o p.header`
(root owner name: `nameEnd = off + 1`), its CLASS field is the UDP size, its TTL the library's TTL
word, and its RDLENGTH the length of RFC 6891's option encoding. -/
theorem exactly_one_opt (c : Bool) {p : Packet} {o : OptData} (hwf : p.WF)
    (ho : p.header.opt = some o) (hno : ∀ r ∈ p.additional, r.rdata.typeOf ≠ .OPT)
    {b : Bytes} {w : Spec.Walk} (hb : p.buildG c = .ok b) (hw : Spec.walk b = some w) :
    ∃ e rest, w.additional = e :: rest ∧ e.type = 41 ∧ (∀ x ∈ rest, x.type ≠ 41) ∧
      Spec.field b 10 2 = some w.additional.length ∧
      w.additional.length = p.additional.length + 1 ∧
      e.cls = o.udp ∧ e.ttl = encodeTtl o p.header ∧ e.nameEnd = e.off + 1 ∧
      e.rdlen = (encodeOptions o.codes).length ∧
      (∃ pre post, b = pre ++ (optRecordBytes o p.header ++ post) ∧ pre.length = e.off) ∧
      (∃ p2, Spec.walkRecords b p.nameServers.length p2 = some (w.nameServers, e.off)) := by
  obtain ⟨qs, an, t1, ns, t2, ob, ar, t3, b', _, _, _, w4, _, hb', hbuild, hhl, k1, k2, k3, k4,
    e1, e2, e3, e45⟩ := built_sections c p hwf
  rw [hbuild] at hb
  cases hb
  rw [optRR_write o p.header ho] at w4
  cases w4
  rw [optRR_toList ho] at e45 k4
  replace e45 : parseRRs b (p.additional.length + 1) (12 + qs.1.length + an.length + ns.length)
      = .ok ({ name := [], cls := .IN, ttl := encodeTtl o p.header, rdata := .opt o,
               flush := false } :: p.additional, b.length) := by
    simpa [Nat.add_comm] using e45
  replace k4 : Peek.additional b = .ok (p.additional.length + 1) := by
    simpa [Nat.add_comm] using k4
  obtain ⟨eq, heq, _, _, _⟩ := Framing.parseQuestions_frame e1
  obtain ⟨ea, hea, _, _, _⟩ := Framing.parseRRs_frame e2
  obtain ⟨en, hen, _, _, _⟩ := Framing.parseRRs_frame e3
  obtain ⟨er, her, _, ler, cr⟩ := Framing.parseRRs_frame e45
  have co := Rfc.parseRRs_optOK e45 her
  have hwalk : Spec.walk b = some
      { questions := eq, answers := ea, nameServers := en, additional := er, stop := b.length } := by
    unfold Spec.walk
    simp [Framing.field_of_peekU16 k1, Framing.field_of_peekU16 k2,
      Framing.field_of_peekU16 k3, Framing.field_of_peekU16 k4, heq, hea, hen, her]
  rw [hwalk] at hw
  cases hw
  simp only
  -- the first entry and the others
  cases cr with
  | cons hre crest =>
    rename_i e rest
    cases co with
    | cons hoe _ =>
      obtain ⟨_, httl, hty, _⟩ := hre
      obtain ⟨h41, _, _, hudp, _, hbytes, _⟩ := hoe o rfl
      -- the walked entry itself
      have hwr : Spec.walkRecord b (12 + qs.1.length + an.length + ns.length) = some e := by
        simp only [Spec.walkRecords, Option.bind_eq_bind, Option.bind_eq_some_iff] at her
        obtain ⟨e', he', _, _, hpair⟩ := her
        simp only [Option.pure_def, Option.some.injEq, Prod.mk.injEq, List.cons.injEq] at hpair
        rw [← hpair.1.1]; exact he'
      obtain ⟨hoff, hskip, _, _, _, _, hfit⟩ := Rfc.walkRecord_fields hwr
      have hpre : b = (p.writeHeader ++ (qs.1 ++ (an ++ ns))) ++ (optRecordBytes o p.header ++ ar) := by
        rw [hb']; simp
      have hprelen : (p.writeHeader ++ (qs.1 ++ (an ++ ns))).length = e.off := by
        rw [hoff]; simp [hhl, Nat.add_assoc]
      have hne : e.nameEnd = e.off + 1 := by
        have h0 : b[e.off]? = some 0 := by
          rw [hpre, ← hprelen, List.getElem?_append_right (Nat.le_refl _)]
          simp [optRecordBytes]
        rw [← hoff] at hskip
        simp only [Spec.skipName, h0, if_true] at hskip
        exact (Option.some.inj hskip).symm
      have hrd : e.rdlen = (encodeOptions o.codes).length := by
        have := congrArg List.length hbytes
        simp only [List.length_take, List.length_drop, Spec.REntry.rdStart] at this
        omega
      refine ⟨e, rest, rfl, h41, ?_, ?_, ?_, hudp.symm, httl.symm, hne, hrd,
        ⟨_, _, hpre, hprelen⟩, ⟨_, by rw [hoff]; exact hen⟩⟩
      · intro x hx h41x
        -- every entry of `rest` is matched by a record of `p.additional`, of the same type
        have key : ∀ (rs : List RR) (es : List Spec.REntry), Corr (RecOK b) rs es →
            (∀ r ∈ rs, r.rdata.typeOf ≠ .OPT) → ∀ y ∈ es, y.type ≠ 41 := by
          intro rs es hc
          induction hc with
          | nil => intro _ y hy; cases hy
          | cons hab _ ih =>
            intro hr y hy
            rcases List.mem_cons.mp hy with rfl | hy
            · intro hy41
              exact hr _ List.mem_cons_self (by rw [hab.2.2.1, hy41]; rfl)
            · exact ih (fun r hr' => hr r (by simp [hr'])) y hy
        exact key _ _ crest hno x hx h41x
      · have hl : rest.length = p.additional.length := by simpa using ler
        simp [Framing.field_of_peekU16 k4, hl]
      · simpa using ler

/-- "exactly one" as a count, and "at index 0" as an index -/
theorem exactly_one_opt_count (c : Bool) {p : Packet} {o : OptData} (hwf : p.WF)
    (ho : p.header.opt = some o) (hno : ∀ r ∈ p.additional, r.rdata.typeOf ≠ .OPT)
    {b : Bytes} {w : Spec.Walk} (hb : p.buildG c = .ok b) (hw : Spec.walk b = some w) :
    (w.additional.filter (fun e => e.type == 41)).length = 1 ∧
    (w.additional[0]?.map (·.type)) = some 41 ∧
    (∀ i, 0 < i → (w.additional[i]?.map (·.type)) ≠ some 41) ∧
    Spec.field b 10 2 = some w.additional.length := by
  obtain ⟨e, rest, hsplit, h41, hrest, hcnt, _⟩ := exactly_one_opt c hwf ho hno hb hw
  rw [hsplit] at hcnt ⊢
  refine ⟨?_, by simp [h41], ?_, hcnt⟩
  · have : rest.filter (fun e => e.type == 41) = [] := by
      rw [List.filter_eq_nil_iff]
      intro x hx
      simpa using hrest x hx
    simp [h41, this]
  · intro i hi
    cases i with
    | zero => omega
    | succ i =>
      simp only [List.getElem?_cons_succ]
      cases hri : rest[i]? with
      | none => simp
      | some x => simpa using hrest x (List.mem_of_getElem? hri)

/-- both hypotheses hold for the example packet of Props/C09.lean, for both writers -/
example : c09Packet.WF ∧ (∀ r ∈ c09Packet.additional, r.rdata.typeOf ≠ .OPT) ∧
    c09Packet.buildG false = .ok c09Bytes ∧ c09Packet.buildG true = .ok c09Bytes := by decide

/-- without the hypothesis on `additional` the claim fails (the counterexample of Props/C09.lean,
walked): a well-formed packet with an OPT-typed record in `additional` is written with two
TYPE-41 entries -/
example :
    let o : OptData := { udp := 512, version := 0, codes := [] }
    let p : Packet :=
      { header := { id := 0, opcode := .StandardQuery, rcode := .NoError, flags := 0,
                    opt := some o },
        questions := [], answers := [], nameServers := [],
        additional := [{ name := [], cls := .IN, ttl := 0, rdata := .opt o, flush := false }] }
    p.WF ∧ ∀ c, ((p.buildG c).bind fun b => match Spec.walk b with
      | some w => .ok (w.additional.map (·.type))
      | none => .err) = .ok [41, 41] := by decide

/-! ### C09-2: without EDNS data only four bits of the response code travel -/

/-- the packet with its response code replaced (`header.response_code` is a public field; also
`Packet::rcode_mut`) -/
def withRcode (p : Packet) (r : RCODE) : Packet := { p with header := { p.header with rcode := r } }

/-- the written flags word only depends on the low four bits of the response code -/
theorem getFlags_rcode_nibble (h : Header) (r : RCODE) :
    ({ h with rcode := r } : Header).getFlags
      = ({ h with rcode := RCODE.ofCode (r.toCode % 16) } : Header).getFlags := by
  unfold Header.getFlags
  simp only
  congr 1
  cases r <;> decide

/-- **Truncated response code.** A packet without EDNS data (otherwise well-formed) whose response
code is set to ANY `r` is written by either writer without error, and parsing the bytes gives the
same packet except that the response code is the one denoted by the low four bits of `r`. For
every named code below 16 that is `r` itself; BADVERS (16) comes back as NoError. -/
theorem rcode_without_opt_truncated (c : Bool) (p : Packet) (r : RCODE) (hwf : p.WF)
    (ho : p.header.opt = none) :
    ∃ b, (withRcode p r).buildG c = .ok b ∧
      Packet.parse b = .ok (withRcode p (RCODE.ofCode (r.toCode % 16))) ∧
      (r ≠ .BADVERS → RCODE.ofCode (r.toCode % 16) = r) ∧
      (r = .BADVERS → RCODE.ofCode (r.toCode % 16) = .NoError) := by
  -- the packet with the truncated code is well-formed …
  have hne : RCODE.ofCode (r.toCode % 16) ≠ .BADVERS := by cases r <;> decide
  have hwf' : (withRcode p (RCODE.ofCode (r.toCode % 16))).WF := by
    obtain ⟨⟨hid, hfl, hopt⟩, rest⟩ := hwf
    refine ⟨⟨hid, hfl, ?_⟩, ?_⟩
    · show (match p.header.opt with
        | some o => (RData.opt o).WF
        | none => RCODE.ofCode (r.toCode % 16) ≠ .BADVERS)
      rw [ho]; exact hne
    · exact rest
  -- … and is written to the same bytes
  have hsame : (withRcode p r).buildG c = (withRcode p (RCODE.ofCode (r.toCode % 16))).buildG c := by
    have hh : (withRcode p r).writeHeader
        = (withRcode p (RCODE.ofCode (r.toCode % 16))).writeHeader := by
      have := getFlags_rcode_nibble p.header r
      simp only [Packet.writeHeader, Header.write, withRcode, this]
      rfl
    have hopt : (withRcode p r).header.optRR
        = (withRcode p (RCODE.ofCode (r.toCode % 16))).header.optRR := by
      simp [withRcode, Header.optRR, ho]
    unfold Packet.buildG
    rw [hh, hopt]
    rfl
  obtain ⟨b, hb, hp, _⟩ := Packet.buildG_parse c _ hwf'
  exact ⟨b, by rw [hsame]; exact hb, hp, fun h => rcode_without_opt r h,
    fun h => by subst h; rfl⟩

/-- the plain writer -/
theorem rcode_without_opt_truncated_plain (p : Packet) (r : RCODE) (hwf : p.WF)
    (ho : p.header.opt = none) :
    ∃ b, (withRcode p r).build = .ok b ∧
      Packet.parse b = .ok (withRcode p (RCODE.ofCode (r.toCode % 16))) := by
  obtain ⟨b, hb, hp, _⟩ := rcode_without_opt_truncated false p r hwf ho
  exact ⟨b, by rw [← buildG_false]; exact hb, hp⟩

/-- **BADVERS without an OPT record reads back as NoError**, with either writer: the upper bits of
the 12-bit code have nowhere to go (RFC 6891 §6.1.3 puts them in the OPT record). -/
theorem badvers_without_opt_reads_noerror (c : Bool) (p : Packet) (hwf : p.WF)
    (ho : p.header.opt = none) :
    ∃ b, (withRcode p .BADVERS).buildG c = .ok b ∧ Packet.parse b = .ok (withRcode p .NoError) ∧
      withRcode p .NoError ≠ withRcode p .BADVERS := by
  obtain ⟨b, hb, hp, _, h16⟩ := rcode_without_opt_truncated c p .BADVERS hwf ho
  rw [h16 rfl] at hp
  refine ⟨b, hb, hp, ?_⟩
  intro h
  have := congrArg (fun q => q.header.rcode) h
  simp [withRcode] at this

/-- `Packet.WF` excludes exactly this case: a packet without EDNS data whose code is BADVERS is
not well-formed, which is why the round trip theorem (`build_parse`) does not contradict the above -/
theorem badvers_without_opt_not_WF (p : Packet) (ho : p.header.opt = none) :
    ¬ (withRcode p .BADVERS).WF := by
  intro h
  obtain ⟨⟨_, _, hopt⟩, _⟩ := h
  have : (withRcode p .BADVERS).header.opt = none := ho
  rw [this] at hopt
  exact hopt rfl

/-- concretely: the reply `Packet::new_reply(7)` with `rcode = BADVERS`, both writers -/
example : (Packet.newReply 7).WF ∧ (Packet.newReply 7).header.opt = none := by decide
example : ∀ c, (withRcode (Packet.newReply 7) .BADVERS).buildG c
    = .ok [0, 7, 0x80, 0, 0, 0, 0, 0, 0, 0, 0, 0] := by decide

end C08C09More
end Dns
