/-
C03 (length) — the compressing serialiser never produces a longer message than
the plain one, for EVERY packet (no well-formedness hypothesis): whenever both
`Packet::build_bytes_vec` and `Packet::build_bytes_vec_compressed` succeed, the
compressed message has at most as many bytes. In fact success of the compressed
run alone implies success of the plain run (`compressed_ok_plain_ok`): both
perform the same checks.

Why: a name is written either in full (labels and the zero byte) or as a prefix
of its labels followed by a two-byte pointer that stands for at least one label
(length byte + content, ≥ 1 byte) and the terminating zero byte (1 byte), i.e.
for at least two bytes. Everything else (fixed fields, RDLENGTH, non-name
fields, the header, the OPT pseudo-record) is byte-for-byte the same in both
runs. The offset and the suffix table differ between the two runs, so every
lemma below is stated for an ARBITRARY offset and table on the compressed side.
-/
import SimpleDnsModel.Props.C03
namespace Dns

/-! ### names -/

/-- the plain encoding of a name has at least the terminating zero byte -/
theorem Name.write_length_pos (n : Name) : 1 ≤ (Name.write n).length := by
  cases n <;> simp [Name.write]

/-- a non-empty name takes at least two bytes: what a pointer replaces is never shorter than it -/
theorem Name.write_cons_length_ge_two (l : Label) (rest : Name) :
    2 ≤ (Name.write (l :: rest)).length := by
  have := Name.write_length_pos rest
  simp only [Name.write, List.length_cons, List.length_append]
  omega

/-- **`Name::compress_append` is never longer than `Name::plain_append`**, at any offset and
against any table (no invariant on the table is needed for the length). -/
theorem compressName_length_le (n : Name) (off : Nat) (t : Table) :
    (compressName n off t).1.length ≤ (Name.write n).length := by
  induction n generalizing off t with
  | nil => simp [compressName, Name.write]
  | cons l rest ih =>
    simp only [compressName]
    split
    · have := Name.write_cons_length_ge_two l rest
      simpa using this
    · have := ih (off + 1 + l.length) (if off ≤ 0x3FFF then (l :: rest, off) :: t else t)
      simp only [Name.write, List.length_cons, List.length_append]
      omega

/-- a name that is found in the table costs exactly two bytes -/
theorem compressName_found_length (l : Label) (rest : Name) (off p : Nat) (t : Table)
    (h : Table.find t (l :: rest) = some p) : (compressName (l :: rest) off t).1.length = 2 := by
  simp [compressName, h]

/-- … hence is strictly shorter as soon as it is more than one empty label -/
theorem compressName_found_lt (l : Label) (rest : Name) (off p : Nat) (t : Table)
    (h : Table.find t (l :: rest) = some p) (hl : 1 ≤ l.length) :
    (compressName (l :: rest) off t).1.length < (Name.write (l :: rest)).length := by
  rw [compressName_found_length l rest off p t h]
  have := Name.write_length_pos rest
  simp only [Name.write, List.length_cons, List.length_append]
  omega

/-- **Same length = no pointer** (for names without empty labels): the compressed form of a name
has the length of the plain form exactly when it IS the plain form. -/
theorem compressName_length_eq_iff (n : Name) (hn : ∀ l ∈ n, 1 ≤ l.length) (off : Nat) (t : Table) :
    (compressName n off t).1.length = (Name.write n).length ↔
      (compressName n off t).1 = Name.write n := by
  refine ⟨?_, fun h => by rw [h]⟩
  induction n generalizing off t with
  | nil => intro _; simp [compressName, Name.write]
  | cons l rest ih =>
    intro h
    cases hf : Table.find t (l :: rest) with
    | some p =>
      have := compressName_found_lt l rest off p t hf (hn l (by simp))
      omega
    | none =>
      simp only [compressName, hf, Name.write, List.length_cons, List.length_append] at h ⊢
      rw [ih (fun x hx => hn x (by simp [hx])) _ _ (by omega)]

/-- the name writer of both paths, compressed against plain at arbitrary offsets and tables -/
theorem nameG_length_le (n : Name) (off off' : Nat) (t t' : Table) :
    (nameG true n off t).1.length ≤ (nameG false n off' t').1.length := by
  rw [nameG_false]
  exact compressName_length_le n off t

example : (compressName [[97], [98]] 40 [([[97], [98]], 12)]).1.length = 2 ∧
    (Name.write [[97], [98]]).length = 5 := by decide

/-- a suffix in the table: one label in place, then the pointer -/
example : (compressName [[120], [97], [98]] 40 [([[97], [98]], 12)]).1 = [1, 120, 0xC0, 12] ∧
    Name.write [[120], [97], [98]] = [1, 120, 1, 97, 1, 98, 0] := by decide

/-- nothing in the table: written in full -/
example : (compressName [[97], [98]] 40 []).1 = Name.write [[97], [98]] := by decide

/-- the one case of equal length with a pointer: a single empty label (not a well-formed name) -/
example : (compressName [[]] 40 [([[]], 12)]).1 = [0xC0, 12] ∧ Name.write [[]] = [0, 0] := by decide

/-! ### fields of an RDATA schema -/

/-- one field against the plain encoder -/
theorem encFieldG_length_le (k : FKind) (v : Val) (off : Nat) (t : Table) :
    (encFieldG true k v off t).1.length ≤ (encField k v).length := by
  unfold encFieldG
  split
  · simpa [nameG, encField] using compressName_length_le _ off t
  · exact Nat.le_refl _

/-- one field, `encFieldG true` against `encFieldG false` -/
theorem encFieldG_true_le_false (k : FKind) (v : Val) (off off' : Nat) (t t' : Table) :
    (encFieldG true k v off t).1.length ≤ (encFieldG false k v off' t').1.length := by
  rw [encFieldG_false]
  exact encFieldG_length_le k v off t

/-- all fields of a schema against the plain encoder -/
theorem encAllG_length_le (ks : List FKind) (vs : List Val) (off : Nat) (t : Table) :
    (encAllG true ks vs off t).1.length ≤ (encAll ks vs).length := by
  induction ks generalizing vs off t with
  | nil => cases vs <;> simp [encAllG, encAll]
  | cons k ks ih =>
    cases vs with
    | nil => simp [encAllG, encAll]
    | cons v vs =>
      have h1 := encFieldG_length_le k v off t
      have h2 := ih vs (off + (encFieldG true k v off t).1.length) (encFieldG true k v off t).2
      simp only [encAllG, encAll, List.length_append]
      omega

theorem encAllG_true_le_false (ks : List FKind) (vs : List Val) (off off' : Nat) (t t' : Table) :
    (encAllG true ks vs off t).1.length ≤ (encAllG false ks vs off' t').1.length := by
  rw [encAllG_false]
  exact encAllG_length_le ks vs off t

/-- MX 10 b.  with `b.` in the table: 2 + 2 bytes against 2 + 3 -/
example : (encAllG true [.int 2, .name true] [.int 10, .name [[98]]] 30 [([[98]], 12)]).1.length = 4 ∧
    (encAll [.int 2, .name true] [.int 10, .name [[98]]]).length = 5 := by decide

/-- SRV target (`.name false`) is never compressed -/
example : (encFieldG true (.name false) (.name [[98]]) 30 [([[98]], 12)]).1
    = encField (.name false) (.name [[98]]) := by decide

/-! ### RDATA of every kind -/

/-- **RDATA**: when the compressing writer succeeds, the plain one succeeds as well and its output is
not shorter. -/
theorem RData.writeG_length_le (rd : RData) (off : Nat) (t : Table) {b : Bytes} {t' : Table}
    (h : rd.writeG true off t = .ok (b, t')) : ∃ pb, rd.write = .ok pb ∧ b.length ≤ pb.length := by
  cases rd with
  | flat code vs =>
    simp only [RData.writeG, RData.write] at h ⊢
    cases hs : schemaOf code with
    | none =>
      rw [hs] at h
      simp only [Out.ok.injEq, Prod.mk.injEq] at h
      exact ⟨[], rfl, by simp [← h.1]⟩
    | some ks =>
      rw [hs] at h
      simp only at h ⊢
      split at h
      · rename_i hc
        rw [if_pos hc]
        simp only [Out.ok.injEq] at h
        refine ⟨_, rfl, ?_⟩
        have := encAllG_length_le ks vs off t
        rw [h] at this
        exact this
      · cases h
  | ipseckey prec alg gw key =>
    obtain ⟨pb, hpb, h⟩ := Out.bind_eq_ok (show ((RData.ipseckey prec alg gw key).write >>= fun b =>
      pure (b, t)) = .ok (b, t') from h)
    simp only [Out.pure_eq, Out.ok.injEq, Prod.mk.injEq] at h
    exact ⟨pb, hpb, by simp [← h.1]⟩
  | opt o =>
    obtain ⟨pb, hpb, h⟩ := Out.bind_eq_ok (show ((RData.opt o).write >>= fun b =>
      pure (b, t)) = .ok (b, t') from h)
    simp only [Out.pure_eq, Out.ok.injEq, Prod.mk.injEq] at h
    exact ⟨pb, hpb, by simp [← h.1]⟩
  | null code data =>
    obtain ⟨pb, hpb, h⟩ := Out.bind_eq_ok (show ((RData.null code data).write >>= fun b =>
      pure (b, t)) = .ok (b, t') from h)
    simp only [Out.pure_eq, Out.ok.injEq, Prod.mk.injEq] at h
    exact ⟨pb, hpb, by simp [← h.1]⟩
  | empty ty =>
    obtain ⟨pb, hpb, h⟩ := Out.bind_eq_ok (show ((RData.empty ty).write >>= fun b =>
      pure (b, t)) = .ok (b, t') from h)
    simp only [Out.pure_eq, Out.ok.injEq, Prod.mk.injEq] at h
    exact ⟨pb, hpb, by simp [← h.1]⟩

/-- `RData.writeG true` against `RData.writeG false` at arbitrary offsets and tables -/
theorem RData.writeG_true_le_false (rd : RData) (off : Nat) (t : Table) {b : Bytes} {t1 : Table}
    (h : rd.writeG true off t = .ok (b, t1)) (off' : Nat) (t' : Table) :
    ∃ pb, rd.writeG false off' t' = .ok (pb, t') ∧ b.length ≤ pb.length := by
  obtain ⟨pb, hpb, hle⟩ := RData.writeG_length_le rd off t h
  exact ⟨pb, by rw [RData.writeG_false, hpb]; rfl, hle⟩

/-- SOA-like RDATA (MINFO: two compressible names), both names already in the table -/
example : (do
    let c ← (RData.flat 14 [.name [[97]], .name [[98], [97]]]).writeG true 30 [([[97]], 12), ([[98], [97]], 20)]
    let b ← (RData.flat 14 [.name [[97]], .name [[98], [97]]]).write
    pure (c.1.length, b.length)) = Out.ok (4, 8) := by decide

/-- RDATA that is not schema-driven is written by the plain writer -/
example : (RData.null 65280 [1, 2, 3]).writeG true 30 [] = .ok ([1, 2, 3], []) := by decide

/-! ### records and questions -/

/-- **Records**: the owner name and the RDATA can only shrink; TYPE, CLASS, TTL are the same
eight bytes, and RDLENGTH is two bytes in both (`beN 2 _`), whatever value it carries. -/
theorem RR.writeG_length_le (r : RR) (off : Nat) (t : Table) {b : Bytes} {t' : Table}
    (h : r.writeG true off t = .ok (b, t')) : ∃ pb, r.write = .ok pb ∧ b.length ≤ pb.length := by
  unfold RR.writeG at h
  obtain ⟨⟨rd, t2⟩, hrd, h⟩ := Out.bind_eq_ok h
  simp only [Out.pure_eq, Out.ok.injEq, Prod.mk.injEq] at h
  obtain ⟨hb, _⟩ := h
  obtain ⟨prd, hprd, hle⟩ := RData.writeG_length_le _ _ _ hrd
  refine ⟨_, by rw [RR.write, hprd]; rfl, ?_⟩
  have hn := compressName_length_le r.name off t
  subst hb
  simp only [nameG, if_true, List.length_append, beN_length]
  omega

/-- `RR.writeG true` against `RR.writeG false` at arbitrary offsets and tables -/
theorem RR.writeG_true_le_false (r : RR) (off : Nat) (t : Table) {b : Bytes} {t1 : Table}
    (h : r.writeG true off t = .ok (b, t1)) (off' : Nat) (t' : Table) :
    ∃ pb, r.writeG false off' t' = .ok (pb, t') ∧ b.length ≤ pb.length := by
  obtain ⟨pb, hpb, hle⟩ := RR.writeG_length_le r off t h
  exact ⟨pb, by rw [RR.writeG_false, hpb]; rfl, hle⟩

/-- **Questions** (cannot fail) -/
theorem Question.writeG_length_le (q : Question) (off : Nat) (t : Table) :
    (q.writeG true off t).1.length ≤ q.write.length := by
  have hn := compressName_length_le q.name off t
  simp only [Question.writeG, Question.write, nameG, if_true, List.length_append]
  omega

theorem Question.writeG_true_le_false (q : Question) (off off' : Nat) (t t' : Table) :
    (q.writeG true off t).1.length ≤ (q.writeG false off' t').1.length := by
  have := Question.writeG_length_le q off t
  simpa [Question.writeG, Question.write, nameG_false] using this

/-- a CNAME record `a. → b.a.` with `a.` in the table: 2+10+(1+1+2) bytes against 3+10+(1+1+3) -/
example : (do
    let r : RR := { name := [[97]], cls := .IN, ttl := 60, flush := false,
                    rdata := .flat 5 [.name [[98], [97]]] }
    let c ← r.writeG true 30 [([[97]], 12)]
    let b ← r.write
    pure (c.1.length, b.length)) = Out.ok (16, 18) := by decide

example :
    let q : Question := { name := [[97]], qtype := .TYPE .A, qclass := .CLASS .IN, unicast := false }
    (q.writeG true 30 [([[97]], 12)]).1.length = 6 ∧ q.write.length = 7 := by decide

/-! ### sections -/

theorem writeQuestionsG_length_le (qs : List Question) (off : Nat) (t : Table) :
    (writeQuestionsG true qs off t).1.length ≤ (writeQuestions qs).length := by
  induction qs generalizing off t with
  | nil => simp [writeQuestionsG, writeQuestions]
  | cons q qs ih =>
    have h1 := Question.writeG_length_le q off t
    have h2 := ih (off + (q.writeG true off t).1.length) (q.writeG true off t).2
    simp only [writeQuestionsG, writeQuestions, List.length_append]
    omega

theorem writeQuestionsG_true_le_false (qs : List Question) (off off' : Nat) (t t' : Table) :
    (writeQuestionsG true qs off t).1.length ≤ (writeQuestionsG false qs off' t').1.length := by
  rw [writeQuestionsG_false]
  exact writeQuestionsG_length_le qs off t

/-- **A section of records**: induction over the list; offset and table of the compressed run are
arbitrary (they are whatever the preceding, possibly shorter, output left). -/
theorem writeRRsG_length_le (rs : List RR) (off : Nat) (t : Table) {b : Bytes} {t' : Table}
    (h : writeRRsG true rs off t = .ok (b, t')) :
    ∃ pb, writeRRs rs = .ok pb ∧ b.length ≤ pb.length := by
  induction rs generalizing off t b t' with
  | nil =>
    simp only [writeRRsG, Out.ok.injEq, Prod.mk.injEq] at h
    exact ⟨[], rfl, by simp [← h.1]⟩
  | cons r rs ih =>
    simp only [writeRRsG] at h
    obtain ⟨⟨a, ta⟩, ha, h⟩ := Out.bind_eq_ok h
    obtain ⟨⟨b2, tb⟩, hb2, h⟩ := Out.bind_eq_ok h
    simp only [Out.pure_eq, Out.ok.injEq, Prod.mk.injEq] at h
    obtain ⟨hb, _⟩ := h
    obtain ⟨pa, hpa, hla⟩ := RR.writeG_length_le r off t ha
    obtain ⟨pb2, hpb2, hlb⟩ := ih _ _ hb2
    refine ⟨pa ++ pb2, by simp only [writeRRs, hpa, hpb2, Out.bind_ok, Out.pure_eq], ?_⟩
    subst hb
    simp only [List.length_append]
    omega

theorem writeRRsG_true_le_false (rs : List RR) (off : Nat) (t : Table) {b : Bytes} {t1 : Table}
    (h : writeRRsG true rs off t = .ok (b, t1)) (off' : Nat) (t' : Table) :
    ∃ pb, writeRRsG false rs off' t' = .ok (pb, t') ∧ b.length ≤ pb.length := by
  obtain ⟨pb, hpb, hle⟩ := writeRRsG_length_le rs off t h
  exact ⟨pb, by rw [writeRRsG_false, hpb]; rfl, hle⟩

/-- two records with the same owner: the second owner is a pointer (empty table at the start) -/
example : (do
    let r : RR := { name := [[97]], cls := .IN, ttl := 60, flush := false, rdata := .flat 1 [.int 1] }
    let c ← writeRRsG true [r, r] 12 []
    let b ← writeRRs [r, r]
    pure (c.1.length, b.length)) = Out.ok (33, 34) := by decide

/-! ### the message -/

/-- **`Packet.buildG true` against `Packet.buildG false`**: if the compressing walker succeeds, so
does the plain one, and the compressed message is not longer. -/
theorem Packet.buildG_true_le_false (p : Packet) {c : Bytes} (hc : p.buildG true = .ok c) :
    ∃ b, p.buildG false = .ok b ∧ c.length ≤ b.length := by
  unfold Packet.buildG at hc
  obtain ⟨⟨an, t1⟩, han, hc⟩ := Out.bind_eq_ok hc
  obtain ⟨⟨ns, t2⟩, hns, hc⟩ := Out.bind_eq_ok hc
  obtain ⟨o, ho, hc⟩ := Out.bind_eq_ok hc
  obtain ⟨⟨ar, t3⟩, har, hc⟩ := Out.bind_eq_ok hc
  simp only [Out.pure_eq, Out.ok.injEq] at hc
  obtain ⟨pan, hpan, hlan⟩ := writeRRsG_length_le _ _ _ han
  obtain ⟨pns, hpns, hlns⟩ := writeRRsG_length_le _ _ _ hns
  obtain ⟨par, hpar, hlar⟩ := writeRRsG_length_le _ _ _ har
  have hq := writeQuestionsG_length_le p.questions p.writeHeader.length []
  refine ⟨p.writeHeader ++ (writeQuestions p.questions ++ (pan ++ (pns ++ (o ++ par)))), ?_, ?_⟩
  · simp only [Packet.buildG, writeRRsG_false, writeQuestionsG_false, hpan, hpns, ho, hpar,
      Out.bind_ok, Out.pure_eq]
  subst hc
  simp only [List.length_append]
  omega

/-- question `a.` and answer `a. A`: the answer's owner becomes a pointer to offset 12 -/
def tinyRepeated : Packet :=
  { header := { id := 1, opcode := .StandardQuery, rcode := .NoError, flags := 0, opt := none }
    questions := [{ name := [[97]], qtype := .TYPE .A, qclass := .CLASS .IN, unicast := false }]
    answers := [{ name := [[97]], cls := .IN, ttl := 60, flush := false, rdata := .flat 1 [.int 1] }]
    nameServers := []
    additional := [] }

example : (do
    let b ← tinyRepeated.buildG false
    let c ← tinyRepeated.buildG true
    pure (b.length, c.length, decide (c.length < b.length), c.drop 19)) =
    Out.ok (36, 35, true, [0xC0, 12, 0, 1, 0, 1, 0, 0, 0, 60, 0, 4, 0, 0, 0, 1]) := by decide

/-- the compressed run succeeds only if the plain run does (same checks in both) -/
theorem compressed_ok_plain_ok (p : Packet) (c : Bytes) (hc : p.buildCompressed = .ok c) :
    ∃ b, p.build = .ok b ∧ c.length ≤ b.length := by
  obtain ⟨b, hb, hle⟩ := Packet.buildG_true_le_false p hc
  rw [Packet.buildG_false] at hb
  exact ⟨b, hb, hle⟩

/-- **The compressed message is never longer than the plain one**, for every packet. -/
theorem compressed_not_longer (p : Packet) (b c : Bytes)
    (hb : p.build = .ok b) (hc : p.buildCompressed = .ok c) : c.length ≤ b.length := by
  obtain ⟨b', hb', hle⟩ := compressed_ok_plain_ok p c hc
  rw [hb] at hb'
  cases hb'
  exact hle

/-- non-vacuous, and strict for a packet with a repeated name -/
example : (do
    let b ← tinyRepeated.build
    let c ← tinyRepeated.buildCompressed
    pure (decide (c.length < b.length))) = Out.ok true := by decide

/-- equality when no name repeats (nothing to point at) -/
example : ({ tinyRepeated with answers := [] } : Packet).buildCompressed
    = ({ tinyRepeated with answers := [] } : Packet).build := by decide

/-- a LOC record with version ≠ 0 makes BOTH runs fail: the hypotheses of the theorem hold for the
same packets -/
example :
    let r : RR := { name := [[97]], cls := .IN, ttl := 60, flush := false,
                    rdata := .flat 29 [.int 1, .int 0, .int 0, .int 0, .int 0, .int 0, .int 0] }
    let p : Packet := { tinyRepeated with answers := [r] }
    p.build = .err ∧ p.buildCompressed = .err := by decide

end Dns
