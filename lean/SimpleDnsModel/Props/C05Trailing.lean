/-
C05 (trailing data) — a successfully parsed message is unaffected by bytes
appended after it.

`Packet::parse` never looks past what the header counts and the RDLENGTHs
delimit: a name is read label by label with every read bounds-checked against
the message (and a compression pointer only goes backwards), the fixed fields
are slices inside the message, and the RDATA is parsed from the message cut at
the record's end (`RData.parse` uses `d.take (pos + 10 + rdlen)`). So when
`Packet.parse d` succeeds, `Packet.parse (d ++ t)` succeeds with the same
packet for every `t`.

The statements are one per parser, from the primitives (`idx`, `slice`) up to
`Packet.parse`; the RDATA step uses `rdata_local` and `cursor_after_rdata` of
Props/C05.lean instead of going through the record types again. The converse
(removing bytes) is false: a truncated message can fail (Props/C05.lean,
`overrun_err`).
-/
import SimpleDnsModel.Props.C05
namespace Dns

/-! ### 1. the panicking primitives -/

/-- an in-range `data[i]` is the same read of `data ++ t` -/
theorem idx_append {d : Bytes} (t : Bytes) {i : Nat} (h : i < d.length) :
    idx (d ++ t) i = idx d i := by
  simp [idx, List.getElem?_append_left h]

/-- an in-range `data[a..b]` is the same slice of `data ++ t` -/
theorem slice_append {d : Bytes} (t : Bytes) {a b : Nat} (h : b ≤ d.length) :
    slice (d ++ t) a b = slice d a b := by
  unfold slice
  by_cases hab : a ≤ b
  · have h' : b ≤ (d ++ t).length := by simp; omega
    rw [if_pos ⟨hab, h'⟩, if_pos ⟨hab, h⟩, List.drop_append_of_le_length (by omega),
      List.take_append_of_le_length (by simp; omega)]
  · simp [hab]

/-- the successful form: what `slice` returned for `d` it returns for `d ++ t` -/
theorem slice_append_ok {d : Bytes} (t : Bytes) {a b : Nat} {s : Bytes}
    (h : slice d a b = .ok s) : slice (d ++ t) a b = .ok s := by
  have hb : b ≤ d.length := by
    unfold slice at h; split at h
    · rename_i hc; exact hc.2
    · cases h
  rw [slice_append t hb, h]

theorem idx_append_ok {d : Bytes} (t : Bytes) {i : Nat} {b : UInt8}
    (h : idx d i = .ok b) : idx (d ++ t) i = .ok b := by
  have hi : i < d.length := by
    rcases Nat.lt_or_ge i d.length with h' | h'
    · exact h'
    · simp [idx, List.getElem?_eq_none h'] at h
  rw [idx_append t hi, h]

example : idx ([1, 2, 3] ++ [9, 9]) 2 = idx [1, 2, 3] 2 := idx_append [9, 9] (by decide)
example : slice ([1, 2, 3] ++ [9, 9]) 1 3 = .ok [2, 3] := slice_append_ok [9, 9] (by decide)

/-- the header peeks (`buffer.get(a..a+2)`) -/
theorem peekU16_append {d : Bytes} (t : Bytes) {a n : Nat} (h : peekU16 d a = .ok n) :
    peekU16 (d ++ t) a = .ok n := by
  unfold peekU16 sliceOpt at h ⊢
  by_cases hc : a ≤ a + 2 ∧ a + 2 ≤ d.length
  · have hc' : a ≤ a + 2 ∧ a + 2 ≤ (d ++ t).length := ⟨hc.1, by simp; omega⟩
    rw [if_pos hc] at h
    rw [if_pos hc', List.drop_append_of_le_length (by omega),
      List.take_append_of_le_length (by simp; omega)]
    exact h
  · rw [if_neg hc] at h; cases h

example : peekU16 ([0, 0, 0, 0, 0, 7] ++ [9]) 4 = .ok 7 := peekU16_append [9] (by decide)

/-- the envelope walker's field read -/
theorem field_append {d : Bytes} (t : Bytes) {a w n : Nat} (h : Spec.field d a w = some n) :
    Spec.field (d ++ t) a w = some n := by
  have hle := Framing.field_le h
  rw [Framing.field_eq hle] at h
  rw [Framing.field_eq (by simp; omega), List.drop_append_of_le_length (by omega),
    List.take_append_of_le_length (by simp; omega)]
  exact h

/-! ### 2. names -/

/-- Every byte the name loop reads lies inside `d` when it succeeds: the loop gives the same
result on `d ++ t`, from any state. -/
theorem nameLoop_append (d t : Bytes) (s : NS) (r : Name × Nat) (h : nameLoop d s = .ok r) :
    nameLoop (d ++ t) s = .ok r := by
  fun_induction nameLoop d s
  all_goals try (simp at h; done)
  · rename_i s hlen hsz hb
    rw [nameLoop]
    have hlen' : ¬ (s.pos ≥ (d ++ t).length ∨ s.pp ≥ (d ++ t).length) := by
      simp at hlen ⊢; omega
    rw [if_neg hlen', if_neg hsz, List.getElem?_append_left (by omega)]
    simp only [hb, if_true]
    exact h
  · rename_i s hlen hsz b hb hnz hptr pos hfit b2 hb2 ptr hlt ih
    rw [nameLoop]
    have hlen' : ¬ (s.pos ≥ (d ++ t).length ∨ s.pp ≥ (d ++ t).length) := by
      simp at hlen ⊢; omega
    have hfit' : ¬ (s.pp + 2 > (d ++ t).length) := by simp at hfit ⊢; omega
    rw [if_neg hlen', if_neg hsz, List.getElem?_append_left (by omega)]
    simp only [hb, hnz, hptr, if_true, if_false]
    rw [if_neg hfit', List.getElem?_append_left (by omega)]
    simp only [hb2]
    rw [dif_neg hlt]
    exact ih h
  · rename_i s hlen hsz b hb hnz hptr len hfit h63 lab ih
    rw [nameLoop]
    have hlen' : ¬ (s.pos ≥ (d ++ t).length ∨ s.pp ≥ (d ++ t).length) := by
      simp at hlen ⊢; omega
    have hfit' : ¬ (s.pp + 1 + b.toNat > (d ++ t).length) := by
      simp [len] at hfit ⊢; omega
    have hlab : ((d ++ t).drop (s.pp + 1)).take b.toNat = lab := by
      simp only [lab, len]
      simp only [len] at hfit
      rw [List.drop_append_of_le_length (by omega),
        List.take_append_of_le_length (by simp; omega)]
    rw [if_neg hlen', if_neg hsz, List.getElem?_append_left (by omega)]
    simp only [hb, hnz, hptr, if_false]
    rw [if_neg hfit', if_neg h63, hlab]
    exact ih h

/-- `Name::parse` ignores what follows the message -/
theorem Name.parse_append {d : Bytes} (t : Bytes) {pos : Nat} {r : Name × Nat}
    (h : Name.parse d pos = .ok r) : Name.parse (d ++ t) pos = .ok r :=
  nameLoop_append d t _ r h

/-- the owner name of the answer of `c05Msg` is a pointer to offset 12 -/
example (t : Bytes) : Name.parse (c05Msg ++ t) 21 = .ok ([[119, 119, 119]], 23) :=
  Name.parse_append t c05Msg_name21

/-! ### 3. header and question -/

theorem Header.parse_append {d : Bytes} (t : Bytes) {hd : Header}
    (h : Header.parse d = .ok hd) : Header.parse (d ++ t) = .ok hd := by
  unfold Header.parse at h ⊢
  split at h
  · cases h
  · rename_i hlen
    have hlen' : ¬ (d ++ t).length < 12 := by simp; omega
    rw [if_neg hlen', slice_append t (by omega), slice_append t (by omega)]
    exact h

example (t : Bytes) : Header.parse (c05Msg ++ t) =
    .ok { id := 0x1234, opcode := .StandardQuery, rcode := .NoError, flags := 0x0100,
          opt := none } :=
  Header.parse_append t (by decide +kernel)

theorem Question.parse_append {d : Bytes} (t : Bytes) {pos : Nat} {r : Question × Nat}
    (h : Question.parse d pos = .ok r) : Question.parse (d ++ t) pos = .ok r := by
  unfold Question.parse at h ⊢
  obtain ⟨⟨n, p⟩, hn, h⟩ := Out.bind_eq_ok h
  rw [Name.parse_append t hn]
  dsimp only [Out.bind_ok] at h ⊢
  split at h
  · cases h
  · rename_i hlen
    have hlen' : ¬ (p + 4 > (d ++ t).length) := by simp at hlen ⊢; omega
    rw [if_neg hlen', slice_append t (by omega), slice_append t (by omega)]
    exact h

example (t : Bytes) : Question.parse (c05Msg ++ t) 12 =
    .ok ({ name := [[119, 119, 119]], qtype := .TYPE .A, qclass := .CLASS .IN,
           unicast := false }, 21) :=
  Question.parse_append t c05Msg_question

/-! ### 4. RDATA and records -/

/-- The RDATA parser works on the message cut at the record's end (`rdata_local`), and the cut
of `d ++ t` at an offset inside `d` is the cut of `d`. -/
theorem RData.parse_append {d : Bytes} (t : Bytes) {pos : Nat} {r : RData × Nat}
    (h : RData.parse d pos = .ok r) : RData.parse (d ++ t) pos = .ok r := by
  obtain ⟨rd, p⟩ := r
  obtain ⟨l, hl, hp, hle⟩ := cursor_after_rdata h
  subst hp
  have hle' : pos + 10 + l ≤ (d ++ t).length := by simp; omega
  have h1 := rdata_local hle hl []
  have h2 := rdata_local hle' (field_append t hl) []
  rw [List.take_append_of_le_length hle] at h2
  rw [← h2, h1, h]

/-- the A record of `c05Msg` (TYPE field at 23) -/
example (t : Bytes) : RData.parse (c05Msg ++ t) 23 = .ok (.flat 1 [.int 0x01020304], 37) :=
  RData.parse_append t (by decide +kernel)

theorem RR.parse_append {d : Bytes} (t : Bytes) {pos : Nat} {r : RR × Nat}
    (h : RR.parse d pos = .ok r) : RR.parse (d ++ t) pos = .ok r := by
  unfold RR.parse at h ⊢
  obtain ⟨⟨n, p⟩, hn, h⟩ := Out.bind_eq_ok h
  rw [Name.parse_append t hn]
  dsimp only [Out.bind_ok] at h ⊢
  split at h
  · cases h
  · rename_i hlen
    have hlen' : ¬ (p + 8 > (d ++ t).length) := by simp at hlen ⊢; omega
    rw [if_neg hlen', slice_append t (by omega), slice_append t (by omega)]
    obtain ⟨cb, hcb, h⟩ := Out.bind_eq_ok h
    obtain ⟨tb, htb, h⟩ := Out.bind_eq_ok h
    obtain ⟨rp, hrp, h⟩ := Out.bind_eq_ok h
    rw [hcb, htb, Out.bind_ok, Out.bind_ok, RData.parse_append t hrp]
    exact h

example (t : Bytes) : RR.parse (c05Msg ++ t) 21 =
    .ok ({ name := [[119, 119, 119]], cls := .IN, ttl := 60,
           rdata := .flat 1 [.int 0x01020304], flush := false }, 37) :=
  RR.parse_append t c05Msg_record

/-! ### 5. sections -/

theorem parseQuestions_append' {d : Bytes} (t : Bytes) {n pos : Nat} {r : List Question × Nat}
    (h : parseQuestions d n pos = .ok r) : parseQuestions (d ++ t) n pos = .ok r := by
  induction n generalizing pos r with
  | zero => simpa [parseQuestions] using h
  | succ n ih =>
    simp only [parseQuestions] at h ⊢
    obtain ⟨⟨q, p⟩, hq, h⟩ := Out.bind_eq_ok h
    obtain ⟨⟨qs, p'⟩, hqs, h⟩ := Out.bind_eq_ok h
    rw [Question.parse_append t hq, Out.bind_ok]
    dsimp only at hqs ⊢
    rw [ih hqs]
    exact h

theorem parseRRs_append' {d : Bytes} (t : Bytes) {n pos : Nat} {r : List RR × Nat}
    (h : parseRRs d n pos = .ok r) : parseRRs (d ++ t) n pos = .ok r := by
  induction n generalizing pos r with
  | zero => simpa [parseRRs] using h
  | succ n ih =>
    simp only [parseRRs] at h ⊢
    obtain ⟨⟨x, p⟩, hx, h⟩ := Out.bind_eq_ok h
    obtain ⟨⟨xs, p'⟩, hxs, h⟩ := Out.bind_eq_ok h
    rw [RR.parse_append t hx, Out.bind_ok]
    dsimp only at hxs ⊢
    rw [ih hxs]
    exact h

example (t : Bytes) : parseQuestions (c05Msg ++ t) 1 12 =
    .ok ([{ name := [[119, 119, 119]], qtype := .TYPE .A, qclass := .CLASS .IN,
            unicast := false }], 21) :=
  parseQuestions_append' t (by simp only [parseQuestions, c05Msg_question, Out.bind_ok, Out.pure_eq])

/-- two records, the first with slack inside its RDATA -/
example (t : Bytes) : ∃ rs, parseRRs (c05Slack ++ t) 2 12 = .ok (rs, 44) ∧ rs.length = 2 :=
  ⟨_, parseRRs_append' t c05Slack_records, rfl⟩

/-! ### 6. the whole message -/

/-- Trailing data is ignored: a message that parses, parses to the same packet with any bytes
appended (the OPT lifting step `liftOpt`/`extractOpt` works on the parsed records, not on the
bytes). -/
theorem parse_ignores_trailing (d t : Bytes) (p : Packet) (h : Packet.parse d = .ok p) :
    Packet.parse (d ++ t) = .ok p := by
  unfold Packet.parse at h ⊢
  obtain ⟨h0, hh0, h⟩ := Out.bind_eq_ok h
  obtain ⟨qd, hqd, h⟩ := Out.bind_eq_ok h
  obtain ⟨⟨qs, p1⟩, hqs, h⟩ := Out.bind_eq_ok h
  dsimp only at h
  obtain ⟨an, han, h⟩ := Out.bind_eq_ok h
  obtain ⟨⟨as, p2⟩, has, h⟩ := Out.bind_eq_ok h
  dsimp only at h
  obtain ⟨ns, hns, h⟩ := Out.bind_eq_ok h
  obtain ⟨⟨nss, p3⟩, hnss, h⟩ := Out.bind_eq_ok h
  dsimp only at h
  obtain ⟨ar, har, h⟩ := Out.bind_eq_ok h
  obtain ⟨⟨all, p4⟩, hall, h⟩ := Out.bind_eq_ok h
  dsimp only at h
  simp only [Peek.questions, Peek.answers, Peek.nameServers, Peek.additional] at hqd han hns har ⊢
  rw [Header.parse_append t hh0, Out.bind_ok, peekU16_append t hqd, Out.bind_ok,
    parseQuestions_append' t hqs, Out.bind_ok]
  dsimp only
  rw [peekU16_append t han, Out.bind_ok, parseRRs_append' t has, Out.bind_ok]
  dsimp only
  rw [peekU16_append t hns, Out.bind_ok, parseRRs_append' t hnss, Out.bind_ok]
  dsimp only
  rw [peekU16_append t har, Out.bind_ok, parseRRs_append' t hall, Out.bind_ok]
  exact h

/-- `c05Msg` (one question, one answer with a compressed owner name) followed by anything -/
example (t : Bytes) : ∃ p, Packet.parse (c05Msg ++ t) = .ok p ∧ p.answers.length = 1 :=
  ⟨_, parse_ignores_trailing c05Msg t _ c05Msg_parse, rfl⟩

example : (Packet.parse (c05Msg ++ [0xDE, 0xAD, 0xBE, 0xEF])).isOk = true := by
  rw [parse_ignores_trailing c05Msg _ _ c05Msg_parse]; rfl

/-- Only the first `d.length` bytes matter: cutting `d ++ t` anywhere at or after the end of `d`
and appending something else gives the same packet. (Cutting inside `d` can make the parse fail:
`Packet.parse (c05Msg.take 35) = .err` in Props/C05.lean.) -/
theorem parse_prefix_stable (d t t' : Bytes) (p : Packet) (h : Packet.parse d = .ok p)
    (k : Nat) (hk : d.length ≤ k) : Packet.parse ((d ++ t).take k ++ t') = .ok p := by
  rw [List.take_append, List.take_of_length_le hk, List.append_assoc]
  exact parse_ignores_trailing d _ p h

example : ∃ p, Packet.parse ((c05Msg ++ [1, 2, 3]).take 38 ++ [7]) = .ok p :=
  ⟨_, parse_prefix_stable c05Msg [1, 2, 3] [7] _ c05Msg_parse 38 (by decide)⟩

end Dns
