/-
C07 / C02, continued: the name sites of a message against the independent envelope walker.

`Packet.sitesG` (Lemmas/WritersB.lean) lists the places where the writer puts a name; it is
computed from the writer itself. Here the list is tied to `Spec.walk` (Spec/Envelope.lean), the
RFC 1035 §4.1 walker that knows nothing about the writer.

1. `sites_are_walked` (`SitesWalked`, `RecBlocks`, `QBlocks`): the site list is cut along the
   walked entries, in order: the owner-name site of each record is at the entry's `off`, its name
   is what `Decodes` reads there, the RDATA name sites lie (start and end) in the entry's RDATA
   window. Entry by entry: `walked_entries_have_sites`; site by site: `sites_classified`;
   writer-free classification: `owner_sites_exactly` (the sites outside every walked RDATA window
   have exactly the walked offsets, in order), with `entry_not_inRdata` about the walker alone.
2. C07's main clause through the walker: `walked_pointers_valid`, `every_walked_pointer_valid`
   (a walked owner name that starts with a pointer: target in `12 ..< e.off`, `≤ 16383`, where the
   name is encoded); the shape of every walked owner name between `e.off` and `e.nameEnd`
   (`walked_owner_shapes`, `OwnerShape`), and of every name site (`every_site_shape`,
   `SiteShape`): the pointer target is strictly before the *first* octet of the name.
3. C02 is sharp for names: `name_roundtrip_iff_wf`, `compressed_name_roundtrip_iff_wf`, and what
   happens outside `Name.WF` (`zero_len_label_truncates`, `reserved_len_label_rejected`,
   `long_name_rejected`).
-/
import SimpleDnsModel.Props.C04C07C11More
set_option autoImplicit false
namespace Dns
namespace C07Sites

open Framing (Corr RecOK QuOK)
open Wr (labelBytes)

/-! ## 1. RDATA name sites lie inside the RDATA bytes written -/

/-- a name written by either path takes at least one byte -/
theorem nameG_pos (c : Bool) (n : Name) (off : Nat) (t : Table) : 1 ≤ (nameG c n off t).1.length := by
  cases c
  · simp only [nameG, Bool.false_eq_true, if_false]; exact Wr.Name.write_pos n
  · simp only [nameG, if_true]; exact Wr.compressName_pos n off t

/-- a name field of an RDATA starts before the end of the bytes written for the field -/
theorem fieldSites_lt (c : Bool) (k : FKind) (v : Val) (off : Nat) (t : Table) :
    ∀ s ∈ fieldSites k v off, s.off < off + (encFieldG c k v off t).1.length := by
  intro s hs
  rcases Wr.fieldSites_cases k v off with ⟨cb, n, rfl, rfl, h⟩ | ⟨h, _⟩
  · rw [h] at hs
    simp only [List.mem_singleton] at hs
    subst hs
    rw [Wr.encFieldG_name]
    cases cb
    · have := Wr.Name.write_pos n
      simp only [Bool.false_eq_true, if_false]; omega
    · have := nameG_pos c n off t
      simp only [if_true]; omega
  · rw [h] at hs; cases hs

/-- the name fields of a flat RDATA start before the end of the RDATA bytes written -/
theorem sitesAll_lt (c : Bool) (ks : List FKind) : ∀ (vs : List Val) (off : Nat) (t : Table),
    ∀ s ∈ sitesAll c ks vs off t, s.off < off + (encAllG c ks vs off t).1.length := by
  induction ks with
  | nil => intro vs off t s hs; simp [sitesAll] at hs
  | cons k ks ih =>
    intro vs off t s hs
    cases vs with
    | nil => simp [sitesAll] at hs
    | cons v vs =>
      simp only [sitesAll, List.mem_append] at hs
      simp only [encAllG, List.length_append]
      rcases hs with hs | hs
      · have := fieldSites_lt c k v off t s hs; omega
      · have := ih vs _ _ s hs; omega

/-- the names inside an RDATA start before the end of the RDATA bytes written -/
theorem rdata_sites_lt (c : Bool) (rd : RData) (off : Nat) (t : Table) (b : Bytes) (t' : Table)
    (hw : rd.writeG c off t = .ok (b, t')) : ∀ s ∈ rd.sites c off t, s.off < off + b.length := by
  intro s hs
  cases rd with
  | flat code vs =>
    simp only [RData.sites] at hs
    simp only [RData.writeG] at hw
    cases hk : schemaOf code with
    | none => simp [hk] at hs
    | some ks =>
      rw [hk] at hs
      simp only [hk] at hw
      split at hw
      · simp only [Out.ok.injEq] at hw
        have := sitesAll_lt c ks vs off t s hs
        rw [hw] at this
        exact this
      · cases hw
  | ipseckey prec alg gw key =>
    cases gw with
    | domain n =>
      simp only [RData.sites, List.mem_singleton] at hs
      subst hs
      simp only [RData.writeG, RData.write, Out.bind_ok, Out.pure_eq, Out.ok.injEq,
        Prod.mk.injEq, Gateway.write] at hw
      obtain ⟨rfl, _⟩ := hw
      have := Wr.Name.write_pos n
      simp; omega
    | _ => simp [RData.sites] at hs
  | _ => simp [RData.sites] at hs

/-! ## 1b. the suffix table only ever holds offsets past the header, writer by writer -/

open C04C07C11 (TLow)

/-- a name written past the header only adds offsets past the header to the suffix table -/
theorem nameG_low (c : Bool) (n : Name) (off : Nat) (t : Table) (h12 : 12 ≤ off) (hlow : TLow t) :
    TLow (nameG c n off t).2 := by
  cases c
  · simpa [nameG] using hlow
  · simp only [nameG, if_true]; exact C04C07C11.compressName_low n off t h12 hlow

/-- one RDATA field written past the header keeps all table offsets past the header -/
theorem encFieldG_low (c : Bool) (k : FKind) (v : Val) (off : Nat) (t : Table) (h12 : 12 ≤ off)
    (hlow : TLow t) : TLow (encFieldG c k v off t).2 := by
  unfold encFieldG
  split
  · exact nameG_low c _ off t h12 hlow
  · exact hlow

/-- the fields of a flat RDATA written past the header keep all table offsets past the header -/
theorem encAllG_low (c : Bool) (ks : List FKind) : ∀ (vs : List Val) (off : Nat) (t : Table),
    12 ≤ off → TLow t → TLow (encAllG c ks vs off t).2 := by
  induction ks with
  | nil => intro vs off t _ h; cases vs <;> exact h
  | cons k ks ih =>
    intro vs off t h12 h
    cases vs with
    | nil => exact h
    | cons v vs =>
      simp only [encAllG]
      exact ih vs _ _ (by omega) (encFieldG_low c k v off t h12 h)

/-- `RData::write_compressed_to` past the header keeps all table offsets past the header -/
theorem rdata_writeG_low (c : Bool) (rd : RData) (off : Nat) (t : Table) (b : Bytes) (t' : Table)
    (hw : rd.writeG c off t = .ok (b, t')) (h12 : 12 ≤ off) (hlow : TLow t) : TLow t' := by
  cases rd with
  | flat code vs =>
    simp only [RData.writeG] at hw
    cases hs : schemaOf code with
    | none => simp only [hs, Out.ok.injEq, Prod.mk.injEq] at hw; rw [← hw.2]; exact hlow
    | some ks =>
      simp only [hs] at hw
      split at hw
      · simp only [Out.ok.injEq] at hw
        have := encAllG_low c ks vs off t h12 hlow
        rw [hw] at this
        exact this
      · cases hw
  | _ =>
    simp only [RData.writeG] at hw
    obtain ⟨_, _, hw2⟩ := Out.bind_eq_ok hw
    simp only [Out.pure_eq, Out.ok.injEq, Prod.mk.injEq] at hw2
    rw [← hw2.2]; exact hlow

/-! ## 1c. the shape of an owner name on the wire -/

/-- `OwnerShape d off nameEnd n`: what the octets of the message `d` at a question name / owner
name look like. Either the name `n` is there in full, label by label and closed by the zero
octet; or the labels of a prefix `pre` of `n` are there, followed by exactly one two-octet pointer
`11qqqqqq qqqqqqqq` whose target `q` lies past the 12-byte header, strictly before the *first*
octet of this name (`q < off`, not merely before the pointer), is at most 16383, and is where a
complete backward-pointer encoding of the remaining labels `suf` (never the root alone) begins.
In both cases `nameEnd` is the offset just after these octets. -/
def OwnerShape (d : Bytes) (off nameEnd : Nat) (n : Name) : Prop :=
  ((d.drop off).take (Name.write n).length = Name.write n ∧ nameEnd = off + (Name.write n).length) ∨
  ∃ pre suf q, n = pre ++ suf ∧ suf ≠ [] ∧ 12 ≤ q ∧ q < off ∧ q ≤ 0x3FFF ∧
    (d.drop off).take ((labelBytes pre).length + 2) = labelBytes pre ++ beN 2 (q ||| 0xC000) ∧
    nameEnd = off + (labelBytes pre).length + 2 ∧ Enc d q suf

/-- a name written by either writer after `out`, under the table invariants, has this shape -/
theorem nameG_shape (c : Bool) (n : Name) (off : Nat) (t : Table) (out post : Bytes)
    (hok : LabelsOK n) (hlen : out.length = off) (hinv : TInv out t) (hlow : TLow t) :
    OwnerShape (out ++ ((nameG c n off t).1 ++ post)) off (off + (nameG c n off t).1.length) n := by
  subst hlen
  cases c
  · left
    rw [nameG_false]
    exact ⟨Wr.block_at out (Name.write n) post, rfl⟩
  · have e : nameG true n out.length t = compressName n out.length t := rfl
    rw [e]
    rcases (pointers_valid_name n t out hok hinv).2 with h | ⟨pre, suf, q, h1, h2, h3, h4, h5, h6, h7⟩
    · left
      rw [h]
      exact ⟨Wr.block_at out (Name.write n) post, rfl⟩
    · right
      refine ⟨pre, suf, q, h1, h2, hlow _ (Table.find_mem h3), h6, h5, ?_, ?_, ?_⟩
      · rw [h4]
        have := Wr.block_at out (labelBytes pre ++ beN 2 (q ||| 0xC000)) post
        simpa using this
      · rw [h4]; simp; omega
      · exact h7.append _

/-- `SiteShape d s e'`: the octets at a name site have the shape `OwnerShape` (in full, or a prefix
and one pointer to `q` with `12 ≤ q < s.off`), `e'` being the end of the octets written at the
site; and a site that must not be compressed holds the name in full. -/
def SiteShape (d : Bytes) (s : Site) (e' : Nat) : Prop :=
  OwnerShape d s.off e' s.name ∧
  (s.compressible = false → (d.drop s.off).take (Name.write s.name).length = Name.write s.name)

/-- one RDATA field -/
theorem encFieldG_shape (c : Bool) (k : FKind) (v : Val) (off : Nat) (t : Table) (out post : Bytes)
    (hv : FieldOK k v) (hlen : out.length = off) (hinv : TInv out t) (hlow : TLow t) :
    ∀ s ∈ fieldSites k v off, ∃ e',
      SiteShape (out ++ ((encFieldG c k v off t).1 ++ post)) s e' ∧
      e' ≤ off + (encFieldG c k v off t).1.length := by
  intro s hs
  rcases Wr.fieldSites_cases k v off with ⟨cb, n, rfl, rfl, h⟩ | ⟨h, _⟩
  · rw [h] at hs
    simp only [List.mem_singleton] at hs
    subst hs
    have hwf : Name.WF n := hv
    rw [Wr.encFieldG_name]
    cases cb
    · simp only [Bool.false_eq_true, if_false]
      subst hlen
      exact ⟨_, ⟨Or.inl ⟨Wr.block_at out (Name.write n) post, rfl⟩,
        fun _ => Wr.block_at out (Name.write n) post⟩, Nat.le_refl _⟩
    · simp only [if_true]
      exact ⟨_, ⟨nameG_shape c n off t out post hwf.1 hlen hinv hlow, fun hc => by cases hc⟩,
        Nat.le_refl _⟩
  · rw [h] at hs; cases hs

/-- the fields of a flat RDATA -/
theorem encAllG_shape (c : Bool) (ks : List FKind) : ∀ (vs : List Val) (off : Nat) (t : Table)
    (out post : Bytes), AllOK ks vs → out.length = off → TInv out t → 12 ≤ off → TLow t →
    ∀ s ∈ sitesAll c ks vs off t, ∃ e',
      SiteShape (out ++ ((encAllG c ks vs off t).1 ++ post)) s e' ∧
      e' ≤ off + (encAllG c ks vs off t).1.length := by
  induction ks with
  | nil => intro vs off t out post _ _ _ _ _ s hs; simp [sitesAll] at hs
  | cons k ks ih =>
    intro vs off t out post hok hlen hinv h12 hlow s hs
    cases vs with
    | nil => simp [sitesAll] at hs
    | cons v vs =>
      simp only [AllOK] at hok
      simp only [sitesAll, List.mem_append] at hs
      simp only [encAllG]
      have hinv' := (Wr.encFieldG_sites c k v off t out hok.1 hlen hinv).1
      have hlow' := encFieldG_low c k v off t h12 hlow
      have hf := encFieldG_shape c k v off t out
        ((encAllG c ks vs (off + (encFieldG c k v off t).1.length) (encFieldG c k v off t).2).1 ++ post)
        hok.1 hlen hinv hlow
      have hr := ih vs (off + (encFieldG c k v off t).1.length) (encFieldG c k v off t).2
        (out ++ (encFieldG c k v off t).1) post hok.2 (by simp [hlen]) hinv' (by omega) hlow'
      generalize encFieldG c k v off t = a at hs hf hr ⊢
      generalize encAllG c ks vs (off + a.1.length) a.2 = r at hs hf hr ⊢
      have ed : out ++ ((a.1 ++ r.1) ++ post) = out ++ (a.1 ++ (r.1 ++ post)) := by simp
      have ed' : (out ++ a.1) ++ (r.1 ++ post) = out ++ (a.1 ++ (r.1 ++ post)) := by simp
      rw [ed]
      rw [ed'] at hr
      rcases hs with hs | hs
      · obtain ⟨e', h1, h2⟩ := hf s hs
        exact ⟨e', h1, by simp only [List.length_append]; omega⟩
      · obtain ⟨e', h1, h2⟩ := hr s hs
        exact ⟨e', h1, by simp only [List.length_append]; omega⟩

/-- the names inside an RDATA -/
theorem rdata_shape (c : Bool) (rd : RData) (off : Nat) (t : Table) (hwf : rd.WF) (b : Bytes)
    (t' : Table) (hw : rd.writeG c off t = .ok (b, t')) (out post : Bytes)
    (hlen : out.length = off) (hinv : TInv out t) (h12 : 12 ≤ off) (hlow : TLow t) :
    ∀ s ∈ rd.sites c off t, ∃ e', SiteShape (out ++ (b ++ post)) s e' ∧ e' ≤ off + b.length := by
  cases rd with
  | flat code vs =>
    simp only [RData.WF, SchemaOK] at hwf
    cases hs : schemaOf code with
    | none => simp [hs] at hwf
    | some ks =>
      simp only [hs] at hwf
      simp only [RData.writeG, hs, hwf.2.1, if_true, Out.ok.injEq] at hw
      simp only [RData.sites, hs]
      have := encAllG_shape c ks vs off t out post hwf.1 hlen hinv h12 hlow
      rw [hw] at this
      exact this
  | ipseckey prec alg gw key =>
    cases gw with
    | domain n =>
      simp only [RData.writeG, RData.write, Out.bind_ok, Out.pure_eq, Out.ok.injEq,
        Prod.mk.injEq, Gateway.write] at hw
      obtain ⟨rfl, _⟩ := hw
      intro s hs
      simp only [RData.sites, List.mem_singleton] at hs
      subst hs
      have hb := Wr.block_at
        (out ++ [UInt8.ofNat prec, UInt8.ofNat (Gateway.domain n).tag, UInt8.ofNat alg])
        (Name.write n) (key ++ post)
      have hl : (out ++ [UInt8.ofNat prec, UInt8.ofNat (Gateway.domain n).tag, UInt8.ofNat alg]).length
          = off + 3 := by simp [hlen]
      rw [hl] at hb
      have hb' : ((out ++ (UInt8.ofNat prec :: UInt8.ofNat (Gateway.domain n).tag :: UInt8.ofNat alg ::
          (Name.write n ++ key) ++ post)).drop (off + 3)).take (Name.write n).length = Name.write n := by
        simpa using hb
      refine ⟨off + 3 + (Name.write n).length, ⟨Or.inl ⟨hb', rfl⟩, fun _ => hb'⟩, ?_⟩
      simp; omega
    | _ => intro s hs; simp [RData.sites] at hs
  | _ => intro s hs; simp [RData.sites] at hs

/-! ## 2. one record, one question: the walked entry and the sites -/

/-- **One record.** The bytes `a` that `RR.writeG` appends after `out` are walked as one entry
`e`: it starts where the record was written, ends where the written bytes end, its owner name
ends where the writer's name bytes end and has the shape `OwnerShape`, and it corresponds to the
record (`RecOK`: owner name decoded at `e.off`, TTL, type, class). -/
theorem rr_entry (c : Bool) (r : RR) (hwf : r.WF) (off : Nat) (t : Table) (a : Bytes) (ta : Table)
    (ha : r.writeG c off t = .ok (a, ta)) (out post : Bytes) (hlen : out.length = off)
    (hinv : TInv out t) (h12 : 12 ≤ off) (hlow : TLow t) :
    ∃ e, Spec.walkRecord (out ++ (a ++ post)) off = some e ∧ e.off = off ∧
      e.next = off + a.length ∧ e.nameEnd = off + (nameG c r.name off t).1.length ∧
      RecOK (out ++ (a ++ post)) r e ∧ OwnerShape (out ++ (a ++ post)) off e.nameEnd r.name ∧
      TInv (out ++ a) ta ∧ TLow ta := by
  obtain ⟨a', ta', ha', hspec⟩ := RR.writeG_spec c r off t hwf
  rw [ha] at ha'
  simp only [Out.ok.injEq, Prod.mk.injEq] at ha'
  obtain ⟨rfl, rfl⟩ := ha'
  have hS := hspec out hlen hinv
  have hdec := hS.dec post
  have hinv' := hS.inv
  rw [hlen] at hdec
  obtain ⟨e, he, hoff, hnext, hok⟩ := Framing.RR.parse_frame hdec
  obtain ⟨_, hskip, _⟩ := C04C07C11.walkRecord_fields he
  have hN := nameG_spec c r.name off t out hwf.1.labelsOK hlen hinv
  have hL := nameG_low c r.name off t h12 hlow
  unfold RR.writeG at ha
  obtain ⟨⟨rd, t2⟩, hrd, ha⟩ := Out.bind_eq_ok ha
  simp only [Out.pure_eq, Out.ok.injEq, Prod.mk.injEq] at ha
  obtain ⟨rfl, rfl⟩ := ha
  have hp := hN.parse hwf.1.2
    ((r.writeCommon ++ (beN 2 (if c then rd.length else r.rdata.len) ++ rd)) ++ post)
  have hsk := Framing.skipName_of_parse hp
  rw [hlen] at hsk
  simp only [List.append_assoc] at hsk hskip
  rw [hsk] at hskip
  have hne : e.nameEnd = off + (nameG c r.name off t).1.length := (Option.some.inj hskip).symm
  refine ⟨e, he, hoff, hnext.symm, hne, hok, ?_, hinv',
    rdata_writeG_low c r.rdata _ _ rd t2 hrd (by omega) hL⟩
  have := nameG_shape c r.name off t out
    ((r.writeCommon ++ (beN 2 (if c then rd.length else r.rdata.len) ++ rd)) ++ post)
    hwf.1.labelsOK hlen hinv hlow
  rw [hne]
  simpa only [List.append_assoc] using this

/-- the RDATA names of one record: each has the shape `SiteShape`, and the octets written at the
site end inside the bytes of the record -/
theorem rr_rdata_shapes (c : Bool) (r : RR) (hwf : r.WF) (off : Nat) (t : Table) (a : Bytes)
    (ta : Table) (ha : r.writeG c off t = .ok (a, ta)) (out post : Bytes) (hlen : out.length = off)
    (hinv : TInv out t) (h12 : 12 ≤ off) (hlow : TLow t) :
    ∀ x ∈ r.rdata.sites c (off + (nameG c r.name off t).1.length + 10) (nameG c r.name off t).2,
      ∃ e', SiteShape (out ++ (a ++ post)) x e' ∧ e' ≤ off + a.length := by
  have hN := nameG_spec c r.name off t out hwf.1.labelsOK hlen hinv
  have hL := nameG_low c r.name off t h12 hlow
  have hcom : r.writeCommon.length = 8 := by rw [RR.writeCommon_eq]; simp
  unfold RR.writeG at ha
  obtain ⟨⟨rd, t2⟩, hrd, ha⟩ := Out.bind_eq_ok ha
  simp only [Out.pure_eq, Out.ok.injEq, Prod.mk.injEq] at ha
  obtain ⟨rfl, rfl⟩ := ha
  rw [hcom] at hrd
  generalize nameG c r.name off t = nb at hN hL hrd ⊢
  have := rdata_shape c r.rdata (off + nb.1.length + 8 + 2) nb.2 hwf.2.2.1 rd t2 hrd
    (out ++ (nb.1 ++ (r.writeCommon ++ beN 2 (if c then rd.length else r.rdata.len)))) post
    (by simp [hcom, hlen]; omega)
    (by have := hN.inv.append (r.writeCommon ++ beN 2 (if c then rd.length else r.rdata.len))
        simpa using this)
    (by omega) hL
  intro x hx
  obtain ⟨e', h1, h2⟩ := this x (by simpa [Nat.add_assoc] using hx)
  refine ⟨e', by simpa only [List.append_assoc] using h1, ?_⟩
  simp only [List.length_append, hcom, beN_length]
  omega

/-- **One question.** The bytes that `Question.writeG` appends after `out` are walked as one entry
that starts where the question was written and ends where the written bytes end; its name has the
shape `OwnerShape`. -/
theorem question_entry (c : Bool) (q : Question) (hwf : q.WF) (off : Nat) (t : Table)
    (out post : Bytes) (hlen : out.length = off) (hinv : TInv out t) (h12 : 12 ≤ off)
    (hlow : TLow t) :
    ∃ e, Spec.walkQuestion (out ++ ((q.writeG c off t).1 ++ post)) off = some e ∧ e.off = off ∧
      e.next = off + (q.writeG c off t).1.length ∧
      QuOK (out ++ ((q.writeG c off t).1 ++ post)) q e ∧
      OwnerShape (out ++ ((q.writeG c off t).1 ++ post)) off e.nameEnd q.name ∧
      TInv (out ++ (q.writeG c off t).1) (q.writeG c off t).2 ∧ TLow (q.writeG c off t).2 := by
  have hS := Question.writeG_spec c q off t out hwf hlen hinv
  have hdec := hS.dec post
  rw [hlen] at hdec
  obtain ⟨e, he, hoff, hnext, hok⟩ := Framing.Question.parse_frame hdec
  refine ⟨e, he, hoff, hnext.symm, hok, ?_, hS.inv, nameG_low c q.name off t h12 hlow⟩
  obtain ⟨_, hskip, _⟩ := C04C07C11.walkQuestion_fields he
  have hN := nameG_spec c q.name off t out hwf.1.labelsOK hlen hinv
  have hp := hN.parse hwf.1.2 (q.writeCommon ++ post)
  have hsk := Framing.skipName_of_parse hp
  rw [hlen] at hsk
  simp only [Question.writeG, List.append_assoc] at hskip ⊢
  rw [hsk] at hskip
  rw [← Option.some.inj hskip]
  exact nameG_shape c q.name off t out (q.writeCommon ++ post) hwf.1.labelsOK hlen hinv hlow

/-! ## 3. blocks: the sites of a section cut along the walked entries -/

/-- `RecBlocks d rs es L`: the site list `L` is, record by record and entry by entry in the same
order, one *owner-name site* at the walked entry's offset `e.off` carrying the record's owner
name (which is what the RFC relation `Decodes` reads at `e.off`, and whose octets between `e.off`
and `e.nameEnd` have the shape `OwnerShape`), followed by the record's RDATA name sites, all of
which start inside the entry's RDATA window `e.rdStart ≤ off < e.next`, have the shape `SiteShape`
(in full where compression is not allowed, else in full or a prefix and one pointer to an offset
`12 ≤ q < off`), and whose octets end inside the window too (`e' ≤ e.next`).
The owner site is compressible, except for the root owner name of the OPT pseudo-record. -/
inductive RecBlocks (d : Bytes) : List RR → List Spec.REntry → List Site → Prop where
  | nil : RecBlocks d [] [] []
  | cons {r : RR} {e : Spec.REntry} {s : Site} {rd : List Site} {rs : List RR}
      {es : List Spec.REntry} {rest : List Site} :
      s.off = e.off → s.name = r.name → (s.compressible = true ∨ r.name = []) →
      Decodes d e.off r.name → OwnerShape d e.off e.nameEnd r.name →
      (∀ x ∈ rd, e.rdStart ≤ x.off ∧ x.off < e.next ∧ ∃ e', SiteShape d x e' ∧ e' ≤ e.next) →
      RecBlocks d rs es rest → RecBlocks d (r :: rs) (e :: es) (s :: (rd ++ rest))

/-- `QBlocks d qs es L`: the site list `L` is exactly one compressible site per question, at the
walked entry's offset, carrying the question's name (which `Decodes` reads there, and whose
octets have the shape `OwnerShape`). -/
inductive QBlocks (d : Bytes) : List Question → List Spec.QEntry → List Site → Prop where
  | nil : QBlocks d [] [] []
  | cons {q : Question} {e : Spec.QEntry} {s : Site} {qs : List Question}
      {es : List Spec.QEntry} {rest : List Site} :
      s.off = e.off → s.name = q.name → s.compressible = true → Decodes d e.off q.name →
      OwnerShape d e.off e.nameEnd q.name →
      QBlocks d qs es rest → QBlocks d (q :: qs) (e :: es) (s :: rest)

/-- the blocks of two consecutive record lists are the blocks of their concatenation -/
theorem RecBlocks.append {d : Bytes} {rs1 rs2 : List RR} {es1 es2 : List Spec.REntry}
    {L1 L2 : List Site} (h1 : RecBlocks d rs1 es1 L1) (h2 : RecBlocks d rs2 es2 L2) :
    RecBlocks d (rs1 ++ rs2) (es1 ++ es2) (L1 ++ L2) := by
  induction h1 with
  | nil => exact h2
  | cons a b c dd sh w _ ih =>
    have := RecBlocks.cons a b c dd sh w ih
    simpa [List.append_assoc] using this

/-- blocks pair records and walked entries one to one -/
theorem RecBlocks.length_eq {d : Bytes} {rs : List RR} {es : List Spec.REntry} {L : List Site}
    (h : RecBlocks d rs es L) : es.length = rs.length := by
  induction h with
  | nil => rfl
  | cons _ _ _ _ _ _ _ ih => simp [ih]

/-- the question blocks pair questions, walked entries and sites one to one -/
theorem QBlocks.length_eq {d : Bytes} {qs : List Question} {es : List Spec.QEntry} {L : List Site}
    (h : QBlocks d qs es L) : es.length = qs.length ∧ L.length = qs.length := by
  induction h with
  | nil => exact ⟨rfl, rfl⟩
  | cons _ _ _ _ _ _ ih => simp [ih.1, ih.2]

/-- walking `n1` records and then `n2` more is walking `n1 + n2` records -/
theorem walkRecords_append (d : Bytes) (n1 : Nat) : ∀ (n2 off : Nat) (es1 es2 : List Spec.REntry)
    (p1 p2 : Nat), Spec.walkRecords d n1 off = some (es1, p1) →
    Spec.walkRecords d n2 p1 = some (es2, p2) →
    Spec.walkRecords d (n1 + n2) off = some (es1 ++ es2, p2) := by
  induction n1 with
  | zero =>
    intro n2 off es1 es2 p1 p2 h1 h2
    simp only [Spec.walkRecords, Option.some.injEq, Prod.mk.injEq] at h1
    obtain ⟨rfl, rfl⟩ := h1
    simpa using h2
  | succ n ih =>
    intro n2 off es1 es2 p1 p2 h1 h2
    simp only [Spec.walkRecords, Option.bind_eq_bind, Option.bind_eq_some_iff] at h1
    obtain ⟨e, he, ⟨es', p'⟩, hes, h1⟩ := h1
    simp only [Option.pure_def, Option.some.injEq, Prod.mk.injEq] at h1
    obtain ⟨rfl, rfl⟩ := h1
    have := ih n2 e.next es' es2 p' p2 hes h2
    rw [show n + 1 + n2 = (n + n2) + 1 by omega]
    simp [Spec.walkRecords, he, this]

/-- **A record section.** The bytes `b` that `writeRRsG` appends after `out` are walked as
`rs.length` entries that end exactly where `b` ends, and the section's sites are cut into blocks
along these entries. -/
theorem rrs_blocks (c : Bool) (rs : List RR) : ∀ (off : Nat) (t : Table), (∀ r ∈ rs, r.WF) →
    ∀ (b : Bytes) (t' : Table), writeRRsG c rs off t = .ok (b, t') →
    ∀ (out post : Bytes), out.length = off → TInv out t → 12 ≤ off → TLow t →
    ∃ es, Spec.walkRecords (out ++ (b ++ post)) rs.length off = some (es, off + b.length) ∧
      RecBlocks (out ++ (b ++ post)) rs es (sitesRRs c rs off t) ∧ TLow t' := by
  induction rs with
  | nil =>
    intro off t _ b t' hw out post _ _ _ hlow
    simp only [writeRRsG, Out.ok.injEq, Prod.mk.injEq] at hw
    obtain ⟨rfl, rfl⟩ := hw
    exact ⟨[], by simp [Spec.walkRecords], RecBlocks.nil, hlow⟩
  | cons r rs ih =>
    intro off t hwf b t' hw out post hlen hinv h12 hlow
    simp only [writeRRsG] at hw
    obtain ⟨⟨a, ta⟩, ha, hw⟩ := Out.bind_eq_ok hw
    obtain ⟨⟨b', tb⟩, hb, hw⟩ := Out.bind_eq_ok hw
    simp only [Out.pure_eq, Out.ok.injEq, Prod.mk.injEq] at hw
    obtain ⟨rfl, rfl⟩ := hw
    have hr := hwf r (by simp)
    obtain ⟨e, he, hoff, hnext, hne, hok, hsh, hinv', hlow'⟩ :=
      rr_entry c r hr off t a ta ha out (b' ++ post) hlen hinv h12 hlow
    obtain ⟨es, hes, hbl, hlow''⟩ := ih (off + a.length) ta (fun x hx => hwf x (by simp [hx])) b' tb
      hb (out ++ a) post (by simp [hlen]) hinv' (by omega) hlow'
    have ed : out ++ ((a ++ b') ++ post) = out ++ (a ++ (b' ++ post)) := by simp
    have ed' : (out ++ a) ++ (b' ++ post) = out ++ (a ++ (b' ++ post)) := by simp
    rw [ed]
    rw [ed'] at hes hbl
    refine ⟨e :: es, ?_, ?_, hlow''⟩
    · simp only [List.length_cons, Spec.walkRecords, he, hnext, hes, Option.bind_eq_bind,
        Option.bind_some, Option.pure_def, List.length_append, Nat.add_assoc]
    · simp only [sitesRRs, ha, afterG, RR.sites, List.cons_append]
      refine RecBlocks.cons hoff.symm rfl (Or.inl rfl) hok.1 (hoff ▸ hsh) ?_ hbl
      intro x hx
      have h1 := C04C07C11.rdata_sites_ge c r.rdata _ _ x hx
      have hshape : ∃ e', SiteShape (out ++ (a ++ (b' ++ post))) x e' ∧ e' ≤ e.next := by
        obtain ⟨e', q1, q2⟩ := rr_rdata_shapes c r hr off t a ta ha out (b' ++ post) hlen hinv h12
          hlow x hx
        exact ⟨e', q1, by omega⟩
      refine ⟨?_, ?_, hshape⟩ <;> clear hshape
      all_goals
      -- the RDATA bytes
      unfold RR.writeG at ha
      obtain ⟨⟨rd, t2⟩, hrd, ha⟩ := Out.bind_eq_ok ha
      simp only [Out.pure_eq, Out.ok.injEq, Prod.mk.injEq] at ha
      obtain ⟨rfl, rfl⟩ := ha
      have hcom : r.writeCommon.length = 8 := by rw [RR.writeCommon_eq]; simp
      rw [hcom] at hrd
      have h2 := rdata_sites_lt c r.rdata _ _ rd _ hrd x
        (by simpa [Nat.add_assoc] using hx)
      simp only [Spec.REntry.rdStart, Spec.REntry.next] at hnext ⊢
      simp only [List.length_append, hcom, beN_length] at hnext
      omega

/-- **The question section.** The bytes that `writeQuestionsG` appends after `out` are walked as
`qs.length` entries that end exactly where the bytes end; the section's sites are the entries'
offsets with the questions' names, in order. -/
theorem qs_blocks (c : Bool) (qs : List Question) : ∀ (off : Nat) (t : Table) (out post : Bytes),
    (∀ q ∈ qs, q.WF) → out.length = off → TInv out t → 12 ≤ off → TLow t →
    ∃ es, Spec.walkQuestions (out ++ ((writeQuestionsG c qs off t).1 ++ post)) qs.length off
        = some (es, off + (writeQuestionsG c qs off t).1.length) ∧
      QBlocks (out ++ ((writeQuestionsG c qs off t).1 ++ post)) qs es (sitesQuestions c qs off t) ∧
      TLow (writeQuestionsG c qs off t).2 := by
  induction qs with
  | nil =>
    intro off t out post _ _ _ _ hlow
    exact ⟨[], by simp [Spec.walkQuestions, writeQuestionsG], QBlocks.nil, hlow⟩
  | cons q qs ih =>
    intro off t out post hwf hlen hinv h12 hlow
    simp only [writeQuestionsG, sitesQuestions, Question.sites]
    obtain ⟨e, he, hoff, hnext, hok, hsh, hinv', hlow'⟩ :=
      question_entry c q (hwf q (by simp)) off t out
        ((writeQuestionsG c qs (off + (q.writeG c off t).1.length) (q.writeG c off t).2).1 ++ post)
        hlen hinv h12 hlow
    obtain ⟨es, hes, hbl, hlow''⟩ := ih (off + (q.writeG c off t).1.length) (q.writeG c off t).2
      (out ++ (q.writeG c off t).1) post (fun x hx => hwf x (by simp [hx])) (by simp [hlen]) hinv'
      (by omega) hlow'
    generalize writeQuestionsG c qs (off + (q.writeG c off t).1.length) (q.writeG c off t).2 = r
      at he hok hsh hes hbl hlow'' ⊢
    have ed : out ++ (((q.writeG c off t).1 ++ r.1) ++ post)
        = out ++ ((q.writeG c off t).1 ++ (r.1 ++ post)) := by simp
    have ed' : (out ++ (q.writeG c off t).1) ++ (r.1 ++ post)
        = out ++ ((q.writeG c off t).1 ++ (r.1 ++ post)) := by simp
    rw [ed]
    rw [ed'] at hes hbl
    refine ⟨e :: es, ?_, ?_, hlow''⟩
    · simp only [List.length_cons, Spec.walkQuestions, he, hnext, hes, Option.bind_eq_bind,
        Option.bind_some, Option.pure_def, List.length_append, Nat.add_assoc]
    · exact QBlocks.cons hoff.symm rfl rfl hok.1 (hoff ▸ hsh) hbl

/-- the OPT pseudo-record: `Packet.sitesG` lists its root owner name as a site that is not
compressible (it is written by the plain `write_to`); it is a block of its own -/
theorem opt_blocks {d : Bytes} (h : Header) {es : List Spec.REntry} {off : Nat} {t : Table}
    (hb : RecBlocks d h.optRR.toList es (sitesRRs false h.optRR.toList off t)) :
    RecBlocks d h.optRR.toList es (h.optRR.toList.map fun _ => (⟨off, [], false⟩ : Site)) := by
  cases ho : h.opt with
  | none =>
    simp only [Header.optRR, ho, Option.map_none, Option.toList_none, List.map_nil] at hb ⊢
    generalize sitesRRs false [] off t = L at hb
    cases hb
    exact RecBlocks.nil
  | some o =>
    simp only [Header.optRR, ho, Option.map_some, Option.toList_some, List.map_cons,
      List.map_nil] at hb ⊢
    generalize hL : sitesRRs false [_] off t = L at hb
    cases hb with
    | cons h1 h2 h3 h4 hsh h5 h6 =>
      cases h6
      simp only [sitesRRs, RR.sites, RData.sites, List.append_nil, List.cons.injEq] at hL
      obtain ⟨rfl, _⟩ := hL
      exact RecBlocks.cons (rd := []) (rest := []) h1 rfl (Or.inr rfl) h4 hsh
        (fun x hx => by cases hx) RecBlocks.nil

/-! ## 4. the whole message -/

/-- `SitesWalked c p b w`: the name sites of the message (`Packet.sitesG`, computed from the
writer) cut along the entries of the walk `w` (computed by the independent RFC 1035 walker from
the bytes `b` alone): one site per walked question entry, then for each walked record entry of
the answer, authority and additional sections (the OPT pseudo-record, if any, being the first
additional entry) the owner-name site at the entry's offset followed by the record's RDATA name
sites, inside the entry's RDATA window. -/
def SitesWalked (c : Bool) (p : Packet) (b : Bytes) (w : Spec.Walk) : Prop :=
  ∃ Lq La Ln Lr, p.sitesG c = Lq ++ (La ++ (Ln ++ Lr)) ∧
    QBlocks b p.questions w.questions Lq ∧ RecBlocks b p.answers w.answers La ∧
    RecBlocks b p.nameServers w.nameServers Ln ∧
    RecBlocks b (p.header.optRR.toList ++ p.additional) w.additional Lr

/-- the four section walks behind a successful `Spec.walk`, each starting where the previous one
stopped, the first at offset 12, with the header counts equal to the numbers of entries found -/
theorem walk_unfold {d : Bytes} {w : Spec.Walk} (h : Spec.walk d = some w) :
    ∃ p1 p2 p3, Spec.walkQuestions d w.questions.length 12 = some (w.questions, p1) ∧
      Spec.walkRecords d w.answers.length p1 = some (w.answers, p2) ∧
      Spec.walkRecords d w.nameServers.length p2 = some (w.nameServers, p3) ∧
      Spec.walkRecords d w.additional.length p3 = some (w.additional, w.stop) := by
  obtain ⟨f1, f2, f3, f4⟩ := walk_counts h
  unfold Spec.walk at h
  simp only [Option.bind_eq_bind, Option.bind_eq_some_iff] at h
  obtain ⟨qd, hqd, an, han, ns, hns, ar, har, ⟨qs, p1⟩, hqs, ⟨a, p2⟩, ha, ⟨n, p3⟩, hn,
    ⟨r, p4⟩, hr, h⟩ := h
  simp only [Option.pure_def, Option.some.injEq] at h
  subst h
  rw [hqd] at f1; rw [han] at f2; rw [hns] at f3; rw [har] at f4
  simp only [Option.some.injEq] at f1 f2 f3 f4
  subst f1 f2 f3 f4
  exact ⟨p1, p2, p3, hqs, ha, hn, hr⟩

/-- **The sites are walked** (existential form, for both writers). For a well-formed packet the
built bytes walk, the walk ends at the end of the message, and the sites are cut along it. -/
theorem sites_blocks (c : Bool) (p : Packet) (hwf : p.WF) :
    ∃ b w, p.buildG c = .ok b ∧ Spec.walk b = some w ∧ w.stop = b.length ∧ SitesWalked c p b w := by
  obtain ⟨qs, an, t1, ns, t2, ob, ar, t3, hqs, hwan, hwns, hwo, hwar, hbuild, hhl, hQ, hAN, hNS,
    hO, hAR⟩ := Wr.buildG_sections c p hwf
  obtain ⟨b, w, hb, hw, hstop, cq, ca, cn, cr⟩ := C04C07C11.framed_entries c p hwf
  rw [hbuild] at hb
  simp only [Out.ok.injEq] at hb
  subst hb
  refine ⟨_, w, hbuild, hw, hstop, ?_⟩
  obtain ⟨p1, p2, p3, hwq, hwa, hwn, hwr⟩ := walk_unfold hw
  rw [← cq.length_eq] at hwq
  rw [← ca.length_eq] at hwa
  rw [← cn.length_eq] at hwn
  rw [← cr.length_eq, List.length_append] at hwr
  have hoptwf := Wr.optRR_WF p hwf.1
  obtain ⟨_, _, _, _, _, hqwf, hanwf, hnswf, harwf, _⟩ := hwf
  -- questions
  obtain ⟨eq, hweq, bq, l1⟩ := qs_blocks c p.questions 12 [] p.writeHeader (an ++ (ns ++ (ob ++ ar)))
    hqwf hhl (TInv.nil _) (Nat.le_refl _) C04C07C11.TLow.nil
  rw [hqs] at hweq bq l1
  rw [hwq] at hweq
  simp only [Option.some.injEq, Prod.mk.injEq] at hweq
  obtain ⟨rfl, rfl⟩ := hweq
  -- answers
  obtain ⟨ea, hwea, ba, l2⟩ := rrs_blocks c p.answers (12 + qs.1.length) qs.2 hanwf an t1 hwan
    (p.writeHeader ++ qs.1) (ns ++ (ob ++ ar)) (by simp [hhl]) hQ.inv (by omega) l1
  simp only [List.append_assoc] at hwea ba
  rw [hwa] at hwea
  simp only [Option.some.injEq, Prod.mk.injEq] at hwea
  obtain ⟨rfl, rfl⟩ := hwea
  -- authority
  obtain ⟨en, hwen, bn, l3⟩ := rrs_blocks c p.nameServers (12 + qs.1.length + an.length) t1 hnswf
    ns t2 hwns (p.writeHeader ++ qs.1 ++ an) (ob ++ ar) (by simp [hhl]; omega) hAN.inv (by omega) l2
  simp only [List.append_assoc] at hwen bn
  rw [hwn] at hwen
  simp only [Option.some.injEq, Prod.mk.injEq] at hwen
  obtain ⟨rfl, rfl⟩ := hwen
  -- the OPT pseudo-record, then the additional records
  have hwo' : writeRRsG false p.header.optRR.toList (12 + qs.1.length + an.length + ns.length) t2
      = .ok (ob, t2) := by rw [writeRRsG_false, hwo]; rfl
  obtain ⟨eo, hweo, bo, _⟩ := rrs_blocks false p.header.optRR.toList
    (12 + qs.1.length + an.length + ns.length) t2 hoptwf ob t2 hwo'
    (p.writeHeader ++ qs.1 ++ an ++ ns) ar (by simp [hhl]; omega) hNS.inv (by omega) l3
  obtain ⟨er, hwer, br, _⟩ := rrs_blocks c p.additional
    (12 + qs.1.length + an.length + ns.length + ob.length) t2 harwf ar t3 hwar
    (p.writeHeader ++ qs.1 ++ an ++ ns ++ ob) [] (by simp [hhl]; omega) hO.inv (by omega) l3
  simp only [List.append_assoc, List.append_nil] at hweo bo hwer br
  have hwor := walkRecords_append _ _ _ _ _ _ _ _ hweo hwer
  rw [hwr] at hwor
  simp only [Option.some.injEq, Prod.mk.injEq] at hwor
  obtain ⟨hwe, _⟩ := hwor
  refine ⟨_, _, _, _, ?_, bq, ba, bn, hwe ▸ (opt_blocks p.header bo).append br⟩
  simp only [Packet.sitesG, hqs, hwan, hwns, hwo, afterG]

/-- **`sites_are_walked`.** Let `p` be well-formed, `b` the bytes of `Packet::write_to`
(`c = false`) or of `Packet::write_compressed_to` (`c = true`), and `w` the walk of `b` by the
independent RFC 1035 §4.1 walker. Then the writer's own list of name sites is cut along the walked
entries, in order: questions, answers, authority, the OPT pseudo-record (if any), additional.
The offset of each question-name / owner-name site *is* the `off` field of the corresponding
walked entry, the name at the site is what `Decodes` reads at that offset, and the RDATA name
sites of a record lie inside the RDATA window `e.rdStart ≤ off < e.next` of the record's entry. -/
theorem sites_are_walked (c : Bool) (p : Packet) (hwf : p.WF) (b : Bytes) (hb : p.buildG c = .ok b)
    (w : Spec.Walk) (hw : Spec.walk b = some w) : w.stop = b.length ∧ SitesWalked c p b w := by
  obtain ⟨b', w', hb', hw', hstop, h⟩ := sites_blocks c p hwf
  rw [hb] at hb'
  simp only [Out.ok.injEq] at hb'
  subst hb'
  rw [hw] at hw'
  simp only [Option.some.injEq] at hw'
  subst hw'
  exact ⟨hstop, h⟩

/-! ### reading the blocks entry by entry -/

/-- what a block says about its record and its entry: the record's owner name is what `Decodes`
reads at the entry's offset, and the site list has a site with exactly this offset and name -/
def OwnerSite (d : Bytes) (L : List Site) (name : Name) (off : Nat) : Prop :=
  Decodes d off name ∧ ∃ s ∈ L, s.off = off ∧ s.name = name ∧ (s.compressible = true ∨ name = [])

/-- an owner site of a sublist is an owner site of the whole list -/
theorem OwnerSite.mono {d : Bytes} {L L' : List Site} {name : Name} {off : Nat}
    (h : OwnerSite d L name off) (hsub : ∀ s ∈ L, s ∈ L') : OwnerSite d L' name off :=
  let ⟨hd, s, hs, r⟩ := h
  ⟨hd, s, hsub s hs, r⟩

/-- entry by entry: the `i`-th record of a section and the `i`-th walked entry share an owner site -/
theorem RecBlocks.corr {d : Bytes} {rs : List RR} {es : List Spec.REntry} {L : List Site}
    (h : RecBlocks d rs es L) : Corr (fun r e => OwnerSite d L r.name e.off) rs es := by
  induction h with
  | nil => exact Corr.nil
  | @cons r e s rd rs es rest h1 h2 h3 h4 _ _ _ ih =>
    refine Corr.cons ⟨h4, s, by simp, h1, h2, h3⟩ ?_
    exact C04C07C11.corr_imp_mem ih fun a b _ hab =>
      hab.mono fun x hx => List.mem_cons_of_mem _ (List.mem_append_right _ hx)

/-- entry by entry: the `i`-th question and the `i`-th walked question entry share a site -/
theorem QBlocks.corr {d : Bytes} {qs : List Question} {es : List Spec.QEntry} {L : List Site}
    (h : QBlocks d qs es L) : Corr (fun q e => OwnerSite d L q.name e.off) qs es := by
  induction h with
  | nil => exact Corr.nil
  | @cons q e s qs es rest h1 h2 h3 h4 _ _ ih =>
    refine Corr.cons ⟨h4, s, by simp, h1, h2, Or.inl h3⟩ ?_
    exact C04C07C11.corr_imp_mem ih fun a b _ hab =>
      hab.mono fun x hx => List.mem_cons_of_mem _ hx

/-- every site of a record section is the owner site of a walked entry or lies in the RDATA window
of a walked entry -/
theorem RecBlocks.classify {d : Bytes} {rs : List RR} {es : List Spec.REntry} {L : List Site}
    (h : RecBlocks d rs es L) : ∀ x ∈ L, ∃ e ∈ es,
      x.off = e.off ∨ (e.rdStart ≤ x.off ∧ x.off < e.next) := by
  induction h with
  | nil => intro x hx; cases hx
  | @cons r e s rd rs es rest h1 _ _ _ _ h5 _ ih =>
    intro x hx
    simp only [List.mem_cons, List.mem_append] at hx
    rcases hx with rfl | hx | hx
    · exact ⟨e, by simp, Or.inl h1⟩
    · exact ⟨e, by simp, Or.inr ⟨(h5 x hx).1, (h5 x hx).2.1⟩⟩
    · obtain ⟨e', he', h⟩ := ih x hx
      exact ⟨e', by simp [he'], h⟩

/-- every site of the question section is at the offset of a walked question entry -/
theorem QBlocks.classify {d : Bytes} {qs : List Question} {es : List Spec.QEntry} {L : List Site}
    (h : QBlocks d qs es L) : ∀ x ∈ L, ∃ e ∈ es, x.off = e.off := by
  induction h with
  | nil => intro x hx; cases hx
  | @cons q e s qs es rest h1 _ _ _ _ _ ih =>
    intro x hx
    simp only [List.mem_cons] at hx
    rcases hx with rfl | hx
    · exact ⟨e, by simp, h1⟩
    · obtain ⟨e', he', h⟩ := ih x hx
      exact ⟨e', by simp [he'], h⟩

/-- **Every walked entry has its site, and the names agree** (entry-by-entry form of
`sites_are_walked`): the `i`-th question / record of each section and the `i`-th walked entry of
that section: the record's owner name is the RFC decoding at the entry's offset, and
`Packet.sitesG` has a site at exactly this offset with exactly this name, compressible unless it
is the root name of the OPT pseudo-record. -/
theorem walked_entries_have_sites (c : Bool) (p : Packet) (hwf : p.WF) (b : Bytes)
    (hb : p.buildG c = .ok b) (w : Spec.Walk) (hw : Spec.walk b = some w) :
    Corr (fun q e => OwnerSite b (p.sitesG c) q.name e.off) p.questions w.questions ∧
    Corr (fun r e => OwnerSite b (p.sitesG c) r.name e.off) p.answers w.answers ∧
    Corr (fun r e => OwnerSite b (p.sitesG c) r.name e.off) p.nameServers w.nameServers ∧
    Corr (fun r e => OwnerSite b (p.sitesG c) r.name e.off)
      (p.header.optRR.toList ++ p.additional) w.additional := by
  obtain ⟨_, Lq, La, Ln, Lr, hL, bq, ba, bn, br⟩ := sites_are_walked c p hwf b hb w hw
  rw [hL]
  exact ⟨C04C07C11.corr_imp_mem bq.corr fun _ _ _ h => h.mono fun x hx => by simp [hx],
    C04C07C11.corr_imp_mem ba.corr fun _ _ _ h => h.mono fun x hx => by simp [hx],
    C04C07C11.corr_imp_mem bn.corr fun _ _ _ h => h.mono fun x hx => by simp [hx],
    C04C07C11.corr_imp_mem br.corr fun _ _ _ h => h.mono fun x hx => by simp [hx]⟩

/-- **Every site is walked**: each site of `Packet.sitesG` is at the offset of a walked entry
(question names, owner names) or starts inside the RDATA window of a walked record entry. -/
theorem sites_classified (c : Bool) (p : Packet) (hwf : p.WF) (b : Bytes)
    (hb : p.buildG c = .ok b) (w : Spec.Walk) (hw : Spec.walk b = some w) :
    ∀ s ∈ p.sitesG c, (∃ e ∈ w.questions, s.off = e.off) ∨
      ∃ e ∈ w.answers ++ (w.nameServers ++ w.additional),
        s.off = e.off ∨ (e.rdStart ≤ s.off ∧ s.off < e.next) := by
  obtain ⟨_, Lq, La, Ln, Lr, hL, bq, ba, bn, br⟩ := sites_are_walked c p hwf b hb w hw
  intro s hs
  rw [hL] at hs
  simp only [List.mem_append] at hs
  rcases hs with hs | hs | hs | hs
  · exact Or.inl (bq.classify s hs)
  · obtain ⟨e, he, h⟩ := ba.classify s hs
    exact Or.inr ⟨e, by simp [he], h⟩
  · obtain ⟨e, he, h⟩ := bn.classify s hs
    exact Or.inr ⟨e, by simp [he], h⟩
  · obtain ⟨e, he, h⟩ := br.classify s hs
    exact Or.inr ⟨e, by simp [he], h⟩

/-- entry by entry: the octets of each owner name have the shape `OwnerShape` -/
theorem RecBlocks.shapes {d : Bytes} {rs : List RR} {es : List Spec.REntry} {L : List Site}
    (h : RecBlocks d rs es L) : Corr (fun r e => OwnerShape d e.off e.nameEnd r.name) rs es := by
  induction h with
  | nil => exact Corr.nil
  | cons _ _ _ _ hsh _ _ ih => exact Corr.cons hsh ih

/-- entry by entry: the octets of each question name have the shape `OwnerShape` -/
theorem QBlocks.shapes {d : Bytes} {qs : List Question} {es : List Spec.QEntry} {L : List Site}
    (h : QBlocks d qs es L) : Corr (fun q e => OwnerShape d e.off e.nameEnd q.name) qs es := by
  induction h with
  | nil => exact Corr.nil
  | cons _ _ _ _ hsh _ ih => exact Corr.cons hsh ih

/-- **The shape of every walked owner name** (both writers). For the `i`-th question / record of
each section and the `i`-th walked entry `e`: the octets from `e.off` up to the walker's own end
of the name `e.nameEnd` are either the name in full, or the labels of a prefix and one pointer
whose target `q` satisfies `12 ≤ q < e.off` (strictly before the first octet of this name),
`q ≤ 16383`, and `Enc b q suf` for the remaining labels. With `c = false` only the first case
occurs at the writer, but the statement is uniform. -/
theorem walked_owner_shapes (c : Bool) (p : Packet) (hwf : p.WF) (b : Bytes)
    (hb : p.buildG c = .ok b) (w : Spec.Walk) (hw : Spec.walk b = some w) :
    Corr (fun q e => OwnerShape b e.off e.nameEnd q.name) p.questions w.questions ∧
    Corr (fun r e => OwnerShape b e.off e.nameEnd r.name) p.answers w.answers ∧
    Corr (fun r e => OwnerShape b e.off e.nameEnd r.name) p.nameServers w.nameServers ∧
    Corr (fun r e => OwnerShape b e.off e.nameEnd r.name)
      (p.header.optRR.toList ++ p.additional) w.additional := by
  obtain ⟨_, Lq, La, Ln, Lr, _, bq, ba, bn, br⟩ := sites_are_walked c p hwf b hb w hw
  exact ⟨bq.shapes, ba.shapes, bn.shapes, br.shapes⟩

/-- a root name that has the shape `OwnerShape` is the single zero octet -/
theorem OwnerShape.root_full {d : Bytes} {off e : Nat} (h : OwnerShape d off e []) :
    (d.drop off).take (Name.write []).length = Name.write [] := by
  rcases h with h | ⟨pre, suf, q, h1, h2, _⟩
  · exact h.1
  · exfalso
    cases pre with
    | nil => exact h2 (by simpa using h1.symm)
    | cons x xs => simp at h1

/-- every site of a record section (owner names and RDATA names) has the shape `SiteShape` -/
theorem RecBlocks.site_shapes {d : Bytes} {rs : List RR} {es : List Spec.REntry} {L : List Site}
    (h : RecBlocks d rs es L) : ∀ x ∈ L, ∃ e', SiteShape d x e' := by
  induction h with
  | nil => intro x hx; cases hx
  | @cons r e s rd rs es rest h1 h2 h3 _ hsh h5 _ ih =>
    intro x hx
    simp only [List.mem_cons, List.mem_append] at hx
    rcases hx with rfl | hx | hx
    · refine ⟨e.nameEnd, by rw [h1, h2]; exact hsh, fun hc => ?_⟩
      rcases h3 with h3 | h3
      · rw [h3] at hc; cases hc
      · rw [h2, h3]
        rw [h3] at hsh
        rw [h1]
        exact hsh.root_full
    · obtain ⟨e', q, _⟩ := (h5 x hx).2.2
      exact ⟨e', q⟩
    · exact ih x hx

/-- every site of the question section has the shape `SiteShape` -/
theorem QBlocks.site_shapes {d : Bytes} {qs : List Question} {es : List Spec.QEntry}
    {L : List Site} (h : QBlocks d qs es L) : ∀ x ∈ L, ∃ e', SiteShape d x e' := by
  induction h with
  | nil => intro x hx; cases hx
  | @cons q e s qs es rest h1 h2 h3 _ hsh _ ih =>
    intro x hx
    rcases List.mem_cons.mp hx with rfl | hx
    · exact ⟨e.nameEnd, by rw [h1, h2]; exact hsh, fun hc => by rw [h3] at hc; cases hc⟩
    · exact ih x hx

/-- **`every_site_shape`: C07's main clause for every name of the message, with the pointer
strictly before the name.** In the bytes of either writer for a well-formed packet, at every name
site (question names, owner names, RDATA names, in every section) the octets are the name in
full — always so where compression is not allowed (SRV, NAPTR, KX, RRSIG, NSEC, SVCB/HTTPS
targets, the IPSECKEY gateway, the OPT owner) — or the labels of a prefix followed by exactly one
pointer whose target `q` is past the header (`12 ≤ q`), strictly before the first octet of the
name being written (`q < s.off`: the pointer never points into its own name), at most 16383, and
the start of a complete encoding of the remaining labels. This sharpens `pointers_valid`
(`Enc` only bounds a pointer by its own position) and `pointer_target_past_header`. -/
theorem every_site_shape (c : Bool) (p : Packet) (hwf : p.WF) (b : Bytes)
    (hb : p.buildG c = .ok b) : ∀ s ∈ p.sitesG c, ∃ e', SiteShape b s e' := by
  obtain ⟨b', w, hb', _, _, Lq, La, Ln, Lr, hL, bq, ba, bn, br⟩ := sites_blocks c p hwf
  rw [hb] at hb'
  simp only [Out.ok.injEq] at hb'
  subst hb'
  intro s hs
  rw [hL] at hs
  simp only [List.mem_append] at hs
  rcases hs with hs | hs | hs | hs
  · exact bq.site_shapes s hs
  · exact ba.site_shapes s hs
  · exact bn.site_shapes s hs
  · exact br.site_shapes s hs

/-! ### the owner sites are *exactly* the walked offsets

The classification "owner-name site / RDATA-name site" of `Packet.sitesG` comes from the writer.
It can be replaced by one that only looks at the walk: a site is an RDATA site iff its offset
lies in the RDATA window of some walked record. -/

/-- the record entries of a walk, in message order -/
def records (w : Spec.Walk) : List Spec.REntry := w.answers ++ (w.nameServers ++ w.additional)

/-- the offsets of all walked entries, in message order -/
def entryOffs (w : Spec.Walk) : List Nat := w.questions.map (·.off) ++ (records w).map (·.off)

/-- the offset lies in the RDATA window of one of the walked records -/
def inRdata (w : Spec.Walk) (off : Nat) : Bool :=
  (records w).any fun e => decide (e.rdStart ≤ off) && decide (off < e.next)

/-- the in-place form of a name takes at least one octet -/
theorem inPlaceEnd_lt {d : Bytes} {off e : Nat} (h : InPlaceEnd d off e) : off < e := by
  induction h with
  | root _ => omega
  | label _ _ _ _ ih => omega
  | ptr _ _ => omega

/-- a walked record: owner name, then ten octets, then the RDATA -/
theorem walkRecord_layout {d : Bytes} {off : Nat} {e : Spec.REntry}
    (h : Spec.walkRecord d off = some e) : e.off = off ∧ e.off < e.rdStart ∧ e.rdStart ≤ e.next := by
  obtain ⟨h1, h2, _⟩ := C04C07C11.walkRecord_fields h
  have := inPlaceEnd_lt (Framing.inPlaceEnd_of_skipName h2).1
  simp only [Spec.REntry.rdStart, Spec.REntry.next]
  omega

/-- the entries of a walked record section lie one after the other from `off` to the end `p`,
and no entry starts inside the RDATA of an entry -/
theorem walkRecords_layout {d : Bytes} {n : Nat} : ∀ {off : Nat} {es : List Spec.REntry} {p : Nat},
    Spec.walkRecords d n off = some (es, p) →
    off ≤ p ∧ (∀ e ∈ es, off ≤ e.off ∧ e.off < e.rdStart ∧ e.next ≤ p) ∧
    (∀ e ∈ es, ∀ e' ∈ es, ¬ (e'.rdStart ≤ e.off ∧ e.off < e'.next)) := by
  induction n with
  | zero =>
    intro off es p h
    simp only [Spec.walkRecords, Option.some.injEq, Prod.mk.injEq] at h
    obtain ⟨rfl, rfl⟩ := h
    exact ⟨Nat.le_refl _, fun e he => (by cases he), fun e he => (by cases he)⟩
  | succ n ih =>
    intro off es p h
    simp only [Spec.walkRecords, Option.bind_eq_bind, Option.bind_eq_some_iff] at h
    obtain ⟨e0, he0, ⟨es', p'⟩, hes, h⟩ := h
    simp only [Option.pure_def, Option.some.injEq, Prod.mk.injEq] at h
    obtain ⟨rfl, rfl⟩ := h
    obtain ⟨l1, l2, l3⟩ := walkRecord_layout he0
    obtain ⟨i1, i2, i3⟩ := ih hes
    refine ⟨by omega, ?_, ?_⟩
    · intro e he
      rcases List.mem_cons.mp he with rfl | he
      · omega
      · have := i2 e he; omega
    · intro e he e' he'
      rcases List.mem_cons.mp he with h | h <;> rcases List.mem_cons.mp he' with h' | h'
      · subst h h'; omega
      · subst h; have := i2 e' h'; omega
      · subst h'; have := i2 e h; omega
      · exact i3 e h e' h'

/-- the entries of the walked question section start before the end of the section -/
theorem walkQuestions_layout {d : Bytes} {n : Nat} : ∀ {off : Nat} {es : List Spec.QEntry} {p : Nat},
    Spec.walkQuestions d n off = some (es, p) → off ≤ p ∧ ∀ e ∈ es, e.off < p := by
  induction n with
  | zero =>
    intro off es p h
    simp only [Spec.walkQuestions, Option.some.injEq, Prod.mk.injEq] at h
    obtain ⟨rfl, rfl⟩ := h
    exact ⟨Nat.le_refl _, fun e he => (by cases he)⟩
  | succ n ih =>
    intro off es p h
    simp only [Spec.walkQuestions, Option.bind_eq_bind, Option.bind_eq_some_iff] at h
    obtain ⟨e0, he0, ⟨es', p'⟩, hes, h⟩ := h
    simp only [Option.pure_def, Option.some.injEq, Prod.mk.injEq] at h
    obtain ⟨rfl, rfl⟩ := h
    obtain ⟨h1, h2, _⟩ := C04C07C11.walkQuestion_fields he0
    have hlt := inPlaceEnd_lt (Framing.inPlaceEnd_of_skipName h2).1
    obtain ⟨i1, i2⟩ := ih hes
    simp only [Spec.QEntry.next] at i1 i2 hes
    refine ⟨by omega, ?_⟩
    intro e he
    rcases List.mem_cons.mp he with rfl | he
    · omega
    · exact i2 e he

/-- **No walked entry starts inside the RDATA of a walked record**: the offset of every walked
entry (question or record) is outside every RDATA window of the walk. A fact about the walker
alone. -/
theorem entry_not_inRdata {d : Bytes} {w : Spec.Walk} (h : Spec.walk d = some w) :
    (∀ e ∈ w.questions, inRdata w e.off = false) ∧ (∀ e ∈ records w, inRdata w e.off = false) := by
  obtain ⟨p1, p2, p3, hq, ha, hn, hr⟩ := walk_unfold h
  have hall := walkRecords_append _ _ _ _ _ _ _ _ ha (walkRecords_append _ _ _ _ _ _ _ _ hn hr)
  obtain ⟨_, r2, r3⟩ := walkRecords_layout hall
  obtain ⟨_, q2⟩ := walkQuestions_layout hq
  constructor
  · intro e he
    simp only [inRdata, records, List.any_eq_false, Bool.and_eq_true, decide_eq_true_eq]
    intro e' he' hc
    have := r2 e' he'
    have := q2 e he
    omega
  · intro e he
    simp only [inRdata, records, List.any_eq_false, Bool.and_eq_true, decide_eq_true_eq]
    intro e' he'
    exact r3 e he e' he'

/-- striking the sites at which `P` holds from the blocks of a section leaves the owner sites, whose
offsets are the entries' offsets, when `P` fails at every entry offset and holds throughout every
RDATA window -/
theorem RecBlocks.filter_offs {d : Bytes} {rs : List RR} {es : List Spec.REntry} {L : List Site}
    (h : RecBlocks d rs es L) (P : Nat → Bool) (h1 : ∀ e ∈ es, P e.off = false)
    (h2 : ∀ e ∈ es, ∀ x, e.rdStart ≤ x → x < e.next → P x = true) :
    (L.filter fun s => !P s.off).map (·.off) = es.map (·.off) := by
  induction h with
  | nil => rfl
  | @cons r e s rd rs es rest a _ _ _ _ hwin _ ih =>
    have hs : P e.off = false := h1 e (by simp)
    have hrd : rd.filter (fun s => !P s.off) = [] := by
      rw [List.filter_eq_nil_iff]
      intro x hx
      have := h2 e (by simp) x.off (hwin x hx).1 (hwin x hx).2.1
      simp [this]
    simp only [List.filter_cons, a, hs, Bool.not_false, if_true, List.filter_append, hrd,
      List.nil_append, List.map_cons]
    rw [ih (fun e he => h1 e (by simp [he])) (fun e he => h2 e (by simp [he]))]

/-- striking sites from the question blocks by a predicate that fails at every entry offset
removes nothing: the offsets are the entries' offsets -/
theorem QBlocks.filter_offs {d : Bytes} {qs : List Question} {es : List Spec.QEntry}
    {L : List Site} (h : QBlocks d qs es L) (P : Nat → Bool) (h1 : ∀ e ∈ es, P e.off = false) :
    (L.filter fun s => !P s.off).map (·.off) = es.map (·.off) := by
  induction h with
  | nil => rfl
  | @cons q e s qs es rest a _ _ _ _ _ ih =>
    have hs : P e.off = false := h1 e (by simp)
    simp only [List.filter_cons, a, hs, Bool.not_false, if_true, List.map_cons]
    rw [ih (fun e he => h1 e (by simp [he]))]

/-- **`owner_sites_exactly`.** Strike from the writer's list of name sites every site whose
offset lies inside the RDATA window of a walked record. What remains — the question-name and
owner-name sites — has, in order, exactly the offsets of the walked entries: questions, answers,
authority, additional (the OPT pseudo-record first). The classification of the sites is done by
the walk, not by the writer. -/
theorem owner_sites_exactly (c : Bool) (p : Packet) (hwf : p.WF) (b : Bytes)
    (hb : p.buildG c = .ok b) (w : Spec.Walk) (hw : Spec.walk b = some w) :
    ((p.sitesG c).filter fun s => !inRdata w s.off).map (·.off) = entryOffs w := by
  obtain ⟨_, Lq, La, Ln, Lr, hL, bq, ba, bn, br⟩ := sites_are_walked c p hwf b hb w hw
  obtain ⟨nq, nr⟩ := entry_not_inRdata hw
  have win : ∀ e ∈ records w, ∀ x, e.rdStart ≤ x → x < e.next → inRdata w x = true := by
    intro e he x h1 h2
    simp only [inRdata, List.any_eq_true, Bool.and_eq_true, decide_eq_true_eq]
    exact ⟨e, he, h1, h2⟩
  rw [hL]
  simp only [List.filter_append, List.map_append, entryOffs, records]
  rw [bq.filter_offs _ nq,
    ba.filter_offs _ (fun e he => nr e (by simp [records, he]))
      (fun e he => win e (by simp [records, he])),
    bn.filter_offs _ (fun e he => nr e (by simp [records, he]))
      (fun e he => win e (by simp [records, he])),
    br.filter_offs _ (fun e he => nr e (by simp [records, he]))
      (fun e he => win e (by simp [records, he]))]

/-! ## 5. C07's main clause, indexed by walked entries -/

/-- a name with a backward-pointer encoding has labels of 1..63 bytes -/
theorem Enc.labelsOK {d : Bytes} {off : Nat} {n : Name} (h : Enc d off n) : LabelsOK n := by
  induction h with
  | root _ => intro l hl; cases hl
  | label hb h1 h63 hl hfit _ ih =>
    intro x hx
    rcases List.mem_cons.mp hx with rfl | hx
    · have := length_take_drop (d := d) (a := _ + 1) hfit
      rw [← hl] at this
      omega
    · exact ih x hx
  | ptr _ _ _ _ _ _ ih => exact ih

/-- the bytes of a block found at `off`, one by one -/
theorem getElem?_of_block {d x : Bytes} {off k i : Nat} (h : (d.drop off).take k = x)
    (hi : i < x.length) : d[off + i]? = x[i]? := by
  have hk : x.length ≤ k := by rw [← h]; simp; omega
  have := congrArg (fun l => l[i]?) h
  simp only [List.getElem?_take, List.getElem?_drop] at this
  rw [if_pos (by omega)] at this
  exact this

/-- the length octet of a label of at most 63 bytes does not have the two pointer bits -/
theorem len_byte_not_ptr {k : Nat} (h : k ≤ 63) : ¬ ((UInt8.ofNat k).toNat &&& 0xC0 = 0xC0) := by
  have : (UInt8.ofNat k).toNat = k := by simp [UInt8.toNat_ofNat']; omega
  rw [this]
  exact not_ptr_of_le63 h

/-- the first octet of a non-empty run of labels is a length octet -/
theorem labelBytes_head {l : Label} {pre : Name} {x : Bytes} :
    (labelBytes (l :: pre) ++ x)[0]? = some (UInt8.ofNat l.length) := by
  simp [labelBytes]

/-- `PtrOK d off n`: if the octet at `off` has the top bits `11` then it and the next octet are a
compression pointer whose target lies past the 12-byte header, strictly before `off`, is at most
16383, and is where a complete backward-pointer encoding (`Enc`, hence an RFC decoding `Decodes`)
of the non-root name `n` begins. -/
def PtrOK (d : Bytes) (off : Nat) (n : Name) : Prop :=
  ∀ b1, d[off]? = some b1 → b1.toNat &&& 0xC0 = 0xC0 →
    ∃ b2, d[off + 1]? = some b2 ∧
      12 ≤ (b1.toNat &&& 0x3F) * 256 + b2.toNat ∧
      (b1.toNat &&& 0x3F) * 256 + b2.toNat < off ∧
      (b1.toNat &&& 0x3F) * 256 + b2.toNat ≤ 0x3FFF ∧ n ≠ [] ∧
      Enc d ((b1.toNat &&& 0x3F) * 256 + b2.toNat) n ∧
      Decodes d ((b1.toNat &&& 0x3F) * 256 + b2.toNat) n

/-- **A site that starts with a pointer.** In a compressed message, if the first octet of a name
site has the top bits `11`, the two octets are a pointer to an offset `q` with `12 ≤ q < s.off`,
`q ≤ 16383`, at which the whole name of the site is encoded. -/
theorem site_pointer_valid (p : Packet) (hwf : p.WF) (b : Bytes) (hb : p.buildCompressed = .ok b)
    (s : Site) (hs : s ∈ p.sitesG true) (hc : s.compressible = true ∨ s.name = []) :
    PtrOK b s.off s.name := by
  intro b1 hb1 hp
  have henc := pointers_valid p hwf b hb s hs
  obtain ⟨b2, hb2, hlt, hle, hne, htgt⟩ := enc_pointer_facts henc hb1 hp
  refine ⟨b2, hb2, ?_, hlt, hle, hne, htgt, htgt.toDecodes⟩
  have hc : s.compressible = true := by
    rcases hc with h | h
    · exact h
    · exact absurd h hne
  have hok := Enc.labelsOK henc
  rcases C04C07C11.pointer_target_past_header p b hb s hs hc with h | ⟨pre, suf, q, h1, h2, h3, h4, h5⟩
  · -- written in full: the first octet is a length octet
    exfalso
    cases hn : s.name with
    | nil => exact hne hn
    | cons l rest =>
      rw [hn] at h hok
      have := getElem?_of_block (i := 0) h (by simp [Name.write])
      simp only [Nat.add_zero, Name.write, List.getElem?_cons_zero] at this
      rw [hb1] at this
      cases this
      exact len_byte_not_ptr (hok l (by simp)).2 hp
  · cases pre with
    | cons l pre' =>
      exfalso
      have := getElem?_of_block (i := 0) h5 (by simp [labelBytes])
      rw [labelBytes_head, Nat.add_zero, hb1] at this
      cases this
      exact len_byte_not_ptr (hok l (by rw [h1]; simp)).2 hp
    | nil =>
      obtain ⟨c1, c2, hbe, _, hq⟩ := pointer_decodes q h4
      simp only [labelBytes, List.nil_append, List.length_nil, Nat.zero_add, hbe] at h5
      have e0 := getElem?_of_block (i := 0) h5 (by simp)
      have e1 := getElem?_of_block (i := 1) h5 (by simp)
      simp only [Nat.add_zero, List.getElem?_cons_zero, List.getElem?_cons_succ] at e0 e1
      rw [hb1] at e0
      rw [hb2] at e1
      cases e0; cases e1
      omega

/-- **C07's main clause through the walker** (`pointers_valid`, indexed by walked entries instead
of the writer's sites). In the bytes of `Packet::write_compressed_to` for a well-formed packet,
walked by the independent RFC 1035 walker: for the `i`-th question / record of every section and
the `i`-th walked entry `e` of that section, if the owner name at `e.off` starts with a pointer
(top bits `11`), the pointer's target is `≥ 12` (past the header), `< e.off` (strictly backwards),
`≤ 16383`, and the bytes at the target are a complete encoding of the question's / record's
non-root owner name — the same name `Decodes` reads at `e.off`. -/
theorem walked_pointers_valid (p : Packet) (hwf : p.WF) (b : Bytes)
    (hb : p.buildCompressed = .ok b) (w : Spec.Walk) (hw : Spec.walk b = some w) :
    Corr (fun q e => Decodes b e.off q.name ∧ PtrOK b e.off q.name) p.questions w.questions ∧
    Corr (fun r e => Decodes b e.off r.name ∧ PtrOK b e.off r.name) p.answers w.answers ∧
    Corr (fun r e => Decodes b e.off r.name ∧ PtrOK b e.off r.name) p.nameServers w.nameServers ∧
    Corr (fun r e => Decodes b e.off r.name ∧ PtrOK b e.off r.name)
      (p.header.optRR.toList ++ p.additional) w.additional := by
  have key : ∀ (name : Name) (off : Nat), OwnerSite b (p.sitesG true) name off →
      Decodes b off name ∧ PtrOK b off name := by
    intro name off ⟨hd, s, hs, ho, hn, hc⟩
    have := site_pointer_valid p hwf b hb s hs (by rw [hn]; exact hc)
    rw [ho, hn] at this
    exact ⟨hd, this⟩
  obtain ⟨cq, ca, cn, cr⟩ := walked_entries_have_sites true p hwf b hb w hw
  exact ⟨C04C07C11.corr_imp_mem cq fun _ _ _ h => key _ _ h,
    C04C07C11.corr_imp_mem ca fun _ _ _ h => key _ _ h,
    C04C07C11.corr_imp_mem cn fun _ _ _ h => key _ _ h,
    C04C07C11.corr_imp_mem cr fun _ _ _ h => key _ _ h⟩

/-- every right-hand element of a pointwise correspondence has a partner -/
theorem corr_right {α β : Type} {R : α → β → Prop} {as : List α} {bs : List β}
    (h : Corr R as bs) : ∀ b ∈ bs, ∃ a ∈ as, R a b := by
  induction h with
  | nil => intro b hb; cases hb
  | cons hab _ ih =>
    intro b hb
    rcases List.mem_cons.mp hb with rfl | hb
    · exact ⟨_, by simp, hab⟩
    · obtain ⟨a, ha, h⟩ := ih b hb
      exact ⟨a, by simp [ha], h⟩

/-- **The same, stated through the walker only**: for every walked entry of the compressed message
— no reference to the packet's records or to the writer's bookkeeping — there is a name `n` that
the RFC relation `Decodes` reads at the entry's offset, and if the owner name there starts with a
pointer, that pointer is valid for `n` (`PtrOK`: target in `12 ..< e.off`, at most 16383, where a
complete encoding of `n` begins). `Decodes` is functional (`Decodes.det`), so `n` is *the* name
at `e.off`. -/
theorem every_walked_pointer_valid (p : Packet) (hwf : p.WF) (b : Bytes)
    (hb : p.buildCompressed = .ok b) (w : Spec.Walk) (hw : Spec.walk b = some w) :
    (∀ e ∈ w.questions, ∃ n, Decodes b e.off n ∧ PtrOK b e.off n) ∧
    (∀ e ∈ w.answers ++ (w.nameServers ++ w.additional), ∃ n, Decodes b e.off n ∧ PtrOK b e.off n) := by
  obtain ⟨cq, ca, cn, cr⟩ := walked_pointers_valid p hwf b hb w hw
  refine ⟨fun e he => ?_, fun e he => ?_⟩
  · obtain ⟨q, _, h⟩ := corr_right cq e he
    exact ⟨q.name, h⟩
  · simp only [List.mem_append] at he
    rcases he with he | he | he
    · obtain ⟨r, _, h⟩ := corr_right ca e he
      exact ⟨r.name, h⟩
    · obtain ⟨r, _, h⟩ := corr_right cn e he
      exact ⟨r.name, h⟩
    · obtain ⟨r, _, h⟩ := corr_right cr e he
      exact ⟨r.name, h⟩

/-! ### examples: the hypotheses are satisfiable, and what the theorems say on a concrete message

`c07Packet` (Props/C07.lean): question `example.com MX?`, answers `example.com MX 10
mx.example.com` and `example.com SRV 0 0 25 example.com`; `c07Bytes` (Props/C04C07C11More.lean)
are its 79 compressed bytes. -/

/-- the walk of the compressed example: one question at 12, records at 29 and 48 -/
def c07Walk : Spec.Walk :=
  { questions := [{ off := 12, nameEnd := 25, qtype := 15, qclass := 1 }]
    answers := [{ off := 29, nameEnd := 31, type := 15, cls := 1, ttl := 300, rdlen := 7 },
                { off := 48, nameEnd := 50, type := 33, cls := 1, ttl := 300, rdlen := 19 }]
    nameServers := []
    additional := []
    stop := 79 }

/-- the envelope walker on the 79 compressed bytes of the C07 example, by evaluation -/
theorem c07Walk_walked : Spec.walk C04C07C11.c07Bytes = some c07Walk := by decide

/-- `sites_are_walked` applies to the example (well-formed, built, walked) -/
example : c07Walk.stop = C04C07C11.c07Bytes.length ∧
    SitesWalked true c07Packet C04C07C11.c07Bytes c07Walk :=
  sites_are_walked true c07Packet (by decide) _ C04C07C11.c07Bytes_built _ c07Walk_walked

/-- the five sites: offsets 12, 29, 48 are the walked entries; 43 (the MX exchange) lies in the
RDATA window `41 ≤ off < 48` of the first answer and 66 (the SRV target) in the window
`60 ≤ off < 79` of the second -/
example : (c07Packet.sitesG true).map (·.off) = [12, 29, 43, 48, 66] ∧
    entryOffs c07Walk = [12, 29, 48] ∧
    (records c07Walk).map (fun e => (e.rdStart, e.next)) = [(41, 48), (60, 79)] ∧
    ((c07Packet.sitesG true).filter fun s => !inRdata c07Walk s.off).map (·.off) = [12, 29, 48] := by
  decide

/-- `owner_sites_exactly` applies to the example -/
example : ((c07Packet.sitesG true).filter fun s => !inRdata c07Walk s.off).map (·.off)
    = entryOffs c07Walk :=
  owner_sites_exactly true c07Packet (by decide) _ C04C07C11.c07Bytes_built _ c07Walk_walked

/-- both answers' owner names start with the pointer `C0 0C`; `every_walked_pointer_valid` says
its target 12 is in `12 ..< 29` and is where `example.com` is encoded -/
example : C04C07C11.c07Bytes[29]? = some 0xC0 ∧ C04C07C11.c07Bytes[30]? = some 12 ∧
    C04C07C11.c07Bytes[48]? = some 0xC0 ∧ C04C07C11.c07Bytes[49]? = some 12 := by decide

example : ∀ e ∈ c07Walk.answers ++ (c07Walk.nameServers ++ c07Walk.additional),
    ∃ n, Decodes C04C07C11.c07Bytes e.off n ∧ PtrOK C04C07C11.c07Bytes e.off n :=
  (every_walked_pointer_valid c07Packet (by decide) _ C04C07C11.c07Bytes_built _ c07Walk_walked).2

/-- a packet with an OPT pseudo-record (`c04Packet`, Props/C04.lean): the theorems apply, and the
OPT record's root owner name is the last walked entry -/
example : ∃ b w, c04Packet.buildG true = .ok b ∧ Spec.walk b = some w ∧ w.stop = b.length ∧
    SitesWalked true c04Packet b w := sites_blocks true c04Packet (by decide)

/-! ## 6. C02 for names is sharp: `Name.WF` is exactly what the wire can carry -/

/-- **`name_roundtrip_iff_wf`.** A name written by `Name::write_to` anywhere in a buffer reads
back (by `Name::parse`) as the same name if and only if it is well-formed: every label has 1..63
bytes and the encoding has at most 255 bytes. The predicate `Name.WF` of C02 cannot be weakened.
No care is needed for empty labels: a zero-length label does end the name early, but then the
name read back is shorter than the one written, so the left-hand side fails as it should
(`zero_len_label_truncates`). -/
theorem name_roundtrip_iff_wf (n : Name) (pre post : Bytes) :
    (∃ e, Name.parse (pre ++ (Name.write n ++ post)) pre.length = .ok (n, e)) ↔ Name.WF n :=
  ⟨fun ⟨_, h⟩ => Name.parse_WF h, fun h => ⟨_, Name.parse_write h pre post⟩⟩

/-- and then the cursor is just after the written bytes -/
theorem name_roundtrip_end (n : Name) (pre post : Bytes) (e : Nat)
    (h : Name.parse (pre ++ (Name.write n ++ post)) pre.length = .ok (n, e)) :
    e = pre.length + (Name.write n).length := by
  have := Name.parse_write (Name.parse_WF h) pre post
  rw [h] at this
  simp only [Out.ok.injEq, Prod.mk.injEq, true_and] at this
  rw [this, Name.write_length]

/-- a name outside `Name.WF` never reads back as itself -/
theorem not_wf_no_roundtrip (n : Name) (h : ¬ Name.WF n) (pre post : Bytes) (e : Nat) :
    Name.parse (pre ++ (Name.write n ++ post)) pre.length ≠ .ok (n, e) :=
  fun hp => h ((name_roundtrip_iff_wf n pre post).mp ⟨e, hp⟩)

/-- the same sharpness for `Name::compress_append`, under the table invariant -/
theorem compressed_name_roundtrip_iff_wf (n : Name) (t : Table) (out post : Bytes)
    (hinv : TInv out t) :
    (∃ e, Name.parse (out ++ ((compressName n out.length t).1 ++ post)) out.length = .ok (n, e))
      ↔ Name.WF n :=
  ⟨fun ⟨_, h⟩ => Name.parse_WF h, fun h => ⟨_, compressed_name_roundtrip n h t out post hinv⟩⟩

/-- the written form of a name with a label whose length is a multiple of 256 (the length octet
`label.len() as u8` is then zero) starts with the written form of the labels before it -/
theorem write_zero_len (a : Name) (l : Label) (c : Name) (hl : l.length % 256 = 0) :
    Name.write (a ++ l :: c) = Name.write a ++ (l ++ Name.write c) := by
  induction a with
  | nil =>
    have : UInt8.ofNat l.length = 0 := by
      apply UInt8.toNat_inj.mp
      simp [UInt8.toNat_ofNat', hl]
    simp [Name.write, this]
  | cons x a ih => simp [Name.write, ih]

/-- **What happens to a zero length octet**: if the labels before it are well-formed, the name
read back is exactly these labels — the label with the zero length octet (an empty label, or one
of 256 bytes) and everything after it are silently lost. So such a name does not round-trip. -/
theorem zero_len_label_truncates (a : Name) (l : Label) (c : Name) (ha : Name.WF a)
    (hl : l.length % 256 = 0) (pre post : Bytes) :
    Name.parse (pre ++ (Name.write (a ++ l :: c) ++ post)) pre.length
      = .ok (a, pre.length + Name.wireLen a) := by
  rw [write_zero_len a l c hl]
  have := Name.parse_write ha pre ((l ++ Name.write c) ++ post)
  simpa only [List.append_assoc] using this

/-- the counterexample with an empty label: `a..b` is written as `01 61 00 01 62 00` and reads
back as `a` -/
example : Name.parse (Name.write [[97], [], [98]]) 0 = .ok ([[97]], 3) := by
  have := zero_len_label_truncates [[97]] [] [[98]] (by decide) rfl [] []
  simpa using this

/-- **A first label of 64..191 bytes (mod 256) is rejected**: its length octet has the label type
bits `01` or `10` -/
theorem reserved_len_label_rejected (l : Label) (c : Name) (h64 : 64 ≤ l.length % 256)
    (h192 : l.length % 256 < 192) (pre post : Bytes) :
    Name.parse (pre ++ (Name.write (l :: c) ++ post)) pre.length = .err := by
  have hb : (pre ++ (Name.write (l :: c) ++ post))[pre.length]? = some (UInt8.ofNat l.length) := by
    simp [Name.write]
  have ht : (UInt8.ofNat l.length).toNat = l.length % 256 := by simp [UInt8.toNat_ofNat']
  exact Name.parse_reserved hb (by omega) (by omega)

example (pre post : Bytes) :
    Name.parse (pre ++ (Name.write [List.replicate 64 97] ++ post)) pre.length = .err :=
  reserved_len_label_rejected _ _ (by decide) (by decide) pre post

/-- **A name of more than 255 bytes with good labels is rejected** (not read back as some other
name): the written bytes decode to this name only, and the parser returns well-formed names. -/
theorem long_name_rejected (n : Name) (hl : LabelsOK n) (hlong : 255 < Name.wireLen n)
    (pre post : Bytes) : Name.parse (pre ++ (Name.write n ++ post)) pre.length = .err := by
  apply Name.parse_err_of_not_ok
  intro m e hp
  have h1 := Name.parse_sound hp
  have h2 := (Name.write_Enc n hl pre post).1.toDecodes
  have := Decodes.det h1 h2
  subst this
  have := (Name.parse_WF hp).2
  omega

/-- four labels of 63 bytes: 257 bytes on the wire -/
example (pre post : Bytes) :
    Name.parse (pre ++ (Name.write (List.replicate 4 (List.replicate 63 97)) ++ post)) pre.length
      = .err :=
  long_name_rejected _ (by unfold LabelsOK; decide) (by decide) pre post

end C07Sites
end Dns
