/-
C13 — mDNS replies contain exactly the matching records.

`buildReply` (`simple-mdns/src/lib.rs::build_reply`) against the record store
(`resource_record_manager.rs`), for every store satisfying the invariant `Inv`
(in particular every store reached by add-authoritative / add-cached / remove /
clear from the empty store), every query packet and every instant `now`.

`NameOK n` (every label shorter than 256 bytes, so that the key's length byte is
faithful) is assumed of the stored owner names (`StoreOK`), of the question
names and — for the statement `x.name = t` about additional records — of SRV
targets.  Every name the wire parser or `Name::new` produces satisfies it
(`NameOK_of_WF`).
-/
import SimpleDnsModel.Lemmas.Mdns
namespace Dns.Mdns

/-- `a` is stored as an authoritative record -/
def Store.hasAuth (s : Store) (a : RR) : Prop := ∃ k b, (k, b) ∈ s.entries ∧ (a, Kind.auth) ∈ b

theorem Inv.hasAuth_abs {s : Store} (hI : Inv s) {a : RR} (h : s.hasAuth a) : abs s a = some .auth := by
  obtain ⟨k, b, hk, ha⟩ := h; exact hI.abs_of_mem hk ha

theorem RR.matchQType_congr {a b : RR} (h : rrEq a b = true) (t : QTYPE) :
    a.matchQType t = b.matchQType t := by
  simp only [RR.matchQType, (rrEq_iff.mp h).2.2]

theorem RR.matchQClass_congr {a b : RR} (h : rrEq a b = true) (c : QCLASS) :
    a.matchQClass c = b.matchQClass c := by
  simp only [RR.matchQClass, (rrEq_iff.mp h).2.1]

/-! ### answers -/

/-- every collected answer is a registered authoritative record at or below a question's name that
matches the question's type and class -/
theorem answer_sound {q : Packet} {s : Store} {now : Nat} (hI : Inv s) (hS : StoreOK s)
    (hQ : ∀ qu ∈ q.questions, NameOK qu.name) {a : RR} (ha : a ∈ answersOf q s now) :
    s.hasAuth a ∧ ∃ qu ∈ q.questions,
      (a.name = qu.name ∨ a.name.isSubdomainOf qu.name = true) ∧
      a.matchQType qu.qtype = true ∧ a.matchQClass qu.qclass = true := by
  obtain ⟨qu, hqu, hdom, hcl, hty⟩ := mem_answersOf.mp ha
  obtain ⟨k, b, kind, hk, hab, hm, hc⟩ := hI.mem_getDomain.mp hdom
  have hkind : kind = .auth := Filter.auth_matches.mp hm
  subst hkind
  refine ⟨⟨k, b, hk, hab⟩, qu, hqu, ?_, hty, hcl⟩
  have hown : getKey a.name = k := hI.owner k b hk _ hab
  have hpre : isPrefixOf (getKey qu.name) (getKey a.name) = true := by
    rw [hown]; simpa [Filter.auth] using hc.2
  exact (suffix_iff_eq_or_subdomain a.name qu.name).mp
    ((key_prefix_iff (hQ qu hqu) (hS k b hk _ hab)).mp hpre)

theorem reply_sound {q : Packet} {s : Store} {now : Nat} {r : Packet} {u : Bool} (hI : Inv s)
    (hS : StoreOK s) (hQ : ∀ qu ∈ q.questions, NameOK qu.name)
    (h : buildReply q s now = some (r, u)) :
    ∀ a ∈ r.answers,
      (∃ k b, (k, b) ∈ s.entries ∧ (a, Kind.auth) ∈ b) ∧
      ∃ qu ∈ q.questions, (a.name = qu.name ∨ a.name.isSubdomainOf qu.name = true) ∧
        a.matchQType qu.qtype = true ∧ a.matchQClass qu.qclass = true := by
  intro a ha
  rw [(buildReply_eq_some h).2.1] at ha
  exact answer_sound hI hS hQ ha

/-- for every store that a history of operations on well-formed names produces -/
theorem reply_sound_reachable {ops : List Op} (hops : ∀ op ∈ ops, op.OK) {q : Packet} {now : Nat}
    {r : Packet} {u : Bool} (hQ : ∀ qu ∈ q.questions, NameOK qu.name)
    (h : buildReply q (Store.empty.run ops) now = some (r, u)) :
    ∀ a ∈ r.answers,
      (∃ k b, (k, b) ∈ (Store.empty.run ops).entries ∧ (a, Kind.auth) ∈ b) ∧
      ∃ qu ∈ q.questions, (a.name = qu.name ∨ a.name.isSubdomainOf qu.name = true) ∧
        a.matchQType qu.qtype = true ∧ a.matchQClass qu.qclass = true :=
  reply_sound (Inv.empty.run ops) (StoreOK.empty.run hops) hQ h

/-- an authoritative record stored under its owner's key is returned for every question that it
matches and whose name has a trie node at or above the owner (no invariant, no bound needed) -/
theorem answer_complete {q : Packet} {s : Store} {now : Nat} {a : RR} {b : Bucket}
    (hb : (getKey a.name, b) ∈ s.entries) (ha : (a, Kind.auth) ∈ b)
    {qu : Question} (hqu : qu ∈ q.questions) (hn : s.nodeExists (getKey qu.name) = true)
    (hsuf : qu.name <:+ a.name)
    (hty : a.matchQType qu.qtype = true) (hcl : a.matchQClass qu.qclass = true) :
    a ∈ answersOf q s now := by
  refine mem_answersOf.mpr ⟨qu, hqu, mem_getDomain.mpr ⟨b, .auth, ha, rfl, ?_⟩, hcl, hty⟩
  simp only [Filter.auth, if_true]
  exact ⟨hn, _, hb, key_prefix_of_suffix hsuf⟩

/-- every registered authoritative record whose owner equals a question name and matches its type
and class is included -/
theorem reply_complete_exact {q : Packet} {s : Store} {now : Nat} {a : RR} {b : Bucket}
    (hb : (getKey a.name, b) ∈ s.entries) (ha : (a, Kind.auth) ∈ b)
    {qu : Question} (hqu : qu ∈ q.questions) (hname : a.name = qu.name)
    (hty : a.matchQType qu.qtype = true) (hcl : a.matchQClass qu.qclass = true) :
    ∃ r u, buildReply q s now = some (r, u) ∧ a ∈ r.answers :=
  buildReply_isSome_of_mem
    (answer_complete hb ha hqu (by rw [← hname]; exact Store.nodeExists_of_mem hb)
      (by rw [hname]; exact List.suffix_refl _) hty hcl)

/-- the same with the store's own notion of registration under the invariant -/
theorem reply_complete_exact' {q : Packet} {s : Store} {now : Nat} (hI : Inv s) {a : RR}
    (ha : s.hasAuth a) {qu : Question} (hqu : qu ∈ q.questions) (hname : a.name = qu.name)
    (hty : a.matchQType qu.qtype = true) (hcl : a.matchQClass qu.qclass = true) :
    ∃ r u, buildReply q s now = some (r, u) ∧ a ∈ r.answers := by
  obtain ⟨k, b, hk, hab⟩ := ha
  have := hI.owner k b hk _ hab
  subst this
  exact reply_complete_exact hk hab hqu hname hty hcl

/-- in terms of the abstract view: what was added with `addAuth` (and not removed since) is returned
as the stored representative of its `rrEq` class -/
theorem reply_complete_abs {q : Packet} {s : Store} {now : Nat} {a : RR}
    (ha : abs s a = some .auth) {qu : Question} (hqu : qu ∈ q.questions) (hname : a.name = qu.name)
    (hty : a.matchQType qu.qtype = true) (hcl : a.matchQClass qu.qclass = true) :
    ∃ r u a', buildReply q s now = some (r, u) ∧ a' ∈ r.answers ∧ rrEq a' a = true := by
  obtain ⟨b, a', hb, ha', he⟩ := mem_of_abs ha
  have hn : a'.name = a.name := rrEq_name he
  obtain ⟨r, u, h1, h2⟩ := reply_complete_exact (q := q) (now := now) (a := a') (b := b)
    (by rw [hn]; exact Store.bucket_mem hb) ha' hqu (hn.trans hname)
    (by rw [RR.matchQType_congr he]; exact hty) (by rw [RR.matchQClass_congr he]; exact hcl)
  exact ⟨r, u, a', h1, h2, he⟩

/-- records below a question's name are included as well whenever the trie has a node at the
question's key (always the case when some record is registered under the question's name itself) -/
theorem reply_complete_subdomain {q : Packet} {s : Store} {now : Nat} (hI : Inv s) {a : RR}
    (ha : s.hasAuth a) {qu : Question} (hqu : qu ∈ q.questions)
    (hn : s.nodeExists (getKey qu.name) = true) (hsub : a.name.isSubdomainOf qu.name = true)
    (hty : a.matchQType qu.qtype = true) (hcl : a.matchQClass qu.qclass = true) :
    ∃ r u, buildReply q s now = some (r, u) ∧ a ∈ r.answers := by
  obtain ⟨k, b, hk, hab⟩ := ha
  have := hI.owner k b hk _ hab
  subst this
  exact buildReply_isSome_of_mem
    (answer_complete hk hab hqu hn ((isSubdomainOf_iff_suffix _ _).mp hsub).2 hty hcl)

/-- cached records never appear in replies, not even under another TTL -/
theorem cached_not_in_reply {q : Packet} {s : Store} {now : Nat} {r : Packet} {u : Bool}
    (hI : Inv s) (h : buildReply q s now = some (r, u)) {k : Key} {b : Bucket} {c : RR} {e rf : Nat}
    (hk : (k, b) ∈ s.entries) (hc : (c, Kind.cached e rf) ∈ b) :
    ∀ a ∈ r.answers, rrEq a c = false := by
  intro a ha
  rw [(buildReply_eq_some h).2.1] at ha
  obtain ⟨qu, _, hdom, _, _⟩ := mem_answersOf.mp ha
  obtain ⟨kind, habs, hm⟩ := hI.abs_of_mem_getDomain hdom
  rw [Filter.auth_matches.mp hm] at habs
  cases hq : rrEq a c with
  | false => rfl
  | true =>
    rw [abs_congr s hq, hI.abs_of_mem hk hc] at habs
    cases habs

/-! ### additional records -/

/-- additional records are registered authoritative address records of the question's class stored
under the key of the target of an included SRV answer -/
theorem additional_sound_key {q : Packet} {s : Store} {now : Nat} {r : Packet} {u : Bool}
    (hI : Inv s) (h : buildReply q s now = some (r, u)) :
    ∀ x ∈ r.additional,
      (∃ k b, (k, b) ∈ s.entries ∧ (x, Kind.auth) ∈ b) ∧
      (x.rdata.typeOf = .A ∨ x.rdata.typeOf = .AAAA) ∧
      ∃ srv ∈ r.answers, ∃ t, srvTarget srv.rdata = some t ∧ getKey x.name = getKey t ∧
        ∃ qu ∈ q.questions, x.matchQClass qu.qclass = true ∧
          srv.matchQClass qu.qclass = true ∧ srv.matchQType qu.qtype = true := by
  intro x hx
  obtain ⟨_, hans, hadd, _⟩ := buildReply_eq_some h
  rw [hadd] at hx
  obtain ⟨qu, hqu, a, ha, t, ht, hdom, hty, hcl⟩ := mem_extrasOf.mp (mem_dedupRR hx)
  obtain ⟨k, b, kind, hk, hxb, hm, hc⟩ := hI.mem_getDomain.mp hdom
  have hkind : kind = .auth := Filter.auth_matches.mp hm
  subst hkind
  have hkey : k = getKey t := by simpa [Filter.auth] using hc
  refine ⟨⟨k, b, hk, hxb⟩, ?_, a, ?_, t, ht, ?_, qu, hqu, hcl, ?_⟩
  · exact hty.imp matchQType_A matchQType_AAAA
  · rw [hans]; exact mem_answersOf.mpr ⟨qu, hqu, mem_answersFor.mp ha⟩
  · rw [← hkey]; exact hI.owner k b hk _ hxb
  · exact (mem_answersFor.mp ha).2

theorem additional_sound {q : Packet} {s : Store} {now : Nat} {r : Packet} {u : Bool}
    (hI : Inv s) (hS : StoreOK s)
    (hT : ∀ a ∈ r.answers, ∀ t, srvTarget a.rdata = some t → NameOK t)
    (h : buildReply q s now = some (r, u)) :
    ∀ x ∈ r.additional,
      (∃ k b, (k, b) ∈ s.entries ∧ (x, Kind.auth) ∈ b) ∧
      (x.rdata.typeOf = .A ∨ x.rdata.typeOf = .AAAA) ∧
      ∃ srv ∈ r.answers, ∃ t, srvTarget srv.rdata = some t ∧ x.name = t := by
  intro x hx
  obtain ⟨⟨k, b, hk, hxb⟩, hty, srv, hsrv, t, ht, hkey, _⟩ := additional_sound_key hI h x hx
  exact ⟨⟨k, b, hk, hxb⟩, hty, srv, hsrv, t, ht,
    key_inj (hS k b hk _ hxb) (hT srv hsrv t ht) hkey⟩

/-- the additional section holds no record twice -/
theorem additional_nodup {q : Packet} {s : Store} {now : Nat} {r : Packet} {u : Bool}
    (h : buildReply q s now = some (r, u)) :
    r.additional.Pairwise (fun a b => rrEq b a = false) := by
  rw [(buildReply_eq_some h).2.2.1]
  generalize extrasOf q s now = l
  induction l with
  | nil => exact List.Pairwise.nil
  | cons x xs ih =>
    simp only [dedupRR]
    rw [List.pairwise_cons]
    refine ⟨?_, ih.filter _⟩
    intro y hy
    simpa using (List.mem_filter.mp hy).2

/-- every registered authoritative address record of the question's class owned by the target of an
included SRV answer is among the additional records (up to `rrEq`, duplicates being merged) -/
theorem additional_complete {q : Packet} {s : Store} {now : Nat} {r : Packet} {u : Bool}
    (h : buildReply q s now = some (r, u)) {qu : Question} (hqu : qu ∈ q.questions)
    {srv : RR} (hsrv : srv ∈ (answersFor s qu now).1) {t : Name} (ht : srvTarget srv.rdata = some t)
    {b : Bucket} (hb : s.bucket (getKey t) = some b) {x : RR} (hx : (x, Kind.auth) ∈ b)
    (hty : x.rdata.typeOf = .A ∨ x.rdata.typeOf = .AAAA) (hcl : x.matchQClass qu.qclass = true) :
    ∃ x' ∈ r.additional, rrEq x x' = true := by
  rw [(buildReply_eq_some h).2.2.1]
  apply dedupRR_complete
  refine mem_extrasOf.mpr ⟨qu, hqu, srv, hsrv, t, ht, mem_getDomain.mpr ⟨b, .auth, hx, rfl, ?_⟩, ?_, hcl⟩
  · simpa [Filter.auth] using hb
  · rcases hty with hty | hty
    · left; simp [RR.matchQType, matchQType, hty]
    · right; simp [RR.matchQType, matchQType, hty]

/-! ### header, unicast, no empty reply -/

theorem reply_header {q : Packet} {s : Store} {now : Nat} {r : Packet} {u : Bool}
    (h : buildReply q s now = some (r, u)) :
    r.header.id = q.header.id ∧ r.header.flags &&& 0x8000 = 0x8000 ∧
    (u = true ↔ ∃ qu ∈ q.questions, qu.unicast = true) := by
  obtain ⟨_, _, _, _, _, hh, hu⟩ := buildReply_eq_some h
  rw [hh, hu]
  refine ⟨rfl, (by decide : (0x8000 : Nat) &&& 0x8000 = 0x8000), ?_⟩
  simp [List.any_eq_true]

/-- the rest of the reply: no questions, no authority records, `NoError`, a standard query opcode,
no OPT record -/
theorem reply_shape {q : Packet} {s : Store} {now : Nat} {r : Packet} {u : Bool}
    (h : buildReply q s now = some (r, u)) :
    r.questions = [] ∧ r.nameServers = [] ∧ r.header.flags = 0x8000 ∧
    r.header.rcode = .NoError ∧ r.header.opcode = .StandardQuery ∧ r.header.opt = none := by
  obtain ⟨_, _, _, h1, h2, hh, _⟩ := buildReply_eq_some h
  rw [hh]; exact ⟨h1, h2, rfl, rfl, rfl, rfl⟩

theorem reply_nonempty {q : Packet} {s : Store} {now : Nat} {r : Packet} {u : Bool}
    (h : buildReply q s now = some (r, u)) : r.answers ≠ [] := by
  obtain ⟨h1, h2, _⟩ := buildReply_eq_some h
  rw [h2]; exact h1

/-- no reply is produced when nothing matches -/
theorem no_empty_reply {q : Packet} {s : Store} {now : Nat} (hI : Inv s) (hS : StoreOK s)
    (hQ : ∀ qu ∈ q.questions, NameOK qu.name)
    (h : ∀ qu ∈ q.questions, ∀ k b a kind, (k, b) ∈ s.entries → (a, kind) ∈ b →
      ¬ (kind = .auth ∧ a.matchQType qu.qtype = true ∧ a.matchQClass qu.qclass = true ∧
          (a.name = qu.name ∨ a.name.isSubdomainOf qu.name = true))) :
    buildReply q s now = none := by
  rw [buildReply_eq_none]
  cases hl : answersOf q s now with
  | nil => rfl
  | cons a l =>
    have ha : a ∈ answersOf q s now := by rw [hl]; simp
    obtain ⟨⟨k, b, hk, hab⟩, qu, hqu, hname, hty, hcl⟩ := answer_sound hI hS hQ ha
    exact absurd ⟨rfl, hty, hcl, hname⟩ (h qu hqu k b a .auth hk hab)

/-- a reply is produced exactly when some question has a matching answer; with `reply_sound` and
`reply_complete_exact` this pins the answer section down -/
theorem reply_iff {q : Packet} {s : Store} {now : Nat} :
    (∃ r u, buildReply q s now = some (r, u)) ↔ ∃ a, a ∈ answersOf q s now := by
  constructor
  · rintro ⟨r, u, h⟩
    obtain ⟨h1, _⟩ := buildReply_eq_some h
    cases hl : answersOf q s now with
    | nil => exact absurd hl h1
    | cons a l => exact ⟨a, by simp⟩
  · rintro ⟨a, ha⟩
    obtain ⟨r, u, h, _⟩ := buildReply_isSome_of_mem ha
    exact ⟨r, u, h⟩

/-! ### the same for every store produced by a history of operations -/

/-- reached from the empty store by operations whose added records have owner names with labels
shorter than 256 bytes -/
def ReachableOK (s : Store) : Prop := ∃ ops : List Op, (∀ op ∈ ops, op.OK) ∧ s = Store.empty.run ops

theorem ReachableOK.reachable {s : Store} (h : ReachableOK s) : Reachable s := by
  obtain ⟨ops, _, rfl⟩ := h; exact ⟨ops, rfl⟩

theorem ReachableOK.inv {s : Store} (h : ReachableOK s) : Inv s := h.reachable.inv

theorem ReachableOK.storeOK {s : Store} (h : ReachableOK s) : StoreOK s := by
  obtain ⟨ops, hops, rfl⟩ := h; exact StoreOK.empty.run hops

theorem reply_sound_of_reachable {q : Packet} {s : Store} {now : Nat} {r : Packet} {u : Bool}
    (hR : ReachableOK s) (hQ : ∀ qu ∈ q.questions, NameOK qu.name)
    (h : buildReply q s now = some (r, u)) :
    ∀ a ∈ r.answers,
      (∃ k b, (k, b) ∈ s.entries ∧ (a, Kind.auth) ∈ b) ∧
      ∃ qu ∈ q.questions, (a.name = qu.name ∨ a.name.isSubdomainOf qu.name = true) ∧
        a.matchQType qu.qtype = true ∧ a.matchQClass qu.qclass = true :=
  reply_sound hR.inv hR.storeOK hQ h

theorem reply_complete_of_reachable {q : Packet} {s : Store} {now : Nat} (hR : Reachable s) {a : RR}
    (ha : s.hasAuth a) {qu : Question} (hqu : qu ∈ q.questions) (hname : a.name = qu.name)
    (hty : a.matchQType qu.qtype = true) (hcl : a.matchQClass qu.qclass = true) :
    ∃ r u, buildReply q s now = some (r, u) ∧ a ∈ r.answers :=
  reply_complete_exact' hR.inv ha hqu hname hty hcl

theorem additional_sound_of_reachable {q : Packet} {s : Store} {now : Nat} {r : Packet} {u : Bool}
    (hR : ReachableOK s) (hT : ∀ a ∈ r.answers, ∀ t, srvTarget a.rdata = some t → NameOK t)
    (h : buildReply q s now = some (r, u)) :
    ∀ x ∈ r.additional,
      (∃ k b, (k, b) ∈ s.entries ∧ (x, Kind.auth) ∈ b) ∧
      (x.rdata.typeOf = .A ∨ x.rdata.typeOf = .AAAA) ∧
      ∃ srv ∈ r.answers, ∃ t, srvTarget srv.rdata = some t ∧ x.name = t :=
  additional_sound hR.inv hR.storeOK hT h

theorem no_empty_reply_of_reachable {q : Packet} {s : Store} {now : Nat} (hR : ReachableOK s)
    (hQ : ∀ qu ∈ q.questions, NameOK qu.name)
    (h : ∀ qu ∈ q.questions, ∀ k b a kind, (k, b) ∈ s.entries → (a, kind) ∈ b →
      ¬ (kind = .auth ∧ a.matchQType qu.qtype = true ∧ a.matchQClass qu.qclass = true ∧
          (a.name = qu.name ∨ a.name.isSubdomainOf qu.name = true))) :
    buildReply q s now = none :=
  no_empty_reply hR.inv hR.storeOK hQ h

theorem cached_not_in_reply_of_reachable {q : Packet} {s : Store} {now : Nat} {r : Packet} {u : Bool}
    (hR : Reachable s) (h : buildReply q s now = some (r, u)) {k : Key} {b : Bucket} {c : RR} {e rf : Nat}
    (hk : (k, b) ∈ s.entries) (hc : (c, Kind.cached e rf) ∈ b) :
    ∀ a ∈ r.answers, rrEq a c = false :=
  cached_not_in_reply hR.inv h hk hc

/-! ### a concrete store: the hypotheses are satisfiable, the conclusions are what one expects -/

namespace C13Ex

def lbl : Label := [108, 111, 99, 97, 108]           -- "local"
def nLocal : Name := [lbl]                           -- local
def nA : Name := [[97], lbl]                         -- a.local
def nBA : Name := [[98], [97], lbl]                  -- b.a.local
def nX : Name := [[120], lbl]                        -- x.local
/-- `a.local A 10.0.0.1`, registered locally -/
def recA : RR := { name := nA, cls := .IN, ttl := 120, rdata := .flat 1 [.int 0x0A000001], flush := false }
/-- `b.a.local A 10.0.0.2`, learned from the network -/
def recB : RR := { name := nBA, cls := .IN, ttl := 2, rdata := .flat 1 [.int 0x0A000002], flush := false }
/-- `b.a.local SRV 0 0 80 a.local`, registered locally -/
def srvB : RR :=
  { name := nBA, cls := .IN, ttl := 120, rdata := .flat 33 [.int 0, .int 0, .int 80, .name nA], flush := false }
/-- `x.local A 10.0.0.3`, registered locally -/
def recX : RR := { name := nX, cls := .IN, ttl := 120, rdata := .flat 1 [.int 0x0A000003], flush := false }

def ops : List Op := [.addAuth recA, .addCached recB 0, .addAuth srvB, .addAuth recX]
def st : Store := Store.empty.run ops

def query (n : Name) (t : QTYPE) (uni : Bool) : Packet :=
  { header := { id := 7, opcode := .StandardQuery, rcode := .NoError, flags := 0, opt := none },
    questions := [{ name := n, qtype := t, qclass := .CLASS .IN, unicast := uni }],
    answers := [], nameServers := [], additional := [] }

def reply (answers additional : List RR) : Packet :=
  { header := { id := 7, opcode := .StandardQuery, rcode := .NoError, flags := 0x8000, opt := none },
    questions := [], answers := answers, nameServers := [], additional := additional }

example : Reachable st := ⟨ops, rfl⟩
example : Inv st := Reachable.inv ⟨ops, rfl⟩
example : ∀ op ∈ ops, op.OK := by decide
example : StoreOK st := StoreOK.empty.run (by decide)
example : ∀ qu ∈ (query nA .ANY false).questions, NameOK qu.name := by decide
example : (getKey recA.name, [(recA, Kind.auth)]) ∈ st.entries := by decide

/-- `a.local ANY`: the record of the name itself and the authoritative record below it; the cached
`b.a.local A` is left out; the SRV target's address goes to the additional section -/
example : buildReply (query nA .ANY false) st 5 = some (reply [recA, srvB] [recA], false) := by decide

/-- the type is respected, and the unicast-response bit of the question is reported -/
example : buildReply (query nBA (.TYPE .SRV) true) st 5 = some (reply [srvB] [recA], true) := by decide

/-- only a cached record matches: no reply -/
example : buildReply (query nBA (.TYPE .A) false) st 5 = none := by decide

/-- nothing matches: no reply -/
example : buildReply (query nA (.TYPE .TXT) false) st 5 = none := by decide

/-- The subdomain clause is only a soundness clause: `a.local`, `b.a.local` and `x.local` are all
below `local`, yet a question for `local` gets no reply, because `radix_trie`'s `subtrie` finds no
node at the key of `local` (no record is registered under `local` itself and the inserted keys do
not branch exactly there: `1 a` and `1 x` share the length byte and a nibble). -/
example : st.nodeExists (getKey nLocal) = false := by decide
example : buildReply (query nLocal .ANY false) st 5 = none := by decide

/-- "Registered record" is meant up to the crate's record equality: `HashMap::insert` keeps the
stored key, so a record first learned from the network (TTL 2) and then registered locally (TTL 120)
is answered authoritatively with the TTL of the copy received first. -/
example : buildReply (query nA .ANY false)
    (Store.empty.run [.addCached { recA with ttl := 2 } 0, .addAuth recA]) 999999 =
    some (reply [{ recA with ttl := 2 }] [], false) := by decide

/-- `NameOK` cannot be dropped from `key_inj` / `key_prefix_iff`: a label of 256 bytes (only
constructible through `Name::new_unchecked`) has length byte 0 (`label.len() as u8`), so the key of
the one-label name made of 256 zero bytes is the key of the name made of 257 empty labels. -/
example : getKey [List.replicate 256 0] = getKey (List.replicate 257 []) ∧
    ([List.replicate 256 0] : Name) ≠ List.replicate 257 [] := by decide +kernel

end C13Ex

end Dns.Mdns
