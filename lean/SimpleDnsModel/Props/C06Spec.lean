/-
C06, the harness oracle: the executable reference decoder `Spec.nameAt` / `specDecode`
(Spec/NameDecode.lean; driver op `spec.name`) against the inductive RFC 1035 relation `Decodes`
and against the library's decoder `Name.parse`.

Until now only `specDecode_sound` (successes of the reference decoder are `Decodes`) was proved.
Here:

* `DecodesN d off n k` is `Decodes d off n` with the number `k` of elements visited (labels,
  pointers and the terminating zero). `specDecode` with fuel `f` succeeds exactly when `k ≤ f`
  (`specDecode_eq_ok_iff`), and says "cycle" exactly when `f < k` (`specDecode_fuel_exact`): the
  reference decoder is the executable form of the relation (`specDecode_complete`,
  `specDecode_iff_Decodes`).
* A derivation visits pairwise distinct offsets inside the message (`Decodes.no_cycle`), so
  `k ≤ d.length` (`DecodesN.le_length`): the fuel `d.length + 1` that `Spec.nameAt` gives is
  adequate (one unit is spare, `d.length` is needed: `[0]`). Hence `Spec.nameAt` decides
  `Decodes … ∧ wireLen ≤ 255` and its cursor is `InPlaceEnd` (`nameAt_eq_ok_iff`,
  `nameAt_bad_iff`).
* `Name.parse d pos = .ok (n, p) → Spec.nameAt d pos = .ok n p` (`name_parse_agrees_spec`);
  conversely a success of the reference decoder is a success of the library with the same name
  and cursor exactly when every pointer followed points strictly backwards
  (`name_parse_of_spec_back`, `name_parse_eq_ok_iff_spec`, `DecodesBack_iff_ptrsBack`); otherwise
  the library answers `Err` (`nameAt_ok_parse_err_iff`). The 255-byte limit is NOT a difference
  between `Spec.nameAt` and the library (`nameAt` applies it itself); it is a difference between
  the raw `specDecode` and the library. Concrete buffers at the end.
-/
import SimpleDnsModel.Props.C06Complete
import SimpleDnsModel.Props.C10C06More
namespace Dns

/-! ### the relation with a step count -/

/-- `DecodesN d off n k`: `Decodes d off n` by a derivation of `k` nodes, i.e. an RFC 1035 reader
started at `off` visits `k` elements (labels, pointers, and the final root octet) and reads `n`.
It is the number of iterations the reference decoder needs. -/
inductive DecodesN (d : Bytes) : Nat → Name → Nat → Prop where
  | root {off} : d[off]? = some 0 → DecodesN d off [] 1
  | label {off k} {b : UInt8} {l : Label} {rest : Name} :
      d[off]? = some b → 1 ≤ b.toNat → b.toNat ≤ 63 →
      l = (d.drop (off+1)).take b.toNat → off + 1 + b.toNat ≤ d.length →
      DecodesN d (off + 1 + b.toNat) rest k → DecodesN d off (l :: rest) (k + 1)
  | ptr {off k} {b b2 : UInt8} {n : Name} :
      d[off]? = some b → b.toNat &&& 0xC0 = 0xC0 → d[off+1]? = some b2 →
      DecodesN d ((b.toNat &&& 0x3F) * 256 + b2.toNat) n k → DecodesN d off n (k + 1)

/-- forgetting the count -/
theorem DecodesN.toDecodes {d : Bytes} {off k : Nat} {n : Name} (h : DecodesN d off n k) :
    Decodes d off n := by
  induction h with
  | root h0 => exact Decodes.root h0
  | label hb h1 h63 hl hfit _ ih => exact Decodes.label hb h1 h63 hl hfit ih
  | ptr hb hp hb2 _ ih => exact Decodes.ptr hb hp hb2 ih

/-- every derivation has a size -/
theorem Decodes.toN {d : Bytes} {off : Nat} {n : Name} (h : Decodes d off n) :
    ∃ k, DecodesN d off n k := by
  induction h with
  | root h0 => exact ⟨1, DecodesN.root h0⟩
  | label hb h1 h63 hl hfit _ ih =>
    obtain ⟨k, hk⟩ := ih; exact ⟨k + 1, DecodesN.label hb h1 h63 hl hfit hk⟩
  | ptr hb hp hb2 _ ih =>
    obtain ⟨k, hk⟩ := ih; exact ⟨k + 1, DecodesN.ptr hb hp hb2 hk⟩

/-- `Decodes` is `DecodesN` with the count forgotten. -/
theorem Decodes_iff_DecodesN (d : Bytes) (off : Nat) (n : Name) :
    Decodes d off n ↔ ∃ k, DecodesN d off n k :=
  ⟨Decodes.toN, fun ⟨_, h⟩ => h.toDecodes⟩

/-- a derivation has at least one node (the root octet) -/
theorem DecodesN.pos {d : Bytes} {off k : Nat} {n : Name} (h : DecodesN d off n k) : 1 ≤ k := by
  cases h <;> omega

/-- the number of elements visited is determined by the message and the start offset (the reader
is deterministic) -/
theorem DecodesN.det {d : Bytes} {off k k' : Nat} {n m : Name}
    (h1 : DecodesN d off n k) (h2 : DecodesN d off m k') : k = k' := by
  induction h1 generalizing m k' with
  | root h0 =>
    cases h2 with
    | root _ => rfl
    | label hb h1 _ _ _ _ => rw [h0] at hb; cases hb; simp at h1
    | ptr hb hp _ _ => rw [h0] at hb; cases hb; simp at hp
  | label hb h1 h63 _ _ _ ih =>
    cases h2 with
    | root h0 => rw [h0] at hb; cases hb; simp at h1
    | label hb' _ _ _ _ hr => rw [hb] at hb'; cases hb'; rw [ih hr]
    | ptr hb' hp _ _ => rw [hb] at hb'; cases hb'; exact absurd hp (not_ptr_of_le63 h63)
  | ptr hb hp hb2 _ ih =>
    cases h2 with
    | root h0 => rw [h0] at hb; cases hb; simp at hp
    | label hb' _ h63 _ _ _ => rw [hb] at hb'; cases hb'; exact absurd hp (not_ptr_of_le63 h63)
    | ptr hb' _ hb2' hr =>
      rw [hb] at hb'; cases hb'; rw [hb2] at hb2'; cases hb2'; rw [ih hr]

/-- the name has fewer labels than the derivation has nodes: every label is one node, the root
octet is one more -/
theorem DecodesN.labels_lt {d : Bytes} {off k : Nat} {n : Name} (h : DecodesN d off n k) :
    n.length < k := by
  induction h with
  | root _ => simp
  | label _ _ _ _ _ _ ih => simp; omega
  | ptr _ _ _ _ ih => omega

/-! ### the pigeonhole: a derivation visits at most `d.length` elements -/

/-- Invariant of the walk: the offsets already visited (`vis`) are pairwise distinct, inside the
message, and each of them leads to the current offset; then what is still to be visited fits in
the rest of the message. -/
theorem DecodesN.bound_aux {d : Bytes} {off k : Nat} {n : Name} (h : DecodesN d off n k) :
    ∀ vis : List Nat, vis.Nodup → (∀ v ∈ vis, v < d.length) → (∀ v ∈ vis, NamePath d v off) →
      k + vis.length ≤ d.length := by
  induction h with
  | @root off h0 =>
    intro vis hnd hlt hpath
    have hoff : off < d.length := lt_of_getElem?_some h0
    have hnot : off ∉ vis := fun hm => (Decodes.root h0 : Decodes d off []).no_cycle (hpath off hm)
    have hnd' : (off :: vis).Nodup := List.nodup_cons.2 ⟨hnot, hnd⟩
    have hsub : (off :: vis) ⊆ List.range d.length := by
      intro x hx
      rcases List.mem_cons.1 hx with rfl | hx
      · exact List.mem_range.2 hoff
      · exact List.mem_range.2 (hlt x hx)
    have := hnd'.length_le_of_subset hsub
    simp at this
    omega
  | @label off k b l rest hb h1 h63 hl hfit hrest ih =>
    intro vis hnd hlt hpath
    have hoff : off < d.length := lt_of_getElem?_some hb
    have hdec : Decodes d off (l :: rest) := Decodes.label hb h1 h63 hl hfit hrest.toDecodes
    have hnot : off ∉ vis := fun hm => hdec.no_cycle (hpath off hm)
    have s := NameStep.label hb h1 h63
    have := ih (off :: vis) (List.nodup_cons.2 ⟨hnot, hnd⟩)
      (by intro v hv; rcases List.mem_cons.1 hv with rfl | hv
          · exact hoff
          · exact hlt v hv)
      (by intro v hv; rcases List.mem_cons.1 hv with rfl | hv
          · exact .one s
          · exact (hpath v hv).snoc s)
    simp at this
    omega
  | @ptr off k b b2 n hb hp hb2 hrest ih =>
    intro vis hnd hlt hpath
    have hoff : off < d.length := lt_of_getElem?_some hb
    have hdec : Decodes d off n := Decodes.ptr hb hp hb2 hrest.toDecodes
    have hnot : off ∉ vis := fun hm => hdec.no_cycle (hpath off hm)
    have s := NameStep.ptr hb hp hb2
    have := ih (off :: vis) (List.nodup_cons.2 ⟨hnot, hnd⟩)
      (by intro v hv; rcases List.mem_cons.1 hv with rfl | hv
          · exact hoff
          · exact hlt v hv)
      (by intro v hv; rcases List.mem_cons.1 hv with rfl | hv
          · exact .one s
          · exact (hpath v hv).snoc s)
    simp at this
    omega

/-- A decoding visits at most as many elements as the message has octets (it visits pairwise
distinct offsets inside the message, there being no cycle). This is why a fuel of the message
length is enough for the reference decoder, whatever the direction of the pointers. -/
theorem DecodesN.le_length {d : Bytes} {off k : Nat} {n : Name} (h : DecodesN d off n k) :
    k ≤ d.length := by
  have := h.bound_aux [] List.nodup_nil (by simp) (by simp)
  simpa using this

/-- ... in particular a decoded name has fewer labels than the message has octets. -/
theorem Decodes.labels_lt_length {d : Bytes} {off : Nat} {n : Name} (h : Decodes d off n) :
    n.length < d.length := by
  obtain ⟨k, hk⟩ := h.toN
  have := hk.labels_lt
  have := hk.le_length
  omega

/-! ### the reference decoder is the executable form of `DecodesN` -/

/-- Completeness of the reference decoder for a given derivation: any fuel of at least the number
of elements to visit succeeds, with the labels of the derivation after those already collected,
and with the cursor already fixed (`jumped`) or else the in-place end of the name. -/
theorem specDecode_of_DecodesN {d : Bytes} {off k : Nat} {tail : Name} (h : DecodesN d off tail k) :
    ∀ (fuel : Nat) (jumped : Bool) (endp : Nat) (acc : List Label), k ≤ fuel →
      ∃ e, InPlaceEnd d off e ∧
        specDecode d fuel off jumped endp acc
          = .ok (acc.reverse ++ tail) (if jumped then endp else e) := by
  induction h with
  | @root off h0 =>
    intro fuel jumped endp acc hk
    obtain ⟨f, rfl⟩ : ∃ f, fuel = f + 1 := ⟨fuel - 1, by omega⟩
    refine ⟨off + 1, InPlaceEnd.root h0, ?_⟩
    unfold specDecode
    simp [h0]
  | @label off k b l rest hb h1 h63 hl hfit _ ih =>
    intro fuel jumped endp acc hk
    obtain ⟨f, rfl⟩ : ∃ f, fuel = f + 1 := ⟨fuel - 1, by omega⟩
    obtain ⟨e, he, hs⟩ := ih f jumped endp (l :: acc) (by omega)
    refine ⟨e, InPlaceEnd.label hb h1 h63 he, ?_⟩
    have hbz : b ≠ 0 := UInt8.ne_zero_of_toNat_pos h1
    have hnp : ¬ (b.toNat &&& 192 = 192) := not_ptr_of_le63 h63
    rw [specDecode]
    simp only [hb]
    simp [hbz, hnp, show ¬ 63 < b.toNat by omega, show ¬ d.length < off + 1 + b.toNat by omega,
      ← hl]
    simpa [List.append_assoc] using hs
  | @ptr off k b b2 n hb hp hb2 _ ih =>
    intro fuel jumped endp acc hk
    obtain ⟨f, rfl⟩ : ∃ f, fuel = f + 1 := ⟨fuel - 1, by omega⟩
    obtain ⟨e, _, hs⟩ := ih f true (if jumped then endp else off + 2) acc (by omega)
    refine ⟨off + 2, InPlaceEnd.ptr hb hp, ?_⟩
    have hbz : b ≠ 0 := by intro h; subst h; simp at hp
    rw [specDecode]
    simp only [hb]
    simp [hbz, hp, hb2]
    simpa using hs

/-- The fuel is used exactly: with fewer units than elements to visit the reference decoder
gives up with "cycle" (and with nothing else). -/
theorem specDecode_fuel_exact {d : Bytes} {off k : Nat} {tail : Name} (h : DecodesN d off tail k) :
    ∀ (fuel : Nat) (jumped : Bool) (endp : Nat) (acc : List Label), fuel < k →
      specDecode d fuel off jumped endp acc = .bad "cycle" := by
  induction h with
  | @root off h0 =>
    intro fuel jumped endp acc hk
    obtain rfl : fuel = 0 := by omega
    simp [specDecode]
  | @label off k b l rest hb h1 h63 hl hfit _ ih =>
    intro fuel jumped endp acc hk
    cases fuel with
    | zero => simp [specDecode]
    | succ f =>
      have hbz : b ≠ 0 := UInt8.ne_zero_of_toNat_pos h1
      have hnp : ¬ (b.toNat &&& 192 = 192) := not_ptr_of_le63 h63
      rw [specDecode]
      simp only [hb]
      simp [hbz, hnp, show ¬ 63 < b.toNat by omega, show ¬ d.length < off + 1 + b.toNat by omega]
      exact ih f jumped endp _ (by omega)
  | @ptr off k b b2 n hb hp hb2 _ ih =>
    intro fuel jumped endp acc hk
    cases fuel with
    | zero => simp [specDecode]
    | succ f =>
      have hbz : b ≠ 0 := by intro h; subst h; simp at hp
      rw [specDecode]
      simp only [hb]
      simp [hbz, hp, hb2]
      exact ih f true _ acc (by omega)

/-- Soundness of the reference decoder with the count: a success with fuel `fuel` comes from a
derivation of at most `fuel` nodes (this refines `specDecode_sound`). -/
theorem specDecode_sound_N (d : Bytes) (fuel off : Nat) (jumped : Bool) (endp : Nat)
    (acc : List Label) (n : Name) (e : Nat)
    (h : specDecode d fuel off jumped endp acc = .ok n e) :
    ∃ tail k, k ≤ fuel ∧ n = acc.reverse ++ tail ∧ DecodesN d off tail k := by
  induction fuel generalizing off jumped endp acc with
  | zero => simp [specDecode] at h
  | succ fuel ih =>
    unfold specDecode at h
    split at h
    · cases h
    · rename_i b hb
      split at h
      · rename_i hz
        cases h
        exact ⟨[], 1, by omega, by simp, DecodesN.root (by simpa [hz] using hb)⟩
      · rename_i hnz
        split at h
        · rename_i hptr
          split at h
          · cases h
          · rename_i b2 hb2
            obtain ⟨tail, k, hk, h1, h2⟩ := ih _ _ _ _ h
            exact ⟨tail, k + 1, by omega, h1, DecodesN.ptr hb hptr hb2 h2⟩
        · split at h
          · cases h
          · rename_i h63
            split at h
            · cases h
            · rename_i hfit
              obtain ⟨tail, k, hk, h1, h2⟩ := ih _ _ _ _ h
              refine ⟨(d.drop (off+1)).take b.toNat :: tail, k + 1, by omega, by simp [h1], ?_⟩
              have hb1 : 1 ≤ b.toNat := UInt8.toNat_pos_of_ne_zero hnz
              exact DecodesN.label hb hb1 (by omega) rfl (by omega) h2

/-- The reference decoder characterised, for every fuel and every state: it succeeds exactly when
a derivation of at most `fuel` nodes exists from the current offset; the name is the labels
collected so far followed by those of the derivation, the cursor is the one fixed at the first
pointer, or else the in-place end of the name. -/
theorem specDecode_eq_ok_iff (d : Bytes) (fuel off : Nat) (jumped : Bool) (endp : Nat)
    (acc : List Label) (n : Name) (c : Nat) :
    specDecode d fuel off jumped endp acc = .ok n c ↔
      ∃ tail k e, k ≤ fuel ∧ DecodesN d off tail k ∧ InPlaceEnd d off e ∧
        n = acc.reverse ++ tail ∧ c = if jumped then endp else e := by
  constructor
  · intro h
    obtain ⟨tail, k, hk, hn, hd⟩ := specDecode_sound_N d fuel off jumped endp acc n c h
    obtain ⟨e, he, hs⟩ := specDecode_of_DecodesN hd fuel jumped endp acc hk
    rw [h] at hs
    cases hs
    exact ⟨tail, k, e, hk, hd, he, rfl, rfl⟩
  · rintro ⟨tail, k, e, hk, hd, he, rfl, rfl⟩
    obtain ⟨e', he', hs⟩ := specDecode_of_DecodesN hd fuel jumped endp acc hk
    rw [hs, InPlaceEnd.det he' he]

/-- More fuel never changes a success of the reference decoder. -/
theorem specDecode_fuel_mono (d : Bytes) (fuel fuel' off : Nat) (jumped : Bool) (endp : Nat)
    (acc : List Label) (n : Name) (c : Nat) (hle : fuel ≤ fuel')
    (h : specDecode d fuel off jumped endp acc = .ok n c) :
    specDecode d fuel' off jumped endp acc = .ok n c := by
  obtain ⟨tail, k, e, hk, hd, he, hn, hc⟩ := (specDecode_eq_ok_iff ..).1 h
  exact (specDecode_eq_ok_iff ..).2 ⟨tail, k, e, by omega, hd, he, hn, hc⟩

/-- (3) Completeness of the reference decoder, with explicit fuel: a derivation of `k` nodes is
found with any fuel `≥ k`, and `k ≤ d.length`. Started as `Spec.nameAt` starts it, the decoder
returns the name of the derivation and the in-place end as cursor. -/
theorem specDecode_complete_N {d : Bytes} {pos k : Nat} {n : Name} (h : DecodesN d pos n k)
    (fuel : Nat) (hk : k ≤ fuel) :
    ∃ e, InPlaceEnd d pos e ∧ specDecode d fuel pos false 0 [] = .ok n e := by
  obtain ⟨e, he, hs⟩ := specDecode_of_DecodesN h fuel false 0 [] hk
  exact ⟨e, he, by simpa using hs⟩

/-- (3) `specDecode_complete`: whatever RFC 1035 decodes, the reference decoder finds, and the
message length is a sufficient fuel (forward pointers included). -/
theorem specDecode_complete {d : Bytes} {pos : Nat} {n : Name} (h : Decodes d pos n) :
    ∀ fuel, d.length ≤ fuel →
      ∃ e, InPlaceEnd d pos e ∧ specDecode d fuel pos false 0 [] = .ok n e := by
  intro fuel hf
  obtain ⟨k, hk⟩ := h.toN
  exact specDecode_complete_N hk fuel (Nat.le_trans hk.le_length hf)

/-- ... in the existential form of the brief -/
theorem specDecode_complete_exists {d : Bytes} {pos : Nat} {n : Name} (h : Decodes d pos n) :
    ∃ fuel e, fuel ≤ d.length ∧ specDecode d fuel pos false 0 [] = .ok n e := by
  obtain ⟨e, _, hs⟩ := specDecode_complete h d.length (Nat.le_refl _)
  exact ⟨d.length, e, Nat.le_refl _, hs⟩

/-- The reference decoder is exactly the executable form of the inductive relation: `Decodes`
holds iff the decoder, given the message length as fuel (or more), returns that name. -/
theorem specDecode_iff_Decodes (d : Bytes) (pos : Nat) (n : Name) (fuel : Nat)
    (hf : d.length ≤ fuel) :
    Decodes d pos n ↔ ∃ e, specDecode d fuel pos false 0 [] = .ok n e := by
  constructor
  · intro h
    obtain ⟨e, _, hs⟩ := specDecode_complete h fuel hf
    exact ⟨e, hs⟩
  · rintro ⟨e, hs⟩
    obtain ⟨tail, hn, hd⟩ := specDecode_sound d fuel pos false 0 [] n e hs
    simp at hn; subst hn; exact hd

/-- With adequate fuel the answer "cycle" is never a false alarm: fuel of the message length runs
out only where RFC 1035 assigns no name at all. -/
theorem specDecode_cycle_no_decoding (d : Bytes) (pos fuel : Nat) (hf : d.length ≤ fuel)
    (r : String) (h : specDecode d fuel pos false 0 [] = .bad r) : ¬ ∃ n, Decodes d pos n := by
  rintro ⟨n, hn⟩
  obtain ⟨e, _, hs⟩ := specDecode_complete hn fuel hf
  rw [hs] at h; cases h

/-! ### `Spec.nameAt`, the oracle of the harness -/

/-- The oracle characterised: `Spec.nameAt d pos` answers `ok n e` exactly when `n` is the RFC 1035
decoding at `pos`, `n` fits 255 octets, and `e` is the in-place end of the name. The fuel
`d.length + 1` it uses is adequate for every message. -/
theorem nameAt_eq_ok_iff (d : Bytes) (pos : Nat) (n : Name) (e : Nat) :
    Spec.nameAt d pos = .ok n e ↔
      Decodes d pos n ∧ Name.wireLen n ≤ 255 ∧ InPlaceEnd d pos e := by
  constructor
  · intro h
    unfold Spec.nameAt at h
    split at h
    · rename_i n' e' hs
      split at h
      · cases h
      · rename_i hlen
        cases h
        obtain ⟨tail, k, e'', _, hd, he, hn, hc⟩ := (specDecode_eq_ok_iff ..).1 hs
        simp at hn hc
        subst hn hc
        exact ⟨hd.toDecodes, by omega, he⟩
    · rename_i r hr
      exact (hr n e h).elim
  · rintro ⟨hd, hlen, he⟩
    obtain ⟨e', he', hs⟩ := specDecode_complete hd (d.length + 1) (by omega)
    unfold Spec.nameAt
    rw [hs]
    simp [show ¬ 255 < Name.wireLen n by omega, InPlaceEnd.det he' he]

/-- The oracle rejects exactly the positions that have no RFC 1035 decoding of at most 255 octets:
`Spec.nameAt` is a decision procedure for the specification. -/
theorem nameAt_bad_iff (d : Bytes) (pos : Nat) :
    (∃ r, Spec.nameAt d pos = .bad r) ↔ ¬ ∃ n, Decodes d pos n ∧ Name.wireLen n ≤ 255 := by
  constructor
  · rintro ⟨r, hr⟩ ⟨n, hn, hlen⟩
    obtain ⟨e, he, _⟩ := specDecode_complete hn (d.length + 1) (by omega)
    have := (nameAt_eq_ok_iff d pos n e).2 ⟨hn, hlen, he⟩
    rw [this] at hr; cases hr
  · intro h
    cases hs : Spec.nameAt d pos with
    | ok n e => exact absurd ⟨n, ((nameAt_eq_ok_iff d pos n e).1 hs).1,
        ((nameAt_eq_ok_iff d pos n e).1 hs).2.1⟩ h
    | bad r => exact ⟨r, rfl⟩

/-- The oracle says "too-long" exactly when RFC 1035 decodes the position to a name of more than
255 octets (and then the library answers `Err`, see `nameAt_bad_parse_err`). -/
theorem nameAt_too_long_iff (d : Bytes) (pos : Nat) :
    Spec.nameAt d pos = .bad "too-long" ↔ ∃ n, Decodes d pos n ∧ 255 < Name.wireLen n := by
  constructor
  · intro h
    unfold Spec.nameAt at h
    split at h
    · rename_i n' e' hs
      split at h
      · rename_i hlen
        obtain ⟨tail, hn, hd⟩ := specDecode_sound d _ pos false 0 [] n' e' hs
        simp at hn; subst hn
        exact ⟨n', hd, hlen⟩
      · cases h
    · rename_i hr
      -- the raw decoder never says "too-long"
      exfalso
      have key : ∀ fuel off j e acc, specDecode d fuel off j e acc ≠ .bad "too-long" := by
        intro fuel
        induction fuel with
        | zero => intro off j e acc; simp [specDecode]
        | succ f ih =>
          intro off j e acc
          unfold specDecode
          split
          · simp
          · split
            · simp
            · split
              · split
                · simp
                · exact ih _ _ _ _
              · split
                · simp
                · split
                  · simp
                  · exact ih _ _ _ _
      exact key _ _ _ _ _ h
  · rintro ⟨n, hn, hlen⟩
    obtain ⟨e, _, hs⟩ := specDecode_complete hn (d.length + 1) (by omega)
    unfold Spec.nameAt
    rw [hs]
    simp [hlen]

/-! ### (1) the library's decoder agrees with the oracle -/

/-- (1) Whenever `Name::parse` accepts, the reference decoder, with the fuel `d.length + 1` the
harness gives it, returns the same labels and the same resume position: the oracle's fuel and
cursor are adequate for everything the library accepts. -/
theorem name_parse_agrees_spec (d : Bytes) (pos : Nat) (n : Name) (p : Nat)
    (h : Name.parse d pos = .ok (n, p)) : Spec.nameAt d pos = .ok n p := by
  obtain ⟨hb, hlen, he⟩ := (name_parse_eq_iff_back d pos n p).1 h
  exact (nameAt_eq_ok_iff d pos n p).2 ⟨hb.toDecodes, hlen, he⟩

example : Name.parse exPtr 9 = .ok ([[97], [99, 111, 109]], 13) ∧
    Spec.nameAt exPtr 9 = .ok [[97], [99, 111, 109]] 13 :=
  ⟨exPtr_parse, name_parse_agrees_spec _ _ _ _ exPtr_parse⟩

/-- ... for the raw decoder too, with any fuel from the message length on (so the `+ 1` of
`Spec.nameAt` is spare). -/
theorem name_parse_agrees_specDecode (d : Bytes) (pos : Nat) (n : Name) (p : Nat)
    (h : Name.parse d pos = .ok (n, p)) (fuel : Nat) (hf : d.length ≤ fuel) :
    specDecode d fuel pos false 0 [] = .ok n p := by
  obtain ⟨hb, _, he⟩ := (name_parse_eq_iff_back d pos n p).1 h
  obtain ⟨e, he', hs⟩ := specDecode_complete hb.toDecodes fuel hf
  rw [hs, InPlaceEnd.det he' he]

/-- A rejection by the oracle is a rejection by the library (contrapositive of (1), the library
never panicking). -/
theorem nameAt_bad_parse_err (d : Bytes) (pos : Nat) (r : String)
    (h : Spec.nameAt d pos = .bad r) : Name.parse d pos = .err := by
  apply Name.parse_err_of_not_ok
  intro n p hp
  rw [name_parse_agrees_spec d pos n p hp] at h
  cases h

/-! ### (2) the converse, and the exact difference -/

/-- "every pointer the reader follows from `pos` points strictly backwards": at every offset the
reader visits (the start, or any offset reached by reader steps) that holds a pointer, the target
is before the pointer's own offset. -/
def PtrsBack (d : Bytes) (pos : Nat) : Prop :=
  ∀ q, (q = pos ∨ NamePath d pos q) → ∀ b b2 : UInt8, d[q]? = some b →
    b.toNat &&& 0xC0 = 0xC0 → d[q+1]? = some b2 → (b.toNat &&& 0x3F) * 256 + b2.toNat < q

/-- `DecodesBack` continues along a reader step. -/
theorem DecodesBack.step {d : Bytes} {a b : Nat} {n : Name} (h : DecodesBack d a n)
    (s : NameStep d a b) : ∃ m, DecodesBack d b m := by
  cases h with
  | root h0 =>
    cases s with
    | label hb h1 _ => rw [h0] at hb; cases hb; simp at h1
    | ptr hb hp _ => rw [h0] at hb; cases hb; simp at hp
  | label hb h1 h63 hl hfit hrest =>
    exact ⟨_, (NameStep.det s (NameStep.label hb h1 h63)) ▸ hrest⟩
  | ptr hb hp hb2 _ hrest =>
    exact ⟨_, (NameStep.det s (NameStep.ptr hb hp hb2)) ▸ hrest⟩

/-- ... and along a path. -/
theorem DecodesBack.along {d : Bytes} {a b : Nat} (p : NamePath d a b) :
    ∀ {n : Name}, DecodesBack d a n → ∃ m, DecodesBack d b m := by
  induction p with
  | one s => intro n h; exact h.step s
  | cons s _ ih => intro n h; obtain ⟨m, hm⟩ := h.step s; exact ih hm

/-- a pointer at the head of a backward decoding points backwards -/
theorem DecodesBack.head_ptr_back {d : Bytes} {q : Nat} {m : Name} (h : DecodesBack d q m)
    {b b2 : UInt8} (hb : d[q]? = some b) (hp : b.toNat &&& 0xC0 = 0xC0) (hb2 : d[q+1]? = some b2) :
    (b.toNat &&& 0x3F) * 256 + b2.toNat < q := by
  cases h with
  | root h0 => rw [h0] at hb; cases hb; simp at hp
  | label hb' _ h63 _ _ _ => rw [hb] at hb'; cases hb'; exact absurd hp (not_ptr_of_le63 h63)
  | ptr hb' _ hb2' hlt _ => rw [hb] at hb'; cases hb'; rw [hb2] at hb2'; cases hb2'; exact hlt

/-- `DecodesBack` is `Decodes` along a walk all of whose pointers point strictly backwards: the
relation that characterises the library (`name_parse_iff_back`) is the RFC relation plus a
condition on the pointers followed, nothing else. -/
theorem DecodesBack_iff_ptrsBack (d : Bytes) (pos : Nat) (n : Name) :
    DecodesBack d pos n ↔ Decodes d pos n ∧ PtrsBack d pos := by
  constructor
  · intro h
    refine ⟨h.toDecodes, ?_⟩
    intro q hq b b2 hb hp hb2
    rcases hq with rfl | hq
    · exact h.head_ptr_back hb hp hb2
    · obtain ⟨m, hm⟩ := DecodesBack.along hq h
      exact hm.head_ptr_back hb hp hb2
  · rintro ⟨h, hback⟩
    induction h with
    | root h0 => exact DecodesBack.root h0
    | @label off b l rest hb h1 h63 hl hfit _ ih =>
      refine DecodesBack.label hb h1 h63 hl hfit (ih ?_)
      have s := NameStep.label hb h1 h63
      intro q hq
      rcases hq with rfl | hq
      · exact hback _ (Or.inr (.one s))
      · exact hback q (Or.inr (.cons s hq))
    | @ptr off b b2 n hb hp hb2 _ ih =>
      refine DecodesBack.ptr hb hp hb2 (hback off (Or.inl rfl) b b2 hb hp hb2) (ih ?_)
      have s := NameStep.ptr hb hp hb2
      intro q hq
      rcases hq with rfl | hq
      · exact hback _ (Or.inr (.one s))
      · exact hback q (Or.inr (.cons s hq))

/-- (2) The converse of (1) restricted to what the property demands: a success of the reference
decoder whose walk followed strictly backward pointers only is a success of the library, with the
same name and the same cursor. (The 255-octet limit needs no hypothesis: `Spec.nameAt` enforces
it.) -/
theorem name_parse_of_spec_back (d : Bytes) (pos : Nat) (n : Name) (e : Nat)
    (h : Spec.nameAt d pos = .ok n e) (hb : DecodesBack d pos n) :
    Name.parse d pos = .ok (n, e) := by
  obtain ⟨_, hlen, he⟩ := (nameAt_eq_ok_iff d pos n e).1 h
  exact (name_parse_eq_iff_back d pos n e).2 ⟨hb, hlen, he⟩

/-- (2), pointer form: the hypothesis on the walk instead of `DecodesBack`. -/
theorem name_parse_of_spec_ptrsBack (d : Bytes) (pos : Nat) (n : Name) (e : Nat)
    (h : Spec.nameAt d pos = .ok n e) (hb : PtrsBack d pos) :
    Name.parse d pos = .ok (n, e) :=
  name_parse_of_spec_back d pos n e h
    ((DecodesBack_iff_ptrsBack d pos n).2 ⟨((nameAt_eq_ok_iff d pos n e).1 h).1, hb⟩)

example : Spec.nameAt exChain3 7 = .ok [[97]] 9 ∧ DecodesBack exChain3 7 [[97]] :=
  ⟨name_parse_agrees_spec _ _ _ _ exChain3_parse, exChain3_back⟩

/-- (2) for the raw decoder, where the size limit is a hypothesis: if `specDecode` (fuel at least
the message length, started as `Spec.nameAt` starts it) returns `(n, e)`, the pointers followed
point strictly backwards and `n` fits 255 octets, then the library returns `(n, e)`. -/
theorem name_parse_of_specDecode_back (d : Bytes) (pos fuel : Nat) (n : Name) (e : Nat)
    (h : specDecode d fuel pos false 0 [] = .ok n e) (hb : DecodesBack d pos n)
    (hlen : Name.wireLen n ≤ 255) : Name.parse d pos = .ok (n, e) := by
  obtain ⟨tail, k, e', _, _, he, hn, hc⟩ := (specDecode_eq_ok_iff ..).1 h
  simp at hn hc; subst hn hc
  exact (name_parse_eq_iff_back d pos _ _).2 ⟨hb, hlen, he⟩

/-- (1) and (2) together: the library's result is the oracle's result plus the backward
condition. -/
theorem name_parse_eq_ok_iff_spec (d : Bytes) (pos : Nat) (n : Name) (p : Nat) :
    Name.parse d pos = .ok (n, p) ↔ Spec.nameAt d pos = .ok n p ∧ PtrsBack d pos := by
  constructor
  · intro h
    refine ⟨name_parse_agrees_spec d pos n p h, ?_⟩
    exact ((DecodesBack_iff_ptrsBack d pos n).1 (name_parse_sound_back d pos n p h).1).2
  · rintro ⟨h, hb⟩
    exact name_parse_of_spec_ptrsBack d pos n p h hb

/-- The exact difference between the oracle and the library: on a position the oracle accepts, the
library answers `Err` precisely when some pointer followed does not point strictly backwards (such
a pointer points forwards: a pointer to itself is a cycle, which the oracle rejects too), and
otherwise answers the same name and cursor. There is no third case and no other source of
disagreement. -/
theorem nameAt_ok_parse_err_iff (d : Bytes) (pos : Nat) (n : Name) (e : Nat)
    (h : Spec.nameAt d pos = .ok n e) :
    (Name.parse d pos = .err ↔ ¬ PtrsBack d pos) ∧
    (Name.parse d pos = .ok (n, e) ↔ PtrsBack d pos) := by
  have hok : Name.parse d pos = .ok (n, e) ↔ PtrsBack d pos :=
    ⟨fun hp => ((name_parse_eq_ok_iff_spec d pos n e).1 hp).2,
     fun hb => name_parse_of_spec_ptrsBack d pos n e h hb⟩
  refine ⟨⟨?_, ?_⟩, hok⟩
  · intro herr hb
    rw [hok.2 hb] at herr; cases herr
  · intro hnb
    apply Name.parse_err_of_not_ok
    intro m p hp
    exact hnb ((name_parse_eq_ok_iff_spec d pos m p).1 hp).2

/-- A pointer the oracle follows never points at itself (that would be a cycle): so "not strictly
backwards" on an accepted walk means "strictly forwards". -/
theorem nameAt_ok_ptr_ne_self (d : Bytes) (pos : Nat) (n : Name) (e : Nat)
    (h : Spec.nameAt d pos = .ok n e) (q : Nat) (hq : q = pos ∨ NamePath d pos q) (b b2 : UInt8)
    (hb : d[q]? = some b) (hp : b.toNat &&& 0xC0 = 0xC0) (hb2 : d[q+1]? = some b2) :
    (b.toNat &&& 0x3F) * 256 + b2.toNat ≠ q := by
  intro hself
  have hd := ((nameAt_eq_ok_iff d pos n e).1 h).1
  have s := NameStep.ptr hb hp hb2
  rw [hself] at s
  rcases hq with rfl | hq
  · exact hd.no_cycle (.one s)
  · exact name_into_cycle_no_decoding d pos q hq (.one s) ⟨n, hd⟩

/-! ### concrete buffers -/

/-- forward pointer: the oracle accepts (`[0xC0, 2, 0]` at 0 is the root name, cursor 2), the
library rejects. This is the only kind of disagreement. -/
example : Spec.nameAt exForward 0 = .ok [] 2 ∧ Name.parse exForward 0 = .err ∧
    ¬ PtrsBack exForward 0 := by
  have h : Spec.nameAt exForward 0 = .ok [] 2 := by decide
  have hnb : ¬ PtrsBack exForward 0 := fun hb =>
    absurd (hb 0 (Or.inl rfl) 0xC0 2 rfl (by decide) rfl) (by decide)
  exact ⟨h, ((nameAt_ok_parse_err_iff _ _ _ _ h).1).2 hnb, hnb⟩

/-- a forward pointer in the middle of a name: label `a` at 0, then a pointer at 2 forwards to the
label `b` at 5: the oracle reads `a.b`, cursor 4; the library rejects -/
def exForwardMid : Bytes := [1, 97, 0xC0, 5, 0xFF, 1, 98, 0]

example : Spec.nameAt exForwardMid 0 = .ok [[97], [98]] 4 := by decide

example : Name.parse exForwardMid 0 = .err := by
  have h : Spec.nameAt exForwardMid 0 = .ok [[97], [98]] 4 := by decide
  refine ((nameAt_ok_parse_err_iff _ _ _ _ h).1).2 fun hb => ?_
  have s : NameStep exForwardMid 0 2 := NameStep.label (b := 1) rfl (by decide) (by decide)
  exact absurd (hb 2 (Or.inr (.one s)) 0xC0 5 rfl (by decide) rfl) (by decide)

/-- longer names: the raw `specDecode` returns a name of 256 octets, `Spec.nameAt` turns that into
"too-long", the library rejects: on this point oracle and library agree -/
example : (∃ e, specDecode ([] ++ (Name.write exMaxPlus ++ [])) 257 0 false 0 [] = .ok exMaxPlus e) ∧
    Spec.nameAt ([] ++ (Name.write exMaxPlus ++ [])) 0 = .bad "too-long" ∧
    Name.parse ([] ++ (Name.write exMaxPlus ++ [])) 0 = .err := by
  have hd : Decodes ([] ++ (Name.write exMaxPlus ++ [])) 0 exMaxPlus :=
    (Name.write_Enc exMaxPlus (by decide) [] []).1.toDecodes
  have hlen : ([] ++ (Name.write exMaxPlus ++ []) : Bytes).length = 256 := by
    simp [Name.write_length]; decide
  have htl := (nameAt_too_long_iff _ 0).2 ⟨exMaxPlus, hd, by decide⟩
  refine ⟨?_, htl, nameAt_bad_parse_err _ _ _ htl⟩
  obtain ⟨e, _, hs⟩ := specDecode_complete hd 257 (by omega)
  exact ⟨e, hs⟩

/-- the fuel: the message length is needed (`[0]` at 0 visits one element), `d.length + 1` has one
unit to spare -/
example : specDecode [0] 0 0 false 0 [] = .bad "cycle" ∧ specDecode [0] 1 0 false 0 [] = .ok [] 1 ∧
    DecodesN [0] 0 [] 1 :=
  ⟨by decide, by decide, DecodesN.root rfl⟩

/-- a chain of backward pointers visited in full: 5 elements (three pointers, one label, the root octet) in 9 octets -/
example : DecodesN exChain3 7 [[97]] 5 :=
  DecodesN.ptr (b := 0xC0) (b2 := 5) rfl (by decide) rfl
    (DecodesN.ptr (b := 0xC0) (b2 := 3) rfl (by decide) rfl
      (DecodesN.ptr (b := 0xC0) (b2 := 0) rfl (by decide) rfl
        (DecodesN.label (b := 1) rfl (by decide) (by decide) rfl (by decide)
          (DecodesN.root rfl))))

/-- with 4 units of fuel that walk is cut short, with 5 it completes -/
example : specDecode exChain3 4 7 false 0 [] = .bad "cycle" ∧
    specDecode exChain3 5 7 false 0 [] = .ok [[97]] 9 := by
  constructor <;> decide

/-- a true cycle exhausts any fuel: the oracle's "cycle" on `[0xC0, 0]` -/
example : Spec.nameAt exCycle 0 = .bad "cycle" ∧ ¬ ∃ n, Decodes exCycle 0 n := by
  exact ⟨by decide, exCycle_no_decoding⟩

end Dns
