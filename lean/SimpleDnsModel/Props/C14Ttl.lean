/-
C14Ttl — the store `ServiceDiscovery::new_with_scope` starts from, with the TTL the code uses.

`Mdns.discoveryInit` (Model/Pipeline.lean) and `ptrRecord` (Props/C14Fits.lean) give the service PTR
record the TTL 0. The code (`simple-mdns/src/sync_discovery/service_discovery.rs` and
`async_discovery/service_discovery.rs`, `new_with_scope`) registers it with the caller's
`resource_ttl`, the same value it passes to `InstanceInformation::into_records`:

    resource_manager.add_authoritative_resource(ResourceRecord::new(
        service_name.clone(), CLASS::IN, resource_ttl, RData::PTR(instance_full_name.clone().into())));
    for resource in instance_information.into_records(&instance_full_name, resource_ttl)? { … }

So the theorems of Props/C14Fits.lean, Props/C15.lean and Props/C15Multi.lean about
`discoveryInit service full own` are the case `resource_ttl = 0`. This file defines the store for
an arbitrary TTL (`discoveryInitTtl`, `ptrRecordTtl`), shows that TTL 0 gives the old definitions
(`discoveryInitTtl_zero`, `ptrRecordTtl_zero`), and proves every one of those theorems for every
`ttl < 2 ^ 32` (the TTL is a `u32` in the code); the theorems of C15/C15Multi do not need the bound.

  1. `ptrRecordTtl_wf`, `ptrRecordTtl_wf_ttl`, `discoveryInitTtl_eq_run`, `discoveryInitTtl_fits`,
     `discoveryInitTtl_authWF`, `discoveryInitTtl_instance_fits`, `discoveryNew_fits`
  2. `discovery_reply_parseable_ttl(_9000)`, `discovery_sent_reply_parseable_ttl`, and the forms
     `…_new` where the PTR record carries the TTL of the instance records, as in the code
  3. `discoveryInitTtl_props`, `known_after_announce_ttl`, `discovery_faithful_ttl`,
     `discovery_faithful_limits_ttl`, `discovery_faithful_no_attributes_ttl`,
     `discoveryInitTtl_ownerFree`, `several_peers_from_start_ttl`
  4. `C14TtlEx`: the reply of a listener created with `resource_ttl = 120`, byte for byte: the PTR
     answer carries 00 00 00 78 (`discovery_reply_ttl`); it differs from the reply of the TTL-0
     model in exactly those bytes (`drbytesTtl_vs_drbytes`).
-/
import SimpleDnsModel.Props.C14Fits
import SimpleDnsModel.Props.C15Multi
namespace Dns.Mdns

/-! ### 0. the definitions, and TTL 0 -/

/-- the service PTR record `ServiceDiscovery::new_with_scope` registers first, with the caller's
`resource_ttl` -/
def ptrRecordTtl (ttl : Nat) (service full : Name) : RR :=
  { name := service, cls := .IN, ttl := ttl, rdata := .flat 12 [.name full], flush := false }

/-- the records `ServiceDiscovery::new_with_scope` registers for its own instance: the service PTR
record with TTL `ttl` (`resource_ttl`) and the instance's address, SRV and TXT records -/
def discoveryInitTtl (ttl : Nat) (service full : Name) (own : List RR) : Store :=
  own.foldl (fun s r => s.addAuth r) (Store.empty.addAuth (ptrRecordTtl ttl service full))

/-- `ServiceDiscovery::new_with_scope` as a whole: `into_records` with `resource_ttl` (its error is
the constructor's error), then the PTR record with the same `resource_ttl` and the records -/
def discoveryNew (service full : Name) (ips : List (Bool × Nat)) (ports : List Nat) (attrs : Attrs)
    (ttl : Nat) : Out Store :=
  intoRecords full ips ports attrs ttl >>= fun rs => .ok (discoveryInitTtl ttl service full rs)

/-- the PTR record of Props/C14Fits.lean is the one for `resource_ttl = 0` -/
theorem ptrRecordTtl_zero (service full : Name) :
    ptrRecordTtl 0 service full = ptrRecord service full := rfl

/-- **The store of Model/Pipeline.lean is the one for `resource_ttl = 0`**: every theorem about
`discoveryInit` is the instance `ttl = 0` of the theorem about `discoveryInitTtl` below. -/
theorem discoveryInitTtl_zero : discoveryInitTtl 0 = discoveryInit := rfl

/-- … applied to arguments -/
theorem discoveryInitTtl_zero_apply (service full : Name) (own : List RR) :
    discoveryInitTtl 0 service full own = discoveryInit service full own := rfl

/-- the two PTR records differ in the TTL only -/
theorem ptrRecordTtl_eq (ttl : Nat) (service full : Name) :
    ptrRecordTtl ttl service full = { ptrRecord service full with ttl := ttl } := rfl

/-- different `resource_ttl`, different PTR record: the TTL-0 model is not the code's store for any
other TTL (registered records are compared field by field) -/
theorem ptrRecordTtl_injective {t1 t2 : Nat} {service full : Name}
    (h : ptrRecordTtl t1 service full = ptrRecordTtl t2 service full) : t1 = t2 :=
  congrArg RR.ttl h

/-- `new_with_scope` fails exactly when `into_records` does, else yields `discoveryInitTtl` with
the one TTL -/
theorem discoveryNew_ok {service full : Name} {ips : List (Bool × Nat)} {ports : List Nat}
    {attrs : Attrs} {ttl : Nat} {s : Store}
    (h : discoveryNew service full ips ports attrs ttl = .ok s) :
    ∃ rs, intoRecords full ips ports attrs ttl = .ok rs ∧ s = discoveryInitTtl ttl service full rs := by
  unfold discoveryNew at h
  obtain ⟨rs, hrs, h2⟩ := Out.bind_eq_ok h
  exact ⟨rs, hrs, (Out.ok.inj h2).symm⟩

theorem discoveryNew_of_records {service full : Name} {ips : List (Bool × Nat)} {ports : List Nat}
    {attrs : Attrs} {ttl : Nat} {rs : List RR} (hrs : intoRecords full ips ports attrs ttl = .ok rs) :
    discoveryNew service full ips ports attrs ttl = .ok (discoveryInitTtl ttl service full rs) := by
  unfold discoveryNew
  rw [hrs]
  rfl

/-! ### 1. Props/C14Fits.lean, section 3: the initial store fits -/

/-- the PTR record is well-formed when the service name and the instance name are and the TTL is a
`u32` (C14Fits `ptrRecord_wf` for every TTL) -/
theorem ptrRecordTtl_wf {ttl : Nat} {service full : Name} (ht : ttl < 2 ^ 32)
    (hs : Name.WF service) (hf : Name.WF full) : (ptrRecordTtl ttl service full).WF := by
  refine ⟨hs, ht, ⟨?_, rfl, ?_⟩, trivial⟩
  · simp only [SchemaOK, schemaOf, AllOK, FieldOK]
    exact ⟨hf, trivial⟩
  · simp only [RData.writtenLen, RData.write, schemaOf, flatCheck, if_true, encAll, encField,
      Name.write_length, List.append_nil]
    have := hf.2
    omega

example : (ptrRecordTtl 120 C15Ex.service (C15Ex.printer :: C15Ex.service)).WF :=
  ptrRecordTtl_wf (by decide) (by decide) (by decide)

/-- the bound on the TTL is needed: a well-formed PTR record has a 32-bit TTL (in the code the
parameter is a `u32`, so the bound always holds) -/
theorem ptrRecordTtl_wf_ttl {ttl : Nat} {service full : Name}
    (h : (ptrRecordTtl ttl service full).WF) : ttl < 2 ^ 32 := h.2.1

/-- `ServiceDiscovery::new_with_scope` as a run of `add_authoritative_resource` calls
(C14Fits `discoveryInit_eq_run`) -/
theorem discoveryInitTtl_eq_run (ttl : Nat) (service full : Name) (own : List RR) :
    discoveryInitTtl ttl service full own =
      Store.empty.run (Op.addAuth (ptrRecordTtl ttl service full) :: own.map Op.addAuth) := by
  unfold discoveryInitTtl Store.run
  rw [List.foldl_cons, List.foldl_map]
  rfl

/-- **The store `ServiceDiscovery::new_with_scope` starts from, for every `resource_ttl`**: built
from well-formed names and well-formed records of the own instance it satisfies the store invariant,
its registered records are well-formed, and there are at most (own records + 1) of them
(C14Fits `discoveryInit_fits`). -/
theorem discoveryInitTtl_fits {ttl : Nat} {service full : Name} {own : List RR} (ht : ttl < 2 ^ 32)
    (hs : Name.WF service) (hf : Name.WF full) (hown : ∀ r ∈ own, r.WF) :
    Inv (discoveryInitTtl ttl service full own) ∧ StoreFits (discoveryInitTtl ttl service full own) ∧
    authCount (discoveryInitTtl ttl service full own) ≤ own.length + 1 := by
  rw [discoveryInitTtl_eq_run]
  refine ⟨Inv.empty.run _, StoreFits.empty.run ?_, ?_⟩
  · intro op hop
    rcases List.mem_cons.mp hop with rfl | hop
    · exact ptrRecordTtl_wf ht hs hf
    · obtain ⟨r, hr, rfl⟩ := List.mem_map.mp hop
      exact hown r hr
  · have := authCount_run Inv.empty (Op.addAuth (ptrRecordTtl ttl service full) :: own.map Op.addAuth)
    rw [List.countP_cons, countP_isAddAuth_map] at this
    have h0 : authCount Store.empty = 0 := rfl
    simp only [Op.isAddAuth, if_true] at this
    omega

example : StoreFits (discoveryInitTtl 4500 C15Ex.service C15Ex.own []) :=
  (discoveryInitTtl_fits (own := []) (by decide) (by decide) (by decide) (by simp)).2.1

/-- the registered records of the initial store are well-formed, for every `resource_ttl`
(C14Fits `discoveryInit_authWF`) -/
theorem discoveryInitTtl_authWF {ttl : Nat} {service full : Name} {own : List RR}
    (ht : ttl < 2 ^ 32) (hs : Name.WF service) (hf : Name.WF full) (hown : ∀ r ∈ own, r.WF) :
    AuthWF (discoveryInitTtl ttl service full own) :=
  (discoveryInitTtl_fits ht hs hf hown).2.1.auth

/-- **`ServiceDiscovery::new_with_scope` on an instance that fits**, the PTR record with any 32-bit
TTL `pttl`: the registered records are well-formed, and there are (addresses + ports + 2) of them
at most (C14Fits `discoveryInit_instance_fits`). -/
theorem discoveryInitTtl_instance_fits {pttl : Nat} {service full : Name}
    {ips : List (Bool × Nat)} {ports : List Nat} {attrs : Attrs} {ttl : Nat} {rs : List RR}
    (ht : pttl < 2 ^ 32) (hs : Name.WF service)
    (hm : MapOK attrs) (hfit : InstanceFits full ips ports attrs ttl)
    (hrs : intoRecords full ips ports attrs ttl = .ok rs) :
    Inv (discoveryInitTtl pttl service full rs) ∧ StoreFits (discoveryInitTtl pttl service full rs) ∧
    authCount (discoveryInitTtl pttl service full rs) ≤ ips.length + ports.length + 2 := by
  obtain ⟨hwf, hlen⟩ := instance_records_wf hm hfit hrs
  obtain ⟨h1, h2, h3⟩ := discoveryInitTtl_fits ht hs hfit.hname hwf
  exact ⟨h1, h2, by omega⟩

/-- **… as the code does it**: one `resource_ttl` for the PTR record and for `into_records`; the
bound on it is part of `InstanceFits`. For a well-formed service name, an admissible attribute map
and an instance within the limits the constructor's store exists and fits. -/
theorem discoveryNew_fits {service full : Name} {ips : List (Bool × Nat)} {ports : List Nat}
    {attrs : Attrs} {ttl : Nat} (hs : Name.WF service) (hm : MapOK attrs)
    (hfit : InstanceFits full ips ports attrs ttl) :
    ∃ s, discoveryNew service full ips ports attrs ttl = .ok s ∧
      Inv s ∧ StoreFits s ∧ authCount s ≤ ips.length + ports.length + 2 := by
  have hrs := intoRecords_ok full ips ports attrs ttl hm.2.2
  exact ⟨_, discoveryNew_of_records hrs, discoveryInitTtl_instance_fits hfit.httl hs hm hfit hrs⟩

/-! ### 2. Props/C14Fits.lean: C14 for the discovery service, hypotheses on its construction only -/

/-- **C14 for the discovery service, for every `resource_ttl`.** A `ServiceDiscovery` created for a
well-formed service name from an instance within the limits of `InstanceFits` (admissible attribute
map), its PTR record registered with any 32-bit TTL, after any sequence of datagrams and
`remove_service_from_discovery` calls: if it answers a datagram `d`, and ((length of `d` − 12) / 5) ×
(addresses + ports + 2) is below 65 536, the reply is a parseable DNS message, the packet
`build_reply` assembled (C14Fits `discovery_reply_parseable`). -/
theorem discovery_reply_parseable_ttl {pttl : Nat} {service full : Name} {ips : List (Bool × Nat)}
    {ports : List Nat} {attrs : Attrs} {ttl : Nat} {rs : List RR} {s s' : Store} {d : Bytes}
    {now : Nat} {bytes : Bytes} (ht : pttl < 2 ^ 32) (hs : Name.WF service) (hm : MapOK attrs)
    (hfit : InstanceFits full ips ports attrs ttl)
    (hrs : intoRecords full ips ports attrs ttl = .ok rs)
    (hreach : DiscoveryReach service full (discoveryInitTtl pttl service full rs) s)
    (hN : (d.length - 12) / 5 * (ips.length + ports.length + 2) < 65536)
    (h : handleDiscovery s service full d now = .ok (s', some bytes)) :
    ∃ p, Packet.parse bytes = .ok p ∧
      ∃ q u, Packet.parse d = .ok q ∧ buildReply q s now = some (p, u) := by
  obtain ⟨h1, h2, h3⟩ := discoveryInitTtl_instance_fits ht hs hm hfit hrs
  obtain ⟨_, i2, i3⟩ := hreach.fits h1 h2
  apply reply_parseable_discovery h
  intro q hq
  apply replyFits_of_datagram i2.auth hq
  refine Nat.lt_of_le_of_lt (Nat.mul_le_mul_left _ ?_) hN
  omega

/-- **… with the numbers of the code**: receive buffer of 9000 bytes, an instance with at most 34
addresses and ports together (C14Fits `discovery_reply_parseable_9000`), for every `resource_ttl`. -/
theorem discovery_reply_parseable_9000_ttl {pttl : Nat} {service full : Name}
    {ips : List (Bool × Nat)}
    {ports : List Nat} {attrs : Attrs} {ttl : Nat} {rs : List RR} {s s' : Store} {d : Bytes}
    {now : Nat} {bytes : Bytes} (ht : pttl < 2 ^ 32) (hs : Name.WF service) (hm : MapOK attrs)
    (hfit : InstanceFits full ips ports attrs ttl)
    (hrs : intoRecords full ips ports attrs ttl = .ok rs)
    (hreach : DiscoveryReach service full (discoveryInitTtl pttl service full rs) s)
    (hd : d.length ≤ 9000) (hsmall : ips.length + ports.length ≤ 34)
    (h : handleDiscovery s service full d now = .ok (s', some bytes)) :
    ∃ p, Packet.parse bytes = .ok p ∧
      ∃ q u, Packet.parse d = .ok q ∧ buildReply q s now = some (p, u) := by
  refine discovery_reply_parseable_ttl ht hs hm hfit hrs hreach ?_ h
  have h1 : (d.length - 12) / 5 ≤ 1797 := by omega
  have h2 : ips.length + ports.length + 2 ≤ 36 := by omega
  have := Nat.mul_le_mul h1 h2
  omega

/-- every reply the discovery service sends (`sendTo` accepts it) parses, for every `resource_ttl`
of the PTR record (C14Fits `discovery_sent_reply_parseable`) -/
theorem discovery_sent_reply_parseable_ttl {pttl : Nat} {service full : Name}
    {ips : List (Bool × Nat)}
    {ports : List Nat} {attrs : Attrs} {ttl : Nat} {rs : List RR} {s s' : Store} {d : Bytes}
    {now : Nat} {bytes : Bytes} (ht : pttl < 2 ^ 32) (hs : Name.WF service) (hm : MapOK attrs)
    (hfit : InstanceFits full ips ports attrs ttl)
    (hrs : intoRecords full ips ports attrs ttl = .ok rs)
    (hreach : DiscoveryReach service full (discoveryInitTtl pttl service full rs) s)
    (h : handleDiscovery s service full d now = .ok (s', some bytes))
    (hsend : sendTo bytes true = true) :
    ∃ p, Packet.parse bytes = .ok p ∧
      ∃ q u, Packet.parse d = .ok q ∧ buildReply q s now = some (p, u) := by
  obtain ⟨h1, h2, _⟩ := discoveryInitTtl_instance_fits ht hs hm hfit hrs
  obtain ⟨_, i2, _⟩ := hreach.fits h1 h2
  obtain ⟨q, r, u, hq, hr, hb⟩ := handleDiscovery_some h
  have hlen : bytes.length ≤ udpMaxPayload := by
    unfold sendTo at hsend
    simpa using hsend
  have hf := replyFits_of_sendable i2.auth hr hb hlen
  obtain ⟨b', hb', hp⟩ := compressed_transparent r (reply_wf (parsed_id_lt hq) hf hr)
  rw [hb] at hb'
  cases hb'
  exact ⟨r, hp, q, u, hq, hr⟩

/-- **C14 for the discovery service as the code constructs it** (`discoveryNew`: one `resource_ttl`
for the PTR record and the instance records, bounded by `InstanceFits`): 9000-byte receive buffer,
at most 34 addresses and ports. -/
theorem discovery_reply_parseable_9000_new {service full : Name} {ips : List (Bool × Nat)}
    {ports : List Nat} {attrs : Attrs} {ttl : Nat} {s0 s s' : Store} {d : Bytes}
    {now : Nat} {bytes : Bytes} (hs : Name.WF service) (hm : MapOK attrs)
    (hfit : InstanceFits full ips ports attrs ttl)
    (hnew : discoveryNew service full ips ports attrs ttl = .ok s0)
    (hreach : DiscoveryReach service full s0 s)
    (hd : d.length ≤ 9000) (hsmall : ips.length + ports.length ≤ 34)
    (h : handleDiscovery s service full d now = .ok (s', some bytes)) :
    ∃ p, Packet.parse bytes = .ok p ∧
      ∃ q u, Packet.parse d = .ok q ∧ buildReply q s now = some (p, u) := by
  obtain ⟨rs, hrs, rfl⟩ := discoveryNew_ok hnew
  exact discovery_reply_parseable_9000_ttl hfit.httl hs hm hfit hrs hreach hd hsmall h

/-- … and every reply it sends parses -/
theorem discovery_sent_reply_parseable_new {service full : Name} {ips : List (Bool × Nat)}
    {ports : List Nat} {attrs : Attrs} {ttl : Nat} {s0 s s' : Store} {d : Bytes}
    {now : Nat} {bytes : Bytes} (hs : Name.WF service) (hm : MapOK attrs)
    (hfit : InstanceFits full ips ports attrs ttl)
    (hnew : discoveryNew service full ips ports attrs ttl = .ok s0)
    (hreach : DiscoveryReach service full s0 s)
    (h : handleDiscovery s service full d now = .ok (s', some bytes))
    (hsend : sendTo bytes true = true) :
    ∃ p, Packet.parse bytes = .ok p ∧
      ∃ q u, Packet.parse d = .ok q ∧ buildReply q s now = some (p, u) := by
  obtain ⟨rs, hrs, rfl⟩ := discoveryNew_ok hnew
  exact discovery_sent_reply_parseable_ttl hfit.httl hs hm hfit hrs hreach h hsend

/-! ### 3. Lemmas/DiscoveryB.lean, Props/C15.lean, Props/C15Multi.lean: faithful discovery

None of these needs a bound on the TTL: what the listener learns does not depend on the TTL of its
own PTR record. -/

/-- the initial store, for every `resource_ttl`: store invariant, only records owned by the service
name or the own instance, all registered, and a trie node at the service's key
(DiscoveryB `discoveryInit_props`) -/
theorem discoveryInitTtl_props (ttl : Nat) (service own : Name) (ownRecords : List RR)
    (hown : ∀ r ∈ ownRecords, r.name = own) :
    Inv (discoveryInitTtl ttl service own ownRecords) ∧
    OwnOnly service own (discoveryInitTtl ttl service own ownRecords) ∧
    HasKey (discoveryInitTtl ttl service own ownRecords) (getKey service) := by
  unfold discoveryInitTtl
  generalize hs : Store.empty.addAuth (ptrRecordTtl ttl service own) = s
  have h0 : Inv s ∧ OwnOnly service own s ∧ HasKey s (getKey service) := by
    subst hs
    refine ⟨Inv.empty.addAuth _, ?_, ?_⟩
    · apply OwnOnly.addAuth
      · intro k b hm; simp [Store.empty] at hm
      · exact .inl rfl
    · exact (Store.key_mem_setBucket _ _ _ _).mpr (.inl rfl)
  clear hs
  induction ownRecords generalizing s with
  | nil => exact h0
  | cons r rs ih =>
    simp only [List.foldl_cons]
    apply ih (fun x hx => hown x (List.mem_cons_of_mem _ hx))
    exact ⟨h0.1.addAuth r, h0.2.1.addAuth (.inr (hown r (by simp))), h0.2.2.addAuth r⟩

/-- what the listener knows after ingesting the announcement of `instRecords … ss …`, whatever
`resource_ttl` (`pttl`) it was created with (C15 `known_after_announce`) -/
theorem known_after_announce_ttl (pttl : Nat) (service own : Name) (ownRecords : List RR)
    (inst : Label)
    (hown : own ≠ inst :: service) (hownRecs : ∀ r ∈ ownRecords, r.name = own)
    (ips : List (Bool × Nat)) (ports : List Nat) (ss : List Bytes) (ttl now now' : Nat)
    (hips : ips.Nodup) (hports : ports.Nodup) :
    known (ingest (announce (instRecords (inst :: service) ips ports ss ttl)) service own
        (discoveryInitTtl pttl service own ownRecords) now) service now' =
      if now' < now + 1000 * ttl then
        [{ name := inst, ips := ips, ports := ports,
           attrs := attrsExtend [] ((Txt.attributes ss).filter (fun e => !e.1.isEmpty)) }]
      else [] := by
  obtain ⟨hI, hO, hK⟩ := discoveryInitTtl_props pttl service own ownRecords hownRecs
  unfold known
  rw [ingest_announce service own inst hown,
    getDomain_after_announce hI hO hK inst hown ips ports ss ttl now now' hips hports]
  split
  · simp [fromRecords_instRecords service inst ips ports ss ttl hips hports]
  · rfl

/-- **Faithful discovery, one peer, for every `resource_ttl` of the listener** (`pttl`; the
announced instance has its own TTL `ttl`) (C15 `discovery_faithful`). -/
theorem discovery_faithful_ttl (pttl : Nat) (service : Name) (inst : Label) (own : Name)
    (ownRecords : List RR)
    (ips : List (Bool × Nat)) (ports : List Nat) (attrs : Attrs) (ttl now : Nat)
    (hips : ips.Nodup) (hports : ports.Nodup) (hattrs : MapOK attrs)
    (hkeys : ∀ e ∈ attrs, e.1 ≠ "") (hown : own ≠ inst :: service)
    (hownRecs : ∀ r ∈ ownRecords, r.name = own) :
    ∃ rs, intoRecords (inst :: service) ips ports attrs ttl = .ok rs ∧
      ((announce rs).WF →
        ∃ bytes s1, (announce rs).buildCompressed = .ok bytes ∧
          handleDiscovery (discoveryInitTtl pttl service own ownRecords) service own bytes now
            = .ok (s1, none) ∧
          (∀ now', now' < now + 1000 * ttl →
            known s1 service now' =
              [{ name := inst, ips := ips, ports := ports, attrs := attrs }]) ∧
          (∀ now', now + 1000 * ttl ≤ now' → known s1 service now' = [])) := by
  obtain ⟨ss, hss, hat⟩ := attrs_roundtrip attrs hattrs
  have hattrs' : attrsExtend [] ((Txt.attributes ss).filter (fun e => !e.1.isEmpty)) = attrs := by
    rw [hat, filter_nonempty_keys attrs hkeys,
      attrsExtend_fresh attrs [] hattrs.1 (by simp [Attrs.keys])]
    simp
  refine ⟨instRecords (inst :: service) ips ports ss ttl, by rw [intoRecords_eq, hss]; rfl, ?_⟩
  intro hwf
  obtain ⟨bytes, hb, hparse⟩ := compressed_transparent _ hwf
  refine ⟨bytes, _, hb, handleDiscovery_response hparse
    (show Header.hasFlags ⟨0, .StandardQuery, .NoError, 0x8000, none⟩ 0x8000 = true by decide), ?_, ?_⟩
  · intro now' hlt
    rw [known_after_announce_ttl pttl service own ownRecords inst hown hownRecs ips ports ss ttl now
      now' hips hports, if_pos hlt, hattrs']
  · intro now' hge
    rw [known_after_announce_ttl pttl service own ownRecords inst hown hownRecs ips ports ss ttl now
      now' hips hports, if_neg (by omega)]

/-- **Faithful discovery, from explicit limits**, for every `resource_ttl` of the listener
(C15 `discovery_faithful_limits`). -/
theorem discovery_faithful_limits_ttl (pttl : Nat) (service : Name) (inst : Label) (own : Name)
    (ownRecords : List RR) (ips : List (Bool × Nat)) (ports : List Nat) (attrs : Attrs)
    (ttl now : Nat) (hips : ips.Nodup) (hports : ports.Nodup) (hattrs : MapOK attrs)
    (hkeys : ∀ e ∈ attrs, e.1 ≠ "") (hown : own ≠ inst :: service)
    (hownRecs : ∀ r ∈ ownRecords, r.name = own)
    (hfits : InstanceFits (inst :: service) ips ports attrs ttl) :
    ∃ rs bytes s1, intoRecords (inst :: service) ips ports attrs ttl = .ok rs ∧
      (announce rs).buildCompressed = .ok bytes ∧
      handleDiscovery (discoveryInitTtl pttl service own ownRecords) service own bytes now
        = .ok (s1, none) ∧
      (∀ now', now' < now + 1000 * ttl →
        known s1 service now' = [{ name := inst, ips := ips, ports := ports, attrs := attrs }]) ∧
      (∀ now', now + 1000 * ttl ≤ now' → known s1 service now' = []) := by
  obtain ⟨rs, hrs, h⟩ := discovery_faithful_ttl pttl service inst own ownRecords ips ports attrs ttl
    now hips hports hattrs hkeys hown hownRecs
  have heq : rs = instRecords (inst :: service) ips ports (attrs.map attrEntryBytes) ttl := by
    rw [intoRecords_ok _ _ _ _ _ hattrs.2.2] at hrs
    exact (Out.ok.inj hrs).symm
  obtain ⟨bytes, s1, h1, h2, h3, h4⟩ := h (by rw [heq]; exact announce_wf hattrs hfits)
  exact ⟨rs, bytes, s1, hrs, h1, h2, h3, h4⟩

/-- **Faithful discovery of an instance without attributes**, for every `resource_ttl` of the
listener (C15 `discovery_faithful_no_attributes`). -/
theorem discovery_faithful_no_attributes_ttl (pttl : Nat) (service : Name) (inst : Label)
    (own : Name)
    (ownRecords : List RR) (ips : List (Bool × Nat)) (ports : List Nat) (ttl now : Nat)
    (hips : ips.Nodup) (hports : ports.Nodup) (hown : own ≠ inst :: service)
    (hownRecs : ∀ r ∈ ownRecords, r.name = own)
    (hname : Name.WF (inst :: service)) (httl : ttl < 2 ^ 32)
    (hipsFit : ∀ ip ∈ ips, ip.2 < (if ip.1 then 2 ^ 128 else 2 ^ 32))
    (hportsFit : ∀ p ∈ ports, p < 65536) (hcount : ips.length + ports.length + 1 ≤ 65535) :
    ∃ rs bytes s1, intoRecords (inst :: service) ips ports [] ttl = .ok rs ∧
      (announce rs).buildCompressed = .ok bytes ∧
      handleDiscovery (discoveryInitTtl pttl service own ownRecords) service own bytes now
        = .ok (s1, none) ∧
      (∀ now', now' < now + 1000 * ttl →
        known s1 service now' = [{ name := inst, ips := ips, ports := ports, attrs := [] }]) ∧
      (∀ now', now + 1000 * ttl ≤ now' → known s1 service now' = []) := by
  have hwf : (announce (instRecords (inst :: service) ips ports [[]] ttl)).WF :=
    announce_wf_strs hname httl hipsFit hportsFit ⟨by simp, by simp⟩ (by decide) hcount
  obtain ⟨bytes, hb, hparse⟩ := compressed_transparent _ hwf
  refine ⟨instRecords (inst :: service) ips ports [] ttl, bytes, _,
    by rw [intoRecords_eq, ofMap_nil]; rfl, by rw [announce_no_attrs_bytes]; exact hb,
    handleDiscovery_response hparse
      (show Header.hasFlags ⟨0, .StandardQuery, .NoError, 0x8000, none⟩ 0x8000 = true by decide),
    ?_, ?_⟩
  · intro now' hlt
    rw [known_after_announce_ttl pttl service own ownRecords inst hown hownRecs ips ports [[]] ttl
      now now' hips hports, if_pos hlt, attributes_empty_str]
    rfl
  · intro now' hge
    rw [known_after_announce_ttl pttl service own ownRecords inst hown hownRecs ips ports [[]] ttl
      now now' hips hports, if_neg (by omega)]

/-- every instance name but the listener's own is free when the listener starts, for every
`resource_ttl` (C15Multi `discoveryInit_ownerFree`) -/
theorem discoveryInitTtl_ownerFree (pttl : Nat) (service own : Name) (ownRecords : List RR)
    (hownRecs : ∀ r ∈ ownRecords, r.name = own) (inst : Label) (hown : own ≠ inst :: service) :
    OwnerFree (discoveryInitTtl pttl service own ownRecords) (inst :: service) :=
  ownerFree_of_ownOnly (discoveryInitTtl_props pttl service own ownRecords hownRecs).2.1
    (cons_ne_self inst service) (fun h => hown h.symm)

/-- a freshly created listener knows no instance, for every `resource_ttl` -/
theorem known_discoveryInitTtl (pttl : Nat) (service own : Name) (ownRecords : List RR)
    (hownRecs : ∀ r ∈ ownRecords, r.name = own) (now : Nat) :
    known (discoveryInitTtl pttl service own ownRecords) service now = [] :=
  known_of_ownOnly (discoveryInitTtl_props pttl service own ownRecords hownRecs).2.1 now

/-- **Several peers, from the start**, for every `resource_ttl` of the listener
(C15Multi `several_peers_from_start`). -/
theorem several_peers_from_start_ttl (pttl : Nat) (service own : Name) (ownRecords : List RR)
    (hownRecs : ∀ r ∈ ownRecords, r.name = own) (anns : List Ann)
    (hok : ∀ a ∈ anns, a.ips.Nodup ∧ a.ports.Nodup)
    (hdist : anns.Pairwise (fun a b => a.inst ≠ b.inst))
    (hown : ∀ a ∈ anns, own ≠ a.inst :: service) (now' : Nat) :
    (known (ingestAll service own anns (discoveryInitTtl pttl service own ownRecords)) service
      now').Perm (anns.flatMap (fun a => a.alive now')) := by
  obtain ⟨hI, hO, ⟨b, hb⟩⟩ := discoveryInitTtl_props pttl service own ownRecords hownRecs
  have := known_several_peers anns hok hdist hown hI (Store.nodeExists_of_mem hb)
    (fun a ha => discoveryInitTtl_ownerFree pttl service own ownRecords hownRecs a.inst (hown a ha))
    now'
  rw [known_of_ownOnly hO, List.append_nil] at this
  exact this

/-! ### 4. a concrete listener created with `resource_ttl = 120` -/

namespace C14TtlEx
open C15Ex C14FitsEx

/-- the hypotheses of `discovery_reply_parseable_9000_ttl` on the instance of C15, created with
`resource_ttl = 120`: well-formed registered records, four of them at most -/
example : StoreFits (discoveryInitTtl 120 service (printer :: service) rs) ∧
    authCount (discoveryInitTtl 120 service (printer :: service) rs) ≤ 4 :=
  (discoveryInitTtl_instance_fits (by decide) (by decide) attrs_ok fits into_records).2

/-- the constructor of the code on that instance -/
theorem new_printer : discoveryNew service (printer :: service) ips ports attrs 120 =
    .ok (discoveryInitTtl 120 service (printer :: service) rs) :=
  discoveryNew_of_records into_records

/-- the listener's reply to `_http._tcp.local ANY IN`: the service PTR **with TTL 120
(00 00 00 78)**, the instance's A, SRV and TXT records, the A record again as additional record of
the SRV answer -/
def drbytesTtl : Bytes :=
  [0, 7, 128, 0, 0, 0, 0, 4, 0, 0, 0, 1, 5, 95, 104, 116, 116, 112, 4, 95, 116, 99, 112, 5, 108, 111,
   99, 97, 108, 0, 0, 12, 0, 1, 0, 0, 0, 120, 0, 10, 7, 112, 114, 105, 110, 116, 101, 114, 192, 12,
   192, 40, 0, 1, 0, 1, 0, 0, 0, 120, 0, 4, 192, 168, 0, 1,
   192, 40, 0, 33, 0, 1, 0, 0, 0, 120, 0, 32, 0, 0, 0, 0, 31, 144, 7, 112, 114, 105, 110, 116, 101,
   114, 5, 95, 104, 116, 116, 112, 4, 95, 116, 99, 112, 5, 108, 111, 99, 97, 108, 0,
   192, 40, 0, 16, 0, 1, 0, 0, 0, 120, 0, 9, 3, 97, 61, 49, 1, 98, 2, 99, 61,
   192, 40, 0, 1, 0, 1, 0, 0, 0, 120, 0, 4, 192, 168, 0, 1]

/-- **a discovery service for `printer._http._tcp.local` created with `resource_ttl = 120` answers
the query byte for byte**, the PTR answer carrying the TTL 00 00 00 78 -/
theorem discovery_reply_ttl :
    handleDiscovery (discoveryInitTtl 120 service (printer :: service) rs) service (printer :: service)
      dqbytes 5 = .ok (discoveryInitTtl 120 service (printer :: service) rs, some drbytesTtl) := by
  have hf : dquery.header.hasFlags 0x8000 = false := by decide
  have hs : sendReply (buildReply dquery (discoveryInitTtl 120 service (printer :: service) rs) 5) =
      .ok (some drbytesTtl) := by decide +kernel
  unfold handleDiscovery
  rw [dqbytes_parse]
  simp only [hf, hs, Bool.false_eq_true, if_false]

/-- the PTR answer's TTL field (bytes 34–37 of the reply) is `resource_ttl`, big-endian -/
example : (drbytesTtl.drop 34).take 4 = [0, 0, 0, 120] := by decide

/-- the reply of the code (TTL 120) and the reply of the TTL-0 model `C14FitsEx.drbytes` differ, and
in the PTR answer's TTL field only -/
theorem drbytesTtl_vs_drbytes :
    drbytesTtl ≠ drbytes ∧ drbytesTtl.take 34 = drbytes.take 34 ∧
    (drbytes.drop 34).take 4 = [0, 0, 0, 0] ∧ drbytesTtl.drop 38 = drbytes.drop 38 := by decide

/-- the hypotheses of `discovery_reply_parseable_9000_ttl` / `…_new` are met by that run: the reply
parses -/
example : ∃ p, Packet.parse drbytesTtl = .ok p :=
  let ⟨p, hp, _⟩ := discovery_reply_parseable_9000_new (by decide) attrs_ok fits new_printer
    DiscoveryReach.start (by decide) (by decide) discovery_reply_ttl
  ⟨p, hp⟩

/-- … and those of `discovery_sent_reply_parseable_ttl` -/
example : ∃ p, Packet.parse drbytesTtl = .ok p :=
  let ⟨p, hp, _⟩ := discovery_sent_reply_parseable_ttl (pttl := 120) (by decide) (by decide) attrs_ok
    fits into_records DiscoveryReach.start discovery_reply_ttl (by decide +kernel)
  ⟨p, hp⟩

/-- `DiscoveryReach.fits` after a datagram: the listener of C15 created with `resource_ttl = 4500`
that has ingested the printer's announcement still has well-formed registered records, one of them -/
example : StoreFits (ingest (announce rs) service own (discoveryInitTtl 4500 service own []) 1000) ∧
    authCount (ingest (announce rs) service own (discoveryInitTtl 4500 service own []) 1000) ≤ 1 := by
  obtain ⟨h1, h2, h3⟩ := discoveryInitTtl_fits (ttl := 4500) (service := service) (full := own)
    (own := []) (by decide) (by decide) (by decide) (by simp)
  have hreach := DiscoveryReach.datagram .start
    (handleDiscovery_response (s := discoveryInitTtl 4500 service own []) (service := service)
      (full := own) (now := 1000) wire_parses (by decide))
  obtain ⟨_, i2, i3⟩ := hreach.fits h1 h2
  exact ⟨i2, by simp only [List.length_nil] at h3; omega⟩

/-- the listener created with `resource_ttl = 120` ingests the printer's announcement at t = 1 s and
reports the printer until t = 121 s (computed on the model) -/
example : handleDiscovery (discoveryInitTtl 120 service own []) service own wire 1000 =
    .ok (ingest (announce rs) service own (discoveryInitTtl 120 service own []) 1000, none) :=
  handleDiscovery_response wire_parses (by decide)

example : known (ingest (announce rs) service own (discoveryInitTtl 120 service own []) 1000) service
    120999 = [⟨printer, ips, ports, attrs⟩] := by rfl
example : known (ingest (announce rs) service own (discoveryInitTtl 120 service own []) 1000) service
    121000 = [] := by rfl

/-- the same through the theorem, for every arrival time and every `resource_ttl` of the listener -/
example (pttl now : Nat) : ∃ rs bytes s1,
    intoRecords (printer :: service) ips ports attrs 120 = .ok rs ∧
    (announce rs).buildCompressed = .ok bytes ∧
    handleDiscovery (discoveryInitTtl pttl service own []) service own bytes now = .ok (s1, none) ∧
    (∀ now', now' < now + 1000 * 120 →
      known s1 service now' = [{ name := printer, ips := ips, ports := ports, attrs := attrs }]) ∧
    (∀ now', now + 1000 * 120 ≤ now' → known s1 service now' = []) :=
  discovery_faithful_limits_ttl pttl service printer own [] ips ports attrs 120 now (by decide)
    (by decide) attrs_ok (by decide) (by decide) (by simp) fits

/-- several peers through the theorem: scanner and printer from the start, listener created with
`resource_ttl = 120` -/
example (now' : Nat) :
    (known (ingestAll service own [C15MultiEx.scannerAnn, C15MultiEx.printerAnn]
      (discoveryInitTtl 120 service own [])) service now').Perm
      (C15MultiEx.scannerAnn.alive now' ++ (C15MultiEx.printerAnn.alive now' ++ [])) :=
  several_peers_from_start_ttl 120 service own [] (by simp)
    [C15MultiEx.scannerAnn, C15MultiEx.printerAnn] (by decide) (by decide) (by decide) now'

end C14TtlEx

end Dns.Mdns
