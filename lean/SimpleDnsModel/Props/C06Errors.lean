/-
C06, explicit error and cursor clauses of `Name::parse` (RFC 1035 §4.1.4).

`Props/C06.lean` states the property against the decoding relation `Decodes`.
The theorems here make its clauses individually visible on the parser model:
a pointer that does not point strictly backwards (to itself, forwards, outside
the message) is rejected at once; a name that starts outside the message, a
label that runs over the end and a pointer cut after its first byte are
rejected; after a name that starts with a pointer the caller cursor is just
after that pointer; an accepted name has at most 127 labels.
-/
import SimpleDnsModel.Props.C06
namespace Dns

/-! ### helpers -/

namespace C06E

/-- a pointer byte (top two bits set) is not the terminating zero -/
theorem ptr_ne_zero {b : UInt8} (hp : b.toNat &&& 0xC0 = 0xC0) : b ≠ 0 := by
  intro h; subst h; simp at hp

/-- labels of at least one byte: two wire bytes per label, plus the terminating zero -/
theorem two_mul_length_lt_wireLen (n : Name) (hl : ∀ l ∈ n, 1 ≤ l.length ∧ l.length ≤ 63) :
    2 * n.length + 1 ≤ Name.wireLen n := by
  induction n with
  | nil => simp
  | cons l rest ih =>
    have h1 := (hl l (by simp)).1
    have := ih (fun x hx => hl x (by simp [hx]))
    simp; omega

end C06E

/-! ### 1, 2: pointers that do not point strictly backwards -/

/-- A pointer whose target is not strictly before the pointer itself (it points at itself or
forwards, in particular outside the message) is rejected at once. -/
theorem name_forward_pointer_is_error (d : Bytes) (pos : Nat) (b b2 : UInt8)
    (hlen : pos + 1 < d.length) (hb : d[pos]? = some b) (hptr : b.toNat &&& 0xC0 = 0xC0)
    (hb2 : d[pos+1]? = some b2) (hfw : (b.toNat &&& 0x3F) * 256 + b2.toNat ≥ pos) :
    Name.parse d pos = .err := by
  have hbz : b ≠ 0 := C06E.ptr_ne_zero hptr
  rw [Name.parse, nameLoop]
  simp [hb, hbz, hptr, hb2, show ¬ d.length ≤ pos by omega, show ¬ d.length < pos + 2 by omega]
  intro hback
  omega

example : Name.parse [0xC0, 0] 0 = .err :=
  name_forward_pointer_is_error _ 0 0xC0 0 (by decide) rfl (by decide) rfl (by decide)

example : Name.parse [0, 0xC0, 4, 0, 0] 1 = .err :=
  name_forward_pointer_is_error _ 1 0xC0 4 (by decide) rfl (by decide) rfl (by decide)

/-- A pointer whose target is outside the message is rejected. -/
theorem name_pointer_outside_is_error (d : Bytes) (pos : Nat) (b b2 : UInt8)
    (hlen : pos + 1 < d.length) (hb : d[pos]? = some b) (hptr : b.toNat &&& 0xC0 = 0xC0)
    (hb2 : d[pos+1]? = some b2) (hout : (b.toNat &&& 0x3F) * 256 + b2.toNat ≥ d.length) :
    Name.parse d pos = .err :=
  name_forward_pointer_is_error d pos b b2 hlen hb hptr hb2 (by omega)

example : Name.parse [0, 0xC1, 0] 1 = .err :=
  name_pointer_outside_is_error _ 1 0xC1 0 (by decide) rfl (by decide) rfl (by decide)

/-! ### 3: truncation -/

/-- A name that starts at or after the end of the message is rejected. -/
theorem name_truncated_is_error (d : Bytes) (pos : Nat) (h : pos ≥ d.length) :
    Name.parse d pos = .err := by
  rw [Name.parse, nameLoop]
  simp [show d.length ≤ pos from h]

example : Name.parse [3, 119] 2 = .err := name_truncated_is_error _ 2 (by decide)
example : Name.parse [] 0 = .err := name_truncated_is_error _ 0 (by decide)

/-- A label whose length byte announces more bytes than the message has is rejected. -/
theorem name_label_overrun_is_error (d : Bytes) (pos : Nat) (b : UInt8)
    (hb : d[pos]? = some b) (h1 : 1 ≤ b.toNat) (h63 : b.toNat ≤ 63)
    (hover : pos + 1 + b.toNat > d.length) : Name.parse d pos = .err := by
  have hlt : pos < d.length := lt_of_getElem?_some hb
  have hbz : b ≠ 0 := UInt8.ne_zero_of_toNat_pos h1
  have hnp : ¬ (b.toNat &&& 192 = 192) := not_ptr_of_le63 h63
  rw [Name.parse, nameLoop]
  simp [hb, hbz, hnp, show ¬ d.length ≤ pos by omega]
  intro hfit
  omega

example : Name.parse [3, 119, 119] 0 = .err :=
  name_label_overrun_is_error _ 0 3 rfl (by decide) (by decide) (by decide)

/-- A pointer whose second byte is missing is rejected. -/
theorem name_pointer_cut_is_error (d : Bytes) (pos : Nat) (b : UInt8)
    (hb : d[pos]? = some b) (hptr : b.toNat &&& 0xC0 = 0xC0)
    (hcut : pos + 2 > d.length) : Name.parse d pos = .err := by
  have hlt : pos < d.length := lt_of_getElem?_some hb
  have hbz : b ≠ 0 := C06E.ptr_ne_zero hptr
  rw [Name.parse, nameLoop]
  simp [hb, hbz, hptr, show ¬ d.length ≤ pos by omega, show d.length < pos + 2 by omega]

example : Name.parse [0, 0xC0] 1 = .err :=
  name_pointer_cut_is_error _ 1 0xC0 rfl (by decide) (by decide)

/-! ### 4, 5: the caller cursor -/

/-- When the name starts with a pointer, parsing of the enclosing element resumes right after that
pointer, however long the chain behind it is. -/
theorem name_cursor_after_first_pointer (d : Bytes) (pos : Nat) (b : UInt8) (n : Name) (p : Nat)
    (hb : d[pos]? = some b) (hptr : b.toNat &&& 0xC0 = 0xC0)
    (h : Name.parse d pos = .ok (n, p)) : p = pos + 2 :=
  InPlaceEnd.det (name_parse_cursor d pos n p h).1 (InPlaceEnd.ptr hb hptr)

/-- `com`, reached from offset 11 of `exPtr` through the pointer to offset 4 -/
theorem exPtr_parse_at_pointer : Name.parse exPtr 11 = .ok ([[99, 111, 109]], 13) := by
  have hE : Enc exPtr 11 [[99, 111, 109]] :=
    Enc.ptr (b := 0xC0) (b2 := 4) rfl (by decide) rfl (by decide) (by simp)
      (Enc.label (b := 3) rfl (by decide) (by decide) rfl (by decide) (Enc.root rfl))
  obtain ⟨p, hp⟩ := Name.parse_of_Enc hE (by decide)
  have h13 : p = 11 + 2 :=
    name_cursor_after_first_pointer exPtr 11 0xC0 _ p rfl (by decide) hp
  subst h13
  exact hp

example : exPtr[11]? = some 0xC0 ∧ (0xC0 : UInt8).toNat &&& 0xC0 = 0xC0 ∧
    Name.parse exPtr 11 = .ok ([[99, 111, 109]], 13) :=
  ⟨rfl, by decide, exPtr_parse_at_pointer⟩

/-- Every byte between the start of an accepted name and the returned cursor is inside the
message. -/
theorem name_cursor_plain (d : Bytes) (pos : Nat) (n : Name) (p : Nat)
    (h : Name.parse d pos = .ok (n, p)) : ∀ i, pos ≤ i → i < p → d[i]? ≠ none := by
  intro i _ hip
  have hle := (name_parse_cursor d pos n p h).2.2
  have hi : i < d.length := by omega
  simp [List.getElem?_eq_getElem hi]

example : ∀ i, 9 ≤ i → i < 13 → exPtr[i]? ≠ none :=
  name_cursor_plain _ _ _ _ exPtr_parse

/-! ### 6: size of an accepted name -/

/-- An accepted name has at most 127 labels (each takes at least two of the 255 wire bytes, the
terminating zero one). -/
theorem name_accepted_is_short (d : Bytes) (pos : Nat) (n : Name) (p : Nat)
    (h : Name.parse d pos = .ok (n, p)) : n.length ≤ 127 := by
  obtain ⟨hl, hw⟩ := name_parse_bounds d pos n p h
  have := C06E.two_mul_length_lt_wireLen n hl
  omega

example : ([[119, 119, 119], [99, 111, 109]] : Name).length ≤ 127 :=
  name_accepted_is_short _ _ _ _ exWwwCom_parse

end Dns
