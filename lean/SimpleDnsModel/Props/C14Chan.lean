/-
C14Chan — C14 for the discovery listener WITH an `on_discovery` channel.

`handleDiscovery` (`Model/Pipeline.lean`, the object of `Props/C14.lean`) models parse + `ingest`.
When a channel is set the Rust listener ALSO computes, WHILE HOLDING THE STORE'S WRITE LOCK, one
`InstanceInformation::from_records` per owner name among the kept records (sync:
`sync_discovery/service_discovery.rs: add_response_to_resources`, reports sent one by one, before the
`add_cached_resource` calls; tokio: `async_discovery/service_discovery.rs: collect_response`, reports
collected under the lock, `send_reports` awaits the channel after it is released). A panic there
kills the receive thread and poisons the `RwLock` (the pinned tree's defect: `to_string()` of a
non-UTF-8 label). `Mdns.reports` / `Mdns.fromRecords` are total functions, so "no panic" held by
construction. Here the computation is written out statement by statement with the panic-capable
primitives of `Props/C12C16More.lean` and `Model/Observers.lean` and proved never to reach them:

  `Name::without`          `Name.withoutC`: `usizeSub` (length subtraction), `sliceTo` (`labels[..n]`)
  `sub_domain.to_string()` `Name.displayStr`: the `Display` loop over `Label.display` (`from_utf8_lossy`)
  `txt.attributes()`       `Txt.attributesC`: `splitn(2, '=')` with both `next()` matched as `Option`s
  the match on the RDATA, `HashSet::insert`, `HashMap::extend`, `Vec::contains` / `push` (`owners`),
  `filter(|r| &r.name == owner)`: no indexing, slicing or arithmetic; sequenced through `Out`.

  1. `fromRecordsC`, `recStepC`, `fromRecordsStepG`            the panic-capable `from_records`
     `fromRecordsC_eq_lossy`, `fromRecordsC_ne_panic`, `fromRecordsC_ne_err`
         never panics, for ANY records and service name; value = total model with the name that
         `to_string()` returns (`fromRecordsL`, `lossyName`, `nameText_spec`)
  2. `fromRecordsC_eq`, `fromRecordsC_eq_of_utf8_names`         = `.ok (fromRecords …)` when the instance
         labels are valid UTF-8; `fromRecordsC_agrees` (unconditional: same `Some`/`None`, same
         addresses, ports, attributes). The unconditional equation is FALSE:
         `C14ChanEx.fromRecordsC_ne_fromRecords` (label FF: U+FFFD against the raw byte — the total
         model keeps label bytes where Rust renders them lossily, as `Model/NameText.lean` says).
  3. guards: `without` guards its own slice (`withoutC_eq`, any two names), which is why 1. needs no
     hypothesis. `fromRecordsU` / `reportsU` / `handleDiscoveryU` use the UNGUARDED body
     (`Name.withoutUnguarded`): `fromRecordsU_panics` (a record with fewer labels than the service:
     panic), `fromRecordsU_eq_of_filter`, `reportsU_eq_of_filter`, `handleDiscoveryU_eq` (the
     listener's filter `is_subdomain_of(service_name)` alone would keep the slice in range: the
     counterexample is not reachable through `add_response_to_resources`).
  4. `reportsC`, `reportsC_eq_lossy`, `reportsC_ne_panic`, `reportsC_agrees`, `reportsC_eq`,
     `reportsL_length`; the sync loop with a receiver that is dropped after `cap` reports (`break`):
     `reportsClosingC`, `reportsClosingC_eq`, `reportsClosingC_ne_panic`, `reportsClosingC_open`
  5. `handleDiscoveryC (channel : Bool)`, `handleDiscoveryC_eq` (closed form over `handleDiscovery`),
     `handleDiscoveryC_ne_panic`, `handleDiscoveryC_total`, `handleDiscoveryC_store_eq`,
     `handleDiscoveryC_ok_iff`, `store_usable_channel`, `channelReports_eq_reports`
  6. the loop: `discoveryIteration (pol : OnSendError) (channel : Bool)`, `discoverySendPolicy = .log`,
     `discovery_loop_survives`, `discovery_sends_reply`, `discovery_loop_sends`,
     `discovery_loop_propagate_ends`, `discovery_loop_log_continues`, `discoveryIteration_store`,
     `handleDiscovery_of_responder`, `discovery_failed_send_reachable` (1519-byte query, reply over
     65 507 bytes, re-using `C14FitsEx.failed_send_reachable`).
     **`pol = .log` is tied to the source of BOTH listeners by `TieEnv.discovery_send_policy`**
     (restated as `discoverySendPolicy_tied`): sync `send_packet` logs a failed `send_to`; tokio
     `process_packet` returns the error with `?` and the loop logs it. `.propagate` is the
     counterfactual (the responder's code before fix 4185208).
  7. `C14ChanEx`: a response with a non-UTF-8 instance label and a channel; a response whose records
     are not under the service; an empty datagram; a query for the listener's own records.

Not modelled (as in `Props/C14.lean`): threads, sockets, the `RwLock` itself, the channel (a `send`
does not panic; tokio awaits it after the lock is released), `std::fmt`, hashing inside the std
collections. `lossy` renders an invalid label as ONE U+FFFD: the exact replacement text is outside
the model (`Model/Observers.lean`), the fact that a `String` comes back is not.
-/
import SimpleDnsModel.Props.C14Fits
import SimpleDnsModel.Props.C15Reports
import SimpleDnsModel.Props.TieEnv
import SimpleDnsModel.Props.TieEnvMdns
namespace Dns.Mdns

/-! ### 0. the text of a name -/

/-- a name with every label replaced by the UTF-8 bytes of its `String::from_utf8_lossy` text (the
label itself when it is valid UTF-8) -/
def lossyName (n : Name) : Name := n.map (fun l => bytesOfString (lossy l))

/-- `name.to_string()` as a value: the `String` the `Display` loop of `Model/Observers.lean`
returns (it always returns one: `nameText_spec`) -/
def nameText (n : Name) : String :=
  match Name.displayStr n with
  | .ok s => s
  | _ => ""

/-- `to_string()` of a name returns normally, whatever bytes the labels hold, and the bytes of the
text are the dotted form of the lossily rendered labels -/
theorem nameText_spec (n : Name) :
    Name.displayStr n = .ok (nameText n) ∧
      bytesOfString (nameText n) = Name.display (lossyName n) := by
  obtain ⟨str, h1, h2⟩ := display_str_bytes_lossy n
  have : nameText n = str := by simp [nameText, h1]
  rw [this]
  exact ⟨h1, h2⟩

/-- labels that are valid UTF-8 are rendered as they are -/
theorem lossyName_eq_of_utf8 {n : Name} (h : ∀ l ∈ n, (stringOfBytes? l).isSome = true) :
    lossyName n = n := by
  unfold lossyName
  conv => rhs; rw [← List.map_id n]
  exact List.map_congr_left fun l hl => by
    obtain ⟨s, hs⟩ := Option.isSome_iff_exists.1 (h l hl); exact lossy_bytes hs

/-! ### 1. `InstanceInformation::from_records`, statement by statement -/

/-- the `match &resource.rdata` of `from_records`: `HashSet::insert`, `HashMap::extend` over
`txt.attributes()` (the statement-level `Txt.attributesC` of `Props/C12C16More.lean`, whose two
`splited.next()` are matched as `Option`s) filtered by `!key.is_empty()`. No arm indexes, slices
or does arithmetic; the arms are sequenced through `Out` so that the loop lists what it runs. -/
def recStepC (i : Instance) (r : RR) : Out Instance :=
  match r.rdata with
  | .flat 1 [.int a] => pure { i with ips := insertNew i.ips (false, a) }
  | .flat 28 [.int a] => pure { i with ips := insertNew i.ips (true, a) }
  | .flat 16 [.strs ss] => do
    let attrs ← (pure (Txt.attributesC ss) : Out Attrs)
    pure { i with attrs := attrsExtend i.attrs (attrs.filter (fun e => !e.1.isEmpty)) }
  | .flat 33 [_, _, .int port, _] => pure { i with ports := insertNew i.ports port }
  | _ => pure i

/-- the body of the `for resource in records` loop of `from_records`, over an implementation
`wo` of `Name::without`: `if instance_name.is_none() { instance_name =
resource.name.without(service_name).map(|sub_domain| sub_domain.to_string()) }`, then the match.
The state is (`instance_name`, the three collections). -/
def fromRecordsStepG (wo : Name → Name → Out (Option Name)) (service : Name)
    (st : Option String × Instance) (r : RR) : Out (Option String × Instance) := do
  let name ← (if st.1.isNone then do
      let sub ← wo r.name service
      match sub with
      | some n => do
        let text ← Name.displayStr n
        pure (some text)
      | none => pure none
    else pure st.1 : Out (Option String))
  let inst ← recStepC st.2 r
  pure (name, inst)

/-- `from_records` over an implementation of `Name::without`: the loop, then
`instance_name.map(|instance_name| InstanceInformation { .. })`. The instance name is kept as the
UTF-8 bytes of the `String` (the convention of `Mdns.Instance`). -/
def fromRecordsG (wo : Name → Name → Out (Option Name)) (service : Name) (records : List RR) :
    Out (Option Instance) := do
  let st ← Out.foldl (fromRecordsStepG wo service) (none, emptyInst) records
  pure (st.1.map fun text => { st.2 with name := bytesOfString text })

/-- **`InstanceInformation::from_records` with its panic-capable steps**: `Name::without` is
`Name.withoutC` (`usize` subtraction and range slice of `Props/C12C16More.lean`), `to_string()` is
the `Display` loop `Name.displayStr` -/
def fromRecordsC (service : Name) (records : List RR) : Out (Option Instance) :=
  fromRecordsG Name.withoutC service records

/-- the same with the body of `without` NOT guarded by `is_subdomain_of` (to show which guard
keeps the slice in range) -/
def fromRecordsU (service : Name) (records : List RR) : Out (Option Instance) :=
  fromRecordsG Name.withoutUnguarded service records

/-- `from_records` as the existing total model computes it, except that the instance name is the
text `to_string()` really returns (labels rendered with `from_utf8_lossy`) -/
def fromRecordsL (service : Name) (records : List RR) : Option Instance :=
  (records.findSome? (fun r => r.name.without service)).map (fun n =>
    { records.foldl recStep emptyInst with name := Name.display (lossyName n) })

/-- the match on the RDATA returns normally, with the value of the existing model -/
theorem recStepC_eq (i : Instance) (r : RR) : recStepC i r = .ok (recStep i r) := by
  unfold recStepC recStep
  split <;> simp_all [attributesC_eq]

/-- the loop body of `from_records` returns normally: the name is looked for while there is none -/
theorem fromRecordsStepC_eq (service : Name) (st : Option String × Instance) (r : RR) :
    fromRecordsStepG Name.withoutC service st r =
      .ok ((if st.1.isNone then (r.name.without service).map nameText else st.1),
           recStep st.2 r) := by
  unfold fromRecordsStepG
  rw [recStepC_eq]
  cases h : st.1 with
  | some t => simp
  | none =>
    simp only [Option.isNone_none, if_true, withoutC_eq, Out.bind_ok]
    cases r.name.without service with
    | none => simp
    | some n => simp [(nameText_spec n).1]

/-- the state of the loop of `from_records` after the records `rs` -/
theorem foldl_fromRecordsStep (service : Name) (rs : List RR) (nm : Option String) (i : Instance) :
    rs.foldl (fun (st : Option String × Instance) r =>
        ((if st.1.isNone then (r.name.without service).map nameText else st.1), recStep st.2 r))
      (nm, i) =
    ((if nm.isNone then (rs.findSome? (fun r => r.name.without service)).map nameText else nm),
     rs.foldl recStep i) := by
  induction rs generalizing nm i with
  | nil => cases nm <;> simp
  | cons r rs ih =>
    rw [List.foldl_cons, ih]
    cases nm with
    | some t => simp
    | none =>
      simp only [Option.isNone_none, if_true, List.findSome?_cons, List.foldl_cons]
      cases r.name.without service <;> simp

/-- **`from_records` never panics and never fails; what it returns is the instance of the total
model with the name `to_string()` returns.** For any service name and any records whatsoever (no
filter is assumed): the subtraction and the slice of `without` are guarded inside `without`
(`withoutC_eq`), and `Display` renders every byte string. -/
theorem fromRecordsC_eq_lossy (service : Name) (rs : List RR) :
    fromRecordsC service rs = .ok (fromRecordsL service rs) := by
  unfold fromRecordsC fromRecordsG
  rw [Out.foldl_ok (fromRecordsStepC_eq service), foldl_fromRecordsStep]
  simp only [Out.bind_ok, Out.pure_eq, Option.isNone_none, if_true, fromRecordsL, Option.map_map]
  congr 1
  cases rs.findSome? (fun r => r.name.without service) with
  | none => rfl
  | some n => simp [(nameText_spec n).2]

/-- `from_records` never panics -/
theorem fromRecordsC_ne_panic (service : Name) (rs : List RR) : fromRecordsC service rs ≠ .panic := by
  rw [fromRecordsC_eq_lossy]; simp

/-- ... and has no error path -/
theorem fromRecordsC_ne_err (service : Name) (rs : List RR) : fromRecordsC service rs ≠ .err := by
  rw [fromRecordsC_eq_lossy]; simp

/-! ### 2. agreement with the total model `fromRecords` -/

/-- `fromRecordsL` and `fromRecords` succeed on the same inputs and then differ in the name only,
which is the dotted form of the same sub-domain, lossily rendered in one and byte for byte in the
other -/
theorem fromRecordsL_agrees (service : Name) (rs : List RR) :
    (fromRecordsL service rs = none ↔ fromRecords service rs = none) ∧
    ∀ i j, fromRecordsL service rs = some i → fromRecords service rs = some j →
      i.ips = j.ips ∧ i.ports = j.ports ∧ i.attrs = j.attrs ∧
      ∃ n, rs.findSome? (fun r => r.name.without service) = some n ∧
        i.name = Name.display (lossyName n) ∧ j.name = Name.display n := by
  rw [fromRecords_eq]
  unfold fromRecordsL
  cases rs.findSome? (fun r => r.name.without service) with
  | none => simp
  | some n =>
    refine ⟨by simp, ?_⟩
    intro i j hi hj
    simp only [Option.map_some, Option.some.injEq] at hi hj
    subst hi hj
    exact ⟨rfl, rfl, rfl, n, rfl, rfl, rfl⟩

/-- **Whatever the labels hold, `from_records` never panics, returns `Some` exactly when the total
model does, and then with the same addresses, ports and attributes.** -/
theorem fromRecordsC_agrees (service : Name) (rs : List RR) :
    ∃ o, fromRecordsC service rs = .ok o ∧ (o = none ↔ fromRecords service rs = none) ∧
      ∀ i j, o = some i → fromRecords service rs = some j →
        i.ips = j.ips ∧ i.ports = j.ports ∧ i.attrs = j.attrs :=
  ⟨_, fromRecordsC_eq_lossy service rs, (fromRecordsL_agrees service rs).1, fun i j hi hj =>
    let ⟨h1, h2, h3, _⟩ := (fromRecordsL_agrees service rs).2 i j hi hj; ⟨h1, h2, h3⟩⟩

/-- where the labels in front of the service name are valid UTF-8 the two models coincide -/
theorem fromRecordsL_eq_of_utf8 {service : Name} {rs : List RR}
    (h : ∀ n, rs.findSome? (fun r => r.name.without service) = some n →
      ∀ l ∈ n, (stringOfBytes? l).isSome = true) :
    fromRecordsL service rs = fromRecords service rs := by
  rw [fromRecords_eq]
  unfold fromRecordsL
  cases hn : rs.findSome? (fun r => r.name.without service) with
  | none => rfl
  | some n => simp only [Option.map_some, lossyName_eq_of_utf8 (h n hn)]; rfl

/-- **Refinement.** When the instance labels (what `without` leaves of the first record below the
service) are valid UTF-8, the panic-capable `from_records` returns normally with exactly the value
of the total model `Mdns.fromRecords`. -/
theorem fromRecordsC_eq {service : Name} {rs : List RR}
    (h : ∀ n, rs.findSome? (fun r => r.name.without service) = some n →
      ∀ l ∈ n, (stringOfBytes? l).isSome = true) :
    fromRecordsC service rs = .ok (fromRecords service rs) := by
  rw [fromRecordsC_eq_lossy, fromRecordsL_eq_of_utf8 h]

/-- the hypothesis holds in particular when every label of every owner name is valid UTF-8 -/
theorem fromRecordsC_eq_of_utf8_names {service : Name} {rs : List RR}
    (h : ∀ r ∈ rs, ∀ l ∈ r.name, (stringOfBytes? l).isSome = true) :
    fromRecordsC service rs = .ok (fromRecords service rs) := by
  apply fromRecordsC_eq
  intro n hn l hl
  obtain ⟨r, hr, hw⟩ := List.exists_of_findSome?_eq_some hn
  unfold Name.without at hw
  split at hw
  · cases hw
    exact h r hr l (List.mem_of_mem_take hl)
  · cases hw

/-! ### 3. which guard keeps the slice of `without` in range -/

/-- two loops whose bodies agree on the elements of the list agree -/
theorem Out.foldl_congr {α β : Type} {f g : β → α → Out β} {l : List α}
    (h : ∀ b, ∀ a ∈ l, f b a = g b a) (b : β) : Out.foldl f b l = Out.foldl g b l := by
  induction l generalizing b with
  | nil => rfl
  | cons a as ih =>
    simp only [Out.foldl, h b a (by simp)]
    cases g b a with
    | ok b' => simpa using ih (fun b x hx => h b x (by simp [hx])) b'
    | err => rfl
    | panic => rfl

/-- every record `add_response_to_resources` keeps is a strict subdomain of the service -/
theorem ingestRecords_subdomain {p : Packet} {service full : Name} {r : RR}
    (h : r ∈ ingestRecords p service full) : r.name.isSubdomainOf service = true :=
  (mem_ingestRecords.mp h).2.2

/-- **The listener's own filter would be enough**: on records that passed
`aw.name.is_subdomain_of(service_name)` the subtraction and the slice of `without` are in range even
without the guard inside `without`; the unguarded `from_records` is the guarded one there. -/
theorem fromRecordsU_eq_of_filter {service : Name} {rs : List RR}
    (h : ∀ r ∈ rs, r.name.isSubdomainOf service = true) :
    fromRecordsU service rs = fromRecordsC service rs := by
  unfold fromRecordsU fromRecordsC fromRecordsG
  rw [Out.foldl_congr (g := fromRecordsStepG Name.withoutC service)]
  intro st r hr
  unfold fromRecordsStepG
  rw [withoutUnguarded_agrees (h r hr)]

/-- hence it never panics on what the listener keeps -/
theorem fromRecordsU_ne_panic_of_filter {service : Name} {rs : List RR}
    (h : ∀ r ∈ rs, r.name.isSubdomainOf service = true) : fromRecordsU service rs ≠ .panic := by
  rw [fromRecordsU_eq_of_filter h]; exact fromRecordsC_ne_panic service rs

/-- **Without either guard the slice panics**: a first record whose owner name has fewer labels than
the service name makes the unguarded `from_records` panic (`usize` underflow). `from_records` is
`pub(crate)` and is also handed the groups of `get_known_services`; the guard inside `without` is
what makes it safe for every caller (`fromRecordsC_ne_panic` assumes nothing about the records). -/
theorem fromRecordsU_panics {service : Name} {r : RR} (rs : List RR)
    (h : r.name.length < service.length) : fromRecordsU service (r :: rs) = .panic := by
  simp [fromRecordsU, fromRecordsG, Out.foldl, fromRecordsStepG, withoutUnguarded_panics h]

/-! ### 4. the reports computed under the lock -/

/-- `if let Some(x) = o { v.push(x) }` / `Vec::extend(o)` -/
def pushOpt {β : Type} (acc : List β) : Option β → List β
  | some x => acc ++ [x]
  | none => acc

/-- what the listener computes for the channel while it holds the store's write lock
(sync `add_response_to_resources`, tokio `collect_response`): the `owners` vector (`Vec::contains`
and `push`: `Mdns.owners`, no indexing), then for each owner `from_records` over
`resources.iter().filter(|r| &r.name == owner)`, the `Some` results pushed / sent in order -/
def reportsG (wo : Name → Name → Out (Option Name)) (service : Name) (rs : List RR) :
    Out (List Instance) :=
  Out.foldl (fun acc o => do
    let i ← fromRecordsG wo service (rs.filter (fun r => r.name == o))
    pure (pushOpt acc i)) [] (owners rs)

/-- the reports with the panic-capable `from_records` -/
def reportsC (service : Name) (rs : List RR) : Out (List Instance) :=
  reportsG Name.withoutC service rs

/-- ... and with the unguarded slice -/
def reportsU (service : Name) (rs : List RR) : Out (List Instance) :=
  reportsG Name.withoutUnguarded service rs

/-- the reports of the total model with the names `to_string()` returns -/
def reportsL (service : Name) (rs : List RR) : List Instance :=
  (owners rs).filterMap (fun o => fromRecordsL service (rs.filter (fun r => r.name == o)))

/-- pushing the `Some` results of a loop is `filter_map` -/
theorem foldl_push_filterMap {α β : Type} (f : α → Option β) (l : List α) (acc : List β) :
    l.foldl (fun acc o => pushOpt acc (f o)) acc = acc ++ l.filterMap f := by
  induction l generalizing acc with
  | nil => simp
  | cons a as ih =>
    rw [List.foldl_cons, ih, List.filterMap_cons]
    cases f a <;> simp [pushOpt]

/-- **The reports are computed without a panic**, for any records and any service name: the value
is the report list of the total model with the names `to_string()` returns. -/
theorem reportsC_eq_lossy (service : Name) (rs : List RR) :
    reportsC service rs = .ok (reportsL service rs) := by
  unfold reportsC reportsG reportsL
  rw [Out.foldl_ok (g := fun acc o =>
    pushOpt acc (fromRecordsL service (rs.filter (fun r => r.name == o))))]
  · rw [foldl_push_filterMap (fun o => fromRecordsL service (rs.filter (fun r => r.name == o)))]
    simp
  · intro acc o
    have := fromRecordsC_eq_lossy service (rs.filter (fun r => r.name == o))
    unfold fromRecordsC at this
    rw [this]; rfl

/-- computing the reports never panics: the write lock is not poisoned by the channel branch -/
theorem reportsC_ne_panic (service : Name) (rs : List RR) : reportsC service rs ≠ .panic := by
  rw [reportsC_eq_lossy]; simp

/-- ... and cannot fail -/
theorem reportsC_ne_err (service : Name) (rs : List RR) : reportsC service rs ≠ .err := by
  rw [reportsC_eq_lossy]; simp

/-! #### the sync loop when the receiver goes away

The sync listener sends each report as soon as it is built and `break`s at the first failed
`channel.send` (receiver dropped), then forgets the channel. What it evaluates under the lock is
then `from_records` for a PREFIX of the owners. -/

/-- `if let Some(x) = i { if channel.send(x).is_err() { closed = true; break } }` with a receiver
that takes `cap` reports and is then dropped; the state is (reports taken, `closed`) -/
def closingStep (cap : Nat) (st : List Instance × Bool) : Option Instance → List Instance × Bool
  | some x => if st.1.length < cap then (st.1 ++ [x], false) else (st.1, true)
  | none => st

/-- the owners loop of the sync `add_response_to_resources` with such a receiver: after the `break`
nothing more is evaluated -/
def reportsClosingC (cap : Nat) (service : Name) (rs : List RR) : Out (List Instance × Bool) :=
  Out.foldl (fun (st : List Instance × Bool) o =>
    if st.2 then pure st
    else do
      let i ← fromRecordsC service (rs.filter (fun r => r.name == o))
      pure (closingStep cap st i)) ([], false) (owners rs)

/-- the pure loop with a closing receiver delivers the first `cap` reports and notices the closed
channel exactly when there was one more -/
theorem foldl_closingStep {α : Type} (cap : Nat) (f : α → Option Instance) (l : List α)
    (acc : List Instance) (hacc : acc.length ≤ cap) :
    l.foldl (fun st o => if st.2 = true then st else closingStep cap st (f o)) (acc, false) =
      ((acc ++ l.filterMap f).take cap, decide (cap < (acc ++ l.filterMap f).length)) ∧
    l.foldl (fun st o => if st.2 = true then st else closingStep cap st (f o)) (acc, true) =
      (acc, true) := by
  induction l generalizing acc with
  | nil =>
    refine ⟨?_, rfl⟩
    simp only [List.foldl_nil, List.filterMap_nil, List.append_nil]
    rw [List.take_of_length_le hacc]
    simp; omega
  | cons a as ih =>
    refine ⟨?_, ?_⟩
    · rw [List.foldl_cons, List.filterMap_cons]
      simp only [Bool.false_eq_true, if_false]
      cases hf : f a with
      | none => simpa [closingStep] using (ih acc hacc).1
      | some x =>
        have hstep : closingStep cap (acc, false) (some x) =
            if acc.length < cap then (acc ++ [x], false) else (acc, true) := rfl
        rw [hstep]
        by_cases hlt : acc.length < cap
        · rw [if_pos hlt, (ih (acc ++ [x]) (by simp; omega)).1]
          simp
        · rw [if_neg hlt, (ih acc hacc).2]
          have hc : acc.length = cap := by omega
          subst hc
          simp
    · rw [List.foldl_cons]
      simpa using (ih acc hacc).2

/-- **The sync loop with a receiver that goes away never panics either**: it delivers the first
`cap` reports of `reportsL` and sets `closed` iff there was a further one. -/
theorem reportsClosingC_eq (cap : Nat) (service : Name) (rs : List RR) :
    reportsClosingC cap service rs =
      .ok ((reportsL service rs).take cap, decide (cap < (reportsL service rs).length)) := by
  unfold reportsClosingC
  rw [Out.foldl_ok (g := fun st o => if st.2 = true then st else
    closingStep cap st (fromRecordsL service (rs.filter (fun r => r.name == o))))]
  · rw [(foldl_closingStep cap
      (fun o => fromRecordsL service (rs.filter (fun r => r.name == o))) (owners rs) []
      (Nat.zero_le _)).1]
    simp only [List.nil_append, reportsL]
    congr
  · intro st o
    rw [fromRecordsC_eq_lossy]
    cases st.2 <;> simp

/-- no panic under the lock, however early the receiver is dropped -/
theorem reportsClosingC_ne_panic (cap : Nat) (service : Name) (rs : List RR) :
    reportsClosingC cap service rs ≠ .panic := by
  rw [reportsClosingC_eq]; simp

/-- a receiver that stays delivers what `reportsC` computes -/
theorem reportsClosingC_open {cap : Nat} {service : Name} {rs : List RR}
    (h : (reportsL service rs).length ≤ cap) :
    reportsClosingC cap service rs = (reportsC service rs >>= fun r => pure (r, false)) := by
  rw [reportsClosingC_eq, reportsC_eq_lossy, List.take_of_length_le h]
  simp; omega

/-- what a report says besides the name -/
def Instance.body (i : Instance) : List (Bool × Nat) × List Nat × Attrs := (i.ips, i.ports, i.attrs)

/-- `fromRecordsL` and `fromRecords` agree on everything but the name -/
theorem fromRecordsL_body (service : Name) (rs : List RR) :
    (fromRecordsL service rs).map Instance.body = (fromRecords service rs).map Instance.body := by
  rw [fromRecords_eq]
  unfold fromRecordsL
  cases rs.findSome? (fun r => r.name.without service) <;> rfl

/-- **Whatever the labels hold, the reports computed under the lock are, one for one and in order,
the reports of the total model `Mdns.reports` up to the rendering of the names**: as many, with the
same addresses, ports and attributes. -/
theorem reportsC_agrees (p : Packet) (service full : Name) :
    ∃ reps, reportsC service (ingestRecords p service full) = .ok reps ∧
      reps.map Instance.body = (reports p service full).map Instance.body := by
  refine ⟨_, reportsC_eq_lossy _ _, ?_⟩
  unfold reportsL reports
  simp only [List.map_filterMap, fromRecordsL_body]

/-- exactly one report per owner name among the kept records is built under the lock (the
listener's filter makes every `from_records` return `Some`: `reports_length`) -/
theorem reportsL_length (p : Packet) (service full : Name) :
    (reportsL service (ingestRecords p service full)).length =
      (owners (ingestRecords p service full)).length := by
  obtain ⟨reps, h1, h2⟩ := reportsC_agrees p service full
  rw [reportsC_eq_lossy] at h1
  cases h1
  rw [← reports_length p service full]
  simpa using congrArg List.length h2

/-- `filter_map` with functions that agree on the members -/
theorem filterMap_congr_mem {α β : Type} {f g : α → Option β} {l : List α}
    (h : ∀ a ∈ l, f a = g a) : l.filterMap f = l.filterMap g := by
  induction l with
  | nil => rfl
  | cons a as ih =>
    rw [List.filterMap_cons, List.filterMap_cons, h a (by simp),
      ih (fun x hx => h x (List.mem_cons_of_mem _ hx))]

/-- where the labels are valid UTF-8 the two `from_records` models coincide -/
theorem fromRecordsL_eq_of_utf8_names {service : Name} {rs : List RR}
    (h : ∀ r ∈ rs, ∀ l ∈ r.name, (stringOfBytes? l).isSome = true) :
    fromRecordsL service rs = fromRecords service rs := by
  have := fromRecordsC_eq_of_utf8_names (service := service) h
  rw [fromRecordsC_eq_lossy] at this
  exact Out.ok.inj this

/-- **Refinement for the channel reports.** When the owner names of the kept records are valid
UTF-8, what is computed under the lock is exactly `Mdns.reports` (the object of
`Props/C15Reports.lean`). -/
theorem reportsC_eq {p : Packet} {service full : Name}
    (h : ∀ r ∈ ingestRecords p service full, ∀ l ∈ r.name, (stringOfBytes? l).isSome = true) :
    reportsC service (ingestRecords p service full) = .ok (reports p service full) := by
  rw [reportsC_eq_lossy]
  unfold reportsL reports
  congr 1
  apply filterMap_congr_mem
  intro o _
  exact fromRecordsL_eq_of_utf8_names fun r hr => h r (List.mem_filter.mp hr).1

/-- on what the listener keeps, the reports with the unguarded slice are the guarded ones: its
filter makes every `without` call succeed -/
theorem reportsU_eq_of_filter {service : Name} {rs : List RR}
    (h : ∀ r ∈ rs, r.name.isSubdomainOf service = true) :
    reportsU service rs = reportsC service rs := by
  unfold reportsU reportsC reportsG
  apply Out.foldl_congr
  intro acc o _
  have := fromRecordsU_eq_of_filter (service := service)
    (rs := rs.filter (fun r => r.name == o)) (fun r hr => h r (List.mem_filter.mp hr).1)
  unfold fromRecordsU fromRecordsC at this
  rw [this]

/-! ### 5. the listener's handling of a datagram, with the channel -/

/-- **One iteration of `ServiceDiscovery`'s receive loop, with what is done for the `on_discovery`
channel.** Parse; a response: under the store's write lock, when a channel is present
(`channel`), the reports (`reportsC`), then the `add_cached_resource` calls; a query: `build_reply`
and its serialisation as in `handleDiscovery`. The result is the store, the reply to send and the
reports for the channel. A `.panic` in the response branch is a panic while the write lock is
held. -/
def handleDiscoveryC (channel : Bool) (s : Store) (service full : Name) (d : Bytes) (now : Nat) :
    Out (Store × Option Bytes × List Instance) :=
  match Packet.parse d with
  | .panic => .panic
  | .err => .ok (s, none, [])
  | .ok p =>
    if p.header.hasFlags 0x8000 then do
      let resources := ingestRecords p service full
      let reps ← (if channel then reportsC service resources else pure [] : Out (List Instance))
      pure (resources.foldl (fun st r => st.addCached r now) s, none, reps)
    else match sendReply (buildReply p s now) with
      | .ok r => .ok (s, r, [])
      | .err => .err
      | .panic => .panic

/-- the same with the unguarded slice in `without` -/
def handleDiscoveryU (channel : Bool) (s : Store) (service full : Name) (d : Bytes) (now : Nat) :
    Out (Store × Option Bytes × List Instance) :=
  match Packet.parse d with
  | .panic => .panic
  | .err => .ok (s, none, [])
  | .ok p =>
    if p.header.hasFlags 0x8000 then do
      let resources := ingestRecords p service full
      let reps ← (if channel then reportsU service resources else pure [] : Out (List Instance))
      pure (resources.foldl (fun st r => st.addCached r now) s, none, reps)
    else match sendReply (buildReply p s now) with
      | .ok r => .ok (s, r, [])
      | .err => .err
      | .panic => .panic

/-- forget the reports: what is left in the store and what is sent -/
def dropReports (x : Out (Store × Option Bytes × List Instance)) : Out (Store × Option Bytes) :=
  x >>= fun r => pure (r.1, r.2.1)

/-- the reports put on the channel by a datagram: those of the total model with the names
`to_string()` returns, for a response when a channel is present; none otherwise -/
def channelReports (channel : Bool) (service full : Name) (d : Bytes) : List Instance :=
  match Packet.parse d with
  | .ok p =>
    if p.header.hasFlags 0x8000 && channel then reportsL service (ingestRecords p service full)
    else []
  | _ => []

/-- the handling with the channel, in closed form: the outcome of `handleDiscovery` (the object of
`Props/C14.lean`) paired with the reports -/
theorem handleDiscoveryC_eq (channel : Bool) (s : Store) (service full : Name) (d : Bytes)
    (now : Nat) :
    handleDiscoveryC channel s service full d now =
      (handleDiscovery s service full d now >>= fun r =>
        pure (r.1, r.2, channelReports channel service full d)) := by
  unfold handleDiscoveryC handleDiscovery channelReports
  cases Packet.parse d with
  | panic => rfl
  | err => rfl
  | ok p =>
    simp only
    cases hf : p.header.hasFlags 0x8000 with
    | true =>
      cases channel
      · simp [ingest, ingestRecords]
      · simp [reportsC_eq_lossy, ingest, ingestRecords]
    | false =>
      simp only [Bool.false_eq_true, if_false, Bool.false_and]
      cases sendReply (buildReply p s now) <;> rfl

/-- **`handleDiscoveryC_ne_panic`: no datagram makes the listener panic, with or without an
`on_discovery` channel, whatever the store holds**; in particular the store's write lock is never
poisoned by the per-owner `from_records` that is computed while it is held. -/
theorem handleDiscoveryC_ne_panic (channel : Bool) (s : Store) (service full : Name) (d : Bytes)
    (now : Nat) : handleDiscoveryC channel s service full d now ≠ .panic := by
  rw [handleDiscoveryC_eq]
  obtain ⟨r, hr⟩ := (pipeline_total s d now service full).2.1
  rw [hr]; simp

/-- every datagram is ingested, answered or dropped; the handler has no error outcome either -/
theorem handleDiscoveryC_total (channel : Bool) (s : Store) (service full : Name) (d : Bytes)
    (now : Nat) : ∃ r, handleDiscoveryC channel s service full d now = .ok r := by
  rw [handleDiscoveryC_eq]
  obtain ⟨r, hr⟩ := (pipeline_total s d now service full).2.1
  rw [hr]; exact ⟨_, rfl⟩

/-- **`handleDiscoveryC_store_eq`: the channel does not change what is cached nor what is sent**:
with the reports dropped, the handling with a channel (or without) is `handleDiscovery`, outcome
for outcome. All theorems of `Props/C14.lean` about the store after a datagram (`store_usable`,
`store_usable_ok`, `store_usable_reachable`) and about the reply (`reply_parseable_discovery`)
apply to the listener with a channel. -/
theorem handleDiscoveryC_store_eq (channel : Bool) (s : Store) (service full : Name) (d : Bytes)
    (now : Nat) :
    dropReports (handleDiscoveryC channel s service full d now) =
      handleDiscovery s service full d now := by
  rw [handleDiscoveryC_eq, dropReports]
  cases handleDiscovery s service full d now <;> rfl

/-- the same on results: store and reply of an `.ok` outcome are those of `handleDiscovery` -/
theorem handleDiscoveryC_ok_iff {channel : Bool} {s s' : Store} {service full : Name} {d : Bytes}
    {now : Nat} {reply : Option Bytes} {reps : List Instance} :
    handleDiscoveryC channel s service full d now = .ok (s', reply, reps) ↔
      handleDiscovery s service full d now = .ok (s', reply) ∧
        reps = channelReports channel service full d := by
  rw [handleDiscoveryC_eq]
  cases handleDiscovery s service full d now with
  | ok r => obtain ⟨a, b⟩ := r; simp [eq_comm, and_assoc]
  | err => simp
  | panic => simp

/-- the store invariants survive every datagram, channel or not -/
theorem store_usable_channel {channel : Bool} {s s' : Store} {service full : Name} {d : Bytes}
    {now : Nat} {reply : Option Bytes} {reps : List Instance}
    (h : handleDiscoveryC channel s service full d now = .ok (s', reply, reps)) :
    (Inv s → Inv s') ∧ (StoreOK s → StoreOK s') ∧ (Reachable s → Reachable s') :=
  have h' := (handleDiscoveryC_ok_iff.mp h).1
  ⟨fun hI => store_usable hI h', fun hS => store_usable_ok hS h',
   fun hR => store_usable_reachable hR h'⟩

/-- without a channel nothing is reported; a query reports nothing -/
theorem channelReports_none (service full : Name) (d : Bytes) :
    channelReports false service full d = [] := by
  unfold channelReports
  split
  · simp
  · rfl

/-- what goes on the channel for a response, when its owner names are valid UTF-8, is exactly
`Mdns.reports` -/
theorem channelReports_eq_reports {service full : Name} {d : Bytes} {p : Packet}
    (hp : Packet.parse d = .ok p) (hf : p.header.hasFlags 0x8000 = true)
    (h : ∀ r ∈ ingestRecords p service full, ∀ l ∈ r.name, (stringOfBytes? l).isSome = true) :
    channelReports true service full d = reports p service full := by
  have := reportsC_eq h
  rw [reportsC_eq_lossy] at this
  simp [channelReports, hp, hf, Out.ok.inj this]

/-- the listener's filter makes the unguarded slice safe as well: the handler with the unguarded
`without` IS the handler, on every datagram (the counterexample `fromRecordsU_panics` cannot be
reached through `add_response_to_resources`) -/
theorem handleDiscoveryU_eq (channel : Bool) (s : Store) (service full : Name) (d : Bytes)
    (now : Nat) :
    handleDiscoveryU channel s service full d now = handleDiscoveryC channel s service full d now := by
  unfold handleDiscoveryU handleDiscoveryC
  cases Packet.parse d with
  | panic => rfl
  | err => rfl
  | ok p =>
    simp only [reportsU_eq_of_filter
      (fun r (hr : r ∈ ingestRecords p service full) => ingestRecords_subdomain hr)]

/-! ### 6. the receive loop of the listener -/

/-- **One iteration of the listener's receive loop**: `handleDiscoveryC`, then, for a query with a
reply, `send_to` under the policy `pol` for a refused send. The result is the store, the reports
for the channel and what the loop does next. -/
def discoveryIteration (pol : OnSendError) (channel : Bool) (s : Store) (service full : Name)
    (d : Bytes) (now : Nat) (envOk : Bool) : Out (Store × List Instance × LoopStep) :=
  match handleDiscoveryC channel s service full d now with
  | .panic => .panic
  | .err => .err
  | .ok (s', none, reps) => .ok (s', reps, .continues none)
  | .ok (s', some b, reps) =>
    if sendTo b envOk then .ok (s', reps, .continues (some b))
    else match pol with
      | .log => .ok (s', reps, .continues none)
      | .propagate => .ok (s', reps, .ends)

/-- the policy of the code: sync `send_packet` (`if let Err(err) = socket.send_to(..) {
log::error!(..) }`), tokio `if let Err(err) = self.process_packet(..).await { log::error!(..) }` -/
def discoverySendPolicy : OnSendError := .log

/-- **The policy is read from the source of both listeners** (`Props/TieEnv.lean`,
`discovery_send_policy`, over `Generated/Envelope.lean`): a source that propagates the error of the
send out of the loop regenerates `"propagate"` and this no longer checks. -/
theorem discoverySendPolicy_tied :
    TieEnv.policyOf (Gen.Env.discoverySendSync.getD "log") = discoverySendPolicy ∧
    TieEnv.policyOf (Gen.Env.discoverySendTokio.getD "log") = discoverySendPolicy :=
  TieEnv.discovery_send_policy

/-- **With the policy of the code no datagram, no store, no clock value, no behaviour of the network
and no channel ends or panics the listener's receive loop.** -/
theorem discovery_loop_survives (channel : Bool) (s : Store) (service full : Name) (d : Bytes)
    (now : Nat) (envOk : Bool) :
    ∃ s' reps sent, discoveryIteration discoverySendPolicy channel s service full d now envOk =
      .ok (s', reps, .continues sent) := by
  obtain ⟨⟨s', reply, reps⟩, hr⟩ := handleDiscoveryC_total channel s service full d now
  unfold discoveryIteration discoverySendPolicy
  rw [hr]
  cases reply with
  | none => exact ⟨s', reps, none, rfl⟩
  | some b =>
    by_cases h : sendTo b envOk = true
    · exact ⟨s', reps, some b, by simp [h]⟩
    · exact ⟨s', reps, none, by simp [h]⟩

/-- the store the iteration leaves is the one of `handleDiscovery`: the invariants survive the loop
step whatever the policy and the network -/
theorem discoveryIteration_store {pol : OnSendError} {channel : Bool} {s s' : Store}
    {service full : Name} {d : Bytes} {now : Nat} {envOk : Bool} {reps : List Instance}
    {step : LoopStep}
    (h : discoveryIteration pol channel s service full d now envOk = .ok (s', reps, step)) :
    ∃ reply, handleDiscovery s service full d now = .ok (s', reply) ∧
      reps = channelReports channel service full d := by
  unfold discoveryIteration at h
  split at h
  · cases h
  · cases h
  · rename_i s1 reps1 hr
    cases h
    exact ⟨none, handleDiscoveryC_ok_iff.mp hr⟩
  · rename_i s1 b reps1 hr
    have := handleDiscoveryC_ok_iff.mp hr
    split at h
    · cases h; exact ⟨some b, this⟩
    · cases pol <;> (cases h; exact ⟨some b, this⟩)

/-- what is sent, when something is sent, is the reply of `handleDiscovery` to a query, within the
size a datagram can carry, and the store is untouched -/
theorem discovery_sends_reply {pol : OnSendError} {channel : Bool} {s s' : Store}
    {service full : Name} {d : Bytes} {now : Nat} {envOk : Bool} {reps : List Instance} {b : Bytes}
    (h : discoveryIteration pol channel s service full d now envOk =
      .ok (s', reps, .continues (some b))) :
    handleDiscovery s service full d now = .ok (s, some b) ∧ s' = s ∧ b.length ≤ udpMaxPayload := by
  unfold discoveryIteration at h
  split at h
  · cases h
  · cases h
  · cases h
  · rename_i s1 b' reps1 hr
    have hd := (handleDiscoveryC_ok_iff.mp hr).1
    have hs := query_keeps_store hd
    subst hs
    split at h
    · rename_i hsend
      cases h
      refine ⟨hd, rfl, ?_⟩
      unfold sendTo at hsend
      simp at hsend
      exact hsend.2
    · cases pol <;> simp at h

/-- a reply the network accepts is sent, whatever the policy -/
theorem discovery_loop_sends {pol : OnSendError} {channel : Bool} {s s' : Store}
    {service full : Name} {d : Bytes} {now : Nat} {envOk : Bool} {b : Bytes}
    (hb : handleDiscovery s service full d now = .ok (s', some b)) (hs : sendTo b envOk = true) :
    discoveryIteration pol channel s service full d now envOk =
      .ok (s', channelReports channel service full d, .continues (some b)) := by
  unfold discoveryIteration
  rw [handleDiscoveryC_ok_iff.mpr ⟨hb, rfl⟩]
  simp [hs]

/-- **With `?` on the send every reply that cannot be sent ends the loop.** -/
theorem discovery_loop_propagate_ends {channel : Bool} {s s' : Store} {service full : Name}
    {d : Bytes} {now : Nat} {envOk : Bool} {b : Bytes}
    (hb : handleDiscovery s service full d now = .ok (s', some b)) (hs : sendTo b envOk = false) :
    discoveryIteration .propagate channel s service full d now envOk =
      .ok (s', channelReports channel service full d, .ends) := by
  unfold discoveryIteration
  rw [handleDiscoveryC_ok_iff.mpr ⟨hb, rfl⟩]
  simp [hs]

/-- ... and with the policy of the code the same datagram is dropped and the loop goes on -/
theorem discovery_loop_log_continues {channel : Bool} {s s' : Store} {service full : Name}
    {d : Bytes} {now : Nat} {envOk : Bool} {b : Bytes}
    (hb : handleDiscovery s service full d now = .ok (s', some b)) (hs : sendTo b envOk = false) :
    discoveryIteration discoverySendPolicy channel s service full d now envOk =
      .ok (s', channelReports channel service full d, .continues none) := by
  unfold discoveryIteration discoverySendPolicy
  rw [handleDiscoveryC_ok_iff.mpr ⟨hb, rfl⟩]
  simp [hs]

/-- a query the responder answers is answered by a listener holding the same store, with the same
bytes: the two loops share `build_reply` and the serialiser -/
theorem handleDiscovery_of_responder {s : Store} {d : Bytes} {now : Nat} {b : Bytes}
    (service full : Name) (h : handleResponder s d now = .ok (some b)) :
    handleDiscovery s service full d now = .ok (s, some b) := by
  unfold handleResponder at h
  split at h
  · cases h
  · cases h
  · cases h
  · rename_i hpeek
    split at h
    · cases h
    · cases h
    · rename_i q hq
      rw [peek_hasFlags_of_parse hq] at hpeek
      have hf : q.header.hasFlags 0x8000 = false := by simpa using hpeek
      unfold handleDiscovery
      rw [hq]
      simp [hf, h]

/-- **The failed-send branch of the listener's loop is reachable from one small datagram**, as for
the responder (`C14FitsEx.failed_send_reachable`): a listener whose store holds one registered
record with 250 bytes of data receives a query of 250 questions for its name (1519 bytes); the
reply exceeds the 65 507 bytes of a UDP payload, so `send_to` fails on a working network. With `?`
on the send the loop ends; with the policy of the code it goes on, sending nothing. The store is
untouched and nothing is reported either way. -/
theorem discovery_failed_send_reachable (channel : Bool) (service full : Name) (data : Bytes)
    (hdata : data.length = 250) (now : Nat) :
    ∃ d, d.length = 1519 ∧
      (∃ b, handleDiscovery (C14FitsEx.bigStore data) service full d now =
          .ok (C14FitsEx.bigStore data, some b) ∧ udpMaxPayload < b.length) ∧
      discoveryIteration .propagate channel (C14FitsEx.bigStore data) service full d now true =
        .ok (C14FitsEx.bigStore data, [], .ends) ∧
      discoveryIteration discoverySendPolicy channel (C14FitsEx.bigStore data) service full d now
        true = .ok (C14FitsEx.bigStore data, [], .continues none) := by
  obtain ⟨d, hlen, _, ⟨b, hresp, hbig, hsend⟩, _, _⟩ :=
    C14FitsEx.failed_send_reachable data hdata now
  have hd := handleDiscovery_of_responder service full hresp
  have hrep : channelReports channel service full d = [] := by
    obtain ⟨q, _, _, hq, _, _⟩ := handleResponder_some hresp
    have hf : q.header.hasFlags 0x8000 = false := by
      unfold handleDiscovery at hd
      rw [hq] at hd
      by_cases hf : q.header.hasFlags 0x8000 = true
      · simp [hf] at hd
      · simpa using hf
    simp [channelReports, hq, hf]
  refine ⟨d, hlen, ⟨b, hd, hbig⟩, ?_, ?_⟩
  · rw [discovery_loop_propagate_ends hd hsend, hrep]
  · rw [discovery_loop_log_continues hd hsend, hrep]

/-! ### 7. concrete datagrams -/

namespace C14ChanEx
open C15Ex

/-- the listener of `Props/C15.lean`: `me._http._tcp.local` watching `_http._tcp.local` -/
def st : Store := discoveryInit service own []

/-- the announcement of an instance whose label is the single byte FF (not UTF-8): A, SRV, TXT -/
def badRs : List RR := instRecords ([0xFF] :: service) ips ports [[97, 61, 49], [98], [99, 61]] 120

/-- it on the wire -/
def badWire : Bytes :=
  [0, 0, 128, 0, 0, 0, 0, 3, 0, 0, 0, 0, 1, 255, 5, 95, 104, 116, 116, 112, 4, 95, 116, 99, 112,
   5, 108, 111, 99, 97, 108, 0, 0, 1, 0, 1, 0, 0, 0, 120, 0, 4, 192, 168, 0, 1,
   192, 12, 0, 33, 0, 1, 0, 0, 0, 120, 0, 26, 0, 0, 0, 0, 31, 144,
   1, 255, 5, 95, 104, 116, 116, 112, 4, 95, 116, 99, 112, 5, 108, 111, 99, 97, 108, 0,
   192, 12, 0, 16, 0, 1, 0, 0, 0, 120, 0, 9, 3, 97, 61, 49, 1, 98, 2, 99, 61]

/-- the datagram is that announcement: `Packet::parse` returns it -/
theorem badWire_parses : Packet.parse badWire = .ok (announce badRs) := by
  obtain ⟨b, hb, hp⟩ := compressed_transparent (announce badRs) (by decide)
  have : (announce badRs).buildCompressed = .ok badWire := by decide +kernel
  rw [this] at hb; cases hb; exact hp

/-- the text `to_string()` returns for the label FF: one U+FFFD (EF BF BD) -/
theorem lossy_ff : lossyName [[0xFF]] = [[0xEF, 0xBF, 0xBD]] := by
  simp only [lossyName, List.map, bytesOfString_eq_flatMap]; decide

/-- all three records are kept; their one owner is the hostile name -/
theorem bad_kept : ingestRecords (announce badRs) service own = badRs ∧
    owners badRs = [[0xFF] :: service] := by decide

/-- **A response with a non-UTF-8 instance label, and a channel**: the three records are cached,
nothing is sent, and ONE report goes on the channel, named U+FFFD, with the announced address, port
and attributes. No panic: the write lock survives (the pinned tree panicked here, in `to_string`). -/
theorem bad_label_with_channel :
    ∃ reps, handleDiscoveryC true st service own badWire 1000 =
        .ok (ingest (announce badRs) service own st 1000, none, reps) ∧
      reps.map (·.name) = [[0xEF, 0xBF, 0xBD]] ∧ reps.map Instance.body = [(ips, ports, attrs)] := by
  refine ⟨_, handleDiscoveryC_ok_iff.mpr ⟨handleDiscovery_response badWire_parses (by decide), rfl⟩,
    ?_, ?_⟩
  · have hf : (announce badRs).header.hasFlags 0x8000 = true := by decide
    have hw : Name.without ([0xFF] :: service) service = some [[0xFF]] := by decide
    have hfl : badRs.filter (fun r => r.name == [0xFF] :: service) = badRs := by decide
    have hfs : badRs.findSome? (fun r => r.name.without service) = some [[0xFF]] := by decide
    simp only [channelReports, badWire_parses, hf, Bool.and_self, if_true, reportsL, bad_kept.1,
      bad_kept.2, List.filterMap_cons, List.filterMap_nil, hfl, fromRecordsL, hfs, Option.map_some,
      lossy_ff, List.map_cons, List.map_nil]
    rfl
  · obtain ⟨reps, h1, h2⟩ := reportsC_agrees (announce badRs) service own
    have hf : (announce badRs).header.hasFlags 0x8000 = true := by decide
    have : channelReports true service own badWire = reps := by
      rw [reportsC_eq_lossy] at h1
      simp [channelReports, badWire_parses, hf, Out.ok.inj h1]
    rw [this, h2]
    rfl

/-- the same through the loop: the iteration continues, with that report -/
example : ∃ s' reps, discoveryIteration discoverySendPolicy true st service own badWire 1000 true =
    .ok (s', reps, .continues none) ∧ reps.length = 1 := by
  obtain ⟨reps, h, hn, _⟩ := bad_label_with_channel
  refine ⟨ingest (announce badRs) service own st 1000, reps, ?_,
    by simpa using congrArg List.length hn⟩
  unfold discoveryIteration
  rw [h]

/-- without a channel the same datagram is cached and nothing is computed for a channel -/
example : handleDiscoveryC false st service own badWire 1000 =
    .ok (ingest (announce badRs) service own st 1000, none, []) :=
  handleDiscoveryC_ok_iff.mpr ⟨handleDiscovery_response badWire_parses (by decide),
    (channelReports_none _ _ _).symm⟩

/-- the store invariants after the hostile announcement (hypothesis of `store_usable_channel`) -/
example : ∃ s' reps, handleDiscoveryC true st service own badWire 1000 = .ok (s', none, reps) ∧
    Inv s' := by
  obtain ⟨reps, h, _⟩ := bad_label_with_channel
  have hI : Inv st := by
    unfold st; rw [discoveryInit_eq_run]; exact Inv.empty.run _
  exact ⟨_, reps, h, (store_usable_channel h).1 hI⟩

/-- a receiver dropped before the first report: the sync loop builds the report, fails to send it,
forgets the channel; nothing panics -/
example : reportsClosingC 0 service (ingestRecords (announce badRs) service own) = .ok ([], true) := by
  have hl := reportsL_length (announce badRs) service own
  rw [bad_kept.1, bad_kept.2] at hl
  rw [reportsClosingC_eq, bad_kept.1, hl]
  rfl

/-- **`fromRecordsC … = .ok (fromRecords …)` is FALSE without the UTF-8 hypothesis**: on the
hostile announcement the panic-capable `from_records` (which runs `to_string()`) names the instance
U+FFFD, the total model `Mdns.fromRecords` keeps the raw byte. They agree on everything else
(`fromRecordsC_agrees`), and under the hypothesis of `fromRecordsC_eq`. -/
theorem fromRecordsC_ne_fromRecords :
    fromRecordsC service badRs ≠ .ok (fromRecords service badRs) ∧
    (fromRecords service badRs).map (·.name) = some [0xFF] ∧
    (∃ i, fromRecordsC service badRs = .ok (some i) ∧ i.name = [0xEF, 0xBF, 0xBD]) := by
  have hfs : badRs.findSome? (fun r => r.name.without service) = some [[0xFF]] := by decide
  have hL : fromRecordsL service badRs =
      some { badRs.foldl recStep emptyInst with name := [0xEF, 0xBF, 0xBD] } := by
    simp only [fromRecordsL, hfs, Option.map_some, lossy_ff]; rfl
  have hR : (fromRecords service badRs).map (·.name) = some [0xFF] := by rfl
  refine ⟨?_, hR, _, by rw [fromRecordsC_eq_lossy, hL], rfl⟩
  rw [fromRecordsC_eq_lossy, hL]
  intro h
  have := congrArg (Option.map (·.name)) (Out.ok.inj h)
  rw [hR] at this
  simp at this

/-- the hypothesis of `fromRecordsC_eq` / `reportsC_eq` holds for the printer of `Props/C15.lean`:
the panic-capable `from_records` returns the instance of the total model, name included -/
example : fromRecordsC service rs = .ok (some ⟨printer, ips, ports, attrs⟩) := by
  rw [fromRecordsC_eq_of_utf8_names (by decide)]; rfl

/-- ... and what goes on the channel for its announcement is `Mdns.reports` -/
example : handleDiscoveryC true st service own wire 1000 =
    .ok (ingest (announce rs) service own st 1000, none, reports (announce rs) service own) :=
  handleDiscoveryC_ok_iff.mpr ⟨handleDiscovery_response wire_parses (by decide),
    (channelReports_eq_reports wire_parses (by decide) (by decide)).symm⟩

/-- records of `printer.other.local`: not under the watched service -/
def otherRs : List RR :=
  instRecords (printer :: [[111, 116, 104, 101, 114], [108, 111, 99, 97, 108]]) ips ports
    [[97, 61, 49]] 120

/-- their announcement on the wire -/
def otherWire : Bytes :=
  [0, 0, 128, 0, 0, 0, 0, 3, 0, 0, 0, 0, 7, 112, 114, 105, 110, 116, 101, 114, 5, 111, 116, 104, 101,
   114, 5, 108, 111, 99, 97, 108, 0, 0, 1, 0, 1, 0, 0, 0, 120, 0, 4, 192, 168, 0, 1,
   192, 12, 0, 33, 0, 1, 0, 0, 0, 120, 0, 27, 0, 0, 0, 0, 31, 144,
   7, 112, 114, 105, 110, 116, 101, 114, 5, 111, 116, 104, 101, 114, 5, 108, 111, 99, 97, 108, 0,
   192, 12, 0, 16, 0, 1, 0, 0, 0, 120, 0, 4, 3, 97, 61, 49]

/-- the datagram parses to that announcement -/
theorem otherWire_parses : Packet.parse otherWire = .ok (announce otherRs) := by
  obtain ⟨b, hb, hp⟩ := compressed_transparent (announce otherRs) (by decide)
  have : (announce otherRs).buildCompressed = .ok otherWire := by decide +kernel
  rw [this] at hb; cases hb; exact hp

/-- **A response whose records are not under the service name**: nothing is kept, so nothing is
cached and nothing reported (the sync listener returns before the owners loop, the tokio one runs it
over no owners); `without` is not called at all. -/
theorem foreign_response (channel : Bool) :
    handleDiscoveryC channel st service own otherWire 1000 = .ok (st, none, []) := by
  have hk : ingestRecords (announce otherRs) service own = [] := by decide
  have hf : (announce otherRs).header.hasFlags 0x8000 = true := by decide
  refine handleDiscoveryC_ok_iff.mpr ⟨?_, ?_⟩
  · rw [handleDiscovery_response otherWire_parses hf, ingest_eq_foldl_ingestRecords, hk]; rfl
  · cases channel <;> simp [channelReports, otherWire_parses, hf, hk, reportsL, owners]

/-- ... although handing those records to the UNGUARDED `from_records` directly, under a longer
service name, panics: the hypothesis of `fromRecordsU_panics` is satisfiable -/
example : fromRecordsU (printer :: [97] :: service) otherRs = .panic :=
  fromRecordsU_panics _ (by decide)

/-- while the guarded one answers `None` there -/
example : fromRecordsC (printer :: [97] :: service) otherRs = .ok none := by
  rw [fromRecordsC_eq_lossy]; rfl

/-- the hypothesis of `fromRecordsU_eq_of_filter` holds for what the listener keeps of the hostile
announcement -/
example : fromRecordsU service badRs = fromRecordsC service badRs :=
  fromRecordsU_eq_of_filter (by decide)

/-- **An empty datagram** (and any datagram the parser rejects) is dropped: store unchanged, nothing
sent, nothing reported, loop goes on; whatever the store, channel or no channel. -/
theorem empty_datagram (channel : Bool) (s : Store) (service full : Name) (now : Nat)
    (envOk : Bool) (pol : OnSendError) :
    handleDiscoveryC channel s service full [] now = .ok (s, none, []) ∧
    discoveryIteration pol channel s service full [] now envOk = .ok (s, [], .continues none) := by
  have hp : Packet.parse [] = .err := by decide
  have h : handleDiscoveryC channel s service full [] now = .ok (s, none, []) := by
    unfold handleDiscoveryC; rw [hp]
  refine ⟨h, ?_⟩
  unfold discoveryIteration
  rw [h]

/-- **A query for the listener's own records** (`_http._tcp.local ANY IN` to the listener of
`printer._http._tcp.local`, `C14FitsEx.discovery_reply`): answered byte for byte, store untouched,
nothing reported. A refused send is logged by the code; with `?` it would end the loop. -/
theorem own_query (channel : Bool) :
    let s := discoveryInit service (printer :: service) rs
    handleDiscoveryC channel s service (printer :: service) C14FitsEx.dqbytes 5 =
      .ok (s, some C14FitsEx.drbytes, []) ∧
    discoveryIteration discoverySendPolicy channel s service (printer :: service)
      C14FitsEx.dqbytes 5 true = .ok (s, [], .continues (some C14FitsEx.drbytes)) ∧
    discoveryIteration discoverySendPolicy channel s service (printer :: service)
      C14FitsEx.dqbytes 5 false = .ok (s, [], .continues none) ∧
    discoveryIteration .propagate channel s service (printer :: service)
      C14FitsEx.dqbytes 5 false = .ok (s, [], .ends) := by
  intro s
  have hrep : channelReports channel service (printer :: service) C14FitsEx.dqbytes = [] := by
    have hf : C14FitsEx.dquery.header.hasFlags 0x8000 = false := by decide
    simp [channelReports, C14FitsEx.dqbytes_parse, hf]
  have h : handleDiscoveryC channel s service (printer :: service) C14FitsEx.dqbytes 5 =
      .ok (s, some C14FitsEx.drbytes, []) :=
    handleDiscoveryC_ok_iff.mpr ⟨C14FitsEx.discovery_reply, hrep.symm⟩
  refine ⟨h, ?_, ?_, ?_⟩
  · rw [discovery_loop_sends C14FitsEx.discovery_reply (by decide +kernel), hrep]
  · rw [discovery_loop_log_continues C14FitsEx.discovery_reply rfl, hrep]
  · rw [discovery_loop_propagate_ends C14FitsEx.discovery_reply rfl, hrep]

/-- the hypothesis of `discovery_sends_reply` is met by that run -/
example : C14FitsEx.drbytes.length ≤ udpMaxPayload :=
  (discovery_sends_reply (own_query true).2.1).2.2

/-- the hypothesis of `discovery_failed_send_reachable` is satisfiable: 250 zero bytes -/
example : ∃ d, d.length = 1519 ∧
    discoveryIteration .propagate true (C14FitsEx.bigStore (List.replicate 250 0)) service own d 0
      true = .ok (C14FitsEx.bigStore (List.replicate 250 0), [], .ends) :=
  let ⟨d, h1, _, h3, _⟩ :=
    discovery_failed_send_reachable true service own (List.replicate 250 0)
      (List.length_replicate ..) 0
  ⟨d, h1, h3⟩

end C14ChanEx

end Dns.Mdns
