/-
C12 / C16, additional theorems.

C12 ("inspecting parsed data never panics"): several observers of the Rust code contain
panic-capable operations (`usize` subtraction, range slicing, `Vec` indexing) which the models of
`Model/NameText.lean` and `Model/Txt.lean` express with total list functions, so that "never
panics" held by construction there. Here those operations are written out with the panicking
primitive (`usizeSub`, `sliceTo`, `vecIdx`) statement by statement after the Rust source
(`…C` variants) and proved never to reach it; each `…C` variant is proved equal to the existing
total model. `Packet.observeMore` extends the observer coverage of `Packet.observe`.

C16 ("owned copies equal originals; equality and hashing agree"):

* `Packet.intoOwned` of `Lemmas/Owned.lean` models a function the Rust code does not have:
  `Packet` and `Question` derive only `Debug` and `Clone` (there is `Question::into_owned` but no
  `Packet::into_owned`). What `Packet.intoOwned` computes is a deep field-by-field copy, which is
  what the derived `Clone for Packet` does; the packet-level theorems of `Props/C16.lean`
  (`packet_into_owned_eq`, `into_owned_build`, `into_owned_buildCompressed`, `into_owned_buildG`)
  are therefore statements about `packet.clone()`. `Packet.clone` below gives them that name.
  Neither type implements `PartialEq`, so "equal to the original" for a packet or a question means:
  field-wise equal model values, hence the same bytes from every serialiser.
* `name_eq_hash`, `val_eq_hash`, `rdata_eq_hash` of `Props/C16.lean` are congruence (`rw [h]`) and
  would hold of any function. Section 5 proves the converse, which is a property of the feed: the
  length-prefixed token sequence is prefix-free, so different names never feed the hasher
  identically, and `RR.hashFeed a = RR.hashFeed b ↔ rrEq a b` for records whose RDATA has the shape
  its type prescribes (`RData.HashCanon`, implied by `RData.WF`). Without that side condition the
  converse is false IN THE MODEL (counterexamples given): the model's untyped value lists can hold
  a name where the Rust struct has character-strings, and the model feeds `Empty(TYPE)` by its
  code; no Rust value corresponds to the first, and the second only makes the model's feed coarser
  than the derive, which is harmless for Eq ⇒ Hash.
* `instance_eq_hash` needs `SetsOK` for both instances; section 4 proves that every instance
  produced by `from_records` / `get_known_services` has it.
-/
import SimpleDnsModel.Props.C12
import SimpleDnsModel.Props.C16
import SimpleDnsModel.Lemmas.DiscoveryB
import SimpleDnsModel.Model.Svcb
import SimpleDnsModel.Model.WF
namespace Dns

/-! ## 0. panic-capable primitives on `usize` and on slices / vectors of any element type -/

/-- `a - b` on `usize`: underflow panics ("attempt to subtract with overflow"; in a release build
the wrapped result is far beyond any slice length and the slicing that follows panics instead) -/
def usizeSub (a b : Nat) : Out Nat := if b ≤ a then .ok (a - b) else .panic

/-- `v[..n]`: "range end index n out of range for slice of length len" -/
def sliceTo (v : List α) (n : Nat) : Out (List α) := if n ≤ v.length then .ok (v.take n) else .panic

/-- `v[i]` on a `Vec`: "index out of bounds" -/
def vecIdx (v : List α) (i : Nat) : Out α :=
  match v[i]? with
  | some a => .ok a
  | none => .panic

/-- `for x in xs { acc = f(acc, x)? }` -/
def Out.foldl (f : β → α → Out β) : β → List α → Out β
  | b, [] => .ok b
  | b, a :: as => do let b' ← f b a; Out.foldl f b' as

/-- a loop whose body always returns normally is the pure fold of what the body computes -/
theorem Out.foldl_ok {f : β → α → Out β} {g : β → α → β} (h : ∀ b a, f b a = .ok (g b a))
    (b : β) (l : List α) : Out.foldl f b l = .ok (l.foldl g b) := by
  induction l generalizing b with
  | nil => rfl
  | cons a as ih => simp [Out.foldl, h, ih]

/-! ## 1. C12-1: `Name::is_subdomain_of` and `Name::without` (`name.rs:83-112`) -/

/-- `other.iter().rev().zip(self.iter().rev()).all(|(o, s)| *o == *s)`: both iterators are advanced
together (`next_back` of a slice iterator returns `None` at the front, it does not index), the
first exhausted one ends the zip, the first unequal pair ends `all` with `false` -/
def zipAllEq : List Label → List Label → Bool
  | o :: os, s :: ss => if o == s then zipAllEq os ss else false
  | _, _ => true

/-- `Name::is_subdomain_of`, statement by statement: `&&` evaluates the zip only when the length
test succeeded. No indexing and no arithmetic occur: nothing in it can panic. -/
def Name.isSubdomainOfC (a b : Name) : Out Bool :=
  if a.length > b.length then .ok (zipAllEq b.reverse a.reverse) else .ok false

/-- `Name::without`, statement by statement:
`if self.is_subdomain_of(domain) { let labels = self.labels[..self.labels.len() -
domain.labels.len()].to_vec(); Some(Name { labels }) } else { None }` -/
def Name.withoutC (a b : Name) : Out (Option Name) := do
  let sub ← Name.isSubdomainOfC a b
  if sub then do
    let n ← usizeSub a.length b.length
    let labels ← sliceTo a n
    pure (some labels)
  else pure none

/-- the same body without the `is_subdomain_of` guard (to show the primitives have teeth) -/
def Name.withoutUnguarded (a b : Name) : Out (Option Name) := do
  let n ← usizeSub a.length b.length
  let labels ← sliceTo a n
  pure (some labels)

namespace C12C16L

/-- the short-circuiting zip loop computes `zip(..).all(..)` -/
theorem zipAllEq_eq (os ss : List Label) :
    zipAllEq os ss = (os.zip ss).all (fun p => p.1 == p.2) := by
  induction os generalizing ss with
  | nil => simp [zipAllEq]
  | cons o os ih =>
    cases ss with
    | nil => simp [zipAllEq]
    | cons s ss =>
      simp only [zipAllEq, List.zip_cons_cons, List.all_cons, ih]
      cases o == s <;> simp

/-- a list that agrees pairwise with a longer one is its prefix -/
theorem zip_all_eq_prefix {α : Type} [BEq α] [LawfulBEq α] (xs ys : List α)
    (hl : xs.length ≤ ys.length) (h : (xs.zip ys).all (fun p => p.1 == p.2) = true) :
    xs = ys.take xs.length := by
  induction xs generalizing ys with
  | nil => simp
  | cons x xs ih =>
    cases ys with
    | nil => simp at hl
    | cons y ys =>
      simp only [List.zip_cons_cons, List.all_cons, Bool.and_eq_true, beq_iff_eq] at h
      simp only [List.length_cons, List.take_succ_cons, List.cons.injEq]
      exact ⟨h.1, ih ys (by simpa using hl) h.2⟩

end C12C16L

/-- the statement-level `is_subdomain_of` returns normally, with the value of the existing model -/
theorem isSubdomainOfC_eq (a b : Name) : Name.isSubdomainOfC a b = .ok (a.isSubdomainOf b) := by
  unfold Name.isSubdomainOfC Name.isSubdomainOf
  split
  · simp_all [C12C16L.zipAllEq_eq]
  · rename_i h
    have : ¬ b.length < a.length := by omega
    simp [this]

/-- `Name::is_subdomain_of` never panics and never fails -/
theorem isSubdomainOfC_ne_panic (a b : Name) : Name.isSubdomainOfC a b ≠ .panic := by
  rw [isSubdomainOfC_eq]; simp

/-- what the guard gives: a strict subdomain is strictly longer -/
theorem isSubdomainOf_length {a b : Name} (h : a.isSubdomainOf b = true) : b.length < a.length := by
  simp [Name.isSubdomainOf] at h; exact h.1

/-- `Name::without`: the subtraction `self.labels.len() - domain.labels.len()` never underflows and
the slice `self.labels[..n]` is never out of range, for any two names whatsoever; the result is the
one of the existing total model -/
theorem withoutC_eq (a b : Name) : Name.withoutC a b = .ok (a.without b) := by
  unfold Name.withoutC Name.without
  rw [isSubdomainOfC_eq]
  simp only [Out.bind_ok]
  split
  · rename_i h
    have hl := isSubdomainOf_length h
    have h1 : usizeSub a.length b.length = .ok (a.length - b.length) := by
      simp [usizeSub]; omega
    have h2 : sliceTo a (a.length - b.length) = .ok (a.take (a.length - b.length)) := by
      simp [sliceTo]
    simp [h1, h2]
  · rfl

/-- `Name::without` never panics -/
theorem withoutC_ne_panic (a b : Name) : Name.withoutC a b ≠ .panic := by
  rw [withoutC_eq]; simp

/-- ... and never reports an error (it has no error path) -/
theorem withoutC_ne_err (a b : Name) : Name.withoutC a b ≠ .err := by
  rw [withoutC_eq]; simp

/-- the guard is what keeps the slice in range: without it a longer `domain` panics -/
theorem withoutUnguarded_panics {a b : Name} (h : a.length < b.length) :
    Name.withoutUnguarded a b = .panic := by
  have : ¬ b.length ≤ a.length := by omega
  simp [Name.withoutUnguarded, usizeSub, this]

/-- where the guard holds, the guarded and the unguarded bodies agree -/
theorem withoutUnguarded_agrees {a b : Name} (h : a.isSubdomainOf b = true) :
    Name.withoutUnguarded a b = Name.withoutC a b := by
  have hl := isSubdomainOf_length h
  have h1 : usizeSub a.length b.length = .ok (a.length - b.length) := by
    simp [usizeSub]; omega
  rw [withoutC_eq]
  simp [Name.withoutUnguarded, Name.without, h, h1, sliceTo]

/-- what `without` returns is a prefix of `self` which, put before `domain`, gives `self` back -/
theorem withoutC_append {a b sub : Name} (h : Name.withoutC a b = .ok (some sub)) :
    sub ++ b = a := by
  rw [withoutC_eq] at h
  simp only [Name.without, Out.ok.injEq] at h
  split at h
  · rename_i hs
    simp only [Option.some.injEq] at h
    subst h
    simp only [Name.isSubdomainOf, Bool.and_eq_true, decide_eq_true_eq] at hs
    obtain ⟨hl, hz⟩ := hs
    have hdrop : a.drop (a.length - b.length) = b := by
      have hpre : b.reverse = a.reverse.take b.length := by
        have := C12C16L.zip_all_eq_prefix b.reverse a.reverse (by simp; omega) hz
        simpa using this
      have := congrArg List.reverse hpre
      rw [List.reverse_reverse, List.reverse_take, List.reverse_reverse, List.length_reverse]
        at this
      exact this.symm
    conv => lhs; rhs; rw [← hdrop]
    exact List.take_append_drop _ _
  · cases h

example : Name.withoutC [[115], [100], [108]] [[100], [108]] = .ok (some [[115]]) := by decide
example : Name.withoutC [[100], [108]] [[115], [100], [108]] = .ok none := by decide
example : Name.withoutUnguarded [[100], [108]] [[115], [100], [108]] = .panic := by decide
example : Name.isSubdomainOf [[115], [100], [108]] [[100], [108]] = true := by decide

/-! ## 2. C12-2: `TXT::long_attributes` and `TXT::attributes` (`rdata/txt.rs:67-125`) -/

/-- `splitn(n, sep)` of `str` and of slices, as the vector of the pieces the iterator yields
(`core::str::SplitN` / `core::slice::SplitN`): nothing for `n = 0`; the whole remainder, even an
empty one, as the last allowed piece; otherwise cut at the first separator, and where there is no
separator the remainder is the final piece. `isSep` is the separator test. -/
def splitnBy (isSep : α → Bool) : Nat → List α → List (List α)
  | 0, _ => []
  | 1, s => [s]
  | n + 2, s =>
    match s.dropWhile (fun c => !isSep c) with
    | [] => [s]
    | _ :: rest => s.takeWhile (fun c => !isSep c) :: splitnBy isSep (n + 1) rest

/-- the body of the `for part in parts` loop of `TXT::long_attributes`, statement by statement:
`let key_value = part.splitn(2, '=').collect::<Vec<&str>>(); let key = key_value[0];
let value = match key_value.len() > 1 { true => Some(key_value[1].to_owned()), _ => None };
if !key.is_empty() { attributes.entry(key.to_owned()).or_insert(value); }` -/
def longAttrStepC (m : Attrs) (part : List Char) : Out Attrs := do
  let keyValue := splitnBy (· == '=') 2 part
  let key ← vecIdx keyValue 0
  let value ← (if keyValue.length > 1 then do
      let v ← vecIdx keyValue 1
      pure (some (String.ofList v))
    else pure none : Out (Option String))
  if !(String.ofList key).isEmpty then pure (m.insertIfAbsent (String.ofList key) value)
  else pure m

/-- `TXT::long_attributes` with the two `Vec` indexings as panic-capable operations -/
def Txt.longAttributesC (ss : List Bytes) : Out Attrs := do
  let full ← Txt.toStr ss
  Out.foldl longAttrStepC [] (splitChars ';' full.toList)

/-- the same loop body with `key_value[1]` not guarded by the length test -/
def longAttrStepUnguarded (m : Attrs) (part : List Char) : Out Attrs := do
  let keyValue := splitnBy (· == '=') 2 part
  let key ← vecIdx keyValue 0
  let v ← vecIdx keyValue 1
  if !(String.ofList key).isEmpty then
    pure (m.insertIfAbsent (String.ofList key) (some (String.ofList v)))
  else pure m

/-- one character-string of `TXT::attributes`, statement by statement: the two `splited.next()`
are matched as `Option`s (nothing is indexed), `None => continue` for the key included -/
def attrOfCharStrC (cs : Bytes) : Option (String × Option String) :=
  let splited := splitnBy (· == 61) 2 cs
  match splited[0]? with
  | none => none                                     -- `None => continue`
  | some keyB =>
    match stringOfBytes? keyB with
    | none => none                                   -- `Err(_) => continue`
    | some key =>
      let value : Option String :=
        match splited[1]? with
        | some valB =>
          if !valB.isEmpty then
            (match stringOfBytes? valB with
             | some v => some v
             | none => some "")
          else some ""
        | none => none
      some (key, value)

/-- `TXT::attributes` over the statement-level loop body -/
def Txt.attributesC (ss : List Bytes) : Attrs :=
  ss.foldl (fun m cs => match attrOfCharStrC cs with
    | some (k, v) => m.insertIfAbsent k v
    | none => m) []

/-- `dropWhile` leaves nothing when every element satisfies the test -/
theorem C12C16L.dropWhile_eq_nil {p : α → Bool} {l : List α} (h : ∀ x ∈ l, p x = true) :
    l.dropWhile p = [] := by
  induction l with
  | nil => rfl
  | cons x xs ih =>
    simp only [List.dropWhile_cons, h x (List.mem_cons_self ..), if_true]
    exact ih fun y hy => h y (List.mem_cons_of_mem _ hy)

/-- `splitn(2, _)` yields one piece when there is no separator and two when there is one: the
vector collected from it is never empty and never longer than two -/
theorem splitnBy_two (isSep : α → Bool) (s : List α) :
    splitnBy isSep 2 s =
      match s.dropWhile (fun c => !isSep c) with
      | [] => [s]
      | _ :: rest => [s.takeWhile (fun c => !isSep c), rest] := by
  simp only [splitnBy]

/-- `key_value.len()` is 1 or 2 -/
theorem splitnBy_two_length (isSep : α → Bool) (s : List α) :
    1 ≤ (splitnBy isSep 2 s).length ∧ (splitnBy isSep 2 s).length ≤ 2 := by
  rw [splitnBy_two]; split <;> simp

/-- `key_value[0]` is always in bounds -/
theorem splitnBy_two_idx0 (isSep : α → Bool) (s : List α) :
    vecIdx (splitnBy isSep 2 s) 0 ≠ .panic := by
  rw [splitnBy_two]; split <;> simp [vecIdx]

/-- one loop iteration of `long_attributes` never panics and does what the existing model says -/
theorem longAttrStepC_eq (m : Attrs) (part : List Char) :
    longAttrStepC m part =
      .ok (let kv := attrOfPart part
           if kv.1.isEmpty then m else m.insertIfAbsent kv.1 kv.2) := by
  unfold longAttrStepC attrOfPart
  rw [splitnBy_two]
  have hfun : (fun c : Char => !(c == '=')) = (fun c => c != '=') := rfl
  rw [hfun]
  split
  · rename_i h
    simp only [h, vecIdx, List.getElem?_cons_zero, Out.bind_ok, List.length_cons, List.length_nil]
    have hk : List.takeWhile (fun c => c != '=') part = part := by
      have := List.takeWhile_append_dropWhile (p := fun c => c != '=') (l := part)
      rw [h, List.append_nil] at this; exact this
    rw [hk]
    cases (String.ofList part).isEmpty <;> simp
  · rename_i x rest h
    simp only [h, vecIdx, List.getElem?_cons_zero, Out.bind_ok, List.length_cons, List.length_nil]
    simp only [show (0 + 1 + 1 > 1) = True by simp, if_true, List.getElem?_cons_succ,
      List.getElem?_cons_zero, Out.bind_ok, Out.pure_eq]
    cases (String.ofList (List.takeWhile (fun c => c != '=') part)).isEmpty <;> simp

/-- `TXT::long_attributes`: `key_value[0]` and `key_value[1]` are never out of bounds, whatever the
TXT record holds; the result (a map or `InvalidUtf8String`) is the one of the existing model -/
theorem longAttributesC_eq (ss : List Bytes) : Txt.longAttributesC ss = Txt.longAttributes ss := by
  unfold Txt.longAttributesC Txt.longAttributes
  cases Txt.toStr ss with
  | ok full =>
    simp only [Out.bind_ok, Out.pure_eq]
    exact Out.foldl_ok longAttrStepC_eq [] _
  | err => rfl
  | panic => rfl

/-- `TXT::long_attributes` never panics -/
theorem longAttributesC_ne_panic (ss : List Bytes) : Txt.longAttributesC ss ≠ .panic := by
  rw [longAttributesC_eq]; exact long_attrs_ne_panic ss

/-- ... and fails exactly when the joined strings are not UTF-8 -/
theorem longAttributesC_err_iff (ss : List Bytes) :
    Txt.longAttributesC ss = .err ↔ stringOfBytes? ss.flatten = none := by
  rw [longAttributesC_eq]; exact long_attrs_err_iff_utf8 ss

/-- the length test is what keeps `key_value[1]` in bounds: a part without `'='` panics without
it -/
theorem longAttrStepUnguarded_panics (m : Attrs) {part : List Char} (h : '=' ∉ part) :
    longAttrStepUnguarded m part = .panic := by
  have hd : part.dropWhile (fun c => !(c == '=')) = [] := by
    apply C12C16L.dropWhile_eq_nil
    intro c hc
    have : c ≠ '=' := fun e => h (e ▸ hc)
    simp [this]
  simp [longAttrStepUnguarded, splitnBy_two, hd, vecIdx]

example : '=' ∉ "flag".toList := by decide
example : longAttrStepUnguarded [] "flag".toList = .panic := by decide
example : longAttrStepC [] "flag".toList = .ok [("flag", none)] := by decide
example : longAttrStepC [] "k=v=w".toList = .ok [("k", some "v=w")] := by decide
example : longAttrStepC [] "".toList = .ok [] := by decide
example : splitnBy (· == '=') 2 "".toList = [[]] := by decide
example : splitnBy (· == '=') 3 "a=b=c=d".toList = [['a'], ['b'], "c=d".toList] := by decide

/-- one character-string of `TXT::attributes`: the statement-level body is the existing model; its
`None => continue` branch for the key is dead code (the first `next()` of `splitn(2, _)` always
yields a piece) -/
theorem attrOfCharStrC_eq (cs : Bytes) : attrOfCharStrC cs = attrOfCharStr cs := by
  unfold attrOfCharStrC attrOfCharStr
  rw [splitnBy_two]
  have hfun : (fun c : UInt8 => !(c == 61)) = (fun c => c != 61) := rfl
  rw [hfun]
  split
  · rename_i h
    have hk : List.takeWhile (fun c => c != 61) cs = cs := by
      have := List.takeWhile_append_dropWhile (p := fun c => c != 61) (l := cs)
      rw [h, List.append_nil] at this; exact this
    simp only [h, hk, List.getElem?_cons_zero]
    cases stringOfBytes? cs <;> simp
  · rename_i x rest h
    simp only [h, List.getElem?_cons_zero, List.getElem?_cons_succ]
    cases stringOfBytes? (List.takeWhile (fun c => c != 61) cs) with
    | none => rfl
    | some key =>
      simp only
      cases hr : rest.isEmpty
      · cases stringOfBytes? rest <;> simp
      · simp

/-- `TXT::attributes` contains no indexing, slicing or arithmetic: its statement-level model is the
existing total model (so it never panics and never fails) -/
theorem attributesC_eq (ss : List Bytes) : Txt.attributesC ss = Txt.attributes ss := by
  unfold Txt.attributesC Txt.attributes
  simp only [attrOfCharStrC_eq]
  rfl

/-- the first `splited.next()` of `TXT::attributes` is never `None` -/
theorem attrOfCharStrC_first_next_some (cs : Bytes) : (splitnBy (· == 61) 2 cs)[0]? ≠ none := by
  rw [splitnBy_two]; split <;> simp

example : attrOfCharStrC [107, 61, 118] = some ("k", some "v") := by
  rw [attrOfCharStrC_eq]; decide

/-! ## 3. C12-3: more observers on every record, question and (record, question) pair -/

/-- the read-only API of `SVCB` / `HTTPS` (`svcb.rs:127-134`): `get_param` of the seven registered
keys (`MANDATORY` .. `IPV6HINT`), `iter_params`, and `get_param` of every key present. A `BTreeMap`
lookup has no panicking path; the calls are sequenced through `pure` as in `Model/Observers.lean` -/
def Svcb.observe (ps : SvcParams) : Out Unit := do
  let _ ← (pure ([0, 1, 2, 3, 4, 5, 6].map ps.get) : Out (List (Option Bytes)))
  let _ ← (pure (ps.map fun x => (x.1, x.2, ps.get x.1)) : Out _)
  pure ()

/-- the parameter lookups, on a record that is an SVCB or HTTPS record -/
def RR.observeSvcb (r : RR) : Out Unit :=
  match r.rdata with
  | .flat 64 [_, _, .tlvs ps] => Svcb.observe ps
  | .flat 65 [_, _, .tlvs ps] => Svcb.observe ps
  | _ => pure ()

/-- a record against a question: `is_subdomain_of` and `without` in both directions (the
statement-level models with the panicking subtraction and slice), `is_link_local` of both names,
`match_qtype`, `match_qclass` -/
def RR.observePair (r : RR) (q : Question) : Out Unit := do
  let _ ← Name.isSubdomainOfC r.name q.name
  let _ ← Name.isSubdomainOfC q.name r.name
  let _ ← Name.withoutC r.name q.name
  let _ ← Name.withoutC q.name r.name
  let _ ← (pure (r.name.isLinkLocal, q.name.isLinkLocal) : Out (Bool × Bool))
  let _ ← (pure (r.matchQType q.qtype, r.matchQClass q.qclass) : Out (Bool × Bool))
  pure ()

/-- the TXT accessors through their statement-level models -/
def RR.observeTxtC (r : RR) : Out Unit :=
  match r.rdata with
  | .flat 16 [.strs ss] => do
    let _ ← (pure (Txt.attributesC ss) : Out Attrs)
    (Txt.longAttributesC ss).tolerate
  | _ => pure ()

/-- all of it on a packet: every record of the three sections (SVCB lookups, TXT accessors, its
own name against itself) and every record against every question -/
def Packet.observeMore (p : Packet) : Out Unit := do
  let rrs := p.answers ++ (p.nameServers ++ p.additional)
  Out.each RR.observeSvcb rrs
  Out.each RR.observeTxtC rrs
  Out.each (fun r => Out.each (fun q => RR.observePair r q) p.questions) rrs
  Out.each (fun r => Out.each (fun r' => do
    let _ ← Name.withoutC r.name r'.name
    pure ()) rrs) rrs

namespace C12C16L

/-- the SVCB parameter lookups return normally -/
theorem svcb_ok (ps : SvcParams) : Svcb.observe ps = .ok () := rfl

/-- ... on any record -/
theorem rr_svcb_ok (r : RR) : RR.observeSvcb r = .ok () := by
  unfold RR.observeSvcb; split <;> first | exact svcb_ok _ | rfl

/-- a record observed against a question returns normally -/
theorem pair_ok (r : RR) (q : Question) : RR.observePair r q = .ok () := by
  simp [RR.observePair, isSubdomainOfC_eq, withoutC_eq]

/-- the statement-level TXT accessors return normally or with `InvalidUtf8String` (tolerated) -/
theorem txtC_ok (r : RR) : RR.observeTxtC r = .ok () := by
  unfold RR.observeTxtC
  split
  · simp [ObsL.tolerate_ok (longAttributesC_ne_panic _)]
  · rfl

/-- all additional observers on a packet return normally -/
theorem more_ok (p : Packet) : Packet.observeMore p = .ok () := by
  unfold Packet.observeMore
  simp only []
  rw [ObsL.each_ok fun r _ => rr_svcb_ok r, Out.bind_ok,
    ObsL.each_ok fun r _ => txtC_ok r, Out.bind_ok,
    ObsL.each_ok fun r _ => ObsL.each_ok fun q _ => pair_ok r q, Out.bind_ok]
  exact ObsL.each_ok fun r _ => ObsL.each_ok fun r' _ => by simp [withoutC_eq]

end C12C16L

/-- the additional observers return normally on every packet whatsoever -/
theorem observeMore_ok (p : Packet) : Packet.observeMore p = .ok () := C12C16L.more_ok p

/-- C12 for the extended coverage: `is_subdomain_of`, `without` (with its subtraction and slice),
`is_link_local`, `match_qtype`, `match_qclass`, the SVCB parameter lookups and the TXT accessors
(with their `Vec` indexing) never panic, on any packet -/
theorem observeMore_ne_panic (p : Packet) : Packet.observeMore p ≠ .panic := by
  rw [observeMore_ok]; simp

/-- in particular on every output of the parser, together with the observers of `Props/C12.lean` -/
theorem parsed_then_observed_more (d : Bytes) (p : Packet) (_h : Packet.parse d = .ok p) :
    Packet.observe p ≠ .panic ∧ Packet.observeMore p ≠ .panic :=
  ⟨observers_total_partial p, observeMore_ne_panic p⟩

/-- no (record, question) pair makes `is_subdomain_of` / `without` / the matchers panic -/
theorem rr_pair_observers_total (r : RR) (q : Question) : RR.observePair r q ≠ .panic := by
  rw [C12C16L.pair_ok]; simp

/-- the observer has teeth: with the unguarded `without` body in place of `Name::without`, a record
whose name is shorter than the question's makes it panic -/
theorem unguarded_pair_panics (r : RR) (q : Question) (h : r.name.length < q.name.length) :
    (do let _ ← Name.withoutUnguarded r.name q.name; pure () : Out Unit) = .panic := by
  simp [withoutUnguarded_panics h]

/-! ## 4. C16-1: instances obtained from discovery satisfy the set invariant -/

namespace Mdns

/-- `HashSet::insert` keeps every member once -/
theorem insertNew_nodup {α : Type} [BEq α] [LawfulBEq α] {xs : List α} (h : xs.Nodup) (x : α) :
    (insertNew xs x).Nodup := by
  unfold insertNew
  split
  · exact h
  · rename_i hc
    have hx : x ∉ xs := by simpa using hc
    rw [List.nodup_append]
    exact ⟨h, by simp, by intro a ha b hb; simp at hb; subst hb; exact fun e => hx (e ▸ ha)⟩

/-- and it is a set insertion: the members afterwards are the old ones and the new one -/
theorem mem_insertNew {α : Type} [BEq α] [LawfulBEq α] (xs : List α) (x y : α) :
    y ∈ insertNew xs x ↔ y ∈ xs ∨ y = x := by
  unfold insertNew
  split
  · rename_i hc
    have hx : x ∈ xs := by simpa using hc
    constructor
    · exact Or.inl
    · rintro (h | rfl) <;> assumption
  · simp

/-- one step of the fold of `from_records` keeps the invariant -/
theorem recStep_setsOK {i : Instance} (h : i.SetsOK) (r : RR) : (recStep i r).SetsOK := by
  unfold recStep
  split
  · exact ⟨insertNew_nodup h.1 _, h.2⟩
  · exact ⟨insertNew_nodup h.1 _, h.2⟩
  · exact h
  · exact ⟨h.1, insertNew_nodup h.2 _⟩
  · exact h

/-- the whole fold of `from_records` keeps the invariant -/
theorem foldl_recStep_setsOK (rs : List RR) {i : Instance} (h : i.SetsOK) :
    (rs.foldl recStep i).SetsOK := by
  induction rs generalizing i with
  | nil => exact h
  | cons r rs ih => exact ih (recStep_setsOK h r)

/-- `InstanceInformation::from_records`: the two sets of every instance it returns hold each
member once (they are `HashSet`s filled by `insert`) -/
theorem fromRecords_setsOK {svc : Name} {rs : List RR} {i : Instance}
    (h : fromRecords svc rs = some i) : i.SetsOK := by
  rw [fromRecords_eq] at h
  cases hn : rs.findSome? (fun r => r.name.without svc) with
  | none => simp [hn] at h
  | some n =>
    simp only [hn, Option.map_some, Option.some.injEq] at h
    subst h
    have := foldl_recStep_setsOK rs (i := { name := [], ips := [], ports := [], attrs := [] })
      ⟨List.nodup_nil, List.nodup_nil⟩
    exact ⟨this.1, this.2⟩

/-- `get_known_services`: likewise for every instance it reports -/
theorem known_setsOK {s : Store} {svc : Name} {now : Nat} {i : Instance}
    (h : i ∈ known s svc now) : i.SetsOK := by
  unfold known at h
  obtain ⟨rs, _, hrs⟩ := List.mem_filterMap.mp h
  exact fromRecords_setsOK hrs

end Mdns

open Mdns in
/-- Eq ⇒ Hash for instance information WITHOUT side conditions, for what `from_records` returns:
two instances built from records (of whatever services, in whatever order) that compare equal
feed the hasher identically -/
theorem fromRecords_eq_hash {svc₁ svc₂ : Name} {rs₁ rs₂ : List RR} {a b : Instance}
    (ha : fromRecords svc₁ rs₁ = some a) (hb : fromRecords svc₂ rs₂ = some b)
    (h : Instance.eqv a b) : Instance.hashFeed a = Instance.hashFeed b :=
  instance_eq_hash h (fromRecords_setsOK ha) (fromRecords_setsOK hb)

open Mdns in
/-- the same for the instances `get_known_services` reports, from any two stores at any two times -/
theorem known_eq_hash {s₁ s₂ : Store} {svc₁ svc₂ : Name} {t₁ t₂ : Nat} {a b : Instance}
    (ha : a ∈ known s₁ svc₁ t₁) (hb : b ∈ known s₂ svc₂ t₂) (h : Instance.eqv a b) :
    Instance.hashFeed a = Instance.hashFeed b :=
  instance_eq_hash h (known_setsOK ha) (known_setsOK hb)

section Examples4
open Mdns

private def svcE : Name := [[108]]
private def recsE (ips : List Nat) : List RR :=
  ips.map fun a => { name := [[105], [108]], cls := .IN, ttl := 1, rdata := .flat 1 [.int a],
                     flush := false }

/-- two record lists with the same addresses in different orders and with repetitions -/
example : ∃ a b, fromRecords svcE (recsE [1, 2, 1, 3]) = some a ∧
    fromRecords svcE (recsE [3, 2, 2, 1]) = some b ∧ a.ips ≠ b.ips ∧
    Instance.hashFeed a = Instance.hashFeed b :=
  ⟨_, _, rfl, rfl, by decide, by decide⟩

/-- a store in which `get_known_services` reports an instance (the same address announced twice) -/
private def rT (a : Nat) : RR :=
  { name := [[105], [108]], cls := .IN, ttl := 100, rdata := .flat 1 [.int a], flush := false }
private def rS : RR :=
  { name := [[108]], cls := .IN, ttl := 100, rdata := .flat 12 [.name [[105], [108]]], flush := false }
private def sT : Store :=
  (((Store.empty.addCached rS 0).addCached (rT 7) 0).addCached (rT 9) 0).addCached
    { rT 7 with ttl := 50 } 0
example : (known sT svcE 1).map (·.ips) = [[(false, 7), (false, 9)]] := by decide

end Examples4

/-! ## 5. C16-2: the hash feed separates what equality separates -/

namespace C12C16L

/-- a token encoding that is injective and prefix-free: two encodings followed by anything agree
only when the encoded values and the continuations agree -/
def PF (f : α → List HTok) : Prop := ∀ a b x y, f a ++ x = f b ++ y → a = b ∧ x = y

/-- equally many prefix-free encodings in a row are prefix-free -/
theorem flatMap_pf {f : α → List HTok} (hf : PF f) (l₁ l₂ : List α) (x y : List HTok)
    (hl : l₁.length = l₂.length) (h : l₁.flatMap f ++ x = l₂.flatMap f ++ y) : l₁ = l₂ ∧ x = y := by
  induction l₁ generalizing l₂ with
  | nil =>
    cases l₂ with
    | nil => simpa using h
    | cons b bs => simp at hl
  | cons a as ih =>
    cases l₂ with
    | nil => simp at hl
    | cons b bs =>
      simp only [List.flatMap_cons, List.append_assoc] at h
      obtain ⟨hab, hrest⟩ := hf a b _ _ h
      obtain ⟨hl', hxy⟩ := ih bs (by simpa using hl) hrest
      exact ⟨by rw [hab, hl'], hxy⟩

/-- a list fed as its length followed by its members is prefix-free when the members are -/
theorem lenList_pf {f : α → List HTok} (hf : PF f) :
    PF (fun l : List α => HTok.len l.length :: l.flatMap f) := by
  intro a b x y h
  simp only [List.cons_append, List.cons.injEq, HTok.len.injEq] at h
  exact flatMap_pf hf a b x y h.1 h.2

/-- a byte slice fed as length and content (`Hash for [u8]`) is prefix-free -/
theorem bytes_pf : PF (fun l : Bytes => [HTok.len l.length, HTok.bytes l]) := by
  intro a b x y h
  simp only [List.cons_append, List.nil_append, List.cons.injEq, HTok.len.injEq,
    HTok.bytes.injEq] at h
  exact ⟨h.2.1, h.2.2⟩

/-- a (key, value) pair fed as key, length, content is prefix-free -/
theorem tlv_pf :
    PF (fun x : Nat × Bytes => [HTok.num x.1, HTok.len x.2.length, HTok.bytes x.2]) := by
  intro a b x y h
  simp only [List.cons_append, List.nil_append, List.cons.injEq, HTok.num.injEq, HTok.len.injEq,
    HTok.bytes.injEq] at h
  exact ⟨Prod.ext h.1 h.2.2.1, h.2.2.2⟩

/-- `Hash for Name` is prefix-free -/
theorem name_pf : PF Name.hashFeed := lenList_pf bytes_pf

end C12C16L

/-- `Hash for Name` is prefix-free: what follows a name in a hasher's input cannot be confused
with part of the name (each label is fed with its length, the label vector with its length) -/
theorem name_hash_prefix_free {a b : Name} {x y : List HTok}
    (h : Name.hashFeed a ++ x = Name.hashFeed b ++ y) : a = b ∧ x = y := C12C16L.name_pf a b x y h

/-- `Hash for Name` separates what `PartialEq for Name` separates: names that feed the hasher
identically are equal (no two different names collide before the hash function itself) -/
theorem name_hash_inj {a b : Name} (h : Name.hashFeed a = Name.hashFeed b) : a = b :=
  (C12C16L.name_pf a b [] [] (by simpa using h)).1

/-- Eq ⇔ same feed, for names -/
theorem name_hash_iff (a b : Name) : Name.hashFeed a = Name.hashFeed b ↔ a = b :=
  ⟨name_hash_inj, name_eq_hash⟩

/-- the constructor of a field value (which Rust type the field has) -/
def Val.kind : Val → Nat
  | .int _ => 0 | .bytes _ => 1 | .name _ => 2 | .strs _ => 3 | .tlvs _ => 4

/-- the constructor of the value a field of a given kind holds -/
def FKind.valKind : FKind → Nat
  | .int _ => 0 | .charstr => 1 | .name _ => 2 | .rest => 1 | .strs => 3 | .tlvs .. => 4

namespace C12C16L

/-- among values of one Rust type the feed is prefix-free -/
theorem val_pf {a b : Val} (hk : a.kind = b.kind) {x y : List HTok}
    (h : Val.hashFeed a ++ x = Val.hashFeed b ++ y) : a = b ∧ x = y := by
  cases a <;> cases b <;> simp only [Val.kind, reduceCtorEq] at hk <;> try (exact absurd hk (by decide))
  · simp only [Val.hashFeed, List.cons_append, List.nil_append, List.cons.injEq,
      HTok.num.injEq] at h
    exact ⟨by rw [h.1], h.2⟩
  · obtain ⟨h1, h2⟩ := bytes_pf _ _ x y h
    exact ⟨by rw [h1], h2⟩
  · obtain ⟨h1, h2⟩ := name_pf _ _ x y h
    exact ⟨by rw [h1], h2⟩
  · obtain ⟨h1, h2⟩ := lenList_pf bytes_pf _ _ x y h
    exact ⟨by rw [h1], h2⟩
  · obtain ⟨h1, h2⟩ := lenList_pf tlv_pf _ _ x y h
    exact ⟨by rw [h1], h2⟩

/-- field lists of one struct type (same kinds in the same order) -/
theorem vals_pf (vs ws : List Val) (hk : vs.map Val.kind = ws.map Val.kind) {x y : List HTok}
    (h : vs.flatMap Val.hashFeed ++ x = ws.flatMap Val.hashFeed ++ y) : vs = ws ∧ x = y := by
  induction vs generalizing ws with
  | nil =>
    cases ws with
    | nil => simpa using h
    | cons w ws => simp at hk
  | cons v vs ih =>
    cases ws with
    | nil => simp at hk
    | cons w ws =>
      simp only [List.map_cons, List.cons.injEq] at hk
      simp only [List.flatMap_cons, List.append_assoc] at h
      obtain ⟨h1, h2⟩ := val_pf hk.1 h
      obtain ⟨h3, h4⟩ := ih ws hk.2 h2
      exact ⟨by rw [h1, h3], h4⟩

/-- a value that fits a field is of the constructor the field kind prescribes -/
theorem fieldOK_kind {k : FKind} {v : Val} (h : FieldOK k v) : v.kind = k.valKind := by
  cases k <;> cases v <;> simp [FieldOK] at h <;> rfl

/-- values matching a schema have the constructors the schema prescribes, in order -/
theorem allOK_kinds {ks : List FKind} {vs : List Val} (h : AllOK ks vs) :
    vs.map Val.kind = ks.map FKind.valKind := by
  induction ks generalizing vs with
  | nil => cases vs <;> simp [AllOK] at h ⊢
  | cons k ks ih =>
    cases vs with
    | nil => simp [AllOK] at h
    | cons v vs =>
      simp only [AllOK] at h
      simp [fieldOK_kind h.1, ih h.2]

/-- `class as u16` is injective (a field-less enum hashes its discriminant) -/
theorem class_toCode_inj {a b : CLASS} (h : a.toCode = b.toCode) : a = b := by
  cases a <;> cases b <;> simp [CLASS.toCode] at h <;> rfl

end C12C16L

/-- the RDATA value has the shape its Rust type prescribes: the fields of a typed record are of the
kinds of the type's struct (in the model the value list is untyped), and the `TYPE` of an empty
RDATA is the canonical one for its code (`TYPE::from(u16)` never returns `Unknown(1)`) -/
def RData.HashCanon : RData → Prop
  | .flat code vs => ∃ ks, schemaOf code = some ks ∧ vs.map Val.kind = ks.map FKind.valKind
  | .empty t => TYPE.ofCode t.toCode = t
  | _ => True

/-- every well-formed RDATA value (in particular everything the parser returns) has it -/
theorem RData.WF.hashCanon {rd : RData} (h : rd.WF) : rd.HashCanon := by
  cases rd with
  | flat code vs =>
    have hs := h.1
    unfold SchemaOK at hs
    split at hs
    · rename_i ks hks
      exact ⟨ks, hks, C12C16L.allOK_kinds hs⟩
    · exact hs.elim
  | empty t => exact h.2.1
  | ipseckey p a g k => trivial
  | opt o => trivial
  | null c d => trivial

set_option linter.unusedSimpArgs false in
/-- derived `Hash for RData` separates what derived `PartialEq for RData` separates: two RDATA
values (each of the shape of its type) that feed the hasher identically are equal -/
theorem rdata_hash_inj {a b : RData} (ha : a.HashCanon) (hb : b.HashCanon)
    (h : RData.hashFeed a = RData.hashFeed b) : a = b := by
  cases a with
  | flat c vs =>
    cases b <;> simp only [RData.hashFeed, List.cons_append, List.nil_append, List.cons.injEq,
      HTok.tag.injEq, HTok.num.injEq, reduceCtorEq, false_and, and_false] at h <;>
      try (exact absurd h.1 (by decide))
    rename_i c' ws
    obtain ⟨-, hc, hf⟩ := h
    subst hc
    obtain ⟨ks, hks, hv⟩ := ha
    obtain ⟨ks', hks', hw⟩ := hb
    rw [hks] at hks'
    cases hks'
    have := C12C16L.vals_pf vs ws (hv.trans hw.symm) (x := []) (y := []) (by simpa using hf)
    rw [this.1]
  | ipseckey p al g k =>
    cases b <;> simp only [RData.hashFeed, List.cons_append, List.nil_append, List.cons.injEq,
      HTok.tag.injEq, HTok.num.injEq, reduceCtorEq, false_and, and_false] at h <;>
      try (exact absurd h.1 (by decide))
    rename_i p' al' g' k'
    obtain ⟨-, hp, hal, hg, hrest⟩ := h
    subst hp hal
    cases g <;> cases g' <;> simp only [Gateway.tag] at hg <;> try (exact absurd hg (by decide))
    · simp only [List.nil_append, List.cons.injEq, HTok.bytes.injEq] at hrest
      rw [hrest.2.1]
    · simp only [List.cons_append, List.nil_append, List.cons.injEq, HTok.num.injEq,
        HTok.bytes.injEq] at hrest
      rw [hrest.1, hrest.2.2.1]
    · simp only [List.cons_append, List.nil_append, List.cons.injEq, HTok.num.injEq,
        HTok.bytes.injEq] at hrest
      rw [hrest.1, hrest.2.2.1]
    · obtain ⟨hn, hk⟩ := C12C16L.name_pf _ _ _ _ hrest
      simp only [List.cons.injEq, HTok.bytes.injEq] at hk
      rw [hn, hk.2.1]
  | opt o =>
    cases b <;> simp only [RData.hashFeed, List.cons_append, List.nil_append, List.cons.injEq,
      HTok.tag.injEq, HTok.num.injEq, reduceCtorEq, false_and, and_false] at h <;>
      try (exact absurd h.1 (by decide))
    rename_i o'
    obtain ⟨-, hu, hv, hc⟩ := h
    obtain ⟨u, v, cs⟩ := o
    obtain ⟨u', v', cs'⟩ := o'
    simp only at hu hv hc
    have := C12C16L.lenList_pf C12C16L.tlv_pf cs cs' [] [] (by simpa using hc)
    rw [hu, hv, this.1]
  | null c d =>
    cases b <;> simp only [RData.hashFeed, List.cons_append, List.nil_append, List.cons.injEq,
      HTok.tag.injEq, HTok.num.injEq, HTok.bytes.injEq, reduceCtorEq, false_and, and_false] at h <;>
      try (exact absurd h.1 (by decide))
    rw [h.2.1, h.2.2.2.1]
  | empty t =>
    cases b <;> simp only [RData.hashFeed, List.cons_append, List.nil_append, List.cons.injEq,
      HTok.tag.injEq, HTok.num.injEq, reduceCtorEq, false_and, and_false] at h <;>
      try (exact absurd h.1 (by decide))
    rename_i t'
    have ht : t = t' := by
      have e1 : TYPE.ofCode t.toCode = t := ha
      have e2 : TYPE.ofCode t'.toCode = t' := hb
      rw [← e1, ← e2, h.2.1]
    rw [ht]

/-- Eq ⇔ same feed, for RDATA of the shape of its type -/
theorem rdata_hash_iff {a b : RData} (ha : a.HashCanon) (hb : b.HashCanon) :
    RData.hashFeed a = RData.hashFeed b ↔ a = b :=
  ⟨rdata_hash_inj ha hb, rdata_eq_hash⟩

/-- `Hash for ResourceRecord` feeds exactly what `PartialEq for ResourceRecord` compares, and feeds
it injectively: two records feed the hasher identically if AND ONLY IF they compare equal (name,
class, RDATA; TTL and cache-flush bit ignored by both) -/
theorem rr_hash_iff {a b : RR} (ha : a.rdata.HashCanon) (hb : b.rdata.HashCanon) :
    RR.hashFeed a = RR.hashFeed b ↔ Mdns.rrEq a b = true := by
  refine ⟨fun h => ?_, rr_eq_hash⟩
  unfold RR.hashFeed at h
  obtain ⟨hn, hrest⟩ := C12C16L.name_pf _ _ _ _ h
  simp only [List.cons.injEq, HTok.num.injEq] at hrest
  exact (rrEq_iff a b).mpr ⟨hn, C12C16L.class_toCode_inj hrest.1, rdata_hash_inj ha hb hrest.2⟩

/-- the same for well-formed records, in particular parsed ones -/
theorem rr_hash_iff_of_WF {a b : RR} (ha : a.WF) (hb : b.WF) :
    RR.hashFeed a = RR.hashFeed b ↔ Mdns.rrEq a b = true :=
  rr_hash_iff ha.2.2.1.hashCanon hb.2.2.1.hashCanon

/-- hence: records differing only in TTL / cache-flush bit are the ONLY distinct well-formed
records with the same feed -/
theorem rr_same_feed_differ_only_ttl_flush {a b : RR} (ha : a.WF) (hb : b.WF)
    (h : RR.hashFeed a = RR.hashFeed b) : { b with ttl := a.ttl, flush := a.flush } = a := by
  obtain ⟨h1, h2, h3⟩ := (rrEq_iff a b).mp ((rr_hash_iff_of_WF ha hb).mp h)
  cases a; cases b; simp_all

/-! Without the side condition the converse fails IN THE MODEL, in two ways; neither is a
collision of the Rust code. (1) The model's value lists are untyped: a list holding a name and a
list holding character-strings can have the same feed, but no Rust type has a field that is a
`Name` in one value and a `Vec<CharacterString>` in another. (2) The model feeds `Empty(TYPE)` by
the type's code, the derive feeds the variant and its payload; the model is coarser there. -/

/-- (1) on single field values -/
theorem val_hash_not_inj :
    Val.hashFeed (.name [[97]]) = Val.hashFeed (.strs [[97]]) ∧ Val.name [[97]] ≠ Val.strs [[97]] := by
  decide

/-- (1) on RDATA values: a PTR-coded value holding strings, which no Rust value is -/
theorem rdata_hash_not_inj_untyped :
    RData.hashFeed (.flat 12 [.name [[97]]]) = RData.hashFeed (.flat 12 [.strs [[97]]]) ∧
    RData.flat 12 [.name [[97]]] ≠ RData.flat 12 [.strs [[97]]] := by decide

/-- (2) `Empty(TYPE::A)` and `Empty(TYPE::Unknown(1))` have one feed in the model -/
theorem rdata_hash_not_inj_empty :
    RData.hashFeed (.empty .A) = RData.hashFeed (.empty (.Unknown 1)) ∧
    RData.empty .A ≠ RData.empty (.Unknown 1) := by decide

/-- the unconditional `RR.hashFeed a = RR.hashFeed b → rrEq a b` is false in the model -/
theorem rr_hash_not_inj_untyped :
    ∃ a b : RR, RR.hashFeed a = RR.hashFeed b ∧ Mdns.rrEq a b = false :=
  ⟨{ name := [], cls := .IN, ttl := 0, rdata := .flat 12 [.name [[97]]], flush := false },
   { name := [], cls := .IN, ttl := 0, rdata := .flat 12 [.strs [[97]]], flush := false },
   by decide, by decide⟩

/-- the offending value is not of the shape of its type (PTR holds a name) -/
example : ¬ (RData.flat 12 [.strs [[97]]]).HashCanon := by
  rintro ⟨ks, hks, hv⟩
  have : ks = [.name true] ∨ ks = [.name false] := by
    simp [schemaOf] at hks; simp [hks]
  rcases this with rfl | rfl <;> simp [Val.kind, FKind.valKind] at hv

section Examples5
private def rA : RR :=
  { name := [[97], [98]], cls := .IN, ttl := 120, rdata := .flat 1 [.int 0x7F000001], flush := false }
private def rB : RR :=
  { name := [[97], [98]], cls := .IN, ttl := 5, rdata := .flat 1 [.int 0x7F000001], flush := true }
example : rA.WF ∧ rB.WF := by decide
example : RR.hashFeed rA = RR.hashFeed rB ∧ Mdns.rrEq rA rB = true ∧ rA ≠ rB := by decide
example : (RData.flat 1 [.int 5]).HashCanon := ⟨[.int 4], rfl, rfl⟩
end Examples5

/-! ## 6. C16-3: what the property says at the level of `clone` and of `ResourceRecord::into_owned` -/

/-- derived `Clone for Packet`: every field cloned, the vectors element by element. This is the
deep field-by-field copy `Lemmas/Owned.lean` calls `Packet.intoOwned` (a name the Rust code does
not have); the theorems of `Props/C16.lean` about it are statements about `packet.clone()`. -/
def Packet.clone (p : Packet) : Packet := Packet.intoOwned p

/-- derived `Clone for Question`: the same rebuild as `into_owned` -/
def Question.clone (q : Question) : Question := Question.intoOwned q
/-- derived `Clone for ResourceRecord` -/
def RR.clone (r : RR) : RR := RR.intoOwned r

/-- a clone is field-wise the original -/
theorem packet_clone_eq (p : Packet) : p.clone = p := packet_into_owned_eq p
/-- a cloned question is field-wise the original -/
theorem question_clone_eq (q : Question) : q.clone = q := question_into_owned_eq q
/-- a cloned record is field-wise the original -/
theorem rr_clone_eq (r : RR) : r.clone = r := rr_into_owned_eq r

/-- `packet.clone().build_bytes_vec()` and `..._compressed()` give the bytes of the original -/
theorem clone_build (p : Packet) : p.clone.build = p.build := into_owned_build p
/-- the same with name compression -/
theorem clone_buildCompressed (p : Packet) : p.clone.buildCompressed = p.buildCompressed :=
  into_owned_buildCompressed p
/-- the same through the generic serialiser -/
theorem clone_buildG (c : Bool) (p : Packet) : p.clone.buildG c = p.buildG c := into_owned_buildG c p

/-- the members of a cloned packet are the owned copies of the members of the original -/
theorem clone_sections (p : Packet) :
    p.clone.questions = p.questions.map Question.intoOwned ∧
    p.clone.answers = p.answers.map RR.intoOwned ∧
    p.clone.nameServers = p.nameServers.map RR.intoOwned ∧
    p.clone.additional = p.additional.map RR.intoOwned := ⟨rfl, rfl, rfl, rfl⟩

/-- a cloned packet is within the size limits iff the original is -/
theorem clone_WF (p : Packet) : p.clone.WF ↔ p.WF := by rw [packet_clone_eq]

/-! `ResourceRecord::into_owned` (which the Rust code does have). Already in `Props/C16.lean`:
`rr_into_owned_eq`, `rr_into_owned_rrEq` (equal to the original under the library's `PartialEq`),
`into_owned_rr_hash` (same feed), `into_owned_rr_write`, `into_owned_rr_writeG` (same bytes, plain
and compressed, at every offset and table). Added here: well-formedness, `PartialEq` against
third records, both directions, and the matchers. -/

/-- the owned record is within the size limits exactly when the original is -/
theorem into_owned_rr_WF (r : RR) : (RR.intoOwned r).WF ↔ r.WF := by rw [rr_into_owned_eq]

/-- likewise for RDATA -/
theorem into_owned_rdata_WF (rd : RData) : (RData.intoOwned rd).WF ↔ rd.WF := by
  rw [rdata_into_owned_eq]

/-- likewise for names -/
theorem into_owned_name_WF (n : Name) : Name.WF (Name.intoOwned n) ↔ Name.WF n := by
  rw [name_into_owned_eq]

/-- likewise for questions -/
theorem into_owned_question_WF (q : Question) : (Question.intoOwned q).WF ↔ q.WF := by
  rw [question_into_owned_eq]

/-- `PartialEq` does not see the conversion, on either side: an owned copy compares to any third
record as the original does (so it finds the same entry in a `HashMap<ResourceRecord, _>`) -/
theorem into_owned_rrEq_left (a b : RR) : Mdns.rrEq (RR.intoOwned a) b = Mdns.rrEq a b := by
  rw [rr_into_owned_eq]

/-- ... on the right -/
theorem into_owned_rrEq_right (a b : RR) : Mdns.rrEq a (RR.intoOwned b) = Mdns.rrEq a b := by
  rw [rr_into_owned_eq]

/-- ... on both sides -/
theorem into_owned_rrEq_both (a b : RR) :
    Mdns.rrEq (RR.intoOwned a) (RR.intoOwned b) = Mdns.rrEq a b := by
  rw [rr_into_owned_eq, rr_into_owned_eq]

/-! (`rrEq` is an equivalence: `Mdns.rrEq_refl`, `Mdns.rrEq_symm`, `Mdns.rrEq_trans` of
`Lemmas/MdnsA.lean`.) -/

/-- the owned record hashes like the original also in the strong sense: its feed equals the feed of
exactly the records the original's feed equals -/
theorem into_owned_rr_hash_iff (a b : RR) :
    RR.hashFeed (RR.intoOwned a) = RR.hashFeed b ↔ RR.hashFeed a = RR.hashFeed b := by
  rw [into_owned_rr_hash]

/-- the matchers do not see the conversion -/
theorem into_owned_rr_match (r : RR) (qt : QTYPE) (qc : QCLASS) :
    (RR.intoOwned r).matchQType qt = r.matchQType qt ∧
    (RR.intoOwned r).matchQClass qc = r.matchQClass qc := by
  rw [rr_into_owned_eq]; exact ⟨rfl, rfl⟩

/-- everything the property says about `ResourceRecord::into_owned`, together: the owned record
compares equal to the original, is well-formed iff the original is, feeds the hasher identically
and serialises to the same bytes plainly and with compression -/
theorem rr_into_owned_all (r : RR) :
    Mdns.rrEq (RR.intoOwned r) r = true ∧ ((RR.intoOwned r).WF ↔ r.WF) ∧
    RR.hashFeed (RR.intoOwned r) = RR.hashFeed r ∧ (RR.intoOwned r).write = r.write ∧
    (∀ c off t, (RR.intoOwned r).writeG c off t = r.writeG c off t) :=
  ⟨rr_into_owned_rrEq r, into_owned_rr_WF r, into_owned_rr_hash r, into_owned_rr_write r,
   fun c off t => into_owned_rr_writeG c r off t⟩

/-- and the observers of sections 1-3 on a clone return what they return on the original -/
theorem clone_observeMore (p : Packet) : Packet.observeMore p.clone = Packet.observeMore p := by
  rw [packet_clone_eq]

section Examples6
private def pE : Packet :=
  { header := { id := 7, opcode := .StandardQuery, rcode := .NoError, flags := 0x8000, opt := none },
    questions := [{ name := [[97]], qtype := .TYPE .A, qclass := .CLASS .IN, unicast := false }],
    answers := [{ name := [[97]], cls := .IN, ttl := 1, rdata := .flat 1 [.int 1], flush := false }],
    nameServers := [], additional := [] }
example : pE.clone = pE := by decide
example : pE.clone.build = pE.build := by decide
example : Packet.observeMore pE = .ok () := observeMore_ok pE
end Examples6

end Dns
