/-
C14Fits — discharging `ReplyFits` (Props/C14.lean) for the stores the services hold, and the size of a
reply in terms of the size of the query.

  1. `questions_le`, `questions_le_div`, `questions_le_9000`
         a datagram of L bytes carries at most (L - 12) / 5 questions; 9000 bytes: 1797
  2. `reply_sections_le`, `replyFits_of_mul`, `replyFits_of_datagram`, `replyFits_9000`
         answers ≤ questions × registered records, additional ≤ registered records; the count bounds
         of `ReplyFits` from one product; for 9000-byte datagrams: 36 registered records
  3. `StoreFits` (= `AuthWF` + every stored record in the parser's image) is preserved by the four
     store operations and by every datagram (`StoreFits.addAuth/addCached/remove/clear/run/datagram`,
     `AuthWF.addCached/ingest/remove/clear/datagram`); `AuthWF` alone is NOT preserved by
     `add_authoritative_resource` (counterexample); `authCount_addAuth/addCached/remove/run`: the
     number of registered records grows only by registering;
     `discoveryInit_authWF`, `discoveryInit_fits`, `discoveryInit_instance_fits`, `authWF_of_ops`,
     `DiscoveryReach.fits`, `discovery_reply_parseable(_9000)`, `responder_reply_parseable_of_ops`,
     `responder_reply_parseable_9000`: `reply_parseable` with hypotheses on construction only
  4. `reply_length_ge`, `reply_unsendable`, `reply_size_unbounded(_250)`, `failed_send_reachable`
         the reply grows by (data + 12) bytes per 6 bytes of query; a 1519-byte datagram makes
         `send_to` fail
  5. `rr_writeG_length_ge`, `buildG_length_ge`, `replyFits_of_sendable`, `sent_reply_parseable`
         whatever fits a datagram has fewer than 5955 records: every reply actually sent parses,
         from `AuthWF` alone
  6. `count_bound_tight`: 37 registered records and 8997 bytes of root questions overflow the counts
-/
import SimpleDnsModel.Props.C14
import SimpleDnsModel.Props.C13More
import SimpleDnsModel.Props.C15
import SimpleDnsModel.Props.C05C03More
namespace Dns.Mdns

/-! ### 1. the number of questions a datagram can carry -/

/-- `Header::parse` succeeds only on at least 12 bytes -/
theorem header_parse_length {d : Bytes} {h : Header} (hh : Header.parse d = .ok h) :
    12 ≤ d.length := by
  unfold Header.parse at hh
  split at hh
  · cases hh
  · omega

/-- **A parsed datagram spends 12 bytes on the header and at least 5 on every question** (one byte
of name, two of type, two of class). -/
theorem questions_le {d : Bytes} {q : Packet} (h : Packet.parse d = .ok q) :
    5 * q.questions.length + 12 ≤ d.length := by
  unfold Packet.parse at h
  obtain ⟨h0, hh0, h⟩ := Out.bind_eq_ok h
  obtain ⟨qd, _, h⟩ := Out.bind_eq_ok h
  obtain ⟨⟨qs, p1⟩, hqs, h⟩ := Out.bind_eq_ok h
  dsimp only at h
  obtain ⟨an, _, h⟩ := Out.bind_eq_ok h
  obtain ⟨⟨as, p2⟩, _, h⟩ := Out.bind_eq_ok h
  dsimp only at h
  obtain ⟨ns, _, h⟩ := Out.bind_eq_ok h
  obtain ⟨⟨nss, p3⟩, _, h⟩ := Out.bind_eq_ok h
  dsimp only at h
  obtain ⟨ar, _, h⟩ := Out.bind_eq_ok h
  obtain ⟨⟨all, p4⟩, _, h⟩ := Out.bind_eq_ok h
  dsimp only at h
  obtain ⟨h1, _, h⟩ := Out.bind_eq_ok h
  cases h
  have hl := header_parse_length hh0
  obtain ⟨a, b, c⟩ := parseQuestions_consumes hqs
  have := c (Or.inr hl)
  simp only
  omega

/-- the number of questions, from the length of the datagram -/
theorem questions_le_div {d : Bytes} {q : Packet} (h : Packet.parse d = .ok q) :
    q.questions.length ≤ (d.length - 12) / 5 := by
  have := questions_le h
  omega

/-- **The receive buffers hold 9000 bytes: no query has more than 1797 questions.** -/
theorem questions_le_9000 {d : Bytes} {q : Packet} (h : Packet.parse d = .ok q)
    (hd : d.length ≤ 9000) : q.questions.length ≤ 1797 := by
  have := questions_le h
  omega

/-- the hypothesis is met by the query datagram of C14 (25 bytes, one question: 5·1 + 12 ≤ 25) -/
example : 5 * (C14Ex.query C14Ex.nA).questions.length + 12 ≤ C14Ex.qbytes.length :=
  questions_le C14Ex.qbytes_parse

/-! ### 2. the size of the reply's sections, from the query -/

/-- the number of locally registered records of a store (`authRecords`, Props/C14.lean) -/
def authCount (s : Store) : Nat := (authRecords s).length

/-- **Sections of a reply**: at most (questions × registered records) answers (answers are not
deduplicated across questions) and at most (registered records) additional records. -/
theorem reply_sections_le {q : Packet} {s : Store} {now : Nat} {r : Packet} {u : Bool}
    (h : buildReply q s now = some (r, u)) :
    r.answers.length ≤ q.questions.length * authCount s ∧ r.additional.length ≤ authCount s ∧
    r.questions.length = 0 ∧ r.nameServers.length = 0 := by
  obtain ⟨_, han, har, hq, hns, _⟩ := buildReply_eq_some h
  rw [han, har, hq, hns]
  exact ⟨answersOf_length_le q s now, extras_length_le q s now, rfl, rfl⟩

/-- no question, no additional record -/
theorem extrasOf_no_questions {q : Packet} (s : Store) (now : Nat) (h : q.questions = []) :
    extrasOf q s now = [] := by
  simp [extrasOf, h]

/-- **The count bounds of `ReplyFits` from one product**: the registered records are well-formed
and (questions of the query) × (registered records) is below 65 536. Stronger than
`replyFits_of_size`, whose separate bound on the number of registered records is not needed. -/
theorem replyFits_of_mul {s : Store} {q : Packet} {now : Nat} (hwf : AuthWF s)
    (h : q.questions.length * authCount s < 65536) : ReplyFits s q now := by
  refine ⟨hwf, ?_, ?_⟩
  · have := answersOf_length_le q s now
    unfold authCount at h
    omega
  · cases hq : q.questions with
    | nil => rw [extrasOf_no_questions s now hq]; simp [dedupRR]
    | cons a l =>
      have h1 := extras_length_le q s now
      rw [hq, List.length_cons, Nat.add_mul, Nat.one_mul] at h
      unfold authCount at h
      omega

/-- … and from the length of the datagram: a query parsed from `L` bytes has at most `(L - 12) / 5`
questions -/
theorem replyFits_of_datagram {s : Store} {d : Bytes} {q : Packet} {now : Nat} (hwf : AuthWF s)
    (hq : Packet.parse d = .ok q) (h : (d.length - 12) / 5 * authCount s < 65536) :
    ReplyFits s q now := by
  apply replyFits_of_mul hwf
  exact Nat.lt_of_le_of_lt (Nat.mul_le_mul_right _ (questions_le_div hq)) h

/-- **For the 9000-byte receive buffers: 36 registered records.** A store of well-formed registered
records, at most 36 of them, answers every datagram the socket can deliver with a reply whose
section counts fit (1797 · 36 = 64 692 < 65 536 ≤ 1797 · 37). -/
theorem replyFits_9000 {s : Store} {d : Bytes} {q : Packet} {now : Nat} (hwf : AuthWF s)
    (hq : Packet.parse d = .ok q) (hd : d.length ≤ 9000) (hN : authCount s ≤ 36) :
    ReplyFits s q now := by
  apply replyFits_of_mul hwf
  have h1 := questions_le_9000 hq hd
  have := Nat.mul_le_mul h1 hN
  omega

/-- 36 is the largest such number: the products on either side of 65 536 -/
example : 1797 * 36 < 65536 ∧ 65536 ≤ 1797 * 37 ∧ 5 * 1797 + 12 ≤ 9000 := by decide

/-- the hypotheses of `replyFits_9000` on the responder of C14 (two registered records) -/
example : ReplyFits C14Ex.st (C14Ex.query C14Ex.nA) 5 := by
  refine replyFits_9000 ?_ C14Ex.qbytes_parse (by decide) (by decide)
  intro k b hk r hr
  have : ∀ e ∈ C14Ex.st.entries, ∀ x ∈ e.2, x.1.WF := by decide
  exact this (k, b) hk (r, .auth) hr

/-! ### 3. `AuthWF` for the stores the services hold

`AuthWF` alone is not an invariant of `add_authoritative_resource`: registering a record for which an
equal one (same name, class, RDATA) is cached keeps the *cached* key of the `HashMap` and turns its
value into `Authoritative` (`HashMap::insert`), so TTL and cache-flush bit of the registered entry
are those that came from the network. What came from the network came out of `Packet::parse`, whose
results satisfy `RR.WFcore` (Lemmas/ParseImage.lean): `StoreFits` carries that along. -/

/-- every stored record, registered or cached, is in the image of the parser (`RR.WFcore`:
well-formed but for the size of the re-encoded RDATA) -/
def CoreWF (s : Store) : Prop := ∀ k b, (k, b) ∈ s.entries → ∀ e ∈ b, e.1.WFcore

/-- the registered records are well-formed and the cached ones are in the image of the parser -/
structure StoreFits (s : Store) : Prop where
  auth : AuthWF s
  core : CoreWF s

/-- a well-formed record is in particular in the image of the parser's predicate -/
theorem wfcore_of_wf {r : RR} (h : r.WF) : r.WFcore := ((RR.WF_iff r).mp h).1

/-- a stored record in the parser's image that equals (name, class, RDATA) a well-formed record is
well-formed: TTL and cache-flush bit are the only fields that may differ -/
theorem wf_of_rrEq {x r : RR} (hx : x.WFcore) (hr : r.WF) (he : rrEq x r = true) : x.WF := by
  rw [RR.WF_iff]
  refine ⟨hx, ?_⟩
  rw [(rrEq_iff.mp he).2.2]
  exact ((RR.WF_iff r).mp hr).2

/-- the operations a service performs on its store with values that fit: registered records
well-formed (`add_resource`, `ServiceDiscovery::new`), cached records out of the parser -/
def Op.Fits : Op → Prop
  | .addAuth r => r.WF
  | .addCached r _ => r.WFcore
  | _ => True

instance (op : Op) : Decidable op.Fits := by cases op <;> unfold Op.Fits <;> infer_instance

/-- `ResourceRecordManager::new()`: nothing stored -/
theorem StoreFits.empty : StoreFits Store.empty :=
  ⟨by simp [AuthWF, Store.empty], by simp [CoreWF, Store.empty]⟩

/-- the registered records of the bucket `add_*_resource` looks up (or of the empty one) are well-formed -/
theorem AuthWF.getD {s : Store} (h : AuthWF s) (k : Key) :
    ∀ r, (r, Kind.auth) ∈ (s.bucket k).getD [] → r.WF := by
  cases hb : s.bucket k with
  | none => simp
  | some b => exact h k b (Store.bucket_mem hb)

/-- the records of the bucket `add_*_resource` looks up (or of the empty one) are in the parser's image -/
theorem CoreWF.getD {s : Store} (h : CoreWF s) (k : Key) :
    ∀ e ∈ (s.bucket k).getD [], e.1.WFcore := by
  cases hb : s.bucket k with
  | none => simp
  | some b => exact h k b (Store.bucket_mem hb)

/-- writing back a bucket whose registered records are well-formed and whose records are in the
parser's image keeps `StoreFits` -/
theorem StoreFits.setBucket {s : Store} (h : StoreFits s) {k : Key} {b : Bucket}
    (ha : ∀ r, (r, Kind.auth) ∈ b → r.WF) (hc : ∀ e ∈ b, e.1.WFcore) :
    StoreFits (s.setBucket k b) := by
  refine ⟨?_, ?_⟩
  · intro k' b' hm
    rcases Store.mem_setBucket hm with hm | hm
    · cases hm; exact ha
    · exact h.auth k' b' hm.1
  · intro k' b' hm
    rcases Store.mem_setBucket hm with hm | hm
    · cases hm; exact hc
    · exact h.core k' b' hm.1

/-- **`add_authoritative_resource` of a well-formed record** keeps the registered records
well-formed -/
theorem StoreFits.addAuth {s : Store} (h : StoreFits s) {r : RR} (hr : r.WF) :
    StoreFits (s.addAuth r) := by
  unfold Store.addAuth
  apply h.setBucket
  · intro x hx
    rcases Bucket.mem_insert hx with hx | ⟨_, he, hx | ⟨k', hx⟩⟩
    · exact h.auth.getD _ x hx.1
    · simp only at hx; rw [hx]; exact hr
    · exact wf_of_rrEq (h.core.getD _ _ hx) hr he
  · intro e he
    rcases Bucket.mem_insert he with he | ⟨_, _, he | ⟨k', he⟩⟩
    · exact h.core.getD _ e he.1
    · rw [he]; exact wfcore_of_wf hr
    · exact h.core.getD _ (e.1, k') he

/-- **`add_cached_resource`** never adds to the registered records (cached records are not
authoritative; a registered record is never replaced by what the network says) -/
theorem StoreFits.addCached {s : Store} (h : StoreFits s) {r : RR} (hr : r.WFcore) (now : Nat) :
    StoreFits (s.addCached r now) := by
  unfold Store.addCached
  simp only
  split
  · exact h
  · apply h.setBucket
    · intro x hx
      rcases Bucket.mem_insert hx with hx | ⟨hk, _⟩
      · exact h.auth.getD _ x hx.1
      · cases hk
    · intro e he
      rcases Bucket.mem_insert he with he | ⟨_, _, he | ⟨k', he⟩⟩
      · exact h.core.getD _ e he.1
      · rw [he]; exact hr
      · exact h.core.getD _ (e.1, k') he

/-- `add_cached_resource` keeps `AuthWF` whatever is cached -/
theorem AuthWF.addCached {s : Store} (h : AuthWF s) (r : RR) (now : Nat) :
    AuthWF (s.addCached r now) := by
  unfold Store.addCached
  simp only
  split
  · exact h
  · intro k' b' hm
    rcases Store.mem_setBucket hm with hm | hm
    · cases hm
      intro x hx
      rcases Bucket.mem_insert hx with hx | ⟨hk, _⟩
      · exact h.getD _ x hx.1
      · cases hk
    · exact h k' b' hm.1

/-- `remove_resource_record` -/
theorem StoreFits.remove {s : Store} (h : StoreFits s) (r : RR) : StoreFits (s.remove r) := by
  unfold Store.remove
  simp only
  split
  · rename_i b hb
    have hm := Store.bucket_mem hb
    apply h.setBucket
    · intro x hx; exact h.auth _ b hm x (Bucket.mem_remove.mp hx).1
    · intro e he; exact h.core _ b hm e (Bucket.mem_remove.mp he).1
  · exact h

/-- `remove_resource_record` keeps `AuthWF` (it only removes) -/
theorem AuthWF.remove {s : Store} (h : AuthWF s) (r : RR) : AuthWF (s.remove r) := by
  unfold Store.remove
  simp only
  split
  · rename_i b hb
    have hm := Store.bucket_mem hb
    intro k' b' hm'
    rcases Store.mem_setBucket hm' with hm' | hm'
    · cases hm'
      intro x hx; exact h _ b hm x (Bucket.mem_remove.mp hx).1
    · exact h k' b' hm'.1
  · exact h

/-- `clear` -/
theorem StoreFits.clear (s : Store) : StoreFits s.clear := StoreFits.empty

/-- `clear` keeps `AuthWF` -/
theorem AuthWF.clear (s : Store) : AuthWF s.clear := StoreFits.empty.auth

/-- each of the four store operations, on values that fit, keeps `StoreFits` -/
theorem StoreFits.apply {s : Store} (h : StoreFits s) {op : Op} (hop : op.Fits) :
    StoreFits (s.apply op) := by
  cases op with
  | addAuth r => exact h.addAuth hop
  | addCached r now => exact h.addCached hop now
  | remove r => exact h.remove r
  | clear => exact StoreFits.clear s

/-- … and so does any sequence of them -/
theorem StoreFits.run {s : Store} (h : StoreFits s) {ops : List Op} (hops : ∀ op ∈ ops, op.Fits) :
    StoreFits (s.run ops) := by
  induction ops generalizing s with
  | nil => exact h
  | cons op ops ih =>
    exact ih (h.apply (hops op (by simp))) (fun o ho => hops o (by simp [ho]))

/-- **A responder store**: whatever sequence of `add_resource` (of well-formed records),
`remove_resource_record` and `clear` built it, its registered records are well-formed. -/
theorem authWF_of_ops {ops : List Op} (hops : ∀ op ∈ ops, op.Fits) :
    AuthWF (Store.empty.run ops) := (StoreFits.empty.run hops).auth

/-- the suggested "`AuthWF` is preserved by `addAuth` of a well-formed record" is false without
`CoreWF`: a cached record with a TTL of 2³² (no parser produces it) is turned into a registered one
by registering an equal, well-formed record -/
example : ∃ (s : Store) (r : RR), AuthWF s ∧ r.WF ∧ ¬ AuthWF (s.addAuth r) := by
  refine ⟨⟨[(getKey C14Ex.nA, [({ C14Ex.recA with ttl := 2 ^ 32 }, .cached 0 0)])]⟩, C14Ex.recA,
    ?_, by decide, ?_⟩
  · intro k b hk r hr
    simp only [List.mem_singleton, Prod.mk.injEq] at hk
    obtain ⟨_, rfl⟩ := hk
    simp at hr
  · intro h
    have := h (getKey C14Ex.nA) [({ C14Ex.recA with ttl := 2 ^ 32 }, .auth)] (by decide)
      { C14Ex.recA with ttl := 2 ^ 32 } (by simp)
    revert this
    decide

/-- the cached records of a response are in the image of the parser -/
theorem ingestOps_fits {d : Bytes} {p : Packet} (h : Packet.parse d = .ok p) (service full : Name)
    (now : Nat) : ∀ op ∈ ingestOps p service full now, op.Fits := by
  have hc := (Img.packet_ok h).1
  intro op hop
  obtain ⟨r, hr, rfl⟩ := List.mem_map.mp hop
  rcases List.mem_append.mp (List.mem_filter.mp hr).1 with hr | hr
  · exact hc.2.2.2.2.2.2.1 r hr
  · exact hc.2.2.2.2.2.2.2.2.1 r hr

/-- **`add_response_to_resources` keeps `AuthWF`**, for every packet -/
theorem AuthWF.ingest {s : Store} (h : AuthWF s) (p : Packet) (service full : Name) (now : Nat) :
    AuthWF (ingest p service full s now) := by
  unfold Mdns.ingest
  generalize (p.answers ++ p.additional).filter _ = rs
  induction rs generalizing s with
  | nil => exact h
  | cons r rs ih => exact ih (h.addCached r now)

/-- **Every datagram keeps `StoreFits`** in the discovery listener -/
theorem StoreFits.datagram {s s' : Store} {service full : Name} {d : Bytes} {now : Nat}
    {r : Option Bytes} (hF : StoreFits s) (h : handleDiscovery s service full d now = .ok (s', r)) :
    StoreFits s' := by
  rcases handleDiscovery_store h with rfl | ⟨p, hp, _, _, rfl⟩
  · exact hF
  · exact hF.run (ingestOps_fits hp service full now)

/-- … and `AuthWF` -/
theorem AuthWF.datagram {s s' : Store} {service full : Name} {d : Bytes} {now : Nat}
    {r : Option Bytes} (hF : AuthWF s) (h : handleDiscovery s service full d now = .ok (s', r)) :
    AuthWF s' := by
  rcases handleDiscovery_store h with rfl | ⟨p, hp, _, _, rfl⟩
  · exact hF
  · rw [← ingest_eq_run]; exact hF.ingest p service full now

/-! #### the number of registered records grows only by registering -/

/-- the registered entries of a bucket -/
def authLen (b : Bucket) : Nat := (b.filter (fun x => (Filter.auth true).matches x.2 0)).length

/-- the number of registered records is the sum over the keys of the registered entries of their buckets -/
theorem authCount_eq_sum (s : Store) :
    authCount s = (s.entries.map (fun e => authLen e.2)).sum := by
  unfold authCount authRecords authLen
  rw [List.length_flatMap]
  simp only [List.length_map]

/-- list form of `authCount_setBucket_le`: with one entry per key, replacing the bucket of a present
key `k` by `b` changes a sum over the buckets by `f b - f (old bucket)` -/
theorem sum_replace_le {l : List (Key × Bucket)} (hp : l.Pairwise (fun a c => a.1 ≠ c.1)) (k : Key)
    (b : Bucket) (f : Bucket → Nat) (c : Nat) (hany : l.any (·.1 == k) = true)
    (hb : f b ≤ f (((l.find? (·.1 == k)).map (·.2)).getD []) + c) :
    ((l.map (fun e => if e.1 == k then (k, b) else e)).map (fun e => f e.2)).sum ≤
      (l.map (fun e => f e.2)).sum + c := by
  induction l with
  | nil => simp at hany
  | cons hd tl ih =>
    rw [List.pairwise_cons] at hp
    by_cases hk : (hd.1 == k) = true
    · have hid : tl.map (fun e => if (e.1 == k) = true then (k, b) else e) = tl := by
        conv => rhs; rw [← List.map_id tl]
        apply List.map_congr_left
        intro e he
        have : hd.1 ≠ e.1 := hp.1 e he
        have hk' : hd.1 = k := by simpa using hk
        have : (e.1 == k) = false := by
          rw [← hk']; simpa using fun h => this h.symm
        simp [this]
      simp only [List.find?_cons, hk, Option.map_some, Option.getD_some] at hb
      simp only [List.map_cons, hk, if_true, hid, List.sum_cons]
      omega
    · have hk' : (hd.1 == k) = false := by simpa using hk
      simp only [List.find?_cons, hk'] at hb
      simp only [List.any_cons, hk', Bool.false_or] at hany
      have := ih hp.2 hany hb
      simp only [List.map_cons, hk', Bool.false_eq_true, if_false, List.sum_cons]
      omega

/-- replacing the bucket of one key changes the number of registered records by what the bucket
gained -/
theorem authCount_setBucket_le {s : Store} (hI : Inv s) (k : Key) (b : Bucket) (c : Nat)
    (hb : authLen b ≤ authLen ((s.bucket k).getD []) + c) :
    authCount (s.setBucket k b) ≤ authCount s + c := by
  rw [authCount_eq_sum, authCount_eq_sum]
  unfold Store.setBucket
  split
  · rename_i hany
    exact sum_replace_le hI.keys k b authLen c hany hb
  · rename_i hany
    have hnone : s.bucket k = none := by
      rw [Store.bucket_eq_none]
      intro e he hek
      apply hany
      rw [List.any_eq_true]
      exact ⟨e, he, by simpa using hek⟩
    rw [hnone] at hb
    simp only [Option.getD_none] at hb
    have h0 : authLen [] = 0 := rfl
    simp only [List.map_append, List.sum_append, List.map_cons, List.map_nil, List.sum_cons,
      List.sum_nil]
    omega

/-- registered entries of a concatenation -/
theorem authLen_append (a b : Bucket) : authLen (a ++ b) = authLen a + authLen b := by
  simp [authLen, List.filter_append]

/-- one more entry, at most one more registered entry -/
theorem authLen_cons_le (e : RR × Kind) (b : Bucket) : authLen (e :: b) ≤ authLen b + 1 := by
  unfold authLen
  rw [List.filter_cons]
  split <;> simp

/-- one more entry, no fewer registered entries -/
theorem authLen_le_cons (e : RR × Kind) (b : Bucket) : authLen b ≤ authLen (e :: b) := by
  unfold authLen
  rw [List.filter_cons]
  split <;> simp

/-- mapping entries so that none starts to satisfy `p` does not lengthen the `p`-filtered list -/
theorem filter_map_length_le {α : Type} (p : α → Bool) (f : α → α) (l : List α)
    (h : ∀ a, p (f a) = true → p a = true) : ((l.map f).filter p).length ≤ (l.filter p).length := by
  induction l with
  | nil => simp
  | cons a l ih =>
    simp only [List.map_cons, List.filter_cons]
    have h1 := h a
    cases hf : p (f a) <;> cases ha : p a
    · simpa using ih
    · simp only [Bool.false_eq_true, if_false, if_true, List.length_cons]; omega
    · rw [hf, ha] at h1; exact absurd (h1 rfl) (by decide)
    · simp only [if_true, List.length_cons]; omega

/-- the `map` branch of `HashMap::insert` with value `Authoritative`: at most one stored key equals
the new one (bucket without duplicates), so at most one entry changes -/
theorem authLen_map_auth {b : Bucket} (hp : b.Pairwise (fun a c => rrEq a.1 c.1 = false)) (r : RR) :
    authLen (b.map (fun e => if rrEq e.1 r = true then (e.1, Kind.auth) else e)) ≤ authLen b + 1 := by
  induction b with
  | nil => simp [authLen]
  | cons hd tl ih =>
    rw [List.pairwise_cons] at hp
    by_cases hr : rrEq hd.1 r = true
    · have hid : tl.map (fun e => if rrEq e.1 r = true then (e.1, Kind.auth) else e) = tl := by
        conv => rhs; rw [← List.map_id tl]
        apply List.map_congr_left
        intro e he
        have h1 := hp.1 e he
        have : rrEq e.1 r = false := by
          cases h2 : rrEq e.1 r with
          | false => rfl
          | true => rw [rrEq_trans hr (rrEq_symm h2)] at h1; cases h1
        simp [this]
      simp only [List.map_cons, hr, if_true, hid]
      have h1 := authLen_cons_le (hd.1, Kind.auth) tl
      have h2 := authLen_le_cons hd tl
      omega
    · have := ih hp.2
      have hr' : rrEq hd.1 r = false := by simpa using hr
      simp only [List.map_cons, hr', Bool.false_eq_true, if_false]
      unfold authLen at this ⊢
      rw [List.filter_cons, List.filter_cons]
      cases hm : (Filter.auth true).matches hd.2 0
      · simpa using this
      · simp only [if_true, List.length_cons]; omega

/-- `HashMap::insert` of a registered value adds at most one registered entry: at most one stored
key equals the new one -/
theorem authLen_insert_auth {b : Bucket} (hp : b.Pairwise (fun a c => rrEq a.1 c.1 = false))
    (r : RR) : authLen (b.insert r .auth) ≤ authLen b + 1 := by
  unfold Bucket.insert
  split
  · exact authLen_map_auth hp r
  · rw [authLen_append]
    have : authLen [(r, Kind.auth)] = 1 := rfl
    omega

/-- `HashMap::insert` of a cached value adds no registered entry -/
theorem authLen_insert_cached (b : Bucket) (r : RR) (x y : Nat) :
    authLen (b.insert r (.cached x y)) ≤ authLen b := by
  unfold Bucket.insert
  split
  · unfold authLen
    apply filter_map_length_le
    intro a
    split
    · intro h; cases h
    · exact id
  · rw [authLen_append]
    have : authLen [(r, Kind.cached x y)] = 0 := rfl
    omega

/-- `HashMap::remove` adds no registered entry -/
theorem authLen_remove (b : Bucket) (r : RR) : authLen (b.remove r) ≤ authLen b := by
  unfold authLen Bucket.remove
  exact (List.Sublist.filter _ List.filter_sublist).length_le

/-- `add_authoritative_resource`: at most one more registered record -/
theorem authCount_addAuth {s : Store} (hI : Inv s) (r : RR) :
    authCount (s.addAuth r) ≤ authCount s + 1 :=
  authCount_setBucket_le hI _ _ 1 (authLen_insert_auth (hI.getD_nodup _) r)

/-- `add_cached_resource`: no more registered records -/
theorem authCount_addCached {s : Store} (hI : Inv s) (r : RR) (now : Nat) :
    authCount (s.addCached r now) ≤ authCount s := by
  unfold Store.addCached
  simp only
  split
  · exact Nat.le_refl _
  · exact authCount_setBucket_le hI _ _ 0 (authLen_insert_cached _ r _ _)

/-- `remove_resource_record`: no more registered records -/
theorem authCount_remove {s : Store} (hI : Inv s) (r : RR) :
    authCount (s.remove r) ≤ authCount s := by
  unfold Store.remove
  simp only
  split
  · rename_i b hb
    refine authCount_setBucket_le hI _ _ 0 ?_
    rw [hb]
    exact authLen_remove b r
  · exact Nat.le_refl _

/-- `clear`: no registered record left -/
theorem authCount_clear (s : Store) : authCount s.clear = 0 := rfl

/-- the `add_authoritative_resource` calls of a run -/
def Op.isAddAuth : Op → Bool
  | .addAuth _ => true
  | _ => false

/-- **The number of registered records is at most the number of `add_authoritative_resource`
calls** (plus what was there) -/
theorem authCount_run {s : Store} (hI : Inv s) (ops : List Op) :
    authCount (s.run ops) ≤ authCount s + ops.countP Op.isAddAuth := by
  induction ops generalizing s with
  | nil => simp
  | cons op ops ih =>
    have h1 := ih (hI.apply op)
    rw [Store.run_cons, List.countP_cons]
    cases op with
    | addAuth r => have := authCount_addAuth hI r; simp [Store.apply, Op.isAddAuth] at h1 ⊢; omega
    | addCached r now =>
      have := authCount_addCached hI r now; simp [Store.apply, Op.isAddAuth] at h1 ⊢; omega
    | remove r => have := authCount_remove hI r; simp [Store.apply, Op.isAddAuth] at h1 ⊢; omega
    | clear => have := authCount_clear s; simp [Store.apply, Op.isAddAuth] at h1 ⊢; omega

/-! #### the stores of the two services -/

/-- the service PTR record `ServiceDiscovery::new` registers first -/
def ptrRecord (service full : Name) : RR :=
  { name := service, cls := .IN, ttl := 0, rdata := .flat 12 [.name full], flush := false }

/-- the PTR record is well-formed when the service name and the instance name are -/
theorem ptrRecord_wf {service full : Name} (hs : Name.WF service) (hf : Name.WF full) :
    (ptrRecord service full).WF := by
  refine ⟨hs, (by decide : (0 : Nat) < 2 ^ 32), ⟨?_, rfl, ?_⟩, trivial⟩
  · simp only [SchemaOK, schemaOf, AllOK, FieldOK]
    exact ⟨hf, trivial⟩
  · simp only [RData.writtenLen, RData.write, schemaOf, flatCheck, if_true, encAll, encField,
      Name.write_length, List.append_nil]
    have := hf.2
    omega

/-- `ServiceDiscovery::new` as a run of `add_authoritative_resource` calls -/
theorem discoveryInit_eq_run (service full : Name) (own : List RR) :
    discoveryInit service full own =
      Store.empty.run (Op.addAuth (ptrRecord service full) :: own.map Op.addAuth) := by
  unfold discoveryInit Store.run
  rw [List.foldl_cons, List.foldl_map]
  rfl

/-- a run of `add_authoritative_resource` calls, one per record -/
theorem countP_isAddAuth_map (own : List RR) : (own.map Op.addAuth).countP Op.isAddAuth = own.length := by
  induction own with
  | nil => rfl
  | cons r rs ih => simp [List.countP_cons, Op.isAddAuth, ih]

/-- **The store `ServiceDiscovery::new` starts from**: built from well-formed names and
well-formed records of the own instance it satisfies the store invariant, its registered records are
well-formed, and there are at most (own records + 1) of them. -/
theorem discoveryInit_fits {service full : Name} {own : List RR} (hs : Name.WF service)
    (hf : Name.WF full) (hown : ∀ r ∈ own, r.WF) :
    Inv (discoveryInit service full own) ∧ StoreFits (discoveryInit service full own) ∧
    authCount (discoveryInit service full own) ≤ own.length + 1 := by
  rw [discoveryInit_eq_run]
  refine ⟨Inv.empty.run _, StoreFits.empty.run ?_, ?_⟩
  · intro op hop
    rcases List.mem_cons.mp hop with rfl | hop
    · exact ptrRecord_wf hs hf
    · obtain ⟨r, hr, rfl⟩ := List.mem_map.mp hop
      exact hown r hr
  · have := authCount_run Inv.empty (Op.addAuth (ptrRecord service full) :: own.map Op.addAuth)
    rw [List.countP_cons, countP_isAddAuth_map] at this
    have h0 : authCount Store.empty = 0 := rfl
    simp only [Op.isAddAuth, if_true] at this
    omega

/-- `discoveryInit_authWF`: the form asked for -/
theorem discoveryInit_authWF {service full : Name} {own : List RR} (hs : Name.WF service)
    (hf : Name.WF full) (hown : ∀ r ∈ own, r.WF) : AuthWF (discoveryInit service full own) :=
  (discoveryInit_fits hs hf hown).2.1.auth

/-- the records `InstanceInformation::into_records` makes of an instance within the limits of
`InstanceFits` (Props/C15.lean) are well-formed; one per address, one per port, one TXT record -/
theorem instance_records_wf {full : Name} {ips : List (Bool × Nat)} {ports : List Nat}
    {attrs : Attrs} {ttl : Nat} {rs : List RR} (hm : MapOK attrs)
    (hfit : InstanceFits full ips ports attrs ttl)
    (hrs : intoRecords full ips ports attrs ttl = .ok rs) :
    (∀ r ∈ rs, r.WF) ∧ rs.length = ips.length + ports.length + 1 := by
  rw [intoRecords_ok _ _ _ _ _ hm.2.2] at hrs
  cases hrs
  refine ⟨(announce_wf hm hfit).2.2.2.2.2.2.1, ?_⟩
  simp only [instRecords, List.length_append, List.length_map, List.length_cons, List.length_nil]
  omega

/-- **`ServiceDiscovery::new` on an instance that fits**: the registered records are well-formed,
and there are (addresses + ports + 2) of them at most. -/
theorem discoveryInit_instance_fits {service full : Name} {ips : List (Bool × Nat)}
    {ports : List Nat} {attrs : Attrs} {ttl : Nat} {rs : List RR} (hs : Name.WF service)
    (hm : MapOK attrs) (hfit : InstanceFits full ips ports attrs ttl)
    (hrs : intoRecords full ips ports attrs ttl = .ok rs) :
    Inv (discoveryInit service full rs) ∧ StoreFits (discoveryInit service full rs) ∧
    authCount (discoveryInit service full rs) ≤ ips.length + ports.length + 2 := by
  obtain ⟨hwf, hlen⟩ := instance_records_wf hm hfit hrs
  obtain ⟨h1, h2, h3⟩ := discoveryInit_fits hs hfit.hname hwf
  exact ⟨h1, h2, by omega⟩

/-- the stores a discovery service goes through: the initial one, then one step per datagram
(`handleDiscovery`) or per `remove_service_from_discovery` (`clear`) -/
inductive DiscoveryReach (service full : Name) (s0 : Store) : Store → Prop
  | start : DiscoveryReach service full s0 s0
  | datagram {s s' : Store} {d : Bytes} {now : Nat} {r : Option Bytes} :
      DiscoveryReach service full s0 s → handleDiscovery s service full d now = .ok (s', r) →
      DiscoveryReach service full s0 s'
  | clear {s : Store} : DiscoveryReach service full s0 s → DiscoveryReach service full s0 s.clear

/-- `add_response_to_resources` performs no `add_authoritative_resource` -/
theorem ingestOps_no_addAuth (p : Packet) (service full : Name) (now : Nat) :
    (ingestOps p service full now).countP Op.isAddAuth = 0 := by
  rw [List.countP_eq_zero]
  intro op hop
  obtain ⟨r, _, rfl⟩ := List.mem_map.mp hop
  simp [Op.isAddAuth]

/-- **What every datagram preserves**: store invariant, well-formed registered records, and the
number of registered records does not grow. -/
theorem DiscoveryReach.fits {service full : Name} {s0 s : Store} (hI : Inv s0) (hF : StoreFits s0)
    (h : DiscoveryReach service full s0 s) : Inv s ∧ StoreFits s ∧ authCount s ≤ authCount s0 := by
  induction h with
  | start => exact ⟨hI, hF, Nat.le_refl _⟩
  | @datagram s s' d now r _ hstep ih =>
    obtain ⟨i1, i2, i3⟩ := ih
    refine ⟨store_usable i1 hstep, i2.datagram hstep, ?_⟩
    rcases handleDiscovery_store hstep with rfl | ⟨p, _, _, _, rfl⟩
    · exact i3
    · have := authCount_run i1 (ingestOps p service full now)
      rw [ingestOps_no_addAuth] at this
      omega
  | clear _ ih => exact ⟨Inv.clear _, StoreFits.clear _, by rw [authCount_clear]; omega⟩

/-- **C14 for the discovery service, hypotheses on its construction only.** A `ServiceDiscovery`
created for a well-formed service name from an instance within the limits of `InstanceFits`
(admissible attribute map), after any sequence of datagrams and `remove_service_from_discovery`
calls: if it answers a datagram `d`, and ((length of `d` − 12) / 5) × (addresses + ports + 2) is
below 65 536, the reply is a parseable DNS message, the packet `build_reply` assembled. -/
theorem discovery_reply_parseable {service full : Name} {ips : List (Bool × Nat)}
    {ports : List Nat} {attrs : Attrs} {ttl : Nat} {rs : List RR} {s s' : Store} {d : Bytes}
    {now : Nat} {bytes : Bytes} (hs : Name.WF service) (hm : MapOK attrs)
    (hfit : InstanceFits full ips ports attrs ttl)
    (hrs : intoRecords full ips ports attrs ttl = .ok rs)
    (hreach : DiscoveryReach service full (discoveryInit service full rs) s)
    (hN : (d.length - 12) / 5 * (ips.length + ports.length + 2) < 65536)
    (h : handleDiscovery s service full d now = .ok (s', some bytes)) :
    ∃ p, Packet.parse bytes = .ok p ∧
      ∃ q u, Packet.parse d = .ok q ∧ buildReply q s now = some (p, u) := by
  obtain ⟨h1, h2, h3⟩ := discoveryInit_instance_fits hs hm hfit hrs
  obtain ⟨_, i2, i3⟩ := hreach.fits h1 h2
  apply reply_parseable_discovery h
  intro q hq
  apply replyFits_of_datagram i2.auth hq
  refine Nat.lt_of_le_of_lt (Nat.mul_le_mul_left _ ?_) hN
  omega

/-- **… with the numbers of the code**: receive buffer of 9000 bytes, an instance with at most 34
addresses and ports together (34 + 2 = 36 registered records; 1797 · 36 < 65 536). -/
theorem discovery_reply_parseable_9000 {service full : Name} {ips : List (Bool × Nat)}
    {ports : List Nat} {attrs : Attrs} {ttl : Nat} {rs : List RR} {s s' : Store} {d : Bytes}
    {now : Nat} {bytes : Bytes} (hs : Name.WF service) (hm : MapOK attrs)
    (hfit : InstanceFits full ips ports attrs ttl)
    (hrs : intoRecords full ips ports attrs ttl = .ok rs)
    (hreach : DiscoveryReach service full (discoveryInit service full rs) s)
    (hd : d.length ≤ 9000) (hsmall : ips.length + ports.length ≤ 34)
    (h : handleDiscovery s service full d now = .ok (s', some bytes)) :
    ∃ p, Packet.parse bytes = .ok p ∧
      ∃ q u, Packet.parse d = .ok q ∧ buildReply q s now = some (p, u) := by
  refine discovery_reply_parseable hs hm hfit hrs hreach ?_ h
  have h1 : (d.length - 12) / 5 ≤ 1797 := by omega
  have h2 : ips.length + ports.length + 2 ≤ 36 := by omega
  have := Nat.mul_le_mul h1 h2
  omega

/-- **C14 for the responder, hypotheses on its construction only.** A `SimpleMdnsResponder` whose
store was built by `add_resource` of well-formed records, `remove_resource_record` and `clear`, in
any order: if it answers a datagram `d`, and ((length of `d` − 12) / 5) × (number of `add_resource`
calls) is below 65 536, the reply is a parseable DNS message. -/
theorem responder_reply_parseable_of_ops {ops : List Op} {d : Bytes} {now : Nat} {bytes : Bytes}
    (hops : ∀ op ∈ ops, op.Fits)
    (hN : (d.length - 12) / 5 * ops.countP Op.isAddAuth < 65536)
    (h : handleResponder (Store.empty.run ops) d now = .ok (some bytes)) :
    ∃ p, Packet.parse bytes = .ok p ∧
      ∃ q u, Packet.parse d = .ok q ∧ buildReply q (Store.empty.run ops) now = some (p, u) := by
  apply reply_parseable h
  intro q hq
  apply replyFits_of_datagram (authWF_of_ops hops) hq
  refine Nat.lt_of_le_of_lt (Nat.mul_le_mul_left _ ?_) hN
  have := authCount_run Inv.empty ops
  have h0 : authCount Store.empty = 0 := rfl
  omega

/-- … with the numbers of the code: 9000-byte buffer, at most 36 `add_resource` calls -/
theorem responder_reply_parseable_9000 {ops : List Op} {d : Bytes} {now : Nat} {bytes : Bytes}
    (hops : ∀ op ∈ ops, op.Fits) (hd : d.length ≤ 9000) (hsmall : ops.countP Op.isAddAuth ≤ 36)
    (h : handleResponder (Store.empty.run ops) d now = .ok (some bytes)) :
    ∃ p, Packet.parse bytes = .ok p := by
  have hN : (d.length - 12) / 5 * ops.countP Op.isAddAuth < 65536 := by
    have h1 : (d.length - 12) / 5 ≤ 1797 := by omega
    have := Nat.mul_le_mul h1 hsmall
    omega
  obtain ⟨p, hp, _⟩ := responder_reply_parseable_of_ops hops hN h
  exact ⟨p, hp⟩

namespace C14FitsEx
open C15Ex

/-- the hypotheses of `discovery_reply_parseable_9000` on the instance of C15
(`printer._http._tcp.local`, one address, one port, three attributes): the listener built from it has
well-formed registered records, four of them at most -/
example : StoreFits (discoveryInit service (printer :: service) rs) ∧
    authCount (discoveryInit service (printer :: service) rs) ≤ 4 :=
  (discoveryInit_instance_fits (by decide) attrs_ok fits into_records).2

/-- the query `_http._tcp.local ANY IN` -/
def dquery : Packet :=
  { header := { id := 7, opcode := .StandardQuery, rcode := .NoError, flags := 0, opt := none },
    questions := [{ name := service, qtype := .ANY, qclass := .CLASS .IN, unicast := false }],
    answers := [], nameServers := [], additional := [] }

def dqbytes : Bytes :=
  [0, 7, 0, 0, 0, 1, 0, 0, 0, 0, 0, 0, 5, 95, 104, 116, 116, 112, 4, 95, 116, 99, 112, 5, 108, 111,
   99, 97, 108, 0, 0, 255, 0, 1]

/-- the listener's reply: the service PTR, the instance's A, SRV and TXT records, the A record again
as additional record of the SRV answer -/
def drbytes : Bytes :=
  [0, 7, 128, 0, 0, 0, 0, 4, 0, 0, 0, 1, 5, 95, 104, 116, 116, 112, 4, 95, 116, 99, 112, 5, 108, 111,
   99, 97, 108, 0, 0, 12, 0, 1, 0, 0, 0, 0, 0, 10, 7, 112, 114, 105, 110, 116, 101, 114, 192, 12,
   192, 40, 0, 1, 0, 1, 0, 0, 0, 120, 0, 4, 192, 168, 0, 1,
   192, 40, 0, 33, 0, 1, 0, 0, 0, 120, 0, 32, 0, 0, 0, 0, 31, 144, 7, 112, 114, 105, 110, 116, 101,
   114, 5, 95, 104, 116, 116, 112, 4, 95, 116, 99, 112, 5, 108, 111, 99, 97, 108, 0,
   192, 40, 0, 16, 0, 1, 0, 0, 0, 120, 0, 9, 3, 97, 61, 49, 1, 98, 2, 99, 61,
   192, 40, 0, 1, 0, 1, 0, 0, 0, 120, 0, 4, 192, 168, 0, 1]

/-- the datagram is the query -/
theorem dqbytes_parse : Packet.parse dqbytes = .ok dquery := by
  obtain ⟨b, hb, hp⟩ := compressed_transparent dquery (by decide)
  have : dquery.buildCompressed = .ok dqbytes := by decide +kernel
  rw [this] at hb; cases hb; exact hp

/-- a discovery service for `printer._http._tcp.local` answers it, byte for byte -/
theorem discovery_reply :
    handleDiscovery (discoveryInit service (printer :: service) rs) service (printer :: service)
      dqbytes 5 = .ok (discoveryInit service (printer :: service) rs, some drbytes) := by
  have hf : dquery.header.hasFlags 0x8000 = false := by decide
  have hs : sendReply (buildReply dquery (discoveryInit service (printer :: service) rs) 5) =
      .ok (some drbytes) := by decide +kernel
  unfold handleDiscovery
  rw [dqbytes_parse]
  simp only [hf, hs, Bool.false_eq_true, if_false]

/-- the hypotheses of `discovery_reply_parseable_9000` are met by that run: the reply parses -/
example : ∃ p, Packet.parse drbytes = .ok p :=
  let ⟨p, hp, _⟩ := discovery_reply_parseable_9000 (by decide) attrs_ok fits into_records
    DiscoveryReach.start (by decide) (by decide) discovery_reply
  ⟨p, hp⟩

/-- `DiscoveryReach.fits` after a datagram: the listener of C15 that has ingested the printer's
announcement still has well-formed registered records, one of them -/
example : StoreFits (ingest (announce rs) service own (discoveryInit service own []) 1000) ∧
    authCount (ingest (announce rs) service own (discoveryInit service own []) 1000) ≤ 1 := by
  obtain ⟨h1, h2, h3⟩ := discoveryInit_fits (service := service) (full := own) (own := [])
    (by decide) (by decide) (by simp)
  have hreach := DiscoveryReach.datagram .start
    (handleDiscovery_response (s := discoveryInit service own []) (service := service) (full := own)
      (now := 1000) wire_parses (by decide))
  obtain ⟨_, i2, i3⟩ := hreach.fits h1 h2
  exact ⟨i2, by simp only [List.length_nil] at h3; omega⟩

/-- the hypotheses of `responder_reply_parseable_9000` on the responder of C14: its reply parses -/
example : ∃ p, Packet.parse C14Ex.rbytes = .ok p :=
  responder_reply_parseable_9000 (ops := [.addAuth C14Ex.recA, .addAuth C14Ex.srvB])
    (by decide) (by decide) (by decide) C14Ex.responder_reply

end C14FitsEx

/-! ### 4. the size of the reply is not bounded by the size of the query

Sections 1 and 2 bound the *number* of records of a reply by the number of questions. Nothing bounds
its *size* in bytes beyond that: every question for a registered name costs the querier 6 bytes (a
compression pointer, type, class) and the responder a full copy of the record data. -/

/-- `Name::compress_append` appends at least one byte -/
theorem compressName_length_pos (n : Name) (off : Nat) (t : Table) :
    1 ≤ (compressName n off t).1.length := by
  cases n with
  | nil => simp [compressName]
  | cons l rest => simp only [compressName]; split <;> simp

/-- a name with at least one label takes at least two bytes, compressed (a pointer) or not -/
theorem nameG_length_ge_two (c : Bool) (l : Label) (rest : Name) (off : Nat) (t : Table) :
    2 ≤ (nameG c (l :: rest) off t).1.length := by
  unfold nameG
  split
  · simp only [compressName]
    split
    · simp
    · have := compressName_length_pos rest (off + 1 + l.length)
        (if off ≤ 0x3FFF then (l :: rest, off) :: t else t)
      simp only [List.length_cons, List.length_append]
      omega
  · have := Name.write_length_pos rest
    simp only [Name.write, List.length_cons, List.length_append]
    omega

/-- TYPE, CLASS and TTL: 8 bytes -/
theorem rr_writeCommon_length (r : RR) : r.writeCommon.length = 8 := by
  unfold RR.writeCommon
  split <;> simp

/-- **A record with opaque RDATA (`NULL`, or a type the library does not know) is written as its
name, 10 bytes of fixed fields and its data, in both writers**: compression does not shrink it below
(data + 12) bytes when the owner name is not the root. -/
theorem rr_writeG_null_length {c : Bool} {r : RR} {code : Nat} {data : Bytes}
    (hrd : r.rdata = .null code data) {off : Nat} {t : Table} {b : Bytes} {t' : Table}
    (h : r.writeG c off t = .ok (b, t')) :
    b.length = (nameG c r.name off t).1.length + 10 + data.length := by
  unfold RR.writeG at h
  simp only [hrd, RData.writeG, RData.write, Out.bind_ok, Out.pure_eq] at h
  cases h
  simp only [List.length_append, rr_writeCommon_length, beN_length]
  omega

/-- … hence at least (data + 12) bytes when the owner has a label -/
theorem rr_writeG_null_length_ge {c : Bool} {r : RR} {code : Nat} {data : Bytes} {l : Label}
    {rest : Name} (hrd : r.rdata = .null code data) (hn : r.name = l :: rest) {off : Nat}
    {t : Table} {b : Bytes} {t' : Table} (h : r.writeG c off t = .ok (b, t')) :
    data.length + 12 ≤ b.length := by
  rw [rr_writeG_null_length hrd h, hn]
  have := nameG_length_ge_two c l rest off t
  omega

/-- a record section is at least as long as the copies of one record in it -/
theorem writeRRsG_length_ge_count {c : Bool} (a : RR) (m : Nat)
    (ha : ∀ off t b t', a.writeG c off t = .ok (b, t') → m ≤ b.length) (rs : List RR) :
    ∀ (off : Nat) (t : Table) (b : Bytes) (t' : Table), writeRRsG c rs off t = .ok (b, t') →
      rs.count a * m ≤ b.length := by
  induction rs with
  | nil => intro off t b t' _; simp
  | cons r rs ih =>
    intro off t b t' h
    simp only [writeRRsG] at h
    obtain ⟨⟨b1, t1⟩, h1, h⟩ := Out.bind_eq_ok h
    dsimp only at h
    obtain ⟨⟨b2, t2⟩, h2, h⟩ := Out.bind_eq_ok h
    cases h
    have i2 := ih _ _ _ _ h2
    rw [List.count_cons, List.length_append]
    by_cases hra : r = a
    · subst hra
      have i1 := ha _ _ _ _ h1
      simp only [beq_self_eq_true, if_true, Nat.add_mul, Nat.one_mul]
      omega
    · have : (r == a) = false := by simpa using hra
      simp only [this, Bool.false_eq_true, if_false, Nat.add_zero]
      omega

/-- `Packet::write_header`: 12 bytes -/
theorem writeHeader_length (p : Packet) : p.writeHeader.length = 12 := by
  simp [Packet.writeHeader, Header.write]

/-- a message is at least its header and the copies of one record in its answer section -/
theorem buildG_length_ge_count {c : Bool} {p : Packet} {b : Bytes} (h : p.buildG c = .ok b)
    (a : RR) (m : Nat) (ha : ∀ off t b t', a.writeG c off t = .ok (b, t') → m ≤ b.length) :
    12 + p.answers.count a * m ≤ b.length := by
  unfold Packet.buildG at h
  dsimp only at h
  obtain ⟨⟨an, t1⟩, han, h⟩ := Out.bind_eq_ok h
  dsimp only at h
  obtain ⟨⟨ns, t2⟩, _, h⟩ := Out.bind_eq_ok h
  dsimp only at h
  obtain ⟨o, _, h⟩ := Out.bind_eq_ok h
  obtain ⟨⟨ar, t3⟩, _, h⟩ := Out.bind_eq_ok h
  cases h
  have := writeRRsG_length_ge_count a m ha _ _ _ _ _ han
  simp only [List.length_append, writeHeader_length]
  omega

/-- **The reply holds one full copy of a registered opaque record per matching question**: for a
registered record `a` with `ℓ` bytes of opaque data and a non-root owner, the serialised reply to
`q` is at least 12 + (questions of `q` matching `a`) · (ℓ + 12) bytes long. -/
theorem reply_length_ge {q : Packet} {s : Store} {now : Nat} {r : Packet} {u : Bool} {b : Bytes}
    (hI : Inv s) {a : RR} {code : Nat} {data : Bytes} {l : Label} {rest : Name}
    (ha : s.hasAuth a) (hrd : a.rdata = .null code data) (hn : a.name = l :: rest)
    (h : buildReply q s now = some (r, u)) (hb : r.buildCompressed = .ok b) :
    12 + q.questions.countP (matchesQuestion s a) * (data.length + 12) ≤ b.length := by
  rw [← (answer_multiplicity hI h ha).1]
  exact buildG_length_ge_count hb a _ (fun _ _ _ _ hw => rr_writeG_null_length_ge hrd hn hw)

/-- **A reply that cannot be sent, from any query with enough matching questions**: if the
responder answers `d` at all, and 12 + (matching questions) · (ℓ + 12) exceeds the largest UDP
payload, `send_to` fails whatever the network does; the loop of the code before fix 4185208 ends,
the repaired one goes on without sending. -/
theorem reply_unsendable {q : Packet} {s : Store} {d : Bytes} {now : Nat} {b : Bytes} (hI : Inv s)
    {a : RR} {code : Nat} {data : Bytes} {l : Label} {rest : Name} (ha : s.hasAuth a)
    (hrd : a.rdata = .null code data) (hn : a.name = l :: rest) (hq : Packet.parse d = .ok q)
    (hbig : udpMaxPayload < 12 + q.questions.countP (matchesQuestion s a) * (data.length + 12))
    (h : handleResponder s d now = .ok (some b)) (envOk : Bool) :
    sendTo b envOk = false ∧ responderIteration .propagate s d now envOk = .ok .ends ∧
    responderIteration responderSendPolicy s d now envOk = .ok (.continues none) := by
  obtain ⟨q', r, u, hq', hr, hb⟩ := handleResponder_some h
  rw [hq] at hq'
  cases hq'
  have hlen := reply_length_ge hI ha hrd hn hr hb
  have hs : sendTo b envOk = false := (sendTo_false_iff b envOk).mpr (.inr (by omega))
  refine ⟨hs, responder_loop_propagate_ends h hs, ?_⟩
  unfold responderIteration responderSendPolicy
  rw [h]
  simp [hs]

/-- a question whose name is already in the suffix table costs 6 bytes: pointer, type, class; the
table is left as it was -/
theorem writeQuestionsG_replicate_hit (qu : Question) {l : Label} {rest : Name}
    (hn : qu.name = l :: rest) {t : Table} {p : Nat} (hf : Table.find t (l :: rest) = some p)
    (n off : Nat) :
    writeQuestionsG true (List.replicate n qu) off t =
      ((List.replicate n (beN 2 (p ||| 0xC000) ++ qu.writeCommon)).flatten, t) := by
  induction n generalizing off with
  | zero => rfl
  | succ n ih =>
    have h1 : qu.writeG true off t = (beN 2 (p ||| 0xC000) ++ qu.writeCommon, t) := by
      simp only [Question.writeG, nameG, if_true, hn, compressName, hf]
    rw [List.replicate_succ, writeQuestionsG, h1]
    simp only [ih, List.replicate_succ, List.flatten_cons]

/-- QTYPE and QCLASS: 4 bytes -/
theorem question_writeCommon_length (qu : Question) : qu.writeCommon.length = 4 := by
  simp [Question.writeCommon]

/-- `n` copies of `x`, concatenated -/
theorem length_flatten_replicate {α : Type} (n : Nat) (x : List α) :
    (List.replicate n x).flatten.length = n * x.length := by
  induction n with
  | zero => simp
  | succ n ih => rw [List.replicate_succ, List.flatten_cons, List.length_append, ih, Nat.succ_mul]; omega

namespace C14FitsEx

/-- `a.local NULL <data>`: a registered record with opaque data -/
def bigRec (data : Bytes) : RR :=
  { name := C14Ex.nA, cls := .IN, ttl := 120, rdata := .null 10 data, flush := false }

/-- a responder with that one record -/
def bigStore (data : Bytes) : Store := Store.empty.addAuth (bigRec data)

/-- the question `a.local ANY IN` -/
def bigQ : Question := { name := C14Ex.nA, qtype := .ANY, qclass := .CLASS .IN, unicast := false }

/-- the query asking it `n` times -/
def bigQuery (n : Nat) : Packet :=
  { header := { id := 7, opcode := .StandardQuery, rcode := .NoError, flags := 0, opt := none },
    questions := List.replicate n bigQ, answers := [], nameServers := [], additional := [] }

/-- the store after the one `add_resource`: one key, one registered record -/
theorem bigStore_entries (data : Bytes) :
    (bigStore data).entries = [(getKey C14Ex.nA, [(bigRec data, Kind.auth)])] := rfl

/-- it satisfies the store invariant -/
theorem bigStore_inv (data : Bytes) : Inv (bigStore data) := Inv.empty.addAuth _

/-- the record is registered -/
theorem bigStore_hasAuth (data : Bytes) : (bigStore data).hasAuth (bigRec data) :=
  ⟨getKey C14Ex.nA, [(bigRec data, Kind.auth)], by rw [bigStore_entries]; simp, by simp⟩

/-- the record is well-formed for 1 to 65 535 bytes of data -/
theorem bigRec_wf {data : Bytes} (h1 : 1 ≤ data.length) (h2 : data.length ≤ 65535) :
    (bigRec data).WF := by
  refine ⟨(by decide : Name.WF C14Ex.nA), (by decide : (120 : Nat) < 2 ^ 32), ?_, trivial⟩
  refine ⟨?_, h2, by decide, .inl rfl⟩
  intro h
  rw [h] at h1
  simp at h1

/-- … so the store's registered records are -/
theorem bigStore_authWF {data : Bytes} (h1 : 1 ≤ data.length) (h2 : data.length ≤ 65535) :
    AuthWF (bigStore data) :=
  authWF_of_ops (ops := [.addAuth (bigRec data)])
    (by intro op hop; simp only [List.mem_singleton] at hop; subst hop; exact bigRec_wf h1 h2)

/-- one registered record -/
theorem bigStore_count (data : Bytes) : authCount (bigStore data) ≤ 1 :=
  authCount_run Inv.empty [.addAuth (bigRec data)]

/-- the question matches the record, whatever the data -/
theorem bigQ_matches (data : Bytes) : matchesQuestion (bigStore data) (bigRec data) bigQ = true := by
  have h1 : (bigStore data).nodeExists (getKey bigQ.name) = true := by
    apply Store.nodeExists_of_mem (b := [(bigRec data, Kind.auth)])
    rw [bigStore_entries]
    exact List.mem_singleton.mpr rfl
  have h2 : isPrefixOf (getKey bigQ.name) (getKey (bigRec data).name) = true := by
    show isPrefixOf (getKey C14Ex.nA) (getKey C14Ex.nA) = true
    decide
  have h3 : (bigRec data).matchQClass bigQ.qclass = true := by
    show matchQClass CLASS.IN (.CLASS .IN) = true
    decide
  have h4 : (bigRec data).matchQType bigQ.qtype = true := rfl
  simp only [matchesQuestion, h1, h2, h3, h4, Bool.and_self]

/-- the query is within DNS limits up to 65 535 questions -/
theorem bigQuery_wf {n : Nat} (hn : n ≤ 65535) : (bigQuery n).WF := by
  refine ⟨?_, ?_, by simp [bigQuery], by simp [bigQuery], by simp [bigQuery], ?_,
    by simp [bigQuery], by simp [bigQuery], by simp [bigQuery], by simp [bigQuery]⟩
  · show (bigQuery 0).header.WF
    decide
  · simpa [bigQuery] using hn
  · intro qu hqu
    simp only [bigQuery] at hqu
    rw [(List.mem_replicate.mp hqu).2]
    decide

/-- the first question in full (13 bytes), its name recorded at offset 12 -/
theorem bigQ_first : bigQ.writeG true 12 [] =
    ([1, 97, 5, 108, 111, 99, 97, 108, 0, 0, 255, 0, 1],
     [([C14Ex.lbl], 14), (C14Ex.nA, 12)]) := by decide

/-- **The query on the wire: 19 + 6·n bytes for n ≥ 1 questions** (12 of header, 13 for the first
question, 6 for every further one) -/
theorem bigQuery_bytes (n : Nat) :
    ∃ d, (bigQuery (n + 1)).buildCompressed = .ok d ∧ d.length = 19 + 6 * (n + 1) := by
  have hq : writeQuestionsG true (List.replicate (n + 1) bigQ) 12 [] =
      ([1, 97, 5, 108, 111, 99, 97, 108, 0, 0, 255, 0, 1] ++
        (List.replicate n (beN 2 (12 ||| 0xC000) ++ bigQ.writeCommon)).flatten,
       [([C14Ex.lbl], 14), (C14Ex.nA, 12)]) := by
    rw [List.replicate_succ, writeQuestionsG, bigQ_first]
    simp only
    rw [writeQuestionsG_replicate_hit bigQ (l := [97]) (rest := [C14Ex.lbl]) rfl (p := 12)
      (by decide)]
  have hb : (bigQuery (n + 1)).buildCompressed = .ok ((bigQuery (n + 1)).writeHeader ++
      ([1, 97, 5, 108, 111, 99, 97, 108, 0, 0, 255, 0, 1] ++
        (List.replicate n (beN 2 (12 ||| 0xC000) ++ bigQ.writeCommon)).flatten)) := by
    unfold Packet.buildCompressed Packet.buildG
    simp only [writeHeader_length]
    have e : (bigQuery (n + 1)).questions = List.replicate (n + 1) bigQ := rfl
    rw [e, hq]
    simp only [bigQuery, writeRRsG, Header.optRR, Option.map_none, Option.toList_none, writeRRs,
      Out.bind_ok, Out.pure_eq, List.append_nil]
  refine ⟨_, hb, ?_⟩
  · simp only [List.length_append, writeHeader_length, length_flatten_replicate, beN_length,
      question_writeCommon_length, List.length_cons, List.length_nil]
    omega

/-- the datagram parses to the query -/
theorem bigQuery_parse {n : Nat} (hn : n + 1 ≤ 65535) :
    ∃ d, Packet.parse d = .ok (bigQuery (n + 1)) ∧ d.length = 19 + 6 * (n + 1) := by
  obtain ⟨d, hd, hlen⟩ := bigQuery_bytes n
  obtain ⟨b, hb, hp⟩ := compressed_transparent _ (bigQuery_wf hn)
  rw [hd] at hb
  cases hb
  exact ⟨d, hp, hlen⟩

/-- **`reply_size_unbounded`.** For a responder holding one record with `ℓ` bytes of opaque data,
and every `n` from 1 to 65 535, there is a query datagram of 19 + 6·n bytes that the responder
answers with a datagram of at least 12 + n·(ℓ + 12) bytes: 6 bytes of query buy ℓ + 12 bytes of
reply. -/
theorem reply_size_unbounded (data : Bytes) (h1 : 1 ≤ data.length) (h2 : data.length ≤ 65535)
    (n : Nat) (hn1 : 1 ≤ n) (hn2 : n ≤ 65535) (now : Nat) :
    ∃ d b, d.length = 19 + 6 * n ∧ Packet.parse d = .ok (bigQuery n) ∧
      handleResponder (bigStore data) d now = .ok (some b) ∧
      12 + n * (data.length + 12) ≤ b.length := by
  obtain ⟨m, rfl⟩ : ∃ m, n = m + 1 := ⟨n - 1, by omega⟩
  obtain ⟨d, hp, hlen⟩ := bigQuery_parse hn2
  have hI := bigStore_inv data
  have hA := bigStore_hasAuth data
  have hcount : (bigQuery (m + 1)).questions.countP (matchesQuestion (bigStore data) (bigRec data))
      = m + 1 := by
    simp only [bigQuery, List.countP_replicate, bigQ_matches, if_true]
  -- the reply exists
  have hmem : bigRec data ∈ answersOf (bigQuery (m + 1)) (bigStore data) now := by
    rw [mem_answersOf]
    refine ⟨bigQ, by simp [bigQuery], ?_⟩
    exact mem_answersFor.mp ((mem_answersFor_iff_matches hI hA bigQ now).mpr (bigQ_matches data))
  obtain ⟨r, u, hr, _⟩ := buildReply_isSome_of_mem hmem
  -- it is within DNS limits, so it is serialised
  have hfits : ReplyFits (bigStore data) (bigQuery (m + 1)) now := by
    apply replyFits_of_mul (bigStore_authWF h1 h2)
    have := bigStore_count data
    have h3 : (bigQuery (m + 1)).questions.length = m + 1 := by simp [bigQuery]
    rw [h3]
    have := Nat.mul_le_mul_left (m + 1) this
    omega
  obtain ⟨b, hb, _⟩ := compressed_transparent r (reply_wf (parsed_id_lt hp) hfits hr)
  have hresp : handleResponder (bigStore data) d now = .ok (some b) := by
    unfold handleResponder
    rw [peek_hasFlags_of_parse hp]
    have : (bigQuery (m + 1)).header.hasFlags 0x8000 = false := by
      show (bigQuery 0).header.hasFlags 0x8000 = false
      decide
    simp only [this, hp, hr, sendReply, hb]
  refine ⟨d, b, hlen, hp, hresp, ?_⟩
  have := reply_length_ge hI hA (code := 10) (data := data) rfl (l := [97]) (rest := [C14Ex.lbl])
    rfl hr hb
  rw [hcount] at this
  exact this

/-- **With 250 bytes of record data: 262 bytes of reply per question** -/
theorem reply_size_unbounded_250 (data : Bytes) (hdata : data.length = 250) (n : Nat)
    (hn1 : 1 ≤ n) (hn2 : n ≤ 65535) (now : Nat) :
    ∃ d b, d.length = 19 + 6 * n ∧ handleResponder (bigStore data) d now = .ok (some b) ∧
      12 + 262 * n ≤ b.length := by
  obtain ⟨d, b, h1, _, h3, h4⟩ :=
    reply_size_unbounded data (by omega) (by omega) n hn1 hn2 now
  refine ⟨d, b, h1, h3, ?_⟩
  rw [hdata] at h4
  omega

/-- **The failed-send branch of the responder loop is reachable from one small datagram.** A
responder holding one record with 250 bytes of data receives a query of 250 questions for its name
(1519 bytes, far below the 9000 bytes of the receive buffer): the reply has at least 65 512 bytes,
more than the 65 507 a UDP datagram carries, so `send_to` fails on a perfectly working network. The
loop of the code before fix 4185208 (`?` on the send) ends; the repaired loop goes on, sending
nothing. -/
theorem failed_send_reachable (data : Bytes) (hdata : data.length = 250) (now : Nat) :
    ∃ d, d.length = 1519 ∧ d.length < 9000 ∧
      (∃ b, handleResponder (bigStore data) d now = .ok (some b) ∧ udpMaxPayload < b.length ∧
        sendTo b true = false) ∧
      responderIteration .propagate (bigStore data) d now true = .ok .ends ∧
      responderIteration responderSendPolicy (bigStore data) d now true = .ok (.continues none) := by
  obtain ⟨d, b, hlen, hp, hresp, hb⟩ :=
    reply_size_unbounded data (by omega) (by omega) 250 (by decide) (by decide) now
  have hcount : (bigQuery 250).questions.countP (matchesQuestion (bigStore data) (bigRec data))
      = 250 := by
    simp only [bigQuery, List.countP_replicate, bigQ_matches, if_true]
  have hbig : udpMaxPayload < 12 + (bigQuery 250).questions.countP
      (matchesQuestion (bigStore data) (bigRec data)) * (data.length + 12) := by
    rw [hcount, hdata]; decide
  obtain ⟨hs, hends, hgo⟩ := reply_unsendable (bigStore_inv data) (bigStore_hasAuth data)
    (code := 10) (data := data) rfl (l := [97]) (rest := [C14Ex.lbl]) rfl hp hbig hresp true
  refine ⟨d, by omega, by omega, ⟨b, hresp, ?_, hs⟩, hends, hgo⟩
  rw [hdata] at hb
  unfold udpMaxPayload
  omega

/-- the hypothesis on `data` is satisfiable: 250 zero bytes -/
example : (List.replicate 250 (0 : UInt8)).length = 250 := List.length_replicate ..

end C14FitsEx

/-! ### 5. what is actually sent needs no bound on counts

Every record takes at least 11 bytes on the wire (one of name, ten of fixed fields), compressed or
not. A reply that `send_to` accepts has at most 65 507 bytes, hence fewer than 5955 records: the
count bounds of `ReplyFits` hold of every reply that leaves the machine. A reply whose counts would
wrap is one that cannot be sent (section 4). -/

/-- a name takes at least one byte in both writers -/
theorem nameG_length_pos (c : Bool) (n : Name) (off : Nat) (t : Table) :
    1 ≤ (nameG c n off t).1.length := by
  unfold nameG
  split
  · exact compressName_length_pos n off t
  · exact Name.write_length_pos n

/-- **Every record takes at least 11 bytes**, in both writers -/
theorem rr_writeG_length_ge {c : Bool} {r : RR} {off : Nat} {t : Table} {b : Bytes} {t' : Table}
    (h : r.writeG c off t = .ok (b, t')) : 11 ≤ b.length := by
  unfold RR.writeG at h
  obtain ⟨⟨rd, t2⟩, _, h⟩ := Out.bind_eq_ok h
  cases h
  have := nameG_length_pos c r.name off t
  simp only [List.length_append, rr_writeCommon_length, beN_length]
  omega

/-- a record section takes at least 11 bytes per record -/
theorem writeRRsG_length_ge {c : Bool} (rs : List RR) :
    ∀ (off : Nat) (t : Table) (b : Bytes) (t' : Table), writeRRsG c rs off t = .ok (b, t') →
      11 * rs.length ≤ b.length := by
  induction rs with
  | nil => intro off t b t' _; simp
  | cons r rs ih =>
    intro off t b t' h
    simp only [writeRRsG] at h
    obtain ⟨⟨b1, t1⟩, h1, h⟩ := Out.bind_eq_ok h
    dsimp only at h
    obtain ⟨⟨b2, t2⟩, h2, h⟩ := Out.bind_eq_ok h
    cases h
    have i1 := rr_writeG_length_ge h1
    have i2 := ih _ _ _ _ h2
    simp only [List.length_append, List.length_cons]
    omega

/-- **A message is at least 12 + 11 · (records) bytes long** -/
theorem buildG_length_ge {c : Bool} {p : Packet} {b : Bytes} (h : p.buildG c = .ok b) :
    12 + 11 * (p.answers.length + p.nameServers.length + p.additional.length) ≤ b.length := by
  unfold Packet.buildG at h
  dsimp only at h
  obtain ⟨⟨an, t1⟩, han, h⟩ := Out.bind_eq_ok h
  dsimp only at h
  obtain ⟨⟨ns, t2⟩, hns, h⟩ := Out.bind_eq_ok h
  dsimp only at h
  obtain ⟨o, _, h⟩ := Out.bind_eq_ok h
  obtain ⟨⟨ar, t3⟩, har, h⟩ := Out.bind_eq_ok h
  cases h
  have i1 := writeRRsG_length_ge _ _ _ _ _ han
  have i2 := writeRRsG_length_ge _ _ _ _ _ hns
  have i3 := writeRRsG_length_ge _ _ _ _ _ har
  simp only [List.length_append, writeHeader_length]
  omega

/-- **`ReplyFits` of every reply that fits a datagram**: well-formed registered records are all it
takes -/
theorem replyFits_of_sendable {s : Store} {q : Packet} {now : Nat} {r : Packet} {u : Bool}
    {b : Bytes} (hwf : AuthWF s) (hr : buildReply q s now = some (r, u))
    (hb : r.buildCompressed = .ok b) (hlen : b.length ≤ udpMaxPayload) : ReplyFits s q now := by
  obtain ⟨_, han, har, _⟩ := buildReply_eq_some hr
  have := buildG_length_ge hb
  rw [han, har] at this
  unfold udpMaxPayload at hlen
  exact ⟨hwf, by omega, by omega⟩

/-- **Whatever the responder sends is a parseable DNS message** — the packet `build_reply`
assembled — as soon as its registered records are well-formed: no hypothesis on the query, the
number of records or the size of anything. -/
theorem sent_reply_parseable {pol : OnSendError} {s : Store} {d : Bytes} {now : Nat} {envOk : Bool}
    {b : Bytes} (hwf : AuthWF s)
    (h : responderIteration pol s d now envOk = .ok (.continues (some b))) :
    ∃ p, Packet.parse b = .ok p ∧
      ∃ q u, Packet.parse d = .ok q ∧ buildReply q s now = some (p, u) := by
  obtain ⟨hresp, hlen⟩ := responder_sends_reply h
  obtain ⟨q, r, u, hq, hr, hb⟩ := handleResponder_some hresp
  have hf := replyFits_of_sendable hwf hr hb hlen
  obtain ⟨b', hb', hp⟩ := compressed_transparent r (reply_wf (parsed_id_lt hq) hf hr)
  rw [hb] at hb'
  cases hb'
  exact ⟨r, hp, q, u, hq, hr⟩

/-- … for a responder described by how it was built -/
theorem sent_reply_parseable_of_ops {pol : OnSendError} {ops : List Op} {d : Bytes} {now : Nat}
    {envOk : Bool} {b : Bytes} (hops : ∀ op ∈ ops, op.Fits)
    (h : responderIteration pol (Store.empty.run ops) d now envOk = .ok (.continues (some b))) :
    ∃ p, Packet.parse b = .ok p :=
  let ⟨p, hp, _⟩ := sent_reply_parseable (authWF_of_ops hops) h
  ⟨p, hp⟩

/-- the same for the discovery service built from an instance that fits, with the size of the
datagram as the hypothesis (`handleDiscovery` returns the bytes; the send is `sendTo`) -/
theorem discovery_sent_reply_parseable {service full : Name} {ips : List (Bool × Nat)}
    {ports : List Nat} {attrs : Attrs} {ttl : Nat} {rs : List RR} {s s' : Store} {d : Bytes}
    {now : Nat} {bytes : Bytes} (hs : Name.WF service) (hm : MapOK attrs)
    (hfit : InstanceFits full ips ports attrs ttl)
    (hrs : intoRecords full ips ports attrs ttl = .ok rs)
    (hreach : DiscoveryReach service full (discoveryInit service full rs) s)
    (h : handleDiscovery s service full d now = .ok (s', some bytes))
    (hsend : sendTo bytes true = true) :
    ∃ p, Packet.parse bytes = .ok p ∧
      ∃ q u, Packet.parse d = .ok q ∧ buildReply q s now = some (p, u) := by
  obtain ⟨h1, h2, _⟩ := discoveryInit_instance_fits hs hm hfit hrs
  obtain ⟨_, i2, _⟩ := hreach.fits h1 h2
  obtain ⟨q, r, u, hq, hr, hb⟩ := handleDiscovery_some h
  have hlen : bytes.length ≤ udpMaxPayload := by
    unfold sendTo at hsend
    simpa using hsend
  have hf := replyFits_of_sendable i2.auth hr hb hlen
  obtain ⟨b', hb', hp⟩ := compressed_transparent r (reply_wf (parsed_id_lt hq) hf hr)
  rw [hb] at hb'
  cases hb'
  exact ⟨r, hp, q, u, hq, hr⟩

namespace C14FitsEx

/-- the hypotheses of `sent_reply_parseable_of_ops` are met by the responder run of C14 -/
example : ∃ p, Packet.parse C14Ex.rbytes = .ok p :=
  sent_reply_parseable_of_ops (pol := .log) (ops := [.addAuth C14Ex.recA, .addAuth C14Ex.srvB])
    (d := C14Ex.qbytes) (now := 5) (envOk := true) (by decide)
    (by
      show responderIteration .log C14Ex.st C14Ex.qbytes 5 true = _
      unfold responderIteration
      rw [C14Ex.responder_reply]
      decide)

end C14FitsEx

/-! ### 6. 36 registered records is the best bound on counts for 9000-byte datagrams

The root name takes one byte, so 1797 questions `. ANY ANY` fit 8997 bytes; every registered record
of every name answers each of them. -/

/-- dropping the empty groups (`get_domain_resources`) does not change the number of records -/
theorem length_flatten_filter_nonempty {α : Type} (L : List (List α)) :
    ((L.filter (fun g => !g.isEmpty)).flatten).length = L.flatten.length := by
  induction L with
  | nil => rfl
  | cons g L ih =>
    cases g with
    | nil => simpa using ih
    | cons a g => simp [ih]

/-- `. ANY ANY` -/
def rootQ : Question := { name := [], qtype := .ANY, qclass := .ANY, unicast := false }

/-- the query asking it `n` times -/
def rootQuery (n : Nat) : Packet :=
  { header := { id := 7, opcode := .StandardQuery, rcode := .NoError, flags := 0, opt := none },
    questions := List.replicate n rootQ, answers := [], nameServers := [], additional := [] }

/-- `get_domain_resources` at the root, with subdomains: every registered record of the store -/
theorem getDomain_root_length (s : Store) (now : Nat) :
    (s.getDomain [] (Filter.auth true) now).flatten.length = authCount s := by
  unfold Store.getDomain
  have hk : getKey ([] : Name) = [] := rfl
  have hn : s.nodeExists [] = true := rfl
  have hs : (Filter.auth true).subdomain = true := rfl
  have hall : s.entries.filter (fun e => isPrefixOf [] e.1) = s.entries :=
    List.filter_eq_self.mpr (fun e _ => rfl)
  simp only [hk, hs, hn, if_true, hall]
  rw [length_flatten_filter_nonempty]
  unfold authCount authRecords
  simp only [Filter.auth_matches_eq true]
  rw [List.flatMap_def]

/-- **Every registered record answers the root question** -/
theorem answersFor_root_length (s : Store) (now : Nat) :
    (answersFor s rootQ now).1.length = authCount s := by
  have hfilter : ∀ l : List RR,
      l.filter (fun r => r.matchQClass rootQ.qclass && r.matchQType rootQ.qtype) = l :=
    fun l => List.filter_eq_self.mpr (fun r _ => rfl)
  simp only [answersFor]
  rw [hfilter]
  exact getDomain_root_length s now

/-- `n` root questions: `n` times all registered records -/
theorem answersOf_root_length (s : Store) (now n : Nat) :
    (answersOf (rootQuery n) s now).length = n * authCount s := by
  unfold answersOf
  simp only [rootQuery, List.map_replicate, List.flatMap_replicate]
  rw [length_flatten_replicate, answersFor_root_length]

/-- the root name is never compressed: every root question costs 5 bytes -/
theorem writeQuestionsG_replicate_root (n off : Nat) (t : Table) :
    writeQuestionsG true (List.replicate n rootQ) off t =
      ((List.replicate n ([0] ++ rootQ.writeCommon)).flatten, t) := by
  induction n generalizing off with
  | zero => rfl
  | succ n ih =>
    have h1 : rootQ.writeG true off t = ([0] ++ rootQ.writeCommon, t) := rfl
    rw [List.replicate_succ, writeQuestionsG, h1]
    simp only [ih, List.replicate_succ, List.flatten_cons]

/-- the query is within DNS limits up to 65 535 questions -/
theorem rootQuery_wf {n : Nat} (hn : n ≤ 65535) : (rootQuery n).WF := by
  refine ⟨?_, ?_, by simp [rootQuery], by simp [rootQuery], by simp [rootQuery], ?_,
    by simp [rootQuery], by simp [rootQuery], by simp [rootQuery], by simp [rootQuery]⟩
  · show (rootQuery 0).header.WF
    decide
  · simpa [rootQuery] using hn
  · intro qu hqu
    simp only [rootQuery] at hqu
    rw [(List.mem_replicate.mp hqu).2]
    decide

/-- `n` root questions on the wire: 12 + 5·n bytes, and they parse -/
theorem rootQuery_parse {n : Nat} (hn : n ≤ 65535) :
    ∃ d, Packet.parse d = .ok (rootQuery n) ∧ d.length = 12 + 5 * n := by
  have hb : (rootQuery n).buildCompressed = .ok ((rootQuery n).writeHeader ++
      (List.replicate n ([0] ++ rootQ.writeCommon)).flatten) := by
    unfold Packet.buildCompressed Packet.buildG
    simp only [writeHeader_length]
    have e : (rootQuery n).questions = List.replicate n rootQ := rfl
    rw [e, writeQuestionsG_replicate_root]
    simp only [rootQuery, writeRRsG, Header.optRR, Option.map_none, Option.toList_none, writeRRs,
      Out.bind_ok, Out.pure_eq, List.append_nil]
  obtain ⟨b, hb', hp⟩ := compressed_transparent _ (rootQuery_wf hn)
  rw [hb] at hb'
  cases hb'
  refine ⟨_, hp, ?_⟩
  simp only [List.length_append, writeHeader_length, length_flatten_replicate,
    question_writeCommon_length, List.length_cons, List.length_nil]
  omega

/-- **With 37 registered records the counts do overflow**: a datagram of 8997 bytes (1797 root
questions) asks for 1797 · 37 = 66 489 > 65 535 answers; `ReplyFits` fails, and so does any bound
on counts from the size of the receive buffer alone. (Such a reply has more than 65 507 bytes and
is never sent: section 5.) -/
theorem count_bound_tight (s : Store) (now : Nat) (h : 37 ≤ authCount s) :
    ∃ d q, d.length = 8997 ∧ d.length ≤ 9000 ∧ Packet.parse d = .ok q ∧
      q.questions.length = 1797 ∧ 65535 < (answersOf q s now).length ∧ ¬ ReplyFits s q now := by
  obtain ⟨d, hp, hlen⟩ := rootQuery_parse (n := 1797) (by decide)
  have hlen' : (answersOf (rootQuery 1797) s now).length = 1797 * authCount s :=
    answersOf_root_length s now 1797
  have hbig : 65535 < (answersOf (rootQuery 1797) s now).length := by
    rw [hlen']
    have := Nat.mul_le_mul_left 1797 h
    omega
  refine ⟨d, rootQuery 1797, by omega, by omega, hp, List.length_replicate .., hbig, ?_⟩
  intro hf
  have := hf.2.1
  omega

namespace C14FitsEx

/-- the hypothesis of `count_bound_tight` is satisfiable: a responder on which `add_resource` was
called for `a.local A 0.0.0.i`, i < 37 -/
def st37 : Store :=
  Store.empty.run ((List.range 37).map (fun i => Op.addAuth { C14Ex.recA with rdata := .flat 1 [.int i] }))

example : authCount st37 = 37 := by decide +kernel

end C14FitsEx

end Dns.Mdns
