/-
C10 — each record type's RDATA layout and type code follow its RFC.

The reference is Spec/RdataSchemas.lean: for each of the 38 types with a fixed
field sequence, the RFC's field list (names as in the RFC text) under its IANA
number, and a reference encoder (`Spec.encode`: integers most significant octet
first, <character-string>s with one length octet, uncompressed <domain-name>s,
trailing opaque data, (key, length, value) triples); IPSECKEY (RFC 4025) has
its own reference encoder, OPT's RDATA is RFC 6891's option list. The model
side is the table `schemaOf` driving the generic reader / writer `decAll` /
`encAll` (Model/RData.lean).

Contents
 1. `schema_matches_rfc`, `schema_only_rfc`, `iana_codes`: the model's table is the RFC table.
 2. `rfc_encoding`, `rfc_type_code`, `rfc_record`: serialising field values gives the reference
    encoding byte for byte, under the IANA number.
 3. `rfc_ipseckey`, `rfc_ipseckey_parse`, `rfc_opt_rdata`, `rfc_opt_rdata_parse`.
 4. `rfc_decode_field`, `rfc_parse`, `rfc_parse_record`: parsing the reference encoding gives
    the field values back (proved here from the field readers, independently of the round-trip
    files).
 5. `loc_version_rejected`, `unordered_triples_rejected`, `nsec_unordered_rejected`,
    `svcb_unordered_rejected`, `txt_overrun_rejected`, `triples_overrun_rejected`,
    `options_overrun_rejected`, …: encodings that break a structural rule are `Err`.

Not covered by the RFC table as written: RFC 1183 3.2 makes the ISDN sub-address <sa> optional;
the library reads and writes both strings always, and the layout row (like `schemaOf`) lists
both (known finding on ISDN without sub-address).
-/
import SimpleDnsModel.Lemmas.Rfc
namespace Dns

/-! ### 1. the model's table is the RFC table -/

/-- a field kind of the model reads/writes what the RFC field kind describes -/
def kindMatches : FKind → Spec.SKind → Bool
  | .int w, .uint w' => w == w'
  | .int w, .int32 => w == 4
  | .charstr, .characterString => true
  | .name _, .domainName => true
  | .rest, .opaqueRest => true
  | .strs, .characterStrings => true
  | .tlvs kw lw s, .triples kw' lw' s' => kw == kw' && lw == lw' && s == s'
  | _, _ => false

/-- a model field value as a value of the reference encoder -/
def Val.toSpec : Val → Spec.SVal
  | .int n => .num n
  | .bytes b => .octets b
  | .name n => .labels n
  | .strs ss => .strings ss
  | .tlvs xs => .triples xs

/-- the schema row of `l.code` has the RFC's fields, in the RFC's order, kind by kind -/
def rowMatches (l : Spec.Layout) : Bool :=
  match schemaOf l.code with
  | some ks =>
    ks.length == l.fields.length &&
      (List.zip ks (l.fields.map (·.2))).all (fun p => kindMatches p.1 p.2)
  | none => false

theorem rows_match : ∀ l ∈ Spec.layouts, rowMatches l = true := by decide

/-- Every RFC layout (38 rows) has a row in the model's table under the same type number, with
the same number of fields and matching kinds in the same order. -/
theorem schema_matches_rfc : ∀ l ∈ Spec.layouts, ∃ ks, schemaOf l.code = some ks ∧
    ks.length = l.fields.length ∧
    (List.zip ks (l.fields.map (·.2))).all (fun p => kindMatches p.1 p.2) = true := by
  intro l hl
  have h := rows_match l hl
  unfold rowMatches at h
  split at h
  · rename_i ks hks
    simp only [Bool.and_eq_true, beq_iff_eq] at h
    exact ⟨ks, hks, h.1, h.2⟩
  · cases h

/-- conversely, the model's table has no row the RFC table lacks -/
theorem schema_only_rfc (code : Nat) (ks : List FKind) (h : schemaOf code = some ks) :
    (Spec.layoutOf code).isSome = true := by
  unfold schemaOf at h
  split at h <;> first | (cases h; decide) | cases h

/-- the row found for a supported code, with its RFC layout -/
theorem schema_layout {code : Nat} {ks : List FKind} (h : schemaOf code = some ks) :
    ∃ l, Spec.layoutOf code = some l ∧ l ∈ Spec.layouts ∧ l.code = code ∧
      ks.length = l.fields.length ∧
      (List.zip ks (l.fields.map (·.2))).all (fun p => kindMatches p.1 p.2) = true := by
  have hsome := schema_only_rfc code ks h
  cases hl : Spec.layoutOf code with
  | none => rw [hl] at hsome; cases hsome
  | some l =>
    have hmem : l ∈ Spec.layouts := List.mem_of_find?_eq_some hl
    have hcode : l.code = code := by
      have := List.find?_some hl
      simpa using this
    obtain ⟨ks', hks', hlen, hall⟩ := schema_matches_rfc l hmem
    rw [hcode, h] at hks'
    cases hks'
    exact ⟨l, rfl, hmem, hcode, hlen, hall⟩

/-- each layout is filed under a type number the library knows (not `Unknown`) and writes back
unchanged: the 38 flat types, IPSECKEY (45) and OPT (41) -/
theorem iana_codes : ∀ l ∈ Spec.layouts,
    (TYPE.ofCode l.code).isUnknown = false ∧ (TYPE.ofCode l.code).toCode = l.code := by decide

theorem iana_code_ipseckey : TYPE.ofCode 45 = .IPSECKEY ∧ TYPE.IPSECKEY.toCode = 45 := by decide
theorem iana_code_opt : TYPE.ofCode 41 = .OPT ∧ TYPE.OPT.toCode = 41 := by decide

/-- the mnemonic under which the library files each number is the RFC's (RT is spelt
`RouteThrough` and NSAP-PTR `NSAP_PTR` in the library's enum) -/
theorem iana_mnemonics : ∀ l ∈ Spec.layouts,
    (TYPE.ofCode l.code).mnemonic = l.mnemonic ∨
    (l.mnemonic = "RT" ∧ TYPE.ofCode l.code = .RouteThrough) ∨
    (l.mnemonic = "NSAP-PTR" ∧ TYPE.ofCode l.code = .NSAP_PTR) := by decide

/-- every number round-trips through the library's `TYPE` (unknown numbers are kept) -/
theorem type_code_roundtrip (c : Nat) : (TYPE.ofCode c).toCode = c := Rfc.type_toCode_ofCode c

/-! ### 2. serialising RFC field values gives the RFC encoding -/

/-- one field: the model writer and the reference encoder agree on a value that fits the field -/
theorem encField_eq_rfc {k : FKind} {sk : Spec.SKind} {v : Val} (hm : kindMatches k sk = true)
    (hv : FieldOK k v) : encField k v = Spec.encodeField sk v.toSpec := by
  cases k <;> cases sk <;> simp only [kindMatches, Bool.false_eq_true] at hm <;>
    cases v <;> simp only [FieldOK] at hv
  · -- int / uint
    simp only [beq_iff_eq] at hm; subst hm
    simp [encField, Spec.encodeField, Val.toSpec, Rfc.beN_eq_octetsOf]
  · -- int 4 / int32
    simp only [beq_iff_eq] at hm; subst hm
    simp [encField, Spec.encodeField, Val.toSpec, Rfc.beN_eq_octetsOf]
  · simp [encField, Spec.encodeField, Val.toSpec, CharStr.write]
  · simp [encField, Spec.encodeField, Val.toSpec, Rfc.nameWrite_eq_encLabels]
  · simp [encField, Spec.encodeField, Val.toSpec]
  · -- TXT: at least one string, so the "no strings" special case is not taken
    rename_i ss
    have : ss.isEmpty = false := by
      cases ss with
      | nil => exact absurd rfl hv.1
      | cons _ _ => rfl
    simp [encField, Spec.encodeField, Val.toSpec, this, Rfc.encStrs_eq_encStrings]
  · -- triples: strictly increasing keys are already sorted
    rename_i kw lw strict kw' lw' strict' xs
    simp only [Bool.and_eq_true, beq_iff_eq] at hm
    obtain ⟨⟨rfl, rfl⟩, rfl⟩ := hm
    simp only [encField, Spec.encodeField, Val.toSpec]
    cases strict with
    | false => simp [Rfc.encTlvs_eq_encTriples]
    | true => simp [Rfc.sortByKey_of_increasing xs (hv.2 rfl), Rfc.encTlvs_eq_encTriples]

theorem encAll_eq_rfc (ks : List FKind) : ∀ (sks : List Spec.SKind) (vs : List Val),
    ks.length = sks.length → (List.zip ks sks).all (fun p => kindMatches p.1 p.2) = true →
    AllOK ks vs → encAll ks vs = Spec.encodeFields sks (vs.map Val.toSpec) := by
  induction ks with
  | nil =>
    intro sks vs hl _ _
    cases sks with
    | nil => simp [encAll, Spec.encodeFields]
    | cons _ _ => simp at hl
  | cons k ks ih =>
    intro sks vs hl hall hok
    cases sks with
    | nil => simp at hl
    | cons sk sks =>
      cases vs with
      | nil => simp [AllOK] at hok
      | cons v vs =>
        simp only [List.zip_cons_cons, List.all_cons, Bool.and_eq_true] at hall
        simp only [AllOK] at hok
        simp only [encAll, List.map_cons, Spec.encodeFields]
        rw [encField_eq_rfc hall.1 hok.1, ih sks vs (by simpa using hl) hall.2 hok.2]

/-- Serialising values that fit the fields of a supported type yields the reference RFC encoding
of those values, byte for byte. -/
theorem rfc_encoding {code : Nat} {ks : List FKind} {vs : List Val}
    (hs : schemaOf code = some ks) (hok : AllOK ks vs) (hc : flatCheck code vs = true) :
    RData.write (.flat code vs) = .ok (encAll ks vs) ∧
    Spec.encode code (vs.map Val.toSpec) = some (encAll ks vs) := by
  obtain ⟨l, hl, _, _, hlen, hall⟩ := schema_layout hs
  refine ⟨by simp [RData.write, hs, hc], ?_⟩
  simp only [Spec.encode, hl, Option.map_some]
  rw [encAll_eq_rfc ks _ vs (by simpa using hlen) hall hok]

/-- the same from the well-formedness predicate of the model -/
theorem rfc_encoding_of_WF {code : Nat} {vs : List Val} (h : (RData.flat code vs).WF) :
    ∃ bytes, RData.write (.flat code vs) = .ok bytes ∧
      Spec.encode code (vs.map Val.toSpec) = some bytes := by
  obtain ⟨hs, hc, _⟩ := h
  unfold SchemaOK at hs
  split at hs
  · rename_i ks hks
    exact ⟨_, rfc_encoding hks hs hc⟩
  · cases hs

/-- the record is written under the type's IANA number: the two TYPE octets -/
theorem rfc_type_code (r : RR) {code : Nat} {vs : List Val} (h : r.rdata = .flat code vs) :
    (RR.writeCommon r).take 2 = beN 2 code ∧ beN 2 code = Spec.octetsOf 2 code := by
  refine ⟨?_, Rfc.beN_eq_octetsOf 2 code⟩
  unfold RR.writeCommon
  rw [h]
  simp only [RData.typeOf, Rfc.type_toCode_ofCode]
  exact List.take_left' (by simp)

/-- the whole record: owner name, TYPE = the IANA number, CLASS (with the mDNS cache-flush bit),
TTL, RDLENGTH and the RFC encoding of the fields -/
theorem rfc_record {r : RR} {code : Nat} {ks : List FKind} {vs : List Val}
    (h : r.rdata = .flat code vs) (hs : schemaOf code = some ks) (hok : AllOK ks vs)
    (hc : flatCheck code vs = true) :
    ∃ rd, Spec.encode code (vs.map Val.toSpec) = some rd ∧
      RR.write r = .ok (Name.write r.name ++ (beN 2 code ++
        (beN 2 (if r.flush then r.cls.toCode ||| 0x8000 else r.cls.toCode) ++
          (beN 4 r.ttl ++ (beN 2 r.rdata.len ++ rd))))) := by
  obtain ⟨hw, he⟩ := rfc_encoding hs hok hc
  refine ⟨_, he, ?_⟩
  unfold RR.write RR.writeCommon
  rw [h, hw]
  simp [RData.typeOf, Rfc.type_toCode_ofCode]

/-! ### 3. IPSECKEY (RFC 4025) -/

def Gateway.toSpec : Gateway → Spec.GatewaySpec
  | .none => .none
  | .v4 a => .ipv4 a
  | .v6 a => .ipv6 a
  | .domain n => .name n

/-- precedence, gateway type, algorithm, gateway, public key — for all values (a number wider
than its field loses its high octets in the model and in the reference alike) -/
theorem rfc_ipseckey_any (prec alg : Nat) (gw : Gateway) (key : Bytes) :
    RData.write (.ipseckey prec alg gw key) =
      .ok (Spec.encodeIpseckey prec alg gw.toSpec key) := by
  cases gw <;>
    simp [RData.write, Spec.encodeIpseckey, Gateway.toSpec, Gateway.tag, Gateway.write,
      Spec.octetsOf, Rfc.beN_eq_octetsOf, Rfc.nameWrite_eq_encLabels, Rfc.ofNat_mod_256]

theorem rfc_ipseckey {prec alg : Nat} {gw : Gateway} {key : Bytes}
    (_h : (RData.ipseckey prec alg gw key).WF) :
    RData.write (.ipseckey prec alg gw key) =
      .ok (Spec.encodeIpseckey prec alg gw.toSpec key) :=
  rfc_ipseckey_any prec alg gw key

/-- IPSECKEY, parse direction: the reference encoding of well-formed values (RDATA of the whole
cut buffer after `pre`) reads back as those values -/
theorem rfc_ipseckey_parse {prec alg : Nat} {gw : Gateway} {key : Bytes} (pre : Bytes)
    (hp : prec < 256) (ha : alg < 256) (hg : gw.WF) :
    ipseckeyParse (pre ++ Spec.encodeIpseckey prec alg gw.toSpec key) pre.length
      = .ok (.ipseckey prec alg gw key,
          (pre ++ Spec.encodeIpseckey prec alg gw.toSpec key).length) := by
  have hpn : (UInt8.ofNat prec).toNat = prec := by simp [UInt8.toNat_ofNat']; omega
  have han : (UInt8.ofNat alg).toNat = alg := by simp [UInt8.toNat_ofNat']; omega
  have henc : Spec.encodeIpseckey prec alg gw.toSpec key
      = UInt8.ofNat prec :: UInt8.ofNat gw.tag :: UInt8.ofNat alg :: (gw.write ++ key) := by
    have := rfc_ipseckey_any prec alg gw key
    simp only [RData.write, Out.ok.injEq] at this
    exact this.symm
  rw [henc]
  generalize hd : pre ++ UInt8.ofNat prec :: UInt8.ofNat gw.tag :: UInt8.ofNat alg
    :: (gw.write ++ key) = d
  have i0 : idx d pre.length = .ok (UInt8.ofNat prec) :=
    Rfc.idx_at (a := pre) (z := UInt8.ofNat gw.tag :: UInt8.ofNat alg :: (gw.write ++ key))
      hd.symm rfl
  have i1 : idx d (pre.length + 1) = .ok (UInt8.ofNat gw.tag) :=
    Rfc.idx_at (a := pre ++ [UInt8.ofNat prec]) (z := UInt8.ofNat alg :: (gw.write ++ key))
      (by simp [← hd]) (by simp)
  have i2 : idx d (pre.length + 2) = .ok (UInt8.ofNat alg) :=
    Rfc.idx_at (a := pre ++ [UInt8.ofNat prec, UInt8.ofNat gw.tag]) (z := gw.write ++ key)
      (by simp [← hd]) (by simp)
  have hlen : d.length = pre.length + 3 + gw.write.length + key.length := by
    simp [← hd]; omega
  unfold ipseckeyParse
  rw [if_neg (by omega), i0, i1, i2]
  simp only [Out.bind_ok, hpn, han]
  have hdd : d = (pre ++ [UInt8.ofNat prec, UInt8.ofNat gw.tag, UInt8.ofNat alg]) ++
      (gw.write ++ key) := by simp [← hd]
  cases gw with
  | none =>
    simp only [Gateway.tag, Gateway.write, List.nil_append, List.length_nil] at *
    have : (UInt8.ofNat 0).toNat = 0 := rfl
    simp only [this, Out.bind_ok]
    rw [Rfc.slice_at (a := pre ++ [UInt8.ofNat prec, UInt8.ofNat 0, UInt8.ofNat alg]) (m := key)
      (z := []) (by simp [hdd]) (by simp) (by simp; omega)]
    simp
  | v4 a =>
    simp only [Gateway.tag, Gateway.write, beN_length] at *
    have : (UInt8.ofNat 1).toNat = 1 := rfl
    simp only [this]
    rw [if_neg (by omega)]
    rw [Rfc.slice_at (a := pre ++ [UInt8.ofNat prec, UInt8.ofNat 1, UInt8.ofNat alg])
      (m := beN 4 a) (z := key) hdd (by simp) (by simp)]
    simp only [Out.bind_ok, Out.pure_eq, deN_beN 4 a (by simpa [Gateway.WF] using hg)]
    rw [Rfc.slice_at (a := pre ++ [UInt8.ofNat prec, UInt8.ofNat 1, UInt8.ofNat alg] ++ beN 4 a)
      (m := key) (z := []) (by simp [hdd]) (by simp) (by simp; omega)]
    simp
  | v6 a =>
    simp only [Gateway.tag, Gateway.write, beN_length] at *
    have : (UInt8.ofNat 2).toNat = 2 := rfl
    simp only [this]
    rw [if_neg (by omega)]
    rw [Rfc.slice_at (a := pre ++ [UInt8.ofNat prec, UInt8.ofNat 2, UInt8.ofNat alg])
      (m := beN 16 a) (z := key) hdd (by simp) (by simp)]
    simp only [Out.bind_ok, Out.pure_eq, deN_beN 16 a (by simpa [Gateway.WF] using hg)]
    rw [Rfc.slice_at (a := pre ++ [UInt8.ofNat prec, UInt8.ofNat 2, UInt8.ofNat alg] ++ beN 16 a)
      (m := key) (z := []) (by simp [hdd]) (by simp) (by simp; omega)]
    simp
  | domain n =>
    simp only [Gateway.tag, Gateway.write] at *
    have : (UInt8.ofNat 3).toNat = 3 := rfl
    simp only [this]
    have hn := Name.parse_write (show Name.WF n from hg)
      (pre ++ [UInt8.ofNat prec, UInt8.ofNat 3, UInt8.ofNat alg]) key
    rw [← hdd] at hn
    simp only [List.length_append, List.length_cons, List.length_nil] at hn
    rw [hn]
    simp only [Out.bind_ok, Out.pure_eq]
    rw [Rfc.slice_at (a := pre ++ [UInt8.ofNat prec, UInt8.ofNat 3, UInt8.ofNat alg] ++ Name.write n)
      (m := key) (z := []) (by simp [hdd]) (by simp [Name.write_length]; omega)
      (by simp [Name.write_length] at hlen ⊢; omega)]
    simp

/-! ### 3b. OPT (RFC 6891 6.1.2): the RDATA is the list of {OPTION-CODE, OPTION-LENGTH, OPTION-DATA}

The fixed part of the OPT pseudo-record (CLASS = UDP size, TTL = extended RCODE and version) is
property C09. -/

theorem rfc_opt_rdata (o : OptData) :
    RData.write (.opt o) = .ok (Spec.Rfc6891.encodeOptions o.codes) := by
  simp [RData.write, encOptCodes, Rfc.encTlvs22_eq_encodeOptions]

theorem rfc_opt_rdata_parse (pre : Bytes) (xs : List (Nat × Bytes))
    (hx : ∀ x ∈ xs, x.1 < 65536 ∧ x.2.length < 65536) :
    optLoop (pre ++ Spec.Rfc6891.encodeOptions xs) pre.length []
      = .ok (xs, (pre ++ Spec.Rfc6891.encodeOptions xs).length) := by
  have := Rfc.optLoop_prefix xs pre [] [] hx
  simp only [List.append_nil] at this
  rw [← Rfc.encTlvs22_eq_encodeOptions, this, optLoop, dif_neg (by omega)]
  simp

/-! ### 4. parsing the RFC encoding gives the RFC's field values -/

/-- One field: the reader of kind `k`, on the reference encoding of a value under the matching RFC
kind, returns the value and the cursor just past the encoding. A field that reads to the end of
the RDATA (opaque rest, strings, triples) must be followed by nothing. -/
theorem rfc_decode_field {k : FKind} {sk : Spec.SKind} {v : Val} (pre post : Bytes)
    (hm : kindMatches k sk = true) (hv : FieldOK k v) (hs : k.Safe)
    (ht : Rfc.tailKind k = true → post = []) :
    decField (pre ++ (Spec.encodeField sk v.toSpec ++ post)) k pre.length
      = .ok (v, pre.length + (Spec.encodeField sk v.toSpec).length) := by
  rw [← encField_eq_rfc hm hv]
  exact Rfc.decode_field k v pre post hv hs ht

theorem rfc_decode_field_int (pre post : Bytes) (w n : Nat) (h : n < 256 ^ w) :
    decField (pre ++ (Spec.octetsOf w n ++ post)) (.int w) pre.length
      = .ok (.int n, pre.length + w) := by
  rw [← Rfc.beN_eq_octetsOf]; exact Rfc.decode_int pre post w n h

theorem rfc_decode_field_charstr (pre s post : Bytes) (hs : s.length ≤ 255) :
    decField (pre ++ (Spec.encodeField .characterString (.octets s) ++ post)) .charstr pre.length
      = .ok (.bytes s, pre.length + (s.length + 1)) :=
  Rfc.decode_charstr pre s post hs

theorem rfc_decode_field_name (pre post : Bytes) (c : Bool) (n : Name) (h : Name.WF n) :
    decField (pre ++ (Spec.encLabels n ++ post)) (.name c) pre.length
      = .ok (.name n, pre.length + (Spec.encLabels n).length) := by
  rw [← Rfc.nameWrite_eq_encLabels, Name.write_length]; exact Rfc.decode_name pre post c n h

theorem rfc_decode_field_rest (pre b : Bytes) :
    decField (pre ++ b) .rest pre.length = .ok (.bytes b, pre.length + b.length) :=
  Rfc.decode_rest pre b

theorem rfc_decode_field_strs (pre : Bytes) (ss : List Bytes) (hs : ∀ s ∈ ss, s.length ≤ 255) :
    decField (pre ++ Spec.encStrings ss) .strs pre.length
      = .ok (.strs ss, pre.length + (Spec.encStrings ss).length) := by
  rw [← Rfc.encStrs_eq_encStrings]; exact Rfc.decode_strs pre ss hs

theorem rfc_decode_field_tlvs (pre : Bytes) (kw lw : Nat) (strict : Bool) (hkl : 0 < kw + lw)
    (xs : List (Nat × Bytes)) (hx : ∀ x ∈ xs, x.1 < 256 ^ kw ∧ x.2.length < 256 ^ lw)
    (hinc : strict = true → KeysIncreasing xs) :
    decField (pre ++ Spec.encTriples kw lw xs) (.tlvs kw lw strict) pre.length
      = .ok (.tlvs xs, pre.length + (Spec.encTriples kw lw xs).length) := by
  rw [← Rfc.encTlvs_eq_encTriples]; exact Rfc.decode_tlvs pre kw lw strict hkl xs hx hinc

/-- Parsing the reference RFC encoding of field values that fit a supported type yields exactly
those values, and consumes exactly the encoding (`pre` is whatever precedes the RDATA in the
message; the typed parser sees the message cut at the end of the RDATA). -/
theorem rfc_parse {code : Nat} {ks : List FKind} {vs : List Val} {bytes : Bytes} (pre : Bytes)
    (hs : schemaOf code = some ks) (hok : AllOK ks vs) (hc : flatCheck code vs = true)
    (he : Spec.encode code (vs.map Val.toSpec) = some bytes) :
    parseTyped (pre ++ bytes) pre.length (TYPE.ofCode code)
      = .ok (.flat code vs, pre.length + bytes.length) := by
  rw [(rfc_encoding hs hok hc).2] at he
  cases he
  exact Rfc.parseTyped_enc pre hs hok hc

/-- The same for a whole record body: TYPE (the IANA number), two CLASS octets, four TTL octets,
RDLENGTH, the reference encoding, then the rest of the message. `RData::parse` dispatches on the
type number, cuts the message at RDLENGTH and returns the RFC's field values. -/
theorem rfc_parse_record {code : Nat} {ks : List FKind} {vs : List Val} {bytes : Bytes}
    (pre cb tb post : Bytes) (hcb : cb.length = 2) (htb : tb.length = 4)
    (hs : schemaOf code = some ks) (hok : AllOK ks vs) (hc : flatCheck code vs = true)
    (he : Spec.encode code (vs.map Val.toSpec) = some bytes) (hlen : bytes.length < 65536) :
    RData.parse (pre ++ (Spec.octetsOf 2 code ++ (cb ++ (tb ++ (Spec.octetsOf 2 bytes.length ++
        (bytes ++ post)))))) pre.length
      = .ok (.flat code vs, pre.length + 10 + bytes.length) := by
  rw [(rfc_encoding hs hok hc).2] at he
  cases he
  rw [← Rfc.beN_eq_octetsOf, ← Rfc.beN_eq_octetsOf]
  exact Rfc.rdataParse_enc pre cb tb post hcb htb hs hok hc hlen

/-! ### 5. encodings that break a structural rule are rejected -/

/-- (general form of the LOC rule) when the type's extra check fails on the decoded values, the
record is rejected on parse and refused on write -/
theorem check_failed_rejected {code : Nat} {ks : List FKind} {vs : List Val} (pre : Bytes)
    (hs : schemaOf code = some ks) (hok : AllOK ks vs) (hc : flatCheck code vs = false) :
    parseTyped (pre ++ encAll ks vs) pre.length (TYPE.ofCode code) = .err ∧
    RData.write (.flat code vs) = .err := by
  constructor
  · rw [Rfc.parseTyped_flat _ _ _ _ hs,
      Rfc.decode_all ks vs pre hok (schemaOf_safe hs) (Rfc.schemaOf_shape hs).1]
    simp [hc]
  · simp [RData.write, hs, hc]

/-- (a) LOC (RFC 1876: "VERSION … must be zero"): a 16-octet RDATA whose first octet is not 0 is
rejected, although its layout is fine. -/
theorem loc_version_rejected (pre rd : Bytes) (hl : rd.length = 16) (b : UInt8)
    (hb : rd.head? = some b) (hne : b ≠ 0) : parseTyped (pre ++ rd) pre.length .LOC = .err := by
  obtain ⟨b0, b1, b2, b3, b4, b5, b6, b7, b8, b9, b10, b11, b12, b13, b14, b15, rfl⟩ :
      ∃ b0 b1 b2 b3 b4 b5 b6 b7 b8 b9 b10 b11 b12 b13 b14 b15,
        rd = [b0, b1, b2, b3, b4, b5, b6, b7, b8, b9, b10, b11, b12, b13, b14, b15] := by
    match rd, hl with
    | [b0, b1, b2, b3, b4, b5, b6, b7, b8, b9, b10, b11, b12, b13, b14, b15], _ =>
      exact ⟨_, _, _, _, _, _, _, _, _, _, _, _, _, _, _, _, rfl⟩
  simp only [List.head?_cons, Option.some.injEq] at hb
  subst hb
  let vs : List Val := [.int (deN [b0]), .int (deN [b1]), .int (deN [b2]), .int (deN [b3]),
    .int (deN [b4, b5, b6, b7]), .int (deN [b8, b9, b10, b11]), .int (deN [b12, b13, b14, b15])]
  have hs : schemaOf 29 = some [.int 1, .int 1, .int 1, .int 1, .int 4, .int 4, .int 4] := rfl
  have henc : encAll [.int 1, .int 1, .int 1, .int 1, .int 4, .int 4, .int 4] vs
      = [b0, b1, b2, b3, b4, b5, b6, b7, b8, b9, b10, b11, b12, b13, b14, b15] := by
    have e1 : ∀ x : UInt8, beN 1 (deN [x]) = [x] := fun x => beN_deN [x]
    have e4 : ∀ x y z w : UInt8, beN 4 (deN [x, y, z, w]) = [x, y, z, w] :=
      fun x y z w => beN_deN [x, y, z, w]
    simp only [vs, encAll, encField, e1, e4]
    rfl
  have hok : AllOK [.int 1, .int 1, .int 1, .int 1, .int 4, .int 4, .int 4] vs := by
    refine ⟨deN_lt [b0], deN_lt [b1], deN_lt [b2], deN_lt [b3], deN_lt [b4, b5, b6, b7],
      deN_lt [b8, b9, b10, b11], deN_lt [b12, b13, b14, b15], trivial⟩
  have hc : flatCheck 29 vs = false := by
    have : b0.toNat ≠ 0 := fun h => hne (UInt8.toNat_inj.mp (by simpa using h))
    simp [vs, flatCheck, deN, this]
  have := (check_failed_rejected pre hs hok hc).1
  rw [henc] at this
  exact this

/-- (b) the ordering rule of one triple: with strict order, a key read at `pos` that is not
greater than the previous key is an error (NSEC: `window_block`, SVCB: `SvcParamKey`) -/
theorem key_not_increasing_rejected {d : Bytes} {kw lw prev pos : Nat}
    (h : deN ((d.drop pos).take kw) ≤ prev) : tlvOne d kw lw true (some prev) pos = .err :=
  Rfc.tlvOne_key_not_increasing h

/-- lifted to the loop: whenever the keys of the encoded triples are not strictly increasing —
wherever the order breaks — the field is rejected -/
theorem unordered_triples_rejected (pre : Bytes) (kw lw : Nat) (hkl : 0 < kw + lw)
    (xs : List (Nat × Bytes)) (hx : ∀ x ∈ xs, x.1 < 256 ^ kw ∧ x.2.length < 256 ^ lw)
    (hno : ¬ KeysIncreasing xs) :
    decField (pre ++ Spec.encTriples kw lw xs) (.tlvs kw lw true) pre.length = .err := by
  have := Rfc.tlvs_unordered_rejected kw lw hkl xs pre [] [] hx
    (fun h => hno h.1)
  rw [← Rfc.encTlvs_eq_encTriples]
  simp only [List.append_nil] at this
  simp [decField, this]

/-- in particular when the second key is not greater than the first -/
theorem second_key_not_greater_rejected (pre : Bytes) (kw lw : Nat) (hkl : 0 < kw + lw)
    (k1 k2 : Nat) (v1 v2 : Bytes) (h1 : k1 < 256 ^ kw ∧ v1.length < 256 ^ lw)
    (h2 : k2 < 256 ^ kw ∧ v2.length < 256 ^ lw) (hle : k2 ≤ k1) :
    tlvsLoop (pre ++ Spec.encTriples kw lw [(k1, v1), (k2, v2)]) kw lw true pre.length [] = .err := by
  have := Rfc.tlvs_unordered_rejected kw lw hkl [(k1, v1), (k2, v2)] pre [] []
    (by intro x hx; simp at hx; rcases hx with rfl | rfl <;> assumption)
    (by intro h; have := h.1.1; simp at this; omega)
  rw [← Rfc.encTlvs_eq_encTriples]
  simpa using this

/-- NSEC (RFC 4034 4.1.2: "Blocks are present in the NSEC RR RDATA in increasing numerical
order"): windows not strictly increasing -/
theorem nsec_unordered_rejected (pre : Bytes) (n : Name) (hn : Name.WF n)
    (xs : List (Nat × Bytes)) (hx : ∀ x ∈ xs, x.1 < 256 ∧ x.2.length < 256)
    (hno : ¬ KeysIncreasing xs) :
    parseTyped (pre ++ (Spec.encLabels n ++ Spec.encTriples 1 1 xs)) pre.length .NSEC = .err := by
  have h1 := rfc_decode_field_name pre (Spec.encTriples 1 1 xs) false n hn
  have h2 := unordered_triples_rejected (pre ++ Spec.encLabels n) 1 1 (by decide) xs
    (by simpa using hx) hno
  have hp := Rfc.parseTyped_flat (pre ++ (Spec.encLabels n ++ Spec.encTriples 1 1 xs)) pre.length
    47 _ rfl
  have e : TYPE.ofCode 47 = .NSEC := rfl
  rw [e] at hp
  rw [hp]
  simp only [decAll, h1, Out.bind_ok]
  rw [show pre.length + (Spec.encLabels n).length = (pre ++ Spec.encLabels n).length by simp,
    show pre ++ (Spec.encLabels n ++ Spec.encTriples 1 1 xs)
      = (pre ++ Spec.encLabels n) ++ Spec.encTriples 1 1 xs by simp, h2]
  rfl

/-- SVCB / HTTPS (RFC 9460 2.2: "SvcParamKeys SHALL appear in increasing numeric order"; the
library's parser insists on strictly increasing keys) -/
theorem svcb_unordered_rejected (pre : Bytes) (prio : Nat) (hp : prio < 65536) (n : Name)
    (hn : Name.WF n) (xs : List (Nat × Bytes)) (hx : ∀ x ∈ xs, x.1 < 65536 ∧ x.2.length < 65536)
    (hno : ¬ KeysIncreasing xs) :
    parseTyped (pre ++ (Spec.octetsOf 2 prio ++ (Spec.encLabels n ++ Spec.encTriples 2 2 xs)))
      pre.length .SVCB = .err ∧
    parseTyped (pre ++ (Spec.octetsOf 2 prio ++ (Spec.encLabels n ++ Spec.encTriples 2 2 xs)))
      pre.length .HTTPS = .err := by
  have h0 := rfc_decode_field_int pre (Spec.encLabels n ++ Spec.encTriples 2 2 xs) 2 prio
    (by simpa using hp)
  have h1 := rfc_decode_field_name (pre ++ Spec.octetsOf 2 prio) (Spec.encTriples 2 2 xs) false n hn
  have h2 := unordered_triples_rejected ((pre ++ Spec.octetsOf 2 prio) ++ Spec.encLabels n) 2 2
    (by decide) xs (by simpa using hx) hno
  have hl : (Spec.octetsOf 2 prio).length = 2 := by rw [← Rfc.beN_eq_octetsOf]; simp
  have key : decAll (pre ++ (Spec.octetsOf 2 prio ++ (Spec.encLabels n ++ Spec.encTriples 2 2 xs)))
      [.int 2, .name false, .tlvs 2 2 true] pre.length = .err := by
    simp only [decAll, h0, Out.bind_ok]
    rw [show pre.length + 2 = (pre ++ Spec.octetsOf 2 prio).length by simp [hl],
      show pre ++ (Spec.octetsOf 2 prio ++ (Spec.encLabels n ++ Spec.encTriples 2 2 xs))
        = (pre ++ Spec.octetsOf 2 prio) ++ (Spec.encLabels n ++ Spec.encTriples 2 2 xs) by simp,
      h1]
    simp only [Out.bind_ok]
    rw [show (pre ++ Spec.octetsOf 2 prio).length + (Spec.encLabels n).length
        = ((pre ++ Spec.octetsOf 2 prio) ++ Spec.encLabels n).length by simp; omega,
      show (pre ++ Spec.octetsOf 2 prio) ++ (Spec.encLabels n ++ Spec.encTriples 2 2 xs)
        = ((pre ++ Spec.octetsOf 2 prio) ++ Spec.encLabels n) ++ Spec.encTriples 2 2 xs by simp,
      h2]
    rfl
  have hp64 := Rfc.parseTyped_flat
    (pre ++ (Spec.octetsOf 2 prio ++ (Spec.encLabels n ++ Spec.encTriples 2 2 xs))) pre.length 64 _ rfl
  have hp65 := Rfc.parseTyped_flat
    (pre ++ (Spec.octetsOf 2 prio ++ (Spec.encLabels n ++ Spec.encTriples 2 2 xs))) pre.length 65 _ rfl
  have e64 : TYPE.ofCode 64 = .SVCB := rfl
  have e65 : TYPE.ofCode 65 = .HTTPS := rfl
  rw [e64] at hp64
  rw [e65] at hp65
  rw [hp64, hp65, key]
  exact ⟨rfl, rfl⟩

/-- (c) an inner length that overruns the RDATA: a <character-string> whose length octet announces
more than what remains -/
theorem charstr_overrun_rejected {d : Bytes} {pos : Nat} (h : pos < d.length)
    (hl : d[pos].toNat + pos + 1 > d.length) : CharStr.parse d pos = .err :=
  Rfc.charStr_overrun h hl

/-- the (key, length) head of a triple does not fit in what remains -/
theorem triple_head_overrun_rejected {d : Bytes} {kw lw : Nat} {strict : Bool} {prev : Option Nat}
    {pos : Nat} (h : pos + kw + lw > d.length) : tlvOne d kw lw strict prev pos = .err :=
  Rfc.tlvOne_overrun_head h

/-- the length field of a triple announces more than what remains -/
theorem triple_value_overrun_rejected {d : Bytes} {kw lw : Nat} {strict : Bool}
    {prev : Option Nat} {pos : Nat}
    (h : pos + kw + lw + deN ((d.drop (pos + kw)).take lw) > d.length) :
    tlvOne d kw lw strict prev pos = .err :=
  Rfc.tlvOne_overrun_value h

/-- TXT: after any number of whole strings, a string whose length octet `lb` announces more than
the `rest` of the RDATA -/
theorem txt_overrun_rejected (pre : Bytes) (ss : List Bytes) (lb : UInt8) (rest : Bytes)
    (hs : ∀ s ∈ ss, s.length ≤ 255) (hbad : lb.toNat > rest.length) :
    parseTyped (pre ++ (Spec.encStrings ss ++ lb :: rest)) pre.length .TXT = .err := by
  have hp := Rfc.parseTyped_flat (pre ++ (Spec.encStrings ss ++ lb :: rest)) pre.length 16 _ rfl
  have e : TYPE.ofCode 16 = .TXT := rfl
  rw [e] at hp
  rw [hp, ← Rfc.encStrs_eq_encStrings]
  simp [decAll, decField, Rfc.strs_overrun_rejected pre ss lb rest [] hs hbad]

/-- NSEC windows / SVCB parameters: after any number of whole triples, a fragment that is not a
whole triple (`Rfc.BadTriple`: head does not fit, or the length field overruns) -/
theorem triples_overrun_rejected (pre : Bytes) (kw lw : Nat) (strict : Bool) (hkl : 0 < kw + lw)
    (xs : List (Nat × Bytes)) (bad : Bytes)
    (hx : ∀ x ∈ xs, x.1 < 256 ^ kw ∧ x.2.length < 256 ^ lw)
    (hinc : strict = true → KeysIncreasing xs) (hbad : Rfc.BadTriple kw lw bad) :
    decField (pre ++ (Spec.encTriples kw lw xs ++ bad)) (.tlvs kw lw strict) pre.length = .err := by
  rw [← Rfc.encTlvs_eq_encTriples]
  simp [decField, Rfc.tlvs_overrun_rejected pre kw lw strict hkl xs bad hx hinc hbad]

/-- the same for the option loop of OPT -/
theorem options_overrun_rejected (pre : Bytes) (xs : List (Nat × Bytes)) (bad : Bytes)
    (hx : ∀ x ∈ xs, x.1 < 65536 ∧ x.2.length < 65536) (hbad : Rfc.BadTriple 2 2 bad) :
    optLoop (pre ++ (Spec.Rfc6891.encodeOptions xs ++ bad)) pre.length [] = .err := by
  rw [← Rfc.encTlvs22_eq_encodeOptions]
  exact Rfc.opt_overrun_rejected pre xs bad [] hx hbad

/-- "rejected" is always `Err`, never a panic -/
theorem reject_never_panics (d : Bytes) (pos : Nat) (t : TYPE) (ht : t ≠ .OPT)
    (hp : pos ≤ d.length) : parseTyped d pos t ≠ .panic :=
  parseTyped_ne_panic d pos t ht hp

/-! ### examples: the hypotheses are satisfiable, on concrete non-trivial values -/

/-- MX 10 mx.a. -/
example : AllOK [.int 2, .name true] [.int 10, .name [[109, 120], [97]]] := by decide
example : RData.write (.flat 15 [.int 10, .name [[109, 120], [97]]])
      = .ok [0, 10, 2, 109, 120, 1, 97, 0] ∧
    Spec.encode 15 [.num 10, .labels [[109, 120], [97]]] = some [0, 10, 2, 109, 120, 1, 97, 0] := by
  decide
example : RData.write (.flat 15 [.int 10, .name [[109, 120], [97]]])
      = .ok (encAll [.int 2, .name true] [.int 10, .name [[109, 120], [97]]]) ∧
    Spec.encode 15 ([.int 10, .name [[109, 120], [97]]].map Val.toSpec)
      = some (encAll [.int 2, .name true] [.int 10, .name [[109, 120], [97]]]) :=
  rfc_encoding (code := 15) rfl (by decide) rfl
example (pre : Bytes) : parseTyped (pre ++ [0, 10, 2, 109, 120, 1, 97, 0]) pre.length .MX
    = .ok (.flat 15 [.int 10, .name [[109, 120], [97]]], pre.length + 8) :=
  rfc_parse (code := 15) pre rfl (by decide) rfl (by decide)

/-- NSEC next = a., windows 0 (bitmap 0x40 = type A) and 1 (3 octets) -/
example : RData.write (.flat 47 [.name [[97]], .tlvs [(0, [0x40]), (1, [0, 0, 0x80])]])
      = .ok [1, 97, 0, 0, 1, 0x40, 1, 3, 0, 0, 0x80] ∧
    Spec.encode 47 [.labels [[97]], .triples [(0, [0x40]), (1, [0, 0, 0x80])]]
      = some [1, 97, 0, 0, 1, 0x40, 1, 3, 0, 0, 0x80] := by decide
example (pre : Bytes) : parseTyped (pre ++ [1, 97, 0, 0, 1, 0x40, 1, 3, 0, 0, 0x80]) pre.length .NSEC
    = .ok (.flat 47 [.name [[97]], .tlvs [(0, [0x40]), (1, [0, 0, 0x80])]], pre.length + 11) :=
  rfc_parse (code := 47) pre rfl (by decide) rfl (by decide)
/-- the same windows in the wrong order are rejected -/
example (pre : Bytes) : parseTyped (pre ++ [1, 97, 0, 1, 3, 0, 0, 0x80, 0, 1, 0x40]) pre.length .NSEC
    = .err :=
  nsec_unordered_rejected pre [[97]] (by decide) [(1, [0, 0, 0x80]), (0, [0x40])] (by decide)
    (by decide)

/-- TXT "ab" "" and a third string announcing 5 octets with 2 present -/
example (pre : Bytes) : parseTyped (pre ++ [2, 97, 98, 0, 5, 1, 2]) pre.length .TXT = .err :=
  txt_overrun_rejected pre [[97, 98], []] 5 [1, 2] (by decide) (by decide)

/-- LOC with VERSION 1 -/
example (pre : Bytes) :
    parseTyped (pre ++ [1, 0x12, 0x16, 0x13, 0x89, 0x17, 0x2D, 0xD0, 0x70, 0xBE, 0x15, 0xF0, 0, 0x98,
      0x8D, 0x20]) pre.length .LOC = .err :=
  loc_version_rejected pre _ rfl 1 rfl (by decide)

/-- IPSECKEY 10 2 (IPv4 192.0.2.38) with a 3-octet key (RFC 4025 section 3.2 style) -/
example : RData.write (.ipseckey 10 2 (.v4 0xC0000226) [1, 2, 3])
      = .ok [10, 1, 2, 192, 0, 2, 38, 1, 2, 3] ∧
    Spec.encodeIpseckey 10 2 (.ipv4 0xC0000226) [1, 2, 3] = [10, 1, 2, 192, 0, 2, 38, 1, 2, 3] := by
  decide

end Dns
